(* Generic driver: reads lines "<input-sx>\t<impl-observation-sx>", calls the
   extracted judge of the requested property and prints one verdict per line.
   Nothing here knows anything about any property: decoders, models and
   monitors are all extracted Coq. *)
open Bbs
open Judges

(* ---- OCaml int / decimal string <-> Coq Z ---- *)
let rec pos_of_int (n : int) : positive =
  if n = 1 then XH
  else if n land 1 = 0 then XO (pos_of_int (n lsr 1))
  else XI (pos_of_int (n lsr 1))

let z_of_int (n : int) : z =
  if n = 0 then Z0 else if n > 0 then Zpos (pos_of_int n) else Zneg (pos_of_int (-n))

let z_of_string (s : string) : z =
  let neg = String.length s > 0 && s.[0] = '-' in
  let digits = if neg then String.sub s 1 (String.length s - 1) else s in
  if String.length digits <= 17 then z_of_int (int_of_string s)
  else begin
    let ten = z_of_int 10 in
    let acc = ref Z0 in
    String.iter (fun c -> acc := Z.add (Z.mul !acc ten) (z_of_int (Char.code c - 48))) digits;
    if neg then Z.opp !acc else !acc
  end

(* positive -> decimal string, arbitrary size (digits little-endian in a Buffer) *)
let string_of_pos (p : positive) : string =
  (* collect bits most significant first *)
  let rec bits p acc = match p with
    | XH -> 1 :: acc
    | XO q -> bits q (0 :: acc)
    | XI q -> bits q (1 :: acc) in
  let bs = bits p [] in
  let small = List.length bs <= 61 in
  if small then string_of_int (List.fold_left (fun a b -> a * 2 + b) 0 bs)
  else begin
    let digits = ref [0] in (* little endian decimal *)
    let double_add b =
      let carry = ref b in
      digits := List.map (fun d -> let v = d * 2 + !carry in carry := v / 10; v mod 10) !digits;
      if !carry > 0 then digits := !digits @ [!carry] in
    List.iter double_add bs;
    String.concat "" (List.rev_map string_of_int !digits)
  end

let string_of_z = function
  | Z0 -> "0"
  | Zpos p -> string_of_pos p
  | Zneg p -> "-" ^ string_of_pos p

(* ---- sx text format ----
   atom: decimal integer;  list: ( ... );  x<hex>: list of byte atoms;  "": not used *)
exception Parse_error of string

let parse_sx (s : string) (pos : int ref) : sx =
  let n = String.length s in
  let skip () = while !pos < n && (s.[!pos] = ' ') do incr pos done in
  let hexval c = match c with
    | '0'..'9' -> Char.code c - 48
    | 'a'..'f' -> Char.code c - 87
    | 'A'..'F' -> Char.code c - 55
    | _ -> raise (Parse_error "hex") in
  let rec go () : sx =
    skip ();
    if !pos >= n then raise (Parse_error "eof");
    match s.[!pos] with
    | '(' ->
        incr pos;
        let items = ref [] in
        let fin = ref false in
        while not !fin do
          skip ();
          if !pos >= n then raise (Parse_error "unclosed");
          if s.[!pos] = ')' then (incr pos; fin := true)
          else items := go () :: !items
        done;
        L (List.rev !items)
    | 'x' ->
        incr pos;
        let items = ref [] in
        while !pos + 1 < n && (match s.[!pos] with '0'..'9'|'a'..'f'|'A'..'F' -> true | _ -> false) do
          items := A (z_of_int (hexval s.[!pos] * 16 + hexval s.[!pos+1])) :: !items;
          pos := !pos + 2
        done;
        L (List.rev !items)
    | '-' | '0'..'9' ->
        let st = !pos in
        incr pos;
        while !pos < n && (match s.[!pos] with '0'..'9' -> true | _ -> false) do incr pos done;
        A (z_of_string (String.sub s st (!pos - st)))
    | c -> raise (Parse_error (Printf.sprintf "unexpected %c at %d" c !pos))
  in go ()

let rec print_sx (b : Buffer.t) (s : sx) : unit =
  match s with
  | A z -> Buffer.add_string b (string_of_z z)
  | L l ->
      Buffer.add_char b '(';
      List.iteri (fun i x -> if i > 0 then Buffer.add_char b ' '; print_sx b x) l;
      Buffer.add_char b ')'

let sx_to_string s = let b = Buffer.create 256 in print_sx b s; Buffer.contents b

let () =
  let prop = Sys.argv.(1) in
  let file = Sys.argv.(2) in
  let judge = judge_of prop in
  let ic = open_in file in
  let total = ref 0 and agree = ref 0 and diff = ref 0 and viol = ref 0 and bad = ref 0 in
  (try
     while true do
       let line = input_line ic in
       if String.length line > 0 && line.[0] <> '#' then begin
         incr total;
         match String.index_opt line '\t' with
         | None -> incr bad; Printf.printf "%d BADLINE\n" !total
         | Some t ->
             (try
                let inp = parse_sx (String.sub line 0 t) (ref 0) in
                let rest = String.sub line (t + 1) (String.length line - t - 1) in
                let rest = (match String.index_opt rest '\t' with Some u -> String.sub rest 0 u | None -> rest) in
                let obs = parse_sx rest (ref 0) in
                (match judge inp obs with
                 | L [A ag; A vi; m; detail] ->
                     let ag = (ag <> Z0) and vi = (vi <> Z0) in
                     if ag then incr agree else incr diff;
                     if vi then incr viol;
                     if ag && not vi then Printf.printf "%d AGREE\n" !total
                     else Printf.printf "%d %s%s model=%s detail=%s\n" !total
                         (if ag then "AGREE" else "DIFF") (if vi then " VIOLATES" else "")
                         (sx_to_string m) (sx_to_string detail)
                 | _ -> incr bad; Printf.printf "%d BADVERDICT\n" !total)
              with Parse_error e -> incr bad; Printf.printf "%d BADPARSE %s\n" !total e)
       end
     done
   with End_of_file -> ());
  close_in ic;
  Printf.printf "SUMMARY total=%d agree=%d diff=%d violates=%d bad=%d\n" !total !agree !diff !viol !bad
