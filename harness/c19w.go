package main

// C19W — sub-check of C19: the wiring of the demultiplexing backend in
// pkg/blobstore/configuration/new_blob_access.go.  The composite is built by the
// real configuration.NewBlobAccessFromConfiguration from a `demultiplexing`
// configuration message (a MAP from instance name prefix to backend and
// add_instance_name_prefix).  Every backend is a `grpc` backend; the harness hands
// the constructor a grpc.ClientFactory whose connections are in-process fakes of
// the remote CAS (ByteStream Read/Write, FindMissingBlobs): each fake holds a set
// of digests, may be faulty, and records every request it receives, so that the
// backend reached and the instance name it saw are observed directly.
//
// Input: (2 cfg backends ops) exactly as C19's demultiplexer cases, without
//        GetFromComposite (the remote CAS client needs a slicer) and without
//        duplicate prefixes (map keys):
//        cfg entry = (prefix add_prefix); backend = (present fault);
//        op = (0 d) Get | (2 d) Put | (3 (d...)) FindMissing
// Observation: one (code data calls errname) per op; code/data/calls as in C19,
//        errname = () or (name): the backend name in the `Backend "<name>": `
//        annotation of the error message.

import (
	"bytes"
	"context"
	"crypto/md5"
	"encoding/hex"
	"fmt"
	"io"
	"strconv"
	"strings"

	remoteexecution "github.com/bazelbuild/remote-apis/build/bazel/remote/execution/v2"
	"github.com/buildbarn/bb-storage/pkg/blobstore/buffer"
	"github.com/buildbarn/bb-storage/pkg/blobstore/configuration"
	"github.com/buildbarn/bb-storage/pkg/digest"
	"github.com/buildbarn/bb-storage/pkg/program"
	pb "github.com/buildbarn/bb-storage/pkg/proto/configuration/blobstore"
	grpcpb "github.com/buildbarn/bb-storage/pkg/proto/configuration/grpc"

	"google.golang.org/genproto/googleapis/bytestream"
	"google.golang.org/grpc"
	"google.golang.org/grpc/codes"
	"google.golang.org/grpc/metadata"
	"google.golang.org/grpc/status"
)

func init() { props["C19W"] = c19w{} }

type c19w struct{}

// ---------------------------------------------------------------- digests
// The remote CAS client validates what it reads and writes, so the digests
// are genuine: blob identity b <-> the MD5 digest of the text "c19w blob <b>".

var c19wHashes = map[string]int64{}

func c19wContent(blob int64) []byte { return []byte(fmt.Sprintf("c19w blob %d", blob)) }

func c19wDigest(inst string, blob int64) digest.Digest {
	c := c19wContent(blob)
	s := md5.Sum(c)
	h := hex.EncodeToString(s[:])
	c19wHashes[h] = blob
	return digest.MustNewDigest(inst, remoteexecution.DigestFunction_MD5, h, int64(len(c)))
}

func c19wBlobOf(hash string, size int64) int64 {
	if b, ok := c19wHashes[hash]; ok && int64(len(c19wContent(b))) == size {
		return b
	}
	return 999983
}

func c19wDgSx(inst, hash string, size int64) Sx { return L(LStr(inst), A(c19wBlobOf(hash, size))) }
func c19wDigestSx(d digest.Digest) Sx {
	return c19wDgSx(d.GetInstanceName().String(), d.GetHashString(), d.GetSizeBytes())
}
func c19wKey(inst string, blob int64) string { return inst + "|" + strconv.FormatInt(blob, 10) }

func c19wDgOf(s Sx) (digest.Digest, bool) {
	if s.Len() != 2 || !s.Nth(1).IsAtom {
		return digest.Digest{}, false
	}
	in, ok := c19Name(s.Nth(0))
	blob := s.Nth(1).Z
	if !ok || blob < 0 || blob > 1<<20 {
		return digest.Digest{}, false
	}
	return c19wDigest(in.String(), blob), true
}

// ---------------------------------------------------------------- fake remote CAS

type c19wCall struct {
	idx, kind int
	dgs       []Sx
}

type c19wConn struct {
	idx     int
	present map[string]bool
	fault   int
	calls   *[]c19wCall
}

func (c *c19wConn) err() error { return status.Error(codes.Code(c.fault), "injected fault") }

func (c *c19wConn) Invoke(ctx context.Context, method string, args, reply any, opts ...grpc.CallOption) error {
	if method != "/build.bazel.remote.execution.v2.ContentAddressableStorage/FindMissingBlobs" {
		return status.Error(codes.Unimplemented, "n/a")
	}
	req := args.(*remoteexecution.FindMissingBlobsRequest)
	resp := reply.(*remoteexecution.FindMissingBlobsResponse)
	dgs := []Sx{}
	for _, d := range req.BlobDigests {
		dgs = append(dgs, c19wDgSx(req.InstanceName, d.Hash, d.SizeBytes))
	}
	*c.calls = append(*c.calls, c19wCall{c.idx, 3, dgs})
	if c.fault != 0 {
		return c.err()
	}
	for _, d := range req.BlobDigests {
		if !c.present[c19wKey(req.InstanceName, c19wBlobOf(d.Hash, d.SizeBytes))] {
			resp.MissingBlobDigests = append(resp.MissingBlobDigests, d)
		}
	}
	return nil
}

func (c *c19wConn) NewStream(ctx context.Context, desc *grpc.StreamDesc, method string, opts ...grpc.CallOption) (grpc.ClientStream, error) {
	md, _ := metadata.FromOutgoingContext(ctx)
	names := md.Get("build.bazel.remote.execution.v2.resource-name")
	if len(names) != 1 {
		return nil, status.Error(codes.Internal, "no resource name")
	}
	switch method {
	case "/google.bytestream.ByteStream/Read":
		d, _, err := digest.NewDigestFromByteStreamReadPath(names[0])
		if err != nil {
			return nil, status.Error(codes.Internal, "bad resource name")
		}
		*c.calls = append(*c.calls, c19wCall{c.idx, 0, []Sx{c19wDigestSx(d)}})
		if c.fault != 0 {
			return nil, c.err()
		}
		blob := c19wBlobOf(d.GetHashString(), d.GetSizeBytes())
		if !c.present[c19wKey(d.GetInstanceName().String(), blob)] {
			return nil, status.Error(codes.NotFound, "not here")
		}
		return &c19wStream{ctx: ctx, data: c19wContent(blob)}, nil
	case "/google.bytestream.ByteStream/Write":
		d, _, err := digest.NewDigestFromByteStreamWritePath(names[0])
		if err != nil {
			return nil, status.Error(codes.Internal, "bad resource name")
		}
		*c.calls = append(*c.calls, c19wCall{c.idx, 2, []Sx{c19wDigestSx(d)}})
		if c.fault != 0 {
			return nil, c.err()
		}
		return &c19wStream{ctx: ctx, write: true}, nil
	}
	return nil, status.Error(codes.Unimplemented, "n/a")
}

type c19wStream struct {
	ctx   context.Context
	write bool
	data  []byte
	sent  int64
	done  bool
}

func (s *c19wStream) Header() (metadata.MD, error) { return nil, nil }
func (s *c19wStream) Trailer() metadata.MD         { return nil }
func (s *c19wStream) CloseSend() error             { return nil }
func (s *c19wStream) Context() context.Context     { return s.ctx }
func (s *c19wStream) SendMsg(m any) error {
	if w, ok := m.(*bytestream.WriteRequest); ok {
		s.sent += int64(len(w.Data))
	}
	return nil
}
func (s *c19wStream) RecvMsg(m any) error {
	if s.done {
		return io.EOF
	}
	s.done = true
	if s.write {
		m.(*bytestream.WriteResponse).CommittedSize = s.sent
		return nil
	}
	m.(*bytestream.ReadResponse).Data = s.data
	return nil
}

type c19wFactory struct{ conns []*c19wConn }

func (f c19wFactory) NewClientFromConfiguration(cfg *grpcpb.ClientConfiguration, group program.Group) (grpc.ClientConnInterface, error) {
	k, err := strconv.Atoi(cfg.GetAddress())
	if err != nil || k < 0 || k >= len(f.conns) {
		return nil, status.Error(codes.InvalidArgument, "unknown fake address")
	}
	return f.conns[k], nil
}

// `Backend "<name>": ...` -> (name); anything else -> ()
func c19wErrName(err error) Sx {
	if err == nil {
		return L()
	}
	msg := status.Convert(err).Message()
	if !strings.HasPrefix(msg, "Backend ") {
		return L()
	}
	q, qerr := strconv.QuotedPrefix(msg[len("Backend "):])
	if qerr != nil {
		return L()
	}
	name, uerr := strconv.Unquote(q)
	if uerr != nil {
		return L()
	}
	return L(LStr(name))
}

// ---------------------------------------------------------------- Exec

func (c19w) Exec(in Sx) (Sx, bool) {
	if in.IsAtom || in.Len() != 4 || !in.Nth(0).IsAtom || in.Nth(0).Z != 2 ||
		in.Nth(1).IsAtom || in.Nth(2).IsAtom || in.Nth(3).IsAtom || in.Nth(1).Len() != in.Nth(2).Len() || in.Nth(1).Len() == 0 {
		return Sx{}, false
	}
	var calls []c19wCall
	conns := []*c19wConn{}
	prefixes := map[string]*pb.DemultiplexedBlobAccessConfiguration{}
	for k, e := range in.Nth(1).List {
		if e.Len() != 2 {
			return Sx{}, false
		}
		match, ok1 := c19Name(e.Nth(0))
		add, ok2 := c19Name(e.Nth(1))
		bs := in.Nth(2).Nth(k)
		if !ok1 || !ok2 || bs.Len() != 2 || bs.Nth(0).IsAtom || !bs.Nth(1).IsAtom || !c19CodeOK(bs.Nth(1).Z) {
			return Sx{}, false
		}
		if _, dup := prefixes[match.String()]; dup {
			return Sx{}, false // a configuration map cannot repeat a key
		}
		present := map[string]bool{}
		for _, x := range bs.Nth(0).List {
			d, ok := c19wDgOf(x)
			if !ok {
				return Sx{}, false
			}
			present[c19wKey(d.GetInstanceName().String(), x.Nth(1).Z)] = true
		}
		conns = append(conns, &c19wConn{idx: k, present: present, fault: int(bs.Nth(1).Z), calls: &calls})
		prefixes[match.String()] = &pb.DemultiplexedBlobAccessConfiguration{
			AddInstanceNamePrefix: add.String(),
			Backend: &pb.BlobAccessConfiguration{Backend: &pb.BlobAccessConfiguration_Grpc{
				Grpc: &pb.GrpcBlobAccessConfiguration{Client: &grpcpb.ClientConfiguration{Address: strconv.Itoa(k)}},
			}},
		}
	}
	info, err := configuration.NewBlobAccessFromConfiguration(nil,
		&pb.BlobAccessConfiguration{Backend: &pb.BlobAccessConfiguration_Demultiplexing{
			Demultiplexing: &pb.DemultiplexingBlobAccessConfiguration{InstanceNamePrefixes: prefixes}}},
		configuration.NewCASBlobAccessCreator(c19wFactory{conns}, 1<<20, nil))
	if err != nil {
		return L(A(-3)), true
	}
	ba := info.BlobAccess
	ctx := context.Background()
	out := []Sx{}
	for _, op := range in.Nth(3).List {
		if op.IsAtom || op.Len() != 2 || !op.Nth(0).IsAtom {
			return Sx{}, false
		}
		calls = nil
		var code, data Sx
		var operr error
		switch op.Nth(0).Z {
		case 0:
			d, ok := c19wDgOf(op.Nth(1))
			if !ok {
				return Sx{}, false
			}
			b, err := ba.Get(ctx, d).ToByteSlice(1000)
			operr = err
			code, data = c19Code(err), L()
			if err == nil {
				// (backend that served the read, instance name it was asked under, blob that came back)
				data = L(A(-8))
				var blob int64
				if n, _ := fmt.Sscanf(string(b), "c19w blob %d", &blob); n == 1 && bytes.Equal(b, c19wContent(blob)) {
					for _, c := range calls {
						if c.kind == 0 {
							data = L(AI(c.idx), c.dgs[0].Nth(0), A(blob))
						}
					}
				}
			}
		case 2:
			d, ok := c19wDgOf(op.Nth(1))
			if !ok {
				return Sx{}, false
			}
			closed := 0
			buf := buffer.NewCASBufferFromReader(d, countingReadCloser{r: bytes.NewReader(c19wContent(op.Nth(1).Nth(1).Z)), closed: &closed}, buffer.UserProvided)
			err := ba.Put(ctx, d, buf)
			operr = err
			gotBuf := false
			for _, c := range calls {
				if c.kind == 2 {
					gotBuf = true
				}
			}
			st := 3
			switch {
			case gotBuf && closed == 1:
				st = 1
			case !gotBuf && closed == 1:
				st = 2
			}
			code, data = c19Code(err), L(AI(st))
		case 3:
			if op.Nth(1).IsAtom {
				return Sx{}, false
			}
			sb := digest.NewSetBuilder(0)
			for _, x := range op.Nth(1).List {
				d, ok := c19wDgOf(x)
				if !ok {
					return Sx{}, false
				}
				sb.Add(d)
			}
			missing, err := ba.FindMissing(ctx, sb.Build())
			operr = err
			ms := []Sx{}
			for _, d := range missing.Items() {
				ms = append(ms, c19wDigestSx(d))
			}
			code, data = c19Code(err), L(ms...)
			// the remote CAS client issues one FindMissingBlobs RPC per instance name:
			// the RPCs of one backend are one call of the model
			merged := []c19wCall{}
			for _, c := range calls {
				found := false
				for j := range merged {
					if merged[j].idx == c.idx && merged[j].kind == c.kind {
						merged[j].dgs = append(merged[j].dgs, c.dgs...)
						found = true
					}
				}
				if !found {
					merged = append(merged, c)
				}
			}
			calls = merged
		default:
			return Sx{}, false
		}
		cs := []Sx{}
		for _, c := range calls {
			cs = append(cs, L(AI(c.idx), AI(c.kind), L(c.dgs...)))
		}
		out = append(out, L(code, data, L(cs...), c19wErrName(operr)))
	}
	return L(out...), true
}

// ---------------------------------------------------------------- Gen

// add-prefixes come from a small set, so that several prefixes share one
// (the default, empty, above all).
var c19wAdds = []string{"", "", "", "x", "x", "x/y", "a"}

func (c19w) Gen(r *Rand, i int, tier string) Sx {
	big := tier == "thorough"
	nb := 1 + r.Intn(4)
	pool := []string{}
	seen := map[string]bool{}
	for tries := 0; len(pool) < nb && tries < 100; tries++ {
		var s string
		switch {
		case len(pool) == 0 && r.Chance(30):
			s = ""
		case len(pool) > 0 && r.Chance(60):
			s = c19Related(r, pool) // nested ones, siblings, lookalikes
		default:
			s = c19GenName(r, 2)
		}
		if !seen[s] {
			seen[s] = true
			pool = append(pool, s)
		}
	}
	nb = len(pool)
	// map order is Go's; the list order only numbers the backends
	for k := nb - 1; k > 0; k-- {
		j := r.Intn(k + 1)
		pool[k], pool[j] = pool[j], pool[k]
	}
	newPs := make([]string, nb)
	cfg := []Sx{}
	hostile := r.Chance(8)
	shareAll, common := r.Chance(30), c19wAdds[r.Intn(len(c19wAdds))] // every entry with the same add-prefix
	for k := range pool {
		switch {
		case shareAll:
			newPs[k] = common
		case hostile && r.Chance(50):
			newPs[k] = pool[r.Intn(nb)] // another entry's match prefix (or its own)
		case r.Chance(12):
			newPs[k] = c19Join(pool[k], c19GenName(r, 1))
		default:
			newPs[k] = c19wAdds[r.Intn(len(c19wAdds))]
		}
		cfg = append(cfg, L(LStr(pool[k]), LStr(newPs[k])))
	}
	nq := 3 + r.Intn(6)
	qnames := make([]string, nq)
	for k := range qnames {
		if r.Chance(70) {
			// below one of the prefixes, so that FindMissing spans several of them
			qnames[k] = c19Join(pool[r.Intn(nb)], c19GenName(r, 2))
		} else {
			qnames[k] = c19Related(r, pool)
		}
	}
	nblobs := 1 + r.Intn(3)
	present := make([][]Sx, nb)
	for _, q := range qnames {
		o := c19Owner(pool, q)
		for b := 0; b < nblobs; b++ {
			if o >= 0 && r.Chance(50) {
				rest := c19Comps(q)[len(c19Comps(pool[o])):]
				present[o] = append(present[o], c19SxDg(c19Join(newPs[o], strings.Join(rest, "/")), b))
			}
			if r.Chance(15) {
				// decoys: under the caller's name, or the rewritten name in a backend that does not own it
				k := r.Intn(nb)
				n := q
				if o >= 0 && r.Chance(50) {
					rest := c19Comps(q)[len(c19Comps(pool[o])):]
					n = c19Join(newPs[o], strings.Join(rest, "/"))
				}
				present[k] = append(present[k], c19SxDg(n, b))
			}
		}
	}
	bs := []Sx{}
	for k := 0; k < nb; k++ {
		fault := 0
		if r.Chance(10) {
			fault = []int{13, 14, 14, 5, 3}[r.Intn(5)]
		}
		bs = append(bs, L(L(present[k]...), AI(fault)))
	}
	nops := 2 + r.Intn(6)
	if big {
		nops += r.Intn(10)
	}
	pick := func() Sx { return c19SxDg(qnames[r.Intn(nq)], r.Intn(nblobs)) }
	ops := []Sx{}
	for len(ops) < nops {
		switch k := r.Intn(100); {
		case k < 25:
			ops = append(ops, L(A(0), pick()))
		case k < 40:
			ops = append(ops, L(A(2), pick()))
		default:
			nd := 1 + r.Intn(8)
			ds := []Sx{}
			for j := 0; j < nd; j++ {
				ds = append(ds, pick())
			}
			ops = append(ops, L(A(3), L(ds...)))
		}
	}
	return L(A(2), L(cfg...), L(bs...), L(ops...))
}

// ---------------------------------------------------------------- Class

func (c19w) Class(in, obs Sx) (string, bool) {
	if obs.Len() == 1 && obs.Nth(0).IsAtom {
		return "wiring/rejected", false
	}
	multi, shared, unknown, fault, named := false, false, false, false, false
	pool, adds := []string{}, []string{}
	for _, e := range in.Nth(1).List {
		pool = append(pool, string(e.Nth(0).Bytes()))
		adds = append(adds, string(e.Nth(1).Bytes()))
	}
	for k, op := range in.Nth(3).List {
		ob := obs.Nth(k)
		cs := ob.Nth(2)
		if op.Nth(0).Z == 3 {
			// by the input alone: owners of the requested digests
			owners := map[int]bool{}
			allKnown := true
			for _, d := range op.Nth(1).List {
				o := c19Owner(pool, string(d.Nth(0).Bytes()))
				if o < 0 {
					allKnown = false
				} else {
					owners[o] = true
				}
			}
			if allKnown && len(owners) >= 2 {
				multi = true
				for a := range owners {
					for b := range owners {
						if a < b && adds[a] == adds[b] {
							shared = true
						}
					}
				}
			}
		}
		if ob.Nth(0).Z == 3 && cs.Len() == 0 {
			unknown = true
		} else if ob.Nth(0).Z != 0 && ob.Nth(0).Z != 5 {
			fault = true
		}
		if ob.Nth(3).Len() == 1 {
			named = true
		}
	}
	c := "wiring"
	if shared {
		c += "/fm-shared-add-prefix"
	} else if multi {
		c += "/fm-multi-backend"
	}
	if named {
		c += "/named-error"
	}
	if unknown {
		c += "/unknown-name"
	}
	if fault {
		c += "/fault"
	}
	return c, shared
}
