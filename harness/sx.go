package main

import (
	"fmt"
	"strconv"
	"strings"
)

// Sx is the S-expression value exchanged with the extracted Coq models:
// an atom (arbitrary-size integer kept as decimal string when it does not
// fit int64) or a list.
type Sx struct {
	IsAtom bool
	Z      int64
	Big    string // set when the atom does not fit an int64
	List   []Sx
}

func A(z int64) Sx       { return Sx{IsAtom: true, Z: z} }
func AI(z int) Sx        { return Sx{IsAtom: true, Z: int64(z)} }
func AU(z uint64) Sx {
	if z <= 1<<62 {
		return A(int64(z))
	}
	return Sx{IsAtom: true, Big: strconv.FormatUint(z, 10)}
}
func AB(b bool) Sx {
	if b {
		return A(1)
	}
	return A(0)
}
func L(items ...Sx) Sx {
	if items == nil {
		items = []Sx{}
	}
	return Sx{List: items}
}
func LBytes(b []byte) Sx {
	l := make([]Sx, len(b))
	for i, c := range b {
		l[i] = A(int64(c))
	}
	return Sx{List: l}
}
func LStr(s string) Sx { return LBytes([]byte(s)) }
func LInts(xs []int) Sx {
	l := make([]Sx, len(xs))
	for i, c := range xs {
		l[i] = AI(c)
	}
	return Sx{List: l}
}

func (s Sx) String() string {
	var b strings.Builder
	s.write(&b)
	return b.String()
}

func (s Sx) write(b *strings.Builder) {
	if s.IsAtom {
		if s.Big != "" {
			b.WriteString(s.Big)
		} else {
			b.WriteString(strconv.FormatInt(s.Z, 10))
		}
		return
	}
	b.WriteByte('(')
	for i, x := range s.List {
		if i > 0 {
			b.WriteByte(' ')
		}
		x.write(b)
	}
	b.WriteByte(')')
}

func (s Sx) Int() int {
	return int(s.Z)
}
func (s Sx) Nth(i int) Sx {
	if s.IsAtom || i >= len(s.List) {
		return L()
	}
	return s.List[i]
}
func (s Sx) Len() int { return len(s.List) }
func (s Sx) Bytes() []byte {
	b := make([]byte, len(s.List))
	for i, x := range s.List {
		b[i] = byte(x.Z)
	}
	return b
}
func (s Sx) Ints() []int {
	b := make([]int, len(s.List))
	for i, x := range s.List {
		b[i] = int(x.Z)
	}
	return b
}

// ParseSx parses the textual form written by String (and the x<hex> byte
// list shorthand).
func ParseSx(s string) (Sx, error) {
	pos := 0
	v, err := parseSx(s, &pos)
	if err != nil {
		return Sx{}, err
	}
	for pos < len(s) && s[pos] == ' ' {
		pos++
	}
	if pos != len(s) {
		return Sx{}, fmt.Errorf("trailing input at %d", pos)
	}
	return v, nil
}

func parseSx(s string, pos *int) (Sx, error) {
	for *pos < len(s) && s[*pos] == ' ' {
		*pos++
	}
	if *pos >= len(s) {
		return Sx{}, fmt.Errorf("eof")
	}
	switch c := s[*pos]; {
	case c == '(':
		*pos++
		items := []Sx{}
		for {
			for *pos < len(s) && s[*pos] == ' ' {
				*pos++
			}
			if *pos >= len(s) {
				return Sx{}, fmt.Errorf("unclosed")
			}
			if s[*pos] == ')' {
				*pos++
				return Sx{List: items}, nil
			}
			x, err := parseSx(s, pos)
			if err != nil {
				return Sx{}, err
			}
			items = append(items, x)
		}
	case c == 'x':
		*pos++
		st := *pos
		for *pos < len(s) && strings.IndexByte("0123456789abcdefABCDEF", s[*pos]) >= 0 {
			*pos++
		}
		h := s[st:*pos]
		items := []Sx{}
		for i := 0; i+1 < len(h); i += 2 {
			v, _ := strconv.ParseUint(h[i:i+2], 16, 8)
			items = append(items, A(int64(v)))
		}
		return Sx{List: items}, nil
	case c == '-' || (c >= '0' && c <= '9'):
		st := *pos
		*pos++
		for *pos < len(s) && s[*pos] >= '0' && s[*pos] <= '9' {
			*pos++
		}
		tok := s[st:*pos]
		if v, err := strconv.ParseInt(tok, 10, 64); err == nil {
			return A(v), nil
		}
		return Sx{IsAtom: true, Big: tok}, nil
	default:
		return Sx{}, fmt.Errorf("unexpected %q at %d", c, *pos)
	}
}

// Rand is splitmix64; every random choice of a run derives from one state.
type Rand struct{ s uint64 }

func NewRand(seed uint64) *Rand {
	// The state is the *mixed* seed: consecutive seeds must not give
	// shifted copies of one stream.
	r := &Rand{s: seed ^ 0x5851f42d4c957f2d}
	r.s = r.U64()
	return r
}
func (r *Rand) U64() uint64 {
	r.s += 0x9e3779b97f4a7c15
	z := r.s
	z = (z ^ (z >> 30)) * 0xbf58476d1ce4e5b9
	z = (z ^ (z >> 27)) * 0x94d049bb133111eb
	return z ^ (z >> 31)
}
func (r *Rand) Intn(n int) int {
	if n <= 0 {
		return 0
	}
	return int(r.U64() % uint64(n))
}
func (r *Rand) Bool() bool      { return r.U64()&1 == 1 }
func (r *Rand) Chance(p int) bool { return r.Intn(100) < p }
func (r *Rand) Pick(xs []int) int { return xs[r.Intn(len(xs))] }
func (r *Rand) Fork() *Rand       { return &Rand{s: r.U64()} }
