package main

// C01S (sub-check of C01): the sector-granular writer of
// pkg/blobstore/local/block_device_backed_block_allocator.go.  The real
// NewBlockDeviceBackedBlockAllocator runs over a byte-slice BlockDevice that
// logs every WriteAt; one block (the middle one of three) is driven through
// HasSpace / Put, every BlockPutWriter runs in its own goroutine and is fed
// chunk by chunk from a gated source behind the real CAS validating chunk
// reader.  The scheduler executes one event at a time and waits until the
// writer parks in its source again or its finalizer has returned, so the
// interleaving is exactly the event list.  Observed per step: the result and
// the device writes (offset, bytes) in call order; at the end the device
// contents and the offset every finalizer returned.

import (
	"crypto/sha256"
	"encoding/hex"
	"fmt"
	"io"
	"sort"
	"strings"
	"sync"
	"time"

	remoteexecution "github.com/bazelbuild/remote-apis/build/bazel/remote/execution/v2"
	"github.com/buildbarn/bb-storage/pkg/blobstore"
	"github.com/buildbarn/bb-storage/pkg/blobstore/buffer"
	"github.com/buildbarn/bb-storage/pkg/blobstore/local"
	"github.com/buildbarn/bb-storage/pkg/digest"
	pb "github.com/buildbarn/bb-storage/pkg/proto/blobstore/local"

	"google.golang.org/grpc/codes"
	"google.golang.org/grpc/status"
)

func init() { props["C01S"] = c01s{} }

type c01s struct{}

const c01sTimeout = 5 * time.Second

// ---- logging byte-slice block device ----

type c01sWrite struct {
	off  int64
	data []byte
}

type c01sDevice struct {
	mu   sync.Mutex
	data []byte
	log  []c01sWrite
}

func (d *c01sDevice) ReadAt(p []byte, off int64) (int, error) {
	d.mu.Lock()
	defer d.mu.Unlock()
	if off < 0 || off >= int64(len(d.data)) {
		return 0, io.EOF
	}
	n := copy(p, d.data[off:])
	if n < len(p) {
		return n, io.EOF
	}
	return n, nil
}

func (d *c01sDevice) WriteAt(p []byte, off int64) (int, error) {
	d.mu.Lock()
	defer d.mu.Unlock()
	d.log = append(d.log, c01sWrite{off: off, data: append([]byte(nil), p...)})
	if off < 0 || off+int64(len(p)) > int64(len(d.data)) {
		return 0, fmt.Errorf("write outside the device")
	}
	copy(d.data[off:], p)
	return len(p), nil
}

func (d *c01sDevice) Sync() error  { return nil }
func (d *c01sDevice) Close() error { return nil }

// drain returns the writes logged since the previous call, encoded.
func (d *c01sDevice) drain() Sx {
	d.mu.Lock()
	defer d.mu.Unlock()
	ws := make([]Sx, len(d.log))
	for i, w := range d.log {
		ws[i] = L(A(w.off), LBytes(w.data))
	}
	d.log = nil
	return L(ws...)
}

func (d *c01sDevice) snapshot() []byte {
	d.mu.Lock()
	defer d.mu.Unlock()
	return append([]byte(nil), d.data...)
}

// ---- gated upload source ----

type c01sFeed struct {
	data []byte
	err  error // nil = data chunk
}

type c01sSource struct {
	waiting chan struct{}
	feed    chan c01sFeed
	final   error
}

func (s *c01sSource) Read() ([]byte, error) {
	if s.final != nil {
		return nil, s.final
	}
	s.waiting <- struct{}{}
	f := <-s.feed
	if f.err != nil {
		s.final = f.err
		return nil, f.err
	}
	return f.data, nil
}

func (s *c01sSource) Close() {}

type c01sResult struct {
	off int64
	err error
}

type c01sWriter struct {
	src      *c01sSource
	done     chan c01sResult
	finished bool
	off      int64
}

// ---- input decoding ----

func c01sAtom(s Sx, lo, hi int64) (int64, bool) {
	if !s.IsAtom || s.Big != "" || s.Z < lo || s.Z > hi {
		return 0, false
	}
	return s.Z, true
}

type c01sEvent struct {
	kind  int64
	arg   int64
	chunk []byte
}

func c01sDecodeEvents(evs Sx) ([]c01sEvent, bool) {
	if evs.IsAtom || len(evs.List) > 400 {
		return nil, false
	}
	out := make([]c01sEvent, 0, len(evs.List))
	for _, ev := range evs.List {
		if ev.IsAtom || len(ev.List) < 1 {
			return nil, false
		}
		kind, ok := c01sAtom(ev.List[0], 0, 99)
		if !ok {
			return nil, false
		}
		e := c01sEvent{kind: kind}
		switch kind {
		case 0, 4:
			if len(ev.List) < 2 {
				return nil, false
			}
			if e.arg, ok = c01sAtom(ev.List[1], 0, 8192); !ok {
				return nil, false
			}
		case 1, 2, 3:
			if len(ev.List) < 2 {
				return nil, false
			}
			if e.arg, ok = c01sAtom(ev.List[1], 0, 63); !ok {
				return nil, false
			}
			if kind == 1 {
				if len(ev.List) < 3 || ev.List[2].IsAtom || len(ev.List[2].List) > 4096 {
					return nil, false
				}
				e.chunk = make([]byte, len(ev.List[2].List))
				for i, b := range ev.List[2].List {
					v, ok := c01sAtom(b, 0, 255)
					if !ok {
						return nil, false
					}
					e.chunk[i] = byte(v)
				}
			}
		}
		out = append(out, e)
	}
	return out, true
}

// c01sFutureData is what the validating chunk reader of writer k (declared
// size bytes) is going to hash, given the remaining events.
func c01sFutureData(rest []c01sEvent, k, size int64) []byte {
	var data []byte
	fed := int64(0)
	for _, e := range rest {
		switch e.kind {
		case 1:
			if e.arg != k {
				continue
			}
			n := int64(len(e.chunk))
			if fed == size {
				if n > 0 {
					return data
				}
				continue
			}
			if n > size-fed {
				return data
			}
			data = append(data, e.chunk...)
			fed += n
		case 2, 3:
			if e.arg == k {
				return data
			}
		}
	}
	return data
}

// ---- execution ----

func (c01s) Exec(in Sx) (Sx, bool) {
	if in.IsAtom || len(in.List) < 5 {
		return Sx{}, false
	}
	sector, ok1 := c01sAtom(in.List[0], 1, 64)
	spb, ok2 := c01sAtom(in.List[1], 1, 64)
	if !ok1 || !ok2 {
		return Sx{}, false
	}
	blockBytes := sector * spb
	restored, ok3 := c01sAtom(in.List[2], -1, blockBytes)
	fill, ok4 := c01sAtom(in.List[3], 0, 255)
	if !ok3 || !ok4 {
		return Sx{}, false
	}
	events, ok := c01sDecodeEvents(in.List[4])
	if !ok {
		return Sx{}, false
	}

	dev := &c01sDevice{data: make([]byte, 3*blockBytes)}
	for i := range dev.data {
		dev.data[i] = byte(fill)
	}
	allocator := local.NewBlockDeviceBackedBlockAllocator(dev, blobstore.CASReadBufferFactory, int(sector), spb, 3, "c01s")
	var block local.Block
	if restored < 0 {
		if _, _, err := allocator.NewBlock(); err != nil {
			panic(err)
		}
		b, loc, err := allocator.NewBlock()
		if err != nil {
			panic(err)
		}
		if loc.OffsetBytes != blockBytes || loc.SizeBytes != blockBytes {
			panic(fmt.Sprintf("second block at unexpected location %v", loc))
		}
		block = b
	} else {
		b, found := allocator.NewBlockAtLocation(&pb.BlockLocation{OffsetBytes: blockBytes, SizeBytes: blockBytes}, restored)
		if !found {
			panic("NewBlockAtLocation: location not found")
		}
		block = b
	}

	timer := time.NewTimer(c01sTimeout)
	defer timer.Stop()
	arm := func() {
		if !timer.Stop() {
			select {
			case <-timer.C:
			default:
			}
		}
		timer.Reset(c01sTimeout)
	}

	var writers []*c01sWriter
	// deliver hands one item to the writer's source and waits until the
	// writer parks again or its finalizer has returned.
	deliver := func(w *c01sWriter, f c01sFeed) Sx {
		arm()
		select {
		case w.src.feed <- f:
		case <-timer.C:
			panic("timeout: writer does not take its input")
		}
		select {
		case <-w.src.waiting:
			return L(A(0))
		case r := <-w.done:
			w.finished = true
			w.off = r.off
			if r.err == nil {
				return L(A(1), A(r.off))
			}
			return L(A(2), A(r.off))
		case <-timer.C:
			panic("timeout: writer neither parks nor finishes")
		}
	}
	liveWriter := func(k int64) *c01sWriter {
		if k < 0 || k >= int64(len(writers)) || writers[k].finished {
			return nil
		}
		return writers[k]
	}

	steps := make([]Sx, 0, len(events)+1)
	for i, e := range events {
		var res Sx
		switch e.kind {
		case 0:
			hs := block.HasSpace(e.arg)
			res = L(AB(hs))
			if hs {
				putWriter := block.Put(e.arg)
				k := int64(len(writers))
				data := c01sFutureData(events[i+1:], k, e.arg)
				h := sha256.Sum256(data)
				d := digest.MustNewDigest("", remoteexecution.DigestFunction_SHA256, hex.EncodeToString(h[:]), e.arg)
				w := &c01sWriter{
					src:  &c01sSource{waiting: make(chan struct{}, 1), feed: make(chan c01sFeed)},
					done: make(chan c01sResult, 1),
				}
				writers = append(writers, w)
				buf := buffer.NewCASBufferFromChunkReader(d, w.src, buffer.UserProvided)
				go func() {
					fin := putWriter(buf)
					off, err := fin()
					w.done <- c01sResult{off, err}
				}()
				arm()
				select {
				case <-w.src.waiting:
				case <-w.done:
					panic("writer finished without reading its source")
				case <-timer.C:
					panic("timeout: new writer does not read its source")
				}
			}
		case 4:
			res = L(AB(block.HasSpace(e.arg)))
		case 1, 2, 3:
			w := liveWriter(e.arg)
			if w == nil {
				res = L(A(9))
				break
			}
			switch e.kind {
			case 1:
				res = deliver(w, c01sFeed{data: append([]byte(nil), e.chunk...)})
			case 2:
				res = deliver(w, c01sFeed{err: io.EOF})
			default:
				res = deliver(w, c01sFeed{err: status.Error(codes.Internal, "source failure")})
			}
		default:
			res = L(A(9))
		}
		steps = append(steps, L(res, dev.drain()))
	}

	// Wind down the writers that are still parked; not part of the observation
	// unless they (wrongly) write to the device.
	for _, w := range writers {
		if !w.finished {
			r := deliver(w, c01sFeed{err: status.Error(codes.Canceled, "case finished")})
			if !w.finished {
				panic(fmt.Sprintf("writer survived cancellation: %s", r.String()))
			}
		}
	}
	if extra := dev.drain(); len(extra.List) > 0 {
		steps = append(steps, L(L(A(9)), extra))
	}
	offs := make([]Sx, len(writers))
	for k, w := range writers {
		offs[k] = A(w.off)
	}
	return L(L(steps...), LBytes(dev.snapshot()), L(offs...)), true
}

// ---- generation ----

func c01sRandBytes(r *Rand, n int) []byte {
	b := make([]byte, n)
	for i := range b {
		b[i] = byte(1 + r.Intn(200))
	}
	return b
}

func c01sEvAlloc(size int) Sx        { return L(A(0), AI(size)) }
func c01sEvQuery(size int) Sx        { return L(A(4), AI(size)) }
func c01sEvChunk(k int, b []byte) Sx { return L(A(1), AI(k), LBytes(b)) }
func c01sEvEOF(k int) Sx             { return L(A(2), AI(k)) }
func c01sEvFail(k int) Sx            { return L(A(3), AI(k)) }

// c01sWriterEvents builds the event list of writer k with declared size.
func c01sWriterEvents(r *Rand, k, size, sector int) []Sx {
	data := c01sRandBytes(r, size)
	var chunks [][]byte
	pos := 0
	for pos < size {
		if r.Chance(7) {
			chunks = append(chunks, nil)
		}
		rest := size - pos
		var n int
		switch r.Intn(8) {
		case 0:
			n = 1
		case 1:
			n = sector - 1
		case 2:
			n = sector
		case 3:
			n = sector + 1
		case 4:
			n = 2*sector + 1
		case 5, 6:
			n = rest
		default:
			n = 1 + r.Intn(rest)
		}
		if n < 1 {
			n = 1
		}
		if n > rest {
			n = rest
		}
		chunks = append(chunks, data[pos:pos+n])
		pos += n
	}
	if r.Chance(7) {
		chunks = append(chunks, nil)
	}
	var evs []Sx
	emit := func(cs [][]byte) {
		for _, c := range cs {
			evs = append(evs, c01sEvChunk(k, c))
		}
	}
	if !r.Chance(20) {
		emit(chunks)
		return append(evs, c01sEvEOF(k))
	}
	// abandoned writer
	switch r.Intn(4) {
	case 0, 1: // source failure at a random point
		emit(chunks[:r.Intn(len(chunks)+1)])
		evs = append(evs, c01sEvFail(k))
	case 2: // premature EOF
		if size == 0 {
			emit(chunks)
			evs = append(evs, c01sEvFail(k))
		} else {
			// cut before the last non-empty chunk
			last := len(chunks) - 1
			for last > 0 && len(chunks[last]) == 0 {
				last--
			}
			emit(chunks[:r.Intn(last+1)])
			evs = append(evs, c01sEvEOF(k))
		}
	default: // surplus data
		cut := r.Intn(len(chunks) + 1)
		emit(chunks[:cut])
		fed := 0
		for _, c := range chunks[:cut] {
			fed += len(c)
		}
		evs = append(evs, c01sEvChunk(k, c01sRandBytes(r, size-fed+1+r.Intn(sector+1))))
		if r.Bool() {
			evs = append(evs, c01sEvEOF(k)) // refers to a finished writer
		}
	}
	return evs
}

func c01sGenHostile(r *Rand, sector, spb int) []Sx {
	total := sector * spb
	n := 4 + r.Intn(40)
	evs := make([]Sx, 0, n)
	for j := 0; j < n; j++ {
		k := r.Intn(6)
		switch r.Intn(11) {
		case 0, 1:
			if r.Chance(70) {
				evs = append(evs, c01sEvAlloc(r.Intn(2*sector+2)))
			} else {
				evs = append(evs, c01sEvAlloc(r.Intn(3*total+1)))
			}
		case 2, 3, 4, 5:
			n := r.Intn(2*sector + 3)
			if r.Chance(15) {
				n = r.Intn(total + 2)
			}
			evs = append(evs, c01sEvChunk(k, c01sRandBytes(r, n)))
		case 6, 7:
			evs = append(evs, c01sEvEOF(k))
		case 8:
			evs = append(evs, c01sEvFail(k))
		case 9:
			evs = append(evs, c01sEvQuery(r.Intn(3*total+1)))
		default:
			if r.Chance(30) {
				evs = append(evs, L(AI(5+r.Intn(4)), AI(k)))
			} else {
				evs = append(evs, c01sEvQuery(r.Intn(total+2)))
			}
		}
	}
	return evs
}

func (c01s) Gen(r *Rand, i int, tier string) Sx {
	thorough := tier == "thorough"
	// sector size 1 never shares a sector: kept, but less frequent
	sector := r.Pick([]int{1, 2, 2, 4, 4, 4, 8, 8, 16, 16})
	spb := 2 + r.Intn(7)
	maxAlloc := 6
	if thorough {
		spb = 2 + r.Intn(11)
		maxAlloc = 8
	}
	total := sector * spb
	fill := r.Pick([]int{0, 238})
	restored := -1
	if r.Chance(15) {
		restored = r.Intn(total + 1)
		if sector > 1 && restored%sector == 0 && restored < total && r.Chance(75) {
			restored += 1 + r.Intn(sector-1)
		}
	}
	head := func(evs []Sx) Sx {
		return L(AI(sector), AI(spb), AI(restored), AI(fill), L(evs...))
	}
	if r.Chance(12) {
		return head(c01sGenHostile(r, sector, spb))
	}

	// allocations; the generator follows the write cursor of the block
	cursor := 0
	if restored >= 0 {
		cursor = (restored + sector - 1) / sector * sector
	}
	nalloc := 2 + r.Intn(maxAlloc-1)
	type alloc struct {
		ev     Sx
		writer int // -1: does not fit
	}
	allocs := make([]alloc, 0, nalloc)
	var streams [][]Sx // per writer
	for j := 0; j < nalloc; j++ {
		rem := total - cursor
		var size int
		switch r.Intn(14) {
		case 0:
			size = 0
		case 1, 2:
			size = 1
		case 3:
			size = sector - 1
		case 4:
			size = sector
		case 5:
			size = sector + 1
		case 6:
			size = 2 * sector
		case 7:
			size = (1 + r.Intn(spb)) * sector
		case 8:
			// exactly the remaining space (mostly towards the end)
			if j >= nalloc-2 || r.Chance(30) {
				size = rem
			} else {
				size = r.Intn(sector + 2)
			}
		case 9:
			if j >= nalloc-2 || r.Chance(40) {
				size = rem + 1
			} else {
				size = r.Intn(sector + 2)
			}
		case 10:
			// up to the next sector boundary, or one beyond / short of it
			size = (sector-cursor%sector)%sector + r.Intn(3) - 1
			if size < 0 {
				size = sector
			}
		case 11:
			size = 1 + r.Intn(rem+1)
		default:
			size = r.Intn(2*sector + 3)
		}
		a := alloc{ev: c01sEvAlloc(size), writer: -1}
		if size <= rem {
			a.writer = len(streams)
			streams = append(streams, c01sWriterEvents(r, a.writer, size, sector))
			cursor += size
		}
		allocs = append(allocs, a)
	}

	// merge the allocation stream and the writers' streams
	var evs []Sx
	nextAlloc := 0
	pos := make([]int, len(streams))
	started := make([]bool, len(streams))
	doAlloc := func() {
		a := allocs[nextAlloc]
		nextAlloc++
		evs = append(evs, a.ev)
		if a.writer >= 0 {
			started[a.writer] = true
		}
	}
	strategy := r.Intn(10)
	switch {
	case strategy < 1: // sequential
		for nextAlloc < len(allocs) {
			w := allocs[nextAlloc].writer
			doAlloc()
			if w >= 0 {
				evs = append(evs, streams[w]...)
				pos[w] = len(streams[w])
			}
		}
	default:
		// uniform random; with strategy 1..3 one writer's tail is held back
		// until nothing else is left
		held, heldFrom := -1, 0
		if strategy < 4 && len(streams) > 0 {
			held = 0
			if r.Chance(40) {
				held = r.Intn(len(streams))
			}
			heldFrom = len(streams[held]) - 1
			if r.Chance(40) {
				heldFrom = r.Intn(len(streams[held]))
			}
		}
		for {
			var cand []int // -1 = allocation stream
			if nextAlloc < len(allocs) {
				cand = append(cand, -1)
			}
			for w := range streams {
				if !started[w] || pos[w] >= len(streams[w]) {
					continue
				}
				if w == held && pos[w] >= heldFrom {
					continue
				}
				cand = append(cand, w)
			}
			if len(cand) == 0 {
				if held >= 0 && pos[held] < len(streams[held]) {
					held = -1 // release the held writer
					continue
				}
				break
			}
			c := cand[r.Intn(len(cand))]
			if c < 0 {
				doAlloc()
			} else {
				evs = append(evs, streams[c][pos[c]])
				pos[c]++
			}
		}
	}

	// a few HasSpace-only queries
	for q := r.Intn(4); q > 0; q-- {
		var size int
		switch r.Intn(4) {
		case 0:
			size = r.Intn(total + 2)
		case 1:
			size = total - cursor
		case 2:
			size = total - cursor + 1
		default:
			size = r.Intn(2*sector + 2)
		}
		at := r.Intn(len(evs) + 1)
		evs = append(evs, Sx{})
		copy(evs[at+1:], evs[at:])
		evs[at] = c01sEvQuery(size)
	}
	return head(evs)
}

// ---- classification ----

func (c01s) Class(in, obs Sx) (string, bool) {
	sector := in.Nth(0).Z
	site := fmt.Sprintf("s%d/", sector)
	if sector < 1 || obs.IsAtom || obs.Len() < 3 || obs.Nth(0).IsAtom || obs.Nth(2).IsAtom {
		return site + "panic", false
	}
	evs := in.Nth(4).List
	steps := obs.Nth(0).List
	offs := obs.Nth(2).List
	type winfo struct {
		size, from, to int64 // live during steps (from, to)
		completed      bool
	}
	var ws []winfo
	flags := map[string]bool{}
	if in.Nth(2).Z >= 0 {
		flags["restored"] = true
	}
	for i, ev := range evs {
		if i >= len(steps) {
			break
		}
		res := steps[i].Nth(0)
		kind := ev.Nth(0).Z
		code := res.Nth(0)
		if !code.IsAtom {
			continue
		}
		switch kind {
		case 0, 4:
			if code.Z == 0 {
				flags["nospace"] = true
			} else if kind == 0 {
				ws = append(ws, winfo{size: ev.Nth(1).Z, from: int64(i), to: int64(len(steps))})
			}
		case 1, 2, 3:
			k := ev.Nth(1).Z
			switch code.Z {
			case 1, 2:
				if k >= 0 && k < int64(len(ws)) {
					ws[k].to = int64(i)
					ws[k].completed = code.Z == 1
				}
				if code.Z == 2 {
					flags["abandon"] = true
				}
			case 9:
				flags["hostile"] = true
			}
		default:
			if code.Z == 9 {
				flags["hostile"] = true
			}
		}
	}
	nontrivial := false
	for a := 0; a < len(ws) && a < len(offs); a++ {
		for b := a + 1; b < len(ws) && b < len(offs); b++ {
			// sector intervals [lo, hi); an empty range inside a sector counts
			sa, sb := offs[a].Z, offs[b].Z
			loA, hiA := sa/sector, (sa+ws[a].size+sector-1)/sector
			loB, hiB := sb/sector, (sb+ws[b].size+sector-1)/sector
			shared := loA < hiB && loB < hiA
			inflight := ws[b].from < ws[a].to
			if shared {
				flags["shared"] = true
			}
			if inflight {
				flags["inflight"] = true
			}
			if shared && inflight && (ws[a].completed || ws[b].completed) {
				nontrivial = true
			}
		}
	}
	names := make([]string, 0, len(flags))
	for f := range flags {
		names = append(names, f)
	}
	if len(names) == 0 {
		return site + "plain", false
	}
	order := map[string]int{"shared": 0, "inflight": 1, "abandon": 2, "restored": 3, "nospace": 4, "hostile": 5}
	sort.Slice(names, func(x, y int) bool { return order[names[x]] < order[names[y]] })
	return site + strings.Join(names, "+"), nontrivial
}
