package main

// C14F — sub-check of C14: FindMissing (and Put/Get) through
// grpcclients.NewCASBlobAccess in front of the real ByteStream / CAS servers
// over bufconn, with digests of SEVERAL instance names and digest functions
// in one history and in one FindMissing call.  The backend is instance name
// aware: an object stored under instance name "a" is missing under "a/b".
//
// Case shape (decoders in coq/Run/R14F.v):
//   (blobs chunk ops)
//   op: (0 inst fn bi size)                                   Put blob bi under that digest
//       (1 inst fn bi size)                                   Get
//       (2 ((inst fn bi size absent) ...) ((inst fn code) ...)) FindMissing; the backend
//           reports an entry's digest missing if it is not stored or flagged absent; the
//           backend's FindMissing fails with `code` when asked about (inst, fn)
//   inst: index into c14fInstances, fn: index into c14fFunctions
// Observation: (results final)
//   result of Put: (code); Get: (code data);
//   FindMissing: (code ((inst fn bi size) ...) (call ...)), call = the digests of one
//   backend FindMissing call ((inst fn bi size) ...)
//   final: ((inst fn bi size data) ...) the backend's contents

import (
	"context"
	"crypto/md5"
	"crypto/sha1"
	"crypto/sha256"
	"encoding/hex"
	"fmt"
	"net"
	"sort"
	"sync"
	"time"

	remoteexecution "github.com/bazelbuild/remote-apis/build/bazel/remote/execution/v2"
	"github.com/buildbarn/bb-storage/pkg/blobstore"
	"github.com/buildbarn/bb-storage/pkg/blobstore/buffer"
	"github.com/buildbarn/bb-storage/pkg/blobstore/grpcclients"
	"github.com/buildbarn/bb-storage/pkg/blobstore/grpcservers"
	"github.com/buildbarn/bb-storage/pkg/blobstore/slicing"
	"github.com/buildbarn/bb-storage/pkg/capabilities"
	"github.com/buildbarn/bb-storage/pkg/digest"
	"github.com/google/uuid"

	"google.golang.org/genproto/googleapis/bytestream"
	"google.golang.org/grpc"
	"google.golang.org/grpc/codes"
	"google.golang.org/grpc/credentials/insecure"
	"google.golang.org/grpc/status"
	"google.golang.org/grpc/test/bufconn"
)

func init() { props["C14F"] = c14f{} }

type c14f struct{}

var c14fInstances = []string{"", "a", "a/b", "x-y"}
var c14fFunctions = []remoteexecution.DigestFunction_Value{
	remoteexecution.DigestFunction_MD5, remoteexecution.DigestFunction_SHA1, remoteexecution.DigestFunction_SHA256,
}

type c14fBlobs struct {
	data   [][]byte
	hashes [][]string       // [fn][blob]
	first  []map[string]int // [fn]: hash -> first blob index
}

func c14fHash(fn int, d []byte) string {
	switch fn {
	case 0:
		h := md5.Sum(d)
		return hex.EncodeToString(h[:])
	case 1:
		h := sha1.Sum(d)
		return hex.EncodeToString(h[:])
	default:
		h := sha256.Sum256(d)
		return hex.EncodeToString(h[:])
	}
}

func c14fParseBlobs(s Sx) (*c14fBlobs, bool) {
	bl, ok := c14ParseBlobs(s)
	if !ok || len(bl.data) > 8 {
		return nil, false
	}
	b := &c14fBlobs{data: bl.data}
	for fn := range c14fFunctions {
		hs := []string{}
		first := map[string]int{}
		for i, d := range bl.data {
			h := c14fHash(fn, d)
			hs = append(hs, h)
			if _, ok := first[h]; !ok {
				first[h] = i
			}
		}
		b.hashes = append(b.hashes, hs)
		b.first = append(b.first, first)
	}
	return b, true
}

// (inst fn bi size ...) at positions off..off+3
func (b *c14fBlobs) ref(e Sx, off int) (inst, fn, bi int, size int64, ok bool) {
	i, ok1 := c14Small(e.Nth(off))
	f, ok2 := c14Small(e.Nth(off + 1))
	x, ok3 := c14Small(e.Nth(off + 2))
	sz, ok4 := c14Small(e.Nth(off + 3))
	if !ok1 || !ok2 || !ok3 || !ok4 || i < 0 || int(i) >= len(c14fInstances) || f < 0 || int(f) >= len(c14fFunctions) ||
		x < 0 || int(x) >= len(b.data) || sz < 0 || sz > 1<<20 {
		return 0, 0, 0, 0, false
	}
	return int(i), int(f), int(x), sz, true
}

func (b *c14fBlobs) digest(inst, fn, bi int, size int64) digest.Digest {
	return digest.MustNewDigest(c14fInstances[inst], c14fFunctions[fn], b.hashes[fn][bi], size)
}

// canonical identity of a digest: (inst fn first-blob-index-with-that-hash size)
func (b *c14fBlobs) ident(d digest.Digest) Sx {
	inst, fn := -1, -1
	for i, n := range c14fInstances {
		if n == d.GetInstanceName().String() {
			inst = i
		}
	}
	for i, f := range c14fFunctions {
		if f == d.GetDigestFunction().GetEnumValue() {
			fn = i
		}
	}
	bi := -1
	if fn >= 0 {
		if i, ok := b.first[fn][d.GetHashString()]; ok {
			bi = i
		}
	}
	return L(AI(inst), AI(fn), AI(bi), A(d.GetSizeBytes()))
}

func c14fSortIdents(l []Sx) {
	sort.SliceStable(l, func(i, j int) bool {
		for k := 0; k < 4; k++ {
			if l[i].Nth(k).Z != l[j].Nth(k).Z {
				return l[i].Nth(k).Z < l[j].Nth(k).Z
			}
		}
		return false
	})
}

// ---------------------------------------------------------------- backend

type c14fBackend struct {
	mu      sync.Mutex
	objects map[string][]byte // key: full digest
	digests map[string]digest.Digest
	absent  map[string]bool   // FindMissing reports these missing although stored
	fmErr   map[string]int    // "instance|function" -> code
	calls   [][]digest.Digest // the sets FindMissing was called with
}

func c14fKey(d digest.Digest) string {
	return fmt.Sprintf("%s|%d|%s-%d", d.GetInstanceName().String(), d.GetDigestFunction().GetEnumValue(), d.GetHashString(), d.GetSizeBytes())
}

func c14fPartKey(d digest.Digest) string {
	return fmt.Sprintf("%s|%d", d.GetInstanceName().String(), d.GetDigestFunction().GetEnumValue())
}

func newC14fBackend() *c14fBackend {
	return &c14fBackend{objects: map[string][]byte{}, digests: map[string]digest.Digest{}, absent: map[string]bool{}, fmErr: map[string]int{}}
}

func (b *c14fBackend) GetCapabilities(ctx context.Context, instanceName digest.InstanceName) (*remoteexecution.ServerCapabilities, error) {
	return nil, status.Error(codes.Unimplemented, "n/a")
}

func (b *c14fBackend) Get(ctx context.Context, d digest.Digest) buffer.Buffer {
	b.mu.Lock()
	defer b.mu.Unlock()
	o, ok := b.objects[c14fKey(d)]
	if !ok {
		return buffer.NewBufferFromError(status.Error(codes.NotFound, "backend: no such object"))
	}
	return buffer.NewCASBufferFromByteSlice(d, o, buffer.BackendProvided(func(bool) {}))
}

func (b *c14fBackend) GetFromComposite(ctx context.Context, p, c digest.Digest, s slicing.BlobSlicer) buffer.Buffer {
	return buffer.NewBufferFromError(status.Error(codes.Unimplemented, "n/a"))
}

func (b *c14fBackend) Put(ctx context.Context, d digest.Digest, buf buffer.Buffer) error {
	data, err := buf.ToByteSlice(c14BackendMax)
	if err != nil {
		return err
	}
	b.mu.Lock()
	b.objects[c14fKey(d)] = append([]byte(nil), data...)
	b.digests[c14fKey(d)] = d
	b.mu.Unlock()
	return nil
}

func (b *c14fBackend) FindMissing(ctx context.Context, ds digest.Set) (digest.Set, error) {
	b.mu.Lock()
	defer b.mu.Unlock()
	b.calls = append(b.calls, append([]digest.Digest(nil), ds.Items()...))
	for _, d := range ds.Items() {
		if c := b.fmErr[c14fPartKey(d)]; c != 0 {
			return digest.EmptySet, status.Error(codes.Code(c), "backend find missing")
		}
	}
	sb := digest.NewSetBuilder(0)
	for _, d := range ds.Items() {
		k := c14fKey(d)
		if _, ok := b.objects[k]; !ok || b.absent[k] {
			sb.Add(d)
		}
	}
	return sb.Build(), nil
}

var _ blobstore.BlobAccess = (*c14fBackend)(nil)

// ---------------------------------------------------------------- Exec

func (c14f) Exec(in Sx) (Sx, bool) {
	if in.IsAtom || in.Len() != 3 || in.Nth(2).IsAtom || in.Nth(2).Len() > 32 {
		return Sx{}, false
	}
	bl, ok := c14fParseBlobs(in.Nth(0))
	if !ok {
		return Sx{}, false
	}
	chunk, ok := c14Small(in.Nth(1))
	if !ok || chunk < 1 || chunk > 1<<20 {
		return Sx{}, false
	}
	for _, op := range in.Nth(2).List {
		if op.IsAtom || op.Len() < 1 {
			return Sx{}, false
		}
		k, ok := c14Small(op.Nth(0))
		if !ok {
			return Sx{}, false
		}
		switch k {
		case 0, 1:
			if op.Len() != 5 {
				return Sx{}, false
			}
			if _, _, _, _, ok := bl.ref(op, 1); !ok {
				return Sx{}, false
			}
		case 2:
			if op.Len() != 3 || op.Nth(1).IsAtom || op.Nth(1).Len() > 32 || op.Nth(2).IsAtom || op.Nth(2).Len() > 8 {
				return Sx{}, false
			}
			for _, e := range op.Nth(1).List {
				if e.IsAtom || e.Len() != 5 {
					return Sx{}, false
				}
				if _, _, _, _, ok := bl.ref(e, 0); !ok {
					return Sx{}, false
				}
				if ab, ok := c14Small(e.Nth(4)); !ok || (ab != 0 && ab != 1) {
					return Sx{}, false
				}
			}
			for _, e := range op.Nth(2).List {
				if e.IsAtom || e.Len() != 3 {
					return Sx{}, false
				}
				i, ok1 := c14Small(e.Nth(0))
				f, ok2 := c14Small(e.Nth(1))
				c, ok3 := c14Small(e.Nth(2))
				if !ok1 || !ok2 || !ok3 || i < 0 || int(i) >= len(c14fInstances) || f < 0 || int(f) >= len(c14fFunctions) || !c14ValidCode(c) {
					return Sx{}, false
				}
			}
		default:
			return Sx{}, false
		}
	}

	be := newC14fBackend()
	caps := &remoteexecution.ServerCapabilities{CacheCapabilities: &remoteexecution.CacheCapabilities{
		DigestFunctions: c14fFunctions,
	}}
	lis := bufconn.Listen(1 << 20)
	s := grpc.NewServer()
	bytestream.RegisterByteStreamServer(s, grpcservers.NewByteStreamServer(be, int(chunk), c14Pool))
	remoteexecution.RegisterContentAddressableStorageServer(s, grpcservers.NewContentAddressableStorageServer(be, 1<<20))
	remoteexecution.RegisterCapabilitiesServer(s, capabilities.NewServer(capabilities.NewStaticProvider(caps)))
	go s.Serve(lis)
	defer s.Stop()
	conn, err := grpc.NewClient("passthrough:///bufnet",
		grpc.WithContextDialer(func(ctx context.Context, _ string) (net.Conn, error) { return lis.DialContext(ctx) }),
		grpc.WithTransportCredentials(insecure.NewCredentials()))
	if err != nil {
		panic(err)
	}
	defer conn.Close()
	client := grpcclients.NewCASBlobAccess(conn, uuid.NewRandom, int(chunk), nil)

	res := []Sx{}
	for _, op := range in.Nth(2).List {
		ctx, cancel := context.WithTimeout(context.Background(), 20*time.Second)
		switch op.Nth(0).Z {
		case 0:
			inst, fn, bi, size, _ := bl.ref(op, 1)
			d := bl.digest(inst, fn, bi, size)
			err := client.Put(ctx, d, buffer.NewCASBufferFromByteSlice(d, bl.data[bi], buffer.UserProvided))
			res = append(res, L(AI(c14Code(err))))
		case 1:
			inst, fn, bi, size, _ := bl.ref(op, 1)
			d := bl.digest(inst, fn, bi, size)
			data, err := client.Get(ctx, d).ToByteSlice(c14BackendMax)
			res = append(res, L(AI(c14Code(err)), LBytes(data)))
		case 2:
			be.mu.Lock()
			be.absent = map[string]bool{}
			be.fmErr = map[string]int{}
			be.calls = nil
			sb := digest.NewSetBuilder(0)
			for _, e := range op.Nth(1).List {
				inst, fn, bi, size, _ := bl.ref(e, 0)
				d := bl.digest(inst, fn, bi, size)
				sb.Add(d)
				if e.Nth(4).Z == 1 {
					be.absent[c14fKey(d)] = true
				}
			}
			// the first directive naming a partition decides its status
			for _, e := range op.Nth(2).List {
				k := fmt.Sprintf("%s|%d", c14fInstances[e.Nth(0).Z], c14fFunctions[e.Nth(1).Z])
				if _, ok := be.fmErr[k]; !ok {
					be.fmErr[k] = int(e.Nth(2).Z)
				}
			}
			be.mu.Unlock()
			missing, err := client.FindMissing(ctx, sb.Build())
			ms := []Sx{}
			if err == nil {
				for _, d := range missing.Items() {
					ms = append(ms, bl.ident(d))
				}
			}
			c14fSortIdents(ms)
			be.mu.Lock()
			calls := []Sx{}
			for _, c := range be.calls {
				l := []Sx{}
				for _, d := range c {
					l = append(l, bl.ident(d))
				}
				c14fSortIdents(l)
				calls = append(calls, L(l...))
			}
			be.mu.Unlock()
			sort.SliceStable(calls, func(i, j int) bool { return calls[i].String() < calls[j].String() })
			res = append(res, L(AI(c14Code(err)), L(ms...), L(calls...)))
		}
		cancel()
	}
	be.mu.Lock()
	final := []Sx{}
	for k, o := range be.objects {
		id := bl.ident(be.digests[k])
		final = append(final, L(id.Nth(0), id.Nth(1), id.Nth(2), id.Nth(3), LBytes(o)))
	}
	be.mu.Unlock()
	c14fSortIdents(final)
	return L(L(res...), L(final...)), true
}

// ---------------------------------------------------------------- generation

func c14fPerm(r *Rand, n int) []int {
	p := make([]int, n)
	for i := range p {
		p[i] = i
	}
	for a := n - 1; a > 0; a-- {
		b := r.Intn(a + 1)
		p[a], p[b] = p[b], p[a]
	}
	return p
}

func c14fEntryKey(fn, bi int) string { return fmt.Sprintf("%d/%d", fn, bi) }

func (c14f) Gen(r *Rand, i int, tier string) Sx {
	chunk := r.Pick([]int{1, 16, 64, 64})
	nb := 1 + r.Intn(3)
	bs := [][]byte{}
	for len(bs) < nb {
		b := c14Blob(r, r.Pick([]int{0, 1, 2, 5, 16, 17, 33, 64, 100}))
		dup := false
		for _, o := range bs {
			if string(o) == string(b) {
				dup = true
			}
		}
		if !dup || r.Chance(10) {
			bs = append(bs, b)
		}
	}
	// the instance names and digest functions in play: few, so that they collide
	insts := c14fPerm(r, len(c14fInstances))[:2+r.Intn(3)]
	fns := c14fPerm(r, len(c14fFunctions))[:1+r.Intn(2)]
	if r.Chance(10) {
		insts = insts[:1]
	}
	pickQ := func() (int, int, int) {
		return insts[r.Intn(len(insts))], fns[r.Intn(len(fns))], r.Intn(len(bs))
	}
	size := func(bi int) int64 {
		n := int64(len(bs[bi]))
		if r.Chance(8) {
			n++
		}
		return n
	}
	fm := func() Sx {
		es := []Sx{}
		for g := 1 + r.Intn(3); g > 0; g-- {
			_, fn, bi := pickQ()
			switch r.Intn(10) {
			case 0, 1: // one digest
				es = append(es, L(AI(insts[r.Intn(len(insts))]), AI(fn), AI(bi), A(size(bi)), AB(r.Chance(35))))
			default: // the same blob under several instance names (and sometimes several functions / sizes)
				for _, in := range insts {
					if r.Chance(80) {
						f := fn
						if r.Chance(15) {
							f = fns[r.Intn(len(fns))]
						}
						es = append(es, L(AI(in), AI(f), AI(bi), A(size(bi)), AB(r.Chance(35))))
					}
				}
			}
		}
		errs := []Sx{}
		if r.Chance(12) {
			for k := 1 + r.Intn(2); k > 0; k-- {
				in, fn := insts[r.Intn(len(insts))], fns[r.Intn(len(fns))]
				if len(es) > 0 && r.Chance(70) {
					e := es[r.Intn(len(es))]
					in, fn = int(e.Nth(0).Z), int(e.Nth(1).Z)
				}
				errs = append(errs, L(AI(in), AI(fn), AI(r.Pick(c14Faults))))
			}
		}
		for a := len(es) - 1; a > 0; a-- {
			b := r.Intn(a + 1)
			es[a], es[b] = es[b], es[a]
		}
		return L(A(2), L(es...), L(errs...))
	}
	ops := []Sx{}
	for k := r.Intn(4); k > 0; k-- {
		in, fn, bi := pickQ()
		ops = append(ops, L(A(0), AI(in), AI(fn), AI(bi), A(size(bi))))
	}
	for k := 1 + r.Intn(3); k > 0; k-- {
		switch r.Intn(8) {
		case 0:
			in, fn, bi := pickQ()
			ops = append(ops, L(A(0), AI(in), AI(fn), AI(bi), A(size(bi))))
		case 1:
			in, fn, bi := pickQ()
			ops = append(ops, L(A(1), AI(in), AI(fn), AI(bi), A(size(bi))))
		default:
			ops = append(ops, fm())
		}
	}
	return L(c14SxBlobs(bs...), AI(chunk), L(ops...))
}

// Class: how the FindMissing calls of the case relate instance names to blobs.
//
//	shared-differ: some call names the same hash in >= 2 digests (other instance
//	               name or size) and the answer differs among them
//	shared-same:   ... and the answer is the same for all of them
//	disjoint:      >= 2 partitions in a call, no hash shared
//	single:        one partition per call
//	nofm:          no FindMissing
func (c14f) Class(in, obs Sx) (string, bool) {
	rank := 0
	worst := int64(0)
	names := []string{"nofm", "single", "disjoint", "shared-same", "shared-differ"}
	for i, op := range in.Nth(2).List {
		r := obs.Nth(0).Nth(i)
		if r.Nth(0).Z != 0 {
			worst = r.Nth(0).Z
		}
		if op.Nth(0).Z != 2 {
			continue
		}
		parts := map[string]bool{}
		groups := map[string]map[string]bool{} // fn/blob -> set of inst/size
		for _, e := range op.Nth(1).List {
			parts[fmt.Sprint(e.Nth(0).Z, "/", e.Nth(1).Z)] = true
			g := c14fEntryKey(int(e.Nth(1).Z), int(e.Nth(2).Z))
			if groups[g] == nil {
				groups[g] = map[string]bool{}
			}
			groups[g][fmt.Sprint(e.Nth(0).Z, "/", e.Nth(3).Z)] = true
		}
		got := map[string]map[string]bool{}
		for _, m := range r.Nth(1).List {
			g := c14fEntryKey(int(m.Nth(1).Z), int(m.Nth(2).Z))
			if got[g] == nil {
				got[g] = map[string]bool{}
			}
			got[g][fmt.Sprint(m.Nth(0).Z, "/", m.Nth(3).Z)] = true
		}
		k := 1
		if len(parts) >= 2 {
			k = 2
		}
		for g, members := range groups {
			if len(members) >= 2 {
				if k < 3 {
					k = 3
				}
				if n := len(got[g]); n > 0 && n < len(members) {
					k = 4
				}
			}
		}
		if k > rank {
			rank = k
		}
	}
	return "cs-fm/" + names[rank] + "/" + c14Outcome(worst), rank >= 3
}
