package main

// C15: cloned buffers, the multiplexed chunk reader and buffers with
// background tasks.
//
// Two case shapes (first atom):
//   (1 ktag kcode fault payload ops meth)   M2: decorator program + method
//   (2 nchunks term csz ncons progs sched)  M1: schedule of n consumers (below)

import (
	"bytes"
	"crypto/sha256"
	"encoding/hex"
	"io"
	"runtime"
	"strconv"
	"sync"
	"sync/atomic"
	"time"

	remoteexecution "github.com/bazelbuild/remote-apis/build/bazel/remote/execution/v2"
	"github.com/buildbarn/bb-storage/pkg/blobstore/buffer"
	"github.com/buildbarn/bb-storage/pkg/digest"

	"google.golang.org/grpc/codes"
	"google.golang.org/grpc/status"
	"google.golang.org/protobuf/proto"
	"google.golang.org/protobuf/types/known/wrapperspb"
)

func init() { props["C15"] = c15{} }

type c15 struct{}

// ---------------------------------------------------------------------------
// shared helpers
// ---------------------------------------------------------------------------

func c15Goid() int64 {
	var b [64]byte
	n := runtime.Stack(b[:], false)
	// "goroutine 123 [running]:"
	s := b[:n]
	if len(s) < 10 {
		return -1
	}
	s = s[10:]
	var id int64
	for _, c := range s {
		if c < '0' || c > '9' {
			break
		}
		id = id*10 + int64(c-'0')
	}
	return id
}

func c15Code(err error) int {
	return int(status.Code(err))
}

func c15Digest(data []byte) digest.Digest {
	h := sha256.Sum256(data)
	return digest.MustNewDigest("c15", remoteexecution.DigestFunction_SHA256, hex.EncodeToString(h[:]), int64(len(data)))
}

// c15Data is the object content for a payload: the wire form of a
// BytesValue message, so that ToProto can succeed on every kind.
func c15Data(payload []byte) []byte {
	if len(payload) == 0 {
		return []byte{}
	}
	return append([]byte{10, byte(len(payload))}, payload...)
}

// result encodings: (-1) panic, (0 bytes) ok, (1 bytes) eof, (2 code) error
func c15Ok(b []byte) Sx  { return L(A(0), LBytes(b)) }
func c15Eof(b []byte) Sx { return L(A(1), LBytes(b)) }
func c15Err(err error) Sx {
	return L(A(2), AI(c15Code(err)))
}
func c15Panic() Sx { return L(A(-1)) }

// ---------------------------------------------------------------------------
// M2: decorator programs
// ---------------------------------------------------------------------------

type c15Env struct {
	closes    atomic.Int32
	closeOnce sync.Once
	srcClosed chan struct{}
	release   chan struct{}
	builder   int64
}

func (e *c15Env) closed() {
	e.closes.Add(1)
	e.closeOnce.Do(func() { close(e.srcClosed) })
}

type c15Reader struct {
	env  *c15Env
	data []byte
	fin  error
}

func (r *c15Reader) Read(p []byte) (int, error) {
	if len(r.data) == 0 {
		return 0, r.fin
	}
	if len(p) > 5 {
		p = p[:5]
	}
	n := copy(p, r.data)
	r.data = r.data[n:]
	return n, nil
}
func (r *c15Reader) Close() error { r.env.closed(); return nil }

type c15ChunkReader struct {
	env  *c15Env
	data []byte
	fin  error
}

func (r *c15ChunkReader) Read() ([]byte, error) {
	if len(r.data) == 0 {
		return nil, r.fin
	}
	n := 3
	if n > len(r.data) {
		n = len(r.data)
	}
	c := append([]byte(nil), r.data[:n]...)
	r.data = r.data[n:]
	return c, nil
}
func (r *c15ChunkReader) Close() { r.env.closed() }

type c15ReaderAt struct {
	env  *c15Env
	data []byte
}

func (r *c15ReaderAt) ReadAt(p []byte, off int64) (int, error) {
	if off < 0 {
		return 0, status.Error(codes.InvalidArgument, "negative offset")
	}
	if off >= int64(len(r.data)) {
		return 0, io.EOF
	}
	n := copy(p, r.data[off:])
	if n < len(p) {
		return n, io.EOF
	}
	return n, nil
}
func (r *c15ReaderAt) Close() error { r.env.closed(); return nil }

type c15Handler struct{ h int }

func (h c15Handler) OnError(err error) (buffer.Buffer, error) {
	if h.h == 0 {
		return nil, err
	}
	return nil, status.Error(codes.Code(h.h), "translated")
}
func (c15Handler) Done() {}

type c15Task struct {
	op   int
	done atomic.Bool
}

type c15Handle struct {
	res    Sx
	waited bool
}

func c15MethOK(m Sx) bool {
	if m.IsAtom || m.Len() < 1 {
		return false
	}
	in := func(x Sx, lo, hi int64) bool { return x.IsAtom && x.Big == "" && x.Z >= lo && x.Z <= hi }
	switch m.Nth(0).Z {
	case 0, 1, 6, 7:
		return m.Len() == 1 && m.Nth(0).IsAtom
	case 2:
		return m.Len() == 3 && in(m.Nth(1), 1, 64) && in(m.Nth(2), 0, 200)
	case 3, 4:
		return m.Len() == 2 && in(m.Nth(1), 0, 1000)
	case 5:
		return m.Len() == 3 && in(m.Nth(1), 0, 200) && in(m.Nth(2), 1, 100)
	}
	return false
}

// c15Consume applies one Buffer method and consumes the result completely.
func c15Consume(b buffer.Buffer, m Sx) Sx {
	switch m.Nth(0).Z {
	case 0:
		n, err := b.GetSizeBytes()
		b.Discard()
		if err != nil {
			return c15Err(err)
		}
		return L(A(0), L(A(n)))
	case 1:
		var w bytes.Buffer
		if err := b.IntoWriter(&w); err != nil {
			return c15Err(err)
		}
		return c15Ok(w.Bytes())
	case 2:
		p := make([]byte, m.Nth(1).Int())
		n, err := b.ReadAt(p, m.Nth(2).Z)
		if err == io.EOF {
			return c15Eof(p[:n])
		} else if err != nil {
			return c15Err(err)
		}
		return c15Ok(p[:n])
	case 3:
		msg, err := b.ToProto(&wrapperspb.BytesValue{}, m.Nth(1).Int())
		if err != nil {
			return c15Err(err)
		}
		data, err := proto.Marshal(msg)
		if err != nil {
			return c15Err(err)
		}
		return c15Ok(data)
	case 4:
		data, err := b.ToByteSlice(m.Nth(1).Int())
		if err != nil {
			return c15Err(err)
		}
		return c15Ok(data)
	case 5:
		r := b.ToChunkReader(m.Nth(1).Z, m.Nth(2).Int())
		defer r.Close()
		var all []byte
		for i := 0; i < 100000; i++ {
			c, err := r.Read()
			if err == io.EOF {
				return c15Ok(all)
			} else if err != nil {
				return c15Err(err)
			}
			all = append(all, c...)
		}
		return L(A(-3))
	case 6:
		r := b.ToReader()
		data, err := io.ReadAll(r)
		cerr := r.Close()
		if err != nil {
			return c15Err(err)
		}
		if cerr != nil {
			return c15Err(cerr)
		}
		return c15Ok(data)
	default:
		b.Discard()
		return c15Ok(nil)
	}
}

func c15ExecProg(in Sx) (Sx, bool) {
	if in.Len() != 7 {
		return Sx{}, false
	}
	ktag, kcode, fault := in.Nth(1), in.Nth(2), in.Nth(3)
	if !ktag.IsAtom || !kcode.IsAtom || !fault.IsAtom || ktag.Z < 0 || ktag.Z > 5 || kcode.Z < 1 || kcode.Z > 16 || fault.Z < 0 || fault.Z > 16 {
		return Sx{}, false
	}
	pl := in.Nth(4)
	if pl.IsAtom || pl.Len() > 100 {
		return Sx{}, false
	}
	for _, x := range pl.List {
		if !x.IsAtom || x.Z < 0 || x.Z > 255 || x.Big != "" {
			return Sx{}, false
		}
	}
	ops, meth := in.Nth(5), in.Nth(6)
	if ops.IsAtom || ops.Len() > 8 || !c15MethOK(meth) {
		return Sx{}, false
	}
	for _, op := range ops.List {
		if op.IsAtom || op.Len() < 2 || !op.Nth(0).IsAtom {
			return Sx{}, false
		}
		switch op.Nth(0).Z {
		case 0: // (0 side sibmeth)
			if op.Len() != 3 || !c15MethOK(op.Nth(2)) {
				return Sx{}, false
			}
		case 1: // (1 side max sibmeth)
			if op.Len() != 4 || !op.Nth(2).IsAtom || op.Nth(2).Z < 0 || op.Nth(2).Z > 1000 || !c15MethOK(op.Nth(3)) {
				return Sx{}, false
			}
		case 2, 3: // (2 terr) (3 h)
			if op.Len() != 2 || !op.Nth(1).IsAtom || op.Nth(1).Z < 0 || op.Nth(1).Z > 16 {
				return Sx{}, false
			}
		default:
			return Sx{}, false
		}
	}
	data := c15Data(pl.Bytes())
	if fault.Z == 1 && len(data) == 0 {
		return Sx{}, false
	}
	d := c15Digest(data)
	wire := append([]byte(nil), data...)
	var fin error = io.EOF
	if fault.Z == 1 {
		wire[0] ^= 0x40
	} else if fault.Z >= 2 {
		fin = status.Error(codes.Code(fault.Z), "source failure")
	}
	env := &c15Env{srcClosed: make(chan struct{}), release: make(chan struct{})}
	src := buffer.BackendProvided(func(bool) {})

	nh := 1
	for _, op := range ops.List {
		if op.Nth(0).Z <= 1 {
			nh++
		}
	}
	handles := make([]c15Handle, nh)
	for i := range handles {
		handles[i].res = L(A(-2)) // never ran
	}
	var tasks []*c15Task
	var wg sync.WaitGroup
	allDone := func(upto int) bool {
		for _, t := range tasks {
			if t.op < upto && !t.done.Load() {
				return false
			}
		}
		return true
	}
	// consume runs in its own goroutine for siblings
	consume := func(slot int, b buffer.Buffer, m Sx, upto int, ts []*c15Task) {
		defer wg.Done()
		defer func() {
			if r := recover(); r != nil {
				handles[slot].res = c15Panic()
				handles[slot].waited = true
			}
		}()
		res := c15Consume(b, m)
		w := true
		for _, t := range ts {
			if t.op < upto && !t.done.Load() {
				w = false
			}
		}
		handles[slot] = c15Handle{res: res, waited: w}
	}
	_ = allDone

	wg.Add(1)
	go func() {
		defer wg.Done()
		slot := 0
		defer func() {
			if r := recover(); r != nil {
				handles[nh-1].res = c15Panic()
				handles[nh-1].waited = true
			}
		}()
		env.builder = c15Goid()
		var b buffer.Buffer
		switch ktag.Z {
		case 0:
			b = buffer.NewCASBufferFromByteSlice(d, data, src)
		case 1:
			b = buffer.NewProtoBufferFromProto(&wrapperspb.BytesValue{Value: pl.Bytes()}, buffer.UserProvided)
		case 2:
			b = buffer.NewBufferFromError(status.Error(codes.Code(kcode.Z), "base"))
		case 3:
			b = buffer.NewValidatedBufferFromReaderAt(&c15ReaderAt{env: env, data: data}, int64(len(data)))
		case 4:
			b = buffer.NewCASBufferFromReader(d, &c15Reader{env: env, data: wire, fin: fin}, src)
		default:
			b = buffer.NewCASBufferFromChunkReader(d, &c15ChunkReader{env: env, data: wire, fin: fin}, src)
		}
		for i, op := range ops.List {
			switch op.Nth(0).Z {
			case 0, 1:
				var b1, b2 buffer.Buffer
				var sm Sx
				if op.Nth(0).Z == 0 {
					b1, b2 = b.CloneStream()
					sm = op.Nth(2)
				} else {
					b1, b2 = b.CloneCopy(op.Nth(2).Int())
					sm = op.Nth(3)
				}
				keep, sib := b1, b2
				if op.Nth(1).Z != 0 {
					keep, sib = b2, b1
				}
				wg.Add(1)
				go consume(slot, sib, sm, i, append([]*c15Task(nil), tasks...))
				slot++
				b = keep
			case 2:
				t := &c15Task{op: i}
				tasks = append(tasks, t)
				terr := op.Nth(1).Z
				b = b.WithTask(func() error {
					if c15Goid() != env.builder {
						// asynchronous: finish only after the data
						// part of the consumption is over
						select {
						case <-env.srcClosed:
						case <-env.release:
						}
						for k := 0; k < 20; k++ {
							runtime.Gosched()
						}
					}
					t.done.Store(true)
					if terr != 0 {
						return status.Error(codes.Code(terr), "task")
					}
					return nil
				})
			default:
				b = buffer.WithErrorHandler(b, c15Handler{h: op.Nth(1).Int()})
			}
		}
		res := c15Consume(b, meth)
		w := true
		for _, t := range tasks {
			if !t.done.Load() {
				w = false
			}
		}
		handles[nh-1] = c15Handle{res: res, waited: w}
	}()

	fin2 := make(chan struct{})
	go func() { wg.Wait(); close(fin2) }()
	timeout := 0
	select {
	case <-fin2:
	case <-time.After(1500 * time.Millisecond):
		timeout = 1
	}
	close(env.release)
	if timeout == 1 {
		// give stragglers a moment so that the snapshot below is stable
		select {
		case <-fin2:
		case <-time.After(200 * time.Millisecond):
		}
	}
	hs := make([]Sx, nh)
	if timeout == 1 {
		// handles may still be written by leaked goroutines: report none
		for i := range hs {
			hs[i] = L(L(A(-2)), A(0))
		}
	} else {
		for i, h := range handles {
			hs[i] = L(h.res, AB(h.waited))
		}
	}
	return L(AI(int(env.closes.Load())), AI(timeout), L(hs...)), true
}

// ---------------------------------------------------------------------------
// generation (M2)
// ---------------------------------------------------------------------------

func c15GenMeth(r *Rand, n int) Sx {
	switch r.Intn(12) {
	case 0:
		return L(A(0))
	case 1, 2:
		return L(A(1))
	case 3:
		ln := 1 + r.Intn(n+3)
		return L(A(2), AI(ln), AI(r.Intn(n+2)))
	case 4:
		return L(A(3), AI(r.Pick([]int{1000, 1000, n, n - 1, 0})))
	case 5, 6:
		mx := r.Pick([]int{1000, 1000, 1000, n, n - 1, 0})
		if mx < 0 {
			mx = 0
		}
		return L(A(4), AI(mx))
	case 7, 8:
		return L(A(5), AI(r.Pick([]int{0, 0, 0, 1, n, n + 1, n / 2})), AI(r.Pick([]int{1, 2, 3, 7, 100})))
	case 9, 10:
		return L(A(6))
	default:
		return L(A(7))
	}
}

func c15FixMeth(m Sx) Sx {
	if m.Nth(0).Z == 3 && m.Nth(1).Z < 0 {
		return L(A(3), A(0))
	}
	return m
}

var c15Codes = []int{5, 14, 9, 2}

func c15GenProg(r *Rand, tier string) Sx {
	depth := 3
	if tier == "thorough" {
		depth = 4
	}
	ktag := r.Pick([]int{0, 1, 2, 3, 4, 4, 4, 4, 5, 5, 5, 5})
	kcode := r.Pick(c15Codes)
	fault := 0
	pln := r.Pick([]int{0, 1, 2, 5, 9, 14})
	if ktag >= 4 && r.Chance(30) {
		if r.Bool() && pln > 0 {
			fault = 1
		} else {
			fault = r.Pick(c15Codes)
		}
	}
	pl := make([]byte, pln)
	for i := range pl {
		pl[i] = byte(r.Intn(256))
	}
	n := len(c15Data(pl))
	nops := r.Intn(depth + 1)
	if r.Chance(60) {
		nops = depth - r.Intn(2)
	}
	ops := []Sx{}
	for i := 0; i < nops; i++ {
		switch r.Intn(7) {
		case 0, 1:
			ops = append(ops, L(A(0), AI(r.Intn(2)), c15FixMeth(c15GenMeth(r, n))))
		case 2:
			ops = append(ops, L(A(1), AI(r.Intn(2)), AI(r.Pick([]int{1000, 1000, 1000, n, 0})), c15FixMeth(c15GenMeth(r, n))))
		case 3, 4:
			ops = append(ops, L(A(2), AI(r.Pick([]int{0, 0, 0, 10, 8, 14}))))
		default:
			ops = append(ops, L(A(3), AI(r.Pick([]int{0, 0, 7, 13, 5}))))
		}
	}
	return L(A(1), AI(ktag), AI(kcode), AI(fault), LBytes(pl), L(ops...), c15FixMeth(c15GenMeth(r, n)))
}

func (c15) Gen(r *Rand, i int, tier string) Sx {
	return c15GenProg(r, tier)
}

func (c15) Exec(in Sx) (Sx, bool) {
	if in.IsAtom || !in.Nth(0).IsAtom {
		return Sx{}, false
	}
	switch in.Nth(0).Z {
	case 1:
		return c15ExecProg(in)
	}
	return Sx{}, false
}

var c15KindNames = []string{"bytes", "proto", "error", "readerat", "reader", "chunkreader"}
var c15MethNames = []string{"size", "writer", "readat", "proto", "slice", "chunks", "reader", "discard"}

func (c15) Class(in, obs Sx) (string, bool) {
	if in.Nth(0).Z == 1 {
		ops := ""
		for _, op := range in.Nth(5).List {
			ops += string("SCTE"[op.Nth(0).Z&3])
		}
		if ops == "" {
			ops = "-"
		}
		f := "ok"
		if in.Nth(3).Z == 1 {
			f = "corrupt"
		} else if in.Nth(3).Z > 1 {
			f = "ioerr"
		}
		return "prog/" + c15KindNames[in.Nth(1).Z%6] + "/" + ops + "/" + c15MethNames[in.Nth(6).Nth(0).Z&7] + "/" + f, in.Nth(5).Len() >= 1
	}
	return "mux/" + strconv.Itoa(in.Nth(4).Int()), true
}
