package main

// C15: cloned buffers, the multiplexed chunk reader and buffers with
// background tasks.
//
// Two case shapes (first atom):
//   (1 ktag kcode fault payload ops meth)   M2: decorator program + method
//   (2 nchunks term csz ncons progs sched)  M1: schedule of n consumers (below)

import (
	"bytes"
	"crypto/sha256"
	"encoding/hex"
	"io"
	"runtime"
	"strconv"
	"sync"
	"sync/atomic"
	"time"

	remoteexecution "github.com/bazelbuild/remote-apis/build/bazel/remote/execution/v2"
	"github.com/buildbarn/bb-storage/pkg/blobstore/buffer"
	"github.com/buildbarn/bb-storage/pkg/digest"

	"google.golang.org/grpc/codes"
	"google.golang.org/grpc/status"
	"google.golang.org/protobuf/proto"
	"google.golang.org/protobuf/types/known/wrapperspb"
)

func init() { props["C15"] = c15{} }

type c15 struct{}

// ---------------------------------------------------------------------------
// shared helpers
// ---------------------------------------------------------------------------

func c15Goid() int64 {
	var b [64]byte
	n := runtime.Stack(b[:], false)
	// "goroutine 123 [running]:"
	s := b[:n]
	if len(s) < 10 {
		return -1
	}
	s = s[10:]
	var id int64
	for _, c := range s {
		if c < '0' || c > '9' {
			break
		}
		id = id*10 + int64(c-'0')
	}
	return id
}

// c15Quiescent reports whether every other goroutine of the process is
// blocked (three consecutive scans).  Used only after a wait timed out, to tell a
// deadlock from a slow machine.
var c15BlockedStates = []string{"chan receive", "chan send", "select", "semacquire", "sync.", "IO wait",
	"GC worker (idle)", "GC sweep wait", "GC scavenge wait", "finalizer wait", "force gc (idle)", "cleanup wait"}

func c15Quiescent() bool {
	buf := make([]byte, 8<<20)
	for round := 0; round < 3; round++ {
		n := runtime.Stack(buf, true)
		first := true
		for _, blk := range bytes.Split(buf[:n], []byte("\n\n")) {
			if !bytes.HasPrefix(blk, []byte("goroutine ")) {
				continue
			}
			if first { // the calling goroutine
				first = false
				continue
			}
			i := bytes.IndexByte(blk, '[')
			if i < 0 {
				continue
			}
			st := blk[i+1:]
			blocked := false
			for _, w := range c15BlockedStates {
				if bytes.HasPrefix(st, []byte(w)) {
					blocked = true
					break
				}
			}
			if !blocked { // running, runnable, preempted, syscall, GC assist, ...
				return false
			}
		}
		runtime.Gosched()
		time.Sleep(2 * time.Millisecond)
	}
	return true
}

// c15Wait waits for done; returns false only if the process is deadlocked
// (nothing runnable) or 30 s have passed.
func c15Wait(done <-chan struct{}) bool {
	start := time.Now()
	for time.Since(start) < 30*time.Second {
		select {
		case <-done:
			return true
		case <-time.After(25 * time.Millisecond):
		}
		if c15Quiescent() {
			select {
			case <-done:
				return true
			default:
				c15Deadlocks.Add(1)
				return false
			}
		}
	}
	c15Deadlocks.Add(1)
	return false
}

// Goroutines of a deadlocked case stay parked for the rest of the process;
// after a few of them the remaining cases of the run are not executed.
var c15Deadlocks atomic.Int32

const c15MaxDeadlocks = 12

func c15Code(err error) int {
	return int(status.Code(err))
}

func c15Digest(data []byte) digest.Digest {
	h := sha256.Sum256(data)
	return digest.MustNewDigest("c15", remoteexecution.DigestFunction_SHA256, hex.EncodeToString(h[:]), int64(len(data)))
}

// c15Data is the object content for a payload: the wire form of a
// BytesValue message, so that ToProto can succeed on every kind.
func c15Data(payload []byte) []byte {
	if len(payload) == 0 {
		return []byte{}
	}
	return append([]byte{10, byte(len(payload))}, payload...)
}

// result encodings: (-1) panic, (0 bytes) ok, (1 bytes) eof, (2 code) error
func c15Ok(b []byte) Sx  { return L(A(0), LBytes(b)) }
func c15Eof(b []byte) Sx { return L(A(1), LBytes(b)) }
func c15Err(err error) Sx {
	return L(A(2), AI(c15Code(err)))
}
func c15Panic() Sx { return L(A(-1)) }

// ---------------------------------------------------------------------------
// M2: decorator programs
// ---------------------------------------------------------------------------

type c15Env struct {
	closes    atomic.Int32
	closeOnce sync.Once
	srcClosed chan struct{}
	release   chan struct{}
	builder   int64
}

func (e *c15Env) closed() {
	e.closes.Add(1)
	e.closeOnce.Do(func() { close(e.srcClosed) })
}

type c15Reader struct {
	env  *c15Env
	data []byte
	fin  error
}

func (r *c15Reader) Read(p []byte) (int, error) {
	if len(r.data) == 0 {
		return 0, r.fin
	}
	if len(p) > 5 {
		p = p[:5]
	}
	n := copy(p, r.data)
	r.data = r.data[n:]
	return n, nil
}
func (r *c15Reader) Close() error { r.env.closed(); return nil }

type c15ChunkReader struct {
	env  *c15Env
	data []byte
	fin  error
}

func (r *c15ChunkReader) Read() ([]byte, error) {
	if len(r.data) == 0 {
		return nil, r.fin
	}
	n := 3
	if n > len(r.data) {
		n = len(r.data)
	}
	c := append([]byte(nil), r.data[:n]...)
	r.data = r.data[n:]
	return c, nil
}
func (r *c15ChunkReader) Close() { r.env.closed() }

type c15ReaderAt struct {
	env  *c15Env
	data []byte
}

func (r *c15ReaderAt) ReadAt(p []byte, off int64) (int, error) {
	if off < 0 {
		return 0, status.Error(codes.InvalidArgument, "negative offset")
	}
	if off >= int64(len(r.data)) {
		return 0, io.EOF
	}
	n := copy(p, r.data[off:])
	if n < len(p) {
		return n, io.EOF
	}
	return n, nil
}
func (r *c15ReaderAt) Close() error { r.env.closed(); return nil }

type c15Handler struct{ h int }

func (h c15Handler) OnError(err error) (buffer.Buffer, error) {
	if h.h == 0 {
		return nil, err
	}
	return nil, status.Error(codes.Code(h.h), "translated")
}
func (c15Handler) Done() {}

type c15Task struct {
	op   int
	done atomic.Bool
}

type c15Handle struct {
	res    Sx
	waited bool
}

func c15MethOK(m Sx) bool {
	if m.IsAtom || m.Len() < 1 {
		return false
	}
	in := func(x Sx, lo, hi int64) bool { return x.IsAtom && x.Big == "" && x.Z >= lo && x.Z <= hi }
	switch m.Nth(0).Z {
	case 0, 1, 6, 7:
		return m.Len() == 1 && m.Nth(0).IsAtom
	case 2:
		return m.Len() == 3 && in(m.Nth(1), 1, 64) && in(m.Nth(2), 0, 200)
	case 3, 4:
		return m.Len() == 2 && in(m.Nth(1), 0, 1000)
	case 5:
		return m.Len() == 3 && in(m.Nth(1), 0, 200) && in(m.Nth(2), 1, 100)
	}
	return false
}

// c15Consume applies one Buffer method and consumes the result completely.
func c15Consume(b buffer.Buffer, m Sx) Sx {
	switch m.Nth(0).Z {
	case 0:
		released := false
		defer func() {
			if !released {
				// GetSizeBytes panicked: the buffer is untouched, release it so
				// that the other consumers of a clone are not left waiting
				defer func() { recover() }()
				b.Discard()
			}
		}()
		n, err := b.GetSizeBytes()
		released = true
		b.Discard()
		if err != nil {
			return c15Err(err)
		}
		return L(A(0), L(A(n)))
	case 1:
		var w bytes.Buffer
		if err := b.IntoWriter(&w); err != nil {
			return c15Err(err)
		}
		return c15Ok(w.Bytes())
	case 2:
		p := make([]byte, m.Nth(1).Int())
		n, err := b.ReadAt(p, m.Nth(2).Z)
		if err == io.EOF {
			return c15Eof(p[:n])
		} else if err != nil {
			return c15Err(err)
		}
		return c15Ok(p[:n])
	case 3:
		msg, err := b.ToProto(&wrapperspb.BytesValue{}, m.Nth(1).Int())
		if err != nil {
			return c15Err(err)
		}
		data, err := proto.Marshal(msg)
		if err != nil {
			return c15Err(err)
		}
		return c15Ok(data)
	case 4:
		data, err := b.ToByteSlice(m.Nth(1).Int())
		if err != nil {
			return c15Err(err)
		}
		return c15Ok(data)
	case 5:
		r := b.ToChunkReader(m.Nth(1).Z, m.Nth(2).Int())
		defer r.Close()
		var all []byte
		for i := 0; i < 100000; i++ {
			c, err := r.Read()
			if err == io.EOF {
				return c15Ok(all)
			} else if err != nil {
				return c15Err(err)
			}
			all = append(all, c...)
		}
		return L(A(-3))
	case 6:
		r := b.ToReader()
		data, err := io.ReadAll(r)
		cerr := r.Close()
		if err != nil {
			return c15Err(err)
		}
		if cerr != nil {
			return c15Err(cerr)
		}
		return c15Ok(data)
	default:
		b.Discard()
		return c15Ok(nil)
	}
}

func c15ExecProg(in Sx) (Sx, bool) {
	if in.Len() != 7 {
		return Sx{}, false
	}
	ktag, kcode, fault := in.Nth(1), in.Nth(2), in.Nth(3)
	if !ktag.IsAtom || !kcode.IsAtom || !fault.IsAtom || ktag.Z < 0 || ktag.Z > 5 || kcode.Z < 1 || kcode.Z > 16 || fault.Z < 0 || fault.Z > 16 {
		return Sx{}, false
	}
	pl := in.Nth(4)
	if pl.IsAtom || pl.Len() > 100 {
		return Sx{}, false
	}
	for _, x := range pl.List {
		if !x.IsAtom || x.Z < 0 || x.Z > 255 || x.Big != "" {
			return Sx{}, false
		}
	}
	ops, meth := in.Nth(5), in.Nth(6)
	if ops.IsAtom || ops.Len() > 8 || !c15MethOK(meth) {
		return Sx{}, false
	}
	for _, op := range ops.List {
		if op.IsAtom || op.Len() < 2 || !op.Nth(0).IsAtom {
			return Sx{}, false
		}
		switch op.Nth(0).Z {
		case 0: // (0 side sibmeth)
			if op.Len() != 3 || !c15MethOK(op.Nth(2)) {
				return Sx{}, false
			}
		case 1: // (1 side max sibmeth)
			if op.Len() != 4 || !op.Nth(2).IsAtom || op.Nth(2).Z < 0 || op.Nth(2).Z > 1000 || !c15MethOK(op.Nth(3)) {
				return Sx{}, false
			}
		case 2, 3: // (2 terr) (3 h)
			if op.Len() != 2 || !op.Nth(1).IsAtom || op.Nth(1).Z < 0 || op.Nth(1).Z > 16 {
				return Sx{}, false
			}
		default:
			return Sx{}, false
		}
	}
	data := c15Data(pl.Bytes())
	if fault.Z == 1 && len(data) == 0 {
		return Sx{}, false
	}
	d := c15Digest(data)
	wire := append([]byte(nil), data...)
	var fin error = io.EOF
	if fault.Z == 1 {
		wire[0] ^= 0x40
	} else if fault.Z >= 2 {
		fin = status.Error(codes.Code(fault.Z), "source failure")
	}
	env := &c15Env{srcClosed: make(chan struct{}), release: make(chan struct{})}
	src := buffer.BackendProvided(func(bool) {})

	nh := 1
	for _, op := range ops.List {
		if op.Nth(0).Z <= 1 {
			nh++
		}
	}
	handles := make([]c15Handle, nh)
	for i := range handles {
		handles[i].res = L(A(-2)) // never ran
	}
	var tasks []*c15Task
	var wg sync.WaitGroup
	allDone := func(upto int) bool {
		for _, t := range tasks {
			if t.op < upto && !t.done.Load() {
				return false
			}
		}
		return true
	}
	// consume runs in its own goroutine for siblings
	consume := func(slot int, b buffer.Buffer, m Sx, upto int, ts []*c15Task) {
		defer wg.Done()
		defer func() {
			if r := recover(); r != nil {
				handles[slot].res = c15Panic()
				handles[slot].waited = true
			}
		}()
		res := c15Consume(b, m)
		w := true
		for _, t := range ts {
			if t.op < upto && !t.done.Load() {
				w = false
			}
		}
		handles[slot] = c15Handle{res: res, waited: w}
	}
	_ = allDone

	wg.Add(1)
	go func() {
		defer wg.Done()
		slot := 0
		defer func() {
			if r := recover(); r != nil {
				handles[nh-1].res = c15Panic()
				handles[nh-1].waited = true
			}
		}()
		env.builder = c15Goid()
		var b buffer.Buffer
		switch ktag.Z {
		case 0:
			b = buffer.NewCASBufferFromByteSlice(d, data, src)
		case 1:
			b = buffer.NewProtoBufferFromProto(&wrapperspb.BytesValue{Value: pl.Bytes()}, buffer.UserProvided)
		case 2:
			b = buffer.NewBufferFromError(status.Error(codes.Code(kcode.Z), "base"))
		case 3:
			b = buffer.NewValidatedBufferFromReaderAt(&c15ReaderAt{env: env, data: data}, int64(len(data)))
		case 4:
			b = buffer.NewCASBufferFromReader(d, &c15Reader{env: env, data: wire, fin: fin}, src)
		default:
			b = buffer.NewCASBufferFromChunkReader(d, &c15ChunkReader{env: env, data: wire, fin: fin}, src)
		}
		for i, op := range ops.List {
			switch op.Nth(0).Z {
			case 0, 1:
				var b1, b2 buffer.Buffer
				var sm Sx
				if op.Nth(0).Z == 0 {
					b1, b2 = b.CloneStream()
					sm = op.Nth(2)
				} else {
					b1, b2 = b.CloneCopy(op.Nth(2).Int())
					sm = op.Nth(3)
				}
				keep, sib := b1, b2
				if op.Nth(1).Z != 0 {
					keep, sib = b2, b1
				}
				wg.Add(1)
				go consume(slot, sib, sm, i, append([]*c15Task(nil), tasks...))
				slot++
				b = keep
			case 2:
				t := &c15Task{op: i}
				tasks = append(tasks, t)
				terr := op.Nth(1).Z
				b = b.WithTask(func() error {
					if c15Goid() != env.builder {
						// asynchronous: finish only after the data
						// part of the consumption is over
						select {
						case <-env.srcClosed:
						case <-env.release:
						}
						for k := 0; k < 20; k++ {
							runtime.Gosched()
						}
					}
					t.done.Store(true)
					if terr != 0 {
						return status.Error(codes.Code(terr), "task")
					}
					return nil
				})
			default:
				b = buffer.WithErrorHandler(b, c15Handler{h: op.Nth(1).Int()})
			}
		}
		res := c15Consume(b, meth)
		w := true
		for _, t := range tasks {
			if !t.done.Load() {
				w = false
			}
		}
		handles[nh-1] = c15Handle{res: res, waited: w}
	}()

	fin2 := make(chan struct{})
	go func() { wg.Wait(); close(fin2) }()
	timeout := 0
	if !c15Wait(fin2) {
		timeout = 1
	}
	close(env.release)
	if timeout == 1 {
		// give stragglers a moment so that the snapshot below is stable
		select {
		case <-fin2:
		case <-time.After(200 * time.Millisecond):
		}
	}
	hs := make([]Sx, nh)
	if timeout == 1 {
		// handles may still be written by leaked goroutines: report none
		for i := range hs {
			hs[i] = L(L(A(-2)), A(0))
		}
	} else {
		for i, h := range handles {
			hs[i] = L(h.res, AB(h.waited))
		}
	}
	return L(AI(int(env.closes.Load())), AI(timeout), L(hs...)), true
}

// ---------------------------------------------------------------------------
// generation (M2)
// ---------------------------------------------------------------------------

func c15GenMeth(r *Rand, n int) Sx {
	switch r.Intn(12) {
	case 0:
		return L(A(0))
	case 1, 2:
		return L(A(1))
	case 3:
		ln := 1 + r.Intn(n+3)
		return L(A(2), AI(ln), AI(r.Intn(n+2)))
	case 4:
		return L(A(3), AI(r.Pick([]int{1000, 1000, n, n - 1, 0})))
	case 5, 6:
		mx := r.Pick([]int{1000, 1000, 1000, n, n - 1, 0})
		if mx < 0 {
			mx = 0
		}
		return L(A(4), AI(mx))
	case 7, 8:
		return L(A(5), AI(r.Pick([]int{0, 0, 0, 1, n, n + 1, n / 2})), AI(r.Pick([]int{1, 2, 3, 7, 100})))
	case 9, 10:
		return L(A(6))
	default:
		return L(A(7))
	}
}

func c15FixMeth(m Sx) Sx {
	if m.Nth(0).Z == 3 && m.Nth(1).Z < 0 {
		return L(A(3), A(0))
	}
	return m
}

var c15Codes = []int{5, 14, 9, 2}

func c15GenProg(r *Rand, tier string) Sx {
	depth := 3
	if tier == "thorough" {
		depth = 4
	}
	ktag := r.Pick([]int{0, 1, 2, 3, 4, 4, 4, 4, 5, 5, 5, 5})
	kcode := r.Pick(c15Codes)
	fault := 0
	pln := r.Pick([]int{0, 1, 2, 5, 9, 14})
	if ktag >= 4 && r.Chance(30) {
		if r.Bool() && pln > 0 {
			fault = 1
		} else {
			fault = r.Pick(c15Codes)
		}
	}
	pl := make([]byte, pln)
	for i := range pl {
		pl[i] = byte(r.Intn(256))
	}
	n := len(c15Data(pl))
	nops := r.Intn(depth + 1)
	if r.Chance(60) {
		nops = depth - r.Intn(2)
	}
	ops := []Sx{}
	for i := 0; i < nops; i++ {
		switch r.Intn(7) {
		case 0, 1:
			ops = append(ops, L(A(0), AI(r.Intn(2)), c15FixMeth(c15GenMeth(r, n))))
		case 2:
			ops = append(ops, L(A(1), AI(r.Intn(2)), AI(r.Pick([]int{1000, 1000, 1000, n, 0})), c15FixMeth(c15GenMeth(r, n))))
		case 3, 4:
			ops = append(ops, L(A(2), AI(r.Pick([]int{0, 0, 0, 10, 8, 14}))))
		default:
			ops = append(ops, L(A(3), AI(r.Pick([]int{0, 0, 7, 13, 5}))))
		}
	}
	return L(A(1), AI(ktag), AI(kcode), AI(fault), LBytes(pl), L(ops...), c15FixMeth(c15GenMeth(r, n)))
}

func (c15) Gen(r *Rand, i int, tier string) Sx {
	if i%5 == 4 {
		return c15GenMux(r, tier)
	}
	return c15GenProg(r, tier)
}

func (c15) Exec(in Sx) (Sx, bool) {
	if in.IsAtom || !in.Nth(0).IsAtom {
		return Sx{}, false
	}
	if c15Deadlocks.Load() >= c15MaxDeadlocks {
		return Sx{}, false
	}
	switch in.Nth(0).Z {
	case 1:
		return c15ExecProg(in)
	case 2:
		return c15ExecMux(in)
	}
	return Sx{}, false
}

var c15KindNames = []string{"bytes", "proto", "error", "readerat", "reader", "chunkreader"}
var c15MethNames = []string{"size", "writer", "readat", "proto", "slice", "chunks", "reader", "discard"}

func (c15) Class(in, obs Sx) (string, bool) {
	if in.Nth(0).Z == 1 {
		ops := ""
		for _, op := range in.Nth(5).List {
			ops += string("SCTE"[op.Nth(0).Z&3])
		}
		if ops == "" {
			ops = "-"
		}
		f := "ok"
		if in.Nth(3).Z == 1 {
			f = "corrupt"
		} else if in.Nth(3).Z > 1 {
			f = "ioerr"
		}
		return "prog/" + c15KindNames[in.Nth(1).Z%6] + "/" + ops + "/" + c15MethNames[in.Nth(6).Nth(0).Z&7] + "/" + f, in.Nth(5).Len() >= 1
	}
	t := "eof"
	if in.Nth(2).Z != 0 {
		t = "error"
	}
	return "mux/" + strconv.Itoa(in.Nth(3).Len()) + "consumers/" + strconv.Itoa(in.Nth(1).Int()) + "chunks/" + t, true
}

// ---------------------------------------------------------------------------
// M1: n consumers of one stream-cloned buffer under a chosen schedule
//   (2 nchunks term progs sched), progs = ((reads disc csz) ...), sched = (cid ...)
// observation: (closes terminated (got_0 ...) (got_1 ...) ...), items: chunk k -> k,
// io.EOF -> -1, error code c -> -(1+c), panic -> -100
// ---------------------------------------------------------------------------

type c15Script struct {
	chunks [][]byte
	fin    error
	pos    int
	closes atomic.Int32
}

func (r *c15Script) Read() ([]byte, error) {
	if r.pos < len(r.chunks) {
		c := r.chunks[r.pos]
		r.pos++
		return c, nil
	}
	return nil, r.fin
}
func (r *c15Script) Close() { r.closes.Add(1) }

type c15Consumer struct {
	state atomic.Int32 // 0 idle, 1 running, 2 finished
	grant chan struct{}
	got   []int
}

func c15Item(chunk []byte, err error) int {
	if err == io.EOF {
		return -1
	}
	if err != nil {
		return -(1 + c15Code(err))
	}
	if len(chunk) != 1 {
		return -200 - len(chunk)
	}
	return int(chunk[0])
}

func c15ExecMux(in Sx) (Sx, bool) {
	if in.Len() != 5 {
		return Sx{}, false
	}
	nch, term, progs, sched := in.Nth(1), in.Nth(2), in.Nth(3), in.Nth(4)
	if !nch.IsAtom || !term.IsAtom || nch.Z < 0 || nch.Z > 100 || term.Z < 0 || term.Z > 16 || progs.IsAtom || sched.IsAtom {
		return Sx{}, false
	}
	n := progs.Len()
	if n < 1 || n > 8 || sched.Len() > 2000 {
		return Sx{}, false
	}
	for _, p := range progs.List {
		if p.IsAtom || p.Len() != 3 || !p.Nth(0).IsAtom || !p.Nth(1).IsAtom || !p.Nth(2).IsAtom ||
			p.Nth(0).Z < 0 || p.Nth(0).Z > 200 || p.Nth(1).Z < 0 || p.Nth(1).Z > 1 || p.Nth(2).Z < 1 || p.Nth(2).Z > 1000 {
			return Sx{}, false
		}
	}
	for _, e := range sched.List {
		if !e.IsAtom || e.Z < 0 || e.Z >= int64(n) {
			return Sx{}, false
		}
	}
	// The multiplexer sits on the validated reader of the base buffer.  To
	// make that reader produce "nchunks chunks, then the terminal" the raw
	// source carries one more chunk when the terminal is an error (the
	// validating reader withholds the chunk that completes the object).
	raw := int(nch.Z)
	var fin error = io.EOF
	if term.Z != 0 {
		raw++
		fin = status.Error(codes.Code(term.Z), "source failure")
	}
	src := &c15Script{fin: fin}
	var all []byte
	for k := 0; k < raw; k++ {
		src.chunks = append(src.chunks, []byte{byte(k)})
		all = append(all, byte(k))
	}
	base := buffer.NewCASBufferFromChunkReader(c15Digest(all), src, buffer.BackendProvided(func(bool) {}))
	handles := make([]buffer.Buffer, n)
	if n == 1 {
		handles[0] = base
	} else {
		b1, b2 := base.CloneStream()
		handles[0] = b1
		for i := 1; i < n-1; i++ {
			handles[i], b2 = b2.CloneStream()
		}
		handles[n-1] = b2
	}
	cons := make([]*c15Consumer, n)
	var wg sync.WaitGroup
	for i := 0; i < n; i++ {
		c := &c15Consumer{grant: make(chan struct{}, 1), got: []int{}}
		cons[i] = c
		reads, disc, csz := progs.Nth(i).Nth(0).Int(), progs.Nth(i).Nth(1).Z == 1, progs.Nth(i).Nth(2).Int()
		h := handles[i]
		wg.Add(1)
		go func() {
			defer wg.Done()
			defer c.state.Store(2)
			defer func() {
				if r := recover(); r != nil {
					c.got = append(c.got, -100)
				}
			}()
			<-c.grant
			if disc {
				h.Discard()
				return
			}
			r := h.ToChunkReader(0, csz)
			for k := 0; k < reads; k++ {
				c.state.Store(0)
				<-c.grant
				chunk, err := r.Read()
				c.got = append(c.got, c15Item(chunk, err))
			}
			c.state.Store(0)
			<-c.grant
			r.Close()
		}()
	}
	give := func(i int) {
		c := cons[i]
		if !c.state.CompareAndSwap(0, 1) {
			return // parked inside the library, or finished
		}
		c.grant <- struct{}{}
		for k := 0; k < 3000 && c.state.Load() == 1; k++ {
			runtime.Gosched()
		}
	}
	for _, e := range sched.List {
		give(e.Int())
	}
	// drain: let everybody run to completion
	done := make(chan struct{})
	go func() { wg.Wait(); close(done) }()
	terminated := 0
	deadline := time.Now().Add(25 * time.Millisecond)
drain:
	for {
		for i := 0; i < n; i++ {
			give(i)
		}
		select {
		case <-done:
			terminated = 1
			break drain
		default:
		}
		if time.Now().After(deadline) {
			idle := false
			for i := 0; i < n; i++ {
				if cons[i].state.Load() == 0 {
					idle = true
				}
			}
			if !idle && c15Quiescent() {
				for i := 0; i < n; i++ {
					if cons[i].state.Load() == 0 {
						idle = true // became idle meanwhile: it waits for us, not for the library
					}
				}
				if idle {
					deadline = time.Now().Add(25 * time.Millisecond)
					continue
				}
				select {
				case <-done:
					terminated = 1
				default:
					c15Deadlocks.Add(1) // every unfinished consumer is parked inside the library
				}
				break drain
			}
			deadline = time.Now().Add(25 * time.Millisecond)
		}
	}
	out := []Sx{AI(int(src.closes.Load())), AI(terminated)}
	for i := 0; i < n; i++ {
		if terminated == 1 {
			out = append(out, LInts(cons[i].got))
		} else {
			out = append(out, L())
		}
	}
	return L(out...), true
}

func c15GenMux(r *Rand, tier string) Sx {
	n := 2 + r.Intn(3)
	if tier == "thorough" && r.Chance(20) {
		n = 2 + r.Intn(5)
	}
	nch := r.Intn(5)
	term := r.Pick([]int{0, 0, 0, 5, 14})
	progs := []Sx{}
	total := 0
	for i := 0; i < n; i++ {
		reads := r.Intn(nch + 3)
		if r.Chance(40) {
			reads = nch + 1
		}
		disc := 0
		if r.Chance(20) {
			disc = 1
		}
		progs = append(progs, L(AI(reads), AI(disc), AI(r.Pick([]int{1, 2, 100}))))
		total += reads + 2
	}
	sched := []int{}
	switch r.Intn(4) {
	case 0: // uniform
		for k := 0; k < 2*total; k++ {
			sched = append(sched, r.Intn(n))
		}
	case 1: // hold one consumer back as long as possible
		held := r.Intn(n)
		for k := 0; k < 2*total; k++ {
			c := r.Intn(n)
			if c == held {
				c = (c + 1) % n
			}
			sched = append(sched, c)
		}
	case 2: // priorities with change points
		prio := r.Intn(n)
		for k := 0; k < 2*total; k++ {
			if r.Chance(15) {
				prio = r.Intn(n)
			}
			if r.Chance(70) {
				sched = append(sched, prio)
			} else {
				sched = append(sched, r.Intn(n))
			}
		}
	default: // round robin prefix of random length, then the drain
		l := r.Intn(total + 1)
		for k := 0; k < l; k++ {
			sched = append(sched, k%n)
		}
	}
	return L(A(2), AI(nch), AI(term), L(progs...), LInts(sched))
}
