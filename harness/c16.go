package main

// C16: buffer.WithErrorHandler over fault-injecting sources; the error
// handler is a scripted oracle.  See coq/Run/R16.v for the case format.
// Sources, digests, methods and consumption are shared with C09.

import (
	"strconv"

	remoteexecution "github.com/bazelbuild/remote-apis/build/bazel/remote/execution/v2"
	"github.com/buildbarn/bb-storage/pkg/blobstore/buffer"
	"github.com/buildbarn/bb-storage/pkg/digest"

	"google.golang.org/grpc/codes"
	"google.golang.org/grpc/status"
)

func init() { props["C16"] = c16{} }

type c16 struct{}

type c16Buf struct {
	kind   int // 0 chunk reader, 1 reader, 2 byte slice, 3 error
	attach bool
	evs    []c09Ev
	data   []byte
	code   int
}

func c16ParseBuf(s Sx, replacement bool) (c16Buf, bool) {
	if s.IsAtom || s.Len() < 2 || !s.Nth(0).IsAtom {
		return c16Buf{}, false
	}
	switch s.Nth(0).Int() {
	case 0:
		if s.Len() != 2 {
			return c16Buf{}, false
		}
		evs, ok := c09ParseEvents(s.Nth(1))
		return c16Buf{kind: 0, evs: evs}, ok
	case 1:
		if s.Len() != 3 || !s.Nth(1).IsAtom {
			return c16Buf{}, false
		}
		evs, ok := c09ParseEvents(s.Nth(2))
		b := c16Buf{kind: 1, evs: evs, attach: s.Nth(1).Z != 0}
		// io.CopyN and io.ReadFull drop an error that a reader returns
		// together with the bytes that complete their request; a scripted
		// source that does not repeat the error on the next Read would make
		// it unobservable to the layers above.  Readers that attach errors
		// to data are therefore error-free (attached EOF only) here.
		if ok && b.attach && !c16Clean(evs) {
			return c16Buf{}, false
		}
		return b, ok
	case 2:
		if s.Len() != 2 || !c09IsBytes(s.Nth(1)) {
			return c16Buf{}, false
		}
		return c16Buf{kind: 2, data: s.Nth(1).Bytes()}, true
	case 3:
		if s.Len() != 2 || !s.Nth(1).IsAtom || s.Nth(1).Z < 1 || s.Nth(1).Z > 16 {
			return c16Buf{}, false
		}
		return c16Buf{kind: 3, code: s.Nth(1).Int()}, true
	}
	return c16Buf{}, false
}

// c16Clean: chunks only, optionally one final EOF.
func c16Clean(evs []c09Ev) bool {
	for i, e := range evs {
		if e.kind == 1 || (e.kind == 2 && i != len(evs)-1) {
			return false
		}
	}
	return true
}

type c16Answer struct {
	replace bool
	buf     c16Buf
	code    int
}

func c16ParseAnswers(s Sx) ([]c16Answer, bool) {
	if s.IsAtom {
		return nil, false
	}
	out := []c16Answer{}
	for _, a := range s.List {
		if a.IsAtom || a.Len() != 2 || !a.Nth(0).IsAtom {
			return nil, false
		}
		switch a.Nth(0).Int() {
		case 0:
			b, ok := c16ParseBuf(a.Nth(1), true)
			if !ok {
				return nil, false
			}
			out = append(out, c16Answer{replace: true, buf: b})
		case 1:
			if !a.Nth(1).IsAtom || a.Nth(1).Z < 1 || a.Nth(1).Z > 16 {
				return nil, false
			}
			out = append(out, c16Answer{code: a.Nth(1).Int()})
		default:
			return nil, false
		}
	}
	return out, true
}

// ucontent of the specification: content and terminator (0 = EOF, else code).
func (b c16Buf) ucontent() ([]byte, int) {
	switch b.kind {
	case 2:
		return b.data, 0
	case 3:
		return nil, b.code
	}
	for _, e := range b.evs {
		if e.kind == 1 {
			return c09Content(b.evs), e.code
		}
		if e.kind == 2 {
			break
		}
	}
	return c09Content(b.evs), 0
}

// c16Stitch mirrors Run/R16.v [stitch] (only the bytes).
func c16Stitch(b0 c16Buf, answers []c16Answer) []byte {
	out := []byte{}
	b := b0
	for i := 0; ; i++ {
		c, t := b.ucontent()
		k := len(out)
		if k <= len(c) {
			out = append(out, c[k:]...)
		} else if b.kind == 2 {
			t = 3
		}
		if t == 0 || i >= len(answers) || !answers[i].replace {
			return out
		}
		b = answers[i].buf
	}
}

type c16Handler struct {
	answers []c16Answer
	pos     int
	onErr   []int
	done    int
	mk      func(c16Buf) buffer.Buffer
}

func (h *c16Handler) OnError(err error) (buffer.Buffer, error) {
	h.onErr = append(h.onErr, c09Code(err))
	if h.pos >= len(h.answers) {
		return nil, status.Error(codes.Aborted, "handler has no more answers")
	}
	a := h.answers[h.pos]
	h.pos++
	if a.replace {
		return h.mk(a.buf), nil
	}
	return nil, status.Error(codes.Code(a.code), "handler error")
}
func (h *c16Handler) Done() { h.done++ }

func (c16) Exec(in Sx) (Sx, bool) {
	if in.IsAtom || in.Len() != 6 {
		return Sx{}, false
	}
	srcK := in.Nth(0)
	if !srcK.IsAtom || srcK.Z < 0 || srcK.Z > 1 {
		return Sx{}, false
	}
	dg, ok := c09Digest(in.Nth(1))
	if !ok {
		return Sx{}, false
	}
	b0, ok := c16ParseBuf(in.Nth(2), false)
	if !ok {
		return Sx{}, false
	}
	answers, ok := c16ParseAnswers(in.Nth(3))
	if !ok || !c09CheckMethod(in.Nth(4)) || !c09CheckTable(in.Nth(5)) {
		return Sx{}, false
	}
	fn := remoteexecution.DigestFunction_Value(in.Nth(1).Nth(0).Int())
	size := in.Nth(1).Nth(2).Z
	need := [][]byte{}
	add := func(c []byte) { need = append(need, c, c09Prefix(c, size)) }
	c, _ := b0.ucontent()
	add(c)
	for _, a := range answers {
		if a.replace {
			c, _ := a.buf.ucontent()
			add(c)
		}
	}
	add(c16Stitch(b0, answers))
	if !c09TableCovers(in.Nth(5), fn, size, need...) {
		return Sx{}, false
	}

	cbs := []Sx{}
	source := buffer.UserProvided
	if srcK.Z == 1 {
		source = buffer.BackendProvided(func(valid bool) { cbs = append(cbs, AB(valid)) })
	}
	mk := func(b c16Buf) buffer.Buffer { return c16Make(b, dg, source) }
	h := &c16Handler{answers: answers, mk: mk}
	b := buffer.WithErrorHandler(mk(b0), h)
	o := c09Consume(b, in.Nth(4))
	return L(LBytes(o.data), AI(o.code), LInts(o.extra), L(cbs...), LInts(h.onErr), AI(h.done), LBytes(o.aux)), true
}

func c16Make(b c16Buf, dg digest.Digest, source buffer.Source) buffer.Buffer {
	evs := append([]c09Ev{}, b.evs...)
	switch b.kind {
	case 0:
		return buffer.NewCASBufferFromChunkReader(dg, &c09ChunkSrc{evs: evs}, source)
	case 1:
		return buffer.NewCASBufferFromReader(dg, &c09ReaderSrc{evs: evs, attach: b.attach}, source)
	case 2:
		return buffer.NewValidatedBufferFromByteSlice(b.data)
	}
	return buffer.NewBufferFromError(c09Err(b.code))
}

// ---- generation ----

// c16GenBuf: a buffer carrying content (cut into at most 8 chunks), with an
// I/O error at a random position when fail is set.
func c16GenBuf(r *Rand, content []byte, fail, replacement bool) Sx {
	switch r.Intn(10) {
	case 0:
		if !fail {
			return L(A(2), LBytes(content))
		}
	case 1:
		if fail {
			return L(A(3), AI(r.Pick(c09Codes)))
		}
	}
	chunks := c09Split(r, content)
	for len(chunks) > 8 {
		// merge two neighbours
		k := r.Intn(len(chunks) - 1)
		m := append(append([]byte{}, chunks[k]...), chunks[k+1]...)
		chunks = append(chunks[:k], append([][]byte{m}, chunks[k+2:]...)...)
	}
	events := []Sx{}
	for _, c := range chunks {
		events = append(events, L(A(0), LBytes(c)))
	}
	clean := true
	if fail {
		k := r.Intn(len(events) + 1)
		ev := L(A(1), AI(r.Pick(c09Codes)))
		events = append(events[:k], append([]Sx{ev}, events[k:]...)...)
		clean = false
	} else if r.Chance(25) {
		events = append(events, L(A(2)))
	}
	if r.Bool() {
		return L(A(0), L(events...))
	}
	attach := r.Chance(40) && clean
	return L(A(1), AB(attach), L(events...))
}

func (c16) Gen(r *Rand, i int, tier string) Sx {
	fn := c09Functions[r.Intn(len(c09Functions))]
	n := r.Pick([]int{0, 1, 2, 3, 4, 5, 6, 8, 9, 12, 16, 17, 24})
	good := c09RandBytes(r, n)
	size := int64(n)
	hash, _ := c09Hash(fn, size, good)
	hostile := r.Chance(12)
	if hostile {
		switch r.Intn(3) {
		case 0:
			size = int64(r.Pick([]int{0, n + 1, n - 1, n / 2}))
			if size < 0 {
				size = 0
			}
			hash, _ = c09Hash(fn, size, good)
		case 1:
			hash[r.Intn(len(hash))] ^= 4
		}
	}
	variant := func() []byte {
		c := append([]byte{}, good...)
		if !r.Chance(12) {
			return c
		}
		switch r.Intn(4) {
		case 0:
			if len(c) > 0 {
				c = c[:r.Intn(len(c))]
			}
		case 1:
			c = append(c, c09RandBytes(r, 1+r.Intn(3))...)
		case 2:
			if len(c) > 0 {
				c[r.Intn(len(c))] ^= 1
			}
		default:
			c = c09RandBytes(r, r.Intn(n+2))
		}
		return c
	}
	failures := r.Pick([]int{0, 1, 1, 1, 2, 2, 3})
	bufs := []Sx{}
	for k := 0; k <= failures; k++ {
		c := variant()
		if k > 0 && r.Chance(6) {
			// a trusted byte slice replacement always carries the good content
			bufs = append(bufs, L(A(2), LBytes(good)))
			continue
		}
		b := c16GenBuf(r, c, k < failures, k > 0)
		if b.Nth(0).Int() == 2 {
			b = L(A(2), LBytes(good))
		}
		bufs = append(bufs, b)
	}
	answers := []Sx{}
	for k := 1; k < len(bufs); k++ {
		if r.Chance(8) {
			answers = append(answers, L(A(1), AI(r.Pick(c09Codes))))
			break
		}
		answers = append(answers, L(A(0), bufs[k]))
	}
	switch r.Intn(12) {
	case 0:
		if len(answers) > 0 {
			answers = answers[:len(answers)-1] // handler runs out of answers
		}
	case 1:
		answers = append(answers, L(A(1), AI(r.Pick(c09Codes)))) // unused or final error
	case 2:
		answers = append(answers, L(A(0), c16GenBuf(r, good, false, true)))
	}
	m := c09GenMethod(r, int(size))
	for (m.Nth(0).Int() == 0 || m.Nth(0).Int() == 5) && m.Nth(1).Z < 0 {
		m = c09GenMethod(r, int(size))
	}
	// table
	b0, _ := c16ParseBuf(bufs[0], false)
	as, _ := c16ParseAnswers(L(answers...))
	contents := [][]byte{good}
	add := func(c []byte) { contents = append(contents, c, c09Prefix(c, size)) }
	c0, _ := b0.ucontent()
	add(c0)
	for _, a := range as {
		if a.replace {
			c, _ := a.buf.ucontent()
			add(c)
		}
	}
	add(c16Stitch(b0, as))
	return L(AI(r.Pick([]int{0, 1, 1})), L(AI(int(fn)), LBytes(hash), A(size)), bufs[0], L(answers...), m,
		c09Table(fn, size, contents...))
}

func (c16) Class(in, obs Sx) (string, bool) {
	meth := []string{"ToByteSlice", "IntoWriter", "ReadAt", "ToChunkReader", "ToReader", "CloneCopy", "Discard"}[in.Nth(4).Nth(0).Int()%7]
	kind := []string{"chunk", "reader", "bytes", "error"}[in.Nth(2).Nth(0).Int()%4]
	code := obs.Nth(1).Int()
	out := "code" + strconv.Itoa(code)
	switch code {
	case 0:
		out = "ok"
	case -1:
		out = "eof"
	}
	j := obs.Nth(4).Len()
	return meth + "/" + kind + "/" + out + "/onerror" + strconv.Itoa(j), j >= 1
}
