package main

// C16: buffer.WithErrorHandler over fault-injecting sources; the error
// handlers (a stack of 1-3 WithErrorHandler decorators) are scripted oracles.
// See coq/Run/R16.v for the case format.  Sources, digests, methods and
// consumption are shared with C09.  Observed per handler level: the OnError
// argument codes and the number of Done calls; per scripted source of a
// stream-backed buffer (creation order): the number of Close calls.

import (
	"strconv"

	remoteexecution "github.com/bazelbuild/remote-apis/build/bazel/remote/execution/v2"
	"github.com/buildbarn/bb-storage/pkg/blobstore/buffer"
	"github.com/buildbarn/bb-storage/pkg/digest"

	"google.golang.org/grpc/codes"
	"google.golang.org/grpc/status"
)

func init() { props["C16"] = c16{} }

type c16 struct{}

type c16Buf struct {
	kind   int // 0 chunk reader, 1 reader, 2 byte slice, 3 error
	attach bool
	evs    []c09Ev
	data   []byte
	code   int
}

func c16ParseBuf(s Sx, replacement bool) (c16Buf, bool) {
	if s.IsAtom || s.Len() < 2 || !s.Nth(0).IsAtom {
		return c16Buf{}, false
	}
	switch s.Nth(0).Int() {
	case 0:
		if s.Len() != 2 {
			return c16Buf{}, false
		}
		evs, ok := c09ParseEvents(s.Nth(1))
		return c16Buf{kind: 0, evs: evs}, ok
	case 1:
		if s.Len() != 3 || !s.Nth(1).IsAtom {
			return c16Buf{}, false
		}
		evs, ok := c09ParseEvents(s.Nth(2))
		b := c16Buf{kind: 1, evs: evs, attach: s.Nth(1).Z != 0}
		// io.CopyN and io.ReadFull drop an error that a reader returns
		// together with the bytes that complete their request; a scripted
		// source that does not repeat the error on the next Read would make
		// it unobservable to the layers above.  Readers that attach errors
		// to data are therefore error-free (attached EOF only) here.
		if ok && b.attach && !c16Clean(evs) {
			return c16Buf{}, false
		}
		return b, ok
	case 2:
		if s.Len() != 2 || !c09IsBytes(s.Nth(1)) {
			return c16Buf{}, false
		}
		return c16Buf{kind: 2, data: s.Nth(1).Bytes()}, true
	case 3:
		if s.Len() != 2 || !s.Nth(1).IsAtom || s.Nth(1).Z < 1 || s.Nth(1).Z > 16 {
			return c16Buf{}, false
		}
		return c16Buf{kind: 3, code: s.Nth(1).Int()}, true
	}
	return c16Buf{}, false
}

// c16Clean: chunks only, optionally one final EOF.
func c16Clean(evs []c09Ev) bool {
	for i, e := range evs {
		if e.kind == 1 || (e.kind == 2 && i != len(evs)-1) {
			return false
		}
	}
	return true
}

type c16Answer struct {
	replace bool
	buf     c16Buf
	code    int
}

func c16ParseAnswers(s Sx) ([]c16Answer, bool) {
	if s.IsAtom {
		return nil, false
	}
	out := []c16Answer{}
	for _, a := range s.List {
		if a.IsAtom || a.Len() != 2 || !a.Nth(0).IsAtom {
			return nil, false
		}
		switch a.Nth(0).Int() {
		case 0:
			b, ok := c16ParseBuf(a.Nth(1), true)
			if !ok {
				return nil, false
			}
			out = append(out, c16Answer{replace: true, buf: b})
		case 1:
			if !a.Nth(1).IsAtom || a.Nth(1).Z < 1 || a.Nth(1).Z > 16 {
				return nil, false
			}
			out = append(out, c16Answer{code: a.Nth(1).Int()})
		default:
			return nil, false
		}
	}
	return out, true
}

// ucontent of the specification: content and terminator (0 = EOF, else code).
func (b c16Buf) ucontent() ([]byte, int) {
	switch b.kind {
	case 2:
		return b.data, 0
	case 3:
		return nil, b.code
	}
	for _, e := range b.evs {
		if e.kind == 1 {
			return c09Content(b.evs), e.code
		}
		if e.kind == 2 {
			break
		}
	}
	return c09Content(b.evs), 0
}

// c16Piece mirrors Run/R16.v [piece_of]: bytes from offset k, terminator.
func c16Piece(b c16Buf, k int) ([]byte, int) {
	c, t := b.ucontent()
	if k <= len(c) {
		return c[k:], t
	}
	if b.kind == 2 {
		t = 3
	}
	return nil, t
}

// c16StitchStack mirrors Run/R16.v [stitch_stack] (only the bytes).
func c16StitchStack(b0 c16Buf, levels [][]c16Answer) []byte {
	p, t := c16Piece(b0, 0)
	out := append([]byte{}, p...)
	for _, answers := range levels {
		for i := 0; t != 0; i++ {
			if i >= len(answers) || !answers[i].replace {
				t = 1 // an error answer: the next level is offered an error
				break
			}
			var q []byte
			q, t = c16Piece(answers[i].buf, len(out))
			out = append(out, q...)
		}
	}
	return out
}

type c16Handler struct {
	answers []c16Answer
	pos     int
	onErr   []int
	done    int
	mk      func(c16Buf) buffer.Buffer
}

func (h *c16Handler) OnError(err error) (buffer.Buffer, error) {
	h.onErr = append(h.onErr, c09Code(err))
	if h.pos >= len(h.answers) {
		return nil, status.Error(codes.Aborted, "handler has no more answers")
	}
	a := h.answers[h.pos]
	h.pos++
	if a.replace {
		return h.mk(a.buf), nil
	}
	return nil, status.Error(codes.Code(a.code), "handler error")
}
func (h *c16Handler) Done() { h.done++ }

func c16ParseLevels(s Sx) ([][]c16Answer, bool) {
	if s.IsAtom || s.Len() < 1 || s.Len() > 4 {
		return nil, false
	}
	out := [][]c16Answer{}
	for _, l := range s.List {
		as, ok := c16ParseAnswers(l)
		if !ok {
			return nil, false
		}
		out = append(out, as)
	}
	return out, true
}

func c16Need(b0 c16Buf, levels [][]c16Answer, size int64) [][]byte {
	need := [][]byte{}
	add := func(c []byte) { need = append(need, c, c09Prefix(c, size)) }
	c, _ := b0.ucontent()
	add(c)
	for _, answers := range levels {
		for _, a := range answers {
			if a.replace {
				c, _ := a.buf.ucontent()
				add(c)
			}
		}
	}
	add(c16StitchStack(b0, levels))
	return need
}

func (c16) Exec(in Sx) (Sx, bool) {
	if in.IsAtom || in.Len() != 6 {
		return Sx{}, false
	}
	srcK := in.Nth(0)
	if !srcK.IsAtom || srcK.Z < 0 || srcK.Z > 1 {
		return Sx{}, false
	}
	dg, ok := c09Digest(in.Nth(1))
	if !ok {
		return Sx{}, false
	}
	b0, ok := c16ParseBuf(in.Nth(2), false)
	if !ok {
		return Sx{}, false
	}
	levels, ok := c16ParseLevels(in.Nth(3))
	if !ok || !c09CheckMethod(in.Nth(4)) || !c09CheckTable(in.Nth(5)) {
		return Sx{}, false
	}
	fn := remoteexecution.DigestFunction_Value(in.Nth(1).Nth(0).Int())
	size := in.Nth(1).Nth(2).Z
	if !c09TableCovers(in.Nth(5), fn, size, c16Need(b0, levels, size)...) {
		return Sx{}, false
	}

	cbs := []Sx{}
	source := buffer.UserProvided
	if srcK.Z == 1 {
		source = buffer.BackendProvided(func(valid bool) { cbs = append(cbs, AB(valid)) })
	}
	closes := []func() int{}
	mk := func(b c16Buf) buffer.Buffer { return c16Make(b, dg, source, &closes) }
	b := mk(b0)
	hs := []*c16Handler{}
	for _, answers := range levels {
		h := &c16Handler{answers: answers, mk: mk, onErr: []int{}}
		hs = append(hs, h)
		b = buffer.WithErrorHandler(b, h)
	}
	o := c09Consume(b, in.Nth(4))
	onErrs, dones, closed := []Sx{}, []Sx{}, []Sx{}
	for _, h := range hs {
		onErrs = append(onErrs, LInts(h.onErr))
		dones = append(dones, AI(h.done))
	}
	for _, f := range closes {
		closed = append(closed, AI(f()))
	}
	return L(LBytes(o.data), AI(o.code), LInts(o.extra), L(cbs...), L(onErrs...), L(dones...), LBytes(o.aux), L(closed...)), true
}

func c16Make(b c16Buf, dg digest.Digest, source buffer.Source, closes *[]func() int) buffer.Buffer {
	evs := append([]c09Ev{}, b.evs...)
	switch b.kind {
	case 0:
		src := &c09ChunkSrc{evs: evs}
		*closes = append(*closes, func() int { return src.closed })
		return buffer.NewCASBufferFromChunkReader(dg, src, source)
	case 1:
		src := &c09ReaderSrc{evs: evs, attach: b.attach}
		*closes = append(*closes, func() int { return src.closed })
		return buffer.NewCASBufferFromReader(dg, src, source)
	case 2:
		return buffer.NewValidatedBufferFromByteSlice(b.data)
	}
	return buffer.NewBufferFromError(c09Err(b.code))
}

// ---- generation ----

// c16GenBuf: a buffer carrying content (cut into at most 8 chunks), with an
// I/O error at a random position when fail is set.
func c16GenBuf(r *Rand, content []byte, fail, replacement bool) Sx {
	switch r.Intn(10) {
	case 0:
		if !fail {
			return L(A(2), LBytes(content))
		}
	case 1:
		if fail {
			return L(A(3), AI(r.Pick(c09Codes)))
		}
	}
	chunks := c09Split(r, content)
	for len(chunks) > 8 {
		// merge two neighbours
		k := r.Intn(len(chunks) - 1)
		m := append(append([]byte{}, chunks[k]...), chunks[k+1]...)
		chunks = append(chunks[:k], append([][]byte{m}, chunks[k+2:]...)...)
	}
	events := []Sx{}
	for _, c := range chunks {
		events = append(events, L(A(0), LBytes(c)))
	}
	clean := true
	if fail {
		k := r.Intn(len(events) + 1)
		ev := L(A(1), AI(r.Pick(c09Codes)))
		events = append(events[:k], append([]Sx{ev}, events[k:]...)...)
		clean = false
	} else if r.Chance(25) {
		events = append(events, L(A(2)))
	}
	if r.Bool() {
		return L(A(0), L(events...))
	}
	attach := r.Chance(40) && clean
	return L(A(1), AB(attach), L(events...))
}

func (c16) Gen(r *Rand, i int, tier string) Sx {
	fn := c09Functions[r.Intn(len(c09Functions))]
	n := r.Pick([]int{0, 1, 2, 3, 4, 5, 6, 8, 9, 12, 16, 17, 24})
	good := c09RandBytes(r, n)
	size := int64(n)
	hash, _ := c09Hash(fn, size, good)
	hostile := r.Chance(12)
	if hostile {
		switch r.Intn(3) {
		case 0:
			size = int64(r.Pick([]int{0, n + 1, n - 1, n / 2}))
			if size < 0 {
				size = 0
			}
			hash, _ = c09Hash(fn, size, good)
		case 1:
			hash[r.Intn(len(hash))] ^= 4
		}
	}
	variant := func() []byte {
		c := append([]byte{}, good...)
		if !r.Chance(12) {
			return c
		}
		switch r.Intn(4) {
		case 0:
			if len(c) > 0 {
				c = c[:r.Intn(len(c))]
			}
		case 1:
			c = append(c, c09RandBytes(r, 1+r.Intn(3))...)
		case 2:
			if len(c) > 0 {
				c[r.Intn(len(c))] ^= 1
			}
		default:
			c = c09RandBytes(r, r.Intn(n+2))
		}
		return c
	}
	depth := 1
	if r.Chance(35) {
		depth = 2 + r.Intn(2)
	}
	failures := r.Pick([]int{0, 1, 1, 1, 2, 2, 3})
	// unrecoverable: at some failure every handler of the stack answers with an error
	unrecoverable := failures > 0 && r.Chance(map[bool]int{false: 10, true: 40}[depth > 1])
	bufs := []Sx{}
	for k := 0; k <= failures; k++ {
		c := variant()
		if k > 0 && r.Chance(6) {
			// a trusted byte slice replacement always carries the good content
			bufs = append(bufs, L(A(2), LBytes(good)))
			continue
		}
		b := c16GenBuf(r, c, k < failures, k > 0)
		if b.Nth(0).Int() == 2 {
			b = L(A(2), LBytes(good))
		}
		bufs = append(bufs, b)
	}
	// The k-th failure is handled by a level at or above the level that handled
	// the previous one (the levels below a replacing level are finished); the
	// active levels below the handling level answer with errors.
	levels := make([][]Sx, depth)
	fail := func(l int) { levels[l] = append(levels[l], L(A(1), AI(r.Pick(c09Codes)))) }
	lo := 0
	giveUpAt := -1
	if unrecoverable {
		giveUpAt = 1 + r.Intn(failures)
	}
	for k := 1; k < len(bufs); k++ {
		if k == giveUpAt || (depth == 1 && r.Chance(8)) {
			for l := lo; l < depth; l++ {
				if l == depth-1 && r.Chance(15) {
					break // the outermost handler has no answer left
				}
				fail(l)
			}
			break
		}
		h := lo
		for h < depth-1 && r.Chance(40) {
			h++
		}
		for l := lo; l < h; l++ {
			fail(l)
		}
		levels[h] = append(levels[h], L(A(0), bufs[k]))
		lo = h
	}
	l := r.Intn(depth)
	switch r.Intn(12) {
	case 0:
		if len(levels[l]) > 0 {
			levels[l] = levels[l][:len(levels[l])-1] // handler runs out of answers
		}
	case 1:
		fail(l) // unused or final error
	case 2:
		levels[l] = append(levels[l], L(A(0), c16GenBuf(r, good, false, true)))
	}
	m := c09GenMethod(r, int(size))
	for (m.Nth(0).Int() == 0 || m.Nth(0).Int() == 5) && m.Nth(1).Z < 0 {
		m = c09GenMethod(r, int(size))
	}
	if depth > 1 && r.Chance(50) {
		// the streaming methods are where the readers nest
		for k := m.Nth(0).Int(); k != 1 && k != 3 && k != 4; k = m.Nth(0).Int() {
			m = c09GenMethod(r, int(size))
		}
	}
	// table
	lv := make([]Sx, depth)
	for i := range levels {
		lv[i] = L(levels[i]...)
	}
	b0, _ := c16ParseBuf(bufs[0], false)
	ls, _ := c16ParseLevels(L(lv...))
	contents := append([][]byte{good}, c16Need(b0, ls, size)...)
	return L(AI(r.Pick([]int{0, 1, 1})), L(AI(int(fn)), LBytes(hash), A(size)), bufs[0], L(lv...), m,
		c09Table(fn, size, contents...))
}

func (c16) Class(in, obs Sx) (string, bool) {
	meth := []string{"ToByteSlice", "IntoWriter", "ReadAt", "ToChunkReader", "ToReader", "CloneCopy", "Discard"}[in.Nth(4).Nth(0).Int()%7]
	kind := []string{"chunk", "reader", "bytes", "error"}[in.Nth(2).Nth(0).Int()%4]
	code := obs.Nth(1).Int()
	out := "code" + strconv.Itoa(code)
	switch code {
	case 0:
		out = "ok"
	case -1:
		out = "eof"
	}
	j := 0
	asked := 0
	for _, l := range obs.Nth(4).List {
		j += l.Len()
		if l.Len() > 0 {
			asked++
		}
	}
	return meth + "/" + kind + "/" + out + "/onerror" + strconv.Itoa(j) + "/depth" + strconv.Itoa(in.Nth(3).Len()) + "asked" + strconv.Itoa(asked), j >= 1
}
