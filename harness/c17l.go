package main

// C17L (sub-check of C17): concurrent callers of the REAL deduplicating and
// concurrency-limiting replicators that use a MIX of ReplicateMultiple,
// ReplicateSingle and ReplicateComposite.  Case format of C17's kind 2 plus a
// seventh field: the entry point per caller (0 multiple, 1 single, 2
// composite); see coq/Run/R17L.v.  The session machinery (gated backends,
// quiescence detection, counting wrapper around the base replicator that
// counts EVERY entry point) is that of c17.go.

import "fmt"

func init() { props["C17L"] = c17l{} }

type c17l struct{}

func (c17l) Exec(in Sx) (Sx, bool) {
	if in.IsAtom || in.Len() != 7 || !c17Atom(in.Nth(0), 2, 2) || in.Nth(5).IsAtom || in.Nth(6).IsAtom {
		return Sx{}, false
	}
	s, ok := newC17Session(in)
	if !ok {
		return Sx{}, false
	}
	defer s.close()
	rounds := []Sx{}
	for _, ev := range in.Nth(5).List {
		if !s.apply(ev) {
			return Sx{}, false
		}
		rounds = append(rounds, s.statuses())
	}
	if s.failed {
		return L(A(-4)), true
	}
	return s.summary(rounds), true
}

func (c17l) Gen(r *Rand, i int, tier string) Sx {
	limit := 0
	var mode Sx
	if r.Chance(30) {
		mode = L(A(0))
	} else {
		limit = 1 + r.Intn(3)
		mode = L(A(1), AI(limit))
	}
	n := 2 + r.Intn(4)
	nobj := 1 + r.Intn(4)
	late := 0
	if limit > 0 && r.Chance(50) {
		// as many late arrivals as there are permits
		late = limit
		if n+late > 6 {
			n = 6 - late
		}
	}
	// how the entry points are mixed: any / mostly composite / no multiple
	mix := r.Intn(3)
	sets, kinds := []Sx{}, []Sx{}
	for j := 0; j < n+late; j++ {
		k := r.Pick([]int{0, 1, 1, 1, 2, 2, 3})
		kind := 0
		switch mix {
		case 0:
			kind = r.Intn(3)
		case 1:
			kind = r.Pick([]int{2, 2, 2, 1, 0})
		default:
			kind = 1 + r.Intn(2)
		}
		if j >= n {
			// a late arrival always asks for something
			k = 1
		}
		if kind != 0 && k == 0 {
			k = 1
		}
		xs := []int{}
		for l := 0; l < k; l++ {
			xs = append(xs, r.Intn(nobj))
		}
		sets = append(sets, LInts(xs))
		kinds = append(kinds, AI(kind))
	}
	src, snk := []int{}, []int{}
	for j := 0; j < nobj; j++ {
		if r.Chance(85) {
			src = append(src, j)
		}
		if r.Chance(15) {
			snk = append(snk, j)
		}
	}
	mk := func(evs []Sx) Sx {
		return L(A(2), mode, L(sets...), LInts(src), LInts(snk), L(evs...), L(kinds...))
	}
	s, ok := newC17Session(mk(nil))
	if !ok {
		return mk(nil)
	}
	defer s.close()
	return mk(c17GenEvents(r, s, n+late, false, tier, late))
}

func (c17l) Class(in, obs Sx) (string, bool) {
	base, contended := c17ClassConc(in, obs)
	n := in.Nth(2).Len()
	kinds := make([]int, n)
	for i, k := range in.Nth(6).List {
		if i < n {
			kinds[i] = k.Int()
		}
	}
	// which entry points were driven, and which reached the read-back from the sink
	started := [3]bool{}
	readback := [3]bool{}
	for _, rd := range obs.Nth(0).List {
		for i, st := range rd.List {
			if i >= n {
				break
			}
			if st.Nth(0).Int() != 0 {
				started[kinds[i]] = true
			}
			if st.Nth(0).Int() == 1 && st.Nth(1).Int() == 0 && (st.Nth(2).Int() == 0 || st.Nth(2).Int() == 3) {
				readback[kinds[i]] = true
			}
		}
	}
	tag := ""
	for k, c := range []string{"m", "s", "c"} {
		if started[k] {
			tag += c
		}
	}
	rb := ""
	for k, c := range []string{"", "s", "c"} {
		if readback[k] {
			rb += c
		}
	}
	return fmt.Sprintf("%s/entry=%s/readback=%s", base, tag, rb), contended
}
