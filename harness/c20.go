package main

// C20: digest / resource-name codecs, keys, ancestor chain, digest sets.
// Exec calls the real parsers, getters and set functions of pkg/digest; the
// observation format is documented in coq/Run/R20.v.

import (
	"bytes"
	"encoding/binary"
	"fmt"
	"io"
	"strings"

	remoteexecution "github.com/bazelbuild/remote-apis/build/bazel/remote/execution/v2"
	"github.com/buildbarn/bb-storage/pkg/digest"
	"github.com/google/uuid"

	"google.golang.org/grpc/status"
)

func init() { props["C20"] = c20{} }

type c20 struct{}

// ---------------------------------------------------------------- decoding

func c20Bytes(s Sx) ([]byte, bool) {
	if s.IsAtom {
		return nil, false
	}
	b := make([]byte, len(s.List))
	for i, x := range s.List {
		if !x.IsAtom || x.Big != "" || x.Z < 0 || x.Z > 255 {
			return nil, false
		}
		b[i] = byte(x.Z)
	}
	return b, true
}

func c20Small(s Sx) (int, bool) {
	if !s.IsAtom || s.Big != "" || s.Z < 0 || s.Z > 100000 {
		return 0, false
	}
	return int(s.Z), true
}

// ---------------------------------------------------------------- encoding

var c20Panic = L(A(-1))
var c20Skipped = L(A(-2))

// c20Out evaluates f; a Go panic becomes (-1), a value (0 v).
func c20Out(f func() Sx) (res Sx) {
	defer func() {
		if r := recover(); r != nil {
			res = c20Panic
		}
	}()
	return L(A(0), f())
}

// c20Res is for calls returning (value, error): (0 v) | (code) | (-1).
func c20Res(f func() (Sx, error)) (res Sx) {
	defer func() {
		if r := recover(); r != nil {
			res = c20Panic
		}
	}()
	v, err := f()
	if err != nil {
		return L(A(c20Code(err)))
	}
	return L(A(0), v)
}

func c20Code(err error) int64 {
	switch err {
	case io.EOF:
		return 100
	case io.ErrUnexpectedEOF:
		return 101
	}
	if s, ok := status.FromError(err); ok {
		return int64(s.Code())
	}
	if strings.Contains(err.Error(), "overflows") {
		return 102
	}
	return 2
}

func c20Keys(ds []digest.Digest) Sx {
	l := make([]Sx, len(ds))
	for i, d := range ds {
		l[i] = LStr(d.String())
	}
	return L(l...)
}

func c20Dobs(d digest.Digest) Sx {
	return L(
		LStr(d.String()),
		c20Out(func() Sx { return AI(int(d.GetDigestFunction().GetEnumValue())) }),
		c20Out(func() Sx { return LStr(d.GetHashString()) }),
		c20Out(func() Sx { return A(d.GetSizeBytes()) }),
		c20Out(func() Sx { return LStr(d.GetInstanceName().String()) }),
		c20Out(func() Sx { return LStr(d.GetKey(digest.KeyWithoutInstance)) }),
		c20Out(func() Sx { p := d.GetProto(); return L(LStr(p.Hash), A(p.SizeBytes)) }),
		c20Out(func() Sx { return LBytes(d.GetHashBytes()) }),
		c20Out(func() Sx { return LBytes(d.GetCompactBinary()) }),
		c20Out(func() Sx { return c20Keys(d.GetDigestsWithParentInstanceNames()) }),
	)
}

type c20Parser func(string) (digest.Digest, remoteexecution.Compressor_Value, error)

func c20ParseRes(parse c20Parser, s string) Sx {
	return c20Res(func() (Sx, error) {
		d, c, err := parse(s)
		if err != nil {
			return Sx{}, err
		}
		return L(LStr(d.String()), AI(int(c))), nil
	})
}

// c20AfterFormat: parse what the formatter produced (skipped when it panicked).
func c20AfterFormat(fmtd Sx, parse c20Parser) Sx {
	if fmtd.Nth(0).Int() != 0 || fmtd.Len() != 2 {
		return c20Skipped
	}
	return c20ParseRes(parse, string(fmtd.Nth(1).Bytes()))
}

func c20RunParse(parse c20Parser, format func(digest.Digest, remoteexecution.Compressor_Value) string, path string) (res Sx) {
	defer func() {
		if r := recover(); r != nil {
			res = c20Panic
		}
	}()
	d, c, err := parse(path)
	if err != nil {
		return L(A(c20Code(err)))
	}
	fmtd := c20Out(func() Sx { return LStr(format(d, c)) })
	return L(A(0), c20Dobs(d), AI(int(c)), fmtd, c20AfterFormat(fmtd, parse))
}

func c20UUID(b []byte) uuid.UUID {
	var u uuid.UUID
	copy(u[:], b)
	return u
}

// ---------------------------------------------------------------- Exec

func (c20) Exec(in Sx) (Sx, bool) {
	if in.IsAtom || in.Len() < 2 || !in.Nth(0).IsAtom {
		return Sx{}, false
	}
	switch in.Nth(0).Z {
	case 0:
		p, ok := c20Bytes(in.Nth(1))
		if !ok || in.Len() != 2 {
			return Sx{}, false
		}
		return c20RunParse(digest.NewDigestFromByteStreamReadPath,
			func(d digest.Digest, c remoteexecution.Compressor_Value) string { return d.GetByteStreamReadPath(c) },
			string(p)), true
	case 1:
		p, ok := c20Bytes(in.Nth(1))
		u, ok2 := c20Bytes(in.Nth(2))
		if !ok || !ok2 || len(u) != 16 || in.Len() != 3 {
			return Sx{}, false
		}
		return c20RunParse(digest.NewDigestFromByteStreamWritePath,
			func(d digest.Digest, c remoteexecution.Compressor_Value) string {
				return d.GetByteStreamWritePath(c20UUID(u), c)
			}, string(p)), true
	case 2:
		p, ok := c20Bytes(in.Nth(1))
		if !ok || in.Len() != 2 {
			return Sx{}, false
		}
		return c20ExecInstanceName(string(p)), true
	case 3:
		return c20ExecStructured(in)
	case 4:
		inst, ok := c20Bytes(in.Nth(1))
		b, ok2 := c20Bytes(in.Nth(2))
		if !ok || !ok2 || in.Len() != 3 {
			return Sx{}, false
		}
		return c20ExecCompact(string(inst), b), true
	case 6:
		return c20ExecSets(in)
	}
	return Sx{}, false
}

func c20ExecInstanceName(name string) (res Sx) {
	defer func() {
		if r := recover(); r != nil {
			res = c20Panic
		}
	}()
	in, err := digest.NewInstanceName(name)
	if err != nil {
		return L(A(c20Code(err)))
	}
	comps := in.GetComponents()
	cl := make([]Sx, len(comps))
	for i, c := range comps {
		cl[i] = LStr(c)
	}
	return L(A(0), LStr(in.String()), L(cl...), c20Res(func() (Sx, error) {
		in2, err := digest.NewInstanceNameFromComponents(comps)
		return LStr(in2.String()), err
	}))
}

func c20ExecStructured(in Sx) (res Sx, ok bool) {
	inst, ok1 := c20Bytes(in.Nth(1))
	fn, ok2 := c20Small(in.Nth(2))
	hash, ok3 := c20Bytes(in.Nth(3))
	sz := in.Nth(4)
	comp, ok5 := c20Small(in.Nth(5))
	u, ok6 := c20Bytes(in.Nth(6))
	if !(ok1 && ok2 && ok3 && ok5 && ok6) || !sz.IsAtom || sz.Big != "" || len(u) != 16 || in.Len() != 7 {
		return Sx{}, false
	}
	defer func() {
		if r := recover(); r != nil {
			res, ok = c20Panic, true
		}
	}()
	inm, err := digest.NewInstanceName(string(inst))
	if err != nil {
		return L(A(1), A(c20Code(err))), true
	}
	f, err := inm.GetDigestFunction(remoteexecution.DigestFunction_Value(fn), len(hash))
	if err != nil {
		return L(A(2), A(c20Code(err))), true
	}
	d, err := f.NewDigest(string(hash), sz.Z)
	if err != nil {
		return L(A(3), A(c20Code(err))), true
	}
	c := remoteexecution.Compressor_Value(comp)
	rp := c20Out(func() Sx { return LStr(d.GetByteStreamReadPath(c)) })
	wp := c20Out(func() Sx { return LStr(d.GetByteStreamWritePath(c20UUID(u), c)) })
	protoRT := c20Skipped
	if p, panicked := c20GetProto(d); !panicked {
		protoRT = c20Res(func() (Sx, error) {
			d2, err := f.NewDigestFromProto(p)
			return LStr(d2.String()), err
		})
	}
	compactRT := c20Skipped
	if b, panicked := c20GetCompact(d); !panicked {
		compactRT = c20Res(func() (Sx, error) {
			r := bytes.NewReader(append(append([]byte(nil), b...), 200, 1))
			d2, err := inm.NewDigestFromCompactBinary(r)
			return L(LStr(d2.String()), AI(r.Len())), err
		})
	}
	return L(A(0), c20Dobs(d),
		rp, c20AfterFormat(rp, digest.NewDigestFromByteStreamReadPath),
		wp, c20AfterFormat(wp, digest.NewDigestFromByteStreamWritePath),
		protoRT, compactRT), true
}

func c20GetProto(d digest.Digest) (p *remoteexecution.Digest, panicked bool) {
	defer func() {
		if r := recover(); r != nil {
			panicked = true
		}
	}()
	return d.GetProto(), false
}

func c20GetCompact(d digest.Digest) (b []byte, panicked bool) {
	defer func() {
		if r := recover(); r != nil {
			panicked = true
		}
	}()
	return d.GetCompactBinary(), false
}

func c20ExecCompact(inst string, b []byte) (res Sx) {
	defer func() {
		if r := recover(); r != nil {
			res = c20Panic
		}
	}()
	inm, err := digest.NewInstanceName(inst)
	if err != nil {
		return L(A(1), A(c20Code(err)))
	}
	r := bytes.NewReader(b)
	d, err := inm.NewDigestFromCompactBinary(r)
	if err != nil {
		return L(A(c20Code(err)))
	}
	return L(A(0), c20Dobs(d), AI(r.Len()))
}

func c20SetSx(s digest.Set) Sx { return c20Keys(s.Items()) }

func c20ExecSets(in Sx) (res Sx, ok bool) {
	if in.Len() != 3 || in.Nth(1).IsAtom || in.Nth(2).IsAtom {
		return Sx{}, false
	}
	var us []digest.Digest
	for _, e := range in.Nth(1).List {
		inst, ok1 := c20Bytes(e.Nth(0))
		fn, ok2 := c20Small(e.Nth(1))
		hash, ok3 := c20Bytes(e.Nth(2))
		sz := e.Nth(3)
		if !(ok1 && ok2 && ok3) || !sz.IsAtom || sz.Big != "" || e.Len() != 4 || fn == 0 {
			return Sx{}, false
		}
		inm, err := digest.NewInstanceName(string(inst))
		if err != nil {
			return Sx{}, false
		}
		f, err := inm.GetDigestFunction(remoteexecution.DigestFunction_Value(fn), 0)
		if err != nil {
			return Sx{}, false
		}
		d, err := f.NewDigest(string(hash), sz.Z)
		if err != nil {
			return Sx{}, false
		}
		us = append(us, d)
	}
	var built []digest.Set
	for _, s := range in.Nth(2).List {
		if s.IsAtom {
			return Sx{}, false
		}
		sb := digest.NewSetBuilder(0)
		for _, ix := range s.List {
			i, ok := c20Small(ix)
			if !ok || i >= len(us) {
				return Sx{}, false
			}
			sb.Add(us[i])
		}
		built = append(built, sb.Build())
	}
	defer func() {
		if r := recover(); r != nil {
			res, ok = c20Panic, true
		}
	}()
	k0 := make([]Sx, len(us))
	for i, d := range us {
		d := d
		k0[i] = c20Out(func() Sx { return LStr(d.GetKey(digest.KeyWithoutInstance)) })
	}
	bl := make([]Sx, len(built))
	firsts := make([]Sx, len(built))
	for i, s := range built {
		bl[i] = c20SetSx(s)
		if d, ok := s.First(); ok {
			firsts[i] = L(LStr(d.String()))
		} else {
			firsts[i] = L()
		}
	}
	u := digest.GetUnion(built)
	a, b := digest.EmptySet, digest.EmptySet
	if len(built) > 0 {
		a = built[0]
	}
	if len(built) > 1 {
		b = built[1]
	}
	oa, bo, ob := digest.GetDifferenceAndIntersection(a, b)
	var parts []digest.Set
	partsOK := false
	part := c20Out(func() Sx {
		parts = u.PartitionByInstanceName()
		partsOK = true
		l := make([]Sx, len(parts))
		for i, p := range parts {
			l[i] = c20SetSx(p)
		}
		return L(l...)
	})
	rem := c20Out(func() Sx { return c20SetSx(u.RemoveEmptyBlob()) })
	again := c20Skipped
	if partsOK {
		again = c20SetSx(digest.GetUnion(parts))
	}
	return L(c20Keys(us), L(k0...), L(bl...), c20SetSx(u), L(c20SetSx(oa), c20SetSx(bo), c20SetSx(ob)),
		part, rem, L(firsts...), again), true
}

// ---------------------------------------------------------------- generators

type c20Fn struct {
	enum  int
	name  string
	bytes int
}

// Only used to aim the generators; the model takes its tables from the Go source.
var c20Fns = []c20Fn{
	{1, "sha256", 32}, {2, "sha1", 20}, {3, "md5", 16}, {5, "sha384", 48},
	{6, "sha512", 64}, {8, "sha256tree", 32}, {9, "blake3", 32}, {10, "gitsha1", 20},
}

var c20Reserved = []string{"blobs", "uploads", "actions", "actionResults", "operations", "capabilities", "compressed-blobs"}
var c20Comps = []string{"a", "b", "ab", "x1", "foo", "hello-world", "Blobs", "blob", "uploads2", "acti", "\xc3\xa9", "\xff", "-", "0", "8", "main", "sha256", "zstd", "a-b-", "3-"}
var c20DotComps = []string{".", "..", "..."}
var c20CompressorNames = []string{"zstd", "deflate", "brotli", "identity", "gzip", "ZSTD", "zstd ", ""}

const c20Hex = "0123456789abcdef"

func c20GenComponents(r *Rand, dots bool) []string {
	n := r.Pick([]int{0, 0, 1, 1, 1, 2, 2, 3, 4, 6})
	cs := make([]string, n)
	for i := range cs {
		cs[i] = c20Comps[r.Intn(len(c20Comps))]
		if dots && r.Chance(30) {
			cs[i] = c20DotComps[r.Intn(len(c20DotComps))]
		}
	}
	return cs
}

// c20GenInst: mostly valid instance names; bad=true mixes in the invalid classes.
func c20GenInst(r *Rand, bad bool) string {
	cs := c20GenComponents(r, false)
	if bad {
		switch r.Intn(6) {
		case 2:
			return "/" + strings.Join(cs, "/")
		case 3:
			return strings.Join(cs, "/") + "/"
		case 4:
			if len(cs) >= 2 {
				k := 1 + r.Intn(len(cs)-1)
				return strings.Join(cs[:k], "/") + "//" + strings.Join(cs[k:], "/")
			}
			return "//"
		default:
			k := r.Intn(len(cs) + 1)
			cs = append(cs[:k:k], append([]string{c20Reserved[r.Intn(len(c20Reserved))]}, cs[k:]...)...)
		}
	}
	return strings.Join(cs, "/")
}

func c20GenHash(r *Rand, nbytes int) string {
	b := make([]byte, 2*nbytes)
	for i := range b {
		b[i] = c20Hex[r.Intn(16)]
	}
	// '-' and digits around the scan start of unpack are the interesting hashes;
	// all-digit and all-letter hashes exercise the packed format boundaries.
	switch r.Intn(8) {
	case 0:
		for i := range b {
			b[i] = c20Hex[r.Intn(10)]
		}
	case 1:
		for i := range b {
			b[i] = c20Hex[10+r.Intn(6)]
		}
	}
	return string(b)
}

func c20MutHash(r *Rand, h string) string {
	b := []byte(h)
	switch r.Intn(9) {
	case 0:
		if len(b) > 0 {
			b[r.Intn(len(b))] = "ABCDEF"[r.Intn(6)]
		}
	case 1:
		if len(b) > 0 {
			const bad = "g-/ _:.x\x80\xff\x00G@`"
			b[r.Intn(len(b))] = bad[r.Intn(len(bad))]
		}
	case 2:
		if len(b) > 0 {
			b = b[:len(b)-1]
		}
	case 3:
		b = append(b, c20Hex[r.Intn(16)])
	case 4:
		return c20GenHash(r, c20Fns[r.Intn(len(c20Fns))].bytes)
	case 5:
		return ""
	case 6:
		b = append(b, b...)
	case 7:
		if len(b) > 2 {
			b = b[:len(b)-2]
		}
	default:
		return strings.ToUpper(h)
	}
	return string(b)
}

var c20Sizes = []int64{0, 0, 1, 5, 9, 10, 42, 99, 100, 123456789, 1 << 31, 1 << 32, 1<<62 - 1, 1 << 62, 1<<63 - 1, 1<<63 - 2}
var c20BadSizes = []int64{-1, -2, -128, -1 << 63, -1<<63 + 1, -1 << 32}
var c20SizeStrings = []string{"00", "007", "+5", "+0", "-0", "-1", "-5", "9223372036854775807", "9223372036854775808",
	"-9223372036854775808", "-9223372036854775809", "18446744073709551615", "18446744073709551616",
	"99999999999999999999999", "1_0", "1e3", "", " 5", "5 ", "0x10", "\xef\xbc\x95", "5a", "a", "+", "-", "--1", "+-1", "1.0", "٣"}

func c20GenSize(r *Rand) int64 {
	if r.Chance(30) {
		return int64(r.U64() >> uint(1+r.Intn(63)))
	}
	return c20Sizes[r.Intn(len(c20Sizes))]
}

func c20GenUUID(r *Rand) Sx {
	b := make([]byte, 16)
	for i := range b {
		b[i] = byte(r.Intn(256))
	}
	return LBytes(b)
}

// tokens of a read/write path; mutate=true applies one token mutation.
func c20GenPathTokens(r *Rand, write bool) []string {
	toks := c20GenComponents(r, false)
	if write {
		toks = append(toks, "uploads", []string{"7b1b7e3a-7a3e-4ed1-9a2f-2b2ea0c1f0aa", "u", "uploads", "blobs", "0"}[r.Intn(5)])
	}
	f := c20Fns[r.Intn(len(c20Fns))]
	if r.Chance(40) {
		toks = append(toks, "compressed-blobs", c20CompressorNames[r.Intn(3)])
	} else {
		toks = append(toks, "blobs")
	}
	if f.enum > 7 || r.Chance(4) {
		toks = append(toks, f.name)
	}
	toks = append(toks, c20GenHash(r, f.bytes))
	toks = append(toks, fmt.Sprint(c20GenSize(r)))
	if write || r.Chance(10) {
		for k := r.Intn(3); k > 0; k-- {
			toks = append(toks, []string{"x", "file.txt", "blobs", "uploads", "a b"}[r.Intn(5)])
		}
	}
	return toks
}

var c20Vocab = []string{"blobs", "compressed-blobs", "uploads", "zstd", "deflate", "brotli", "identity", "gzip", "ZSTD",
	"sha256", "sha1", "md5", "sha384", "sha512", "sha256tree", "blake3", "gitsha1", "SHA256TREE", "vso", "murmur3", "unknown",
	"actions", "operations", "", "0", "-1", "5", "a", "8b1a9953c4611296a827abf8c47804d7", "8b1a9953c4611296a827abf8c47804d",
	"8B1A9953C4611296A827ABF8C47804D7", "da39a3ee5e6b4b0d3255bfef95601890afd80709"}

func c20MutateTokens(r *Rand, toks []string) []string {
	t := append([]string(nil), toks...)
	if len(t) == 0 {
		return []string{c20Vocab[r.Intn(len(c20Vocab))]}
	}
	k := r.Intn(len(t))
	switch r.Intn(9) {
	case 0: // drop
		t = append(t[:k], t[k+1:]...)
	case 1: // duplicate
		t = append(t[:k+1], t[k:]...)
	case 2: // swap
		j := r.Intn(len(t))
		t[k], t[j] = t[j], t[k]
	case 3: // replace by vocabulary
		t[k] = c20Vocab[r.Intn(len(c20Vocab))]
	case 4: // truncate
		t = t[:k]
	case 5: // size string
		t[len(t)-1] = c20SizeStrings[r.Intn(len(c20SizeStrings))]
	case 6: // damage the longest token (the hash)
		best := 0
		for i := range t {
			if len(t[i]) > len(t[best]) {
				best = i
			}
		}
		t[best] = c20MutHash(r, t[best])
	case 7: // insert vocabulary
		t = append(t[:k], append([]string{c20Vocab[r.Intn(len(c20Vocab))]}, t[k:]...)...)
	default: // damage one byte of one token
		if len(t[k]) > 0 {
			b := []byte(t[k])
			b[r.Intn(len(b))] = byte(r.Intn(256))
			t[k] = string(b)
		}
	}
	return t
}

func c20JoinTokens(r *Rand, toks []string) string {
	s := strings.Join(toks, "/")
	if r.Chance(12) { // redundant slashes: tolerated by the resource name parsers
		switch r.Intn(4) {
		case 0:
			s = "/" + s
		case 1:
			s += "/"
		case 2:
			s = strings.Replace(s, "/", "//", 1+r.Intn(2))
		default:
			s = "//" + s + "//"
		}
	}
	return s
}

func c20Hostile(r *Rand) []byte {
	n := r.Pick([]int{0, 1, 2, 3, 5, 8, 13, 33, 34, 35, 40, 70, 140})
	alphabet := "//--0123456789abcdefblobsuploads\x00\xff\x80 ."
	b := make([]byte, n)
	for i := range b {
		if r.Chance(80) {
			b[i] = alphabet[r.Intn(len(alphabet))]
		} else {
			b[i] = byte(r.Intn(256))
		}
	}
	return b
}

func c20GenCompact(r *Rand) []byte {
	f := c20Fns[r.Intn(len(c20Fns))]
	b := []byte{byte(f.enum)}
	if r.Chance(8) {
		b[0] = byte(r.Pick([]int{0, 4, 7, 11, 255, 128}))
	}
	for i := 0; i < f.bytes; i++ {
		b = append(b, byte(r.Intn(256)))
	}
	var v [binary.MaxVarintLen64]byte
	sz := c20GenSize(r)
	if r.Chance(12) {
		sz = c20BadSizes[r.Intn(len(c20BadSizes))]
	}
	n := binary.PutVarint(v[:], sz)
	b = append(b, v[:n]...)
	switch r.Intn(10) {
	case 0: // truncated anywhere
		b = b[:r.Intn(len(b)+1)]
	case 1: // non-terminated / overflowing varints
		b = b[:1+f.bytes]
		k := r.Pick([]int{1, 2, 8, 9, 10, 11})
		for i := 0; i < k; i++ {
			b = append(b, byte(0x80|r.Intn(128)))
		}
		if r.Bool() {
			b = append(b, byte(r.Pick([]int{0, 1, 2, 3, 127})))
		}
	case 2: // trailing bytes
		b = append(b, byte(r.Intn(256)), byte(r.Intn(256)))
	case 3: // non-canonical varint
		b = b[:1+f.bytes]
		b = append(b, 0x80, 0x80, 0x00)
	}
	return b
}

func c20GenSets(r *Rand, tier string) Sx {
	insts := []string{"", "a", "a/b", "ab", "b"}
	ni := 1 + r.Intn(len(insts))
	fns := []c20Fn{c20Fns[1], c20Fns[7], c20Fns[0], c20Fns[2], c20Fns[6]} // sha1(2), gitsha1(10), sha256(1), md5(3), blake3(9)
	nf := 1 + r.Intn(len(fns))
	hashes := map[int][]string{}
	nu := r.Pick([]int{0, 1, 2, 3, 4, 5, 6, 8, 10})
	if tier == "thorough" {
		nu += r.Intn(8)
	}
	var us []Sx
	for i := 0; i < nu; i++ {
		if len(us) > 0 && r.Chance(12) { // exact duplicate entry
			us = append(us, us[r.Intn(len(us))])
			continue
		}
		f := fns[r.Intn(nf)]
		hs := hashes[f.bytes]
		var h string
		if len(hs) > 0 && r.Chance(60) {
			h = hs[r.Intn(len(hs))]
		} else {
			h = c20GenHash(r, f.bytes)
			hashes[f.bytes] = append(hs, h)
		}
		us = append(us, L(LStr(insts[r.Intn(ni)]), AI(f.enum), LStr(h), A(r.Pick2([]int64{0, 0, 1, 5, 12, 50}))))
	}
	ns := r.Pick([]int{0, 1, 2, 2, 3, 3, 4, 5})
	var sets []Sx
	for i := 0; i < ns; i++ {
		k := 0
		if nu > 0 {
			k = r.Pick([]int{0, 1, 2, 3, 4, 6, 9})
		}
		ix := make([]int, k)
		for j := range ix {
			ix[j] = r.Intn(nu)
		}
		sets = append(sets, LInts(ix))
	}
	return L(A(6), L(us...), L(sets...))
}

func (r *Rand) Pick2(xs []int64) int64 { return xs[r.Intn(len(xs))] }

func (c20) Gen(r *Rand, i int, tier string) Sx {
	switch p := r.Intn(100); {
	case p < 26: // structured digest
		f := c20Fns[r.Intn(len(c20Fns))]
		fn := f.enum
		inst := c20GenInst(r, r.Chance(10))
		if r.Chance(2) { // "." / ".." components: legal instance names (finding F8)
			inst = strings.Join(c20GenComponents(r, true), "/")
		}
		h := c20GenHash(r, f.bytes)
		sz := c20GenSize(r)
		switch r.Intn(12) {
		case 0:
			h = c20MutHash(r, h)
		case 1:
			sz = c20BadSizes[r.Intn(len(c20BadSizes))]
		case 2:
			fn = r.Pick([]int{0, 0, 0, 4, 7, 11, 12, 99})
		}
		comp := r.Pick([]int{0, 0, 1, 1, 2, 3})
		if r.Chance(4) {
			comp = r.Pick([]int{4, 5, 100})
		}
		return L(A(3), LStr(inst), AI(fn), LStr(h), A(sz), AI(comp), c20GenUUID(r))
	case p < 46: // read path
		return L(A(0), LBytes(c20GenPath(r, false)))
	case p < 62: // write path
		return L(A(1), LBytes(c20GenPath(r, true)), c20GenUUID(r))
	case p < 70: // instance name
		if r.Chance(15) {
			return L(A(2), LBytes(c20Hostile(r)))
		}
		return L(A(2), LStr(c20GenInst(r, r.Chance(45))))
	case p < 80: // compact binary
		return L(A(4), LStr(c20GenInst(r, r.Chance(5))), LBytes(c20GenCompact(r)))
	default:
		return c20GenSets(r, tier)
	}
}

func c20GenPath(r *Rand, write bool) []byte {
	switch p := r.Intn(100); {
	case p < 45:
		return []byte(c20JoinTokens(r, c20GenPathTokens(r, write)))
	case p < 85:
		t := c20MutateTokens(r, c20GenPathTokens(r, write))
		if r.Chance(15) {
			t = c20MutateTokens(r, t)
		}
		return []byte(c20JoinTokens(r, t))
	default:
		return c20Hostile(r)
	}
}

// ---------------------------------------------------------------- classes

func c20HasDotComponent(inst []byte) bool {
	for _, c := range strings.Split(string(inst), "/") {
		if c == "." || c == ".." {
			return true
		}
	}
	return false
}

func c20Outcome(obs Sx) string {
	if obs.Len() >= 1 && obs.Nth(0).IsAtom {
		switch z := obs.Nth(0).Z; {
		case z == 0:
			return "ok"
		case z == -1:
			return "PANIC"
		default:
			return fmt.Sprintf("err%d", z)
		}
	}
	return "?"
}

func (c20) Class(in, obs Sx) (string, bool) {
	kind := in.Nth(0).Int()
	switch kind {
	case 0, 1:
		name := []string{"read", "write"}[kind]
		site := name
		if obs.Nth(0).Int() == 0 && obs.Len() >= 2 && c20HasDotComponent(obs.Nth(1).Nth(4).Nth(1).Bytes()) {
			site = "dotinst-" + name
		}
		nf := len(strings.FieldsFunc(string(in.Nth(1).Bytes()), func(r rune) bool { return r == '/' }))
		shape := "short"
		if nf >= 3+2*kind {
			shape = "long"
		}
		return site + "/" + c20Outcome(obs) + "/" + shape, shape == "long"
	case 2:
		return "instance/" + c20Outcome(obs), in.Nth(1).Len() > 0
	case 3:
		site := "digest"
		if c20HasDotComponent(in.Nth(1).Bytes()) {
			site = "dotinst-digest"
		}
		st := "ok"
		switch obs.Nth(0).Int() {
		case 1:
			st = "rejected-instance"
		case 2:
			st = "rejected-function"
		case 3:
			st = "rejected-digest"
		case -1:
			st = "PANIC"
		}
		return fmt.Sprintf("%s/%s/fn%d", site, st, in.Nth(2).Int()), true
	case 4:
		if obs.Nth(0).Int() == 1 && obs.Len() == 2 {
			return "compact/rejected-instance", true
		}
		return "compact/" + c20Outcome(obs), in.Nth(2).Len() > 0
	case 6:
		return fmt.Sprintf("sets/sets%d", in.Nth(2).Len()), in.Nth(2).Len() >= 2 && in.Nth(1).Len() >= 2
	}
	return "other", false
}
