package main

// C17: read caching, read fallback, replicator decorators and existence
// caches.  The REAL decorators run over recording in-memory backends defined
// here; see coq/Run/R17.v for the case formats.

import (
	"bytes"
	"context"
	"crypto/md5"
	"encoding/hex"
	"fmt"
	"io"
	"runtime"
	"sort"
	"strconv"
	"strings"
	"sync"
	"time"

	remoteexecution "github.com/bazelbuild/remote-apis/build/bazel/remote/execution/v2"
	"github.com/buildbarn/bb-storage/pkg/blobstore"
	"github.com/buildbarn/bb-storage/pkg/blobstore/buffer"
	"github.com/buildbarn/bb-storage/pkg/blobstore/readcaching"
	"github.com/buildbarn/bb-storage/pkg/blobstore/readfallback"
	"github.com/buildbarn/bb-storage/pkg/blobstore/replication"
	"github.com/buildbarn/bb-storage/pkg/blobstore/slicing"
	"github.com/buildbarn/bb-storage/pkg/clock"
	"github.com/buildbarn/bb-storage/pkg/digest"
	"github.com/buildbarn/bb-storage/pkg/eviction"

	"golang.org/x/sync/semaphore"
	"google.golang.org/grpc/codes"
	"google.golang.org/grpc/status"
)

func init() { props["C17"] = c17{} }

type c17 struct{}

// ---------------------------------------------------------------------------
// Objects: c17NObj blobs; ids are assigned in digest.Set order, so that the
// order in which the code walks a set is the numeric order of the model.
// ---------------------------------------------------------------------------

const c17NObj = 8

var (
	c17Digests  []digest.Digest
	c17Contents [][]byte
	c17IDByKey  = map[string]int{}
)

func init() {
	type ent struct {
		d digest.Digest
		c []byte
	}
	var es []ent
	for i := 0; i < c17NObj; i++ {
		c := []byte(fmt.Sprintf("c17-object-%d", i))
		h := md5.Sum(c)
		es = append(es, ent{digest.MustNewDigest("c17", remoteexecution.DigestFunction_MD5, hex.EncodeToString(h[:]), int64(len(c))), c})
	}
	sort.Slice(es, func(i, j int) bool {
		return es[i].d.GetKey(digest.KeyWithInstance) < es[j].d.GetKey(digest.KeyWithInstance)
	})
	for i, e := range es {
		c17Digests = append(c17Digests, e.d)
		c17Contents = append(c17Contents, e.c)
		c17IDByKey[e.d.GetKey(digest.KeyWithInstance)] = i
	}
	// The code must walk a set in id order.
	sb := digest.NewSetBuilder(0)
	for i := c17NObj - 1; i >= 0; i-- {
		sb.Add(c17Digests[i])
	}
	for i, d := range sb.Build().Items() {
		if c17ID(d) != i {
			panic("c17: digest set order is not id order")
		}
	}
}

func c17ID(d digest.Digest) int {
	if i, ok := c17IDByKey[d.GetKey(digest.KeyWithInstance)]; ok {
		return i
	}
	return -1
}

func c17Set(ids []int) digest.Set {
	sb := digest.NewSetBuilder(0)
	for _, i := range ids {
		sb.Add(c17Digests[i])
	}
	return sb.Build()
}

func c17SetIDs(s digest.Set) []int {
	ids := []int{}
	for _, d := range s.Items() {
		ids = append(ids, c17ID(d))
	}
	return ids
}

func c17ValidIDs(s Sx) bool {
	if s.IsAtom {
		return false
	}
	for _, x := range s.List {
		if !x.IsAtom || x.Big != "" || x.Z < 0 || x.Z >= c17NObj {
			return false
		}
	}
	return true
}

func c17Atom(s Sx, lo, hi int64) bool {
	return s.IsAtom && s.Big == "" && s.Z >= lo && s.Z <= hi
}

func c17Err(code int) error {
	return status.Error(codes.Code(code), fmt.Sprintf("injected %d", code))
}

// ---------------------------------------------------------------------------
// Recording backend.  Every call goes through gate(), which records it and
// says which fault to inject (sequential cases: next entry of a list; gated
// cases: parks the calling goroutine until the scheduler releases it).
// ---------------------------------------------------------------------------

type c17Backend struct {
	id   int
	lock sync.Mutex
	have map[int]bool
	gate func(ctx context.Context, bk, op int, ids []int) int
	// ret, if set, is told the outcome of every call.
	ret func(ctx context.Context, bk, op int, ids []int, code int, ans []int)
}

func (b *c17Backend) done(ctx context.Context, op int, ids []int, err error, ans []int) {
	if b.ret != nil {
		b.ret(ctx, b.id, op, ids, c17Code(err), ans)
	}
}

func newC17Backend(id int, init []int, gate func(ctx context.Context, bk, op int, ids []int) int) *c17Backend {
	b := &c17Backend{id: id, have: map[int]bool{}, gate: gate}
	for _, i := range init {
		b.have[i] = true
	}
	return b
}

func (b *c17Backend) contents() []int {
	b.lock.Lock()
	defer b.lock.Unlock()
	ids := []int{}
	for i := range b.have {
		ids = append(ids, i)
	}
	sort.Ints(ids)
	return ids
}

func (b *c17Backend) has(i int) bool {
	b.lock.Lock()
	defer b.lock.Unlock()
	return b.have[i]
}

func (b *c17Backend) GetCapabilities(ctx context.Context, instanceName digest.InstanceName) (*remoteexecution.ServerCapabilities, error) {
	return nil, status.Error(codes.Unimplemented, "n/a")
}

// c17StreamMode: the backends hand out stream-backed CAS buffers (as a remote or a block-device
// backed store does) instead of byte slices, so that a read-through with a copying replicator runs
// its copy as a background task of the returned buffer; set per operation by the sequential cases.
var c17StreamMode bool

func (b *c17Backend) Get(ctx context.Context, d digest.Digest) buffer.Buffer {
	id := c17ID(d)
	if f := b.gate(ctx, b.id, 0, []int{id}); f != 0 {
		b.done(ctx, 0, []int{id}, c17Err(f), nil)
		return buffer.NewBufferFromError(c17Err(f))
	}
	if !b.has(id) {
		err := status.Error(codes.NotFound, "object not found")
		b.done(ctx, 0, []int{id}, err, nil)
		return buffer.NewBufferFromError(err)
	}
	b.done(ctx, 0, []int{id}, nil, nil)
	if c17StreamMode {
		return buffer.NewCASBufferFromReader(d, io.NopCloser(bytes.NewReader(c17Contents[id])), buffer.BackendProvided(func(bool) {}))
	}
	return buffer.NewValidatedBufferFromByteSlice(c17Contents[id])
}

// GetFromComposite (op 3) serves the child of parent p: c17Child(p).  It is
// reached by the composite reads of kind 0 (which hand over c17Slicer: the
// backend holds whole parents and lets the slicer cut the child out, as a
// store that has not seen the child yet does) and by the mixed-entry-point
// cases (C17L, no slicer).
func (b *c17Backend) GetFromComposite(ctx context.Context, p, c digest.Digest, s slicing.BlobSlicer) buffer.Buffer {
	id := c17ID(p)
	if id < 0 {
		return buffer.NewBufferFromError(status.Error(codes.InvalidArgument, "unknown parent"))
	}
	if f := b.gate(ctx, b.id, 3, []int{id}); f != 0 {
		b.done(ctx, 3, []int{id}, c17Err(f), nil)
		return buffer.NewBufferFromError(c17Err(f))
	}
	if !b.has(id) {
		err := status.Error(codes.NotFound, "object not found")
		b.done(ctx, 3, []int{id}, err, nil)
		return buffer.NewBufferFromError(err)
	}
	b.done(ctx, 3, []int{id}, nil, nil)
	if s != nil {
		child, _ := s.Slice(buffer.NewValidatedBufferFromByteSlice(c17Contents[id]), c)
		return child
	}
	return buffer.NewValidatedBufferFromByteSlice(c17Child(id))
}

// c17Slicer cuts the child (everything after the first four bytes) out of a
// parent; it reports the slice it found, as a real slicer does.
type c17Slicer struct{}

func (c17Slicer) Slice(b buffer.Buffer, childDigest digest.Digest) (buffer.Buffer, []slicing.BlobSlice) {
	data, err := b.ToByteSlice(1 << 20)
	if err != nil {
		return buffer.NewBufferFromError(err), nil
	}
	if len(data) < 4 {
		return buffer.NewBufferFromError(status.Error(codes.InvalidArgument, "parent too short")), nil
	}
	child := data[4:]
	h := md5.Sum(child)
	d := digest.MustNewDigest("c17", remoteexecution.DigestFunction_MD5, hex.EncodeToString(h[:]), int64(len(child)))
	if d != childDigest {
		return buffer.NewBufferFromError(status.Error(codes.InvalidArgument, "parent does not contain the child")), nil
	}
	return buffer.NewValidatedBufferFromByteSlice(child), []slicing.BlobSlice{{Digest: d, OffsetBytes: 4, SizeBytes: int64(len(child))}}
}

// c17Child is the part of object id that a composite read asks for.
func c17Child(id int) []byte { return c17Contents[id][4:] }

func c17ChildDigest(id int) digest.Digest {
	c := c17Child(id)
	h := md5.Sum(c)
	return digest.MustNewDigest("c17", remoteexecution.DigestFunction_MD5, hex.EncodeToString(h[:]), int64(len(c)))
}

func (b *c17Backend) Put(ctx context.Context, d digest.Digest, buf buffer.Buffer) error {
	err := b.put(ctx, d, buf)
	b.done(ctx, 1, []int{c17ID(d)}, err, nil)
	return err
}

func (b *c17Backend) put(ctx context.Context, d digest.Digest, buf buffer.Buffer) error {
	id := c17ID(d)
	if f := b.gate(ctx, b.id, 1, []int{id}); f != 0 {
		buf.Discard()
		return c17Err(f)
	}
	data, err := buf.ToByteSlice(1 << 20)
	if err != nil {
		return err
	}
	if string(data) != string(c17Contents[id]) {
		return status.Error(codes.InvalidArgument, "wrong bytes")
	}
	if c17StreamMode {
		// the copy of a read-through commits a little after the last byte was handed out: a
		// consumer that is told "end of stream" before the copy finished is then caught out
		time.Sleep(300 * time.Microsecond)
	}
	b.lock.Lock()
	b.have[id] = true
	b.lock.Unlock()
	return nil
}

func (b *c17Backend) FindMissing(ctx context.Context, ds digest.Set) (digest.Set, error) {
	ids := c17SetIDs(ds)
	if f := b.gate(ctx, b.id, 2, ids); f != 0 {
		b.done(ctx, 2, ids, c17Err(f), nil)
		return digest.EmptySet, c17Err(f)
	}
	sb := digest.NewSetBuilder(0)
	for _, d := range ds.Items() {
		if !b.has(c17ID(d)) {
			sb.Add(d)
		}
	}
	missing := sb.Build()
	b.done(ctx, 2, ids, nil, c17SetIDs(missing))
	return missing, nil
}

// ---------------------------------------------------------------------------
// kind 0: sequential histories on a composite
// ---------------------------------------------------------------------------

type c17SeqEnv struct {
	faults []int
	calls  []Sx
}

func (e *c17SeqEnv) gate(ctx context.Context, bk, op int, ids []int) int {
	f := 0
	if len(e.faults) > 0 {
		f = e.faults[0]
		e.faults = e.faults[1:]
	}
	e.calls = append(e.calls, L(AI(bk), AI(op), LInts(ids), AI(f)))
	return f
}

func c17BuildRepl(s Sx, source, sink blobstore.BlobAccess, depth int) (replication.BlobReplicator, bool) {
	if depth > 6 {
		return nil, false
	}
	if s.IsAtom {
		switch s.Z {
		case 0:
			return replication.NewLocalBlobReplicator(source, sink), true
		case 1:
			return replication.NewNoopBlobReplicator(source), true
		}
		return nil, false
	}
	if s.Len() != 2 || !s.Nth(0).IsAtom {
		return nil, false
	}
	base, ok := c17BuildRepl(s.Nth(1), source, sink, depth+1)
	if !ok {
		return nil, false
	}
	switch s.Nth(0).Z {
	case 2:
		return replication.NewDeduplicatingBlobReplicator(base, sink, digest.KeyWithoutInstance), true
	case 3:
		return replication.NewConcurrencyLimitingBlobReplicator(base, sink, semaphore.NewWeighted(1)), true
	}
	return nil, false
}

func c17Code(err error) int {
	if err == nil {
		return 0
	}
	return int(status.Code(err))
}

func (c17) execSeq(in Sx) (Sx, bool) {
	if in.Len() != 6 || !c17Atom(in.Nth(1), 0, 1) || !c17ValidIDs(in.Nth(3)) || !c17ValidIDs(in.Nth(4)) || in.Nth(5).IsAtom {
		return Sx{}, false
	}
	env := &c17SeqEnv{}
	a := newC17Backend(0, in.Nth(3).Ints(), env.gate)
	b := newC17Backend(1, in.Nth(4).Ints(), env.gate)
	repl, ok := c17BuildRepl(in.Nth(2), b, a, 0)
	if !ok {
		return Sx{}, false
	}
	var ba blobstore.BlobAccess
	if in.Nth(1).Z == 0 {
		ba = readcaching.NewReadCachingBlobAccess(b, a, repl) // slow, fast
	} else {
		ba = readfallback.NewReadFallbackBlobAccess(a, b, repl) // primary, secondary
	}
	ctx := context.Background()
	out := []Sx{}
	for _, st := range in.Nth(5).List {
		// kinds 4 and 5 are Gets (the model decodes every kind but 1, 2, 3 as a Get) against
		// backends that hand out stream-backed buffers: 4 consumed chunk by chunk, 5 as a whole
		if st.Len() != 3 || !c17Atom(st.Nth(0), 0, 5) || st.Nth(2).IsAtom {
			return Sx{}, false
		}
		c17StreamMode = st.Nth(0).Z >= 4
		for _, f := range st.Nth(2).List {
			if !c17Atom(f, 0, 16) {
				return Sx{}, false
			}
		}
		env.faults = st.Nth(2).Ints()
		env.calls = nil
		code := 0
		pfx := 0
		ans := []int{}
		switch st.Nth(0).Z {
		case 0, 1, 3, 4, 5:
			if !c17Atom(st.Nth(1), 0, c17NObj-1) {
				return Sx{}, false
			}
			id := st.Nth(1).Int()
			if st.Nth(0).Z == 4 {
				cr := ba.Get(ctx, c17Digests[id]).ToChunkReader(0, 5)
				var data []byte
				var err error
				for {
					var chunk []byte
					chunk, err = cr.Read()
					if err != nil {
						break
					}
					data = append(data, chunk...)
				}
				cr.Close()
				if err == io.EOF {
					err = nil
				}
				code = c17Code(err)
				pfx = c17Prefix(err)
				if err == nil && string(data) != string(c17Contents[id]) {
					code = -3
				}
			} else if st.Nth(0).Z == 0 || st.Nth(0).Z == 5 {
				data, err := ba.Get(ctx, c17Digests[id]).ToByteSlice(1 << 20)
				code = c17Code(err)
				pfx = c17Prefix(err)
				if err == nil && string(data) != string(c17Contents[id]) {
					code = -3
				}
			} else if st.Nth(0).Z == 3 {
				// composite read: parent id, its child, the harness's slicer
				data, err := ba.GetFromComposite(ctx, c17Digests[id], c17ChildDigest(id), c17Slicer{}).ToByteSlice(1 << 20)
				code = c17Code(err)
				pfx = c17Prefix(err)
				if err == nil && string(data) != string(c17Child(id)) {
					code = -3
				}
			} else {
				code = c17Code(ba.Put(ctx, c17Digests[id], buffer.NewValidatedBufferFromByteSlice(c17Contents[id])))
			}
		case 2:
			if !c17ValidIDs(st.Nth(1)) {
				return Sx{}, false
			}
			missing, err := ba.FindMissing(ctx, c17Set(st.Nth(1).Ints()))
			code = c17Code(err)
			ans = c17SetIDs(missing)
		}
		out = append(out, L(AI(code), LInts(ans), L(env.calls...), LInts(a.contents()), LInts(b.contents()), AI(pfx)))
	}
	c17StreamMode = false
	return L(out...), true
}

// c17Prefix: which backend name the composite put in front of a read's error
// (0 none, 1 "Primary", 2 "Secondary").
func c17Prefix(err error) int {
	if err == nil {
		return 0
	}
	m := status.Convert(err).Message()
	switch {
	case strings.HasPrefix(m, "Primary: "):
		return 1
	case strings.HasPrefix(m, "Secondary: "):
		return 2
	}
	return 0
}

// ---------------------------------------------------------------------------
// kind 1: existence cache on a virtual clock
// ---------------------------------------------------------------------------

type c17Clock struct {
	lock     sync.Mutex
	t        int64
	pending  []int64 // advances applied before the next Now() calls
	readings []int64
}

var c17Epoch = time.Unix(1700000000, 0)

func (c *c17Clock) Now() time.Time {
	c.lock.Lock()
	defer c.lock.Unlock()
	if len(c.pending) > 0 {
		c.t += c.pending[0]
		c.pending = c.pending[1:]
	}
	c.readings = append(c.readings, c.t)
	return c17Epoch.Add(time.Duration(c.t) * time.Second)
}

func (c *c17Clock) NewContextWithTimeout(parent context.Context, timeout time.Duration) (context.Context, context.CancelFunc) {
	panic("c17Clock: not used")
}
func (c *c17Clock) NewTimer(d time.Duration) (clock.Timer, <-chan time.Time) {
	panic("c17Clock: not used")
}
func (c *c17Clock) NewTicker(d time.Duration) (clock.Ticker, <-chan time.Time) {
	panic("c17Clock: not used")
}

func c17Int64s(xs []int64) Sx {
	l := make([]Sx, len(xs))
	for i, x := range xs {
		l[i] = A(x)
	}
	return L(l...)
}

const c17MaxTime = 1000000

func (c17) execEC(in Sx) (Sx, bool) {
	if in.Len() != 4 || !c17Atom(in.Nth(1), 1, 64) || !c17Atom(in.Nth(2), 0, c17MaxTime) || in.Nth(3).IsAtom {
		return Sx{}, false
	}
	size := in.Nth(1).Int()
	dur := in.Nth(2).Z
	clk := &c17Clock{}
	env := &c17SeqEnv{}
	backend := newC17Backend(0, nil, env.gate)
	ec := digest.NewExistenceCache(clk, digest.KeyWithoutInstance, size, time.Duration(dur)*time.Second, eviction.NewLRUSet[string]())
	eba := blobstore.NewExistenceCachingBlobAccess(backend, ec)
	ctx := context.Background()
	out := []Sx{}
	for _, op := range in.Nth(3).List {
		if op.IsAtom || !c17Atom(op.Nth(0), 0, 5) {
			return Sx{}, false
		}
		clk.readings = nil
		clk.pending = nil
		switch op.Nth(0).Z {
		case 0:
			if op.Len() != 5 || !c17ValidIDs(op.Nth(1)) || !c17Atom(op.Nth(2), 0, c17MaxTime) || !c17Atom(op.Nth(3), 0, c17MaxTime) || !c17Atom(op.Nth(4), 0, 16) {
				return Sx{}, false
			}
			clk.pending = []int64{op.Nth(2).Z, op.Nth(3).Z}
			env.faults = []int{op.Nth(4).Int()}
			env.calls = nil
			missing, err := eba.FindMissing(ctx, c17Set(op.Nth(1).Ints()))
			call := L()
			if len(env.calls) > 0 {
				call = L(env.calls[0].Nth(2))
			}
			out = append(out, L(AI(c17Code(err)), LInts(c17SetIDs(missing)), call, c17Int64s(clk.readings)))
		case 1, 2:
			if op.Len() != 3 || !c17ValidIDs(op.Nth(1)) || !c17Atom(op.Nth(2), 0, c17MaxTime) {
				return Sx{}, false
			}
			clk.pending = []int64{op.Nth(2).Z}
			ans := []int{}
			if op.Nth(0).Z == 1 {
				ans = c17SetIDs(ec.RemoveExisting(c17Set(op.Nth(1).Ints())))
			} else {
				ec.Add(c17Set(op.Nth(1).Ints()))
			}
			out = append(out, L(A(0), LInts(ans), L(), c17Int64s(clk.readings)))
		case 3, 4:
			if op.Len() != 2 || !c17Atom(op.Nth(1), 0, c17NObj-1) {
				return Sx{}, false
			}
			backend.lock.Lock()
			if op.Nth(0).Z == 3 {
				backend.have[op.Nth(1).Int()] = true
			} else {
				delete(backend.have, op.Nth(1).Int())
			}
			backend.lock.Unlock()
			out = append(out, L(A(0), L(), L(), L()))
		case 5:
			// composite read through the decorator: parent, its child, the harness's slicer
			if op.Len() != 3 || !c17Atom(op.Nth(1), 0, c17NObj-1) || !c17Atom(op.Nth(2), 0, 16) {
				return Sx{}, false
			}
			id := op.Nth(1).Int()
			env.faults = []int{op.Nth(2).Int()}
			env.calls = nil
			data, err := eba.GetFromComposite(ctx, c17Digests[id], c17ChildDigest(id), c17Slicer{}).ToByteSlice(1 << 20)
			code := c17Code(err)
			if err == nil && string(data) != string(c17Child(id)) {
				code = -3
			}
			call := L()
			if len(env.calls) == 1 && env.calls[0].Nth(1).Int() == 3 {
				call = L(env.calls[0].Nth(2))
			} else if len(env.calls) > 0 {
				call = L(L(A(-9))) // some other backend call
			}
			out = append(out, L(AI(code), L(), call, c17Int64s(clk.readings)))
		}
	}
	return L(out...), true
}

// ---------------------------------------------------------------------------
// kind 3: the LRU set itself
// ---------------------------------------------------------------------------

func (c17) execLRU(in Sx) (Sx, bool) {
	if in.Len() != 2 || in.Nth(1).IsAtom {
		return Sx{}, false
	}
	s := eviction.NewLRUSet[int]()
	present := map[int]bool{}
	order := []int{} // only to know what Remove() removes for the well-formedness bookkeeping
	peeks := []Sx{}
	for _, op := range in.Nth(1).List {
		if op.IsAtom || !c17Atom(op.Nth(0), 0, 3) {
			return Sx{}, false
		}
		switch op.Nth(0).Z {
		case 0:
			if !c17Atom(op.Nth(1), 0, 63) || present[op.Nth(1).Int()] {
				return Sx{}, false
			}
			s.Insert(op.Nth(1).Int())
			present[op.Nth(1).Int()] = true
		case 1:
			if !c17Atom(op.Nth(1), 0, 63) || !present[op.Nth(1).Int()] {
				return Sx{}, false
			}
			s.Touch(op.Nth(1).Int())
		case 2:
			if len(present) == 0 {
				return Sx{}, false
			}
			peeks = append(peeks, AI(s.Peek()))
		case 3:
			if len(present) == 0 {
				return Sx{}, false
			}
			v := s.Peek()
			s.Remove()
			if !present[v] {
				// The implementation claims to remove something that is
				// not there; make that visible instead of guessing.
				peeks = append(peeks, A(-2))
			}
			delete(present, v)
		}
	}
	_ = order
	return L(L(peeks...)), true
}

// ---------------------------------------------------------------------------

func (p c17) Exec(in Sx) (Sx, bool) {
	if in.IsAtom || !c17Atom(in.Nth(0), 0, 3) {
		return Sx{}, false
	}
	switch in.Nth(0).Z {
	case 0:
		return p.execSeq(in)
	case 1:
		return p.execEC(in)
	case 2:
		return p.execConc(in)
	default:
		return p.execLRU(in)
	}
}

// ---------------------------------------------------------------------------
// Generators
// ---------------------------------------------------------------------------

var c17FaultCodes = []int{5, 5, 13, 14, 14, 2, 16, 1, 4}

func c17Subset(r *Rand, n, maxLen int) []int {
	k := r.Intn(maxLen + 1)
	xs := []int{}
	for i := 0; i < k; i++ {
		xs = append(xs, r.Intn(n))
	}
	return xs
}

func c17GenRepl(r *Rand) Sx {
	switch x := r.Intn(100); {
	case x < 50:
		return A(0)
	case x < 62:
		return A(1)
	case x < 76:
		return L(A(2), A(0))
	case x < 88:
		return L(A(3), A(0))
	case x < 94:
		return L(A(3), L(A(2), A(0)))
	default:
		return L(A(2), L(A(3), A(0)))
	}
}

func c17GenSeq(r *Rand, tier string) Sx {
	nobj := 3 + r.Intn(4)
	maxOps := 8
	if tier == "thorough" {
		maxOps = 16
	}
	hostile := r.Chance(12)
	ops := []Sx{}
	n := 1 + r.Intn(maxOps)
	for i := 0; i < n; i++ {
		faults := []int{}
		if hostile {
			for j := r.Intn(7); j > 0; j-- {
				faults = append(faults, r.Pick([]int{0, 0, 5, 13, 14, 1, 3}))
			}
		} else if r.Chance(35) {
			// exactly one fault, at every possible call index over the run
			for j := r.Intn(6); j > 0; j-- {
				faults = append(faults, 0)
			}
			faults = append(faults, r.Pick(c17FaultCodes))
		}
		switch x := r.Intn(100); {
		case x < 30:
			// a Get: from byte-slice buffers (0), or from stream-backed buffers consumed chunk by
			// chunk (4) or as a whole (5) - the copy of a read-through is then a background task
			ops = append(ops, L(AI(r.Pick([]int{0, 0, 4, 4, 5})), AI(r.Intn(nobj)), LInts(faults)))
		case x < 58:
			// composite read (GetFromComposite) of the child of a parent
			ops = append(ops, L(A(3), AI(r.Intn(nobj)), LInts(faults)))
		case x < 72:
			ops = append(ops, L(A(1), AI(r.Intn(nobj)), LInts(faults)))
		default:
			ops = append(ops, L(A(2), LInts(c17Subset(r, nobj, 5)), LInts(faults)))
		}
	}
	return L(A(0), AI(r.Intn(2)), c17GenRepl(r), LInts(c17Subset(r, nobj, 4)), LInts(c17Subset(r, nobj, 4)), L(ops...))
}

func c17GenEC(r *Rand, tier string) Sx {
	size := r.Pick([]int{1, 1, 2, 2, 3, 4})
	dur := r.Pick([]int{0, 1, 2, 3, 5, 10})
	nobj := 2 + r.Intn(5)
	maxOps := 14
	if tier == "thorough" {
		maxOps = 30
	}
	delta := func() int {
		switch x := r.Intn(100); {
		case x < 40:
			return 0
		case x < 55:
			return dur
		case x < 70:
			return dur + 1
		case x < 80:
			return 1
		default:
			return r.Intn(dur + 3)
		}
	}
	ops := []Sx{}
	// Most histories start with some objects in the backend.
	for i := 0; i < nobj; i++ {
		if r.Chance(60) {
			ops = append(ops, L(A(3), AI(i)))
		}
	}
	n := 2 + r.Intn(maxOps)
	for i := 0; i < n; i++ {
		switch x := r.Intn(100); {
		case x < 50:
			f := 0
			if r.Chance(10) {
				f = r.Pick(c17FaultCodes)
			}
			ops = append(ops, L(A(0), LInts(c17Subset(r, nobj, 4)), AI(delta()), AI(delta()), AI(f)))
		case x < 62:
			ops = append(ops, L(A(1), LInts(c17Subset(r, nobj, 6)), AI(delta())))
		case x < 72:
			ops = append(ops, L(A(2), LInts(c17Subset(r, nobj, 3)), AI(delta())))
		case x < 82:
			ops = append(ops, L(A(3), AI(r.Intn(nobj))))
		case x < 90:
			ops = append(ops, L(A(4), AI(r.Intn(nobj))))
		default:
			// composite read through the decorator (often of an object the
			// cache has recorded as present and the backend has lost since)
			f := 0
			if r.Chance(10) {
				f = r.Pick(c17FaultCodes)
			}
			ops = append(ops, L(A(5), AI(r.Intn(nobj)), AI(f)))
		}
	}
	return L(A(1), AI(size), AI(dur), L(ops...))
}

func c17GenLRU(r *Rand, tier string) Sx {
	present := []int{}
	ops := []Sx{}
	n := 2 + r.Intn(20)
	for i := 0; i < n; i++ {
		x := r.Intn(100)
		switch {
		case x < 35 || len(present) == 0:
			v := r.Intn(8)
			dup := false
			for _, p := range present {
				dup = dup || p == v
			}
			if dup {
				ops = append(ops, L(A(1), AI(v)))
				for j, p := range present {
					if p == v {
						present = append(append(append([]int{}, present[:j]...), present[j+1:]...), v)
						break
					}
				}
			} else {
				ops = append(ops, L(A(0), AI(v)))
				present = append(present, v)
			}
		case x < 60:
			j := r.Intn(len(present))
			v := present[j]
			ops = append(ops, L(A(1), AI(v)))
			present = append(append(append([]int{}, present[:j]...), present[j+1:]...), v)
		case x < 85:
			ops = append(ops, L(A(2)))
		default:
			ops = append(ops, L(A(3)))
			present = present[1:]
		}
	}
	ops = append(ops, L(A(2)))
	if len(present) == 0 {
		ops = ops[:len(ops)-1]
	}
	return L(A(3), L(ops...))
}

func (p c17) Gen(r *Rand, i int, tier string) Sx {
	switch x := r.Intn(100); {
	case x < 35:
		return c17GenSeq(r, tier)
	case x < 60:
		return c17GenEC(r, tier)
	case x < 65:
		return c17GenLRU(r, tier)
	default:
		return c17GenConc(r, tier)
	}
}

func (c17) Class(in, obs Sx) (string, bool) {
	switch in.Nth(0).Int() {
	case 0:
		comp := []string{"readcaching", "readfallback"}[in.Nth(1).Int()&1]
		through, faulted := false, false
		// composite reads (GetFromComposite): of a parent only the fast /
		// primary backend holds, and successful read-throughs of a parent
		// only the slow / secondary backend holds, judged from the calls.
		gfc, gfcFast, gfcThrough := false, false, false
		for j, st := range obs.List {
			if st.Nth(2).Len() >= 2 {
				through = true
			}
			stFaulted := false
			for _, c := range st.Nth(2).List {
				if c.Nth(3).Int() != 0 {
					faulted = true
					stFaulted = true
				}
			}
			if in.Nth(5).Nth(j).Nth(0).Int() == 3 {
				gfc = true
				id := in.Nth(5).Nth(j).Nth(1).Z
				inA, inB := in.Nth(3), in.Nth(4)
				if j > 0 {
					inA, inB = obs.Nth(j-1).Nth(3), obs.Nth(j-1).Nth(4)
				}
				hasA, hasB := false, false
				for _, x := range inA.List {
					hasA = hasA || x.Z == id
				}
				for _, x := range inB.List {
					hasB = hasB || x.Z == id
				}
				if hasA && !hasB && !stFaulted {
					gfcFast = true
				}
				if !hasA && hasB && st.Nth(0).Int() == 0 {
					gfcThrough = true
				}
			}
		}
		c := "seq-" + comp + "/repl" + in.Nth(2).String()
		if faulted {
			c += "/fault"
		}
		if gfc {
			c += "/gfc"
			if gfcFast {
				c += "+fastonly"
			}
			if gfcThrough {
				c += "+through"
			}
		}
		return c, through || faulted
	case 1:
		hit := false
		for j, st := range obs.List {
			op := in.Nth(3).Nth(j)
			if op.Nth(0).Int() == 0 && st.Nth(2).Len() == 1 && st.Nth(2).Nth(0).Len() < c17DistinctLen(op.Nth(1)) {
				hit = true
			}
		}
		c := fmt.Sprintf("existence/size%d", in.Nth(1).Int())
		if hit {
			c += "/hit"
		}
		return c, hit
	case 2:
		return c17ClassConc(in, obs)
	default:
		return "lru", obs.Nth(0).Len() >= 2
	}
}

func c17DistinctLen(s Sx) int {
	m := map[int64]bool{}
	for _, x := range s.List {
		m[x.Z] = true
	}
	return len(m)
}

// ---------------------------------------------------------------------------
// kind 2: gated concurrent callers of a replicator decorator
// ---------------------------------------------------------------------------

type c17CallerKey struct{}

type c17Parked struct {
	bk, op  int
	ids     []int
	release chan int
}

// c17CountRepl sits between the decorator under test and the local
// replicator and counts concurrent base calls per key and overall.
type c17CountRepl struct {
	base   replication.BlobReplicator
	mu     sync.Mutex
	perKey map[int]int
	all    int
	maxKey int
	maxAll int
}

// Every entry point of the base replicator counts as a copy in flight for as
// long as the call lasts.
func (c *c17CountRepl) enter(ids []int) {
	c.mu.Lock()
	c.all++
	if c.all > c.maxAll {
		c.maxAll = c.all
	}
	for _, i := range ids {
		c.perKey[i]++
		if c.perKey[i] > c.maxKey {
			c.maxKey = c.perKey[i]
		}
	}
	c.mu.Unlock()
}

func (c *c17CountRepl) leave(ids []int) {
	c.mu.Lock()
	c.all--
	for _, i := range ids {
		c.perKey[i]--
	}
	c.mu.Unlock()
}

func (c *c17CountRepl) ReplicateSingle(ctx context.Context, d digest.Digest) buffer.Buffer {
	ids := []int{c17ID(d)}
	c.enter(ids)
	defer c.leave(ids)
	return c.base.ReplicateSingle(ctx, d)
}

func (c *c17CountRepl) ReplicateComposite(ctx context.Context, p, ch digest.Digest, s slicing.BlobSlicer) buffer.Buffer {
	ids := []int{c17ID(p)}
	c.enter(ids)
	defer c.leave(ids)
	return c.base.ReplicateComposite(ctx, p, ch, s)
}

func (c *c17CountRepl) ReplicateMultiple(ctx context.Context, ds digest.Set) error {
	ids := c17SetIDs(ds)
	c.enter(ids)
	defer c.leave(ids)
	return c.base.ReplicateMultiple(ctx, ds)
}

type c17Session struct {
	mu       sync.Mutex
	n        int
	sets     [][]int
	kinds    []int // per caller: 0 ReplicateMultiple, 1 ReplicateSingle, 2 ReplicateComposite (C17L)
	repl     replication.BlobReplicator
	count    *c17CountRepl
	sink     *c17Backend
	clk      *c17Clock
	ctxs     []context.Context
	cancels  []context.CancelFunc
	canc     []bool
	started  []bool
	finished []bool
	codes    []int
	gids     []uint64
	parked   map[int]*c17Parked
	log      []Sx
	failed   bool
}

func (s *c17Session) now() int64 {
	s.clk.lock.Lock()
	defer s.clk.lock.Unlock()
	return s.clk.t
}

func (s *c17Session) gate(ctx context.Context, bk, op int, ids []int) int {
	i, _ := ctx.Value(c17CallerKey{}).(int)
	p := &c17Parked{bk: bk, op: op, ids: ids, release: make(chan int)}
	t := s.now()
	s.mu.Lock()
	s.log = append(s.log, L(A(1), AI(i), AI(bk), AI(op), LInts(ids), A(t)))
	s.parked[i] = p
	s.mu.Unlock()
	return <-p.release
}

func (s *c17Session) ret(ctx context.Context, bk, op int, ids []int, code int, ans []int) {
	i, _ := ctx.Value(c17CallerKey{}).(int)
	t := s.now()
	s.mu.Lock()
	s.log = append(s.log, L(A(2), AI(i), AI(bk), AI(op), LInts(ids), AI(code), LInts(ans), A(t)))
	s.mu.Unlock()
}

// newC17Session builds the decorator of the case header (mode, sets, source, sink).
func newC17Session(in Sx) (*c17Session, bool) {
	mode := in.Nth(1)
	if mode.IsAtom || !c17Atom(mode.Nth(0), 0, 2) || in.Nth(2).IsAtom || in.Nth(2).Len() > 6 ||
		!c17ValidIDs(in.Nth(3)) || !c17ValidIDs(in.Nth(4)) {
		return nil, false
	}
	s := &c17Session{parked: map[int]*c17Parked{}, clk: &c17Clock{}}
	for _, x := range in.Nth(2).List {
		if !c17ValidIDs(x) {
			return nil, false
		}
		ids := c17SetIDs(c17Set(x.Ints()))
		s.sets = append(s.sets, ids)
	}
	s.n = len(s.sets)
	s.kinds = make([]int, s.n)
	if in.Len() > 6 {
		// entry points (C17L); a single-object entry point needs an object
		ks := in.Nth(6)
		if ks.IsAtom || ks.Len() > s.n {
			return nil, false
		}
		for i, k := range ks.List {
			if !c17Atom(k, 0, 2) || (k.Z != 0 && (len(s.sets[i]) == 0 || mode.Nth(0).Z == 2)) {
				return nil, false
			}
			s.kinds[i] = k.Int()
		}
	}
	source := newC17Backend(1, in.Nth(3).Ints(), s.gate)
	source.ret = s.ret
	s.sink = newC17Backend(0, in.Nth(4).Ints(), s.gate)
	s.sink.ret = s.ret
	s.count = &c17CountRepl{base: replication.NewLocalBlobReplicator(source, s.sink), perKey: map[int]int{}}
	switch mode.Nth(0).Z {
	case 0:
		s.repl = replication.NewDeduplicatingBlobReplicator(s.count, s.sink, digest.KeyWithoutInstance)
	case 1:
		if !c17Atom(mode.Nth(1), 1, 16) {
			return nil, false
		}
		s.repl = replication.NewConcurrencyLimitingBlobReplicator(s.count, s.sink, semaphore.NewWeighted(mode.Nth(1).Z))
	case 2:
		if !c17Atom(mode.Nth(1), 1, 64) || !c17Atom(mode.Nth(2), 0, c17MaxTime) {
			return nil, false
		}
		ec := digest.NewExistenceCache(s.clk, digest.KeyWithoutInstance, mode.Nth(1).Int(), time.Duration(mode.Nth(2).Z)*time.Second, eviction.NewLRUSet[string]())
		s.repl = replication.NewQueuedBlobReplicator(source, s.count, ec)
	}
	for i := 0; i < s.n; i++ {
		ctx, cancel := context.WithCancel(context.WithValue(context.Background(), c17CallerKey{}, i))
		s.ctxs = append(s.ctxs, ctx)
		s.cancels = append(s.cancels, cancel)
	}
	s.canc = make([]bool, s.n)
	s.started = make([]bool, s.n)
	s.finished = make([]bool, s.n)
	s.codes = make([]int, s.n)
	s.gids = make([]uint64, s.n)
	return s, true
}

func c17GoroutineID() uint64 {
	var buf [64]byte
	n := runtime.Stack(buf[:], false)
	var id uint64
	for _, c := range buf[len("goroutine "):n] {
		if c < '0' || c > '9' {
			break
		}
		id = id*10 + uint64(c-'0')
	}
	return id
}

// c17GoroutineStates parses "goroutine N [state, ...]:" headers of a full dump.
func c17GoroutineStates() map[uint64]string {
	buf := make([]byte, 1<<16)
	for {
		n := runtime.Stack(buf, true)
		if n < len(buf) {
			buf = buf[:n]
			break
		}
		buf = make([]byte, 2*len(buf))
	}
	res := map[uint64]string{}
	for _, line := range strings.Split(string(buf), "\n") {
		if !strings.HasPrefix(line, "goroutine ") {
			continue
		}
		rest := line[len("goroutine "):]
		sp := strings.IndexByte(rest, ' ')
		if sp < 0 {
			continue
		}
		id, err := strconv.ParseUint(rest[:sp], 10, 64)
		if err != nil {
			continue
		}
		st := rest[sp+1:]
		st = strings.TrimPrefix(st, "[")
		if j := strings.IndexAny(st, ",]"); j >= 0 {
			st = st[:j]
		}
		res[id] = st
	}
	return res
}

// waitQuiet returns when every started caller is parked in a gate, has
// returned, or is blocked inside the decorator (select / channel receive).
func (s *c17Session) waitQuiet() {
	deadline := time.Now().Add(5 * time.Second)
	for iter := 0; ; iter++ {
		s.mu.Lock()
		var unknown []uint64
		ready := true
		for i := 0; i < s.n; i++ {
			if s.started[i] && !s.finished[i] && s.parked[i] == nil {
				if s.gids[i] == 0 {
					ready = false
				}
				unknown = append(unknown, s.gids[i])
			}
		}
		s.mu.Unlock()
		if len(unknown) == 0 {
			return
		}
		if ready && iter >= 2 {
			states := c17GoroutineStates()
			quiet := true
			for _, g := range unknown {
				st, ok := states[g]
				if ok && st != "select" && st != "chan receive" {
					quiet = false
				}
			}
			if quiet {
				// A caller seen blocked may since have been woken by one seen
				// running; re-validate against the flags.
				s.mu.Lock()
				same := true
				k := 0
				for i := 0; i < s.n; i++ {
					if s.started[i] && !s.finished[i] && s.parked[i] == nil {
						if k >= len(unknown) || unknown[k] != s.gids[i] {
							same = false
						}
						k++
					}
				}
				same = same && k == len(unknown)
				s.mu.Unlock()
				if same {
					// All of them were blocked in one stop-the-world snapshot,
					// and nobody else acts: nothing can change any more.
					allBlocked := true
					for _, g := range unknown {
						if st, ok := states[g]; !ok || (st != "select" && st != "chan receive") {
							allBlocked = false
						}
					}
					if allBlocked {
						return
					}
				}
			}
		}
		if time.Now().After(deadline) {
			s.failed = true
			return
		}
		if iter < 50 {
			runtime.Gosched()
		} else {
			time.Sleep(20 * time.Microsecond)
		}
	}
}

func (s *c17Session) start(i int) {
	if i < 0 || i >= s.n || s.started[i] {
		return
	}
	t := s.now()
	s.mu.Lock()
	s.started[i] = true
	s.log = append(s.log, L(A(0), AI(i), A(t)))
	s.mu.Unlock()
	go func() {
		g := c17GoroutineID()
		s.mu.Lock()
		s.gids[i] = g
		s.mu.Unlock()
		err := s.call(i)
		t := s.now()
		s.mu.Lock()
		s.codes[i] = c17Code(err)
		s.log = append(s.log, L(A(3), AI(i), AI(c17Code(err)), A(t)))
		s.finished[i] = true
		s.mu.Unlock()
	}()
}

// call runs caller i's request through the entry point of its kind and
// consumes the buffer the single-object entry points return.
func (s *c17Session) call(i int) error {
	switch s.kinds[i] {
	case 1:
		id := s.sets[i][0]
		data, err := s.repl.ReplicateSingle(s.ctxs[i], c17Digests[id]).ToByteSlice(1 << 20)
		if err == nil && string(data) != string(c17Contents[id]) {
			return status.Error(codes.DataLoss, "wrong bytes")
		}
		return err
	case 2:
		id := s.sets[i][0]
		data, err := s.repl.ReplicateComposite(s.ctxs[i], c17Digests[id], c17ChildDigest(id), nil).ToByteSlice(1 << 20)
		if err == nil && string(data) != string(c17Child(id)) {
			return status.Error(codes.DataLoss, "wrong bytes")
		}
		return err
	}
	return s.repl.ReplicateMultiple(s.ctxs[i], c17Set(s.sets[i]))
}

func (s *c17Session) release(i, f int) {
	s.mu.Lock()
	p := s.parked[i]
	delete(s.parked, i)
	s.mu.Unlock()
	if p != nil {
		p.release <- f
	}
}

func (s *c17Session) cancel(i int) {
	if i < 0 || i >= s.n || s.canc[i] {
		return
	}
	s.canc[i] = true
	s.cancels[i]()
}

func (s *c17Session) advance(dt int64) {
	s.clk.lock.Lock()
	s.clk.t += dt
	s.clk.lock.Unlock()
}

func (s *c17Session) apply(ev Sx) bool {
	if ev.IsAtom || !c17Atom(ev.Nth(0), 0, 3) || !c17Atom(ev.Nth(1), 0, c17MaxTime) {
		return false
	}
	switch ev.Nth(0).Z {
	case 0:
		s.start(ev.Nth(1).Int())
	case 1:
		if !c17Atom(ev.Nth(2), 0, 16) {
			return false
		}
		s.release(ev.Nth(1).Int(), ev.Nth(2).Int())
	case 2:
		s.cancel(ev.Nth(1).Int())
	case 3:
		s.advance(ev.Nth(1).Z)
	}
	s.waitQuiet()
	return true
}

func (s *c17Session) statuses() Sx {
	s.mu.Lock()
	defer s.mu.Unlock()
	out := []Sx{}
	for i := 0; i < s.n; i++ {
		switch {
		case !s.started[i]:
			out = append(out, L(A(0)))
		case s.finished[i]:
			out = append(out, L(A(3), AI(s.codes[i])))
		case s.parked[i] != nil:
			p := s.parked[i]
			out = append(out, L(A(1), AI(p.bk), AI(p.op), LInts(p.ids)))
		default:
			out = append(out, L(A(2)))
		}
	}
	return L(out...)
}

func (s *c17Session) allDone() bool {
	s.mu.Lock()
	defer s.mu.Unlock()
	for i := 0; i < s.n; i++ {
		if s.started[i] && !s.finished[i] {
			return false
		}
	}
	return true
}

// summary is taken before close() unblocks whatever is still running.
func (s *c17Session) summary(rounds []Sx) Sx {
	s.count.mu.Lock()
	mk, ma := s.count.maxKey, s.count.maxAll
	s.count.mu.Unlock()
	s.mu.Lock()
	lg := append([]Sx(nil), s.log...)
	s.mu.Unlock()
	return L(L(rounds...), AI(mk), AI(ma), LInts(s.sink.contents()), L(lg...))
}

func (s *c17Session) close() {
	for i := 0; i < s.n; i++ {
		s.cancels[i]()
	}
	for k := 0; k < 1000 && !s.allDone() && !s.failed; k++ {
		s.waitQuiet()
		for i := 0; i < s.n; i++ {
			s.release(i, 14)
		}
	}
}

func (c17) execConc(in Sx) (Sx, bool) {
	if in.Len() != 6 || in.Nth(5).IsAtom {
		return Sx{}, false
	}
	s, ok := newC17Session(in)
	if !ok {
		return Sx{}, false
	}
	defer s.close()
	rounds := []Sx{}
	for _, ev := range in.Nth(5).List {
		if !s.apply(ev) {
			return Sx{}, false
		}
		rounds = append(rounds, s.statuses())
	}
	if s.failed {
		return L(A(-4)), true
	}
	return s.summary(rounds), true
}

// c17GenConc generates a schedule by running the implementation: the next
// event is drawn among those that apply to the live state.
func c17GenConc(r *Rand, tier string) Sx {
	n := 2 + r.Intn(4)
	nobj := 1 + r.Intn(4)
	var mode Sx
	switch x := r.Intn(100); {
	case x < 50:
		mode = L(A(0))
	case x < 75:
		mode = L(A(1), AI(1+r.Intn(3)))
	default:
		mode = L(A(2), AI(1+r.Intn(3)), AI(r.Pick([]int{0, 1, 2, 5, 1000})))
	}
	sets := []Sx{}
	for i := 0; i < n; i++ {
		k := r.Pick([]int{0, 1, 1, 1, 2, 2, 3})
		xs := []int{}
		for j := 0; j < k; j++ {
			xs = append(xs, r.Intn(nobj))
		}
		sets = append(sets, LInts(xs))
	}
	src, snk := []int{}, []int{}
	for i := 0; i < nobj; i++ {
		if r.Chance(85) {
			src = append(src, i)
		}
		if r.Chance(15) {
			snk = append(snk, i)
		}
	}
	header := L(A(2), mode, L(sets...), LInts(src), LInts(snk), L())
	s, ok := newC17Session(header)
	if !ok {
		return header
	}
	defer s.close()
	evs := c17GenEvents(r, s, n, mode.Nth(0).Z == 2, tier, 0)
	return L(A(2), mode, L(sets...), LInts(src), LInts(snk), L(evs...))
}

// c17GenEvents draws a schedule for the live session s: the next event is
// drawn among those that apply to the live state.  The last `late` callers are
// held back until every other started caller has returned (C17L: late
// arrivals that must find all permits free).
func c17GenEvents(r *Rand, s *c17Session, n int, queued bool, tier string, late int) []Sx {
	faultPct := r.Pick([]int{0, 10, 10, 25, 50})
	cancelPct := r.Pick([]int{0, 0, 5, 15})
	hold := -1
	if r.Chance(40) {
		hold = r.Intn(n)
	}
	eager := r.Chance(50)
	evs := []Sx{}
	maxEv := 40
	if tier == "thorough" {
		maxEv = 80
	}
	if late > 0 {
		maxEv += 4 * late
	}
	for len(evs) < maxEv {
		var unstarted, lateUnstarted, parked, live []int
		running := 0
		s.mu.Lock()
		for i := 0; i < n; i++ {
			if !s.started[i] {
				if i >= n-late {
					lateUnstarted = append(lateUnstarted, i)
				} else {
					unstarted = append(unstarted, i)
				}
			} else if !s.finished[i] {
				running++
				if !s.canc[i] {
					live = append(live, i)
				}
				if s.parked[i] != nil && (i != hold || r.Chance(10)) {
					parked = append(parked, i)
				}
			}
		}
		s.mu.Unlock()
		if len(unstarted) == 0 && running == 0 && len(lateUnstarted) > 0 {
			// everybody else has returned: the late callers arrive, all at once
			for _, i := range lateUnstarted {
				ev := L(A(0), AI(i))
				s.apply(ev)
				evs = append(evs, ev)
			}
			if s.failed {
				break
			}
			continue
		}
		var ev Sx
		switch {
		case len(unstarted) > 0 && (eager || len(parked) == 0 || r.Chance(30)):
			ev = L(A(0), AI(unstarted[r.Intn(len(unstarted))]))
		case len(live) > 0 && r.Chance(cancelPct):
			ev = L(A(2), AI(live[r.Intn(len(live))]))
		case queued && r.Chance(15):
			ev = L(A(3), AI(r.Pick([]int{1, 1, 2, 5, 6})))
		case len(parked) > 0:
			f := 0
			if r.Chance(faultPct) {
				f = r.Pick(c17FaultCodes)
			}
			ev = L(A(1), AI(parked[r.Intn(len(parked))]), AI(f))
		case hold >= 0:
			hold = -1
			continue
		default:
			if len(live) > 0 && r.Chance(50) {
				// everybody left is blocked inside the decorator
				ev = L(A(2), AI(live[r.Intn(len(live))]))
			}
		}
		if ev.List == nil {
			break
		}
		s.apply(ev)
		evs = append(evs, ev)
		if s.failed {
			break
		}
	}
	return evs
}

func c17ClassConc(in, obs Sx) (string, bool) {
	mode := []string{"dedup", "limit", "queued"}[in.Nth(1).Nth(0).Int()%3]
	n := in.Nth(2).Len()
	blocked := make([]bool, n)
	any, resumed, skipped, cancelled := false, false, false, false
	for _, rd := range obs.Nth(0).List {
		for i, st := range rd.List {
			if i >= n {
				break
			}
			switch st.Nth(0).Int() {
			case 2:
				blocked[i] = true
				any = true
			case 1:
				if blocked[i] {
					resumed = true // a waiter became leader / got the permit / got the token
				}
				blocked[i] = false
			case 3:
				if blocked[i] {
					if st.Nth(1).Int() == 0 {
						skipped = true // a waiter was told success without copying itself
					} else if st.Nth(1).Int() == 1 {
						cancelled = true
					}
				}
				blocked[i] = false
			}
		}
	}
	c := fmt.Sprintf("conc-%s/callers%d", mode, n)
	if any {
		c += "/contended"
	}
	if resumed {
		c += "+resumed"
	}
	if skipped {
		c += "+skipped"
	}
	if cancelled {
		c += "+cancelled"
	}
	return c, any
}
