package main

import (
	"context"
	"fmt"
	"strconv"
	"strings"

	remoteexecution "github.com/bazelbuild/remote-apis/build/bazel/remote/execution/v2"
	"github.com/buildbarn/bb-storage/pkg/blobstore"
	"github.com/buildbarn/bb-storage/pkg/blobstore/buffer"
	"github.com/buildbarn/bb-storage/pkg/blobstore/slicing"
	"github.com/buildbarn/bb-storage/pkg/digest"

	"google.golang.org/grpc/codes"
	"google.golang.org/grpc/status"
)

// C19 — instance-name routing.  Four kinds of cases (see coq/Run/R19.v):
//   (0 ops)               history on the real digest.InstanceNameTrie
//   (1 old new i blob)    the real digest.NewInstanceNamePatcher
//   (2 cfg backends ops)  blobstore.NewDemultiplexingBlobAccess, getter wired as new_blob_access.go does
//   (3 backend ops)       blobstore.NewHierarchicalInstanceNamesBlobAccess
// over recording in-memory backends.

func init() { props["C19"] = c19{} }

type c19 struct{}

// ---------------------------------------------------------------- digests

func c19Hash(blob int64) string { return fmt.Sprintf("%032x", uint64(blob)*2654435761+17) }

func c19Digest(inst string, blob int64) digest.Digest {
	return digest.MustNewDigest(inst, remoteexecution.DigestFunction_MD5, c19Hash(blob), blob)
}

// identity of a digest as the model sees it: (instance name bytes, blob id);
// a digest whose hash does not belong to its size decodes to blob -7.
func c19DgSx(d digest.Digest) Sx {
	blob := d.GetSizeBytes()
	if d.GetHashString() != c19Hash(blob) {
		blob = 999983
	}
	return L(LStr(d.GetInstanceName().String()), A(blob))
}

func c19Key(d digest.Digest) string {
	return d.GetInstanceName().String() + "|" + strconv.FormatInt(d.GetSizeBytes(), 10)
}

func c19Name(s Sx) (digest.InstanceName, bool) {
	if s.IsAtom {
		return digest.InstanceName{}, false
	}
	for _, x := range s.List {
		if !x.IsAtom || x.Z < 1 || x.Z > 255 {
			return digest.InstanceName{}, false
		}
	}
	in, err := digest.NewInstanceName(string(s.Bytes()))
	if err != nil {
		return digest.InstanceName{}, false
	}
	return in, true
}

// (inst blob) -> digest
func c19DgOf(s Sx) (digest.Digest, bool) {
	if s.Len() != 2 || !s.Nth(1).IsAtom {
		return digest.Digest{}, false
	}
	in, ok := c19Name(s.Nth(0))
	blob := s.Nth(1).Z
	if !ok || blob < 0 || blob > 1<<20 {
		return digest.Digest{}, false
	}
	return c19Digest(in.String(), blob), true
}

func c19DgsOf(s Sx) ([]digest.Digest, bool) {
	if s.IsAtom {
		return nil, false
	}
	out := make([]digest.Digest, 0, s.Len())
	for _, x := range s.List {
		d, ok := c19DgOf(x)
		if !ok {
			return nil, false
		}
		out = append(out, d)
	}
	return out, true
}

func c19SetOf(ds []digest.Digest) digest.Set {
	sb := digest.NewSetBuilder(0)
	for _, d := range ds {
		sb.Add(d)
	}
	return sb.Build()
}

func c19DgsSx(ds []digest.Digest) Sx {
	l := make([]Sx, 0, len(ds))
	for _, d := range ds {
		l = append(l, c19DgSx(d))
	}
	return L(l...)
}

func c19Code(err error) Sx {
	if err == nil {
		return A(0)
	}
	return AI(int(status.Code(err)))
}

// ---------------------------------------------------------------- backends

// backend of the demultiplexer: holds a set of digests, may be faulty.
type c19Backend struct {
	idx     int
	present map[string]bool
	fault   int
	calls   *[]Sx
	gotBuf  *bool
}

func (b *c19Backend) rec(kind int, ds ...digest.Digest) {
	*b.calls = append(*b.calls, L(AI(b.idx), AI(kind), c19DgsSx(ds)))
}
func (b *c19Backend) err() error { return status.Error(codes.Code(b.fault), "injected fault") }
func (b *c19Backend) data(d digest.Digest) buffer.Buffer {
	return buffer.NewValidatedBufferFromByteSlice([]byte(fmt.Sprintf("%d|%s|%d|%s", b.idx, d.GetInstanceName().String(), d.GetSizeBytes(), d.GetHashString())))
}
func (b *c19Backend) GetCapabilities(ctx context.Context, in digest.InstanceName) (*remoteexecution.ServerCapabilities, error) {
	return nil, status.Error(codes.Unimplemented, "n/a")
}
func (b *c19Backend) Get(ctx context.Context, d digest.Digest) buffer.Buffer {
	b.rec(0, d)
	if b.fault != 0 {
		return buffer.NewBufferFromError(b.err())
	}
	if b.present[c19Key(d)] {
		return b.data(d)
	}
	return buffer.NewBufferFromError(status.Error(codes.NotFound, "not here"))
}
func (b *c19Backend) GetFromComposite(ctx context.Context, p, c digest.Digest, s slicing.BlobSlicer) buffer.Buffer {
	b.rec(1, p, c)
	if b.fault != 0 {
		return buffer.NewBufferFromError(b.err())
	}
	if b.present[c19Key(p)] {
		return b.data(c)
	}
	return buffer.NewBufferFromError(status.Error(codes.NotFound, "not here"))
}
func (b *c19Backend) Put(ctx context.Context, d digest.Digest, buf buffer.Buffer) error {
	b.rec(2, d)
	*b.gotBuf = true
	buf.Discard()
	if b.fault != 0 {
		return b.err()
	}
	return nil
}
func (b *c19Backend) FindMissing(ctx context.Context, ds digest.Set) (digest.Set, error) {
	b.rec(3, ds.Items()...)
	if b.fault != 0 {
		return digest.EmptySet, b.err()
	}
	sb := digest.NewSetBuilder(0)
	for _, d := range ds.Items() {
		if !b.present[c19Key(d)] {
			sb.Add(d)
		}
	}
	return sb.Build(), nil
}

// data written by c19Backend.data -> (idx inst blob)
func c19ParseData(b []byte, withIdx bool) Sx {
	parts := strings.Split(string(b), "|")
	if withIdx {
		if len(parts) != 4 {
			return L(A(-8))
		}
		idx, _ := strconv.Atoi(parts[0])
		blob, _ := strconv.ParseInt(parts[2], 10, 64)
		if parts[3] != c19Hash(blob) {
			blob = 999983
		}
		return L(AI(idx), LStr(parts[1]), A(blob))
	}
	if len(parts) != 3 {
		return L(A(-8))
	}
	blob, _ := strconv.ParseInt(parts[1], 10, 64)
	if parts[2] != c19Hash(blob) {
		blob = 999983
	}
	return L(LStr(parts[0]), A(blob))
}

// backend below the hierarchical decorator.
type c19HBackend struct {
	present  map[string]bool
	errnames map[string]int
	fmfaults []int
	fmcount  int
	getCalls []Sx
	gfcCalls []Sx
	fmCalls  []Sx
}

func (b *c19HBackend) data(d digest.Digest) buffer.Buffer {
	return buffer.NewValidatedBufferFromByteSlice([]byte(fmt.Sprintf("%s|%d|%s", d.GetInstanceName().String(), d.GetSizeBytes(), d.GetHashString())))
}
func (b *c19HBackend) GetCapabilities(ctx context.Context, in digest.InstanceName) (*remoteexecution.ServerCapabilities, error) {
	return nil, status.Error(codes.Unimplemented, "n/a")
}
func (b *c19HBackend) answer(key, ret digest.Digest) buffer.Buffer {
	if c, ok := b.errnames[key.GetInstanceName().String()]; ok && c != 0 {
		return buffer.NewBufferFromError(status.Error(codes.Code(c), "injected fault"))
	}
	if b.present[c19Key(key)] {
		return b.data(ret)
	}
	return buffer.NewBufferFromError(status.Error(codes.NotFound, "not here"))
}
func (b *c19HBackend) Get(ctx context.Context, d digest.Digest) buffer.Buffer {
	b.getCalls = append(b.getCalls, c19DgSx(d))
	return b.answer(d, d)
}
func (b *c19HBackend) GetFromComposite(ctx context.Context, p, c digest.Digest, s slicing.BlobSlicer) buffer.Buffer {
	b.gfcCalls = append(b.gfcCalls, L(c19DgSx(p), c19DgSx(c)))
	return b.answer(p, c)
}
func (b *c19HBackend) Put(ctx context.Context, d digest.Digest, buf buffer.Buffer) error {
	buf.Discard()
	return status.Error(codes.Unimplemented, "n/a")
}
func (b *c19HBackend) FindMissing(ctx context.Context, ds digest.Set) (digest.Set, error) {
	k := b.fmcount
	b.fmcount++
	b.fmCalls = append(b.fmCalls, c19DgsSx(ds.Items()))
	if k < len(b.fmfaults) && b.fmfaults[k] != 0 {
		return digest.EmptySet, status.Error(codes.Code(b.fmfaults[k]), "injected fault")
	}
	sb := digest.NewSetBuilder(0)
	for _, d := range ds.Items() {
		if !b.present[c19Key(d)] {
			sb.Add(d)
		}
	}
	return sb.Build(), nil
}

func c19Present(s Sx) (map[string]bool, bool) {
	ds, ok := c19DgsOf(s)
	if !ok {
		return nil, false
	}
	m := map[string]bool{}
	for _, d := range ds {
		m[c19Key(d)] = true
	}
	return m, true
}

func c19CodeOK(c int64) bool { return c >= 0 && c <= 16 }

// ---------------------------------------------------------------- Exec

func c19Comps(s string) []string {
	if s == "" {
		return nil
	}
	return strings.Split(s, "/")
}
func c19IsPrefix(p, n []string) bool {
	if len(p) > len(n) {
		return false
	}
	for i := range p {
		if p[i] != n[i] {
			return false
		}
	}
	return true
}

func (c19) Exec(in Sx) (Sx, bool) {
	if in.IsAtom || in.Len() < 2 || !in.Nth(0).IsAtom {
		return Sx{}, false
	}
	switch in.Nth(0).Z {
	case 0:
		return c19ExecTrie(in)
	case 1:
		return c19ExecPatcher(in)
	case 2:
		return c19ExecDemux(in)
	case 3:
		return c19ExecHier(in)
	}
	return Sx{}, false
}

func c19ExecTrie(in Sx) (Sx, bool) {
	if in.Len() != 2 || in.Nth(1).IsAtom {
		return Sx{}, false
	}
	t := digest.NewInstanceNameTrie()
	reg := map[string]bool{} // names whose node certainly exists with a value
	out := []Sx{}
	for _, op := range in.Nth(1).List {
		if op.IsAtom || op.Len() < 2 || !op.Nth(0).IsAtom {
			return Sx{}, false
		}
		name, ok := c19Name(op.Nth(1))
		if !ok {
			return Sx{}, false
		}
		switch op.Nth(0).Z {
		case 0:
			if op.Len() != 3 || !op.Nth(2).IsAtom || op.Nth(2).Z < -5 || op.Nth(2).Z > 1<<20 {
				return Sx{}, false
			}
			t.Set(name, int(op.Nth(2).Z))
			if op.Nth(2).Z >= 0 {
				reg[name.String()] = true
			} else {
				delete(reg, name.String())
			}
			out = append(out, A(0))
		case 1:
			// Remove dereferences nil when the name's node does not exist; the
			// contract excludes that, so such a case is ill-formed.  The node
			// exists iff some registered name extends the name.
			exists := false
			for r := range reg {
				if c19IsPrefix(c19Comps(name.String()), c19Comps(r)) {
					exists = true
				}
			}
			if !exists && name.String() != "" {
				return Sx{}, false
			}
			out = append(out, AB(t.Remove(name)))
			delete(reg, name.String())
		case 2:
			out = append(out, AI(t.GetExact(name)))
		case 3:
			out = append(out, AI(t.GetLongestPrefix(name)))
		case 4:
			out = append(out, AB(t.ContainsPrefix(name)))
		case 5:
			out = append(out, AB(t.ContainsExact(name)))
		default:
			return Sx{}, false
		}
	}
	return L(out...), true
}

func c19ExecPatcher(in Sx) (Sx, bool) {
	if in.Len() != 5 || !in.Nth(4).IsAtom || in.Nth(4).Z < 0 || in.Nth(4).Z > 1<<20 {
		return Sx{}, false
	}
	oldP, ok1 := c19Name(in.Nth(1))
	newP, ok2 := c19Name(in.Nth(2))
	i, ok3 := c19Name(in.Nth(3))
	if !ok1 || !ok2 || !ok3 {
		return Sx{}, false
	}
	p := digest.NewInstanceNamePatcher(oldP, newP)
	d := c19Digest(i.String(), in.Nth(4).Z)
	pd := p.PatchDigest(d)
	ud := p.UnpatchDigest(pd)
	return L(LStr(p.PatchInstanceName(i).String()), c19DgSx(pd), c19DgSx(ud)), true
}

func c19ExecDemux(in Sx) (Sx, bool) {
	if in.Len() != 4 || in.Nth(1).IsAtom || in.Nth(2).IsAtom || in.Nth(3).IsAtom || in.Nth(1).Len() != in.Nth(2).Len() {
		return Sx{}, false
	}
	var calls []Sx
	gotBuf := false
	// As in pkg/blobstore/configuration/new_blob_access.go, case Demultiplexing.
	backendsTrie := digest.NewInstanceNameTrie()
	type demultiplexedBackendInfo struct {
		backend             blobstore.BlobAccess
		backendName         string
		instanceNamePatcher digest.InstanceNamePatcher
	}
	backends := make([]demultiplexedBackendInfo, 0, in.Nth(1).Len())
	for k, e := range in.Nth(1).List {
		if e.Len() != 2 {
			return Sx{}, false
		}
		matchInstanceNamePrefix, ok1 := c19Name(e.Nth(0))
		addInstanceNamePrefix, ok2 := c19Name(e.Nth(1))
		bs := in.Nth(2).Nth(k)
		if !ok1 || !ok2 || bs.Len() != 2 || !bs.Nth(1).IsAtom || !c19CodeOK(bs.Nth(1).Z) {
			return Sx{}, false
		}
		present, ok := c19Present(bs.Nth(0))
		if !ok {
			return Sx{}, false
		}
		backendsTrie.Set(matchInstanceNamePrefix, len(backends))
		backends = append(backends, demultiplexedBackendInfo{
			backend:             &c19Backend{idx: k, present: present, fault: int(bs.Nth(1).Z), calls: &calls, gotBuf: &gotBuf},
			backendName:         matchInstanceNamePrefix.String(),
			instanceNamePatcher: digest.NewInstanceNamePatcher(matchInstanceNamePrefix, addInstanceNamePrefix),
		})
	}
	ba := blobstore.NewDemultiplexingBlobAccess(
		func(i digest.InstanceName) (blobstore.BlobAccess, string, digest.InstanceNamePatcher, error) {
			idx := backendsTrie.GetLongestPrefix(i)
			if idx < 0 {
				return nil, "", digest.NoopInstanceNamePatcher, status.Errorf(codes.InvalidArgument, "Unknown instance name: %#v", i.String())
			}
			return backends[idx].backend, backends[idx].backendName, backends[idx].instanceNamePatcher, nil
		},
	)
	ctx := context.Background()
	out := []Sx{}
	for _, op := range in.Nth(3).List {
		if op.IsAtom || op.Len() < 2 || !op.Nth(0).IsAtom {
			return Sx{}, false
		}
		calls = nil
		gotBuf = false
		var code, data Sx
		switch op.Nth(0).Z {
		case 0:
			d, ok := c19DgOf(op.Nth(1))
			if !ok || op.Len() != 2 {
				return Sx{}, false
			}
			b, err := ba.Get(ctx, d).ToByteSlice(1000)
			code, data = c19Code(err), L()
			if err == nil {
				data = c19ParseData(b, true)
			}
		case 1:
			p, ok1 := c19DgOf(op.Nth(1))
			c, ok2 := c19DgOf(op.Nth(2))
			if !ok1 || !ok2 || op.Len() != 3 {
				return Sx{}, false
			}
			b, err := ba.GetFromComposite(ctx, p, c, nil).ToByteSlice(1000)
			code, data = c19Code(err), L()
			if err == nil {
				data = c19ParseData(b, true)
			}
		case 2:
			d, ok := c19DgOf(op.Nth(1))
			if !ok || op.Len() != 2 {
				return Sx{}, false
			}
			closed := 0
			buf := buffer.NewCASBufferFromReader(d, countingReadCloser{r: &emptyReader{}, closed: &closed}, buffer.UserProvided)
			err := ba.Put(ctx, d, buf)
			st := 3
			switch {
			case gotBuf && closed == 1:
				st = 1
			case !gotBuf && closed == 1:
				st = 2
			}
			code, data = c19Code(err), L(AI(st))
		case 3:
			ds, ok := c19DgsOf(op.Nth(1))
			if !ok || op.Len() != 2 {
				return Sx{}, false
			}
			missing, err := ba.FindMissing(ctx, c19SetOf(ds))
			code, data = c19Code(err), c19DgsSx(missing.Items())
		default:
			return Sx{}, false
		}
		out = append(out, L(code, data, L(calls...)))
	}
	return L(out...), true
}

func c19ExecHier(in Sx) (Sx, bool) {
	if in.Len() != 3 || in.Nth(1).Len() != 3 || in.Nth(2).IsAtom {
		return Sx{}, false
	}
	bs := in.Nth(1)
	present, ok := c19Present(bs.Nth(0))
	if !ok || bs.Nth(1).IsAtom || bs.Nth(2).IsAtom {
		return Sx{}, false
	}
	hb := &c19HBackend{present: present, errnames: map[string]int{}}
	for _, e := range bs.Nth(1).List {
		n, ok := c19Name(e.Nth(0))
		if !ok || e.Len() != 2 || !e.Nth(1).IsAtom || !c19CodeOK(e.Nth(1).Z) {
			return Sx{}, false
		}
		if _, dup := hb.errnames[n.String()]; !dup { // first entry wins, as in the model
			hb.errnames[n.String()] = int(e.Nth(1).Z)
		}
	}
	for _, f := range bs.Nth(2).List {
		if !f.IsAtom || !c19CodeOK(f.Z) {
			return Sx{}, false
		}
		hb.fmfaults = append(hb.fmfaults, int(f.Z))
	}
	ba := blobstore.NewHierarchicalInstanceNamesBlobAccess(hb)
	ctx := context.Background()
	out := []Sx{}
	for _, op := range in.Nth(2).List {
		if op.IsAtom || op.Len() < 2 || !op.Nth(0).IsAtom {
			return Sx{}, false
		}
		hb.getCalls, hb.gfcCalls, hb.fmCalls, hb.fmcount = nil, nil, nil, 0
		switch op.Nth(0).Z {
		case 0:
			d, ok := c19DgOf(op.Nth(1))
			if !ok || op.Len() != 2 {
				return Sx{}, false
			}
			b, err := ba.Get(ctx, d).ToByteSlice(1000)
			data := L()
			if err == nil {
				data = c19ParseData(b, false)
			}
			out = append(out, L(c19Code(err), data, L(hb.getCalls...)))
		case 1:
			// parent and child share the instance name (differing depths make the
			// code index out of range; excluded by contract).
			if op.Len() != 4 {
				return Sx{}, false
			}
			p, ok1 := c19DgOf(L(op.Nth(1), op.Nth(2)))
			c, ok2 := c19DgOf(L(op.Nth(1), op.Nth(3)))
			if !ok1 || !ok2 {
				return Sx{}, false
			}
			b, err := ba.GetFromComposite(ctx, p, c, nil).ToByteSlice(1000)
			data := L()
			if err == nil {
				data = c19ParseData(b, false)
			}
			out = append(out, L(c19Code(err), data, L(hb.gfcCalls...)))
		case 3:
			ds, ok := c19DgsOf(op.Nth(1))
			if !ok || op.Len() != 2 {
				return Sx{}, false
			}
			missing, err := ba.FindMissing(ctx, c19SetOf(ds))
			out = append(out, L(c19Code(err), c19DgsSx(missing.Items()), L(hb.fmCalls...)))
		default:
			return Sx{}, false
		}
	}
	return L(out...), true
}

// ---------------------------------------------------------------- Gen

// components chosen so that string prefixes that are not component prefixes
// abound: "a" / "ab" / "abc", "b" / "ba".
var c19Components = []string{"a", "ab", "b", "a", "ab", "c", "abc", "ba"}

func c19GenName(r *Rand, maxLen int) string {
	n := r.Intn(maxLen + 1)
	cs := make([]string, n)
	for i := range cs {
		cs[i] = c19Components[r.Intn(len(c19Components))]
	}
	return strings.Join(cs, "/")
}

func c19Join(a, b string) string {
	if a == "" {
		return b
	}
	if b == "" {
		return a
	}
	return a + "/" + b
}

// a name related to one of the pool: itself, an extension, a parent, a
// string-prefix lookalike ("a/b" -> "a/bc", "a/ab"), or a fresh one.
func c19Related(r *Rand, pool []string) string {
	if len(pool) == 0 {
		return c19GenName(r, 3)
	}
	p := pool[r.Intn(len(pool))]
	switch r.Intn(8) {
	case 0, 1:
		return p
	case 2, 3:
		return c19Join(p, c19GenName(r, 2))
	case 4:
		cs := c19Comps(p)
		if len(cs) > 0 {
			cs = cs[:r.Intn(len(cs))]
		}
		return strings.Join(cs, "/")
	case 5:
		// lookalike: last component lengthened
		if p == "" {
			return c19Components[r.Intn(len(c19Components))]
		}
		return p + []string{"b", "a", "c"}[r.Intn(3)]
	case 6:
		// lookalike extended
		if p == "" {
			return c19GenName(r, 2)
		}
		return c19Join(p+"b", c19GenName(r, 1))
	default:
		return c19GenName(r, 4)
	}
}

func c19GenPool(r *Rand, n int) []string {
	pool := []string{}
	for len(pool) < n {
		var s string
		if len(pool) > 0 && r.Chance(60) {
			s = c19Related(r, pool)
		} else {
			s = c19GenName(r, 3)
		}
		pool = append(pool, s)
	}
	return pool
}

func c19SxDg(inst string, blob int) Sx { return L(LStr(inst), AI(blob)) }

func (c19) Gen(r *Rand, i int, tier string) Sx {
	big := tier == "thorough"
	switch k := r.Intn(100); {
	case k < 30:
		return c19GenTrie(r, big)
	case k < 40:
		return c19GenPatcher(r)
	case k < 72:
		return c19GenDemux(r, big)
	default:
		return c19GenHier(r, big)
	}
}

func c19GenTrie(r *Rand, big bool) Sx {
	pool := c19GenPool(r, 2+r.Intn(5))
	nops := 6 + r.Intn(30)
	if big {
		nops += r.Intn(60)
	}
	hostile := r.Chance(4)
	reg := map[string]bool{}
	ops := []Sx{}
	for len(ops) < nops {
		switch k := r.Intn(100); {
		case k < 30:
			n := pool[r.Intn(len(pool))]
			if r.Chance(15) {
				n = c19Related(r, pool)
			}
			v := r.Intn(8)
			if hostile && r.Chance(20) {
				v = -1 - r.Intn(3)
			}
			ops = append(ops, L(A(0), LStr(n), AI(v)))
			if v >= 0 {
				reg[n] = true
			} else {
				delete(reg, n)
			}
		case k < 52:
			// Remove: a registered name, or (sometimes) an inner node without value
			cands := []string{}
			for n := range reg {
				cands = append(cands, n)
			}
			if len(cands) == 0 {
				if r.Chance(30) {
					ops = append(ops, L(A(1), LStr("")))
				}
				continue
			}
			// deterministic order of candidates
			for a := 0; a < len(cands); a++ {
				for b := a + 1; b < len(cands); b++ {
					if cands[b] < cands[a] {
						cands[a], cands[b] = cands[b], cands[a]
					}
				}
			}
			n := cands[r.Intn(len(cands))]
			if r.Chance(15) {
				cs := c19Comps(n)
				n = strings.Join(cs[:r.Intn(len(cs)+1)], "/")
			}
			ops = append(ops, L(A(1), LStr(n)))
			delete(reg, n)
		default:
			kind := []int{2, 3, 3, 3, 4, 4, 5}[r.Intn(7)]
			ops = append(ops, L(AI(kind), LStr(c19Related(r, pool))))
		}
	}
	return L(A(0), L(ops...))
}

func c19GenPatcher(r *Rand) Sx {
	oldP := c19GenName(r, 3)
	newP := c19GenName(r, 3)
	if r.Chance(10) {
		newP = oldP
	}
	if r.Chance(10) {
		newP = c19Join(oldP, c19GenName(r, 1))
	}
	i := c19Join(oldP, c19GenName(r, 3))
	if r.Chance(8) {
		i = c19GenName(r, 4) // outside the contract unless it happens to match
	}
	return L(A(1), LStr(oldP), LStr(newP), LStr(i), AI(r.Intn(5)))
}

func c19Owner(prefixes []string, name string) int {
	best, bestLen := -1, -1
	nc := c19Comps(name)
	for i, p := range prefixes {
		pc := c19Comps(p)
		if c19IsPrefix(pc, nc) && len(pc) >= bestLen {
			best, bestLen = i, len(pc)
		}
	}
	return best
}

func c19GenDemux(r *Rand, big bool) Sx {
	nb := 1 + r.Intn(5)
	pool := c19GenPool(r, nb)
	if r.Chance(40) {
		pool[r.Intn(nb)] = ""
	}
	if nb > 1 && r.Chance(5) {
		pool[0] = pool[1] // duplicate prefix: the later registration wins
	}
	newPs := make([]string, nb)
	cfg := []Sx{}
	for k := range pool {
		switch r.Intn(5) {
		case 0:
			newPs[k] = pool[k]
		case 1:
			newPs[k] = ""
		case 2:
			newPs[k] = c19Join(pool[k], c19GenName(r, 1))
		default:
			newPs[k] = c19GenName(r, 2)
		}
		cfg = append(cfg, L(LStr(pool[k]), LStr(newPs[k])))
	}
	// query names
	nq := 3 + r.Intn(6)
	qnames := make([]string, nq)
	for k := range qnames {
		qnames[k] = c19Related(r, pool)
	}
	nblobs := 1 + r.Intn(3)
	// what each backend holds: about half of the rewritten digests it owns,
	// plus decoys under the caller's (unrewritten) names and under other names.
	present := make([][]Sx, nb)
	for _, q := range qnames {
		o := c19Owner(pool, q)
		for b := 0; b < nblobs; b++ {
			if o >= 0 && r.Chance(50) {
				rest := c19Comps(q)[len(c19Comps(pool[o])):]
				present[o] = append(present[o], c19SxDg(c19Join(newPs[o], strings.Join(rest, "/")), b))
			}
			if r.Chance(12) {
				present[r.Intn(nb)] = append(present[r.Intn(nb)], c19SxDg(q, b))
			}
		}
	}
	bs := []Sx{}
	for k := 0; k < nb; k++ {
		fault := 0
		if r.Chance(10) {
			fault = []int{13, 14, 14, 5, 3}[r.Intn(5)]
		}
		bs = append(bs, L(L(present[k]...), AI(fault)))
	}
	nops := 2 + r.Intn(6)
	if big {
		nops += r.Intn(10)
	}
	pick := func() Sx { return c19SxDg(qnames[r.Intn(nq)], r.Intn(nblobs)) }
	ops := []Sx{}
	for len(ops) < nops {
		switch k := r.Intn(100); {
		case k < 25:
			ops = append(ops, L(A(0), pick()))
		case k < 35:
			p := pick()
			c := L(p.Nth(0), AI(r.Intn(nblobs)))
			if r.Chance(15) {
				c = pick()
			}
			ops = append(ops, L(A(1), p, c))
		case k < 50:
			ops = append(ops, L(A(2), pick()))
		default:
			nd := 1 + r.Intn(8)
			ds := []Sx{}
			for j := 0; j < nd; j++ {
				ds = append(ds, pick())
			}
			ops = append(ops, L(A(3), L(ds...)))
		}
	}
	return L(A(2), L(cfg...), L(bs...), L(ops...))
}

func c19GenHier(r *Rand, big bool) Sx {
	pool := c19GenPool(r, 2+r.Intn(4))
	for k := range pool {
		if r.Chance(50) {
			pool[k] = c19Join(pool[k], c19GenName(r, 2))
		}
	}
	nblobs := 1 + r.Intn(3)
	present := []Sx{}
	for _, q := range pool {
		cs := c19Comps(q)
		for b := 0; b < nblobs; b++ {
			switch r.Intn(4) {
			case 0: // nowhere
			case 1: // at exactly one ancestor
				present = append(present, c19SxDg(strings.Join(cs[:r.Intn(len(cs)+1)], "/"), b))
			default:
				for l := 0; l <= len(cs); l++ {
					if r.Chance(25) {
						present = append(present, c19SxDg(strings.Join(cs[:l], "/"), b))
					}
				}
			}
		}
		if r.Chance(10) { // lookalike holder: must never be consulted
			present = append(present, c19SxDg(q+"b", r.Intn(nblobs)))
		}
	}
	errnames := []Sx{}
	if r.Chance(15) {
		cs := c19Comps(pool[r.Intn(len(pool))])
		errnames = append(errnames, L(LStr(strings.Join(cs[:r.Intn(len(cs)+1)], "/")), AI([]int{13, 14, 7}[r.Intn(3)])))
	}
	fmfaults := []Sx{}
	if r.Chance(12) {
		for k := r.Intn(4); k > 0; k-- {
			fmfaults = append(fmfaults, A(0))
		}
		fmfaults = append(fmfaults, AI([]int{13, 14}[r.Intn(2)]))
	}
	nops := 2 + r.Intn(5)
	if big {
		nops += r.Intn(10)
	}
	pick := func() (string, int) {
		n := pool[r.Intn(len(pool))]
		if r.Chance(20) {
			n = c19Related(r, pool)
		}
		return n, r.Intn(nblobs)
	}
	ops := []Sx{}
	for len(ops) < nops {
		switch k := r.Intn(100); {
		case k < 35:
			n, b := pick()
			ops = append(ops, L(A(0), c19SxDg(n, b)))
		case k < 45:
			n, b := pick()
			ops = append(ops, L(A(1), LStr(n), AI(b), AI(r.Intn(nblobs))))
		default:
			nd := 1 + r.Intn(9)
			ds := []Sx{}
			for j := 0; j < nd; j++ {
				n, b := pick()
				ds = append(ds, c19SxDg(n, b))
			}
			ops = append(ops, L(A(3), L(ds...)))
		}
	}
	return L(A(3), L(L(present...), L(errnames...), L(fmfaults...)), L(ops...))
}

// ---------------------------------------------------------------- Class

func (c19) Class(in, obs Sx) (string, bool) {
	switch in.Nth(0).Z {
	case 0:
		sets, removes, emptied, glps := map[string]bool{}, 0, false, 0
		for k, op := range in.Nth(1).List {
			switch op.Nth(0).Z {
			case 0:
				sets[string(op.Nth(1).Bytes())] = true
			case 1:
				removes++
				if obs.Nth(k).Z == 1 {
					emptied = true
				}
			case 3:
				glps++
			}
		}
		c := "trie/"
		if removes > 0 {
			c += "remove"
		} else {
			c += "noremove"
		}
		if emptied {
			c += "/emptied"
		}
		return c, len(sets) >= 2 && removes > 0 && glps > 0
	case 1:
		o, n, i := string(in.Nth(1).Bytes()), string(in.Nth(2).Bytes()), string(in.Nth(3).Bytes())
		c := "patcher/"
		switch {
		case o == n:
			c += "noop"
		case !c19IsPrefix(c19Comps(o), c19Comps(i)):
			c += "outside-contract"
		case o == i:
			c += "exact"
		default:
			c += "with-rest"
		}
		return c, o != n
	case 2:
		multi, unknown, fault, rewritten := false, false, false, false
		for k, op := range in.Nth(3).List {
			ob := obs.Nth(k)
			if ob.Nth(2).Len() >= 2 {
				multi = true
			}
			if ob.Nth(0).Z == 3 && ob.Nth(2).Len() == 0 {
				unknown = true
			} else if ob.Nth(0).Z != 0 && ob.Nth(0).Z != 5 {
				fault = true
			}
			if ob.Nth(2).Len() >= 1 && op.Nth(0).Z != 3 {
				if string(ob.Nth(2).Nth(0).Nth(2).Nth(0).Nth(0).Bytes()) != string(op.Nth(1).Nth(0).Bytes()) {
					rewritten = true
				}
			}
		}
		c := "demux"
		if multi {
			c += "/multi-backend-fm"
		}
		if rewritten {
			c += "/rewritten"
		}
		if unknown {
			c += "/unknown-name"
		}
		if fault {
			c += "/fault"
		}
		return c, multi || rewritten
	case 3:
		deep, fault := false, false
		for k := range in.Nth(2).List {
			ob := obs.Nth(k)
			if ob.Nth(2).Len() >= 2 {
				deep = true
			}
			if ob.Nth(0).Z != 0 && ob.Nth(0).Z != 5 {
				fault = true
			}
		}
		c := "hier"
		if deep {
			c += "/fallback"
		}
		if fault {
			c += "/fault"
		}
		return c, deep
	}
	return "other", false
}
