package main

// C16N — sub-check of C16: NESTED error handling.  The replacement buffer an
// error handler returns is itself a stream-backed buffer with its own error
// handler (buffer.WithErrorHandler), to any depth: buffers are trees
//
//	tree   = plain buffer as in C16: (0 events) | (1 attach events) | (2 bytes) | (3 code)
//	       | (4 tree (answer...))        WithErrorHandler(tree, scripted handler)
//	answer = (0 tree) | (1 code)
//
// Input:  (srcK (fn hash size) tree method table object), see coq/Run/R16N.v.
// Observation: (delivered code (extra codes) (callback verdicts) aux otree) with
//
//	otree = (0 closes) | (1 (OnError codes) dones (otree...))
//
// the handlers' records as a tree: a handler's children are the buffer it was
// applied to and every replacement it has returned, in that order.
//
// A wrapped replacement is opened by the reader that asked for it at ITS
// delivered offset, so the error-handling reader of the replacement starts at
// an offset > 0 (newErrorHandlingChunkReader(b, h, off, max)); the position it
// passes on to its own replacements must keep counting from there.

import (
	"strconv"

	remoteexecution "github.com/bazelbuild/remote-apis/build/bazel/remote/execution/v2"
	"github.com/buildbarn/bb-storage/pkg/blobstore/buffer"
	"github.com/buildbarn/bb-storage/pkg/digest"

	"google.golang.org/grpc/codes"
	"google.golang.org/grpc/status"
)

func init() { props["C16N"] = c16n{} }

type c16n struct{}

const c16nMaxDepth = 10
const c16nMaxNodes = 64

type c16nAns struct {
	replace bool
	tree    *c16nTree
	code    int
}

type c16nTree struct {
	leaf    *c16Buf
	inner   *c16nTree
	answers []c16nAns
}

func c16nParseTree(s Sx, depth int, nodes *int) (*c16nTree, bool) {
	*nodes++
	if depth > c16nMaxDepth || *nodes > c16nMaxNodes || s.IsAtom || s.Len() < 2 || !s.Nth(0).IsAtom {
		return nil, false
	}
	if s.Nth(0).Z != 4 {
		b, ok := c16ParseBuf(s, depth > 0)
		if !ok {
			return nil, false
		}
		return &c16nTree{leaf: &b}, true
	}
	if s.Len() != 3 || s.Nth(2).IsAtom {
		return nil, false
	}
	inner, ok := c16nParseTree(s.Nth(1), depth+1, nodes)
	if !ok {
		return nil, false
	}
	// The trees of this sub-check wrap stream-backed buffers only (a handler
	// applied to a byte slice / error buffer is consulted at once and no
	// wrapper exists: C16's with_error_handler).
	if inner.leaf != nil && inner.leaf.kind > 1 {
		return nil, false
	}
	t := &c16nTree{inner: inner}
	for _, a := range s.Nth(2).List {
		if a.IsAtom || a.Len() != 2 || !a.Nth(0).IsAtom {
			return nil, false
		}
		switch a.Nth(0).Z {
		case 0:
			sub, ok := c16nParseTree(a.Nth(1), depth+1, nodes)
			if !ok {
				return nil, false
			}
			t.answers = append(t.answers, c16nAns{replace: true, tree: sub})
		case 1:
			if !a.Nth(1).IsAtom || a.Nth(1).Z < 1 || a.Nth(1).Z > 16 {
				return nil, false
			}
			t.answers = append(t.answers, c16nAns{code: a.Nth(1).Int()})
		default:
			return nil, false
		}
	}
	return t, true
}

// c16nStream mirrors the unvalidated stream of a tree opened at offset k:
// bytes and terminator (0 = EOF, else code).
func c16nStream(t *c16nTree, k int) ([]byte, int) {
	if t.leaf != nil {
		p, term := c16Piece(*t.leaf, k)
		return append([]byte{}, p...), term
	}
	p, term := c16nStream(t.inner, k)
	for i := 0; term != 0; i++ {
		if i >= len(t.answers) {
			term = 10
			break
		}
		a := t.answers[i]
		if !a.replace {
			term = a.code
			break
		}
		var q []byte
		q, term = c16nStream(a.tree, k+len(p))
		p = append(p, q...)
	}
	return p, term
}

func c16nLeaves(t *c16nTree, f func(b c16Buf)) {
	if t.leaf != nil {
		f(*t.leaf)
		return
	}
	c16nLeaves(t.inner, f)
	for _, a := range t.answers {
		if a.replace {
			c16nLeaves(a.tree, f)
		}
	}
}

func c16nNeed(t *c16nTree, size int64, object []byte) [][]byte {
	need := [][]byte{object, c09Prefix(object, size)}
	c16nLeaves(t, func(b c16Buf) {
		c, _ := b.ucontent()
		need = append(need, c, c09Prefix(c, size))
	})
	s, _ := c16nStream(t, 0)
	return append(need, s, c09Prefix(s, size))
}

// ---- execution ----

type c16nObs struct {
	closes func() int
	h      *c16nHandler
	kids   []*c16nObs
}

func (o *c16nObs) sx() Sx {
	if o.h == nil {
		return L(A(0), AI(o.closes()))
	}
	kids := []Sx{}
	for _, k := range o.kids {
		kids = append(kids, k.sx())
	}
	return L(A(1), LInts(o.h.onErr), AI(o.h.done), L(kids...))
}

type c16nEnv struct {
	dg     digest.Digest
	source buffer.Source
}

type c16nHandler struct {
	answers []c16nAns
	pos     int
	onErr   []int
	done    int
	env     *c16nEnv
	obs     *c16nObs
}

func (h *c16nHandler) OnError(err error) (buffer.Buffer, error) {
	h.onErr = append(h.onErr, c09Code(err))
	if h.pos >= len(h.answers) {
		return nil, status.Error(codes.Aborted, "handler has no more answers")
	}
	a := h.answers[h.pos]
	h.pos++
	if a.replace {
		b, o := h.env.build(a.tree)
		h.obs.kids = append(h.obs.kids, o)
		return b, nil
	}
	return nil, status.Error(codes.Code(a.code), "handler error")
}
func (h *c16nHandler) Done() { h.done++ }

func (env *c16nEnv) build(t *c16nTree) (buffer.Buffer, *c16nObs) {
	if t.leaf != nil {
		closes := []func() int{}
		b := c16Make(*t.leaf, env.dg, env.source, &closes)
		o := &c16nObs{closes: func() int { return 0 }}
		if len(closes) == 1 {
			o.closes = closes[0]
		}
		return b, o
	}
	inner, io := env.build(t.inner)
	h := &c16nHandler{answers: t.answers, env: env, onErr: []int{}}
	h.obs = &c16nObs{h: h, kids: []*c16nObs{io}}
	return buffer.WithErrorHandler(inner, h), h.obs
}

func (c16n) Exec(in Sx) (Sx, bool) {
	if in.IsAtom || in.Len() != 6 {
		return Sx{}, false
	}
	srcK := in.Nth(0)
	if !srcK.IsAtom || srcK.Z < 0 || srcK.Z > 1 {
		return Sx{}, false
	}
	dg, ok := c09Digest(in.Nth(1))
	if !ok {
		return Sx{}, false
	}
	nodes := 0
	t, ok := c16nParseTree(in.Nth(2), 0, &nodes)
	if !ok || !c09CheckMethod(in.Nth(3)) || !c09CheckTable(in.Nth(4)) || !c09IsBytes(in.Nth(5)) {
		return Sx{}, false
	}
	if in.Nth(3).Nth(0).Z == 5 {
		return Sx{}, false // CloneCopy: C16's business
	}
	fn := remoteexecution.DigestFunction_Value(in.Nth(1).Nth(0).Int())
	size := in.Nth(1).Nth(2).Z
	if !c09TableCovers(in.Nth(4), fn, size, c16nNeed(t, size, in.Nth(5).Bytes())...) {
		return Sx{}, false
	}
	cbs := []Sx{}
	source := buffer.UserProvided
	if srcK.Z == 1 {
		source = buffer.BackendProvided(func(valid bool) { cbs = append(cbs, AB(valid)) })
	}
	env := &c16nEnv{dg: dg, source: source}
	b, obs := env.build(t)
	o := c09Consume(b, in.Nth(3))
	return L(LBytes(o.data), AI(o.code), LInts(o.extra), L(cbs...), LBytes(o.aux), obs.sx()), true
}

// ---- generation ----

type c16nGen struct {
	r      *Rand
	good   []byte
	budget int // plain buffers left
	alter  bool
}

func (g *c16nGen) content() []byte {
	c := append([]byte{}, g.good...)
	if !g.alter || !g.r.Chance(30) {
		return c
	}
	switch g.r.Intn(4) {
	case 0:
		if len(c) > 0 {
			c = c[:g.r.Intn(len(c))]
		}
	case 1:
		c = append(c, c09RandBytes(g.r, 1+g.r.Intn(3))...)
	case 2:
		if len(c) > 0 {
			c[g.r.Intn(len(c))] ^= 1
		}
	default:
		c = c09RandBytes(g.r, g.r.Intn(len(g.good)+2))
	}
	return c
}

// leaf: a plain buffer carrying the content; streamOnly: chunk reader / reader.
func (g *c16nGen) leaf(fail, streamOnly bool) Sx {
	g.budget--
	for {
		b := c16GenBuf(g.r, g.content(), fail, true)
		k := b.Nth(0).Int()
		if streamOnly && k > 1 {
			continue
		}
		if k == 2 && !g.alter {
			return L(A(2), LBytes(g.good))
		}
		return b
	}
}

// tree: fail = the buffer is to end in an I/O error towards whoever holds it
// (a plain buffer with an injected error, or a wrapped buffer whose handler
// gives up); wrapP = percentage for wrapping at this level.
func (g *c16nGen) tree(depth int, fail, streamOnly bool, wrapP int) Sx {
	if depth >= 4 || g.budget <= 1 || !g.r.Chance(wrapP) {
		return g.leaf(fail, streamOnly)
	}
	// WithErrorHandler(inner, h): the inner buffer fails 0-3 times in a row
	// (each replacement but the last fails again), then the handler either
	// has supplied a buffer that does not fail, or gives up.
	failures := g.r.Pick([]int{0, 1, 1, 1, 2, 2, 3})
	if fail && failures == 0 {
		failures = 1
	}
	inner := g.tree(depth+1, failures > 0, true, wrapP/2)
	answers := []Sx{}
	for k := 1; k <= failures; k++ {
		last := k == failures
		if last && fail {
			if !g.r.Chance(20) {
				answers = append(answers, L(A(1), AI(g.r.Pick(c09Codes))))
			} // else: the handler has no answer left
			break
		}
		if g.budget <= 0 {
			answers = append(answers, L(A(1), AI(g.r.Pick(c09Codes))))
			break
		}
		// a replacement: wrapped again with high probability (the nesting under test)
		answers = append(answers, L(A(0), g.tree(depth+1, !last, false, 70)))
	}
	switch g.r.Intn(14) {
	case 0:
		answers = append(answers, L(A(1), AI(g.r.Pick(c09Codes)))) // superfluous answer
	case 1:
		if g.budget > 0 {
			answers = append(answers, L(A(0), g.leaf(false, false)))
		}
	}
	return L(A(4), inner, L(answers...))
}

func c16nMethod(r *Rand, size int) Sx {
	for {
		m := c09GenMethod(r, size)
		k := m.Nth(0).Int()
		if k == 5 || ((k == 0) && m.Nth(1).Z < 0) {
			continue
		}
		if (k == 0 || k == 2 || k == 6) && r.Chance(60) {
			continue // the streaming methods are where the readers nest
		}
		if k == 4 && r.Chance(40) {
			continue // IntoWriter / ToChunkReader: the chunk readers
		}
		return m
	}
}

func (c16n) Gen(r *Rand, i int, tier string) Sx {
	fn := c09Functions[r.Intn(len(c09Functions))]
	n := r.Pick([]int{1, 2, 3, 4, 5, 6, 8, 9, 12, 16, 17, 24, 24, 0})
	good := c09RandBytes(r, n)
	size := int64(n)
	hash, _ := c09Hash(fn, size, good)
	hostile := r.Chance(12)
	g := &c16nGen{r: r, good: good, budget: 3 + r.Intn(6), alter: hostile && r.Bool()}
	if hostile && !g.alter {
		switch r.Intn(2) {
		case 0:
			size = int64(r.Pick([]int{0, n + 1, n - 1, n / 2}))
			if size < 0 {
				size = 0
			}
			hash, _ = c09Hash(fn, size, good)
		case 1:
			hash[r.Intn(len(hash))] ^= 4
		}
	}
	var tree Sx
	switch {
	case r.Chance(45):
		// the directed shape: the original fails after f1 bytes; the replacement is a
		// wrapped stream that fails after f2 further bytes; its handler supplies the
		// second-level replacement (possibly wrapped and failing again)
		tree = c16nDirected(g)
	default:
		tree = g.tree(0, r.Chance(15), true, 100)
		if tree.Nth(0).Z != 4 {
			tree = L(A(4), tree, L())
		}
	}
	m := c16nMethod(r, int(size))
	nodes := 0
	t, ok := c16nParseTree(tree, 0, &nodes)
	if !ok {
		// cannot happen for generated trees; keep the case well-formed
		tree = L(A(4), L(A(0), L(L(A(0), LBytes(good)))), L())
		t, _ = c16nParseTree(tree, 0, &nodes)
	}
	contents := append([][]byte{good}, c16nNeed(t, size, good)...)
	return L(AI(r.Pick([]int{0, 1, 1})), L(AI(int(fn)), LBytes(hash), A(size)), tree, m,
		c09Table(fn, size, contents...), LBytes(good))
}

// c16nFailingStream: a chunk-reader or reader buffer carrying good[:] cut into
// random chunks with an I/O error after exactly `at` bytes (at <= len(good)).
func c16nFailingStream(g *c16nGen, at int) Sx {
	g.budget--
	r := g.r
	events := []Sx{}
	for _, c := range c09Split(r, g.good[:at]) {
		events = append(events, L(A(0), LBytes(c)))
	}
	events = append(events, L(A(1), AI(r.Pick(c09Codes))))
	if r.Chance(50) {
		// what follows the error in the script is never read
		for _, c := range c09Split(r, g.good[at:]) {
			events = append(events, L(A(0), LBytes(c)))
		}
	}
	if r.Bool() {
		return L(A(0), L(events...))
	}
	return L(A(1), A(0), L(events...))
}

func c16nDirected(g *c16nGen) Sx {
	r := g.r
	n := len(g.good)
	pos := func(lo int) int { // a failure position in [lo, n], mostly strictly inside
		if lo >= n {
			return n
		}
		return lo + r.Intn(n-lo+1)
	}
	f1 := pos(0)
	if f1 == 0 && n > 0 && r.Chance(80) {
		f1 = 1 + r.Intn(n)
	}
	f2 := pos(f1)
	if f2 == f1 && r.Chance(70) {
		f2 = pos(f1)
	}
	// second-level replacement: plain, or wrapped and failing once more
	var second Sx
	if r.Chance(35) {
		f3 := pos(f2)
		second = L(A(4), c16nFailingStream(g, f3), L(L(A(0), g.leaf(false, false))))
	} else {
		second = g.leaf(false, false)
	}
	h2 := []Sx{L(A(0), second)}
	if r.Chance(10) {
		h2 = []Sx{L(A(1), AI(r.Pick(c09Codes)))}
	}
	repl := L(A(4), c16nFailingStream(g, f2), L(h2...))
	if r.Chance(20) {
		// one more wrapper without answers of its own around the replacement (a metrics decorator)
		repl = L(A(4), repl, L())
	}
	h1 := []Sx{L(A(0), repl)}
	if r.Chance(15) {
		// the outer handler is asked again when the nested handler gives up
		h1 = append(h1, L(A(0), g.leaf(false, false)))
	}
	tree := L(A(4), c16nFailingStream(g, f1), L(h1...))
	if r.Chance(15) {
		tree = L(A(4), tree, L(L(A(0), g.leaf(false, false))))
	}
	return tree
}

// c16nReach: 0 no handler asked; 1 only handlers around the original buffer asked;
// 2 the handler of a REPLACEMENT was asked; 3 ... and it supplied a replacement
// (an error-handling reader opened at the delivered offset resumed).
func c16nReach(o Sx, isRepl bool) int {
	if o.IsAtom || o.Len() != 4 || o.Nth(0).Z != 1 {
		return 0
	}
	best := 0
	if o.Nth(1).Len() > 0 {
		best = 1
		if isRepl {
			best = 2
			if o.Nth(3).Len() > 1 {
				best = 3
			}
		}
	}
	for i, k := range o.Nth(3).List {
		if v := c16nReach(k, isRepl || i > 0); v > best {
			best = v
		}
	}
	return best
}

func (c16n) Class(in, obs Sx) (string, bool) {
	meth := []string{"ToByteSlice", "IntoWriter", "ReadAt", "ToChunkReader", "ToReader", "CloneCopy", "Discard"}[in.Nth(3).Nth(0).Int()%7]
	code := obs.Nth(1).Int()
	out := "code" + strconv.Itoa(code)
	switch code {
	case 0:
		out = "ok"
	case -1:
		out = "eof"
	}
	reach := c16nReach(obs.Nth(5), false)
	return meth + "/" + out + "/reach" + strconv.Itoa(reach), reach >= 1
}
