package main

// C02 — after a crash and restart no object is served with wrong bytes.
//
// The persistent local store is assembled exactly like
// pkg/blobstore/configuration/new_blob_access.go does (block-device backed
// allocator, PersistentBlockList restored from the state file, old/current/new
// map with the restored block count, block-device backed record array,
// hashing key-location map seeded from the state file, flat blob access,
// PeriodicSyncer with DataSyncer = the data device's Sync and the real
// directory-backed state store) over three crash-able media simulated here:
// a data device, an index device and a state directory.  All three append
// every operation to ONE global I/O log.  A case is a configuration, a
// workload schedule and a list of crash experiments: (log prefix, which
// pending data sector writes / index record writes / directory operations
// survive); for each the three media are rebuilt from the prefix and the
// choice, a NEW store is constructed on them, every key ever uploaded is
// probed (FindMissing + Get), a further schedule runs, everything is re-read,
// and experiments nest (crash again during/after recovery).
//
// Format (see coq/Run/R02.v):
//   case = (0 cfg keys gen) | (1 ...)  resolution differential, see c02Diff
//   cfg  = (sector spb old cur new spare nrec maxget maxput interval validate)
//   keys = ((size_ver0 size_ver1 ...) ...)
//   gen  = (ops exps)
//   op   = (1 key ver) | (2 tid key ver) | (3 tid n) | (4 tid code) | (5 key) | (6 (key ...))
//        | (7 d) | (8 who) | (9 ok) | (10 k fail)
//   exp  = (j koff (dmode darg) (imode iarg) dirk garb gen)

import (
	"bytes"
	"context"
	"crypto/sha256"
	"encoding/binary"
	"encoding/hex"
	"fmt"
	"io"
	"log"
	"os"
	"runtime"
	"sort"
	"strconv"
	"strings"
	"sync"
	"time"
	"unsafe"

	remoteexecution "github.com/bazelbuild/remote-apis/build/bazel/remote/execution/v2"
	"github.com/buildbarn/bb-storage/pkg/blobstore"
	"github.com/buildbarn/bb-storage/pkg/blobstore/buffer"
	"github.com/buildbarn/bb-storage/pkg/blobstore/local"
	"github.com/buildbarn/bb-storage/pkg/capabilities"
	"github.com/buildbarn/bb-storage/pkg/clock"
	"github.com/buildbarn/bb-storage/pkg/digest"
	"github.com/buildbarn/bb-storage/pkg/filesystem"
	"github.com/buildbarn/bb-storage/pkg/filesystem/path"
	pb "github.com/buildbarn/bb-storage/pkg/proto/blobstore/local"
	"github.com/fxtlabs/primes"

	"google.golang.org/grpc/codes"
	"google.golang.org/grpc/status"
	"google.golang.org/protobuf/proto"
)

func init() { props["C02"] = c02{} }

type c02 struct{}

var c02Base = time.Unix(200000, 0)

// errorRetryInterval in virtual time units (new_blob_access.go passes 10 s)
const c02Retry = 7

// ---------------------------------------------------------------------------
// the global I/O log and the media
// ---------------------------------------------------------------------------

const (
	c02IoData = iota + 1
	c02IoSyncBegin
	c02IoSyncEnd
	c02IoIndex
	c02IoRemove
	c02IoCreate
	c02IoWrite
	c02IoFsync
	c02IoRename
	c02IoDirSync
)

type c02Io struct {
	kind  int
	off   int64  // data: device offset of the sector; index: slot
	data  []byte // data: sector bytes; index: 66 record bytes; write: file bytes
	ok    bool
	wseed uint64 // index: the hash seed the code used for this record
	wok   bool
}

type c02Media struct {
	data  []byte
	index []byte
	state []byte // nil = absent
	snew  []byte // nil = absent
}

func (m *c02Media) clone() *c02Media {
	c := &c02Media{data: append([]byte(nil), m.data...), index: append([]byte(nil), m.index...)}
	if m.state != nil {
		c.state = append([]byte{}, m.state...)
	}
	if m.snew != nil {
		c.snew = append([]byte{}, m.snew...)
	}
	return c
}

// c02World = the media a life started from + the log of that life.
type c02World struct {
	mu     sync.Mutex
	sector int
	base   *c02Media
	log    []c02Io
	// volatile views
	data  []byte
	index []byte
	files []*c02File
	vnew  int // file id or -1
	vst   int
}

type c02File struct {
	content []byte
	synced  bool
}

func newC02World(sector int, base *c02Media) *c02World {
	w := &c02World{sector: sector, base: base, vnew: -1, vst: -1}
	w.data = append([]byte(nil), base.data...)
	w.index = append([]byte(nil), base.index...)
	if base.state != nil {
		w.files = append(w.files, &c02File{content: base.state, synced: true})
		w.vst = 0
	}
	if base.snew != nil {
		w.files = append(w.files, &c02File{content: base.snew, synced: true})
		w.vnew = len(w.files) - 1
	}
	return w
}

// ---- crash: media from a log prefix and a loss choice ----

type c02Choice struct {
	dmode, darg int
	imode, iarg int
	dirk, garb  int
}

func c02Flags(mode, arg, n int) []bool {
	f := make([]bool, n)
	r := NewRand(uint64(arg)*2654435761 + 12345)
	for i := range f {
		switch mode {
		case 0:
			f[i] = true
		case 1:
			f[i] = false
		case 2:
			f[i] = r.Bool()
		case 3: // lose only the last arg
			f[i] = i < n-arg
		case 4: // keep only the last arg
			f[i] = i >= n-arg
		case 5:
			f[i] = r.Intn(4) != 0
		case 6:
			f[i] = r.Intn(4) == 0
		case 7: // lose exactly one: index arg
			f[i] = i != arg%maxInt(n, 1)
		default:
			f[i] = true
		}
	}
	return f
}

func maxInt(a, b int) int {
	if a > b {
		return a
	}
	return b
}

type c02CrashInfo struct {
	n          int
	dataFlags  []bool
	indexFlags []bool
	dirPending int
}

func (w *c02World) crash(n int, ch c02Choice) (*c02Media, c02CrashInfo) {
	if n > len(w.log) {
		n = len(w.log)
	}
	prefix := w.log[:n]
	m := w.base.clone()
	// data: durable frontier
	dur, beg := 0, -1
	for i, e := range prefix {
		switch e.kind {
		case c02IoSyncBegin:
			beg = i
		case c02IoSyncEnd:
			if e.ok && beg >= 0 {
				dur = beg
			}
			beg = -1
		}
	}
	npend := 0
	for i, e := range prefix {
		if e.kind == c02IoData && i >= dur {
			npend++
		}
	}
	info := c02CrashInfo{n: n}
	info.dataFlags = c02Flags(ch.dmode, ch.darg, npend)
	k := 0
	for i, e := range prefix {
		if e.kind != c02IoData {
			continue
		}
		keep := true
		if i >= dur {
			keep = info.dataFlags[k]
			k++
		}
		if keep {
			copy(m.data[e.off:], e.data)
		}
	}
	// index
	nidx := 0
	for _, e := range prefix {
		if e.kind == c02IoIndex {
			nidx++
		}
	}
	info.indexFlags = c02Flags(ch.imode, ch.iarg, nidx)
	k = 0
	for _, e := range prefix {
		if e.kind == c02IoIndex {
			if info.indexFlags[k] {
				copy(m.index[e.off*local.BlockDeviceBackedLocationRecordSize:], e.data)
			}
			k++
		}
	}
	// directory (mirrors Persist/Crash.v dir_step / dir_crash)
	type fileT struct {
		content []byte
		written bool
		synced  bool
	}
	files := []*fileT{}
	vnew, vst := -1, -1
	if w.base.state != nil {
		files = append(files, &fileT{content: w.base.state, written: true, synced: true})
		vst = 0
	}
	if w.base.snew != nil {
		files = append(files, &fileT{content: w.base.snew, written: true, synced: true})
		vnew = len(files) - 1
	}
	dnew, dst := vnew, vst
	type nsop struct{ kind, f int }
	pend := []nsop{}
	for _, e := range prefix {
		switch e.kind {
		case c02IoRemove:
			vnew = -1
			pend = append(pend, nsop{0, 0})
		case c02IoCreate:
			files = append(files, &fileT{})
			vnew = len(files) - 1
			pend = append(pend, nsop{1, vnew})
		case c02IoWrite:
			if vnew >= 0 {
				files[vnew] = &fileT{content: e.data, written: true}
			}
		case c02IoFsync:
			if vnew >= 0 {
				files[vnew].synced = true
			}
		case c02IoRename:
			if vnew >= 0 {
				vst = vnew
				vnew = -1
				pend = append(pend, nsop{2, 0})
			}
		case c02IoDirSync:
			dnew, dst = vnew, vst
			pend = pend[:0]
		}
	}
	info.dirPending = len(pend)
	cn, cs := dnew, dst
	for i, o := range pend {
		if i >= ch.dirk {
			break
		}
		switch o.kind {
		case 0:
			cn = -1
		case 1:
			cn = o.f
		case 2:
			if cn >= 0 {
				cs = cn
				cn = -1
			}
		}
	}
	content := func(f int) []byte {
		fl := files[f]
		written := func(x *fileT) []byte {
			if x.written {
				return append([]byte{}, x.content...)
			}
			return []byte{}
		}
		if fl.synced {
			return written(fl)
		}
		switch {
		case ch.garb == 0:
			return written(fl)
		case ch.garb == 1:
			return []byte{}
		default:
			j := ch.garb - 2
			if j < f && j < len(files) {
				return written(files[j])
			}
			return written(fl)
		}
	}
	m.state, m.snew = nil, nil
	if cs >= 0 {
		m.state = content(cs)
	}
	if cn >= 0 {
		m.snew = content(cn)
	}
	return m, info
}

// ---------------------------------------------------------------------------
// the store
// ---------------------------------------------------------------------------

type c02Cfg struct {
	sector, spb, old, cur, nw, spare, nrec, maxGet, maxPut int
	interval                                                int64
	validate                                                bool
	sizes                                                   [][]int
}

func (c *c02Cfg) bs() int      { return c.sector * c.spb }
func (c *c02Cfg) nblocks() int { return c.old + c.cur + c.nw + c.spare }

type c02Gate struct {
	kind int // 0 DataSyncer, 1 directory operation
	who  int
	ch   chan int // 0 proceed, 1 fail, 2 terminate
}

type c02Timer struct {
	who      int
	deadline int64
	ch       chan time.Time
}

type c02Upload struct {
	src    *c02Src
	done   chan error
	key    int
	ver    int
}

type c02Store struct {
	cfg *c02Cfg
	w   *c02World

	mu     sync.Mutex
	lock   sync.RWMutex // the store's global lock
	now    int64
	gates  []*c02Gate
	timers []*c02Timer
	dead   bool
	goid   [2]int64
	panicd bool

	bl       *local.PersistentBlockList
	lbm      *local.OldCurrentNewLocationBlobMap
	lra      local.LocationRecordArray
	klm      local.KeyLocationMap
	ba       blobstore.BlobAccess
	cancel   context.CancelFunc
	uploads  map[int]*c02Upload
	restored Sx
	keyOf    map[local.Key]int
	digests  []digest.Digest
	sync     bool // wait for quiescence after every operation

	evmu       sync.Mutex
	events     []Sx
	lastLoc    int
	lastLocVal [2]int64
	rec        *c02Rec
}


// ---------------------------------------------------------------------------
// transparent recording wrapper around the real PersistentBlockList: every
// BlockList / PersistentStateSource call is delegated unchanged and appended
// to the PBL-level event history of the life (judged against Persist/PBL.v)
// ---------------------------------------------------------------------------

type c02Rec struct {
	s    *c02Store
	bl   *local.PersistentBlockList
	nput int
}

func (r *c02Rec) ev(e Sx) {
	r.s.evmu.Lock()
	r.s.events = append(r.s.events, e)
	r.s.evmu.Unlock()
}

func (r *c02Rec) BlockReferenceToBlockIndex(ref local.BlockReference) (int, uint64, bool) {
	return r.bl.BlockReferenceToBlockIndex(ref)
}
func (r *c02Rec) BlockIndexToBlockReference(i int) (local.BlockReference, uint64) {
	return r.bl.BlockIndexToBlockReference(i)
}
func (r *c02Rec) PopFront() {
	r.bl.PopFront()
	r.ev(L(A(2)))
}
func (r *c02Rec) PushBack() error {
	n0 := r.s.lastLoc
	err := r.bl.PushBack()
	if err != nil {
		r.ev(L(A(1), A(0), A(0), A(0)))
		return err
	}
	loc := r.s.allocLoc(n0)
	r.ev(L(A(1), A(1), A(loc[0]), A(loc[1])))
	return nil
}
func (r *c02Rec) Get(i int, d digest.Digest, off, size int64, cb buffer.DataIntegrityCallback) buffer.Buffer {
	return r.bl.Get(i, d, off, size, cb)
}
func (r *c02Rec) HasSpace(i int, size int64) bool { return r.bl.HasSpace(i, size) }
func (r *c02Rec) Put(i int, size int64) local.BlockListPutWriter {
	w := r.bl.Put(i, size)
	k := r.nput
	r.nput++
	r.ev(L(A(3), AI(i), A(size)))
	return func(b buffer.Buffer) local.BlockListPutFinalizer {
		f := w(b)
		return func() (int64, error) {
			off, err := f()
			seed := uint64(0)
			if err == nil {
				_, seed = r.bl.BlockIndexToBlockReference(0)
			}
			r.ev(L(A(4), AI(k), AI(c02Code(err)), A(off), AU(seed)))
			return off, err
		}
	}
}
func (r *c02Rec) GetBlockReleaseWakeup() <-chan struct{} { return r.bl.GetBlockReleaseWakeup() }
func (r *c02Rec) GetBlockPutWakeup() <-chan struct{}     { return r.bl.GetBlockPutWakeup() }
func (r *c02Rec) NotifySyncStarting(isFinal bool) {
	r.bl.NotifySyncStarting(isFinal)
	r.ev(L(A(5), AB(isFinal)))
}
func (r *c02Rec) NotifySyncCompleted() {
	r.bl.NotifySyncCompleted()
	r.ev(L(A(6)))
}
func (r *c02Rec) GetPersistentState() (uint32, []*pb.BlockState) {
	oldest, blocks := r.bl.GetPersistentState()
	rb := []Sx{}
	for _, b := range blocks {
		seeds := []Sx{}
		for _, sd := range b.EpochHashSeeds {
			seeds = append(seeds, AU(sd))
		}
		rb = append(rb, L(A(b.BlockLocation.OffsetBytes), A(b.BlockLocation.SizeBytes), A(b.WriteOffsetBytes), L(seeds...)))
	}
	r.ev(L(A(7), AU(uint64(oldest)), L(rb...)))
	return oldest, blocks
}
func (r *c02Rec) NotifyPersistentStateWritten() {
	r.bl.NotifyPersistentStateWritten()
	r.ev(L(A(8)))
}

// c02Alloc wraps the real allocator only to learn which region NewBlock handed out.
type c02Alloc struct {
	local.BlockAllocator
	s *c02Store
}

func (a c02Alloc) NewBlock() (local.Block, *pb.BlockLocation, error) {
	b, l, err := a.BlockAllocator.NewBlock()
	if err == nil {
		a.s.lastLoc++
		a.s.lastLocVal = [2]int64{l.OffsetBytes, l.SizeBytes}
	}
	return b, l, err
}

func (s *c02Store) allocLoc(n0 int) [2]int64 {
	if s.lastLoc == n0 {
		return [2]int64{-1, -1}
	}
	return s.lastLocVal
}

// ---- devices ----

type c02DataDev struct{ s *c02Store }

func (d c02DataDev) ReadAt(p []byte, off int64) (int, error) {
	w := d.s.w
	w.mu.Lock()
	defer w.mu.Unlock()
	if off >= int64(len(w.data)) {
		return 0, io.EOF
	}
	n := copy(p, w.data[off:])
	if n < len(p) {
		return n, io.EOF
	}
	return n, nil
}

func (d c02DataDev) WriteAt(p []byte, off int64) (int, error) {
	w := d.s.w
	w.mu.Lock()
	defer w.mu.Unlock()
	if off < 0 || off+int64(len(p)) > int64(len(w.data)) {
		return 0, fmt.Errorf("write beyond device")
	}
	copy(w.data[off:], p)
	// one log entry per sector touched (tearing happens at sector boundaries)
	sec := int64(w.sector)
	for o := off; o < off+int64(len(p)); {
		end := (o/sec + 1) * sec
		if end > off+int64(len(p)) {
			end = off + int64(len(p))
		}
		w.log = append(w.log, c02Io{kind: c02IoData, off: o, data: append([]byte(nil), p[o-off:end-off]...)})
		o = end
	}
	return len(p), nil
}

// Sync is the DataSyncer: gated when called by a syncer loop.
func (d c02DataDev) Sync() error {
	s := d.s
	s.w.mu.Lock()
	s.w.log = append(s.w.log, c02Io{kind: c02IoSyncBegin})
	s.w.mu.Unlock()
	r := s.enter(0)
	s.w.mu.Lock()
	s.w.log = append(s.w.log, c02Io{kind: c02IoSyncEnd, ok: r == 0})
	s.w.mu.Unlock()
	if r == 0 {
		return nil
	}
	return status.Error(codes.Internal, "injected sync failure")
}
func (d c02DataDev) Close() error { return nil }

type c02IndexDev struct{ s *c02Store }

func (d c02IndexDev) ReadAt(p []byte, off int64) (int, error) {
	w := d.s.w
	w.mu.Lock()
	defer w.mu.Unlock()
	if off >= int64(len(w.index)) {
		return 0, io.EOF
	}
	n := copy(p, w.index[off:])
	if n < len(p) {
		return n, io.EOF
	}
	return n, nil
}

func (d c02IndexDev) WriteAt(p []byte, off int64) (int, error) {
	s := d.s
	w := s.w
	const rs = local.BlockDeviceBackedLocationRecordSize
	if len(p) != rs || off%rs != 0 || off < 0 || off+rs > int64(len(w.index)) {
		return 0, fmt.Errorf("unexpected index write")
	}
	// the seed the code is using: the writer holds the store's write lock,
	// so the block list may be consulted from this goroutine
	e := c02Io{kind: c02IoIndex, off: off / rs, data: append([]byte(nil), p...)}
	if s.bl != nil {
		idx, seed, found := s.bl.BlockReferenceToBlockIndex(local.BlockReference{
			EpochID:        binary.LittleEndian.Uint32(p),
			BlocksFromLast: binary.LittleEndian.Uint16(p[4:]),
		})
		e.wseed, e.wok = seed, found
		if s.rec != nil {
			ix := int64(-1)
			if found {
				ix = int64(idx)
			}
			s.rec.ev(L(A(9), A(off/rs), AU(uint64(binary.LittleEndian.Uint32(p))), AU(uint64(binary.LittleEndian.Uint16(p[4:]))), A(ix), AU(seed)))
		}
	}
	w.mu.Lock()
	copy(w.index[off:], p)
	w.log = append(w.log, e)
	w.mu.Unlock()
	return len(p), nil
}
func (d c02IndexDev) Sync() error  { return nil }
func (d c02IndexDev) Close() error { return nil }

// ---- the state directory ----

type c02Dir struct {
	filesystem.Directory // every other method: nil dereference = the store does not use it
	s                    *c02Store
}

type c02Appender struct {
	d *c02Dir
	f int
}

func c02IsNew(name path.Component) bool   { return name.String() == "state.new" }
func c02IsState(name path.Component) bool { return name.String() == "state" }

func (d *c02Dir) logIo(e c02Io) { d.s.w.log = append(d.s.w.log, e) }

func (d *c02Dir) gate() error {
	if r := d.s.enter(1); r != 0 {
		return status.Error(codes.Internal, "injected directory failure")
	}
	return nil
}

func (d *c02Dir) Remove(name path.Component) error {
	if !c02IsNew(name) {
		return fmt.Errorf("unexpected Remove(%s)", name.String())
	}
	if err := d.gate(); err != nil {
		return err
	}
	w := d.s.w
	w.mu.Lock()
	defer w.mu.Unlock()
	if w.vnew < 0 {
		return os.ErrNotExist
	}
	w.vnew = -1
	d.logIo(c02Io{kind: c02IoRemove})
	return nil
}

func (d *c02Dir) OpenAppend(name path.Component, mode filesystem.CreationMode) (filesystem.FileAppender, error) {
	if !c02IsNew(name) {
		return nil, fmt.Errorf("unexpected OpenAppend(%s)", name.String())
	}
	if err := d.gate(); err != nil {
		return nil, err
	}
	w := d.s.w
	w.mu.Lock()
	defer w.mu.Unlock()
	if w.vnew >= 0 {
		return nil, os.ErrExist
	}
	w.files = append(w.files, &c02File{})
	w.vnew = len(w.files) - 1
	d.logIo(c02Io{kind: c02IoCreate})
	return &c02Appender{d: d, f: w.vnew}, nil
}

func (a *c02Appender) Write(p []byte) (int, error) {
	if err := a.d.gate(); err != nil {
		return 0, err
	}
	w := a.d.s.w
	w.mu.Lock()
	defer w.mu.Unlock()
	w.files[a.f].content = append(w.files[a.f].content, p...)
	a.d.logIo(c02Io{kind: c02IoWrite, data: append([]byte{}, w.files[a.f].content...)})
	return len(p), nil
}

func (a *c02Appender) Sync() error {
	if err := a.d.gate(); err != nil {
		return err
	}
	w := a.d.s.w
	w.mu.Lock()
	defer w.mu.Unlock()
	w.files[a.f].synced = true
	a.d.logIo(c02Io{kind: c02IoFsync})
	return nil
}
func (a *c02Appender) Close() error { return nil }

func (d *c02Dir) Rename(oldName path.Component, newDirectory filesystem.Directory, newName path.Component) error {
	if !c02IsNew(oldName) || !c02IsState(newName) {
		return fmt.Errorf("unexpected Rename")
	}
	if err := d.gate(); err != nil {
		return err
	}
	w := d.s.w
	w.mu.Lock()
	defer w.mu.Unlock()
	if w.vnew < 0 {
		return os.ErrNotExist
	}
	w.vst = w.vnew
	w.vnew = -1
	d.logIo(c02Io{kind: c02IoRename})
	return nil
}

func (d *c02Dir) Sync() error {
	if err := d.gate(); err != nil {
		return err
	}
	w := d.s.w
	w.mu.Lock()
	defer w.mu.Unlock()
	d.logIo(c02Io{kind: c02IoDirSync})
	return nil
}

type c02Reader struct{ data []byte }

func (r *c02Reader) ReadAt(p []byte, off int64) (int, error) {
	if off >= int64(len(r.data)) {
		return 0, io.EOF
	}
	n := copy(p, r.data[off:])
	if n < len(p) {
		return n, io.EOF
	}
	return n, nil
}
func (r *c02Reader) Close() error { return nil }
func (r *c02Reader) GetNextRegionOffset(off int64, rt filesystem.RegionType) (int64, error) {
	return 0, status.Error(codes.Unimplemented, "unused")
}
func (r *c02Reader) Len() (int64, error) { return int64(len(r.data)), nil }

func (d *c02Dir) OpenRead(name path.Component) (filesystem.FileReader, error) {
	if !c02IsState(name) {
		return nil, fmt.Errorf("unexpected OpenRead(%s)", name.String())
	}
	w := d.s.w
	w.mu.Lock()
	defer w.mu.Unlock()
	if w.vst < 0 {
		return nil, os.ErrNotExist
	}
	return &c02Reader{data: append([]byte{}, w.files[w.vst].content...)}, nil
}

// ---- goroutine identification, gates, clock (after harness/c07.go) ----

func c02Goid() int64 {
	var buf [64]byte
	n := runtime.Stack(buf[:], false)
	f := strings.Fields(string(buf[:n]))
	if len(f) < 2 {
		return -1
	}
	id, _ := strconv.ParseInt(f[1], 10, 64)
	return id
}

func (s *c02Store) who() int {
	id := c02Goid()
	if id == s.goid[0] {
		return 0
	}
	if id == s.goid[1] {
		return 1
	}
	return -1
}

// enter parks a syncer loop until the scheduler decides; calls from any
// other goroutine (construction) pass.
func (s *c02Store) enter(kind int) int {
	s.mu.Lock()
	w := s.who()
	if w < 0 {
		s.mu.Unlock()
		return 0
	}
	if s.dead {
		s.mu.Unlock()
		runtime.Goexit()
	}
	g := &c02Gate{kind: kind, who: w, ch: make(chan int, 1)}
	s.gates = append(s.gates, g)
	s.dropTimers(w)
	s.mu.Unlock()
	r := <-g.ch
	if r == 2 {
		runtime.Goexit()
	}
	return r
}

func (s *c02Store) dropTimers(w int) {
	k := s.timers[:0]
	for _, t := range s.timers {
		if t.who != w {
			k = append(k, t)
		}
	}
	s.timers = k
}

type c02Stop struct{}

func (c02Stop) Stop() bool { return false }

func (s *c02Store) Now() time.Time {
	s.mu.Lock()
	defer s.mu.Unlock()
	return c02Base.Add(time.Duration(s.now))
}
func (s *c02Store) NewContextWithTimeout(parent context.Context, d time.Duration) (context.Context, context.CancelFunc) {
	panic("c02: unexpected NewContextWithTimeout")
}
func (s *c02Store) NewTicker(d time.Duration) (clock.Ticker, <-chan time.Time) {
	panic("c02: unexpected NewTicker")
}
func (s *c02Store) NewTimer(d time.Duration) (clock.Timer, <-chan time.Time) {
	s.mu.Lock()
	defer s.mu.Unlock()
	ch := make(chan time.Time, 1)
	if s.dead {
		ch <- c02Base.Add(time.Duration(s.now))
		return c02Stop{}, ch
	}
	w := s.who()
	s.dropTimers(w)
	s.timers = append(s.timers, &c02Timer{who: w, deadline: s.now + int64(d), ch: ch})
	return c02Stop{}, ch
}
func (s *c02Store) Log(err error) {}

var c02StackBuf = make([]byte, 1<<20)

func c02Blocked(st string) bool {
	if i := strings.IndexByte(st, ','); i >= 0 {
		st = st[:i]
	}
	switch st {
	case "chan receive", "select", "chan send", "semacquire", "sync.Mutex.Lock", "sync.RWMutex.RLock",
		"sync.RWMutex.Lock", "sync.Cond.Wait", "sync.WaitGroup.Wait", "chan receive (nil chan)", "select (no cases)":
		return true
	}
	return false
}

func (s *c02Store) states() [2]string {
	n := runtime.Stack(c02StackBuf, true)
	var res [2]string
	buf := c02StackBuf[:n]
	for len(buf) > 0 {
		i := bytes.Index(buf, []byte("goroutine "))
		if i < 0 {
			break
		}
		buf = buf[i+10:]
		sp := bytes.IndexByte(buf, ' ')
		if sp < 0 {
			break
		}
		id, err := strconv.ParseInt(string(buf[:sp]), 10, 64)
		if err != nil || sp+1 >= len(buf) || buf[sp+1] != '[' {
			continue
		}
		end := bytes.IndexByte(buf, ']')
		if end < 0 {
			break
		}
		st := string(buf[sp+2 : end])
		for w := 0; w < 2; w++ {
			if id == s.goid[w] {
				res[w] = st
			}
		}
		buf = buf[end:]
	}
	return res
}

// quiet waits until both syncer loops are blocked (or gone) in two consecutive scans.
func (s *c02Store) quiet() bool {
	stable := 0
	var last [2]string
	start := time.Now()
	for iter := 0; ; iter++ {
		st := s.states()
		ok := true
		for w := 0; w < 2; w++ {
			if st[w] != "" && !c02Blocked(st[w]) {
				ok = false
			}
		}
		if ok && st == last {
			stable++
			if stable >= 2 {
				return true
			}
		} else {
			stable = 0
		}
		last = st
		s.mu.Lock()
		pm := s.panicd
		s.mu.Unlock()
		if pm {
			return true
		}
		if iter > 50 {
			if time.Since(start) > 20*time.Second {
				return false
			}
			time.Sleep(20 * time.Microsecond)
		} else {
			runtime.Gosched()
		}
	}
}

func c02Readable(ch <-chan struct{}) bool {
	select {
	case <-ch:
		return true
	default:
		return false
	}
}

func (s *c02Store) teardown() {
	for _, u := range s.uploads {
		u.src.abort()
		<-u.done
	}
	s.uploads = nil
	s.mu.Lock()
	s.dead = true
	gs := s.gates
	s.gates = nil
	ts := s.timers
	s.timers = nil
	now := s.now
	pm := s.panicd
	s.mu.Unlock()
	s.cancel()
	for _, g := range gs {
		g.ch <- 2
	}
	for _, t := range ts {
		select {
		case t.ch <- c02Base.Add(time.Duration(now)):
		default:
		}
	}
	if pm {
		return
	}
	s.lock.RLock()
	ch := s.bl.GetBlockReleaseWakeup()
	s.lock.RUnlock()
	if !c02Readable(ch) {
		close(*(*chan struct{})(unsafe.Pointer(&ch)))
	}
	start := time.Now()
	for i := 0; ; i++ {
		st := s.states()
		if st[0] == "" && st[1] == "" {
			return
		}
		if i > 50 {
			if time.Since(start) > time.Second {
				return
			}
			time.Sleep(20 * time.Microsecond)
		} else {
			runtime.Gosched()
		}
	}
}

func (s *c02Store) loopExit() {
	if r := recover(); r != nil {
		s.mu.Lock()
		s.panicd = true
		s.mu.Unlock()
	}
}

// ---- upload sources ----

type c02Feed struct {
	n   int
	err error
}

// c02Src delivers the object's bytes either all at once (gated=false) or in
// scheduler-controlled chunks; it is both a ChunkReader (validating CAS
// buffers) and a ReadAtCloser (raw buffers).
type c02Src struct {
	data    []byte
	pos     int
	gated   bool
	waiting chan struct{}
	feed    chan c02Feed
	final   error
}

func newC02Src(data []byte, gated bool) *c02Src {
	return &c02Src{data: data, gated: gated, waiting: make(chan struct{}, 1), feed: make(chan c02Feed)}
}

func (s *c02Src) next(max int) ([]byte, error) {
	if s.final != nil {
		return nil, s.final
	}
	if !s.gated {
		if s.pos >= len(s.data) {
			return nil, io.EOF
		}
		n := len(s.data) - s.pos
		if max > 0 && n > max {
			n = max
		}
		b := s.data[s.pos : s.pos+n]
		s.pos += n
		return b, nil
	}
	s.waiting <- struct{}{}
	f := <-s.feed
	if f.err != nil {
		s.final = f.err
		return nil, f.err
	}
	n := f.n
	if n > len(s.data)-s.pos {
		n = len(s.data) - s.pos
	}
	if max > 0 && n > max {
		n = max
	}
	b := s.data[s.pos : s.pos+n]
	s.pos += n
	return b, nil
}

func (s *c02Src) Read() ([]byte, error) { return s.next(0) }
func (s *c02Src) Close()                {}
func (s *c02Src) abort() {
	// every upload still registered is parked on its feed channel
	s.feed <- c02Feed{err: status.Error(codes.Canceled, "case over")}
}

type c02SrcAt struct{ s *c02Src }

func (r c02SrcAt) ReadAt(p []byte, off int64) (int, error) {
	if int(off) != r.s.pos {
		return 0, status.Error(codes.Internal, "non-sequential read of an upload source")
	}
	if len(p) == 0 {
		return 0, nil
	}
	b, err := r.s.next(len(p))
	if err != nil {
		return 0, err
	}
	return copy(p, b), nil
}
func (r c02SrcAt) Close() error { return nil }

// ---- content and digests ----

func c02Content(key, ver, size int) []byte {
	b := make([]byte, size)
	for i := range b {
		b[i] = byte(1 + (key*37+ver*101+i*(3+key%5)+(i/7)*(1+ver)+i*i)%255)
	}
	if size >= 2 {
		b[0] = byte(1 + key%250)
		b[1] = byte(1 + ver)
	}
	return b
}

func (c *c02Cfg) digest(key int) digest.Digest {
	if c.validate {
		h := sha256.Sum256(c02Content(key, 0, c.sizes[key][0]))
		return digest.MustNewDigest("", remoteexecution.DigestFunction_SHA256, hex.EncodeToString(h[:]), int64(c.sizes[key][0]))
	}
	h := sha256.Sum256([]byte(fmt.Sprintf("c02-key-%d", key)))
	return digest.MustNewDigest("", remoteexecution.DigestFunction_SHA256, hex.EncodeToString(h[:]), int64(c.sizes[key][0]))
}

// ---- construction: exactly the wiring of new_blob_access.go ----

func newC02Store(cfg *c02Cfg, w *c02World, syncMode bool) (s *c02Store, ok bool) {
	s = &c02Store{cfg: cfg, w: w, uploads: map[int]*c02Upload{}, keyOf: map[local.Key]int{}, sync: syncMode}
	s.goid = [2]int64{-2, -2}
	defer func() {
		if r := recover(); r != nil {
			s.panicd = true
			ok = true
		}
	}()
	for k := range cfg.sizes {
		d := cfg.digest(k)
		s.digests = append(s.digests, d)
		s.keyOf[local.NewKeyFromString(d.GetKey(digest.KeyWithoutInstance))] = k
	}
	dataDev := c02DataDev{s: s}
	var rbf blobstore.ReadBufferFactory = stRawFactory{}
	if cfg.validate {
		rbf = blobstore.CASReadBufferFactory
	}
	blockCount := cfg.nblocks()
	var blockAllocator local.BlockAllocator = c02Alloc{BlockAllocator: local.NewBlockDeviceBackedBlockAllocator(dataDev, rbf, cfg.sector, int64(cfg.spb), blockCount, "c02"), s: s}

	dir := &c02Dir{s: s}
	persistentStateStore := local.NewDirectoryBackedPersistentStateStore(dir)
	persistentState, err := persistentStateStore.ReadPersistentState()
	if err != nil {
		return nil, false
	}
	hashInit := persistentState.KeyLocationMapHashInitialization
	bl, initialBlockCount := local.NewPersistentBlockList(blockAllocator, persistentState.OldestEpochId, persistentState.Blocks)
	s.bl = bl
	s.rec = &c02Rec{s: s, bl: bl}
	rb := []Sx{}
	for _, b := range persistentState.Blocks {
		seeds := []Sx{}
		for _, sd := range b.EpochHashSeeds {
			seeds = append(seeds, AU(sd))
		}
		var lo, sz int64 = -1, -1
		if b.BlockLocation != nil {
			lo, sz = b.BlockLocation.OffsetBytes, b.BlockLocation.SizeBytes
		}
		rb = append(rb, L(A(lo), A(sz), A(b.WriteOffsetBytes), L(seeds...)))
	}
	w.mu.Lock()
	present := w.vst >= 0
	w.mu.Unlock()
	hi := AU(hashInit)
	if !present {
		hi = A(0) // random: not observable
	}
	s.restored = L(AB(present), AU(uint64(persistentState.OldestEpochId)), L(rb...), hi, AI(initialBlockCount))

	periodicSyncer := local.NewPeriodicSyncer(s.rec, &s.lock, persistentStateStore, s, s, time.Duration(c02Retry),
		time.Duration(cfg.interval), hashInit, dataDev.Sync)
	ctx, cancel := context.WithCancel(context.Background())
	s.cancel = cancel
	var started sync.WaitGroup
	started.Add(2)
	go1 := make(chan struct{})
	go func() {
		defer s.loopExit()
		s.goid[0] = c02Goid()
		started.Done()
		<-go1
		for {
			periodicSyncer.ProcessBlockRelease()
		}
	}()
	go func() {
		defer s.loopExit()
		s.goid[1] = c02Goid()
		started.Done()
		<-go1
		for periodicSyncer.ProcessBlockPut(ctx) {
		}
	}()
	started.Wait()
	close(go1)

	policy := local.NewImmutableBlockListGrowthPolicy(cfg.cur, cfg.nw)
	s.lbm = local.NewOldCurrentNewLocationBlobMap(s.rec, policy, s, "c02", int64(cfg.bs()), cfg.old, cfg.nw, initialBlockCount)
	n := cfg.nrec
	for n > 3 && !primes.IsPrime(n) {
		n--
	}
	s.lra = local.NewBlockDeviceBackedLocationRecordArray(c02IndexDev{s: s}, s.lbm)
	s.klm = local.NewHashingKeyLocationMap(s.lra, n, hashInit, uint32(cfg.maxGet), cfg.maxPut, "c02")
	s.ba = local.NewFlatBlobAccess(s.klm, s.lbm, digest.KeyWithoutInstance, &s.lock, "c02",
		capabilities.NewStaticProvider(&remoteexecution.ServerCapabilities{}))
	s.quiet()
	return s, true
}

func (c *c02Cfg) tableSize() int {
	n := c.nrec
	for n > 3 && !primes.IsPrime(n) {
		n--
	}
	return n
}

// slots: what the real record array resolves, slot by slot.
func (s *c02Store) slots() Sx {
	out := []Sx{}
	s.lock.RLock()
	defer s.lock.RUnlock()
	for i := 0; i < s.cfg.nrec; i++ {
		r, err := s.lra.Get(i)
		if err != nil {
			continue
		}
		k, ok := s.keyOf[r.RecordKey.Key]
		if !ok {
			k = -1
		}
		out = append(out, L(AI(i), AI(k), AU(uint64(r.RecordKey.Attempt)), AI(r.Location.BlockIndex), A(r.Location.OffsetBytes), A(r.Location.SizeBytes)))
	}
	return L(out...)
}

// ---- operations ----

func c02Code(err error) int {
	if err == nil {
		return 0
	}
	return int(status.Code(err))
}

// payload canonicalises bytes read: (1 key ver) when they are exactly the
// content of that object version (versions of the requested key first).
func (s *c02Store) payload(key int, data []byte) Sx {
	try := func(k int) (Sx, bool) {
		for v, sz := range s.cfg.sizes[k] {
			if sz == len(data) && bytes.Equal(data, c02Content(k, v, sz)) {
				return L(A(1), AI(k), AI(v)), true
			}
		}
		return Sx{}, false
	}
	if p, ok := try(key); ok {
		return p
	}
	for k := range s.cfg.sizes {
		if p, ok := try(k); ok {
			return p
		}
	}
	if len(data) > 24 {
		return L(A(2), AI(len(data)), LBytes(data[:24]))
	}
	return L(A(2), AI(len(data)), LBytes(data))
}

func (s *c02Store) get(key int) Sx {
	b := s.ba.Get(context.Background(), s.digests[key])
	data, err := b.ToByteSlice(1 << 20)
	if err != nil {
		return L(AI(c02Code(err)))
	}
	return L(A(0), s.payload(key, data))
}

func (s *c02Store) findMissing(keys []int) Sx {
	sb := digest.NewSetBuilder(0)
	for _, k := range keys {
		sb.Add(s.digests[k])
	}
	missing, err := s.ba.FindMissing(context.Background(), sb.Build())
	if err != nil {
		return L(AI(c02Code(err)))
	}
	miss := []int{}
	for _, k := range keys {
		for _, m := range missing.Items() {
			if m == s.digests[k] {
				miss = append(miss, k)
				break
			}
		}
	}
	sort.Ints(miss)
	return L(A(0), LInts(miss))
}

func (s *c02Store) buffer(key, ver int, gated bool) (buffer.Buffer, *c02Src) {
	data := c02Content(key, ver, s.cfg.sizes[key][ver])
	src := newC02Src(data, gated)
	if s.cfg.validate {
		return buffer.NewCASBufferFromChunkReader(s.digests[key], src, buffer.UserProvided), src
	}
	return buffer.NewValidatedBufferFromReaderAt(c02SrcAt{s: src}, int64(len(data))), src
}

func (s *c02Store) takeGate(kind int) *c02Gate {
	s.mu.Lock()
	defer s.mu.Unlock()
	for i, g := range s.gates {
		if g.kind == kind {
			s.gates = append(s.gates[:i], s.gates[i+1:]...)
			return g
		}
	}
	return nil
}

// settle waits for quiescence only when a loop can have been woken: a loop
// parked in a gate or on a timer is released by the scheduler alone, a loop
// parked on a wake-up channel only when that channel became readable.
func (s *c02Store) settle() bool {
	var parked [2]bool
	s.mu.Lock()
	for _, g := range s.gates {
		if g.who >= 0 && g.who < 2 {
			parked[g.who] = true
		}
	}
	for _, t := range s.timers {
		if t.who >= 0 && t.who < 2 {
			parked[t.who] = true
		}
	}
	pm := s.panicd
	s.mu.Unlock()
	if pm {
		return true
	}
	s.lock.RLock()
	rr := c02Readable(s.bl.GetBlockReleaseWakeup())
	pr := c02Readable(s.bl.GetBlockPutWakeup())
	s.lock.RUnlock()
	if (parked[0] || !rr) && (parked[1] || !pr) {
		return true
	}
	return s.quiet()
}

func (s *c02Store) validKV(k, v int) bool {
	return k >= 0 && k < len(s.cfg.sizes) && v >= 0 && v < len(s.cfg.sizes[k]) && (!s.cfg.validate || v == 0)
}

func (s *c02Store) waitUpload(tid int, u *c02Upload) Sx {
	select {
	case <-u.src.waiting:
		return L(A(1)) // parked: wants the next chunk
	case err := <-u.done:
		delete(s.uploads, tid)
		return L(A(0), AI(c02Code(err)))
	}
}

// do executes one schedule operation; ok=false = ill-formed.
func (s *c02Store) do(op Sx) (Sx, bool) {
	if op.IsAtom || op.Len() < 1 {
		return Sx{}, false
	}
	for i, x := range op.List {
		if i == 1 && op.Nth(0).Int() == 6 {
			continue
		}
		if !x.IsAtom || x.Big != "" || x.Z < -1 || x.Z > 1<<30 {
			return Sx{}, false
		}
	}
	ctx := context.Background()
	switch op.Nth(0).Int() {
	case 1:
		k, v := op.Nth(1).Int(), op.Nth(2).Int()
		if op.Len() != 3 || !s.validKV(k, v) {
			return Sx{}, false
		}
		b, _ := s.buffer(k, v, false)
		err := s.ba.Put(ctx, s.digests[k], b)
		return L(AI(c02Code(err))), true
	case 2:
		tid, k, v := op.Nth(1).Int(), op.Nth(2).Int(), op.Nth(3).Int()
		if op.Len() != 4 || !s.validKV(k, v) || tid < 0 {
			return Sx{}, false
		}
		if _, busy := s.uploads[tid]; busy {
			return L(A(3)), true
		}
		b, src := s.buffer(k, v, true)
		u := &c02Upload{src: src, done: make(chan error, 1), key: k, ver: v}
		d := s.digests[k]
		go func() { u.done <- s.ba.Put(ctx, d, b) }()
		s.uploads[tid] = u
		return s.waitUpload(tid, u), true
	case 3, 4:
		tid := op.Nth(1).Int()
		if op.Len() != 3 {
			return Sx{}, false
		}
		u, ok := s.uploads[tid]
		if !ok {
			return L(A(3)), true
		}
		if op.Nth(0).Int() == 3 {
			n := op.Nth(2).Int()
			if n < 0 {
				return Sx{}, false
			}
			u.src.feed <- c02Feed{n: n}
		} else {
			e := op.Nth(2).Int()
			if e < 0 || e > 16 || e == 13 || e == 14 {
				return Sx{}, false // 13/14 are the block list's own finalizer codes
			}
			if e == 0 {
				u.src.feed <- c02Feed{err: io.EOF}
			} else {
				u.src.feed <- c02Feed{err: status.Error(codes.Code(e), "source failure")}
			}
		}
		return s.waitUpload(tid, u), true
	case 5:
		k := op.Nth(1).Int()
		if op.Len() != 2 || !s.validKV(k, 0) {
			return Sx{}, false
		}
		return s.get(k), true
	case 6:
		if op.Len() != 2 || op.Nth(1).IsAtom {
			return Sx{}, false
		}
		keys := []int{}
		for _, x := range op.Nth(1).List {
			if !x.IsAtom || !s.validKV(x.Int(), 0) {
				return Sx{}, false
			}
			keys = append(keys, x.Int())
		}
		return s.findMissing(keys), true
	case 7:
		if op.Len() != 2 || op.Nth(1).Z < 0 {
			return Sx{}, false
		}
		s.mu.Lock()
		s.now += op.Nth(1).Z
		s.mu.Unlock()
		return L(), true
	case 8:
		if op.Len() != 2 {
			return Sx{}, false
		}
		who := 1
		if op.Nth(1).Z == 0 {
			who = 0
		}
		s.mu.Lock()
		var t *c02Timer
		for i, x := range s.timers {
			if x.who == who && x.deadline <= s.now {
				t = x
				s.timers = append(s.timers[:i], s.timers[i+1:]...)
				break
			}
		}
		now := s.now
		s.mu.Unlock()
		if t == nil {
			return L(A(0)), true
		}
		t.ch <- c02Base.Add(time.Duration(now))
		return L(A(1)), true
	case 9:
		if op.Len() != 2 {
			return Sx{}, false
		}
		g := s.takeGate(0)
		if g == nil {
			return L(A(0)), true
		}
		if op.Nth(1).Z != 0 {
			g.ch <- 0
		} else {
			g.ch <- 1
		}
		return L(A(1)), true
	case 10:
		if op.Len() != 3 {
			return Sx{}, false
		}
		k, fail := op.Nth(1).Int(), op.Nth(2).Int()
		if k < 0 || k > 64 {
			return Sx{}, false
		}
		done := 0
		for i := 0; i < k; i++ {
			g := s.takeGate(1)
			if g == nil {
				break
			}
			if i == fail {
				g.ch <- 1
			} else {
				g.ch <- 0
			}
			done++
			if !s.quiet() {
				break
			}
		}
		return L(AI(done)), true
	}
	return Sx{}, false
}

// ---------------------------------------------------------------------------
// generations and experiments
// ---------------------------------------------------------------------------

const c02MaxDepth = 3

func (w *c02World) logLen() int {
	w.mu.Lock()
	defer w.mu.Unlock()
	return len(w.log)
}

func (s *c02Store) keyBytesToID(k []byte) int {
	var key local.Key
	copy(key[:], k)
	if id, ok := s.keyOf[key]; ok {
		return id
	}
	return -1
}

func (s *c02Store) logSx(from int) Sx {
	w := s.w
	w.mu.Lock()
	defer w.mu.Unlock()
	out := []Sx{}
	for _, e := range w.log[from:] {
		switch e.kind {
		case c02IoData:
			out = append(out, L(A(1), A(e.off), AI(len(e.data))))
		case c02IoSyncBegin:
			out = append(out, L(A(2)))
		case c02IoSyncEnd:
			out = append(out, L(A(3), AB(e.ok)))
		case c02IoIndex:
			p := e.data
			ws := AU(e.wseed)
			if !e.wok {
				ws = A(-1)
			}
			out = append(out, L(A(4), A(e.off), AU(uint64(binary.LittleEndian.Uint32(p))), AU(uint64(binary.LittleEndian.Uint16(p[4:]))),
				AI(s.keyBytesToID(p[6:38])), AU(uint64(binary.LittleEndian.Uint32(p[38:]))),
				AU(binary.LittleEndian.Uint64(p[42:])), AU(binary.LittleEndian.Uint64(p[50:])), ws))
		case c02IoRemove:
			out = append(out, L(A(5)))
		case c02IoCreate:
			out = append(out, L(A(6)))
		case c02IoWrite:
			out = append(out, L(A(7), c02StateSx(e.data)))
		case c02IoFsync:
			out = append(out, L(A(8)))
		case c02IoRename:
			out = append(out, L(A(9)))
		case c02IoDirSync:
			out = append(out, L(A(10)))
		}
	}
	return L(out...)
}

// c02StateSx decodes a state file the way ReadPersistentState does.
func c02StateSx(data []byte) Sx {
	var ps pb.PersistentState
	if err := proto.Unmarshal(data, &ps); err != nil {
		return L(A(-1))
	}
	rb := []Sx{}
	for _, b := range ps.Blocks {
		seeds := []Sx{}
		for _, sd := range b.EpochHashSeeds {
			seeds = append(seeds, AU(sd))
		}
		var lo, sz int64 = -1, -1
		if b.BlockLocation != nil {
			lo, sz = b.BlockLocation.OffsetBytes, b.BlockLocation.SizeBytes
		}
		rb = append(rb, L(A(lo), A(sz), A(b.WriteOffsetBytes), L(seeds...)))
	}
	return L(AU(uint64(ps.OldestEpochId)), L(rb...), AU(ps.KeyLocationMapHashInitialization))
}

func c02ParseGen(g Sx) (ops, exps []Sx, ok bool) {
	if g.IsAtom || g.Len() != 2 || g.Nth(0).IsAtom || g.Nth(1).IsAtom {
		return nil, nil, false
	}
	return g.Nth(0).List, g.Nth(1).List, true
}

func c02ParseExp(e Sx) (j, koff int, ch c02Choice, gen Sx, ok bool) {
	if e.IsAtom || e.Len() != 7 {
		return
	}
	for i := 0; i < 6; i++ {
		x := e.Nth(i)
		if i == 2 || i == 3 {
			if x.IsAtom || x.Len() != 2 || !x.Nth(0).IsAtom || !x.Nth(1).IsAtom || x.Nth(0).Z < 0 || x.Nth(0).Z > 7 || x.Nth(1).Z < 0 || x.Nth(1).Z > 1<<30 {
				return
			}
			continue
		}
		if !x.IsAtom || x.Big != "" || x.Z < -1 || x.Z > 1<<30 {
			return
		}
	}
	j, koff = e.Nth(0).Int(), e.Nth(1).Int()
	if koff < 0 {
		return
	}
	ch = c02Choice{dmode: e.Nth(2).Nth(0).Int(), darg: e.Nth(2).Nth(1).Int(), imode: e.Nth(3).Nth(0).Int(), iarg: e.Nth(3).Nth(1).Int(),
		dirk: e.Nth(4).Int(), garb: e.Nth(5).Int()}
	if ch.dirk < 0 || ch.garb < 0 {
		return
	}
	gen = e.Nth(6)
	ok = true
	return
}

func c02Bools(f []bool) Sx {
	l := make([]Sx, len(f))
	for i, b := range f {
		l[i] = AB(b)
	}
	return L(l...)
}

// runGen runs one life: (restored slots probe opres final log exps); abnormal
// = a panic in the code under test or a hang.
func c02RunGen(cfg *c02Cfg, w *c02World, gen Sx, depth int) (obs Sx, ok bool, abnormal int) {
	ops, exps, ok := c02ParseGen(gen)
	if !ok || depth > c02MaxDepth {
		return Sx{}, false, 0
	}
	if depth == c02MaxDepth && len(exps) > 0 {
		return Sx{}, false, 0
	}
	s, ok := newC02Store(cfg, w, true)
	if !ok {
		return Sx{}, false, 0
	}
	if s.panicd {
		return L(A(-1)), true, -1
	}
	defer s.teardown()
	failed := func() int {
		s.mu.Lock()
		defer s.mu.Unlock()
		if s.panicd {
			return -1
		}
		return 0
	}
	slots := s.slots()
	// probe every key (after a restart)
	probe := []Sx{}
	if depth > 0 {
		for k := range cfg.sizes {
			fm := s.findMissing([]int{k})
			if !s.settle() {
				return L(A(-2)), true, -2
			}
			g := s.get(k)
			if !s.settle() {
				return L(A(-2)), true, -2
			}
			probe = append(probe, L(fm, g))
		}
	}
	if f := failed(); f != 0 {
		return L(A(int64(f))), true, f
	}
	opStart := make([]int, 0, len(ops)+2)
	opres := []Sx{}
	for _, op := range ops {
		opStart = append(opStart, w.logLen())
		r, ok := s.do(op)
		if !ok {
			return Sx{}, false, 0
		}
		if k := op.Nth(0).Int(); k == 8 || k == 9 || k == 10 {
			if !s.quiet() {
				return L(A(-2)), true, -2
			}
		} else if !s.settle() {
			return L(A(-2)), true, -2
		}
		if f := failed(); f != 0 {
			return L(A(int64(f))), true, f
		}
		opres = append(opres, r)
	}
	opStart = append(opStart, w.logLen())
	// uploads still in flight stay parked while everything is re-read
	final := []Sx{}
	for k := range cfg.sizes {
		final = append(final, s.get(k))
		if !s.settle() {
			return L(A(-2)), true, -2
		}
	}
	if f := failed(); f != 0 {
		return L(A(int64(f))), true, f
	}
	endAll := w.logLen()
	logSx := s.logSx(0)

	expObs := []Sx{}
	for _, e := range exps {
		j, koff, ch, g2, ok := c02ParseExp(e)
		if !ok {
			return Sx{}, false, 0
		}
		var base, end int
		switch {
		case j < 0:
			base, end = 0, opStart[0]
		case j >= len(ops)+1:
			base, end = endAll, endAll
		case j == len(ops):
			base, end = opStart[j], endAll
		default:
			base, end = opStart[j], opStart[j+1]
		}
		n := base + koff
		if n > end {
			n = end
		}
		media, info := w.crash(n, ch)
		w2 := newC02World(cfg.sector, media)
		o2, ok, ab := c02RunGen(cfg, w2, g2, depth+1)
		if !ok {
			return Sx{}, false, 0
		}
		if ab != 0 {
			return L(A(int64(ab))), true, ab
		}
		expObs = append(expObs, L(AI(info.n), c02Bools(info.dataFlags), c02Bools(info.indexFlags), AI(info.dirPending), o2))
	}
	s.evmu.Lock()
	evs := L(append([]Sx{}, s.events...)...)
	s.evmu.Unlock()
	return L(s.restored, slots, L(probe...), L(opres...), L(final...), logSx, L(expObs...), evs), true, 0
}

func c02ParseCfg(c, keys Sx) (*c02Cfg, bool) {
	if c.IsAtom || c.Len() != 11 || keys.IsAtom {
		return nil, false
	}
	v := make([]int, 11)
	for i := range v {
		x := c.Nth(i)
		if !x.IsAtom || x.Big != "" || x.Z < 0 || x.Z > 1<<20 {
			return nil, false
		}
		v[i] = int(x.Z)
	}
	cfg := &c02Cfg{sector: v[0], spb: v[1], old: v[2], cur: v[3], nw: v[4], spare: v[5], nrec: v[6], maxGet: v[7], maxPut: v[8],
		interval: int64(v[9]), validate: v[10] != 0}
	if cfg.sector < 1 || cfg.sector > 128 || cfg.spb < 1 || cfg.spb > 32 || cfg.nw < 1 || cfg.nw > 4 || cfg.old > 4 || cfg.cur > 4 ||
		cfg.spare > 4 || cfg.nrec < 1 || cfg.nrec > 64 || cfg.maxGet < 1 || cfg.maxGet > 16 || cfg.maxPut < 1 || cfg.maxPut > 64 {
		return nil, false
	}
	if keys.Len() < 1 || keys.Len() > 16 {
		return nil, false
	}
	for _, k := range keys.List {
		if k.IsAtom || k.Len() < 1 || k.Len() > 4 {
			return nil, false
		}
		sz := []int{}
		zeros := 0
		for _, x := range k.List {
			if !x.IsAtom || x.Z < 0 || x.Z > int64(cfg.bs())+8 {
				return nil, false
			}
			if x.Z == 0 {
				zeros++
			}
			sz = append(sz, int(x.Z))
		}
		if zeros > 1 {
			return nil, false // two versions with the same (empty) content are indistinguishable
		}
		cfg.sizes = append(cfg.sizes, sz)
	}
	if cfg.validate {
		// content-addressed: two keys with the same (empty) content would be one key
		empty := 0
		for _, sz := range cfg.sizes {
			if sz[0] == 0 {
				empty++
			}
		}
		if empty > 1 {
			return nil, false
		}
	}
	return cfg, true
}

var c02Once sync.Once

func (c02) Exec(in Sx) (Sx, bool) {
	c02Once.Do(func() {
		log.SetOutput(io.Discard)
		// every step ends with a scan of all goroutine states (runtime.Stack stops the
		// world); with one P that costs microseconds instead of milliseconds, and the
		// schedules are sequenced by the harness anyway
		runtime.GOMAXPROCS(1)
	})
	if in.IsAtom || in.Len() < 1 || !in.Nth(0).IsAtom {
		return Sx{}, false
	}
	switch in.Nth(0).Z {
	case 0:
		if in.Len() != 4 {
			return Sx{}, false
		}
		cfg, ok := c02ParseCfg(in.Nth(1), in.Nth(2))
		if !ok {
			return Sx{}, false
		}
		media := &c02Media{data: make([]byte, cfg.bs()*cfg.nblocks()), index: make([]byte, cfg.nrec*local.BlockDeviceBackedLocationRecordSize)}
		w := newC02World(cfg.sector, media)
		obs, ok, _ := c02RunGen(cfg, w, in.Nth(3), 0)
		return obs, ok
	case 1:
		return c02Diff(in)
	}
	return Sx{}, false
}

// ---------------------------------------------------------------------------
// generation
// ---------------------------------------------------------------------------

func c02Commit(r *Rand, interval int, okp int) []Sx {
	// tick, put-loop timer, data sync completes, the six directory operations
	seq := []Sx{L(A(7), AI(interval)), L(A(8), A(1))}
	if r.Chance(100 - okp) {
		seq = append(seq, L(A(9), A(0)), L(A(7), A(c02Retry)), L(A(8), A(1)))
	}
	seq = append(seq, L(A(9), A(1)))
	if r.Chance(100 - okp) {
		seq = append(seq, L(A(10), AI(1+r.Intn(6)), AI(r.Intn(6))), L(A(7), A(c02Retry)), L(A(8), A(1)), L(A(8), A(0)))
	}
	if r.Chance(25) {
		k := 1 + r.Intn(5)
		seq = append(seq, L(A(10), AI(k), A(-1)), L(A(10), AI(6-k), A(-1)))
	} else {
		seq = append(seq, L(A(10), A(6), A(-1)))
	}
	return seq
}

type c02GenState struct {
	r        *Rand
	cfg      *c02Cfg
	validate bool
	nextTid  int
	open     map[int]int // tid -> remaining bytes
	okp      int
}

func (g *c02GenState) pickKV() (int, int) {
	k := g.r.Intn(len(g.cfg.sizes))
	v := 0
	if !g.validate {
		v = g.r.Intn(len(g.cfg.sizes[k]))
	}
	return k, v
}

func (g *c02GenState) ops(n int, depth int) []Sx {
	r := g.r
	ops := []Sx{}
	interval := int(g.cfg.interval)
	for len(ops) < n {
		c := r.Intn(100)
		switch {
		case c < 34:
			k, v := g.pickKV()
			ops = append(ops, L(A(1), AI(k), AI(v)))
		case c < 44 && len(g.open) < 3:
			k, v := g.pickKV()
			tid := g.nextTid
			g.nextTid++
			g.open[tid] = g.cfg.sizes[k][v]
			ops = append(ops, L(A(2), AI(tid), AI(k), AI(v)))
		case c < 58 && len(g.open) > 0:
			for tid, rem := range g.open {
				// (map order is randomised by Go: pick the smallest tid instead)
				for t2 := range g.open {
					if t2 < tid {
						tid, rem = t2, g.open[t2]
					}
				}
				if rem > 0 {
					nb := 1 + r.Intn(rem)
					if r.Chance(35) {
						nb = rem
					}
					ops = append(ops, L(A(3), AI(tid), AI(nb)))
					g.open[tid] = rem - nb
					if rem-nb == 0 && !g.validate {
						delete(g.open, tid)
					}
				} else {
					code := 0
					if r.Chance(15) {
						code = 10
					}
					ops = append(ops, L(A(4), AI(tid), AI(code)))
					delete(g.open, tid)
				}
				break
			}
		case c < 66:
			ops = append(ops, L(A(5), AI(r.Intn(len(g.cfg.sizes)))))
		case c < 69:
			ks := []Sx{}
			for k := range g.cfg.sizes {
				if r.Chance(50) {
					ks = append(ks, AI(k))
				}
			}
			ops = append(ops, L(A(6), L(ks...)))
		case c < 86:
			seq := c02Commit(r, interval, g.okp)
			if r.Chance(30) {
				// a busy commit: complete uploads land WHILE the data sync is in flight
				// (between the put loop's timer and the DataSyncer's answer); large ones
				// rotate the block list under the running sync
				burst := []Sx{}
				for j := 1 + r.Intn(4); j > 0; j-- {
					k, v := g.pickKV()
					burst = append(burst, L(A(1), AI(k), AI(v)))
				}
				for i, o := range seq {
					if o.Nth(0).Z == 8 && o.Nth(1).Z == 1 {
						seq = append(append(append([]Sx{}, seq[:i+1]...), burst...), seq[i+1:]...)
						break
					}
				}
			}
			ops = append(ops, seq...)
		case c < 93:
			// a release-loop state write (or whatever write is pending)
			ops = append(ops, L(A(10), A(6), A(-1)))
		case c < 95:
			ops = append(ops, L(A(7), AI(r.Pick([]int{1, interval, c02Retry}))))
		case c < 97:
			ops = append(ops, L(A(8), AI(r.Intn(2))))
		case c < 99:
			ops = append(ops, L(A(9), AB(r.Chance(g.okp))))
		default:
			ops = append(ops, L(A(10), AI(1+r.Intn(6)), AI(r.Pick([]int{-1, -1, 0, 2, 3}))))
		}
	}
	return ops
}

func c02GenChoice(r *Rand) (Sx, Sx, int, int) {
	mode := func() Sx {
		m := r.Pick([]int{0, 0, 1, 1, 2, 2, 2, 3, 4, 5, 6, 7})
		return L(AI(m), AI(r.Intn(1000)%maxInt(1, map[bool]int{true: 4, false: 1000}[m == 3 || m == 4])))
	}
	dirk := r.Pick([]int{0, 0, 1, 2, 3, 9, 9})
	garb := r.Pick([]int{0, 0, 0, 1, 2, 3, 4, 5})
	return mode(), mode(), dirk, garb
}

func (g *c02GenState) exps(nops, count, depth int) []Sx {
	r := g.r
	out := []Sx{}
	for i := 0; i < count; i++ {
		j := r.Intn(nops + 2)
		if r.Chance(50) {
			j = nops/3 + r.Intn(nops-nops/3+2)
		}
		if r.Chance(6) {
			j = -1
		}
		koff := r.Pick([]int{0, 1, 2, 3, 4, 5, 6, 8, 12, 1000})
		d, ix, dirk, garb := c02GenChoice(r)
		// the next life
		sub := &c02GenState{r: r, cfg: g.cfg, validate: g.validate, open: map[int]int{}, okp: 100}
		nb := r.Pick([]int{0, 3, 5, 8, 12})
		ops2 := sub.ops(nb, depth+1)
		exps2 := []Sx{}
		if depth+1 < c02MaxDepth && r.Chance(30-10*depth) {
			exps2 = sub.exps(len(ops2), 1+r.Intn(3), depth+1)
		}
		out = append(out, L(AI(j), AI(koff), d, ix, AI(dirk), AI(garb), L(L(ops2...), L(exps2...))))
	}
	return out
}

func (c02) Gen(r *Rand, i int, tier string) Sx {
	if i%12 == 11 || i%12 == 5 {
		return c02GenDiff(r)
	}
	sector := r.Pick([]int{16, 16, 32})
	spb := r.Pick([]int{2, 3, 4})
	cfg := &c02Cfg{sector: sector, spb: spb, old: r.Pick([]int{1, 1, 2}), cur: r.Pick([]int{0, 1, 1, 2}), nw: r.Pick([]int{1, 1, 2}),
		spare: r.Pick([]int{1, 1, 2}), nrec: r.Pick([]int{5, 7, 11, 13, 23, 31}), maxGet: r.Pick([]int{2, 4, 8}), maxPut: r.Pick([]int{4, 16}),
		interval: int64(r.Pick([]int{0, 5, 5})), validate: r.Chance(22)}
	bs := cfg.bs()
	menu := []int{0, 1, 2, 5, sector - 1, sector, sector + 1, bs / 2, bs/2 + 1, bs - 1, bs, bs / 3, 2*sector - 3, sector / 2}
	nk := 4 + r.Intn(6)
	keys := []Sx{}
	for k := 0; k < nk; k++ {
		nv := 1
		if !cfg.validate {
			nv = r.Pick([]int{1, 1, 2, 3})
		}
		vs := []Sx{}
		sz := []int{}
		for v := 0; v < nv; v++ {
			x := menu[r.Intn(len(menu))]
			if x > bs {
				x = bs
			}
			if x < 0 {
				x = 0
			}
			for _, y := range sz {
				if y == 0 && x == 0 {
					x = 1
				}
			}
			sz = append(sz, x)
			vs = append(vs, AI(x))
		}
		if cfg.validate && sz[0] == 0 {
			if k == 0 {
				sz[0], vs[0] = 0, A(0)
			} else {
				sz[0], vs[0] = 1, A(1) // at most one empty object in content-addressed mode
			}
		}
		cfg.sizes = append(cfg.sizes, sz)
		keys = append(keys, L(vs...))
	}
	g := &c02GenState{r: r, cfg: cfg, validate: cfg.validate, open: map[int]int{}, okp: r.Pick([]int{100, 100, 85, 70})}
	nops := 18 + r.Intn(30)
	nexp := 10 + r.Intn(14)
	if tier == "thorough" {
		nops = 20 + r.Intn(70)
		nexp = 20 + r.Intn(40)
	}
	// warm-up: something is committed early, so that most crash points have a state file to come back to
	warm := []Sx{}
	for k := 0; k < 2+r.Intn(3); k++ {
		kk, v := g.pickKV()
		warm = append(warm, L(A(1), AI(kk), AI(v)))
	}
	warm = append(warm, c02Commit(r, int(cfg.interval), 100)...)
	ops := append(warm, g.ops(nops, 0)...)
	exps := g.exps(len(ops), nexp, 0)
	c := L(AI(cfg.sector), AI(cfg.spb), AI(cfg.old), AI(cfg.cur), AI(cfg.nw), AI(cfg.spare), AI(cfg.nrec), AI(cfg.maxGet), AI(cfg.maxPut),
		A(cfg.interval), AB(cfg.validate))
	return L(A(0), c, L(keys...), L(L(ops...), L(exps...)))
}

// Class: site "crash"; buckets by what the experiments of the case covered.
func (c02) Class(in, obs Sx) (string, bool) {
	if in.Nth(0).Z == 1 {
		return "resolve/diff", obs.Len() > 0 && obs.Nth(1).Len() > 0
	}
	if obs.Len() == 1 && obs.Nth(0).IsAtom {
		return "crash/abnormal", true
	}
	served, lost, nested, exps, stateful := 0, 0, 0, 0, 0
	var walk func(o Sx, depth int)
	walk = func(o Sx, depth int) {
		if depth > 0 {
			if o.Nth(0).Nth(0).Z != 0 && o.Nth(0).Nth(2).Len() > 0 {
				stateful++
			}
			for _, p := range o.Nth(2).List {
				if p.Nth(1).Nth(0).IsAtom && p.Nth(1).Nth(0).Z == 0 && p.Nth(1).Len() == 2 {
					served++
				}
			}
		}
		for _, e := range o.Nth(6).List {
			exps++
			if depth > 0 {
				nested++
			}
			for _, f := range e.Nth(1).List {
				if f.Z == 0 {
					lost++
				}
			}
			for _, f := range e.Nth(2).List {
				if f.Z == 0 {
					lost++
				}
			}
			walk(e.Nth(4), depth+1)
		}
	}
	walk(obs, 0)
	b := func(n int) string {
		switch {
		case n == 0:
			return "0"
		case n <= 3:
			return "1-3"
		case n <= 20:
			return "4-20"
		}
		return "21+"
	}
	v := "raw"
	if in.Nth(1).Nth(10).Z != 0 {
		v = "cas"
	}
	return "crash/" + v + "-exp" + b(exps) + "-restored" + b(stateful) + "-served" + b(served) + "-lost" + b(lost) + "-nested" + b(nested),
		served > 0 && lost > 0 && stateful > 0
}

// ---------------------------------------------------------------------------
// resolution differential (kind 1)
// ---------------------------------------------------------------------------

type c02FakeResolver struct {
	ref  local.BlockReference
	seed uint64
}

func (f *c02FakeResolver) BlockReferenceToBlockIndex(r local.BlockReference) (int, uint64, bool) {
	return 0, 0, false
}
func (f *c02FakeResolver) BlockIndexToBlockReference(i int) (local.BlockReference, uint64) {
	return f.ref, f.seed
}

type c02PlainDev struct{ data []byte }

func (d *c02PlainDev) ReadAt(p []byte, off int64) (int, error) {
	if off >= int64(len(d.data)) {
		return 0, io.EOF
	}
	return copy(p, d.data[off:]), nil
}
func (d *c02PlainDev) WriteAt(p []byte, off int64) (int, error) {
	if off < 0 || off+int64(len(p)) > int64(len(d.data)) {
		return 0, fmt.Errorf("write beyond device")
	}
	return copy(d.data[off:], p), nil
}
func (d *c02PlainDev) Sync() error  { return nil }
func (d *c02PlainDev) Close() error { return nil }

func c02U64(x Sx) (uint64, bool) {
	if !x.IsAtom {
		return 0, false
	}
	if x.Big != "" {
		v, err := strconv.ParseUint(x.Big, 10, 64)
		return v, err == nil
	}
	if x.Z < 0 {
		return 0, false
	}
	return uint64(x.Z), true
}

// c02Diff: (1 cfg state records) -> (restored slots devbytes); see Run/R02.v.
func c02Diff(in Sx) (Sx, bool) {
	if in.Len() != 4 {
		return Sx{}, false
	}
	cfg, ok := c02ParseCfg(in.Nth(1), L(L(A(1))))
	if !ok {
		return Sx{}, false
	}
	st := in.Nth(2)
	if st.IsAtom || st.Len() != 3 || st.Nth(1).IsAtom || in.Nth(3).IsAtom {
		return Sx{}, false
	}
	oldest, ok1 := c02U64(st.Nth(0))
	hinit, ok2 := c02U64(st.Nth(2))
	if !ok1 || !ok2 || oldest >= 1<<32 {
		return Sx{}, false
	}
	ps := &pb.PersistentState{OldestEpochId: uint32(oldest), KeyLocationMapHashInitialization: hinit}
	seen := map[int64]bool{}
	for _, b := range st.Nth(1).List {
		if b.IsAtom || b.Len() != 4 || b.Nth(3).IsAtom {
			return Sx{}, false
		}
		for i := 0; i < 3; i++ {
			if !b.Nth(i).IsAtom || b.Nth(i).Big != "" || b.Nth(i).Z < 0 || b.Nth(i).Z > 1<<30 {
				return Sx{}, false
			}
		}
		if seen[b.Nth(0).Z] || b.Nth(1).Z == 0 {
			return Sx{}, false // the allocator attaches a region once; sizes are positive (proto3 zero = absent)
		}
		seen[b.Nth(0).Z] = true
		seeds := []uint64{}
		for _, x := range b.Nth(3).List {
			v, ok := c02U64(x)
			if !ok {
				return Sx{}, false
			}
			seeds = append(seeds, v)
		}
		ps.Blocks = append(ps.Blocks, &pb.BlockState{
			BlockLocation:    &pb.BlockLocation{OffsetBytes: b.Nth(0).Z, SizeBytes: b.Nth(1).Z},
			WriteOffsetBytes: b.Nth(2).Z,
			EpochHashSeeds:   seeds,
		})
	}
	stateBytes, err := proto.Marshal(ps)
	if err != nil {
		return Sx{}, false
	}
	const rs = local.BlockDeviceBackedLocationRecordSize
	idx := &c02PlainDev{data: make([]byte, cfg.nrec*rs)}
	for _, r := range in.Nth(3).List {
		if r.IsAtom || r.Len() != 9 || r.Nth(4).IsAtom || r.Nth(4).Len() != 32 {
			return Sx{}, false
		}
		slot := r.Nth(0).Int()
		seed, ok1 := c02U64(r.Nth(1))
		epoch, ok2 := c02U64(r.Nth(2))
		bfl, ok3 := c02U64(r.Nth(3))
		att, ok4 := c02U64(r.Nth(5))
		off, ok5 := c02U64(r.Nth(6))
		size, ok6 := c02U64(r.Nth(7))
		flip := r.Nth(8).Int()
		if !r.Nth(0).IsAtom || slot < 0 || slot >= cfg.nrec || !ok1 || !ok2 || !ok3 || !ok4 || !ok5 || !ok6 ||
			epoch >= 1<<32 || bfl >= 1<<16 || att >= 1<<32 || off >= 1<<62 || size >= 1<<62 || !r.Nth(8).IsAtom || flip < 0 {
			return Sx{}, false
		}
		var key local.Key
		for i, x := range r.Nth(4).List {
			if !x.IsAtom || x.Z < 0 || x.Z > 255 {
				return Sx{}, false
			}
			key[i] = byte(x.Z)
		}
		fr := &c02FakeResolver{ref: local.BlockReference{EpochID: uint32(epoch), BlocksFromLast: uint16(bfl)}, seed: seed}
		lra := local.NewBlockDeviceBackedLocationRecordArray(idx, fr)
		if err := lra.Put(slot, local.LocationRecord{RecordKey: local.LocationRecordKey{Key: key, Attempt: uint32(att)},
			Location: local.Location{BlockIndex: 0, OffsetBytes: int64(off), SizeBytes: int64(size)}}); err != nil {
			return Sx{}, false
		}
		if flip < rs {
			idx.data[slot*rs+flip] ^= 1
		}
	}
	media := &c02Media{data: make([]byte, cfg.bs()*cfg.nblocks()), index: idx.data, state: stateBytes}
	w := newC02World(cfg.sector, media)
	s, ok := newC02Store(cfg, w, false)
	if !ok {
		return Sx{}, false
	}
	if s.panicd {
		return L(A(-1)), true
	}
	defer s.teardown()
	slots, dev := []Sx{}, []Sx{}
	s.lock.RLock()
	for i := 0; i < cfg.nrec; i++ {
		dev = append(dev, L(AI(i), LBytes(idx.data[i*rs:(i+1)*rs])))
		r, err := s.lra.Get(i)
		if err != nil {
			continue
		}
		slots = append(slots, L(AI(i), LBytes(r.RecordKey.Key[:]), AU(uint64(r.RecordKey.Attempt)), AI(r.Location.BlockIndex),
			A(r.Location.OffsetBytes), A(r.Location.SizeBytes)))
	}
	// key level: what the real key-location map finds for every key that occurs in a record
	keys := []Sx{}
	seenKey := map[local.Key]bool{}
	for _, r := range in.Nth(3).List {
		var key local.Key
		for i, x := range r.Nth(4).List {
			key[i] = byte(x.Z)
		}
		if seenKey[key] {
			continue
		}
		seenKey[key] = true
		loc, err := s.klm.Get(key)
		if err != nil {
			keys = append(keys, L(LBytes(key[:]), A(0)))
		} else {
			keys = append(keys, L(LBytes(key[:]), A(1), AI(loc.BlockIndex), A(loc.OffsetBytes), A(loc.SizeBytes)))
		}
	}
	s.lock.RUnlock()
	return L(s.restored, L(slots...), L(dev...), L(keys...)), true
}

func c02GenDiff(r *Rand) Sx {
	sector := r.Pick([]int{16, 32})
	spb := r.Pick([]int{2, 3, 4})
	old, cur, nw, spare := r.Pick([]int{0, 1, 2}), r.Pick([]int{0, 1, 2}), r.Pick([]int{1, 2}), r.Pick([]int{0, 1, 2})
	nrec := r.Pick([]int{5, 7, 11, 16})
	cfg := L(AI(sector), AI(spb), AI(old), AI(cur), AI(nw), AI(spare), AI(nrec), A(4), A(8), A(5), A(0))
	bs := sector * spb
	nblocks := old + cur + nw + spare
	oldest := uint64(r.Pick([]int{0, 1, 1, 7, 4294967294, 4294967295}))
	perm := []int{}
	for i := 0; i < nblocks; i++ {
		perm = append(perm, i)
	}
	for i := len(perm) - 1; i > 0; i-- {
		j := r.Intn(i + 1)
		perm[i], perm[j] = perm[j], perm[i]
	}
	nb := r.Intn(nblocks + 1)
	if nb == 0 && r.Chance(85) {
		nb = 1 + r.Intn(nblocks)
	}
	blocks := []Sx{}
	type ep struct {
		id   uint64
		seed uint64
		last int
	}
	eps := []ep{}
	for b := 0; b < nb; b++ {
		lo, sz := perm[b]*bs, bs
		if r.Chance(7) {
			lo += 1 // not a region of the allocator: restoration stops here
		}
		if r.Chance(4) {
			sz = bs + sector
		}
		seeds := []Sx{}
		for k := r.Pick([]int{0, 1, 1, 2, 3}); k > 0; k-- {
			sd := r.U64()
			if r.Chance(15) {
				sd = uint64(r.Intn(3))
			}
			seeds = append(seeds, AU(sd))
			eps = append(eps, ep{id: (oldest + uint64(len(eps))) % (1 << 32), seed: sd, last: b})
		}
		blocks = append(blocks, L(AI(lo), AI(sz), AI(r.Intn(bs+1)), L(seeds...)))
	}
	recs := []Sx{}
	hinit := r.U64()
	tableSize := nrec
	for tableSize > 3 && !primes.IsPrime(tableSize) {
		tableSize--
	}
	for k := 2 + r.Intn(9); k > 0; k-- {
		var epoch, seed uint64
		bfl := r.Pick([]int{0, 0, 0, 1, 1, 2, 3})
		if len(eps) > 0 && !r.Chance(12) {
			e := eps[r.Intn(len(eps))]
			epoch, seed = e.id, e.seed
			if r.Chance(85) {
				bfl = r.Intn(e.last + 1)
			}
			if r.Chance(12) {
				seed = r.U64() // written under another (stale) seed
			}
			if r.Chance(8) {
				seed ^= 1
			}
		} else {
			epoch, seed = (oldest+uint64(r.Intn(6)))%(1<<32), r.U64()
			if r.Chance(30) {
				epoch = (oldest + (1 << 32) - 1 - uint64(r.Intn(2))) % (1 << 32)
			}
		}
		key := make([]byte, 32)
		for i := range key {
			key[i] = byte(r.Intn(256))
		}
		flip := 100
		if r.Chance(18) {
			flip = r.Intn(66)
		}
		att := r.Intn(5)
		slot := r.Intn(nrec)
		if r.Chance(65) {
			// where the key-location map would look for it
			att = r.Pick([]int{0, 0, 0, 0, 1, 2})
			var kk local.Key
			copy(kk[:], key)
			rk := local.LocationRecordKey{Key: kk, Attempt: uint32(att)}
			slot = int(rk.Hash(hinit) % uint64(tableSize))
		}
		recs = append(recs, L(AI(slot), AU(seed), AU(epoch), AI(bfl), LBytes(key), AI(att), AI(r.Intn(bs)), AI(r.Intn(bs)), AI(flip)))
	}
	return L(A(1), cfg, L(AU(oldest), L(blocks...), AU(hinit)), L(recs...))
}
