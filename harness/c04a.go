package main

// C04A — sub-check of C04: the ACCOUNTING of the real block allocators.
//
// local.NewBlockDeviceBackedBlockAllocator (over a byte-slice block device) or
// local.NewInMemoryBlockAllocator is driven through its exported interface:
// NewBlock, NewBlockAtLocation, and on the blocks handed out Release, Get
// (reader held open, closed later), HasSpace/Put (writer held, run later), in
// any order — including Release before the readers are closed.  The harness
// reports what every call returned and, for every block handed out, WHERE on
// the device its first byte is read from (a one byte read through Get).  At
// the end NewBlock is called until it fails.
//
// Input:  ((kind sector spb n) (op ...)); ops and observations: coq/Run/R04A.v.

import (
	"bytes"
	"io"
	"sort"
	"strings"

	"github.com/buildbarn/bb-storage/pkg/blobstore/buffer"
	"github.com/buildbarn/bb-storage/pkg/blobstore/local"
	"github.com/buildbarn/bb-storage/pkg/digest"
	pb "github.com/buildbarn/bb-storage/pkg/proto/blobstore/local"

	"google.golang.org/grpc/status"
)

func init() { props["C04A"] = c04a{} }

type c04a struct{}

// ---- byte-slice block device that remembers where the last read arrived ----

type c04aDevice struct {
	data     []byte
	lastRead int64
}

func (d *c04aDevice) ReadAt(p []byte, off int64) (int, error) {
	d.lastRead = off
	if off < 0 || off >= int64(len(d.data)) {
		return 0, io.EOF
	}
	n := copy(p, d.data[off:])
	if n < len(p) {
		return n, io.EOF
	}
	return n, nil
}

func (d *c04aDevice) WriteAt(p []byte, off int64) (int, error) {
	if off < 0 || off+int64(len(p)) > int64(len(d.data)) {
		return 0, io.ErrShortWrite
	}
	copy(d.data[off:], p)
	return len(p), nil
}
func (d *c04aDevice) Sync() error  { return nil }
func (d *c04aDevice) Close() error { return nil }

type c04aPin struct {
	h      int
	open   bool
	kind   int // 1 reader, 2 writer
	reader buffer.Buffer
	writer local.BlockPutWriter
	data   []byte
}

type c04aPut struct {
	h    int
	off  int64
	data []byte
}

const (
	c04aMaxSector = 4096
	c04aMaxSpb    = 64
	c04aMaxN      = 64
	c04aMaxZ      = int64(1) << 40
)

func c04aAtomIn(s Sx, lo, hi int64) (int64, bool) {
	if !s.IsAtom || s.Big != "" || s.Z < lo || s.Z > hi {
		return 0, false
	}
	return s.Z, true
}

// c04aOpOK: exact arity, atoms, handles and sizes non-negative.
func c04aOpOK(op Sx) bool {
	if op.IsAtom || op.Len() < 1 {
		return false
	}
	for _, x := range op.List {
		if !x.IsAtom || x.Big != "" {
			return false
		}
	}
	arity := map[int64]int{0: 1, 1: 4, 2: 2, 3: 2, 4: 2, 5: 3}
	a, ok := arity[op.Nth(0).Z]
	if !ok || op.Len() != a {
		return false
	}
	switch op.Nth(0).Z {
	case 1:
		for i := 1; i <= 3; i++ {
			if z := op.Nth(i).Z; z < -c04aMaxZ || z > c04aMaxZ {
				return false
			}
		}
		if op.Nth(3).Z < 0 {
			return false
		}
	case 2, 3, 4:
		if op.Nth(1).Z < 0 || op.Nth(1).Z > 1<<20 {
			return false
		}
	case 5:
		if op.Nth(1).Z < 0 || op.Nth(1).Z > 1<<20 || op.Nth(2).Z < 0 || op.Nth(2).Z > 1<<20 {
			return false
		}
	}
	return true
}

func (c04a) Exec(in Sx) (Sx, bool) {
	if in.IsAtom || in.Len() != 2 || in.Nth(0).IsAtom || in.Nth(0).Len() != 4 || in.Nth(1).IsAtom {
		return Sx{}, false
	}
	cfg := in.Nth(0)
	kind, ok0 := c04aAtomIn(cfg.Nth(0), 0, 1)
	sector, ok1 := c04aAtomIn(cfg.Nth(1), 1, c04aMaxSector)
	spb, ok2 := c04aAtomIn(cfg.Nth(2), 1, c04aMaxSpb)
	n, ok3 := c04aAtomIn(cfg.Nth(3), 0, c04aMaxN)
	if !ok0 || !ok1 || !ok2 || !ok3 {
		return Sx{}, false
	}
	ops := in.Nth(1).List
	if len(ops) > 400 {
		return Sx{}, false
	}
	for _, op := range ops {
		if !c04aOpOK(op) {
			return Sx{}, false
		}
	}
	bs := sector * spb
	dev := &c04aDevice{data: make([]byte, n*bs), lastRead: -1}
	var alloc local.BlockAllocator
	var before [4]float64
	if kind == 0 {
		alloc = local.NewBlockDeviceBackedBlockAllocator(dev, stRawFactory{}, int(sector), spb, int(n), "c04a")
		before = stCounters("c04a")
	} else {
		alloc = local.NewInMemoryBlockAllocator(int(bs))
	}

	var blocks []local.Block
	var pins []*c04aPin
	var puts []c04aPut
	nodata := func(bool) {}

	// handed: a block was handed out; find out where its bytes live.
	handed := func(b local.Block, lo, ls int64) Sx {
		blocks = append(blocks, b)
		probe := int64(-1)
		if kind == 0 {
			dev.lastRead = -1
			b.Get(digest.BadDigest, 0, 1, nodata).ToByteSlice(1)
			probe = dev.lastRead
		}
		return L(A(1), A(lo), A(ls), A(probe))
	}
	newBlock := func() Sx {
		b, loc, err := alloc.NewBlock()
		if err != nil {
			return L(A(0), AI(int(status.Code(err))))
		}
		lo, ls := int64(-1), int64(-1)
		if loc != nil {
			lo, ls = loc.OffsetBytes, loc.SizeBytes
		}
		return handed(b, lo, ls)
	}
	one := func(op Sx) (o Sx) {
		defer func() {
			if r := recover(); r != nil {
				o = L(A(-1))
			}
		}()
		switch op.Nth(0).Z {
		case 0:
			return newBlock()
		case 1:
			b, ok := alloc.NewBlockAtLocation(&pb.BlockLocation{OffsetBytes: op.Nth(1).Z, SizeBytes: op.Nth(2).Z}, op.Nth(3).Z)
			if !ok {
				return L(A(0), A(0))
			}
			return handed(b, op.Nth(1).Z, op.Nth(2).Z)
		case 2:
			h := op.Nth(1).Int()
			if h >= len(blocks) {
				return L(A(9))
			}
			blocks[h].Release()
			return L(A(2))
		case 3:
			h := op.Nth(1).Int()
			if h >= len(blocks) {
				return L(A(9))
			}
			r := blocks[h].Get(digest.BadDigest, 0, 1, nodata)
			pins = append(pins, &c04aPin{h: h, open: true, kind: 1, reader: r})
			return L(A(3))
		case 5:
			h := op.Nth(1).Int()
			size := op.Nth(2).Z
			if h >= len(blocks) {
				return L(A(9))
			}
			if !blocks[h].HasSpace(size) {
				return L(A(5), A(0))
			}
			w := blocks[h].Put(size)
			data := make([]byte, size)
			for i := range data {
				data[i] = byte(17*len(pins) + 3*h + i + 1)
			}
			pins = append(pins, &c04aPin{h: h, open: true, kind: 2, writer: w, data: data})
			return L(A(5), A(1))
		default:
			p := op.Nth(1).Int()
			if p >= len(pins) || !pins[p].open {
				return L(A(9))
			}
			pn := pins[p]
			pn.open = false
			if pn.kind == 1 {
				pn.reader.Discard()
				return L(A(4), A(1), A(0), A(1))
			}
			off, err := pn.writer(buffer.NewValidatedBufferFromByteSlice(pn.data))()
			if err == nil {
				puts = append(puts, c04aPut{h: pn.h, off: off, data: pn.data})
			}
			return L(A(4), A(2), A(off), AB(err == nil))
		}
	}

	var obs, drain []Sx
	panicked := false
	for _, op := range ops {
		o := one(op)
		obs = append(obs, o)
		if o.Nth(0).Z == -1 {
			panicked = true
			break
		}
	}
	if kind == 0 && !panicked {
		for i := int64(0); i <= n; i++ {
			o := func() (o Sx) {
				defer func() {
					if r := recover(); r != nil {
						o = L(A(-1))
					}
				}()
				return newBlock()
			}()
			drain = append(drain, o)
			if o.Nth(0).Z != 1 {
				break
			}
		}
	}
	allocs, rels, intact := int64(0), int64(0), true
	if kind == 0 {
		after := stCounters("c04a")
		allocs, rels = int64(after[0]-before[0]), int64(after[1]-before[1])
	} else {
		// in-memory blocks stay readable: every completed Put must still be there
		for _, p := range puts {
			if len(p.data) == 0 {
				continue
			}
			got, err := blocks[p.h].Get(digest.BadDigest, p.off, int64(len(p.data)), nodata).ToByteSlice(len(p.data))
			if err != nil || !bytes.Equal(got, p.data) {
				intact = false
			}
		}
	}
	return L(L(obs...), L(drain...), L(A(allocs), A(rels), AB(intact))), true
}

// ---- generation ----

// c04aSim is the generator's own bookkeeping (a generation aid, not a
// judge): which regions it expects to be free and which handles / pins exist,
// so that most generated calls are meaningful.
type c04aSim struct {
	kind, sector, spb, n int64
	free                 []int64 // region indices
	hreg                 []int64
	hrel                 []bool
	hpins                []int
	hwos, hsh            []int64 // write offset (sectors; bytes for kind 1), shared sector fill
	pinh                 []int
	pinopen              []bool
	ops                  []Sx
}

func (s *c04aSim) bs() int64 { return s.sector * s.spb }

func (s *c04aSim) handle(reg, wos int64) {
	s.hreg, s.hrel, s.hpins = append(s.hreg, reg), append(s.hrel, false), append(s.hpins, 0)
	s.hwos, s.hsh = append(s.hwos, wos), append(s.hsh, 0)
}

func (s *c04aSim) newBlock() {
	s.ops = append(s.ops, L(A(0)))
	if s.kind == 1 {
		s.handle(-1, 0)
		return
	}
	if len(s.free) == 0 {
		return
	}
	s.handle(s.free[0], 0)
	s.free = s.free[1:]
}

func (s *c04aSim) at(off, size, wo int64) {
	s.ops = append(s.ops, L(A(1), A(off), A(size), A(wo)))
	if s.kind == 1 || size != s.bs() || off%s.bs() != 0 {
		return
	}
	for i, f := range s.free {
		if f*s.bs() == off {
			s.free[i] = s.free[len(s.free)-1]
			s.free = s.free[:len(s.free)-1]
			s.handle(f, (wo+s.sector-1)/s.sector)
			return
		}
	}
}

func (s *c04aSim) maybeFree(h int) {
	if h < len(s.hreg) && s.hrel[h] && s.hpins[h] == 0 && s.kind == 0 {
		s.free = append(s.free, s.hreg[h])
	}
}

func (s *c04aSim) rel(h int) {
	s.ops = append(s.ops, L(A(2), AI(h)))
	if h < len(s.hreg) && !s.hrel[h] {
		s.hrel[h] = true
		s.maybeFree(h)
	}
}

func (s *c04aSim) pin(h int, put bool, size int64) {
	if put {
		s.ops = append(s.ops, L(A(5), AI(h), A(size)))
	} else {
		s.ops = append(s.ops, L(A(3), AI(h)))
	}
	if h >= len(s.hreg) || s.hrel[h] {
		return
	}
	if put {
		if s.kind == 1 {
			if s.bs()-s.hwos[h] < size {
				return
			}
			s.hwos[h] += size
		} else {
			if (s.spb-s.hwos[h])*s.sector-s.hsh[h] < size {
				return
			}
			e := s.hsh[h] + size
			s.hwos[h] += e / s.sector
			s.hsh[h] = e % s.sector
		}
	}
	s.hpins[h]++
	s.pinh, s.pinopen = append(s.pinh, h), append(s.pinopen, true)
}

func (s *c04aSim) fin(p int) {
	s.ops = append(s.ops, L(A(4), AI(p)))
	if p < len(s.pinh) && s.pinopen[p] {
		s.pinopen[p] = false
		s.hpins[s.pinh[p]]--
		s.maybeFree(s.pinh[p])
	}
}

func (s *c04aSim) unreleased(r *Rand) (int, bool) {
	var c []int
	for h, rel := range s.hrel {
		if !rel {
			c = append(c, h)
		}
	}
	if len(c) == 0 {
		return 0, false
	}
	return c[r.Intn(len(c))], true
}

func (s *c04aSim) openPin(r *Rand) (int, bool) {
	var c []int
	for p, o := range s.pinopen {
		if o {
			c = append(c, p)
		}
	}
	if len(c) == 0 {
		return 0, false
	}
	return c[r.Intn(len(c))], true
}

// location picks a location: mostly a free region, else one in use, else a
// bad one (off a block boundary, out of range, wrong size).
func (s *c04aSim) location(r *Rand) (int64, int64) {
	bs := s.bs()
	k := r.Intn(100)
	switch {
	case k < 60 && len(s.free) > 0:
		return s.free[r.Intn(len(s.free))] * bs, bs
	case k < 80 && len(s.hreg) > 0 && s.kind == 0:
		return s.hreg[r.Intn(len(s.hreg))] * bs, bs
	case k < 85:
		return int64(r.Intn(int(s.n)+1)) * bs, bs // possibly == n*bs: just out of range
	case k < 90:
		return int64(r.Intn(int(s.n)+1))*bs + int64(1+r.Intn(int(bs))), bs // misaligned
	case k < 95:
		return int64(r.Intn(int(s.n)+1)) * bs, bs + int64(r.Intn(3)) - 1 // size off by one
	case k < 97:
		return -bs, bs
	default:
		return int64(r.Intn(int(s.n)+2)) * s.spb, bs // sector offset instead of byte offset
	}
}

func (s *c04aSim) writeOffset(r *Rand) int64 {
	switch r.Intn(4) {
	case 0:
		return 0
	case 1:
		return s.bs()
	default:
		return int64(r.Intn(int(s.bs()) + 2))
	}
}

// mix appends k calls drawn with the given weights
// (new, at, rel, get, put, fin).
func (s *c04aSim) mix(r *Rand, k int, w [6]int) {
	tot := 0
	for _, x := range w {
		tot += x
	}
	for i := 0; i < k; i++ {
		x := r.Intn(tot)
		c := 0
		for x >= w[c] {
			x -= w[c]
			c++
		}
		switch c {
		case 0:
			s.newBlock()
		case 1:
			off, size := s.location(r)
			s.at(off, size, s.writeOffset(r))
		case 2:
			if h, ok := s.unreleased(r); ok {
				s.rel(h)
			} else {
				s.newBlock()
			}
		case 3:
			if h, ok := s.unreleased(r); ok {
				s.pin(h, false, 0)
			} else {
				s.newBlock()
			}
		case 4:
			if h, ok := s.unreleased(r); ok {
				s.pin(h, true, int64(r.Intn(int(s.bs())+2)))
			} else {
				s.newBlock()
			}
		default:
			if p, ok := s.openPin(r); ok {
				s.fin(p)
			} else if h, ok := s.unreleased(r); ok {
				s.rel(h)
			} else {
				s.newBlock()
			}
		}
	}
}

func (c04a) Gen(r *Rand, i int, tier string) Sx {
	s := &c04aSim{}
	s.sector = int64(r.Pick([]int{1, 4, 16, 512}))
	s.spb = int64(1 + r.Intn(4))
	s.n = int64(1 + r.Intn(6))
	if r.Chance(8) {
		s.kind = 1
	}
	if r.Chance(3) {
		s.n = 0
	}
	for j := int64(0); j < s.n; j++ {
		s.free = append(s.free, j)
	}
	long := 1
	if tier == "thorough" {
		long = 1 + r.Intn(3)
	}
	sc := r.Intn(100)
	switch {
	case sc < 45:
		// restart: restore some blocks at their locations (any order, with bad
		// and repeated locations in between), then grow, rotate and pin
		k := r.Intn(int(s.n) + 1)
		for j := 0; j < k+r.Intn(3); j++ {
			off, size := s.location(r)
			s.at(off, size, s.writeOffset(r))
		}
		s.mix(r, long*(4+r.Intn(int(s.n)+4)), [6]int{6, 1, 3, 2, 1, 2})
		s.mix(r, long*r.Intn(12), [6]int{3, 2, 3, 3, 1, 4})
	case sc < 75:
		// fill up, release while readers are open, NewBlock must wait for them
		for j := int64(0); j <= s.n; j++ {
			if r.Chance(85) {
				s.newBlock()
			}
		}
		for rounds := 0; rounds < long*(1+r.Intn(3)); rounds++ {
			h, ok := s.unreleased(r)
			if !ok {
				break
			}
			for j := r.Intn(3); j > 0; j-- {
				s.pin(h, r.Chance(30), int64(r.Intn(int(s.bs())+1)))
			}
			s.rel(h)
			s.newBlock()
			if r.Chance(30) {
				s.at(s.hreg[h]*s.bs(), s.bs(), s.writeOffset(r))
			}
			for {
				p, ok := s.openPin(r)
				if !ok || r.Chance(15) {
					break
				}
				s.fin(p)
				if r.Chance(40) {
					s.newBlock()
				}
			}
			s.mix(r, r.Intn(4), [6]int{3, 2, 2, 1, 1, 2})
		}
	case sc < 90:
		s.mix(r, long*(5+r.Intn(30)), [6]int{4, 2, 3, 3, 2, 3})
	default:
		// hostile: handles and pins at random, repeated Release(), Get/Put on
		// released blocks (the code panics on use count misuse), odd locations
		k := 3 + r.Intn(25)
		for j := 0; j < k; j++ {
			switch r.Intn(8) {
			case 0, 1:
				s.newBlock()
			case 2:
				off, size := s.location(r)
				if r.Chance(20) {
					off, size = int64(r.Intn(1<<20))-1000, int64(r.Intn(1<<12))
				}
				s.at(off, size, int64(r.Intn(1<<16)))
			case 3, 4:
				s.rel(r.Intn(len(s.hreg) + 2))
			case 5:
				s.pin(r.Intn(len(s.hreg)+2), false, 0)
			case 6:
				s.pin(r.Intn(len(s.hreg)+2), true, int64(r.Intn(int(2*s.bs())+2)))
			default:
				s.fin(r.Intn(len(s.pinh) + 2))
			}
		}
	}
	return L(L(A(s.kind), A(s.sector), A(s.spb), A(s.n)), L(s.ops...))
}

// Class: what happened in the case.  Non-trivial = a region was handed out
// again after it had been given back, or a block was restored at a location
// and NewBlock succeeded afterwards.
func (c04a) Class(in, obs Sx) (string, bool) {
	site := "dev"
	if in.Nth(0).Nth(0).Z == 1 {
		site = "mem"
	}
	ops := in.Nth(1).List
	os := obs.Nth(0).List
	seen := map[int64]bool{}
	f := map[string]bool{}
	atOK, newAfterAt := false, false
	relh := map[int64]bool{}
	pinned := map[int64]int{}
	pinh := []int64{}
	nh := int64(0)
	for i, o := range os {
		if i >= len(ops) {
			break
		}
		op := ops[i]
		switch o.Nth(0).Z {
		case -1:
			f["panic"] = true
		case 1:
			pr := o.Nth(3).Z
			if seen[pr] && pr >= 0 {
				f["reuse"] = true
			}
			seen[pr] = true
			if op.Nth(0).Z == 1 {
				atOK = true
				f["at-ok"] = true
			} else if atOK {
				newAfterAt = true
			}
			nh++
		case 0:
			if op.Nth(0).Z == 1 {
				f["at-fail"] = true
			} else {
				f["unavail"] = true
			}
		case 2:
			h := op.Nth(1).Z
			if relh[h] {
				f["misuse"] = true
			}
			relh[h] = true
			if pinned[h] > 0 {
				f["rel-pinned"] = true
			}
		case 3:
			h := op.Nth(1).Z
			if relh[h] {
				f["misuse"] = true
			}
			pinned[h]++
			pinh = append(pinh, h)
		case 5:
			if o.Nth(1).Z == 1 {
				h := op.Nth(1).Z
				pinned[h]++
				pinh = append(pinh, h)
				f["put"] = true
			}
		case 4:
			p := op.Nth(1).Z
			if p < int64(len(pinh)) {
				pinned[pinh[p]]--
			}
		}
	}
	for _, o := range obs.Nth(1).List {
		if o.Nth(0).Z == 1 && seen[o.Nth(3).Z] {
			f["reuse"] = true
		}
	}
	var names []string
	for k := range f {
		names = append(names, k)
	}
	sort.Strings(names)
	cls := site + "/" + strings.Join(names, "+")
	if len(names) == 0 {
		cls = site + "/plain"
	}
	return cls, f["reuse"] || newAfterAt
}
