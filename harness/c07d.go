package main

// C07D — sub-check of C07: the REAL directory-backed persistent state store
// (local.NewDirectoryBackedPersistentStateStore) over a simulated directory with
// a volatile and a durable name space.  Files are objects shared between the
// two name spaces (as on a real file system); a power cut keeps the durable
// name space and turns the content of every un-synced file into garbage.  A
// process kill freezes the handle the dying process was using: whatever that
// process still does (deferred clean-up included) has no effect.
//
// Input:  ((1 d f) | (2 d k) | (3) | (4)) ...      see coq/Run/R07D.v
// Observation: (1 ok (ops...)) | (2 (ops...)) | (3) | (4 r)

import (
	"fmt"
	"io"
	"os"

	"github.com/buildbarn/bb-storage/pkg/blobstore/local"
	"github.com/buildbarn/bb-storage/pkg/filesystem"
	"github.com/buildbarn/bb-storage/pkg/filesystem/path"
	pb "github.com/buildbarn/bb-storage/pkg/proto/blobstore/local"

	"google.golang.org/grpc/codes"
	"google.golang.org/grpc/status"
)

func init() {
	props["C07D"] = c07d{}
	props["C02D"] = c07d{} // the same sub-check folded into C02 and C04 (clause 2: durability / atomicity)
	props["C04D"] = c07d{}
}

type c07d struct{}

type c07dFile struct {
	content []byte
	synced  bool
}

// the medium: two name spaces over shared file objects
type c07dMedium struct {
	vol map[string]*c07dFile
	dur map[string]*c07dFile
}

// one process's handle on the directory
type c07dDir struct {
	filesystem.Directory // any other method: nil dereference = the store does not use it
	m                    *c07dMedium
	dead                 bool
	ops                  []int // operations attempted by the current call
	fault                int   // number of the operation that fails by injection (0 = none)
	kill                 int   // number of the operation at which the process dies (0 = none)
}

var errC07dInjected = status.Error(codes.Internal, "injected directory failure")

// op registers operation k of the current call; false = do not perform it.
func (d *c07dDir) op(k int) error {
	if d.dead {
		return errC07dInjected
	}
	d.ops = append(d.ops, k)
	if d.kill == len(d.ops) {
		d.dead = true
		return errC07dInjected
	}
	if d.fault == len(d.ops) {
		return errC07dInjected
	}
	return nil
}

func (d *c07dDir) Remove(name path.Component) error {
	if err := d.op(1); err != nil {
		return err
	}
	if _, ok := d.m.vol[name.String()]; !ok {
		return os.ErrNotExist
	}
	delete(d.m.vol, name.String())
	return nil
}

type c07dAppender struct {
	d *c07dDir
	f *c07dFile
}

func (d *c07dDir) OpenAppend(name path.Component, mode filesystem.CreationMode) (filesystem.FileAppender, error) {
	if err := d.op(2); err != nil {
		return nil, err
	}
	f, exists := d.m.vol[name.String()]
	switch {
	case mode == filesystem.DontCreate:
		if !exists {
			return nil, os.ErrNotExist
		}
	case mode == filesystem.CreateReuse(0o666) || mode == filesystem.CreateReuse(0o644) || mode == filesystem.CreateReuse(0o600):
		if !exists {
			f = &c07dFile{}
			d.m.vol[name.String()] = f
		}
	default: // exclusive creation
		if exists {
			return nil, os.ErrExist
		}
		f = &c07dFile{}
		d.m.vol[name.String()] = f
	}
	return &c07dAppender{d: d, f: f}, nil
}

func (a *c07dAppender) Write(p []byte) (int, error) {
	if err := a.d.op(3); err != nil {
		return 0, err
	}
	a.f.content = append(a.f.content, p...)
	a.f.synced = false
	return len(p), nil
}

func (a *c07dAppender) Sync() error {
	if err := a.d.op(4); err != nil {
		return err
	}
	a.f.synced = true
	return nil
}

func (a *c07dAppender) Close() error { return a.d.op(5) }

func (d *c07dDir) Rename(oldName path.Component, newDirectory filesystem.Directory, newName path.Component) error {
	if err := d.op(6); err != nil {
		return err
	}
	if nd, ok := newDirectory.(*c07dDir); !ok || nd.m != d.m {
		return fmt.Errorf("rename into another directory")
	}
	f, ok := d.m.vol[oldName.String()]
	if !ok {
		return os.ErrNotExist
	}
	delete(d.m.vol, oldName.String())
	d.m.vol[newName.String()] = f
	return nil
}

func (d *c07dDir) Sync() error {
	if err := d.op(7); err != nil {
		return err
	}
	d.m.dur = map[string]*c07dFile{}
	for k, f := range d.m.vol {
		d.m.dur[k] = f
	}
	return nil
}

type c07dReader struct{ data []byte }

func (r *c07dReader) ReadAt(p []byte, off int64) (int, error) {
	if off >= int64(len(r.data)) {
		return 0, io.EOF
	}
	n := copy(p, r.data[off:])
	if n < len(p) {
		return n, io.EOF
	}
	return n, nil
}
func (r *c07dReader) Close() error { return nil }
func (r *c07dReader) GetNextRegionOffset(off int64, rt filesystem.RegionType) (int64, error) {
	return 0, status.Error(codes.Unimplemented, "unused")
}
func (r *c07dReader) Len() (int64, error) { return int64(len(r.data)), nil }

func (d *c07dDir) OpenRead(name path.Component) (filesystem.FileReader, error) {
	if d.dead {
		return nil, errC07dInjected
	}
	f, ok := d.m.vol[name.String()]
	if !ok {
		return nil, os.ErrNotExist
	}
	return &c07dReader{data: append([]byte{}, f.content...)}, nil
}

func (c07d) Exec(in Sx) (res Sx, ok bool) {
	if in.IsAtom || in.Len() > 400 {
		return Sx{}, false
	}
	m := &c07dMedium{vol: map[string]*c07dFile{}, dur: map[string]*c07dFile{}}
	dir := &c07dDir{m: m}
	store := local.NewDirectoryBackedPersistentStateStore(dir)
	restart := func() {
		dir = &c07dDir{m: m}
		store = local.NewDirectoryBackedPersistentStateStore(dir)
	}
	opsSx := func() Sx {
		l := make([]Sx, len(dir.ops))
		for i, k := range dir.ops {
			l[i] = AI(k)
		}
		return L(l...)
	}
	out := []Sx{}
	for _, e := range in.List {
		if e.IsAtom || e.Len() < 1 {
			return Sx{}, false
		}
		switch e.Nth(0).Int() {
		case 1, 2:
			if e.Len() != 3 {
				return Sx{}, false
			}
			d, pos := e.Nth(1).Int(), e.Nth(2).Int()
			if d < 0 || d > 1<<30 || pos < 0 || pos > 12 {
				return Sx{}, false
			}
			dir.ops = nil
			dir.fault, dir.kill = 0, 0
			if e.Nth(0).Int() == 1 {
				dir.fault = pos
			} else {
				dir.kill = pos
			}
			// the state id travels in oldest_epoch_id (+2: 0 is the zero value, 1 the fresh state)
			err := store.WritePersistentState(&pb.PersistentState{OldestEpochId: uint32(d) + 2, KeyLocationMapHashInitialization: 12345})
			if e.Nth(0).Int() == 1 {
				out = append(out, L(A(1), AB(err == nil), opsSx()))
			} else {
				if !dir.dead {
					// the call finished before reaching operation k: nothing to kill; the
					// process restarts all the same
					dir.dead = true
				}
				out = append(out, L(A(2), opsSx()))
				restart()
			}
		case 3:
			dir.dead = true
			nv := map[string]*c07dFile{}
			for k, f := range m.dur {
				g := &c07dFile{content: append([]byte{}, f.content...), synced: true}
				if !f.synced {
					g.content = []byte{0xff, 0xff, 0xff, 0xff, 0xff, 0xff, 0xff}
				}
				nv[k] = g
			}
			m.vol = nv
			m.dur = map[string]*c07dFile{}
			for k, f := range nv {
				m.dur[k] = f
			}
			restart()
			out = append(out, L(A(3)))
		case 4:
			ps, err := store.ReadPersistentState()
			if err != nil {
				out = append(out, L(A(4), A(-2)))
				break
			}
			r := int64(ps.OldestEpochId) - 2 // 1 = a freshly initialised state: -1
			if ps.OldestEpochId == 0 {
				r = -3 // an empty or foreign state file was accepted
			}
			out = append(out, L(A(4), A(r)))
		default:
			return Sx{}, false
		}
	}
	return L(out...), true
}

func (c07d) Gen(r *Rand, i int, tier string) Sx {
	n := 4 + r.Intn(14)
	if tier == "thorough" {
		n += r.Intn(30)
	}
	ev := []Sx{}
	next := 0
	for len(ev) < n {
		switch x := r.Intn(100); {
		case x < 30:
			ev = append(ev, L(A(1), AI(next), A(0)))
			next++
		case x < 48:
			ev = append(ev, L(A(1), AI(next), AI(1+r.Intn(7))))
			next++
			if r.Chance(60) { // the retry of the same state, as PeriodicSyncer does
				ev = append(ev, L(A(1), AI(next-1), A(0)))
			}
		case x < 64:
			ev = append(ev, L(A(2), AI(next), AI(1+r.Intn(7))))
			next++
		case x < 78:
			ev = append(ev, L(A(3)))
		default:
			ev = append(ev, L(A(4)))
		}
		if r.Chance(35) {
			ev = append(ev, L(A(4)))
		}
	}
	return L(ev...)
}

func (c07d) Class(in, obs Sx) (string, bool) {
	kills, faults, power := 0, 0, 0
	for _, e := range in.List {
		switch e.Nth(0).Int() {
		case 1:
			if e.Nth(2).Int() != 0 {
				faults++
			}
		case 2:
			kills++
		case 3:
			power++
		}
	}
	cls := "dirstore/plain"
	switch {
	case kills > 0 && power > 0:
		cls = "dirstore/kill+power"
	case kills > 0:
		cls = "dirstore/kill"
	case power > 0:
		cls = "dirstore/power"
	case faults > 0:
		cls = "dirstore/fault"
	}
	return cls, kills+faults+power > 0
}
