package main

// C13: the real completenesschecking.NewCompletenessCheckingBlobAccess over a
// recording model Action Cache and a recording, scripted model CAS.
//
// Input  (cfg ac ar trees cas)
//   cfg   = (batch maxmsg maxtree chunk fn)     fn: 0 MD5, 1 SHA1, 2 SHA256
//   ac    = (code)                              0: the AC has the entry
//   ar    = (files dirs stdout stderr inl)      files = (dig...), dirs = ((treedig rootdig)...)
//   dig   = ()            absent
//         | (0 h s)       blob h of size s
//         | (1 k)         malformed digest of kind k
//         | (2 t)         digest of tree t (of its undamaged encoding)
//         | (3 t j)       digest of directory j of tree t
//   trees = ((kind payload damage)...)
//           kind 0: payload = ((files subdirs)...) directories, first = root
//           kind 1: payload = raw bytes
//           damage = () | (1 k) truncate to k bytes | (2 k x) xor byte k with x
//                  | (3 k c) read error c after k bytes | (4 c) Get fails with c
//                  | (5) object not stored
//   cas   = (absent script)  absent = (dig...) initially absent objects;
//           script = ((code toggles)...) for FindMissing call k: presence of
//           `toggles` flips before the call; code != 0: the call fails.
//
// Observation: see coq/Run/R13.v.

import (
	"context"
	"fmt"
	"io"
	"sort"
	"strings"

	remoteexecution "github.com/bazelbuild/remote-apis/build/bazel/remote/execution/v2"
	"github.com/buildbarn/bb-storage/pkg/blobstore"
	"github.com/buildbarn/bb-storage/pkg/blobstore/buffer"
	"github.com/buildbarn/bb-storage/pkg/blobstore/completenesschecking"
	"github.com/buildbarn/bb-storage/pkg/blobstore/slicing"
	"github.com/buildbarn/bb-storage/pkg/digest"

	"google.golang.org/grpc/codes"
	"google.golang.org/grpc/status"
	"google.golang.org/protobuf/encoding/protowire"
	"google.golang.org/protobuf/proto"
)

func init() { props["C13"] = c13{} }

type c13 struct{}

// ---------------------------------------------------------------- building

type c13Obj struct {
	stored   []byte
	failAt   int // -1: none
	failCode int
	getCode  int // != 0: Get returns an error buffer
	absent   bool
}

type c13Built struct {
	fn      digest.Function
	batch   int
	maxmsg  int
	maxtree int64
	chunk   int
	acCode  int

	ids    map[string]int
	ar     *remoteexecution.ActionResult
	arData []byte
	// per tree: digest of the undamaged encoding, per-directory digests, encoded length
	treeDigest []*remoteexecution.Digest
	dirDigest  [][]*remoteexecution.Digest
	treeLen    []int
	dirLen     [][]int
	objects    map[string]*c13Obj

	absentStates [][]string // per scripted FindMissing call: absent keys
	absentFinal  []string
	scriptCodes  []int
}

func c13Fn(k int) (digest.Function, int, bool) {
	switch k {
	case 0:
		return digest.MustNewFunction("", remoteexecution.DigestFunction_MD5), 32, true
	case 1:
		return digest.MustNewFunction("", remoteexecution.DigestFunction_SHA1), 40, true
	case 2:
		return digest.MustNewFunction("", remoteexecution.DigestFunction_SHA256), 64, true
	}
	return digest.Function{}, 0, false
}

func c13IsList(s Sx) bool { return !s.IsAtom }
func c13IsAtom(s Sx) bool { return s.IsAtom && s.Big == "" }

func c13Key(d digest.Digest) string {
	return d.GetHashString() + "-" + fmt.Sprint(d.GetSizeBytes())
}

func (b *c13Built) id(d digest.Digest) int {
	k := c13Key(d)
	if v, ok := b.ids[k]; ok {
		return v
	}
	v := len(b.ids) + 1
	b.ids[k] = v
	return v
}

func (b *c13Built) digestOf(data []byte) digest.Digest {
	g := b.fn.NewGenerator(int64(len(data)))
	g.Write(data)
	return g.Sum()
}

// resolve turns a dig form into a wire digest. curTree/curDir restrict
// references from inside a tree to what is already encoded.
func (b *c13Built) resolve(s Sx, hexLen, curTree, curDir int) (*remoteexecution.Digest, bool) {
	if !c13IsList(s) {
		return nil, false
	}
	if s.Len() == 0 {
		return nil, true
	}
	for _, x := range s.List {
		if !c13IsAtom(x) {
			return nil, false
		}
	}
	switch s.Nth(0).Int() {
	case 0:
		if s.Len() != 3 || s.Nth(1).Z < 0 || s.Nth(2).Z < 0 {
			return nil, false
		}
		return &remoteexecution.Digest{
			Hash:      strings.Repeat("0", hexLen-8) + fmt.Sprintf("%08x", uint32(s.Nth(1).Z)),
			SizeBytes: s.Nth(2).Z,
		}, true
	case 1:
		if s.Len() != 2 {
			return nil, false
		}
		good := strings.Repeat("a", hexLen)
		switch s.Nth(1).Int() {
		case 0:
			return &remoteexecution.Digest{Hash: good[:hexLen-1] + "g", SizeBytes: 3}, true
		case 1:
			return &remoteexecution.Digest{Hash: good[:hexLen-1], SizeBytes: 3}, true
		case 2:
			return &remoteexecution.Digest{Hash: good, SizeBytes: -1}, true
		case 3:
			return &remoteexecution.Digest{Hash: "", SizeBytes: 0}, true
		case 4:
			return &remoteexecution.Digest{Hash: good[:hexLen-1] + "A", SizeBytes: 3}, true
		case 5:
			return &remoteexecution.Digest{Hash: good + "00000000", SizeBytes: 3}, true
		}
		return nil, false
	case 2:
		if s.Len() != 2 {
			return nil, false
		}
		t := s.Nth(1).Int()
		if t < 0 || t >= len(b.treeDigest) || b.treeDigest[t] == nil || (curTree >= 0 && t >= curTree) {
			return nil, false
		}
		return b.treeDigest[t], true
	case 3:
		if s.Len() != 3 {
			return nil, false
		}
		t, j := s.Nth(1).Int(), s.Nth(2).Int()
		if t < 0 || t >= len(b.dirDigest) || j < 0 || j >= len(b.dirDigest[t]) || b.dirDigest[t][j] == nil {
			return nil, false
		}
		if curTree >= 0 && (t > curTree || (t == curTree && j <= curDir)) {
			return nil, false
		}
		return b.dirDigest[t][j], true
	}
	return nil, false
}

func c13Build(in Sx) (*c13Built, bool) {
	if !c13IsList(in) || in.Len() != 5 {
		return nil, false
	}
	cfg, ac, ar, trees, cas := in.Nth(0), in.Nth(1), in.Nth(2), in.Nth(3), in.Nth(4)
	if !c13IsList(cfg) || cfg.Len() != 5 || !c13IsList(ac) || ac.Len() != 1 || !c13IsList(ar) || ar.Len() != 5 ||
		!c13IsList(trees) || !c13IsList(cas) || cas.Len() != 2 {
		return nil, false
	}
	for _, x := range cfg.List {
		if !c13IsAtom(x) {
			return nil, false
		}
	}
	if !c13IsAtom(ac.Nth(0)) || !c13IsAtom(ar.Nth(4)) {
		return nil, false
	}
	fn, hexLen, ok := c13Fn(cfg.Nth(4).Int())
	if !ok {
		return nil, false
	}
	b := &c13Built{
		fn: fn, batch: cfg.Nth(0).Int(), maxmsg: cfg.Nth(1).Int(), maxtree: cfg.Nth(2).Z, chunk: cfg.Nth(3).Int(),
		acCode: ac.Nth(0).Int(), ids: map[string]int{}, objects: map[string]*c13Obj{},
	}
	if b.batch < 1 || b.batch > 64 || b.chunk < 1 || b.acCode < 0 || b.acCode > 16 || b.maxmsg < 0 || b.maxtree < 0 {
		return nil, false
	}
	if trees.Len() > 8 {
		return nil, false
	}
	nt := trees.Len()
	b.treeDigest = make([]*remoteexecution.Digest, nt)
	b.dirDigest = make([][]*remoteexecution.Digest, nt)
	b.treeLen = make([]int, nt)
	b.dirLen = make([][]int, nt)
	for t, ts := range trees.List {
		if !c13IsList(ts) || ts.Len() != 3 || !c13IsAtom(ts.Nth(0)) || !c13IsList(ts.Nth(1)) || !c13IsList(ts.Nth(2)) {
			return nil, false
		}
		var data []byte
		switch ts.Nth(0).Int() {
		case 0:
			ds := ts.Nth(1).List
			if len(ds) > 12 {
				return nil, false
			}
			msgs := make([]*remoteexecution.Directory, len(ds))
			b.dirDigest[t] = make([]*remoteexecution.Digest, len(ds))
			b.dirLen[t] = make([]int, len(ds))
			for i := len(ds) - 1; i >= 0; i-- {
				d := ds[i]
				if !c13IsList(d) || d.Len() != 2 || !c13IsList(d.Nth(0)) || !c13IsList(d.Nth(1)) {
					return nil, false
				}
				m := &remoteexecution.Directory{}
				for k, f := range d.Nth(0).List {
					dg, ok := b.resolve(f, hexLen, t, i)
					if !ok {
						return nil, false
					}
					m.Files = append(m.Files, &remoteexecution.FileNode{Name: fmt.Sprintf("f%d", k), Digest: dg})
				}
				for k, f := range d.Nth(1).List {
					dg, ok := b.resolve(f, hexLen, t, i)
					if !ok {
						return nil, false
					}
					m.Directories = append(m.Directories, &remoteexecution.DirectoryNode{Name: fmt.Sprintf("d%d", k), Digest: dg})
				}
				enc, err := proto.MarshalOptions{Deterministic: true}.Marshal(m)
				if err != nil {
					return nil, false
				}
				msgs[i] = m
				b.dirDigest[t][i] = b.digestOf(enc).GetProto()
				b.dirLen[t][i] = len(enc)
			}
			tree := &remoteexecution.Tree{}
			if len(msgs) > 0 {
				tree.Root = msgs[0]
				tree.Children = msgs[1:]
			}
			enc, err := proto.MarshalOptions{Deterministic: true}.Marshal(tree)
			if err != nil {
				return nil, false
			}
			data = enc
		case 1:
			for _, x := range ts.Nth(1).List {
				if !c13IsAtom(x) || x.Z < 0 || x.Z > 255 {
					return nil, false
				}
			}
			data = ts.Nth(1).Bytes()
			if len(data) > 1<<16 {
				return nil, false
			}
		default:
			return nil, false
		}
		td := b.digestOf(data)
		b.treeDigest[t] = td.GetProto()
		b.treeLen[t] = len(data)
		obj := &c13Obj{stored: append([]byte(nil), data...), failAt: -1}
		dm := ts.Nth(2)
		for _, x := range dm.List {
			if !c13IsAtom(x) {
				return nil, false
			}
		}
		if dm.Len() > 0 {
			switch dm.Nth(0).Int() {
			case 1:
				k := dm.Nth(1).Int()
				if dm.Len() != 2 || k < 0 || k > len(data) {
					return nil, false
				}
				obj.stored = obj.stored[:k]
			case 2:
				k, x := dm.Nth(1).Int(), dm.Nth(2).Int()
				if dm.Len() != 3 || k < 0 || k >= len(data) || x < 1 || x > 255 {
					return nil, false
				}
				obj.stored[k] ^= byte(x)
			case 3:
				k, c := dm.Nth(1).Int(), dm.Nth(2).Int()
				if dm.Len() != 3 || k < 0 || k > len(data) || c < 1 || c > 16 {
					return nil, false
				}
				obj.failAt, obj.failCode = k, c
			case 4:
				c := dm.Nth(1).Int()
				if dm.Len() != 2 || c < 1 || c > 16 {
					return nil, false
				}
				obj.getCode = c
			case 5:
				if dm.Len() != 1 {
					return nil, false
				}
				obj.absent = true
			default:
				return nil, false
			}
		}
		if _, dup := b.objects[c13Key(td)]; !dup {
			b.objects[c13Key(td)] = obj
		}
	}

	// ActionResult
	files, dirs := ar.Nth(0), ar.Nth(1)
	if !c13IsList(files) || !c13IsList(dirs) || files.Len() > 16 || dirs.Len() > 8 {
		return nil, false
	}
	inl := ar.Nth(4).Int()
	if inl < 0 || inl > 4096 {
		return nil, false
	}
	m := &remoteexecution.ActionResult{}
	for i, f := range files.List {
		dg, ok := b.resolve(f, hexLen, -1, -1)
		if !ok {
			return nil, false
		}
		of := &remoteexecution.OutputFile{Path: fmt.Sprintf("o%d", i), Digest: dg}
		if inl > 0 && i%2 == 0 {
			of.Contents = make([]byte, 1+inl%5)
		}
		m.OutputFiles = append(m.OutputFiles, of)
	}
	for i, d := range dirs.List {
		if !c13IsList(d) || d.Len() != 2 {
			return nil, false
		}
		td, ok1 := b.resolve(d.Nth(0), hexLen, -1, -1)
		rd, ok2 := b.resolve(d.Nth(1), hexLen, -1, -1)
		if !ok1 || !ok2 {
			return nil, false
		}
		m.OutputDirectories = append(m.OutputDirectories, &remoteexecution.OutputDirectory{
			Path: fmt.Sprintf("p%d", i), TreeDigest: td, RootDirectoryDigest: rd,
		})
	}
	if m.StdoutDigest, ok = b.resolve(ar.Nth(2), hexLen, -1, -1); !ok {
		return nil, false
	}
	if m.StderrDigest, ok = b.resolve(ar.Nth(3), hexLen, -1, -1); !ok {
		return nil, false
	}
	if inl > 0 {
		m.StdoutRaw = make([]byte, inl)
	}
	enc, err := proto.MarshalOptions{Deterministic: true}.Marshal(m)
	if err != nil {
		return nil, false
	}
	b.ar, b.arData = m, enc

	// CAS presence script
	absent, script := cas.Nth(0), cas.Nth(1)
	if !c13IsList(absent) || !c13IsList(script) || script.Len() > 32 {
		return nil, false
	}
	cur := map[string]bool{}
	toggle := func(s Sx) bool {
		dg, ok := b.resolve(s, hexLen, -1, -1)
		if !ok {
			return false
		}
		if d, err := b.fn.NewDigestFromProto(dg); err == nil {
			k := c13Key(d)
			if cur[k] {
				delete(cur, k)
			} else {
				cur[k] = true
			}
		}
		return true
	}
	snapshot := func() []string {
		l := make([]string, 0, len(cur))
		for k := range cur {
			l = append(l, k)
		}
		sort.Strings(l)
		return l
	}
	for _, s := range absent.List {
		if !toggle(s) {
			return nil, false
		}
	}
	for _, e := range script.List {
		if !c13IsList(e) || e.Len() != 2 || !c13IsAtom(e.Nth(0)) || !c13IsList(e.Nth(1)) {
			return nil, false
		}
		c := e.Nth(0).Int()
		if c < 0 || c > 16 {
			return nil, false
		}
		for _, s := range e.Nth(1).List {
			if !toggle(s) {
				return nil, false
			}
		}
		b.scriptCodes = append(b.scriptCodes, c)
		b.absentStates = append(b.absentStates, snapshot())
	}
	b.absentFinal = snapshot()
	return b, true
}

// ---------------------------------------------------------------- model backends

type c13ChunkReader struct {
	data     []byte
	pos      int
	chunk    int
	failAt   int
	failCode int
}

func (r *c13ChunkReader) Read(p []byte) (int, error) {
	if r.failAt >= 0 && r.pos >= r.failAt {
		return 0, status.Error(codes.Code(r.failCode), "injected read error")
	}
	if r.pos >= len(r.data) {
		return 0, io.EOF
	}
	n := r.chunk
	if n > len(p) {
		n = len(p)
	}
	if n > len(r.data)-r.pos {
		n = len(r.data) - r.pos
	}
	if r.failAt >= 0 && n > r.failAt-r.pos {
		n = r.failAt - r.pos
	}
	copy(p, r.data[r.pos:r.pos+n])
	r.pos += n
	return n, nil
}
func (r *c13ChunkReader) Close() error { return nil }

type c13CAS struct {
	b       *c13Built
	fmCalls int
	calls   []Sx
	record  bool
}

func (c *c13CAS) GetCapabilities(ctx context.Context, in digest.InstanceName) (*remoteexecution.ServerCapabilities, error) {
	return nil, status.Error(codes.Unimplemented, "n/a")
}

func (c *c13CAS) Get(ctx context.Context, d digest.Digest) buffer.Buffer {
	if c.record {
		c.calls = append(c.calls, L(A(1), AI(c.b.id(d))))
	}
	obj, ok := c.b.objects[c13Key(d)]
	if !ok || obj.absent {
		return buffer.NewBufferFromError(status.Error(codes.NotFound, "no such object"))
	}
	if obj.getCode != 0 {
		return buffer.NewBufferFromError(status.Error(codes.Code(obj.getCode), "injected Get error"))
	}
	return blobstore.CASReadBufferFactory.NewBufferFromReader(d,
		&c13ChunkReader{data: obj.stored, chunk: c.b.chunk, failAt: obj.failAt, failCode: obj.failCode},
		func(bool) {})
}

func (c *c13CAS) GetFromComposite(ctx context.Context, p, ch digest.Digest, s slicing.BlobSlicer) buffer.Buffer {
	return buffer.NewBufferFromError(status.Error(codes.Unimplemented, "n/a"))
}

func (c *c13CAS) Put(ctx context.Context, d digest.Digest, b buffer.Buffer) error {
	b.Discard()
	return status.Error(codes.Unimplemented, "n/a")
}

func (c *c13CAS) absentAt(k int) []string {
	if k < len(c.b.absentStates) {
		return c.b.absentStates[k]
	}
	return c.b.absentFinal
}

func (c *c13CAS) FindMissing(ctx context.Context, ds digest.Set) (digest.Set, error) {
	k := c.fmCalls
	c.fmCalls++
	ids := []int{}
	for _, d := range ds.Items() {
		ids = append(ids, c.b.id(d))
	}
	sort.Ints(ids)
	if k < len(c.b.scriptCodes) && c.b.scriptCodes[k] != 0 {
		c.calls = append(c.calls, L(A(0), LInts(ids), AI(c.b.scriptCodes[k]), L()))
		return digest.EmptySet, status.Error(codes.Code(c.b.scriptCodes[k]), "injected FindMissing error")
	}
	abs := map[string]bool{}
	for _, a := range c.absentAt(k) {
		abs[a] = true
	}
	sb := digest.NewSetBuilder(0)
	miss := []int{}
	for _, d := range ds.Items() {
		if abs[c13Key(d)] {
			sb.Add(d)
			miss = append(miss, c.b.id(d))
		}
	}
	sort.Ints(miss)
	c.calls = append(c.calls, L(A(0), LInts(ids), A(0), LInts(miss)))
	return sb.Build(), nil
}

type c13AC struct {
	b     *c13Built
	calls int
}

func (a *c13AC) GetCapabilities(ctx context.Context, in digest.InstanceName) (*remoteexecution.ServerCapabilities, error) {
	return nil, status.Error(codes.Unimplemented, "n/a")
}
func (a *c13AC) Get(ctx context.Context, d digest.Digest) buffer.Buffer {
	a.calls++
	if a.b.acCode != 0 {
		return buffer.NewBufferFromError(status.Error(codes.Code(a.b.acCode), "injected AC error"))
	}
	return blobstore.ACReadBufferFactory.NewBufferFromByteSlice(d, append([]byte(nil), a.b.arData...), func(bool) {})
}
func (a *c13AC) GetFromComposite(ctx context.Context, p, ch digest.Digest, s slicing.BlobSlicer) buffer.Buffer {
	return buffer.NewBufferFromError(status.Error(codes.Unimplemented, "n/a"))
}
func (a *c13AC) Put(ctx context.Context, d digest.Digest, b buffer.Buffer) error {
	b.Discard()
	return status.Error(codes.Unimplemented, "n/a")
}
func (a *c13AC) FindMissing(ctx context.Context, ds digest.Set) (digest.Set, error) {
	return digest.EmptySet, status.Error(codes.Unimplemented, "n/a")
}

// ---------------------------------------------------------------- observation

func (b *c13Built) wd(dg *remoteexecution.Digest) Sx {
	if dg == nil {
		return L()
	}
	d, err := b.fn.NewDigestFromProto(dg)
	if err != nil {
		return L(A(0), A(0), A(0))
	}
	return L(A(1), AI(b.id(d)), A(d.GetSizeBytes()))
}

// streamOf reads what CAS.Get(d).ToReader() delivers and parses it with the
// harness's own top-level field walker.
func (b *c13Built) streamOf(cas *c13CAS, dg *remoteexecution.Digest) Sx {
	d, err := b.fn.NewDigestFromProto(dg)
	if err != nil {
		return L(L(), A(int64(codes.NotFound)), L(), A(0))
	}
	r := cas.Get(context.Background(), d).ToReader()
	var data []byte
	term := 0
	buf := make([]byte, 4096)
	for {
		n, err := r.Read(buf)
		data = append(data, buf[:n]...)
		if err == io.EOF {
			break
		}
		if err != nil {
			term = int(status.Code(err))
			break
		}
		if len(data) > 1<<20 {
			term = -3
			break
		}
	}
	r.Close()
	fields := []Sx{}
	off := 0
	for off < len(data) {
		num, typ, n := protowire.ConsumeTag(data[off:])
		if n < 0 || typ != protowire.BytesType {
			break
		}
		v, m := protowire.ConsumeVarint(data[off+n:])
		if m < 0 || v > uint64(len(data)-off-n-m) {
			break
		}
		po := off + n + m
		payload := data[po : po+int(v)]
		dec := L()
		if num == 1 || num == 2 {
			var dir remoteexecution.Directory
			if proto.Unmarshal(payload, &dir) == nil {
				fs, dsx := []Sx{}, []Sx{}
				for _, f := range dir.Files {
					fs = append(fs, b.wd(f.Digest))
				}
				for _, f := range dir.Directories {
					dsx = append(dsx, b.wd(f.Digest))
				}
				dec = L(L(fs...), L(dsx...))
			}
		}
		fields = append(fields, L(AI(po), A(int64(num)), dec))
		off = po + int(v)
	}
	return L(LBytes(data), AI(term), L(fields...), AB(off == len(data)))
}

func (c13) Exec(in Sx) (Sx, bool) {
	b, ok := c13Build(in)
	if !ok {
		return Sx{}, false
	}
	cas := &c13CAS{b: b}
	// Environment as the model sees it.
	files := []Sx{}
	for _, f := range b.ar.OutputFiles {
		files = append(files, b.wd(f.Digest))
	}
	dirs, gets := []Sx{}, []Sx{}
	for _, d := range b.ar.OutputDirectories {
		dirs = append(dirs, L(b.wd(d.TreeDigest), b.wd(d.RootDirectoryDigest)))
		gets = append(gets, b.streamOf(cas, d.TreeDigest))
	}
	inlined := len(b.ar.StdoutRaw)
	arSx := L(L(files...), L(dirs...), b.wd(b.ar.StdoutDigest), b.wd(b.ar.StderrDigest), AI(inlined))
	keyIDs := func(keys []string) Sx {
		ids := []int{}
		for _, k := range keys {
			if _, ok := b.ids[k]; !ok {
				b.ids[k] = len(b.ids) + 1
			}
			ids = append(ids, b.ids[k])
		}
		sort.Ints(ids)
		return LInts(ids)
	}
	script := []Sx{}
	for k, c := range b.scriptCodes {
		script = append(script, L(AI(c), keyIDs(b.absentStates[k])))
	}
	env := L(L(AI(b.batch), AI(b.maxmsg), A(b.maxtree)), L(AI(b.acCode), AI(len(b.arData))), arSx, L(gets...),
		L(L(script...), keyIDs(b.absentFinal)))

	// The real decorator.
	cas.record = true
	ac := &c13AC{b: b}
	ba := completenesschecking.NewCompletenessCheckingBlobAccess(ac, cas, b.batch, b.maxmsg, b.maxtree)
	data, err := ba.Get(context.Background(), b.digestOf(b.arData)).ToByteSlice(1 << 24)
	code := int(status.Code(err))
	same := err == nil && string(data) == string(b.arData)
	if ac.calls != 1 {
		code = -2
	}
	return L(AI(code), AB(same), L(cas.calls...), env), true
}

// ---------------------------------------------------------------- classes

func (c13) Class(in, obs Sx) (string, bool) {
	res := "error"
	switch obs.Nth(0).Int() {
	case 0:
		res = "returned"
	case 5:
		res = "not-found"
	}
	kind := "complete"
	if in.Nth(1).Nth(0).Int() != 0 {
		kind = "ac-error"
	} else {
		for _, t := range in.Nth(3).List {
			if t.Nth(2).Len() > 0 {
				kind = fmt.Sprintf("tree-damage%d", t.Nth(2).Nth(0).Int())
			}
			if t.Nth(0).Int() == 1 && kind == "complete" {
				kind = "raw-tree"
			}
		}
		if kind == "complete" {
			for _, e := range in.Nth(4).Nth(1).List {
				if e.Nth(0).Int() != 0 {
					kind = "cas-error"
				} else if e.Nth(1).Len() > 0 && kind == "complete" {
					kind = "presence-changes"
				}
			}
		}
		if kind == "complete" && in.Nth(4).Nth(0).Len() > 0 {
			kind = "object-absent"
		}
		if kind == "complete" && strings.Contains(in.Nth(2).String()+in.Nth(3).String(), "(1 ") {
			kind = "malformed-digest"
		}
	}
	nfm := 0
	for _, c := range obs.Nth(2).List {
		if c.Nth(0).Int() == 0 {
			nfm++
		}
	}
	calls := "fm0"
	switch {
	case nfm == 1:
		calls = "fm1"
	case nfm >= 2 && nfm <= 3:
		calls = "fm2-3"
	case nfm > 3:
		calls = "fm4+"
	}
	return res + "/" + kind + "/" + calls, nfm >= 1 && in.Nth(2).Nth(0).Len()+in.Nth(2).Nth(1).Len() >= 1
}

// ---------------------------------------------------------------- generation

func c13PlainDig(r *Rand) Sx {
	return L(A(0), AI(r.Intn(12)), AI(r.Pick([]int{0, 1, 1, 5, 5, 5, 77, 1000})))
}

func c13MalformedDig(r *Rand) Sx { return L(A(1), AI(r.Intn(6))) }

// c13GenTree: nd directories; directory i may refer to later directories of
// the same tree (as a real Tree does), to earlier trees, and to plain blobs.
func c13GenTree(r *Rand, t int, nd int) Sx {
	ds := []Sx{}
	for i := 0; i < nd; i++ {
		files, subs := []Sx{}, []Sx{}
		for k := r.Intn(4); k > 0; k-- {
			if r.Chance(6) {
				files = append(files, L())
			} else {
				files = append(files, c13PlainDig(r))
			}
		}
		for j := i + 1; j < nd; j++ {
			if r.Chance(60) {
				subs = append(subs, L(A(3), AI(t), AI(j)))
			}
		}
		if r.Chance(15) {
			subs = append(subs, c13PlainDig(r))
		}
		ds = append(ds, L(L(files...), L(subs...)))
	}
	return L(A(0), L(ds...), L())
}

func c13VarintBytes(v uint64) []byte { return protowire.AppendVarint(nil, v) }

// c13GenRawTree: hostile encodings, checksum-valid (the digest is computed
// over these bytes).
func c13GenRawTree(r *Rand) Sx {
	var b []byte
	n := 1 + r.Intn(4)
	for i := 0; i < n; i++ {
		switch r.Intn(12) {
		case 0: // random bytes
			for k := 1 + r.Intn(12); k > 0; k-- {
				b = append(b, byte(r.Intn(256)))
			}
		case 1: // varint-typed field
			b = protowire.AppendTag(b, protowire.Number(1+r.Intn(3)), protowire.VarintType)
			b = protowire.AppendVarint(b, uint64(r.Intn(300)))
		case 2: // length far too large
			b = protowire.AppendTag(b, protowire.Number(1+r.Intn(3)), protowire.BytesType)
			b = protowire.AppendVarint(b, []uint64{1 << 62, 1<<63 - 1, 1 << 63, 1<<64 - 1, 1 << 40}[r.Intn(5)])
		case 3: // non-canonical varints
			b = append(b, 0x8a, 0x80, 0x00) // tag 10 = field 1 bytes, overlong
			b = append(b, 0x80, 0x00)       // length 0, overlong
		case 4: // overflowing varint
			b = append(b, 0xff, 0xff, 0xff, 0xff, 0xff, 0xff, 0xff, 0xff, 0xff, byte(r.Pick([]int{1, 2, 0x7f})))
			b = append(b, 0)
		case 5: // field number zero / too large
			if r.Bool() {
				b = append(b, 0x02, 0x00)
			} else {
				b = protowire.AppendVarint(b, (uint64(1<<31)<<3)|2)
				b = append(b, 0)
			}
		case 6: // unknown bytes field with content
			b = protowire.AppendTag(b, protowire.Number(3+r.Intn(40)), protowire.BytesType)
			k := r.Intn(40)
			b = protowire.AppendVarint(b, uint64(k))
			for ; k > 0; k-- {
				b = append(b, byte(r.Intn(256)))
			}
		case 7: // root/children field with garbage payload
			b = protowire.AppendTag(b, protowire.Number(1+r.Intn(2)), protowire.BytesType)
			k := 1 + r.Intn(10)
			b = protowire.AppendVarint(b, uint64(k))
			for ; k > 0; k-- {
				b = append(b, byte(r.Intn(256)))
			}
		case 8: // length one longer than what follows (last field)
			b = protowire.AppendTag(b, protowire.Number(1+r.Intn(2)), protowire.BytesType)
			b = protowire.AppendVarint(b, 3)
			b = append(b, 0x0a, 0x00)
		default: // valid directory field
			m := &remoteexecution.Directory{}
			for k := r.Intn(3); k > 0; k-- {
				m.Files = append(m.Files, &remoteexecution.FileNode{Name: "x", Digest: &remoteexecution.Digest{
					Hash: strings.Repeat("0", 24) + fmt.Sprintf("%08x", r.Intn(12)), SizeBytes: 5}})
			}
			enc, _ := proto.Marshal(m)
			b = protowire.AppendTag(b, protowire.Number(1+r.Intn(2)), protowire.BytesType)
			b = protowire.AppendBytes(b, enc)
		}
	}
	return L(A(1), LBytes(b), L())
}

// c13Referenced lists the dig forms the ActionResult and its trees refer to.
func c13Referenced(ar, trees Sx) []Sx {
	out := []Sx{}
	add := func(s Sx) {
		if s.Len() > 0 && s.Nth(0).Int() != 1 {
			out = append(out, s)
		}
	}
	for _, f := range ar.Nth(0).List {
		add(f)
	}
	for _, d := range ar.Nth(1).List {
		add(d.Nth(0))
		add(d.Nth(1))
		if t := d.Nth(0); t.Len() == 2 && t.Nth(0).Int() == 2 {
			tr := trees.Nth(t.Nth(1).Int())
			if tr.Nth(0).Int() == 0 {
				for _, dir := range tr.Nth(1).List {
					for _, f := range dir.Nth(0).List {
						add(f)
					}
					for _, f := range dir.Nth(1).List {
						add(f) // counts only when the root digest is set
					}
				}
			}
		}
	}
	add(ar.Nth(2))
	add(ar.Nth(3))
	return out
}

func c13With(l Sx, i int, x Sx) Sx {
	n := append([]Sx(nil), l.List...)
	n[i] = x
	return Sx{List: n}
}

func (c13) Gen(r *Rand, i int, tier string) Sx {
	fnk := r.Pick([]int{0, 0, 0, 0, 0, 0, 0, 0, 1, 2})
	batch := 1 + r.Intn(5)
	maxmsg, maxtree := 1<<16, 1<<20
	chunk := r.Pick([]int{1, 2, 3, 5, 7, 16, 31, 32, 33, 64, 4096, 4096})
	hostile := r.Chance(15)

	nt := r.Pick([]int{0, 1, 1, 2, 2, 3})
	trees := []Sx{}
	for t := 0; t < nt; t++ {
		if hostile && r.Chance(70) {
			trees = append(trees, c13GenRawTree(r))
		} else {
			trees = append(trees, c13GenTree(r, t, r.Pick([]int{0, 1, 1, 2, 3, 4})))
		}
	}
	files := []Sx{}
	for k := r.Intn(7); k > 0; k-- {
		if r.Chance(8) {
			files = append(files, L())
		} else {
			files = append(files, c13PlainDig(r))
		}
	}
	dirs := []Sx{}
	for t := 0; t < nt; t++ {
		if r.Chance(85) {
			root := L()
			if r.Bool() {
				if trees[t].Nth(0).Int() == 0 && trees[t].Nth(1).Len() > 0 {
					root = L(A(3), AI(t), A(0))
				} else {
					root = c13PlainDig(r)
				}
			}
			dirs = append(dirs, L(L(A(2), AI(t)), root))
		}
	}
	if len(dirs) > 0 && r.Chance(10) { // the same tree twice
		dirs = append(dirs, dirs[r.Intn(len(dirs))])
	}
	opt := func() Sx {
		if r.Bool() {
			return c13PlainDig(r)
		}
		return L()
	}
	inl := 0
	if r.Chance(40) {
		inl = 1 + r.Intn(40)
	}
	ar := L(L(files...), L(dirs...), opt(), opt(), AI(inl))
	treesSx := L(trees...)
	absent, script := []Sx{}, []Sx{}
	acCode := 0

	refs := c13Referenced(ar, treesSx)
	pickRef := func() (Sx, bool) {
		if len(refs) == 0 {
			return Sx{}, false
		}
		return refs[r.Intn(len(refs))], true
	}
	// Lengths of the encoded trees (needed to aim damage and budgets).
	probe := L(L(AI(batch), AI(maxmsg), AI(maxtree), AI(chunk), AI(fnk)), L(A(0)), ar, treesSx, L(L(), L()))
	built, okb := c13Build(probe)
	damageTree := func() {
		if nt == 0 || !okb {
			return
		}
		t := r.Intn(nt)
		n := built.treeLen[t]
		var dm Sx
		switch k := r.Intn(10); {
		case k < 3 && n > 0:
			dm = L(A(1), AI(r.Intn(n)))
		case k < 6 && n > 0:
			dm = L(A(2), AI(r.Intn(n)), AI(r.Pick([]int{1, 2, 4, 8, 16, 32, 64, 128, 255, 1 + r.Intn(255)})))
		case k < 8:
			dm = L(A(3), AI(r.Intn(n+1)), AI(r.Pick([]int{2, 4, 13, 14})))
		case k < 9:
			dm = L(A(4), AI(r.Pick([]int{5, 13, 14, 4})))
		default:
			dm = L(A(5))
		}
		trees[t] = c13With(trees[t], 2, dm)
		treesSx = L(trees...)
	}

	switch s := r.Intn(100); {
	case s < 22: // complete
	case s < 47: // one referenced object absent
		if d, ok := pickRef(); ok {
			absent = append(absent, d)
		}
	case s < 62:
		damageTree()
	case s < 70: // CAS failure at FindMissing call k
		k := r.Intn(5)
		for j := 0; j < k; j++ {
			script = append(script, L(A(0), L()))
		}
		script = append(script, L(AI(r.Pick([]int{14, 13, 4, 2, 5})), L()))
	case s < 78: // malformed digest somewhere
		switch r.Intn(6) {
		case 0:
			files = append(files, c13MalformedDig(r))
			ar = c13With(ar, 0, L(files...))
		case 1:
			if len(dirs) > 0 {
				k := r.Intn(len(dirs))
				dirs[k] = c13With(dirs[k], r.Intn(2), c13MalformedDig(r))
				ar = c13With(ar, 1, L(dirs...))
			}
		case 2:
			ar = c13With(ar, 2+r.Intn(2), c13MalformedDig(r))
		case 3:
			if len(dirs) > 0 {
				k := r.Intn(len(dirs))
				dirs[k] = c13With(dirs[k], 0, L())
				ar = c13With(ar, 1, L(dirs...))
			}
		default:
			if nt > 0 {
				t := r.Intn(nt)
				if trees[t].Nth(0).Int() == 0 && trees[t].Nth(1).Len() > 0 {
					ds := trees[t].Nth(1)
					k := r.Intn(ds.Len())
					which := r.Intn(2)
					lst := append(append([]Sx(nil), ds.Nth(k).Nth(which).List...), c13MalformedDig(r))
					trees[t] = c13With(trees[t], 1, c13With(ds, k, c13With(ds.Nth(k), which, L(lst...))))
					treesSx = L(trees...)
				}
			}
		}
	case s < 86: // budgets at their boundaries
		if okb {
			sum := 0
			for _, d := range dirs {
				sum += built.treeLen[d.Nth(0).Nth(1).Int()]
			}
			switch r.Intn(3) {
			case 0:
				maxtree = sum + r.Pick([]int{-1, 0, 1})
				if maxtree < 0 {
					maxtree = 0
				}
			case 1:
				maxmsg = len(built.arData) + r.Pick([]int{-1, 0, 1})
			default:
				big := 0
				for _, l := range built.dirLen {
					for _, x := range l {
						if x > big {
							big = x
						}
					}
				}
				maxmsg = big + r.Pick([]int{-1, 0, 1})
				if maxmsg < 0 {
					maxmsg = 0
				}
			}
		}
	case s < 94: // presence changes between calls
		for j := r.Intn(4); j >= 0; j-- {
			tg := []Sx{}
			if d, ok := pickRef(); ok && r.Chance(70) {
				tg = append(tg, d)
			}
			script = append(script, L(A(0), L(tg...)))
		}
		if d, ok := pickRef(); ok && r.Bool() {
			absent = append(absent, d)
		}
	case s < 97:
		acCode = r.Pick([]int{5, 14, 13})
	default: // two faults at once
		damageTree()
		if d, ok := pickRef(); ok {
			absent = append(absent, d)
		}
	}
	return L(L(AI(batch), AI(maxmsg), AI(maxtree), AI(chunk), AI(fnk)), L(AI(acCode)), ar, treesSx,
		L(L(absent...), L(script...)))
}
