package main

// C15P — sub-check of C15: MANY stream clones consumed in PARALLEL by real
// goroutines (no scheduler in between).  C15's own cases drive the multiplexer
// step by step through a deterministic scheduler, which is what lets the model
// predict every interleaving — and what hides races whose window is a few
// instructions wide.  Here nothing is scheduled: n handles of one
// CloneStream()ed chunk-reader buffer are consumed at once, and what every
// consumer must observe does not depend on the interleaving:
//
// Input: (n chunk (method ...))    n = content length, chunk = size of the source's
//                                  chunks and maximum chunk size of the chunk readers
//   method = (0) ToByteSlice | (1) IntoWriter | (2) ToChunkReader read to the end
//          | (3 k) ToChunkReader, k Reads, Close | (4) Discard
// Observation: (((code len mismatch) per consumer) closed panics)
//   code: gRPC code, -1 = io.EOF; mismatch: index of the first byte that differs
//   from the content, -1 if none; closed: Close() calls seen by the source.
//   (-2) = not all consumers returned (deadlock), (-1) = harness failure.

import (
	"io"
	"sync"

	"github.com/buildbarn/bb-storage/pkg/blobstore/buffer"
)

func init() { props["C15P"] = c15p{} }

type c15p struct{}

func c15pContent(n int) []byte {
	b := make([]byte, n)
	for i := range b {
		b[i] = byte((i*7 + 3) % 251)
	}
	return b
}

type c15pSource struct {
	mu     sync.Mutex
	data   []byte
	chunk  int
	closed int
}

func (s *c15pSource) Read() ([]byte, error) {
	s.mu.Lock()
	defer s.mu.Unlock()
	if len(s.data) == 0 {
		return nil, io.EOF
	}
	n := s.chunk
	if n > len(s.data) {
		n = len(s.data)
	}
	c := s.data[:n]
	s.data = s.data[n:]
	return c, nil
}

func (s *c15pSource) Close() {
	s.mu.Lock()
	s.closed++
	s.mu.Unlock()
}

type c15pWriter struct{ data []byte }

func (w *c15pWriter) Write(p []byte) (int, error) {
	w.data = append(w.data, p...)
	return len(p), nil
}

func c15pValid(in Sx) bool {
	if in.IsAtom || in.Len() != 3 || !in.Nth(0).IsAtom || !in.Nth(1).IsAtom || in.Nth(2).IsAtom {
		return false
	}
	n, chunk := in.Nth(0).Z, in.Nth(1).Z
	if n < 1 || n > 1<<16 || chunk < 1 || chunk > 1<<16 {
		return false
	}
	ms := in.Nth(2)
	if ms.Len() < 2 || ms.Len() > 96 {
		return false
	}
	for _, m := range ms.List {
		if m.IsAtom || m.Len() < 1 || !m.Nth(0).IsAtom {
			return false
		}
		switch m.Nth(0).Z {
		case 0, 1, 2, 4:
			if m.Len() != 1 {
				return false
			}
		case 3:
			if m.Len() != 2 || !m.Nth(1).IsAtom || m.Nth(1).Z < 0 || m.Nth(1).Z > 1<<16 {
				return false
			}
		default:
			return false
		}
	}
	return true
}

func (c15p) Exec(in Sx) (Sx, bool) {
	if !c15pValid(in) {
		return Sx{}, false
	}
	n, chunk := in.Nth(0).Int(), in.Nth(1).Int()
	ms := in.Nth(2).List
	content := c15pContent(n)
	src := &c15pSource{data: content, chunk: chunk}
	base := buffer.NewCASBufferFromChunkReader(c15Digest(content), src, buffer.BackendProvided(func(bool) {}))
	handles := []buffer.Buffer{base}
	for len(handles) < len(ms) {
		last := handles[len(handles)-1]
		b1, b2 := last.CloneStream()
		handles[len(handles)-1] = b1
		handles = append(handles, b2)
	}
	type res struct {
		code int
		data []byte
	}
	out := make([]res, len(ms))
	var panics int32
	var pmu sync.Mutex
	start := make(chan struct{})
	var wg sync.WaitGroup
	for i := range ms {
		wg.Add(1)
		go func(i int) {
			defer wg.Done()
			defer func() {
				if recover() != nil {
					pmu.Lock()
					panics++
					pmu.Unlock()
				}
			}()
			<-start
			b, m := handles[i], ms[i]
			switch m.Nth(0).Z {
			case 0:
				d, err := b.ToByteSlice(1 << 20)
				out[i] = res{c15Code(err), d}
			case 1:
				w := &c15pWriter{}
				err := b.IntoWriter(w)
				out[i] = res{c15Code(err), w.data}
			case 2, 3:
				limit := -1
				if m.Nth(0).Z == 3 {
					limit = m.Nth(1).Int()
				}
				r := b.ToChunkReader(0, chunk)
				var data []byte
				code := 0
				for k := 0; limit < 0 || k < limit; k++ {
					c, err := r.Read()
					if err == io.EOF {
						code = -1
						break
					}
					if err != nil {
						code = c15Code(err)
						break
					}
					data = append(data, c...)
				}
				r.Close()
				out[i] = res{code, data}
			case 4:
				b.Discard()
				out[i] = res{0, nil}
			}
		}(i)
	}
	close(start)
	done := make(chan struct{})
	go func() { wg.Wait(); close(done) }()
	if !c15Wait(done) {
		return L(A(-2)), true
	}
	rs := make([]Sx, len(ms))
	for i, o := range out {
		mism := -1
		for j := range o.data {
			if j >= len(content) || o.data[j] != content[j] {
				mism = j
				break
			}
		}
		rs[i] = L(AI(o.code), AI(len(o.data)), AI(mism))
	}
	src.mu.Lock()
	closed := src.closed
	src.mu.Unlock()
	return L(L(rs...), AI(closed), AI(int(panics))), true
}

func (c15p) Gen(r *Rand, i int, tier string) Sx {
	chunk := r.Pick([]int{1, 3, 8, 24, 24, 64})
	nchunks := r.Pick([]int{1, 2, 7, 40, 120, 400})
	n := chunk*nchunks - r.Intn(chunk)
	if n < 1 {
		n = 1
	}
	k := r.Pick([]int{2, 3, 5, 16, 32, 64, 64})
	ms := make([]Sx, k)
	for j := range ms {
		switch x := r.Intn(10); {
		case x < 3:
			ms[j] = L(A(0))
		case x < 5:
			ms[j] = L(A(1))
		case x < 7:
			ms[j] = L(A(2))
		case x < 9:
			ms[j] = L(A(3), AI(r.Intn(nchunks+2)))
		default:
			ms[j] = L(A(4))
		}
	}
	return L(AI(n), AI(chunk), L(ms...))
}

func (c15p) Class(in, obs Sx) (string, bool) {
	if obs.Len() < 3 {
		return "par/abnormal", true
	}
	k := in.Nth(2).Len()
	sz := "few"
	if k >= 16 {
		sz = "many"
	}
	return "par/" + sz, true
}
