package main

// C09S — sub-check of C09: consumption through STREAM CLONES.  The property
// quantifies over "copies and stream clones"; a CAS buffer is CloneStream()ed,
// one clone is consumed by one of C09's methods and its sibling is discarded
// either BEFORE the consuming clone registers with the multiplexer or AFTER it
// (while the consuming clone is blocked waiting for its sibling).  What the
// consumer observes must be what C09's model predicts for consuming the
// buffer directly: clones must not weaken validation.
//
// Input: (order inner)   order 0 = sibling discarded first, 1 = sibling discarded last
//                        inner = a C09 input whose method is ToByteSlice, IntoWriter,
//                                ToChunkReader or ToReader
// Observation: as C09.

import (
	"strconv"

	remoteexecution "github.com/bazelbuild/remote-apis/build/bazel/remote/execution/v2"
	"github.com/buildbarn/bb-storage/pkg/blobstore/buffer"
)

func init() { props["C09S"] = c09s{} }

type c09s struct{}

// c09sMethodOK: the methods a clone is consumed by.  ToChunkReader only with an
// offset inside the object: a clone skips the offset by reading (an offset
// beyond the size ends in EOF) where the buffer itself rejects the parameter
// up front; that difference is about a bad parameter, not about validation.
func c09sMethodOK(m Sx, size int64) bool {
	if m.IsAtom || m.Len() < 1 || !m.Nth(0).IsAtom {
		return false
	}
	switch m.Nth(0).Z {
	case 0, 1, 4:
		return true
	case 3:
		return m.Len() >= 2 && m.Nth(1).IsAtom && m.Nth(1).Z >= 0 && m.Nth(1).Z <= size
	}
	return false
}

func (c09s) Exec(in0 Sx) (Sx, bool) {
	if in0.IsAtom || in0.Len() != 2 || !in0.Nth(0).IsAtom || in0.Nth(0).Z < 0 || in0.Nth(0).Z > 1 {
		return Sx{}, false
	}
	order, in := in0.Nth(0).Z, in0.Nth(1)
	if in.IsAtom || in.Len() != 6 {
		return Sx{}, false
	}
	kind, srcK := in.Nth(0), in.Nth(1)
	if !kind.IsAtom || kind.Z < 0 || kind.Z > 2 || !srcK.IsAtom || srcK.Z < 0 || srcK.Z > 1 {
		return Sx{}, false
	}
	dg, ok := c09Digest(in.Nth(2))
	if !ok {
		return Sx{}, false
	}
	sc := in.Nth(3)
	if sc.IsAtom || sc.Len() != 2 || !sc.Nth(0).IsAtom {
		return Sx{}, false
	}
	evs, ok := c09ParseEvents(sc.Nth(1))
	if !ok || !c09CheckMethod(in.Nth(4)) || !c09sMethodOK(in.Nth(4), in.Nth(2).Nth(2).Z) || !c09CheckTable(in.Nth(5)) {
		return Sx{}, false
	}
	attach := sc.Nth(0).Z != 0
	if !c09TableCovers(in.Nth(5), remoteexecution.DigestFunction_Value(in.Nth(2).Nth(0).Int()), in.Nth(2).Nth(2).Z,
		c09Content(evs), c09Prefix(c09Content(evs), in.Nth(2).Nth(2).Z)) {
		return Sx{}, false
	}
	cbs := []Sx{}
	source := buffer.UserProvided
	if srcK.Z == 1 {
		source = buffer.BackendProvided(func(valid bool) { cbs = append(cbs, AB(valid)) })
	}
	closed := func() int { return 0 }
	var b buffer.Buffer
	switch kind.Z {
	case 0:
		b = buffer.NewCASBufferFromByteSlice(dg, c09Content(evs), source)
	case 1:
		s := &c09ReaderSrc{evs: evs, attach: attach}
		closed = func() int { return s.closed }
		b = buffer.NewCASBufferFromReader(dg, s, source)
	default:
		s := &c09ChunkSrc{evs: evs, attach: attach}
		closed = func() int { return s.closed }
		b = buffer.NewCASBufferFromChunkReader(dg, s, source)
	}
	b1, b2 := b.CloneStream()
	var o c09Obs
	// Both Discard() and the consuming methods block inside the multiplexer's
	// registration until every clone has registered, so the one that goes
	// first runs in its own goroutine and is blocked when the other arrives.
	waitBlocked := func(done chan struct{}) {
		for i := 0; i < 2000; i++ {
			select {
			case <-done:
				return
			default:
			}
			if c15Quiescent() {
				return
			}
		}
	}
	done := make(chan struct{})
	if order == 0 {
		go func() {
			defer close(done)
			b2.Discard()
		}()
		waitBlocked(done)
		o = c09Consume(b1, in.Nth(4))
	} else {
		go func() {
			defer close(done)
			o = c09Consume(b1, in.Nth(4))
		}()
		waitBlocked(done)
		b2.Discard()
	}
	if !c15Wait(done) {
		return L(A(-2)), true // hang
	}
	return L(LBytes(o.data), AI(o.code), LInts(o.extra), L(cbs...), AI(closed()), LBytes(o.aux)), true
}

func (c09s) Gen(r *Rand, i int, tier string) Sx {
	for {
		in := c09{}.Gen(r, i, tier)
		if c09sMethodOK(in.Nth(4), in.Nth(2).Nth(2).Z) {
			return L(AI(r.Intn(2)), in)
		}
	}
}

func (c09s) Class(in, obs Sx) (string, bool) {
	if obs.Len() < 2 {
		return "hang", true
	}
	c, nt := c09{}.Class(in.Nth(1), obs)
	return "order" + strconv.Itoa(in.Nth(0).Int()) + "/" + c, nt
}
