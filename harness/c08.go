package main

func init() { props["C08"] = stProp{flavor: "c08"} }
