package main

// C20X — sub-check of C20: chains of digest set operations on DERIVED sets.
//
// C20's own set cases apply every set function to freshly built sets only.  Here a
// small program runs over an environment of real digest.Set values: the results of
// one operation (partitions that are sub-slices of their origin, sets returned
// unchanged by RemoveEmptyBlob / single-set GetUnion, difference results) are kept
// as they are and fed to later operations, so storage shared between a derived set
// and its origin is exercised.
//
// Input:  (universe sets prog)
//   universe entry = (inst fn hash size), set = indices into the universe (as C20 kind 6)
//   prog instruction = (0 i j)      GetDifferenceAndIntersection(env[i], env[j]) -> onlyA both onlyB
//                      (1 i1 .. ik) GetUnion([env[i1] .. env[ik]])              -> 1 set
//                      (2 i)        env[i].PartitionByInstanceName()            -> its partitions
//                      (3 i)        env[i].RemoveEmptyBlob()                    -> 1 set
//   env starts as the built sets; every instruction appends its outputs; an index
//   beyond the environment denotes the empty set.
// Observation: (keys built steps), step = (0 (set ...)) | (-1) on a panic (nothing appended);
//   a set = list of digest keys (Digest.String()).

import (
	"fmt"
	"sort"

	remoteexecution "github.com/bazelbuild/remote-apis/build/bazel/remote/execution/v2"
	"github.com/buildbarn/bb-storage/pkg/digest"
)

func init() { props["C20X"] = c20x{} }

type c20x struct{}

type c20xIns struct {
	op   int
	args []int
}

func c20xProg(p Sx) ([]c20xIns, bool) {
	if p.IsAtom {
		return nil, false
	}
	var prog []c20xIns
	for _, e := range p.List {
		if e.IsAtom || e.Len() < 1 {
			return nil, false
		}
		op, ok := c20Small(e.Nth(0))
		if !ok || op > 3 {
			return nil, false
		}
		args := make([]int, 0, e.Len()-1)
		for _, a := range e.List[1:] {
			v, ok := c20Small(a)
			if !ok {
				return nil, false
			}
			args = append(args, v)
		}
		if (op == 0 && len(args) != 2) || ((op == 2 || op == 3) && len(args) != 1) {
			return nil, false
		}
		prog = append(prog, c20xIns{op, args})
	}
	return prog, true
}

func c20xUniverse(u Sx) ([]digest.Digest, bool) {
	if u.IsAtom {
		return nil, false
	}
	var us []digest.Digest
	for _, e := range u.List {
		if e.IsAtom || e.Len() != 4 {
			return nil, false
		}
		inst, ok1 := c20Bytes(e.Nth(0))
		fn, ok2 := c20Small(e.Nth(1))
		hash, ok3 := c20Bytes(e.Nth(2))
		sz := e.Nth(3)
		if !(ok1 && ok2 && ok3) || !sz.IsAtom || sz.Big != "" || fn == 0 {
			return nil, false
		}
		inm, err := digest.NewInstanceName(string(inst))
		if err != nil {
			return nil, false
		}
		f, err := inm.GetDigestFunction(remoteexecution.DigestFunction_Value(fn), 0)
		if err != nil {
			return nil, false
		}
		d, err := f.NewDigest(string(hash), sz.Z)
		if err != nil {
			return nil, false
		}
		us = append(us, d)
	}
	return us, true
}

// c20xStep runs one instruction on the real sets.
func c20xStep(env []digest.Set, ins c20xIns) (outs []digest.Set, panicked bool) {
	defer func() {
		if r := recover(); r != nil {
			outs, panicked = nil, true
		}
	}()
	get := func(i int) digest.Set {
		if i < len(env) {
			return env[i]
		}
		return digest.EmptySet
	}
	switch ins.op {
	case 0:
		oa, bo, ob := digest.GetDifferenceAndIntersection(get(ins.args[0]), get(ins.args[1]))
		return []digest.Set{oa, bo, ob}, false
	case 1:
		sets := make([]digest.Set, len(ins.args))
		for k, i := range ins.args {
			sets[k] = get(i)
		}
		return []digest.Set{digest.GetUnion(sets)}, false
	case 2:
		return get(ins.args[0]).PartitionByInstanceName(), false
	default:
		return []digest.Set{get(ins.args[0]).RemoveEmptyBlob()}, false
	}
}

func (c20x) Exec(in Sx) (res Sx, ok bool) {
	if in.IsAtom || in.Len() != 3 || in.Nth(1).IsAtom {
		return Sx{}, false
	}
	us, ok := c20xUniverse(in.Nth(0))
	if !ok {
		return Sx{}, false
	}
	prog, ok := c20xProg(in.Nth(2))
	if !ok {
		return Sx{}, false
	}
	var env []digest.Set
	for _, s := range in.Nth(1).List {
		if s.IsAtom {
			return Sx{}, false
		}
		sb := digest.NewSetBuilder(0)
		for _, ix := range s.List {
			i, ok := c20Small(ix)
			if !ok || i >= len(us) {
				return Sx{}, false
			}
			sb.Add(us[i])
		}
		env = append(env, sb.Build())
	}
	defer func() {
		if r := recover(); r != nil {
			res, ok = c20Panic, true
		}
	}()
	bl := make([]Sx, len(env))
	for i, s := range env {
		bl[i] = c20SetSx(s)
	}
	steps := make([]Sx, 0, len(prog))
	for _, ins := range prog {
		outs, panicked := c20xStep(env, ins)
		if panicked {
			steps = append(steps, c20Panic)
			continue
		}
		l := make([]Sx, len(outs))
		for i, s := range outs {
			l[i] = c20SetSx(s)
		}
		steps = append(steps, L(A(0), L(l...)))
		env = append(env, outs...)
	}
	return L(c20Keys(us), L(bl...), L(steps...)), true
}

// ---------------------------------------------------------------- generation
//
// The generator keeps its own picture of the environment (sets of key strings in
// string order) only to know how many sets each instruction appends and which of
// them are worth combining; it does not call pkg/digest.

type c20xEnt struct {
	inst string
	enum int
	hash string
	size int64
}

func (e c20xEnt) key() string { return fmt.Sprintf("%d-%s-%d-%s", e.enum, e.hash, e.size, e.inst) }

type c20xSim struct {
	inst map[string]string
	size map[string]int64
	env  [][]string
	prog []Sx
}

func c20xNorm(l []string) []string {
	m := map[string]bool{}
	var out []string
	for _, x := range l {
		if !m[x] {
			m[x] = true
			out = append(out, x)
		}
	}
	sort.Strings(out)
	return out
}

func (s *c20xSim) get(i int) []string {
	if i < len(s.env) {
		return s.env[i]
	}
	return nil
}

func (s *c20xSim) has(l []string, x string) bool {
	for _, y := range l {
		if x == y {
			return true
		}
	}
	return false
}

// emit appends the instruction and returns the index of its first output and the number of outputs.
func (s *c20xSim) emit(op int, args ...int) (int, int) {
	base := len(s.env)
	s.prog = append(s.prog, LInts(append([]int{op}, args...)))
	switch op {
	case 0:
		a, b := s.get(args[0]), s.get(args[1])
		var oa, bo, ob []string
		for _, x := range a {
			if s.has(b, x) {
				bo = append(bo, x)
			} else {
				oa = append(oa, x)
			}
		}
		for _, x := range b {
			if !s.has(a, x) {
				ob = append(ob, x)
			}
		}
		s.env = append(s.env, oa, bo, ob)
	case 1:
		var all []string
		for _, i := range args {
			all = append(all, s.get(i)...)
		}
		s.env = append(s.env, c20xNorm(all))
	case 2:
		var order []string
		parts := map[string][]string{}
		for _, x := range s.get(args[0]) {
			in := s.inst[x]
			if _, ok := parts[in]; !ok {
				order = append(order, in)
			}
			parts[in] = append(parts[in], x)
		}
		for _, in := range order {
			s.env = append(s.env, parts[in])
		}
	case 3:
		var out []string
		for _, x := range s.get(args[0]) {
			if s.size[x] != 0 {
				out = append(out, x)
			}
		}
		s.env = append(s.env, out)
	}
	return base, len(s.env) - base
}

func (s *c20xSim) instances(l []string) int {
	m := map[string]bool{}
	for _, x := range l {
		m[s.inst[x]] = true
	}
	return len(m)
}

// pickSet prefers sets holding digests of several instance names.
func (s *c20xSim) pickSet(r *Rand) int {
	best := r.Intn(len(s.env))
	for k := 0; k < 3; k++ {
		c := r.Intn(len(s.env))
		if s.instances(s.env[c]) > s.instances(s.env[best]) {
			best = c
		}
	}
	return best
}

func (c20x) Gen(r *Rand, i int, tier string) Sx {
	instPool := []string{"", "a", "a/b", "ab", "b", "x"}
	ni := 2 + r.Intn(3)
	insts := make([]string, 0, ni)
	for _, p := range c14fPerm(r, len(instPool))[:ni] {
		insts = append(insts, instPool[p])
	}
	nh := 2 + r.Intn(4)
	f := c20Fns[2] // md5: short keys
	if r.Chance(15) {
		f = c20Fns[r.Intn(len(c20Fns))]
	}
	hashes := make([]string, nh)
	for k := range hashes {
		hashes[k] = c20GenHash(r, f.bytes)
	}
	sort.Strings(hashes)
	// digests: hash x instance name pairs.  In "block" mode the lowest hashes belong to one
	// instance name only, so that this instance name's digests form a prefix of every set.
	var ents []c20xEnt
	block := r.Chance(50)
	split := 1 + r.Intn(nh)
	lowInst := insts[r.Intn(ni)]
	for k, h := range hashes {
		size := r.Pick2([]int64{0, 1, 1, 5, 12})
		if block && k < split {
			ents = append(ents, c20xEnt{lowInst, f.enum, h, size})
			continue
		}
		for _, in := range insts {
			if block && in == lowInst && r.Chance(70) {
				continue
			}
			if r.Chance(60) {
				ents = append(ents, c20xEnt{in, f.enum, h, size})
			}
		}
	}
	if len(ents) == 0 {
		ents = append(ents, c20xEnt{insts[0], f.enum, hashes[0], 1})
	}
	if r.Chance(10) { // an exact duplicate entry
		ents = append(ents, ents[r.Intn(len(ents))])
	}
	sim := &c20xSim{inst: map[string]string{}, size: map[string]int64{}}
	us := make([]Sx, len(ents))
	for k, e := range ents {
		us[k] = L(LStr(e.inst), AI(e.enum), LStr(e.hash), A(e.size))
		sim.inst[e.key()] = e.inst
		sim.size[e.key()] = e.size
	}
	ns := 1 + r.Intn(3)
	sets := make([]Sx, ns)
	for k := range sets {
		var ix []int
		var keys []string
		all := k == 0 && r.Chance(50)
		for j := range ents {
			if all || r.Chance(60) {
				ix = append(ix, j)
				keys = append(keys, ents[j].key())
			}
		}
		if r.Chance(20) && len(ix) > 0 { // duplicates and disorder in the builder input
			j := ix[r.Intn(len(ix))]
			ix = append([]int{j}, ix...)
		}
		sets[k] = LInts(ix)
		sim.env = append(sim.env, c20xNorm(keys))
	}
	n := 3 + r.Intn(8)
	for len(sim.prog) < n {
		s := sim.pickSet(r)
		switch p := r.Intn(100); {
		case p < 45: // partition, then combine the partitions with their origin
			base, k := sim.emit(2, s)
			if k == 0 {
				continue
			}
			for c := 1 + r.Intn(3); c > 0; c-- {
				pj := base + r.Intn(k)
				if r.Chance(60) {
					pj = base
				}
				switch r.Intn(6) {
				case 0:
					sim.emit(0, s, pj)
				case 1:
					sim.emit(0, pj, s)
				case 2:
					sim.emit(1, s, pj)
				case 3:
					sim.emit(1, pj, base+r.Intn(k), s)
				case 4:
					sim.emit(0, pj, base+r.Intn(k))
				case 5:
					b2, _ := sim.emit(0, s, pj)
					sim.emit(1, b2, b2+1)
				}
			}
		case p < 55: // a set with itself
			sim.emit(0, s, s)
		case p < 70: // difference results fed back in
			t := r.Intn(len(sim.env))
			b, _ := sim.emit(0, s, t)
			switch r.Intn(4) {
			case 0:
				sim.emit(0, b, s)
			case 1:
				sim.emit(0, s, b+1)
			case 2:
				sim.emit(1, b, b+1, b+2)
			case 3:
				sim.emit(2, b+r.Intn(3))
			}
		case p < 80: // sets returned unchanged: RemoveEmptyBlob / GetUnion of one set
			var b int
			if r.Bool() {
				b, _ = sim.emit(3, s)
			} else {
				b, _ = sim.emit(1, s)
			}
			if r.Bool() {
				pb, k := sim.emit(2, b)
				if k > 0 {
					if r.Bool() {
						sim.emit(0, s, pb)
					} else {
						sim.emit(0, pb, s)
					}
				}
			} else {
				sim.emit(0, b, s)
			}
		case p < 90: // union of overlapping derived sets
			k := 2 + r.Intn(3)
			args := make([]int, k)
			for j := range args {
				args[j] = r.Intn(len(sim.env))
				if r.Chance(50) && len(sim.env) > ns {
					args[j] = ns + r.Intn(len(sim.env)-ns)
				}
			}
			sim.emit(1, args...)
		default: // anything, incl. an index just beyond the environment (the empty set)
			a, b := r.Intn(len(sim.env)+1), r.Intn(len(sim.env)+1)
			switch r.Intn(4) {
			case 0:
				sim.emit(0, a, b)
			case 1:
				sim.emit(1, a, b)
			case 2:
				sim.emit(2, a)
			case 3:
				sim.emit(3, a)
			}
		}
	}
	if len(sim.prog) > 10 {
		sim.prog = sim.prog[:10]
	}
	return L(L(us...), L(sets...), L(sim.prog...))
}

func (c20x) Class(in, obs Sx) (string, bool) {
	if obs.Len() == 1 {
		return "setprog/PANIC", true
	}
	ns := in.Nth(1).Len()
	derived, part := false, false
	for _, e := range in.Nth(2).List {
		if e.IsAtom {
			continue
		}
		if e.Nth(0).Int() == 2 {
			part = true
		}
		for _, a := range e.List[1:] {
			if int(a.Int()) >= ns {
				derived = true
			}
		}
	}
	switch {
	case derived && part:
		return "setprog/derived-partition", true
	case derived:
		return "setprog/derived", true
	}
	return "setprog/fresh", in.Nth(2).Len() >= 2
}
