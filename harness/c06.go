package main

// C06: the real local.NewHashingKeyLocationMap over both LocationRecordArray
// implementations, driven through histories of Put / Get / PopFront / PushBack
// with a harness BlockReferenceResolver (absolute block numbering), observing
// every Get result after every step and the deltas of the anchored Prometheus
// collectors.  Second case kind: the 66-byte record codec.

import (
	"fmt"
	"io"
	"strings"

	"github.com/buildbarn/bb-storage/pkg/blobstore/local"
	"github.com/prometheus/client_golang/prometheus"
	"github.com/prometheus/client_golang/prometheus/collectors"
)

func init() {
	props["C06"] = c06{}
	// Only the collectors of the code under test are of interest; gathering
	// the Go runtime collector on every step would dominate the run time.
	prometheus.Unregister(collectors.NewGoCollector())
	prometheus.Unregister(collectors.NewProcessCollector(collectors.ProcessCollectorOpts{}))
}

type c06 struct{}

const c06StorageType = "c06"

// ---- resolver: one epoch per block, absolute block b has epoch b+1 ----

type c06Resolver struct {
	lo, hi   uint64 // blocks released so far / blocks ever pushed
	seedBase uint64
}

func c06Mix(x uint64) uint64 {
	x += 0x9e3779b97f4a7c15
	x = (x ^ (x >> 30)) * 0xbf58476d1ce4e5b9
	x = (x ^ (x >> 27)) * 0x94d049bb133111eb
	return x ^ (x >> 31)
}

func (r *c06Resolver) seed(epoch uint32) uint64 { return c06Mix(r.seedBase + uint64(epoch)) }

func (r *c06Resolver) BlockReferenceToBlockIndex(ref local.BlockReference) (int, uint64, bool) {
	epochIndex := ref.EpochID - uint32(r.lo+1)
	if epochIndex >= uint32(r.hi-r.lo) {
		return 0, 0, false
	}
	bfl := uint32(ref.BlocksFromLast)
	if bfl > epochIndex {
		return 0, 0, false
	}
	return int(epochIndex - bfl), r.seed(ref.EpochID), true
}

func (r *c06Resolver) BlockIndexToBlockReference(blockIndex int) (local.BlockReference, uint64) {
	last := int(r.hi-r.lo) - 1
	ref := local.BlockReference{EpochID: uint32(r.hi), BlocksFromLast: uint16(last - blockIndex)}
	return ref, r.seed(ref.EpochID)
}

// ---- byte-slice block device ----

type c06Device struct{ data []byte }

func (d *c06Device) ReadAt(p []byte, off int64) (int, error) {
	if off < 0 || off+int64(len(p)) > int64(len(d.data)) {
		return 0, io.EOF
	}
	return copy(p, d.data[off:]), nil
}

func (d *c06Device) WriteAt(p []byte, off int64) (int, error) {
	if off < 0 || off+int64(len(p)) > int64(len(d.data)) {
		return 0, io.ErrShortWrite
	}
	return copy(d.data[off:], p), nil
}
func (d *c06Device) Sync() error  { return nil }
func (d *c06Device) Close() error { return nil }

// ---- metrics ----

type c06Metrics [10]float64 // ins_n ins_sum upd_n upd_sum ign_n ign_sum tma_n tma_sum tmi gtm

func c06Gather() c06Metrics {
	var m c06Metrics
	mfs, err := prometheus.DefaultGatherer.Gather()
	if err != nil {
		panic(err)
	}
	const pfx = "buildbarn_blobstore_hashing_key_location_map_"
	for _, mf := range mfs {
		name := mf.GetName()
		if !strings.HasPrefix(name, pfx) {
			continue
		}
		for _, me := range mf.GetMetric() {
			st, outcome := "", ""
			for _, lp := range me.GetLabel() {
				switch lp.GetName() {
				case "storage_type":
					st = lp.GetValue()
				case "outcome":
					outcome = lp.GetValue()
				}
			}
			if st != c06StorageType {
				continue
			}
			switch name[len(pfx):] {
			case "put_iterations":
				i := -1
				switch outcome {
				case "Inserted":
					i = 0
				case "Updated":
					i = 2
				case "IgnoredOlder":
					i = 4
				case "TooManyAttempts":
					i = 6
				}
				if i >= 0 {
					m[i] = float64(me.GetHistogram().GetSampleCount())
					m[i+1] = me.GetHistogram().GetSampleSum()
				}
			case "put_too_many_iterations_total":
				m[8] = me.GetCounter().GetValue()
			case "get_too_many_attempts_total":
				m[9] = me.GetCounter().GetValue()
			}
		}
	}
	return m
}

func c06Delta(a, b c06Metrics) Sx {
	l := make([]Sx, len(a))
	for i := range a {
		l[i] = A(int64(b[i] - a[i]))
	}
	return L(l...)
}

// ---- case execution ----

func c06Atom(s Sx) bool { return s.IsAtom && s.Big == "" }

func c06U64(s Sx) (uint64, bool) {
	if !s.IsAtom {
		return 0, false
	}
	if s.Big != "" {
		var v uint64
		if _, err := fmt.Sscanf(s.Big, "%d", &v); err != nil || strings.HasPrefix(s.Big, "-") {
			return 0, false
		}
		return v, true
	}
	if s.Z < 0 {
		return 0, false
	}
	return uint64(s.Z), true
}

func c06Key(s Sx) (local.Key, bool) {
	var k local.Key
	if s.IsAtom || len(s.List) != len(k) {
		return k, false
	}
	for i, x := range s.List {
		if !c06Atom(x) || x.Z < 0 || x.Z > 255 {
			return k, false
		}
		k[i] = byte(x.Z)
	}
	return k, true
}

func (c06) Exec(in Sx) (Sx, bool) {
	if in.IsAtom || in.Len() < 1 || !c06Atom(in.Nth(0)) {
		return Sx{}, false
	}
	switch in.Nth(0).Z {
	case 0:
		return c06ExecHist(in)
	case 1:
		return c06ExecCodec(in)
	}
	return Sx{}, false
}

func c06ExecHist(in Sx) (Sx, bool) {
	if in.Len() != 9 {
		return Sx{}, false
	}
	for i := 1; i <= 4; i++ {
		if !c06Atom(in.Nth(i)) {
			return Sx{}, false
		}
	}
	backend, n, maxGet, maxPut := in.Nth(1).Z, in.Nth(2).Z, in.Nth(3).Z, in.Nth(4).Z
	hashInit, ok1 := c06U64(in.Nth(5))
	h0, ok2 := c06U64(in.Nth(6))
	if !ok1 || !ok2 || backend < 0 || backend > 1 || n < 0 || n > 4096 || maxGet < 0 || maxGet > 64 ||
		maxPut < 0 || maxPut > 64 || h0 > 1000 || in.Nth(7).IsAtom || in.Nth(8).IsAtom {
		return Sx{}, false
	}
	var keys []local.Key
	for _, ks := range in.Nth(7).List {
		k, ok := c06Key(ks)
		if !ok {
			return Sx{}, false
		}
		keys = append(keys, k)
	}
	ops := in.Nth(8).List
	if len(ops) > 400 || len(keys) > 32 {
		return Sx{}, false
	}
	// validate the operations against the block window before running anything
	{
		lo, hi := uint64(0), h0
		for _, o := range ops {
			if o.IsAtom || o.Len() < 1 || !c06Atom(o.Nth(0)) {
				return Sx{}, false
			}
			switch o.Nth(0).Z {
			case 0:
				if o.Len() != 5 || !c06Atom(o.Nth(1)) || o.Nth(1).Z < 0 || int(o.Nth(1).Z) >= len(keys) {
					return Sx{}, false
				}
				b, okb := c06U64(o.Nth(2))
				off, oko := c06U64(o.Nth(3))
				sz, oks := c06U64(o.Nth(4))
				if !okb || !oko || !oks || b < lo || b >= hi || off >= 1<<63 || sz >= 1<<63 {
					return Sx{}, false
				}
			case 1:
				if o.Len() != 2 || !c06Atom(o.Nth(1)) || o.Nth(1).Z < 0 || int(o.Nth(1).Z) >= len(keys) {
					return Sx{}, false
				}
			case 2:
				if o.Len() != 1 || lo >= hi {
					return Sx{}, false
				}
				lo++
			case 3:
				if o.Len() != 1 || hi-lo >= 60000 {
					return Sx{}, false
				}
				hi++
			default:
				return Sx{}, false
			}
		}
	}

	res := &c06Resolver{lo: 0, hi: h0, seedBase: hashInit ^ 0x0c06}
	var arr local.LocationRecordArray
	if backend == 0 {
		arr = local.NewInMemoryLocationRecordArray(int(n), res)
	} else {
		arr = local.NewBlockDeviceBackedLocationRecordArray(
			&c06Device{data: make([]byte, int(n)*local.BlockDeviceBackedLocationRecordSize)}, res)
	}
	klm := local.NewHashingKeyLocationMap(arr, int(n), hashInit, uint32(maxGet), int(maxPut), c06StorageType)

	var last c06Metrics
	get := func(k local.Key) Sx {
		before := last
		l, err := klm.Get(k)
		after := c06Gather()
		last = after
		if err == nil {
			return L(A(1), AU(uint64(l.BlockIndex)+res.lo), AU(uint64(l.OffsetBytes)), AU(uint64(l.SizeBytes)))
		}
		// every error of Get is NotFound here (the device never fails)
		if after[9]-before[9] == 1 {
			return L(A(2), A(0), A(0), A(0))
		}
		return L(A(0), A(0), A(0), A(0))
	}

	steps := make([]Sx, 0, len(ops))
	last = c06Gather()
	for _, o := range ops {
		before := last
		switch o.Nth(0).Z {
		case 0:
			b, _ := c06U64(o.Nth(2))
			off, _ := c06U64(o.Nth(3))
			sz, _ := c06U64(o.Nth(4))
			if err := klm.Put(keys[o.Nth(1).Z], local.Location{BlockIndex: int(b - res.lo), OffsetBytes: int64(off), SizeBytes: int64(sz)}); err != nil {
				return L(A(-2)), true
			}
		case 1:
			klm.Get(keys[o.Nth(1).Z])
		case 2:
			res.lo++
		case 3:
			res.hi++
		}
		after := c06Gather()
		last = after
		sweep := make([]Sx, len(keys))
		for i, k := range keys {
			sweep[i] = get(k)
		}
		steps = append(steps, L(c06Delta(before, after), L(sweep...)))
	}
	return L(steps...), true
}

// codec resolver: fixed answers
type c06CodecResolver struct {
	ref  local.BlockReference
	seed uint64
}

func (r *c06CodecResolver) BlockReferenceToBlockIndex(ref local.BlockReference) (int, uint64, bool) {
	return 0, r.seed, true
}

func (r *c06CodecResolver) BlockIndexToBlockReference(blockIndex int) (local.BlockReference, uint64) {
	return r.ref, r.seed
}

func c06ExecCodec(in Sx) (Sx, bool) {
	if in.Len() != 10 {
		return Sx{}, false
	}
	var v [10]uint64
	for _, i := range []int{1, 2, 4, 5, 6, 7, 8, 9} {
		x, ok := c06U64(in.Nth(i))
		if !ok {
			return Sx{}, false
		}
		v[i] = x
	}
	key, ok := c06Key(in.Nth(3))
	if !ok || v[1] >= 1<<32 || v[2] >= 1<<16 || v[4] >= 1<<32 || v[5] >= 1<<63 || v[6] >= 1<<63 {
		return Sx{}, false
	}
	const index = 2
	dev := &c06Device{data: make([]byte, (index+2)*local.BlockDeviceBackedLocationRecordSize)}
	res := &c06CodecResolver{ref: local.BlockReference{EpochID: uint32(v[1]), BlocksFromLast: uint16(v[2])}, seed: v[7]}
	arr := local.NewBlockDeviceBackedLocationRecordArray(dev, res)
	if err := arr.Put(index, local.LocationRecord{
		RecordKey: local.LocationRecordKey{Key: key, Attempt: uint32(v[4])},
		Location:  local.Location{BlockIndex: 0, OffsetBytes: int64(v[5]), SizeBytes: int64(v[6])},
	}); err != nil {
		return L(A(-2)), true
	}
	rec := dev.data[index*local.BlockDeviceBackedLocationRecordSize : (index+1)*local.BlockDeviceBackedLocationRecordSize]
	bytes := LBytes(rec)
	// nothing outside the record may be written
	for i, b := range dev.data {
		if b != 0 && (i < index*local.BlockDeviceBackedLocationRecordSize || i >= (index+1)*local.BlockDeviceBackedLocationRecordSize) {
			return L(A(-3)), true
		}
	}
	if v[9] < uint64(len(rec)) {
		rec[v[9]] ^= 1
	}
	res.seed = v[8]
	got, err := arr.Get(index)
	var g Sx
	if err == local.ErrLocationRecordInvalid {
		g = L()
	} else if err != nil {
		return L(A(-2)), true
	} else {
		g = L(LBytes(got.RecordKey.Key[:]), AU(uint64(got.RecordKey.Attempt)), AU(uint64(got.Location.OffsetBytes)), AU(uint64(got.Location.SizeBytes)))
	}
	return L(bytes, g), true
}

// ---- generation ----

func c06KeySx(k local.Key) Sx { return LBytes(k[:]) }

func c06RandKey(r *Rand) local.Key {
	var k local.Key
	for i := 0; i < len(k); i += 8 {
		x := r.U64()
		for j := 0; j < 8; j++ {
			k[i+j] = byte(x >> (8 * j))
		}
	}
	return k
}

func c06Slot(k local.Key, attempt uint32, init uint64, n int) int {
	rk := local.LocationRecordKey{Key: k, Attempt: attempt}
	return int(rk.Hash(init) % uint64(n))
}

var c06Inits = []uint64{0, 1, 14695981039346656037, 1<<64 - 1, 1 << 63}

func (c06) Gen(r *Rand, i int, tier string) Sx {
	if r.Chance(8) {
		return c06GenCodec(r)
	}
	hostile := r.Chance(15)
	n := 1 + r.Intn(7)
	if r.Chance(12) {
		n = 101
	}
	maxGet := 1 + r.Intn(4)
	maxPut := 1 + r.Intn(6)
	nkeys := 2 + r.Intn(5)
	steps := 40
	if tier == "thorough" && r.Chance(30) {
		steps = 40 + r.Intn(80)
	}
	if r.Chance(15) {
		steps = 5 + r.Intn(35)
	}
	hashInit := r.U64()
	if r.Chance(25) {
		hashInit = c06Inits[r.Intn(len(c06Inits))]
	}
	if hostile {
		switch r.Intn(6) {
		case 0:
			n = 0
			steps = 1 + r.Intn(3)
		case 1:
			maxGet = 0
		case 2:
			maxPut = 0
		case 3:
			n = 1
			nkeys = 6
		case 4:
			maxGet = 1 + r.Intn(8)
			maxPut = 1 + r.Intn(12)
		case 5:
			n = 2 + r.Intn(2)
			maxGet = 4
			maxPut = 1 + r.Intn(2)
		}
	}
	keys := make([]local.Key, 0, nkeys)
	for len(keys) < nkeys {
		k := c06RandKey(r)
		if n == 101 && len(keys) > 0 && r.Chance(80) {
			// large table: look for keys whose probe sequences meet those of the first key
			want := c06Slot(keys[0], uint32(r.Intn(2)), hashInit, n)
			for tries := 0; tries < 2000; tries++ {
				if c06Slot(k, 0, hashInit, n) == want || c06Slot(k, 1, hashInit, n) == want {
					break
				}
				k = c06RandKey(r)
			}
		}
		if hostile && len(keys) > 0 && r.Chance(15) {
			k = keys[r.Intn(len(keys))] // the same key twice in the key list
		}
		keys = append(keys, k)
	}
	h0 := uint64(1 + r.Intn(3))
	lo, hi := uint64(0), h0
	nextOff := map[uint64]uint64{}
	type put struct{ b, off, sz uint64 }
	var puts []put
	ops := make([]Sx, 0, steps)
	pRelease, pGrow, pGet := 10, 14, 8
	if r.Chance(30) {
		pRelease, pGrow = 4, 5 // long-lived windows: tables fill up, more displacement chains
	}
	for len(ops) < steps {
		c := r.Intn(100)
		switch {
		case lo == hi || c < pGrow:
			ops = append(ops, L(A(3)))
			hi++
		case c < pGrow+pRelease:
			ops = append(ops, L(A(2)))
			lo++
		case c < pGrow+pRelease+pGet:
			ops = append(ops, L(A(1), AI(r.Intn(nkeys))))
		default:
			ki := r.Intn(nkeys)
			var p put
			switch m := r.Intn(100); {
			case m < 55 || len(puts) == 0:
				// allocation order: newest block, increasing offsets
				p.b = hi - 1
				p.off = nextOff[p.b]
				p.sz = uint64(r.Intn(5))
				nextOff[p.b] += p.sz + uint64(r.Intn(2))
			case m < 70:
				// any live block, any small offset (older or newer than what is stored)
				p.b = lo + uint64(r.Intn(int(hi-lo)))
				p.off = uint64(r.Intn(8))
				p.sz = uint64(r.Intn(5))
			case m < 90:
				// an earlier location again (equal locations under different keys,
				// same location with another size under the same key)
				q := puts[r.Intn(len(puts))]
				if q.b < lo {
					q.b = lo
				}
				p = q
				if r.Chance(30) {
					p.sz = uint64(r.Intn(5))
				}
			default:
				p.b = lo + uint64(r.Intn(int(hi-lo)))
				p.off = []uint64{0, 1, 1<<63 - 1, 1<<62 + uint64(r.Intn(3)), 1 << 32}[r.Intn(5)]
				p.sz = []uint64{0, 1<<63 - 1, 7}[r.Intn(3)]
			}
			puts = append(puts, p)
			ops = append(ops, L(A(0), AI(ki), AU(p.b), AU(p.off), AU(p.sz)))
		}
	}
	ksx := make([]Sx, len(keys))
	for j, k := range keys {
		ksx[j] = c06KeySx(k)
	}
	return L(A(0), AI(r.Intn(2)), AI(n), AI(maxGet), AI(maxPut), AU(hashInit), AU(h0), L(ksx...), L(ops...))
}

func c06GenCodec(r *Rand) Sx {
	edge := func(bits uint) uint64 {
		switch r.Intn(5) {
		case 0:
			return 0
		case 1:
			return 1<<bits - 1
		case 2:
			return 1 << (bits - 1)
		default:
			return r.U64() & (1<<bits - 1)
		}
	}
	seed := r.U64()
	seed2 := seed
	flip := uint64(66 + r.Intn(4))
	switch r.Intn(10) {
	case 0, 1:
		seed2 = r.U64()
	case 2:
		seed2 = seed ^ 1
	case 3, 4, 5:
		flip = uint64(r.Intn(66))
	}
	return L(A(1), AU(edge(32)), AU(edge(16)), c06KeySx(c06RandKey(r)), AU(edge(32)), AU(edge(63)), AU(edge(63)),
		AU(seed), AU(seed2), AU(flip))
}

func (c06) Class(in, obs Sx) (string, bool) {
	if in.Nth(0).Z == 1 {
		if obs.Nth(1).Len() == 0 {
			return "codec/rejected", true
		}
		return "codec/readback", true
	}
	if obs.Len() == 1 && obs.Nth(0).IsAtom {
		return "hist/panic", false
	}
	n := in.Nth(2).Z
	nb := "n1"
	switch {
	case n == 0:
		nb = "n0"
	case n == 1:
		nb = "n1"
	case n <= 3:
		nb = "n2-3"
	case n <= 7:
		nb = "n4-7"
	default:
		nb = "n101"
	}
	var disc, displaced, tma, tmi, upd, ign, gtm int64
	for _, st := range obs.List {
		m := st.Nth(0)
		cnt := m.Nth(0).Z + m.Nth(2).Z + m.Nth(4).Z + m.Nth(6).Z
		sum := m.Nth(1).Z + m.Nth(3).Z + m.Nth(5).Z + m.Nth(7).Z
		if sum > cnt || m.Nth(8).Z > 0 {
			displaced++
		}
		tma += m.Nth(6).Z
		tmi += m.Nth(8).Z
		upd += m.Nth(2).Z
		ign += m.Nth(4).Z
		gtm += m.Nth(9).Z
		for _, g := range st.Nth(1).List {
			if g.Nth(0).Z == 2 {
				gtm++
			}
		}
	}
	disc = tma + tmi
	b := func(x int64, s string) string {
		if x > 0 {
			return s
		}
		return "-"
	}
	cls := fmt.Sprintf("hist/%s/be%d/%s%s%s%s%s", nb, in.Nth(1).Z, b(tma, "A"), b(tmi, "I"), b(upd, "U"), b(ign, "O"), b(gtm, "G"))
	_ = disc
	return cls, displaced > 0
}
