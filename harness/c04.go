package main

func init() { props["C04"] = stProp{flavor: "c04"} }
