package main

// C14P — sub-check of C14: client<->server uploads that fail at the END of the
// ByteStream.Write RPC.  The real grpcclients.NewCASBlobAccess talks over
// bufconn to the real ByteStream / ContentAddressableStorage / Capabilities
// servers on top of a recording in-memory backend whose NEXT Put can be armed
// to fail with a given gRPC code
//   fm 1: after consuming (and thereby validating) the whole upload,
//   fm 2: before reading anything (the buffer is discarded),
//   fm 3: after reading a first chunk of it (the reader is closed),
// and the client is handed buffers WITHOUT a client-side digest check
// (buffer.NewValidatedBufferFromByteSlice), so that data not matching the
// digest in the resource name reaches the SERVER and is rejected there.  In
// both situations the verdict arrives only as the final status of the Write
// RPC (the answer to finish_write / half-close).
//
// Case shape (decoders in coq/Run/R14P.v):
//   (blobs mode chunk ops)
//   mode: 0 identity (client without a zstd pool)
//         1 zstd, bounded pool            2 zstd, the library-default pool
//         3 client with a pool, server not advertising ZSTD (identity)
//   op: (0 bi size fm code di)  Put through the client of the digest
//                               (hash of blob bi, size) with the bytes of blob
//                               di; fm/code arm the backend's next Put (fm 0: none)
//       (1 bi size)             Get through the client
//       (2 ((bi size) ...))     FindMissing through the client
// Observation: (results final)
//   result: (code payload bcode); payload = bytes of a successful Get / the
//           sorted missing set of a FindMissing / () for a Put; bcode = what
//           the backend's Put returned during the operation (-1: not called)
//   final:  ((bi size data) ...) the backend's contents, sorted

import (
	"context"
	"fmt"
	"net"
	"sort"
	"sync"
	"time"

	remoteexecution "github.com/bazelbuild/remote-apis/build/bazel/remote/execution/v2"
	"github.com/buildbarn/bb-storage/pkg/blobstore"
	"github.com/buildbarn/bb-storage/pkg/blobstore/buffer"
	"github.com/buildbarn/bb-storage/pkg/blobstore/grpcclients"
	"github.com/buildbarn/bb-storage/pkg/blobstore/grpcservers"
	"github.com/buildbarn/bb-storage/pkg/blobstore/slicing"
	"github.com/buildbarn/bb-storage/pkg/capabilities"
	"github.com/buildbarn/bb-storage/pkg/digest"
	bb_zstd "github.com/buildbarn/bb-storage/pkg/zstd"
	"github.com/google/uuid"

	"google.golang.org/genproto/googleapis/bytestream"
	"google.golang.org/grpc"
	"google.golang.org/grpc/codes"
	"google.golang.org/grpc/credentials/insecure"
	"google.golang.org/grpc/status"
	"google.golang.org/grpc/test/bufconn"
)

func init() { props["C14P"] = c14p{} }

type c14p struct{}

// ---------------------------------------------------------------- backend

type c14pBackend struct {
	mu      sync.Mutex
	objects map[string]c14Stored
	armMode int // one shot: consumed by the next Put
	armCode int
	lastPut int // code returned by Put during the current operation, -1: not called
}

func (b *c14pBackend) GetCapabilities(ctx context.Context, instanceName digest.InstanceName) (*remoteexecution.ServerCapabilities, error) {
	return nil, status.Error(codes.Unimplemented, "n/a")
}

func (b *c14pBackend) Get(ctx context.Context, d digest.Digest) buffer.Buffer {
	b.mu.Lock()
	defer b.mu.Unlock()
	o, ok := b.objects[c14KeyOf(d)]
	if !ok {
		return buffer.NewBufferFromError(status.Error(codes.NotFound, "backend: no such object"))
	}
	return buffer.NewCASBufferFromByteSlice(d, o.data, buffer.BackendProvided(func(bool) {}))
}

func (b *c14pBackend) GetFromComposite(ctx context.Context, p, c digest.Digest, s slicing.BlobSlicer) buffer.Buffer {
	return buffer.NewBufferFromError(status.Error(codes.Unimplemented, "n/a"))
}

// Put always releases the buffer: ToByteSlice consumes it, Discard releases
// it, a chunk reader is closed.
func (b *c14pBackend) Put(ctx context.Context, d digest.Digest, buf buffer.Buffer) error {
	b.mu.Lock()
	fm, code := b.armMode, b.armCode
	b.armMode, b.armCode = 0, 0
	b.mu.Unlock()
	var ret error
	switch fm {
	case 2:
		buf.Discard()
		ret = status.Error(codes.Code(code), "backend put: refused")
	case 3:
		r := buf.ToChunkReader(0, 5)
		r.Read()
		r.Close()
		ret = status.Error(codes.Code(code), "backend put: failed while reading")
	default:
		data, err := buf.ToByteSlice(c14BackendMax)
		switch {
		case err != nil:
			ret = err
		case fm == 1:
			ret = status.Error(codes.Code(code), "backend put: failed while flushing")
		default:
			b.mu.Lock()
			b.objects[c14KeyOf(d)] = c14Stored{hash: d.GetHashString(), size: d.GetSizeBytes(), data: append([]byte(nil), data...)}
			b.mu.Unlock()
		}
	}
	b.mu.Lock()
	b.lastPut = c14Code(ret)
	b.mu.Unlock()
	return ret
}

func (b *c14pBackend) FindMissing(ctx context.Context, ds digest.Set) (digest.Set, error) {
	b.mu.Lock()
	defer b.mu.Unlock()
	sb := digest.NewSetBuilder(0)
	for _, d := range ds.Items() {
		if _, ok := b.objects[c14KeyOf(d)]; !ok {
			sb.Add(d)
		}
	}
	return sb.Build(), nil
}

var _ blobstore.BlobAccess = (*c14pBackend)(nil)

// ---------------------------------------------------------------- Exec

func c14pCheckOps(ops Sx, bl *c14Blobs) bool {
	if ops.IsAtom || ops.Len() > 32 {
		return false
	}
	for _, op := range ops.List {
		if op.IsAtom || op.Len() < 2 {
			return false
		}
		k, ok := c14Small(op.Nth(0))
		if !ok {
			return false
		}
		switch k {
		case 0:
			if op.Len() != 6 {
				return false
			}
			if _, size, ok := bl.ref(op.Nth(1), op.Nth(2)); !ok || size < 0 || size > 1<<20 {
				return false
			}
			fm, ok1 := c14Small(op.Nth(3))
			code, ok2 := c14Small(op.Nth(4))
			if !ok1 || !ok2 || fm < 0 || fm > 3 || (fm == 0 && code != 0) || (fm != 0 && !c14ValidCode(code)) {
				return false
			}
			if _, _, ok := bl.ref(op.Nth(5), A(0)); !ok {
				return false
			}
		case 1:
			if op.Len() != 3 {
				return false
			}
			if _, size, ok := bl.ref(op.Nth(1), op.Nth(2)); !ok || size < 0 || size > 1<<20 {
				return false
			}
		case 2:
			if op.Len() != 2 || op.Nth(1).IsAtom || op.Nth(1).Len() > 32 {
				return false
			}
			for _, e := range op.Nth(1).List {
				if e.IsAtom || e.Len() != 2 {
					return false
				}
				if _, size, ok := bl.ref(e.Nth(0), e.Nth(1)); !ok || size < 0 || size > 1<<20 {
					return false
				}
			}
		default:
			return false
		}
	}
	return true
}

func (c14p) Exec(in Sx) (Sx, bool) {
	if in.IsAtom || in.Len() != 4 {
		return Sx{}, false
	}
	bl, ok := c14ParseBlobs(in.Nth(0))
	if !ok {
		return Sx{}, false
	}
	mode, ok1 := c14Small(in.Nth(1))
	chunk, ok2 := c14Small(in.Nth(2))
	if !ok1 || !ok2 || mode < 0 || mode > 3 || chunk < 1 || chunk > 1<<20 {
		return Sx{}, false
	}
	if !c14pCheckOps(in.Nth(3), bl) {
		return Sx{}, false
	}

	be := &c14pBackend{objects: map[string]c14Stored{}, lastPut: -1}
	compressors := []remoteexecution.Compressor_Value{}
	var serverPool, clientPool bb_zstd.Pool = c14Pool, nil
	switch mode {
	case 1:
		compressors = append(compressors, remoteexecution.Compressor_ZSTD)
		clientPool = c14Pool
	case 2:
		compressors = append(compressors, remoteexecution.Compressor_ZSTD)
		clientPool, serverPool = c14PoolDefault, c14PoolDefault
	case 3:
		clientPool = c14Pool
	}
	caps := &remoteexecution.ServerCapabilities{CacheCapabilities: &remoteexecution.CacheCapabilities{
		DigestFunctions:      []remoteexecution.DigestFunction_Value{remoteexecution.DigestFunction_MD5},
		SupportedCompressors: compressors,
	}}
	lis := bufconn.Listen(1 << 20)
	s := grpc.NewServer()
	bytestream.RegisterByteStreamServer(s, grpcservers.NewByteStreamServer(be, int(chunk), serverPool))
	remoteexecution.RegisterContentAddressableStorageServer(s, grpcservers.NewContentAddressableStorageServer(be, 1<<20))
	remoteexecution.RegisterCapabilitiesServer(s, capabilities.NewServer(capabilities.NewStaticProvider(caps)))
	go s.Serve(lis)
	defer s.Stop()
	conn, err := grpc.NewClient("passthrough:///bufnet",
		grpc.WithContextDialer(func(ctx context.Context, _ string) (net.Conn, error) { return lis.DialContext(ctx) }),
		grpc.WithTransportCredentials(insecure.NewCredentials()))
	if err != nil {
		panic(err)
	}
	defer conn.Close()
	client := grpcclients.NewCASBlobAccess(conn, uuid.NewRandom, int(chunk), clientPool)

	res := []Sx{}
	for _, op := range in.Nth(3).List {
		ctx, cancel := context.WithTimeout(context.Background(), 20*time.Second)
		be.mu.Lock()
		be.lastPut = -1
		be.armMode, be.armCode = 0, 0
		be.mu.Unlock()
		switch op.Nth(0).Z {
		case 0:
			bi, size, _ := bl.ref(op.Nth(1), op.Nth(2))
			d, _ := bl.digest(bi, size)
			be.mu.Lock()
			be.armMode, be.armCode = int(op.Nth(3).Z), int(op.Nth(4).Z)
			be.mu.Unlock()
			// no digest check on the client side: whatever the bytes are, they are sent
			err := client.Put(ctx, d, buffer.NewValidatedBufferFromByteSlice(append([]byte(nil), bl.data[op.Nth(5).Z]...)))
			be.mu.Lock()
			res = append(res, L(AI(c14Code(err)), L(), AI(be.lastPut)))
			be.mu.Unlock()
		case 1:
			bi, size, _ := bl.ref(op.Nth(1), op.Nth(2))
			d, _ := bl.digest(bi, size)
			data, err := client.Get(ctx, d).ToByteSlice(c14BackendMax)
			res = append(res, L(AI(c14Code(err)), LBytes(data), A(-1)))
		case 2:
			sb := digest.NewSetBuilder(0)
			for _, e := range op.Nth(1).List {
				bi, size, _ := bl.ref(e.Nth(0), e.Nth(1))
				d, _ := bl.digest(bi, size)
				sb.Add(d)
			}
			missing, err := client.FindMissing(ctx, sb.Build())
			ms := []Sx{}
			if err == nil {
				for _, d := range missing.Items() {
					ms = append(ms, bl.ident(d.GetHashString(), d.GetSizeBytes()))
				}
			}
			c14SortIdents(ms)
			res = append(res, L(AI(c14Code(err)), L(ms...), A(-1)))
		}
		cancel()
	}
	be.mu.Lock()
	final := make([]c14Stored, 0, len(be.objects))
	for _, o := range be.objects {
		final = append(final, o)
	}
	be.mu.Unlock()
	fs := c14StoredSx(bl, final)
	sort.Slice(fs.List, func(i, j int) bool {
		if fs.List[i].Nth(0).Z != fs.List[j].Nth(0).Z {
			return fs.List[i].Nth(0).Z < fs.List[j].Nth(0).Z
		}
		return fs.List[i].Nth(1).Z < fs.List[j].Nth(1).Z
	})
	return L(L(res...), fs), true
}

// ---------------------------------------------------------------- generation

var c14pCodes = []int{8, 8, 8, 14, 14, 13, 7, 5, 3, 2, 10, 9}

func (c14p) Gen(r *Rand, i int, tier string) Sx {
	chunk := r.Pick([]int{1, 3, 16, 64, 64, 1024})
	sizes := []int{0, 1, chunk - 1, chunk, chunk + 1, 2 * chunk, 2*chunk + 1, 3*chunk + 5, 100, 257, 300}
	if r.Chance(10) {
		sizes = append(sizes, 2500, 6000)
	}
	// distinct blobs: the model's hash is the index of the byte string
	bs := [][]byte{}
	seen := map[string]bool{}
	for k := 1 + r.Intn(3); k > 0; k-- {
		n := r.Pick(sizes)
		if n < 0 {
			n = 0
		}
		if n > 6000 {
			n = 6000
		}
		b := c14Blob(r, n)
		if !seen[string(b)] {
			seen[string(b)] = true
			bs = append(bs, b)
		}
	}
	if len(bs) == 1 && r.Chance(60) {
		// a second blob of the same length (hash mismatch with the right size)
		b := append([]byte(nil), bs[0]...)
		if len(b) == 0 {
			b = []byte{1}
		} else {
			b[len(b)-1] ^= 1
		}
		bs = append(bs, b)
	}
	mode := r.Pick([]int{0, 0, 1, 1, 1, 2, 2, 3})
	ops := []Sx{}
	put := func(bi int, size int64, fm, code, di int) {
		ops = append(ops, L(A(0), AI(bi), A(size), AI(fm), AI(code), AI(di)))
	}
	look := func(bi int, size int64) {
		switch r.Intn(3) {
		case 0:
			ops = append(ops, L(A(1), AI(bi), A(size)))
		case 1:
			ops = append(ops, L(A(2), L(L(AI(bi), A(size)))))
		default:
			es := []Sx{L(AI(bi), A(size))}
			for q := r.Intn(3); q > 0; q-- {
				b2 := r.Intn(len(bs))
				es = append(es, L(AI(b2), AI(len(bs[b2]))))
			}
			ops = append(ops, L(A(2), L(es...)))
		}
	}
	n := 3 + r.Intn(8)
	for len(ops) < n {
		bi := r.Intn(len(bs))
		size := int64(len(bs[bi]))
		switch x := r.Intn(100); {
		case x < 45: // a backend failure, mostly at the very end of the upload
			fm := r.Pick([]int{1, 1, 1, 1, 2, 3})
			put(bi, size, fm, r.Pick(c14pCodes), bi)
			if r.Chance(80) {
				look(bi, size)
			}
			if r.Chance(60) {
				put(bi, size, 0, 0, bi)
				if r.Chance(60) {
					look(bi, size)
				}
			}
		case x < 70: // data that does not match the digest reaches the server
			di, sz := bi, size
			switch y := r.Intn(4); {
			case y == 0 && len(bs) > 1:
				di = (bi + 1 + r.Intn(len(bs)-1)) % len(bs)
			case y == 1:
				sz++
			case y == 2 && sz > 0:
				sz--
			default:
				if len(bs) > 1 {
					di = (bi + 1) % len(bs)
				} else {
					sz++
				}
			}
			fm, code := 0, 0
			if r.Chance(20) {
				fm, code = r.Pick([]int{1, 2, 3}), r.Pick(c14pCodes)
			}
			put(bi, sz, fm, code, di)
			if r.Chance(80) {
				look(bi, sz)
			}
			if r.Chance(40) {
				put(bi, size, 0, 0, bi)
			}
		case x < 85:
			put(bi, size, 0, 0, bi)
			if r.Chance(50) {
				look(bi, size)
			}
		default:
			look(bi, size)
		}
	}
	if len(ops) > 10 {
		ops = ops[:10]
	}
	return L(c14SxBlobs(bs...), AI(mode), AI(chunk), L(ops...))
}

// Class: site = cs-put-<compression>; shape = the kinds of failing upload the
// case holds (end: backend failure after consuming; early: before / while
// reading; bad: data not matching the digest); non-trivial = a failed upload
// is followed by a Get or FindMissing.
func (c14p) Class(in, obs Sx) (string, bool) {
	site := "cs-put-identity"
	if m := in.Nth(1).Z; m == 1 || m == 2 {
		site = "cs-put-zstd"
	}
	end, early, bad, checked := false, false, false, false
	failed := false
	worst := int64(0)
	for i, op := range in.Nth(3).List {
		if op.Nth(0).Z == 0 {
			switch op.Nth(3).Z {
			case 1:
				end = true
			case 2, 3:
				early = true
			}
			if op.Nth(1).Z != op.Nth(5).Z || op.Nth(2).Z != int64(in.Nth(0).Nth(int(op.Nth(5).Z)).Len()) {
				bad = true
			}
			if c := obs.Nth(0).Nth(i).Nth(0).Z; c != 0 {
				failed = true
				worst = c
			}
		} else if failed {
			checked = true
		}
	}
	shape := ""
	for _, p := range []struct {
		b bool
		s string
	}{{end, "end"}, {early, "early"}, {bad, "bad"}} {
		if p.b {
			shape += "+" + p.s
		}
	}
	if shape == "" {
		shape = "+clean"
	}
	outcome := "ok"
	if worst != 0 {
		outcome = "fail"
	}
	return fmt.Sprintf("%s/%s/%s", site, shape[1:], outcome), checked
}
