package main

// C14 — ByteStream / ContentAddressableStorage / ActionCache RPCs.
//
// The real gRPC service implementations of pkg/blobstore/grpcservers are
// driven in-process with fake stream objects over a recording in-memory
// backend; client<->server cases put the repository's own
// grpcclients.NewCASBlobAccess in front of the servers over an in-memory
// bufconn gRPC connection.  zstd goes through the real pkg/zstd pool.
//
// Case shapes (see coq/Run/R14.v for the decoders):
//   (0 blobs (rk bi size) msgs term pm)                 ByteStream.Write
//   (1 blobs (rk bi size) bm off limit chunk sendfail)  ByteStream.Read
//   (2 blobs ((bi size data pm) ...))                   BatchUpdateBlobs
//   (3 blobs ((bi size bm) ...) maxsize)                BatchReadBlobs
//   (4 blobs ((bi size absent) ...) fmerr)              FindMissingBlobs
//   (5 blobs zstd chunk ops)                            client <-> server over bufconn
//   (6 ((op key val) ...) maxsize)                      ActionCache Get/UpdateActionResult
// Observation: (oracle result); the oracle carries facts computed by real
// libraries that the model takes as function arguments (zstd decompression
// of every message prefix of a compressed upload).

import (
	"bytes"
	"context"
	"crypto/md5"
	"encoding/hex"
	"fmt"
	"io"
	"net"
	"sort"
	"sync"
	"time"

	remoteexecution "github.com/bazelbuild/remote-apis/build/bazel/remote/execution/v2"
	"github.com/buildbarn/bb-storage/pkg/blobstore"
	"github.com/buildbarn/bb-storage/pkg/blobstore/buffer"
	"github.com/buildbarn/bb-storage/pkg/blobstore/grpcclients"
	"github.com/buildbarn/bb-storage/pkg/blobstore/grpcservers"
	"github.com/buildbarn/bb-storage/pkg/blobstore/slicing"
	"github.com/buildbarn/bb-storage/pkg/capabilities"
	"github.com/buildbarn/bb-storage/pkg/digest"
	bb_zstd "github.com/buildbarn/bb-storage/pkg/zstd"
	"github.com/google/uuid"
	"github.com/klauspost/compress/zstd"

	"google.golang.org/genproto/googleapis/bytestream"
	"google.golang.org/grpc"
	"google.golang.org/grpc/codes"
	"google.golang.org/grpc/credentials/insecure"
	"google.golang.org/grpc/status"
	"google.golang.org/grpc/test/bufconn"
)

func init() { props["C14"] = c14{} }

type c14 struct{}

const (
	c14Instance   = "i"
	c14BackendMax = 1 << 20
	c14MaxBlob    = 1 << 16
)

var c14Pool = bb_zstd.NewBoundedPool(64, 64,
	[]zstd.EOption{zstd.WithEncoderConcurrency(1)},
	[]zstd.DOption{zstd.WithDecoderConcurrency(1)})

var c14PoolDefault = bb_zstd.NewUnboundedPool(nil, nil)

// c14EagerPool hands out the real decoders behind an adapter that reports
// io.EOF together with the last bytes (as io.Reader permits, and as the
// library's concurrent decoder does depending on timing): the deterministic
// form of what pool mode 2 shows sporadically.
type c14EagerPool struct{ bb_zstd.Pool }

type c14EagerDecoder struct {
	d    bb_zstd.Decoder
	have bool
	b    byte
	err  error
}

func (p c14EagerPool) NewDecoder(ctx context.Context, r io.Reader) (bb_zstd.Decoder, error) {
	d, err := p.Pool.NewDecoder(ctx, r)
	if err != nil {
		return nil, err
	}
	return &c14EagerDecoder{d: d}, nil
}

func (e *c14EagerDecoder) Close() { e.d.Close() }

func (e *c14EagerDecoder) Read(p []byte) (int, error) {
	if len(p) == 0 {
		return 0, nil
	}
	n := 0
	if e.have {
		p[0] = e.b
		e.have = false
		n = 1
	}
	for n < len(p) && e.err == nil {
		m, err := e.d.Read(p[n:])
		n += m
		e.err = err
	}
	if e.err == nil {
		// look one byte ahead so that the end is known when the last bytes are returned
		var one [1]byte
		for e.err == nil && !e.have {
			m, err := e.d.Read(one[:])
			if m == 1 {
				e.have, e.b = true, one[0]
			}
			e.err = err
		}
		if e.have {
			return n, nil
		}
	}
	if e.have {
		// an error arrived together with the look-ahead byte: deliver the byte first
		return n, nil
	}
	return n, e.err
}

// ---------------------------------------------------------------- digests

type c14Blobs struct {
	data   [][]byte
	hashes []string
	first  map[string]int // hash -> first blob index
}

func c14ParseBlobs(s Sx) (*c14Blobs, bool) {
	if s.IsAtom || s.Len() > 64 {
		return nil, false
	}
	b := &c14Blobs{first: map[string]int{}}
	for i, x := range s.List {
		if x.IsAtom || x.Len() > c14MaxBlob {
			return nil, false
		}
		for _, y := range x.List {
			if !y.IsAtom || y.Big != "" || y.Z < 0 || y.Z > 255 {
				return nil, false
			}
		}
		d := x.Bytes()
		h := md5.Sum(d)
		hs := hex.EncodeToString(h[:])
		b.data = append(b.data, d)
		b.hashes = append(b.hashes, hs)
		if _, ok := b.first[hs]; !ok {
			b.first[hs] = i
		}
	}
	return b, true
}

func c14ByteList(s Sx) ([]byte, bool) {
	if s.IsAtom || s.Len() > c14MaxBlob {
		return nil, false
	}
	for _, y := range s.List {
		if !y.IsAtom || y.Big != "" || y.Z < 0 || y.Z > 255 {
			return nil, false
		}
	}
	return s.Bytes(), true
}

func c14Small(s Sx) (int64, bool) {
	if !s.IsAtom || s.Big != "" {
		return 0, false
	}
	return s.Z, true
}

// (bi size) with bi a valid blob index.
func (b *c14Blobs) ref(bi, size Sx) (int, int64, bool) {
	i, ok1 := c14Small(bi)
	sz, ok2 := c14Small(size)
	if !ok1 || !ok2 || i < 0 || int(i) >= len(b.data) {
		return 0, 0, false
	}
	return int(i), sz, true
}

func (b *c14Blobs) digest(bi int, size int64) (digest.Digest, bool) {
	if size < 0 {
		return digest.BadDigest, false
	}
	return digest.MustNewDigest(c14Instance, remoteexecution.DigestFunction_MD5, b.hashes[bi], size), true
}

func (b *c14Blobs) proto(bi int, size int64) *remoteexecution.Digest {
	return &remoteexecution.Digest{Hash: b.hashes[bi], SizeBytes: size}
}

// canonical identity of a digest: (first blob index with that hash, size)
func (b *c14Blobs) ident(hash string, size int64) Sx {
	i, ok := b.first[hash]
	if !ok {
		i = -1
	}
	return L(AI(i), A(size))
}

// ---------------------------------------------------------------- backend

type c14Stored struct {
	hash string
	size int64
	data []byte
}

type c14Backend struct {
	mu      sync.Mutex
	objects map[string]c14Stored // key: hash-size
	puts    []c14Stored          // successful stores in order
	putMode map[string]int       // key -> code (0: consume and store)
	getMode map[string]int       // key -> code (>=2: Get fails with it)
	absent  map[string]bool      // FindMissing reports these missing although stored
	fmErr   int
	caps    *remoteexecution.ServerCapabilities
}

func c14Key(hash string, size int64) string { return fmt.Sprintf("%s-%d", hash, size) }
func c14KeyOf(d digest.Digest) string       { return c14Key(d.GetHashString(), d.GetSizeBytes()) }

func newC14Backend() *c14Backend {
	return &c14Backend{objects: map[string]c14Stored{}, putMode: map[string]int{}, getMode: map[string]int{}, absent: map[string]bool{}}
}

func (b *c14Backend) GetCapabilities(ctx context.Context, instanceName digest.InstanceName) (*remoteexecution.ServerCapabilities, error) {
	if b.caps == nil {
		return nil, status.Error(codes.Unimplemented, "n/a")
	}
	return b.caps, nil
}

func (b *c14Backend) Get(ctx context.Context, d digest.Digest) buffer.Buffer {
	b.mu.Lock()
	defer b.mu.Unlock()
	k := c14KeyOf(d)
	if c := b.getMode[k]; c >= 2 {
		return buffer.NewBufferFromError(status.Error(codes.Code(c), "backend get"))
	}
	o, ok := b.objects[k]
	if !ok {
		return buffer.NewBufferFromError(status.Error(codes.NotFound, "backend: no such object"))
	}
	return buffer.NewCASBufferFromByteSlice(d, o.data, buffer.BackendProvided(func(bool) {}))
}

func (b *c14Backend) GetFromComposite(ctx context.Context, p, c digest.Digest, s slicing.BlobSlicer) buffer.Buffer {
	return buffer.NewBufferFromError(status.Error(codes.Unimplemented, "n/a"))
}

func (b *c14Backend) Put(ctx context.Context, d digest.Digest, buf buffer.Buffer) error {
	k := c14KeyOf(d)
	b.mu.Lock()
	c := b.putMode[k]
	b.mu.Unlock()
	if c != 0 {
		buf.Discard()
		return status.Error(codes.Code(c), "backend put")
	}
	data, err := buf.ToByteSlice(c14BackendMax)
	if err != nil {
		return err
	}
	o := c14Stored{hash: d.GetHashString(), size: d.GetSizeBytes(), data: append([]byte(nil), data...)}
	b.mu.Lock()
	b.objects[k] = o
	b.puts = append(b.puts, o)
	b.mu.Unlock()
	return nil
}

func (b *c14Backend) FindMissing(ctx context.Context, ds digest.Set) (digest.Set, error) {
	b.mu.Lock()
	defer b.mu.Unlock()
	if b.fmErr != 0 {
		return digest.EmptySet, status.Error(codes.Code(b.fmErr), "backend find missing")
	}
	sb := digest.NewSetBuilder(0)
	for _, d := range ds.Items() {
		k := c14KeyOf(d)
		if _, ok := b.objects[k]; !ok || b.absent[k] {
			sb.Add(d)
		}
	}
	return sb.Build(), nil
}

func (b *c14Backend) plant(hash string, size int64, data []byte) {
	b.objects[c14Key(hash, size)] = c14Stored{hash: hash, size: size, data: data}
}

func c14StoredSx(bl *c14Blobs, os []c14Stored) Sx {
	l := make([]Sx, 0, len(os))
	for _, o := range os {
		id := bl.ident(o.hash, o.size)
		l = append(l, L(id.Nth(0), id.Nth(1), LBytes(o.data)))
	}
	return L(l...)
}

func c14Corrupt(d []byte) []byte {
	if len(d) == 0 {
		return []byte{7}
	}
	c := append([]byte(nil), d...)
	c[0] ^= 0x55
	return c
}

// ---------------------------------------------------------------- fake streams

type c14WriteStream struct {
	grpc.ServerStream
	ctx       context.Context
	msgs      []*bytestream.WriteRequest
	term      int
	closed    bool
	committed int64
}

func (s *c14WriteStream) Context() context.Context { return s.ctx }
func (s *c14WriteStream) Recv() (*bytestream.WriteRequest, error) {
	if len(s.msgs) > 0 {
		m := s.msgs[0]
		s.msgs = s.msgs[1:]
		return m, nil
	}
	if s.term == 0 {
		return nil, io.EOF
	}
	return nil, status.Error(codes.Code(s.term), "stream broke")
}
func (s *c14WriteStream) SendAndClose(r *bytestream.WriteResponse) error {
	s.closed = true
	s.committed = r.CommittedSize
	return nil
}

type c14ReadStream struct {
	grpc.ServerStream
	ctx      context.Context
	sent     [][]byte
	failAt   int
	failCode int
	calls    int
}

func (s *c14ReadStream) Context() context.Context { return s.ctx }
func (s *c14ReadStream) Send(r *bytestream.ReadResponse) error {
	n := s.calls
	s.calls++
	if s.failCode != 0 && n >= s.failAt {
		return status.Error(codes.Code(s.failCode), "client went away")
	}
	s.sent = append(s.sent, append([]byte(nil), r.Data...))
	return nil
}

// ---------------------------------------------------------------- zstd helpers (real library)

// c14CountingPool counts how often the client asked the real pool for a codec.
type c14CountingPool struct {
	bb_zstd.Pool
	mu   sync.Mutex
	uses int
}

func (p *c14CountingPool) NewEncoder(ctx context.Context, w io.Writer) (bb_zstd.Encoder, error) {
	p.mu.Lock()
	p.uses++
	p.mu.Unlock()
	return p.Pool.NewEncoder(ctx, w)
}

func (p *c14CountingPool) NewDecoder(ctx context.Context, r io.Reader) (bb_zstd.Decoder, error) {
	p.mu.Lock()
	p.uses++
	p.mu.Unlock()
	return p.Pool.NewDecoder(ctx, r)
}

func c14Compress(d []byte) []byte {
	var out bytes.Buffer
	e, err := c14Pool.NewEncoder(context.Background(), &out)
	if err != nil {
		panic(err)
	}
	if _, err := e.Write(d); err != nil {
		panic(err)
	}
	if err := e.Close(); err != nil {
		panic(err)
	}
	return out.Bytes()
}

// decodes as much as possible; kind 1: the stream ended cleanly, 2: it ended
// inside a frame or frame header (io.ErrUnexpectedEOF), 0: damaged
func c14Decompress(c []byte) (data []byte, kind int) {
	dec, err := c14Pool.NewDecoder(context.Background(), bytes.NewReader(c))
	if err != nil {
		return nil, 0
	}
	defer dec.Close()
	var out bytes.Buffer
	buf := make([]byte, 4096)
	for {
		n, err := dec.Read(buf)
		out.Write(buf[:n])
		if out.Len() > 4*c14BackendMax {
			return out.Bytes(), 0
		}
		if err == io.EOF {
			return out.Bytes(), 1
		}
		if err == io.ErrUnexpectedEOF {
			return out.Bytes(), 2
		}
		if err != nil {
			return out.Bytes(), 0
		}
	}
}

// ---------------------------------------------------------------- Exec

func (c14) Exec(in Sx) (Sx, bool) {
	if in.IsAtom || in.Len() < 1 {
		return Sx{}, false
	}
	kind, ok := c14Small(in.Nth(0))
	if !ok {
		return Sx{}, false
	}
	if kind == 6 {
		return c14ExecAC(in)
	}
	if in.Len() < 2 {
		return Sx{}, false
	}
	bl, ok := c14ParseBlobs(in.Nth(1))
	if !ok {
		return Sx{}, false
	}
	switch kind {
	case 0:
		return c14ExecWrite(in, bl)
	case 1:
		return c14ExecRead(in, bl)
	case 2:
		return c14ExecBatchUpdate(in, bl)
	case 3:
		return c14ExecBatchRead(in, bl)
	case 4:
		return c14ExecFindMissing(in, bl)
	case 5:
		return c14ExecClientServer(in, bl)
	}
	return Sx{}, false
}

func c14Code(err error) int { return int(status.Code(err)) }

func c14ValidCode(c int64) bool { return c >= 1 && c <= 16 }

// resource name pieces: rk 0 identity, 1 zstd, 2 another known compressor, 3 malformed
func c14ResourceTail(rk int64, hash string, size int64) (string, bool) {
	switch rk {
	case 0:
		return fmt.Sprintf("blobs/%s/%d", hash, size), true
	case 1:
		return fmt.Sprintf("compressed-blobs/zstd/%s/%d", hash, size), true
	case 2:
		return fmt.Sprintf("compressed-blobs/deflate/%s/%d", hash, size), true
	case 3:
		return "blobs", true
	}
	return "", false
}

func c14ExecWrite(in Sx, bl *c14Blobs) (Sx, bool) {
	if in.Len() != 6 {
		return Sx{}, false
	}
	rn := in.Nth(2)
	if rn.IsAtom || rn.Len() != 3 {
		return Sx{}, false
	}
	rk, ok := c14Small(rn.Nth(0))
	bi, size, ok2 := bl.ref(rn.Nth(1), rn.Nth(2))
	if !ok || !ok2 {
		return Sx{}, false
	}
	tail, ok := c14ResourceTail(rk, bl.hashes[bi], size)
	if !ok {
		return Sx{}, false
	}
	name := c14Instance + "/uploads/" + uuid.Must(uuid.NewRandom()).String() + "/" + tail
	if rk == 3 {
		name = c14Instance + "/uploads/" + tail
	}
	ml := in.Nth(3)
	if ml.IsAtom || ml.Len() > 64 {
		return Sx{}, false
	}
	var msgs []*bytestream.WriteRequest
	var datas [][]byte
	for i, m := range ml.List {
		if m.IsAtom || m.Len() != 3 {
			return Sx{}, false
		}
		off, ok1 := c14Small(m.Nth(0))
		data, ok2 := c14ByteList(m.Nth(1))
		fin, ok3 := c14Small(m.Nth(2))
		if !ok1 || !ok2 || !ok3 || (fin != 0 && fin != 1) {
			return Sx{}, false
		}
		r := &bytestream.WriteRequest{WriteOffset: off, Data: data, FinishWrite: fin == 1}
		if i == 0 {
			r.ResourceName = name
		}
		msgs = append(msgs, r)
		datas = append(datas, data)
	}
	term, ok1 := c14Small(in.Nth(4))
	pm, ok2 := c14Small(in.Nth(5))
	if !ok1 || !ok2 || (term != 0 && !c14ValidCode(term)) || (pm != 0 && !c14ValidCode(pm)) {
		return Sx{}, false
	}

	// oracle: real zstd decompression of every message prefix
	oracle := []Sx{}
	if rk == 1 {
		var acc []byte
		for _, d := range datas {
			acc = append(acc, d...)
			if x, kind := c14Decompress(acc); kind != 0 {
				oracle = append(oracle, L(AI(kind), LBytes(x)))
			} else {
				oracle = append(oracle, L())
			}
		}
	}

	be := newC14Backend()
	if size >= 0 {
		be.putMode[c14Key(bl.hashes[bi], size)] = int(pm)
	}
	srv := grpcservers.NewByteStreamServer(be, 16, c14Pool)
	st := &c14WriteStream{ctx: context.Background(), msgs: msgs, term: int(term)}
	err := srv.Write(st)
	code := c14Code(err)
	if err == nil && !st.closed {
		code = -3 // returned success without a response
	}
	return L(L(oracle...), L(AI(code), A(st.committed), c14StoredSx(bl, be.puts))), true
}

func c14ExecRead(in Sx, bl *c14Blobs) (Sx, bool) {
	if in.Len() != 8 {
		return Sx{}, false
	}
	rn := in.Nth(2)
	if rn.IsAtom || rn.Len() != 3 {
		return Sx{}, false
	}
	rk, ok := c14Small(rn.Nth(0))
	bi, size, ok2 := bl.ref(rn.Nth(1), rn.Nth(2))
	if !ok || !ok2 {
		return Sx{}, false
	}
	tail, ok := c14ResourceTail(rk, bl.hashes[bi], size)
	if !ok {
		return Sx{}, false
	}
	bm, ok1 := c14Small(in.Nth(3))
	off, ok2 := c14Small(in.Nth(4))
	limit, ok3 := c14Small(in.Nth(5))
	chunk, ok4 := c14Small(in.Nth(6))
	if !ok1 || !ok2 || !ok3 || !ok4 || chunk < 1 || chunk > 1<<20 || bm < 0 || (bm >= 2 && !c14ValidCode(bm)) {
		return Sx{}, false
	}
	st := &c14ReadStream{ctx: context.Background()}
	if sf := in.Nth(7); sf.IsAtom {
		return Sx{}, false
	} else if sf.Len() == 2 {
		j, ok1 := c14Small(sf.Nth(0))
		c, ok2 := c14Small(sf.Nth(1))
		if !ok1 || !ok2 || j < 0 || j > 1<<20 || !c14ValidCode(c) {
			return Sx{}, false
		}
		st.failAt, st.failCode = int(j), int(c)
	} else if sf.Len() != 0 {
		return Sx{}, false
	}
	be := newC14Backend()
	if size >= 0 {
		k := c14Key(bl.hashes[bi], size)
		switch {
		case bm == 0:
			be.plant(bl.hashes[bi], size, bl.data[bi])
		case bm == 1:
			be.plant(bl.hashes[bi], size, c14Corrupt(bl.data[bi]))
		case bm == 5:
			// absent
		default:
			be.getMode[k] = int(bm)
		}
	}
	srv := grpcservers.NewByteStreamServer(be, int(chunk), c14Pool)
	err := srv.Read(&bytestream.ReadRequest{ResourceName: c14Instance + "/" + tail, ReadOffset: off, ReadLimit: limit}, st)
	code := c14Code(err)
	var all []byte
	chunks := []Sx{}
	for _, c := range st.sent {
		all = append(all, c...)
		chunks = append(chunks, LBytes(c))
	}
	var res Sx
	if rk == 1 {
		decoded, complete := []byte(nil), true
		if len(all) > 0 {
			var kind int
			decoded, kind = c14Decompress(all)
			complete = kind == 1
		}
		// only the sizes of the compressed messages are reported
		sizes := []Sx{}
		for _, c := range st.sent {
			sizes = append(sizes, AI(len(c)))
		}
		res = L(AI(code), L(sizes...), LBytes(decoded), AB(complete))
	} else {
		res = L(AI(code), L(chunks...), LBytes(all), AB(true))
	}
	return L(L(), res), true
}

func c14ExecBatchUpdate(in Sx, bl *c14Blobs) (Sx, bool) {
	if in.Len() != 3 || in.Nth(2).IsAtom || in.Nth(2).Len() > 64 {
		return Sx{}, false
	}
	be := newC14Backend()
	req := &remoteexecution.BatchUpdateBlobsRequest{InstanceName: c14Instance, DigestFunction: remoteexecution.DigestFunction_MD5}
	for _, e := range in.Nth(2).List {
		if e.IsAtom || e.Len() != 4 {
			return Sx{}, false
		}
		bi, size, ok := bl.ref(e.Nth(0), e.Nth(1))
		data, ok2 := c14ByteList(e.Nth(2))
		pm, ok3 := c14Small(e.Nth(3))
		if !ok || !ok2 || !ok3 || (pm != 0 && !c14ValidCode(pm)) {
			return Sx{}, false
		}
		if pm != 0 && size >= 0 {
			be.putMode[c14Key(bl.hashes[bi], size)] = int(pm)
		}
		req.Requests = append(req.Requests, &remoteexecution.BatchUpdateBlobsRequest_Request{Digest: bl.proto(bi, size), Data: data})
	}
	srv := grpcservers.NewContentAddressableStorageServer(be, 1<<20)
	resp, err := srv.BatchUpdateBlobs(context.Background(), req)
	sts := []Sx{}
	if err == nil {
		for _, r := range resp.Responses {
			sts = append(sts, L(bl.ident(r.Digest.GetHash(), r.Digest.GetSizeBytes()), A(int64(r.Status.GetCode()))))
		}
	}
	return L(L(), L(AI(c14Code(err)), L(sts...), c14StoredSx(bl, be.puts))), true
}

func c14ExecBatchRead(in Sx, bl *c14Blobs) (Sx, bool) {
	if in.Len() != 4 || in.Nth(2).IsAtom || in.Nth(2).Len() > 64 {
		return Sx{}, false
	}
	maxsz, ok := c14Small(in.Nth(3))
	if !ok || maxsz < 0 {
		return Sx{}, false
	}
	be := newC14Backend()
	req := &remoteexecution.BatchReadBlobsRequest{InstanceName: c14Instance, DigestFunction: remoteexecution.DigestFunction_MD5}
	for _, e := range in.Nth(2).List {
		if e.IsAtom || e.Len() != 3 {
			return Sx{}, false
		}
		bi, size, ok := bl.ref(e.Nth(0), e.Nth(1))
		bm, ok2 := c14Small(e.Nth(2))
		if !ok || !ok2 || bm < 0 || (bm >= 2 && !c14ValidCode(bm)) {
			return Sx{}, false
		}
		if size >= 0 {
			// the last entry naming a digest decides what the backend holds
			k := c14Key(bl.hashes[bi], size)
			delete(be.objects, k)
			delete(be.getMode, k)
			switch {
			case bm == 0:
				be.plant(bl.hashes[bi], size, bl.data[bi])
			case bm == 1:
				be.plant(bl.hashes[bi], size, c14Corrupt(bl.data[bi]))
			case bm == 5:
			default:
				be.getMode[k] = int(bm)
			}
		}
		req.Digests = append(req.Digests, bl.proto(bi, size))
	}
	srv := grpcservers.NewContentAddressableStorageServer(be, maxsz)
	resp, err := srv.BatchReadBlobs(context.Background(), req)
	rs := []Sx{}
	if err == nil {
		for _, r := range resp.Responses {
			rs = append(rs, L(bl.ident(r.Digest.GetHash(), r.Digest.GetSizeBytes()), A(int64(r.Status.GetCode())), LBytes(r.Data)))
		}
	}
	return L(L(), L(AI(c14Code(err)), L(rs...))), true
}

func c14SortIdents(l []Sx) {
	sort.Slice(l, func(i, j int) bool {
		if l[i].Nth(0).Z != l[j].Nth(0).Z {
			return l[i].Nth(0).Z < l[j].Nth(0).Z
		}
		return l[i].Nth(1).Z < l[j].Nth(1).Z
	})
}

func c14ExecFindMissing(in Sx, bl *c14Blobs) (Sx, bool) {
	if in.Len() != 4 || in.Nth(2).IsAtom || in.Nth(2).Len() > 64 {
		return Sx{}, false
	}
	fmErr, ok := c14Small(in.Nth(3))
	if !ok || (fmErr != 0 && !c14ValidCode(fmErr)) {
		return Sx{}, false
	}
	be := newC14Backend()
	be.fmErr = int(fmErr)
	req := &remoteexecution.FindMissingBlobsRequest{InstanceName: c14Instance, DigestFunction: remoteexecution.DigestFunction_MD5}
	for _, e := range in.Nth(2).List {
		if e.IsAtom || e.Len() != 3 {
			return Sx{}, false
		}
		bi, size, ok := bl.ref(e.Nth(0), e.Nth(1))
		ab, ok2 := c14Small(e.Nth(2))
		if !ok || !ok2 || (ab != 0 && ab != 1) {
			return Sx{}, false
		}
		if size >= 0 && ab == 0 {
			be.plant(bl.hashes[bi], size, bl.data[bi])
		}
		req.BlobDigests = append(req.BlobDigests, bl.proto(bi, size))
	}
	// an entry flagged absent anywhere makes its digest absent
	for _, e := range in.Nth(2).List {
		bi, size, _ := bl.ref(e.Nth(0), e.Nth(1))
		if e.Nth(2).Z == 1 && size >= 0 {
			delete(be.objects, c14Key(bl.hashes[bi], size))
		}
	}
	srv := grpcservers.NewContentAddressableStorageServer(be, 1<<20)
	resp, err := srv.FindMissingBlobs(context.Background(), req)
	ms := []Sx{}
	if err == nil {
		for _, d := range resp.MissingBlobDigests {
			ms = append(ms, bl.ident(d.GetHash(), d.GetSizeBytes()))
		}
	}
	c14SortIdents(ms)
	return L(L(), L(AI(c14Code(err)), L(ms...))), true
}

// ---------------------------------------------------------------- client <-> server

func c14ExecClientServer(in Sx, bl *c14Blobs) (Sx, bool) {
	if in.Len() != 5 || in.Nth(4).IsAtom || in.Nth(4).Len() > 32 {
		return Sx{}, false
	}
	useZstd, ok1 := c14Small(in.Nth(2))
	chunk, ok2 := c14Small(in.Nth(3))
	if !ok1 || !ok2 || useZstd < 0 || useZstd > 3 || chunk < 1 || chunk > 1<<20 {
		return Sx{}, false
	}
	// validate the operations before starting servers
	for _, op := range in.Nth(4).List {
		if op.IsAtom || op.Len() < 2 {
			return Sx{}, false
		}
		k, ok := c14Small(op.Nth(0))
		if !ok {
			return Sx{}, false
		}
		switch k {
		case 0, 1:
			if op.Len() != 3 {
				return Sx{}, false
			}
			if _, size, ok := bl.ref(op.Nth(1), op.Nth(2)); !ok || size < 0 || size > 1<<20 {
				return Sx{}, false
			}
		case 2:
			if op.Len() != 2 || op.Nth(1).IsAtom || op.Nth(1).Len() > 32 {
				return Sx{}, false
			}
			for _, e := range op.Nth(1).List {
				if e.IsAtom || e.Len() != 2 {
					return Sx{}, false
				}
				if _, size, ok := bl.ref(e.Nth(0), e.Nth(1)); !ok || size < 0 || size > 1<<20 {
					return Sx{}, false
				}
			}
		default:
			return Sx{}, false
		}
	}

	be := newC14Backend()
	compressors := []remoteexecution.Compressor_Value{}
	var serverPool, clientPool bb_zstd.Pool
	var counting *c14CountingPool
	serverPool = c14Pool
	if useZstd >= 1 {
		compressors = append(compressors, remoteexecution.Compressor_ZSTD)
		counting = &c14CountingPool{Pool: c14Pool}
		if useZstd == 2 {
			// the library's default options (concurrent decoder), as
			// NewUnboundedPool(nil, nil) gives them
			counting.Pool = c14PoolDefault
			serverPool = c14PoolDefault
		}
		if useZstd == 3 {
			counting.Pool = c14EagerPool{c14Pool}
		}
		clientPool = counting
	}
	caps := &remoteexecution.ServerCapabilities{CacheCapabilities: &remoteexecution.CacheCapabilities{
		DigestFunctions:      []remoteexecution.DigestFunction_Value{remoteexecution.DigestFunction_MD5},
		SupportedCompressors: compressors,
	}}
	lis := bufconn.Listen(1 << 20)
	s := grpc.NewServer()
	bytestream.RegisterByteStreamServer(s, grpcservers.NewByteStreamServer(be, int(chunk), serverPool))
	remoteexecution.RegisterContentAddressableStorageServer(s, grpcservers.NewContentAddressableStorageServer(be, 1<<20))
	remoteexecution.RegisterCapabilitiesServer(s, capabilities.NewServer(capabilities.NewStaticProvider(caps)))
	go s.Serve(lis)
	defer s.Stop()
	conn, err := grpc.NewClient("passthrough:///bufnet",
		grpc.WithContextDialer(func(ctx context.Context, _ string) (net.Conn, error) { return lis.DialContext(ctx) }),
		grpc.WithTransportCredentials(insecure.NewCredentials()))
	if err != nil {
		panic(err)
	}
	defer conn.Close()
	client := grpcclients.NewCASBlobAccess(conn, uuid.NewRandom, int(chunk), clientPool)

	res := []Sx{}
	for _, op := range in.Nth(4).List {
		ctx, cancel := context.WithTimeout(context.Background(), 20*time.Second)
		switch op.Nth(0).Z {
		case 0:
			bi, size, _ := bl.ref(op.Nth(1), op.Nth(2))
			d, _ := bl.digest(bi, size)
			err := client.Put(ctx, d, buffer.NewCASBufferFromByteSlice(d, bl.data[bi], buffer.UserProvided))
			res = append(res, L(AI(c14Code(err)), L()))
		case 1:
			bi, size, _ := bl.ref(op.Nth(1), op.Nth(2))
			d, _ := bl.digest(bi, size)
			data, err := client.Get(ctx, d).ToByteSlice(c14BackendMax)
			res = append(res, L(AI(c14Code(err)), LBytes(data)))
		case 2:
			sb := digest.NewSetBuilder(0)
			for _, e := range op.Nth(1).List {
				bi, size, _ := bl.ref(e.Nth(0), e.Nth(1))
				d, _ := bl.digest(bi, size)
				sb.Add(d)
			}
			missing, err := client.FindMissing(ctx, sb.Build())
			ms := []Sx{}
			if err == nil {
				for _, d := range missing.Items() {
					ms = append(ms, bl.ident(d.GetHashString(), d.GetSizeBytes()))
				}
			}
			c14SortIdents(ms)
			res = append(res, L(AI(c14Code(err)), L(ms...)))
		}
		cancel()
	}
	be.mu.Lock()
	final := make([]c14Stored, 0, len(be.objects))
	for _, o := range be.objects {
		final = append(final, o)
	}
	be.mu.Unlock()
	fs := c14StoredSx(bl, final)
	sort.Slice(fs.List, func(i, j int) bool {
		if fs.List[i].Nth(0).Z != fs.List[j].Nth(0).Z {
			return fs.List[i].Nth(0).Z < fs.List[j].Nth(0).Z
		}
		return fs.List[i].Nth(1).Z < fs.List[j].Nth(1).Z
	})
	uses := 0
	if counting != nil {
		uses = counting.uses
	}
	return L(L(), L(L(res...), fs, AI(uses))), true
}

var _ blobstore.BlobAccess = (*c14Backend)(nil)

// ---------------------------------------------------------------- ActionCache

type c14ACBackend struct {
	objects map[string][]byte
}

func (b *c14ACBackend) GetCapabilities(ctx context.Context, instanceName digest.InstanceName) (*remoteexecution.ServerCapabilities, error) {
	return nil, status.Error(codes.Unimplemented, "n/a")
}
func (b *c14ACBackend) Get(ctx context.Context, d digest.Digest) buffer.Buffer {
	data, ok := b.objects[c14KeyOf(d)]
	if !ok {
		return buffer.NewBufferFromError(status.Error(codes.NotFound, "backend: no such action result"))
	}
	return buffer.NewProtoBufferFromByteSlice(&remoteexecution.ActionResult{}, data, buffer.BackendProvided(func(bool) {}))
}
func (b *c14ACBackend) GetFromComposite(ctx context.Context, p, c digest.Digest, s slicing.BlobSlicer) buffer.Buffer {
	return buffer.NewBufferFromError(status.Error(codes.Unimplemented, "n/a"))
}
func (b *c14ACBackend) Put(ctx context.Context, d digest.Digest, buf buffer.Buffer) error {
	data, err := buf.ToByteSlice(c14BackendMax)
	if err != nil {
		return err
	}
	b.objects[c14KeyOf(d)] = append([]byte(nil), data...)
	return nil
}
func (b *c14ACBackend) FindMissing(ctx context.Context, ds digest.Set) (digest.Set, error) {
	return digest.EmptySet, status.Error(codes.Unimplemented, "n/a")
}

// (6 ((0 key exit) | (1 key) ...)): UpdateActionResult / GetActionResult in-process
func c14ExecAC(in Sx) (Sx, bool) {
	if in.Len() != 2 || in.Nth(1).IsAtom || in.Nth(1).Len() > 32 {
		return Sx{}, false
	}
	be := &c14ACBackend{objects: map[string][]byte{}}
	srv := grpcservers.NewActionCacheServer(be, 1<<20)
	res := []Sx{}
	for _, op := range in.Nth(1).List {
		if op.IsAtom || op.Len() < 2 {
			return Sx{}, false
		}
		k, ok1 := c14Small(op.Nth(0))
		key, ok2 := c14Small(op.Nth(1))
		if !ok1 || !ok2 || key < 0 || key > 255 {
			return Sx{}, false
		}
		h := md5.Sum([]byte{byte(key)})
		ad := &remoteexecution.Digest{Hash: hex.EncodeToString(h[:]), SizeBytes: 1}
		switch {
		case k == 0 && op.Len() == 3:
			v, ok := c14Small(op.Nth(2))
			if !ok || v < -1<<31 || v >= 1<<31 {
				return Sx{}, false
			}
			_, err := srv.UpdateActionResult(context.Background(), &remoteexecution.UpdateActionResultRequest{
				InstanceName: c14Instance, DigestFunction: remoteexecution.DigestFunction_MD5, ActionDigest: ad,
				ActionResult: &remoteexecution.ActionResult{ExitCode: int32(v)},
			})
			res = append(res, L(AI(c14Code(err)), A(0)))
		case k == 1 && op.Len() == 2:
			ar, err := srv.GetActionResult(context.Background(), &remoteexecution.GetActionResultRequest{
				InstanceName: c14Instance, DigestFunction: remoteexecution.DigestFunction_MD5, ActionDigest: ad,
			})
			v := int64(0)
			if err == nil {
				v = int64(ar.ExitCode)
			}
			res = append(res, L(AI(c14Code(err)), A(v)))
		default:
			return Sx{}, false
		}
	}
	return L(L(), L(res...)), true
}

// ---------------------------------------------------------------- generation

var c14Sizes = []int{0, 1, 2, 3, 5, 8, 15, 16, 17, 31, 32, 33, 48, 63, 64, 65, 100, 129, 200}
var c14Chunks = []int{1, 2, 3, 7, 16, 64}
var c14Faults = []int{1, 4, 8, 13, 14}

func c14Blob(r *Rand, n int) []byte {
	b := make([]byte, n)
	switch r.Intn(3) {
	case 0: // incompressible
		for i := range b {
			b[i] = byte(r.U64())
		}
	case 1: // highly compressible
		c := byte(r.U64())
		for i := range b {
			b[i] = c
		}
	default: // text-like
		for i := range b {
			b[i] = "abcdefgh"[r.Intn(3+r.Intn(5))]
		}
	}
	return b
}

func c14SxBlobs(bs ...[]byte) Sx {
	l := make([]Sx, len(bs))
	for i, b := range bs {
		l[i] = LBytes(b)
	}
	return L(l...)
}

// splits p at random points (empty pieces allowed)
func c14Split(r *Rand, p []byte, n int) [][]byte {
	cuts := make([]int, 0, n+1)
	for i := 0; i < n-1; i++ {
		cuts = append(cuts, r.Intn(len(p)+1))
	}
	sort.Ints(cuts)
	cuts = append(cuts, len(p))
	out := [][]byte{}
	prev := 0
	for _, c := range cuts {
		out = append(out, p[prev:c])
		prev = c
	}
	return out
}

type c14Msg struct {
	off  int64
	data []byte
	fin  bool
}

func c14GenWrite(r *Rand) Sx {
	content := c14Blob(r, r.Pick(c14Sizes))
	other := c14Blob(r, r.Pick(c14Sizes))
	if bytes.Equal(content, other) {
		other = append(other, 1)
	}
	zstdPath := r.Bool()
	rk := 0
	if zstdPath {
		rk = 1
	}
	bi, size := 0, int64(len(content))
	// what the client actually sends
	sent := content
	switch r.Intn(14) {
	case 0:
		sent = other // wrong content
	case 1:
		size++ // digest says one more byte
	case 2:
		if size > 0 {
			size--
		}
	case 3:
		bi = 1 // right size maybe, wrong hash
	case 4:
		sent = append(append([]byte(nil), content...), byte(r.U64())) // one byte too many
	case 5:
		if len(content) > 0 {
			sent = content[:len(content)-1]
		}
	}
	payload := sent
	if zstdPath {
		payload = c14Compress(sent)
		switch r.Intn(16) {
		case 0: // not a zstd stream at all
			payload = c14Blob(r, 1+r.Intn(20))
		case 1: // truncated frame
			payload = payload[:r.Intn(len(payload))]
		case 2: // two frames
			k := r.Intn(len(sent) + 1)
			payload = append(c14Compress(sent[:k]), c14Compress(sent[k:])...)
		case 3: // trailing garbage
			payload = append(append([]byte(nil), payload...), byte(r.U64()), byte(r.U64()))
		}
	}
	pieces := c14Split(r, payload, 1+r.Intn(5))
	msgs := []c14Msg{}
	off := int64(0)
	for i, p := range pieces {
		msgs = append(msgs, c14Msg{off: off, data: p, fin: i == len(pieces)-1})
		off += int64(len(p))
	}
	if r.Chance(30) { // finish in a separate empty message, as the repository's client does
		msgs[len(msgs)-1].fin = false
		msgs = append(msgs, c14Msg{off: off, fin: true})
	}
	term, pm := 0, 0
	if r.Chance(50) {
		for k := 1 + r.Intn(2); k > 0; k-- {
			i := r.Intn(len(msgs))
			switch r.Intn(14) {
			case 0: // gap
				msgs[i].off += int64(1 + r.Intn(3))
			case 1: // overlap
				msgs[i].off -= int64(1 + r.Intn(3))
			case 2: // first offset not zero, later ones relative to the data
				d := int64(r.Pick([]int{1, 7, -1, 1 << 40}))
				if r.Bool() {
					msgs[0].off += d
				} else {
					for j := range msgs {
						msgs[j].off += d
					}
				}
			case 3: // finish_write missing
				msgs[len(msgs)-1].fin = false
			case 4: // finish_write early
				msgs[i].fin = true
			case 5: // finish_write repeated
				msgs = append(msgs, c14Msg{off: off, fin: true})
			case 6: // data after finish
				msgs = append(msgs, c14Msg{off: off, data: c14Blob(r, 1+r.Intn(4)), fin: r.Bool()})
			case 7: // early close
				msgs = msgs[:len(msgs)-1]
				if len(msgs) == 0 {
					msgs = []c14Msg{}
				}
			case 8: // stream breaks
				term = r.Pick(c14Faults)
				if r.Bool() && len(msgs) > 0 {
					msgs = msgs[:r.Intn(len(msgs)+1)]
				}
			case 9: // backend fails
				pm = r.Pick(c14Faults)
			case 10: // empty chunk inserted
				m := c14Msg{off: msgs[i].off}
				msgs = append(msgs[:i], append([]c14Msg{m}, msgs[i:]...)...)
			case 11: // message repeated
				msgs = append(msgs[:i+1], msgs[i:]...)
			case 12: // messages swapped
				j := r.Intn(len(msgs))
				msgs[i], msgs[j] = msgs[j], msgs[i]
			case 13: // resource name
				rk = r.Pick([]int{2, 3})
			}
			if len(msgs) == 0 {
				break
			}
		}
	}
	ml := make([]Sx, len(msgs))
	for i, m := range msgs {
		ml[i] = L(A(m.off), LBytes(m.data), AB(m.fin))
	}
	return L(A(0), c14SxBlobs(content, other), L(AI(rk), AI(bi), A(size)), L(ml...), AI(term), AI(pm))
}

func c14GenRead(r *Rand) Sx {
	n := r.Pick(c14Sizes)
	content := c14Blob(r, n)
	rk := r.Intn(2)
	if r.Chance(4) {
		rk = 2 + r.Intn(2)
	}
	bm := 0
	if r.Chance(15) {
		bm = r.Pick([]int{1, 5, 5, 14, 13})
	}
	size := int64(n)
	if r.Chance(4) {
		size += int64(r.Pick([]int{-1, 1}))
	}
	var off int64
	switch r.Intn(10) {
	case 0, 1:
		off = 0
	case 2:
		off = int64(n)
	case 3:
		off = int64(n) + int64(1+r.Intn(5))
	case 4:
		off = -int64(1 + r.Intn(4))
	case 5:
		off = int64(r.Pick([]int{1 << 31, 1 << 40, -(1 << 40)}))
	default:
		off = int64(r.Intn(n + 1))
	}
	limit := int64(0)
	if r.Chance(3) {
		limit = int64(1 + r.Intn(10))
	}
	sf := L()
	if r.Chance(12) {
		sf = L(AI(r.Intn(4)), AI(r.Pick(c14Faults)))
	}
	return L(A(1), c14SxBlobs(content), L(AI(rk), A(0), A(size)), AI(bm), A(off), A(limit), AI(r.Pick(c14Chunks)), sf)
}

func c14GenBlobPool(r *Rand) [][]byte {
	k := 1 + r.Intn(4)
	bs := [][]byte{}
	for i := 0; i < k; i++ {
		bs = append(bs, c14Blob(r, r.Pick(c14Sizes)))
	}
	return bs
}

func c14GenBatchUpdate(r *Rand) Sx {
	bs := c14GenBlobPool(r)
	es := []Sx{}
	for k := r.Intn(6); k > 0; k-- {
		bi := r.Intn(len(bs))
		data := bs[bi]
		size := int64(len(data))
		pm := 0
		switch r.Intn(9) {
		case 0:
			data = bs[r.Intn(len(bs))]
		case 1:
			size += int64(r.Pick([]int{-1, 1}))
		case 2:
			data = c14Corrupt(data)
		case 3:
			pm = r.Pick(c14Faults)
		case 4:
			if len(data) > 0 {
				data = data[:len(data)-1]
			}
		}
		es = append(es, L(AI(bi), A(size), LBytes(data), AI(pm)))
	}
	return L(A(2), c14SxBlobs(bs...), L(es...))
}

func c14GenBatchRead(r *Rand) Sx {
	bs := c14GenBlobPool(r)
	es := []Sx{}
	total := int64(0)
	for k := r.Intn(6); k > 0; k-- {
		bi := r.Intn(len(bs))
		size := int64(len(bs[bi]))
		bm := 0
		switch r.Intn(8) {
		case 0:
			bm = 1
		case 1:
			bm = 5
		case 2:
			bm = r.Pick([]int{14, 13})
		case 3:
			size += int64(r.Pick([]int{-1, 1}))
		}
		total += size
		es = append(es, L(AI(bi), A(size), AI(bm)))
	}
	maxsz := int64(1 << 20)
	switch r.Intn(5) {
	case 0:
		maxsz = total
	case 1:
		if total > 0 {
			maxsz = total - 1
		}
	case 2:
		maxsz = int64(r.Intn(int(total) + 2))
	}
	if maxsz < 0 {
		maxsz = 0
	}
	return L(A(3), c14SxBlobs(bs...), L(es...), A(maxsz))
}

func c14GenFindMissing(r *Rand) Sx {
	bs := c14GenBlobPool(r)
	es := []Sx{}
	for k := r.Intn(7); k > 0; k-- {
		bi := r.Intn(len(bs))
		size := int64(len(bs[bi]))
		if r.Chance(15) {
			size += int64(1 + r.Intn(2))
		}
		es = append(es, L(AI(bi), A(size), AB(r.Chance(45))))
	}
	fe := 0
	if r.Chance(8) {
		fe = r.Pick(c14Faults)
	}
	return L(A(4), c14SxBlobs(bs...), L(es...), AI(fe))
}

func c14GenClientServer(r *Rand) Sx {
	chunk := r.Pick([]int{1, 3, 16, 64, 64})
	sizes := []int{0, 1, chunk - 1, chunk, chunk + 1, 2 * chunk, 2*chunk + 1, 3*chunk + 5, 100, 257}
	k := 1 + r.Intn(3)
	bs := [][]byte{}
	for i := 0; i < k; i++ {
		n := r.Pick(sizes)
		if n < 0 {
			n = 0
		}
		if n > 300 {
			n = 300
		}
		bs = append(bs, c14Blob(r, n))
	}
	ops := []Sx{}
	for j := 1 + r.Intn(4); j > 0; j-- {
		bi := r.Intn(len(bs))
		size := int64(len(bs[bi]))
		if r.Chance(8) {
			size++
		}
		switch r.Intn(7) {
		case 0, 1, 2:
			ops = append(ops, L(A(0), AI(bi), A(size)))
			if r.Chance(60) {
				ops = append(ops, L(A(1), AI(bi), A(size)))
			}
		case 3, 4, 5:
			ops = append(ops, L(A(1), AI(bi), A(size)))
		default:
			es := []Sx{}
			for q := r.Intn(4); q > 0; q-- {
				b2 := r.Intn(len(bs))
				es = append(es, L(AI(b2), AI(len(bs[b2]))))
			}
			ops = append(ops, L(A(2), L(es...)))
		}
	}
	return L(A(5), c14SxBlobs(bs...), AI(r.Pick([]int{0, 0, 0, 1, 1, 2, 3, 3})), AI(chunk), L(ops...))
}

func c14GenAC(r *Rand) Sx {
	ops := []Sx{}
	for j := 1 + r.Intn(6); j > 0; j-- {
		key := r.Intn(3)
		if r.Bool() {
			ops = append(ops, L(A(0), AI(key), AI(r.Intn(7)-2)))
		} else {
			ops = append(ops, L(A(1), AI(key)))
		}
	}
	return L(A(6), L(ops...))
}

func (c14) Gen(r *Rand, i int, tier string) Sx {
	switch p := r.Intn(100); {
	case p < 40:
		return c14GenWrite(r)
	case p < 62:
		return c14GenRead(r)
	case p < 70:
		return c14GenBatchUpdate(r)
	case p < 78:
		return c14GenBatchRead(r)
	case p < 83:
		return c14GenFindMissing(r)
	case p < 97:
		return c14GenClientServer(r)
	default:
		return c14GenAC(r)
	}
}

func c14Outcome(code int64) string {
	if code == 0 {
		return "ok"
	}
	return "code" + fmt.Sprint(code)
}

func (c14) Class(in, obs Sx) (string, bool) {
	res := obs.Nth(1)
	comp := func(rk int64) string {
		switch rk {
		case 0:
			return "identity"
		case 1:
			return "zstd"
		}
		return "other"
	}
	switch in.Nth(0).Z {
	case 0:
		n := in.Nth(3).Len()
		shape := "n" + fmt.Sprint(n)
		if n > 3 {
			shape = "n4+"
		}
		return "write-" + comp(in.Nth(2).Nth(0).Z) + "/" + shape + "/" + c14Outcome(res.Nth(0).Z), n >= 2
	case 1:
		off := in.Nth(4).Z
		n := int64(in.Nth(1).Nth(0).Len())
		pos := "inside"
		switch {
		case off < 0:
			pos = "negative"
		case off > n:
			pos = "beyond"
		case off == 0:
			pos = "start"
		case off == n:
			pos = "end"
		}
		return "read-" + comp(in.Nth(2).Nth(0).Z) + "/" + pos + "/" + c14Outcome(res.Nth(0).Z), off > 0 && off <= n
	case 2:
		return "batch-update/n" + fmt.Sprint(in.Nth(2).Len()) + "/" + c14Outcome(res.Nth(0).Z), in.Nth(2).Len() >= 2
	case 3:
		return "batch-read/n" + fmt.Sprint(in.Nth(2).Len()) + "/" + c14Outcome(res.Nth(0).Z), in.Nth(2).Len() >= 2
	case 4:
		return "find-missing/n" + fmt.Sprint(in.Nth(2).Len()) + "/" + c14Outcome(res.Nth(0).Z), in.Nth(2).Len() >= 2
	case 5:
		site := "cs-identity"
		if in.Nth(2).Z >= 1 {
			site = "cs-zstd"
		}
		worst := int64(0)
		for _, r := range res.Nth(0).List {
			if r.Nth(0).Z != 0 {
				worst = r.Nth(0).Z
			}
		}
		return site + "/ops" + fmt.Sprint(in.Nth(4).Len()) + "/" + c14Outcome(worst), in.Nth(4).Len() >= 2
	case 6:
		return "action-cache/ops" + fmt.Sprint(in.Nth(1).Len()), in.Nth(1).Len() >= 2
	}
	return "malformed", false
}
