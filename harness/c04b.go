package main

// C04B — sub-check of C04: stream-backed CAS buffers close their source exactly
// once on every path.  Cases, execution and observations are C09's (c09.go);
// generation is biased to reader- and chunk-reader-backed buffers and to the
// paths that return early: size limits smaller than the object, rejected
// offsets, invalid content, I/O errors.  The judge (Run/R04B.v) compares with
// C09's model and its monitor looks only at the source's Close() count.

func init() { props["C04B"] = c04b{} }

type c04b struct{}

func (c04b) Exec(in Sx) (Sx, bool) { return c09{}.Exec(in) }

func (c04b) Gen(r *Rand, i int, tier string) Sx {
	for {
		in := c09{}.Gen(r, i, tier)
		if in.IsAtom || in.Len() != 6 {
			continue
		}
		if in.Nth(0).Z == 0 && r.Chance(85) { // byte-slice buffers have no source to close
			continue
		}
		// prefer methods with parameters that can be rejected
		m := in.Nth(4)
		size := int(in.Nth(2).Nth(2).Z)
		if r.Chance(35) {
			switch r.Intn(4) {
			case 0:
				m = L(A(0), AI(r.Pick([]int{0, size - 1, size / 2}))) // ToByteSlice, limit below the size
			case 1:
				m = L(A(5), AI(r.Pick([]int{0, size - 1, size / 2}))) // CloneCopy, limit below the size
			case 2:
				m = L(A(3), AI(r.Pick([]int{-1, size + 1, size + 7})), AI(r.Pick([]int{1, 3, 64})), A(0)) // ToChunkReader, bad offset
			case 3:
				m = L(A(2), AI(r.Pick([]int{1, 4})), AI(r.Pick([]int{-1, size + 1}))) // ReadAt, bad offset
			}
			if m.Nth(1).Z < 0 && (m.Nth(0).Z == 0 || m.Nth(0).Z == 5) {
				continue
			}
			in = L(in.Nth(0), in.Nth(1), in.Nth(2), in.Nth(3), m, in.Nth(5))
		}
		if _, ok := (c09{}).Exec(in); !ok {
			continue
		}
		return in
	}
}

func (c04b) Class(in, obs Sx) (string, bool) {
	c, nt := c09{}.Class(in, obs)
	return "close/" + c, nt
}
