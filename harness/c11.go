package main

// C11 — mirrored storage.  The REAL mirrored.NewMirroredBlobAccess with the
// real replication.NewLocalBlobReplicator in both directions, over two
// fault-injecting in-memory replicas written here.
//
// input  = (n initA initB ops cfg)   cfg = (flavour how) is ignored by the model
// see coq/Run/R11.v for the formats of ops, faults and observations.

import (
	"bytes"
	"context"
	"crypto/md5"
	"encoding/hex"
	"fmt"
	"io"
	"sort"
	"strconv"
	"strings"
	"sync"

	remoteexecution "github.com/bazelbuild/remote-apis/build/bazel/remote/execution/v2"
	"github.com/buildbarn/bb-storage/pkg/blobstore"
	"github.com/buildbarn/bb-storage/pkg/blobstore/buffer"
	"github.com/buildbarn/bb-storage/pkg/blobstore/local"
	"github.com/buildbarn/bb-storage/pkg/blobstore/mirrored"
	"github.com/buildbarn/bb-storage/pkg/blobstore/replication"
	"github.com/buildbarn/bb-storage/pkg/blobstore/slicing"
	"github.com/buildbarn/bb-storage/pkg/capabilities"
	"github.com/buildbarn/bb-storage/pkg/digest"
	"github.com/buildbarn/bb-storage/pkg/util"

	"google.golang.org/grpc/codes"
	"google.golang.org/grpc/status"
)

func init() { props["C11"] = c11{} }

type c11 struct{}

const c11Universe = 6

// The digest universe: content "objNN", digest = its MD5; ids are assigned in
// the order of Digest.String(), which is the order of digest.Set.
var (
	c11Digests  []digest.Digest
	c11Canon    [][]byte
	c11DigestID = map[string]int{}
)

func init() {
	type dc struct {
		d digest.Digest
		c []byte
	}
	var l []dc
	for i := 0; i < c11Universe; i++ {
		c := []byte(fmt.Sprintf("obj%02d", i))
		h := md5.Sum(c)
		l = append(l, dc{digest.MustNewDigest("m", remoteexecution.DigestFunction_MD5, hex.EncodeToString(h[:]), int64(len(c))), c})
	}
	sort.Slice(l, func(i, j int) bool { return l[i].d.String() < l[j].d.String() })
	for i, x := range l {
		c11Digests = append(c11Digests, x.d)
		c11Canon = append(c11Canon, x.c)
		c11DigestID[x.d.String()] = i
	}
}

// content id 0 is the content that hashes to the digest; other ids are
// "versions" of the same size (only handed out in validated buffers).
func c11Content(d, cid int) []byte {
	if cid == 0 {
		return c11Canon[d]
	}
	return []byte(fmt.Sprintf("v%02d%02d", d, cid%100))
}

func c11ContentID(d int, b []byte) int {
	if bytes.Equal(b, c11Canon[d]) {
		return 0
	}
	if len(b) == 5 && b[0] == 'v' {
		dd, e1 := strconv.Atoi(string(b[1:3]))
		c, e2 := strconv.Atoi(string(b[3:5]))
		if e1 == nil && e2 == nil && dd == d && c > 0 {
			return c
		}
	}
	return 77 // foreign bytes
}

type c11Call struct{ r, k, d int }

type c11Fault struct{ r, k, d, c int }

type c11Env struct {
	mu      sync.Mutex
	faults  []c11Fault
	cancel  context.CancelFunc
	log     []c11Call
	flavour int
}

func (e *c11Env) call(r, k, d int) int {
	e.mu.Lock()
	defer e.mu.Unlock()
	e.log = append(e.log, c11Call{r, k, d})
	for _, f := range e.faults {
		if f.r == r && f.k == k && f.d == d {
			if f.c < 0 {
				return 0
			}
			return f.c
		}
	}
	return 0
}

type c11Replica struct {
	name int
	env  *c11Env
	mu   sync.Mutex
	data map[int]int
	// configuration (b): the contents live in a real local CAS store; this
	// type then only injects faults and logs calls.
	real blobstore.BlobAccess
}

// c11NewLocalStore wires a real in-memory local store the way
// configuration.NewBlobAccessFromConfiguration does (flat, volatile block
// list).  Blocks are far larger than anything a case writes, so no object
// ever moves to an "old" block and no read needs a refresh (refreshing reads
// hand out buffers with background tasks whose cloning panics on the pinned
// tree, finding F1 / property C15).
func c11NewLocalStore(name int) blobstore.BlobAccess {
	const blockSize = 1 << 14
	const entries = 64
	blockList := local.NewVolatileBlockList(local.NewInMemoryBlockAllocator(blockSize))
	lbm := local.NewOldCurrentNewLocationBlobMap(blockList, local.NewImmutableBlockListGrowthPolicy(2, 2),
		util.DefaultErrorLogger, "c11", blockSize, 2, 2, 0)
	lra := local.NewInMemoryLocationRecordArray(entries, lbm)
	klm := local.NewHashingKeyLocationMap(lra, entries, 0x9e3779b97f4a7c15+uint64(name), 8, 32, "c11")
	return local.NewFlatBlobAccess(klm, lbm, digest.KeyWithoutInstance, &sync.RWMutex{}, "c11",
		capabilities.NewStaticProvider(&remoteexecution.ServerCapabilities{}))
}

func (r *c11Replica) realHas(ctx context.Context, i int) bool {
	missing, err := r.real.FindMissing(ctx, c11Digests[i].ToSingletonSet())
	return err == nil && missing.Empty()
}

func (r *c11Replica) letter() string { return string(rune('A' + r.name)) }
func (r *c11Replica) inj(c int) error {
	if c == int(codes.Canceled) {
		// CANCELLED is what a replica reports when the CALLER's context is
		// cancelled while its call is in flight: cancel it for real, so that
		// code which inspects the context sees what it would see then.
		r.env.mu.Lock()
		cancel := r.env.cancel
		r.env.mu.Unlock()
		if cancel != nil {
			cancel()
		}
	}
	return status.Error(codes.Code(uint32(c)), "inj@"+r.letter())
}

func (r *c11Replica) GetCapabilities(ctx context.Context, instanceName digest.InstanceName) (*remoteexecution.ServerCapabilities, error) {
	if c := r.env.call(r.name, 3, 0); c != 0 {
		return nil, r.inj(c)
	}
	return &remoteexecution.ServerCapabilities{}, nil
}

func (r *c11Replica) Get(ctx context.Context, d digest.Digest) buffer.Buffer {
	i, ok := c11DigestID[d.String()]
	if !ok {
		return buffer.NewBufferFromError(status.Error(codes.InvalidArgument, "foreign digest"))
	}
	if c := r.env.call(r.name, 0, i); c != 0 {
		return buffer.NewBufferFromError(r.inj(c))
	}
	if r.real != nil {
		if !r.realHas(ctx, i) {
			return buffer.NewBufferFromError(status.Error(codes.NotFound, "nf@"+r.letter()))
		}
		return r.real.Get(ctx, d)
	}
	r.mu.Lock()
	cid, ok := r.data[i]
	r.mu.Unlock()
	if !ok {
		return buffer.NewBufferFromError(status.Error(codes.NotFound, "nf@"+r.letter()))
	}
	data := c11Content(i, cid)
	if cid == 0 {
		switch r.env.flavour {
		case 1:
			return buffer.NewCASBufferFromReader(d, io.NopCloser(bytes.NewReader(data)), buffer.BackendProvided(buffer.Irreparable(d)))
		case 2:
			return buffer.NewCASBufferFromByteSlice(d, data, buffer.BackendProvided(buffer.Irreparable(d)))
		}
	}
	return buffer.NewValidatedBufferFromByteSlice(data)
}

func (r *c11Replica) GetFromComposite(ctx context.Context, p, c digest.Digest, s slicing.BlobSlicer) buffer.Buffer {
	return buffer.NewBufferFromError(status.Error(codes.Unimplemented, "n/a"))
}

func (r *c11Replica) Put(ctx context.Context, d digest.Digest, b buffer.Buffer) error {
	i, ok := c11DigestID[d.String()]
	if !ok {
		b.Discard()
		return status.Error(codes.InvalidArgument, "foreign digest")
	}
	if c := r.env.call(r.name, 1, i); c != 0 {
		b.Discard()
		return r.inj(c)
	}
	if r.real != nil {
		return r.real.Put(ctx, d, b)
	}
	data, err := b.ToByteSlice(1 << 10)
	if err != nil {
		return err
	}
	r.mu.Lock()
	r.data[i] = c11ContentID(i, data)
	r.mu.Unlock()
	return nil
}

func (r *c11Replica) FindMissing(ctx context.Context, ds digest.Set) (digest.Set, error) {
	if c := r.env.call(r.name, 2, 0); c != 0 {
		return digest.EmptySet, r.inj(c)
	}
	if r.real != nil {
		return r.real.FindMissing(ctx, ds)
	}
	sb := digest.NewSetBuilder(0)
	r.mu.Lock()
	for _, d := range ds.Items() {
		if i, ok := c11DigestID[d.String()]; !ok {
			sb.Add(d)
		} else if _, ok := r.data[i]; !ok {
			sb.Add(d)
		}
	}
	r.mu.Unlock()
	return sb.Build(), nil
}

func (r *c11Replica) snapshot(n int) Sx {
	r.mu.Lock()
	defer r.mu.Unlock()
	l := make([]Sx, n)
	if r.real != nil {
		for i := 0; i < n; i++ {
			l[i] = A(-1)
			if r.realHas(context.Background(), i) {
				// read it back: the store must hold the object's own bytes
				data, err := r.real.Get(context.Background(), c11Digests[i]).ToByteSlice(1 << 10)
				if err != nil {
					l[i] = A(78)
				} else {
					l[i] = AI(c11ContentID(i, data))
				}
			}
		}
		return L(l...)
	}
	for i := 0; i < n; i++ {
		if c, ok := r.data[i]; ok {
			l[i] = AI(c)
		} else {
			l[i] = A(-1)
		}
	}
	return L(l...)
}

func c11ErrObs(err error) (code, tag, origin int) {
	msg := status.Convert(err).Message()
	code = int(status.Code(err))
	switch {
	case strings.HasPrefix(msg, "Backend A returned inconsistent results while synchronizing"):
		tag = 5
	case strings.HasPrefix(msg, "Backend B returned inconsistent results while synchronizing"):
		tag = 6
	case strings.HasPrefix(msg, "Backend A: "):
		tag = 1
	case strings.HasPrefix(msg, "Backend B: "):
		tag = 2
	case strings.HasPrefix(msg, "Failed to synchronize from backend A to backend B"):
		tag = 3
	case strings.HasPrefix(msg, "Failed to synchronize from backend B to backend A"):
		tag = 4
	}
	if strings.Contains(msg, "@A") {
		origin |= 1
	}
	if strings.Contains(msg, "@B") {
		origin |= 2
	}
	return
}

func c11Atoms(s Sx, n int) ([]int, bool) {
	if s.IsAtom || (n >= 0 && s.Len() != n) {
		return nil, false
	}
	out := make([]int, s.Len())
	for i, x := range s.List {
		if !x.IsAtom || x.Big != "" || x.Z < -1000000 || x.Z > 1000000 {
			return nil, false
		}
		out[i] = int(x.Z)
	}
	return out, true
}

func c11Consume(b buffer.Buffer, how int) ([]byte, error) {
	switch how {
	case 1:
		r := b.ToChunkReader(0, 2)
		defer r.Close()
		var out []byte
		for {
			c, err := r.Read()
			if err == io.EOF {
				return out, nil
			}
			if err != nil {
				return nil, err
			}
			out = append(out, c...)
		}
	case 2:
		var w bytes.Buffer
		if err := b.IntoWriter(&w); err != nil {
			return nil, err
		}
		return w.Bytes(), nil
	case 3:
		r := b.ToReader()
		data, err := io.ReadAll(r)
		cerr := r.Close()
		if err != nil {
			return nil, err
		}
		if cerr != nil {
			return nil, cerr
		}
		return data, nil
	default:
		return b.ToByteSlice(1 << 10)
	}
}

func (c11) Exec(in Sx) (Sx, bool) {
	if in.IsAtom || in.Len() < 4 || in.Len() > 5 || !in.Nth(0).IsAtom {
		return Sx{}, false
	}
	n := in.Nth(0).Int()
	if n < 1 || n > c11Universe {
		return Sx{}, false
	}
	initA, okA := c11Atoms(in.Nth(1), n)
	initB, okB := c11Atoms(in.Nth(2), n)
	if !okA || !okB || in.Nth(3).IsAtom {
		return Sx{}, false
	}
	flavour, how, real := 0, 0, 0
	if in.Len() == 5 {
		cfg, ok := c11Atoms(in.Nth(4), -1)
		if !ok || len(cfg) < 2 || len(cfg) > 3 || cfg[0] < 0 || cfg[0] > 2 || cfg[1] < 0 || cfg[1] > 3 {
			return Sx{}, false
		}
		flavour, how = cfg[0], cfg[1]
		if len(cfg) == 3 {
			if cfg[2] < 0 || cfg[2] > 1 {
				return Sx{}, false
			}
			real = cfg[2]
		}
	}
	env := &c11Env{flavour: flavour}
	mk := func(name int, init []int) (*c11Replica, bool) {
		r := &c11Replica{name: name, env: env, data: map[int]int{}}
		if real == 1 {
			r.real = c11NewLocalStore(name)
		}
		for i, c := range init {
			if c > 99 || c < -1 || (real == 1 && c > 0) {
				return nil, false
			}
			if c >= 0 {
				r.data[i] = c
				if real == 1 {
					if err := r.real.Put(context.Background(), c11Digests[i], buffer.NewValidatedBufferFromByteSlice(c11Content(i, 0))); err != nil {
						return nil, false
					}
				}
			}
		}
		return r, true
	}
	ra, ok1 := mk(0, initA)
	rb, ok2 := mk(1, initB)
	if !ok1 || !ok2 {
		return Sx{}, false
	}
	// validate all operations before running any
	type opT struct {
		kind   int
		faults []c11Fault
		d, x   int
		src    int
		ds     []int
	}
	var ops []opT
	for _, o := range in.Nth(3).List {
		if o.IsAtom || o.Len() < 2 || !o.Nth(0).IsAtom || o.Nth(1).IsAtom {
			return Sx{}, false
		}
		var p opT
		p.kind = o.Nth(0).Int()
		for _, f := range o.Nth(1).List {
			v, ok := c11Atoms(f, 4)
			if !ok || v[0] < 0 || v[0] > 1 || v[1] < 0 || v[1] > 3 || v[2] < 0 || v[2] >= n || v[3] > 100000 {
				return Sx{}, false
			}
			p.faults = append(p.faults, c11Fault{v[0], v[1], v[2], v[3]})
		}
		switch p.kind {
		case 0:
			if o.Len() != 3 || !o.Nth(2).IsAtom {
				return Sx{}, false
			}
			p.d = o.Nth(2).Int()
		case 1:
			if o.Len() != 5 || !o.Nth(2).IsAtom || !o.Nth(3).IsAtom || !o.Nth(4).IsAtom {
				return Sx{}, false
			}
			p.d, p.x, p.src = o.Nth(2).Int(), o.Nth(3).Int(), o.Nth(4).Int()
			if p.x < 0 || p.x > 99 || p.src < 0 || p.src > 2 || (real == 1 && p.x != 0) {
				return Sx{}, false
			}
		case 2:
			if o.Len() != 3 {
				return Sx{}, false
			}
			ds, ok := c11Atoms(o.Nth(2), -1)
			if !ok || len(ds) > 12 {
				return Sx{}, false
			}
			for _, d := range ds {
				if d < 0 || d >= n {
					return Sx{}, false
				}
			}
			p.ds = ds
		case 3:
			if o.Len() != 2 {
				return Sx{}, false
			}
		default:
			return Sx{}, false
		}
		if p.d < 0 || p.d >= n {
			return Sx{}, false
		}
		ops = append(ops, p)
	}

	var ba blobstore.BlobAccess = mirrored.NewMirroredBlobAccess(ra, rb,
		replication.NewLocalBlobReplicator(ra, rb),
		replication.NewLocalBlobReplicator(rb, ra))
	var out []Sx
	for _, p := range ops {
		ctx, cancel := context.WithCancel(context.Background())
		env.mu.Lock()
		env.faults = p.faults
		env.log = nil
		env.cancel = cancel
		env.mu.Unlock()
		var err error
		payload := []Sx{}
		switch p.kind {
		case 0:
			var data []byte
			data, err = c11Consume(ba.Get(ctx, c11Digests[p.d]), how)
			if err == nil {
				payload = append(payload, AI(c11ContentID(p.d, data)))
			}
		case 1:
			d := c11Digests[p.d]
			data := c11Content(p.d, p.x)
			var b buffer.Buffer
			switch {
			case p.x == 0 && p.src == 1:
				b = buffer.NewCASBufferFromReader(d, io.NopCloser(bytes.NewReader(data)), buffer.UserProvided)
			case p.x == 0 && p.src == 2:
				b = buffer.NewCASBufferFromByteSlice(d, data, buffer.UserProvided)
			default:
				b = buffer.NewValidatedBufferFromByteSlice(data)
			}
			err = ba.Put(ctx, d, b)
		case 2:
			sb := digest.NewSetBuilder(0)
			for _, d := range p.ds {
				sb.Add(c11Digests[d])
			}
			var missing digest.Set
			missing, err = ba.FindMissing(ctx, sb.Build())
			if err == nil {
				for _, d := range missing.Items() {
					payload = append(payload, AI(c11DigestID[d.String()]))
				}
			}
		case 3:
			_, err = ba.GetCapabilities(ctx, c11Digests[0].GetInstanceName())
		}
		okFlag, code, tag, origin := 1, 0, 0, 0
		if err != nil {
			okFlag = 0
			code, tag, origin = c11ErrObs(err)
		}
		env.mu.Lock()
		calls := make([]Sx, len(env.log))
		for i, c := range env.log {
			calls[i] = L(AI(c.r), AI(c.k), AI(c.d))
		}
		env.mu.Unlock()
		out = append(out, L(AI(okFlag), L(payload...), AI(code), AI(tag), AI(origin), L(calls...), ra.snapshot(n), rb.snapshot(n)))
	}
	return L(out...), true
}

// ---- generation ----

func c11Fs(fs ...[4]int) Sx {
	l := []Sx{}
	for _, f := range fs {
		l = append(l, L(AI(f[0]), AI(f[1]), AI(f[2]), AI(f[3])))
	}
	return L(l...)
}
func c11Get(d int, fs Sx) Sx        { return L(A(0), fs, AI(d)) }
func c11Put(d, x, src int, fs Sx) Sx { return L(A(1), fs, AI(d), AI(x), AI(src)) }
func c11FM(ds []int, fs Sx) Sx      { return L(A(2), fs, LInts(ds)) }
func c11Cap(fs Sx) Sx               { return L(A(3), fs) }

// placement p of one object: 0 neither, 1 A only, 2 B only, 3 both
func c11Place(ps []int, va, vb int) (Sx, Sx) {
	a, b := make([]int, len(ps)), make([]int, len(ps))
	for i, p := range ps {
		a[i], b[i] = -1, -1
		if p&1 != 0 {
			a[i] = va
		}
		if p&2 != 0 {
			b[i] = vb
		}
	}
	return LInts(a), LInts(b)
}

var c11Codes = []int{14, 14, 13, 4, 7, 2, 9, 1}

// every fault choice for one call pattern: none, then each key with each code
func c11FaultChoices(getKeys, otherKeys [][3]int) []Sx {
	out := []Sx{c11Fs()}
	for _, k := range getKeys {
		out = append(out, c11Fs([4]int{k[0], k[1], k[2], 5}), c11Fs([4]int{k[0], k[1], k[2], 14}))
	}
	for _, k := range otherKeys {
		out = append(out, c11Fs([4]int{k[0], k[1], k[2], 14}))
	}
	return out
}

// The systematic family: all placements x parity x a fault at every call.
func c11Systematic() []Sx {
	var cases []Sx
	cfg := L(A(0), A(0))
	getF := c11FaultChoices([][3]int{{0, 0, 0}, {1, 0, 0}}, [][3]int{{0, 1, 0}, {1, 1, 0}})
	for p := 0; p < 4; p++ {
		for par := 0; par < 2; par++ {
			for _, f := range getF {
				a, b := c11Place([]int{p}, 0, 0)
				ops := []Sx{}
				if par == 1 {
					ops = append(ops, c11Cap(c11Fs()))
				}
				ops = append(ops, c11Get(0, f))
				cases = append(cases, L(A(1), a, b, L(ops...), cfg))
			}
		}
	}
	for p := 0; p < 4; p++ {
		for _, f := range []Sx{c11Fs(), c11Fs([4]int{0, 1, 0, 14}), c11Fs([4]int{1, 1, 0, 14}), c11Fs([4]int{0, 1, 0, 14}, [4]int{1, 1, 0, 13})} {
			a, b := c11Place([]int{p}, 1, 2)
			cases = append(cases, L(A(1), a, b, L(c11Put(0, 3, 0, f)), cfg))
		}
	}
	fmGet := [][3]int{}
	fmOther := [][3]int{{0, 2, 0}, {1, 2, 0}}
	for d := 0; d < 2; d++ {
		fmGet = append(fmGet, [3]int{0, 0, d}, [3]int{1, 0, d})
		fmOther = append(fmOther, [3]int{0, 1, d}, [3]int{1, 1, d})
	}
	fmF := c11FaultChoices(fmGet, fmOther)
	for p0 := 0; p0 < 4; p0++ {
		for p1 := 0; p1 < 4; p1++ {
			for _, f := range fmF {
				a, b := c11Place([]int{p0, p1}, 0, 0)
				cases = append(cases, L(A(2), a, b, L(c11FM([]int{0, 1}, f)), cfg))
			}
		}
	}
	for par := 0; par < 2; par++ {
		for _, f := range []Sx{c11Fs(), c11Fs([4]int{0, 3, 0, 14}), c11Fs([4]int{1, 3, 0, 14})} {
			ops := []Sx{}
			if par == 1 {
				ops = append(ops, c11Get(0, c11Fs()))
			}
			ops = append(ops, c11Cap(f))
			cases = append(cases, L(A(1), LInts([]int{0}), LInts([]int{-1}), L(ops...), cfg))
		}
	}
	return cases
}

var c11Sys = c11Systematic()

func c11RelevantKeys(kind, d int, ds []int) [][3]int {
	switch kind {
	case 0, 1:
		k := [][3]int{{0, 1, d}, {1, 1, d}}
		if kind == 0 {
			k = append(k, [3]int{0, 0, d}, [3]int{1, 0, d})
		}
		return k
	case 2:
		k := [][3]int{{0, 2, 0}, {1, 2, 0}}
		for _, d := range ds {
			k = append(k, [3]int{0, 0, d}, [3]int{1, 0, d}, [3]int{0, 1, d}, [3]int{1, 1, d})
		}
		return k
	default:
		return [][3]int{{0, 3, 0}, {1, 3, 0}}
	}
}

func (c11) Gen(r *Rand, i int, tier string) Sx {
	if i < len(c11Sys) {
		c := c11Sys[i]
		// vary what the replicas hand out and how the result is consumed
		real := 0
		if c11AllCanonical(c) && r.Chance(35) {
			real = 1
		}
		return L(c.Nth(0), c.Nth(1), c.Nth(2), c.Nth(3), L(AI(r.Intn(3)), AI(r.Intn(3)), AI(real)))
	}
	hostile := r.Chance(25)
	n := 1 + r.Intn(4)
	maxOps := 6
	if tier == "thorough" {
		n = 1 + r.Intn(c11Universe)
		maxOps = 12
	}
	versions := r.Chance(30)
	a, b := make([]int, n), make([]int, n)
	for d := 0; d < n; d++ {
		p := r.Intn(4)
		a[d], b[d] = -1, -1
		if p&1 != 0 {
			a[d] = 0
			if versions {
				a[d] = r.Intn(3)
			}
		}
		if p&2 != 0 {
			b[d] = 0
			if versions {
				b[d] = r.Intn(3)
			}
		}
	}
	nops := 1 + r.Intn(maxOps)
	ops := []Sx{}
	for j := 0; j < nops; j++ {
		kind := r.Pick([]int{0, 0, 0, 0, 2, 2, 2, 1, 1, 3})
		d := r.Intn(n)
		var ds []int
		if kind == 2 {
			k := r.Intn(n + 2)
			for q := 0; q < k; q++ {
				ds = append(ds, r.Intn(n))
			}
		}
		var fs [][4]int
		if hostile {
			for q := r.Intn(4); q > 0; q-- {
				fs = append(fs, [4]int{r.Intn(2), r.Intn(4), r.Intn(n), r.Pick([]int{5, 5, 14, 1, 16, 0, -3, 13, 3})})
			}
		} else if r.Chance(55) {
			keys := c11RelevantKeys(kind, d, ds)
			for q := 1 + r.Intn(2); q > 0; q-- {
				k := keys[r.Intn(len(keys))]
				c := r.Pick(c11Codes)
				if k[1] == 0 && r.Chance(40) {
					c = 5
				}
				fs = append(fs, [4]int{k[0], k[1], k[2], c})
			}
		}
		f := c11Fs(fs...)
		switch kind {
		case 0:
			ops = append(ops, c11Get(d, f))
		case 1:
			x := 0
			if versions {
				x = r.Intn(4)
			}
			ops = append(ops, c11Put(d, x, r.Intn(3), f))
		case 2:
			ops = append(ops, c11FM(ds, f))
		default:
			ops = append(ops, c11Cap(f))
		}
	}
	real := 0
	if !versions && r.Chance(35) {
		real = 1
	}
	return L(AI(n), LInts(a), LInts(b), L(ops...), L(AI(r.Intn(3)), AI(r.Intn(3)), AI(real)))
}

// c11AllCanonical: every content id of the case is 0 (the hash-correct
// content), as a real CAS store requires.
func c11AllCanonical(c Sx) bool {
	for _, l := range []Sx{c.Nth(1), c.Nth(2)} {
		for _, x := range l.List {
			if x.Z > 0 {
				return false
			}
		}
	}
	for _, o := range c.Nth(3).List {
		if o.Nth(0).Int() == 1 && o.Nth(3).Int() != 0 {
			return false
		}
	}
	return true
}

func (c11) Class(in, obs Sx) (string, bool) {
	kinds := []string{"get", "put", "findmissing", "capabilities"}
	ops := in.Nth(3)
	if obs.Len() != ops.Len() || ops.Len() == 0 {
		return "malformed", false
	}
	// classify by the last operation
	j := ops.Len() - 1
	op, ob := ops.Nth(j), obs.Nth(j)
	k := op.Nth(0).Int()
	if k < 0 || k > 3 {
		return "malformed", false
	}
	res := "ok"
	if ob.Nth(0).Int() == 0 {
		res = "err" + strconv.Itoa(ob.Nth(2).Int()) + "-tag" + strconv.Itoa(ob.Nth(3).Int())
	}
	prevA, prevB := in.Nth(1), in.Nth(2)
	if j > 0 {
		prevA, prevB = obs.Nth(j-1).Nth(6), obs.Nth(j-1).Nth(7)
	}
	repaired := prevA.String() != ob.Nth(6).String() || prevB.String() != ob.Nth(7).String()
	first := "A"
	if ob.Nth(5).Len() > 0 && ob.Nth(5).Nth(0).Nth(0).Int() == 1 {
		first = "B"
	}
	cl := kinds[k] + "/" + res
	if in.Nth(4).Len() == 3 && in.Nth(4).Nth(2).Int() == 1 {
		cl = kinds[k] + "-localstores/" + res
	}
	if k == 0 || k == 3 {
		cl += "/first" + first
	}
	if repaired && k != 1 {
		cl += "/repaired"
	}
	nontrivial := false
	for q := 0; q < obs.Len(); q++ {
		o := obs.Nth(q)
		pa, pb := in.Nth(1), in.Nth(2)
		if q > 0 {
			pa, pb = obs.Nth(q-1).Nth(6), obs.Nth(q-1).Nth(7)
		}
		if o.Nth(0).Int() == 0 || pa.String() != o.Nth(6).String() || pb.String() != o.Nth(7).String() {
			nontrivial = true
		}
	}
	return cl, nontrivial
}
