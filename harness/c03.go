package main

// C03 — acknowledged uploads survive graceful shutdown and committed epochs.
//
// The persistent local store is assembled exactly like
// pkg/blobstore/configuration/new_blob_access.go does it (block-device backed
// allocator over a byte slice, NewPersistentBlockList restored from the
// persistent state, NewOldCurrentNewLocationBlobMap with the restored block
// count, NewBlockDeviceBackedLocationRecordArray over a second byte slice,
// NewHashingKeyLocationMap with the persisted hash initialisation, flat or
// hierarchical blob access, NewPeriodicSyncer with both loops as goroutines).
// Harness collaborators: gated DataSyncer, gated PersistentStateStore (in
// memory, or the real directory-backed store over a simulated Directory),
// virtual clock, gated upload sources.  Two transparent recording decorators
// (BlockList towards the store, PersistentStateSource towards the syncer, plus
// a BlockAllocator decorator that notes locations) write the exact sequential
// history of calls on the PersistentBlockList; see coq/Run/R03.v for the
// formats.  A case is a list of incarnations; between two incarnations the
// process "exits" (after a graceful shutdown if ProcessBlockPut returned
// false, abruptly otherwise): all objects are dropped, the three media are
// kept as they are, and the next incarnation starts by reading back every key.

import (
	"bytes"
	"context"
	"crypto/sha256"
	"encoding/hex"
	"io"
	"log"
	"os"
	"runtime"
	"strconv"
	"strings"
	"sync"
	"sync/atomic"
	"time"
	"unsafe"

	remoteexecution "github.com/bazelbuild/remote-apis/build/bazel/remote/execution/v2"
	"github.com/buildbarn/bb-storage/pkg/blobstore"
	"github.com/buildbarn/bb-storage/pkg/blobstore/buffer"
	"github.com/buildbarn/bb-storage/pkg/blobstore/local"
	"github.com/buildbarn/bb-storage/pkg/capabilities"
	"github.com/buildbarn/bb-storage/pkg/clock"
	"github.com/buildbarn/bb-storage/pkg/digest"
	"github.com/buildbarn/bb-storage/pkg/filesystem"
	"github.com/buildbarn/bb-storage/pkg/filesystem/path"
	pb "github.com/buildbarn/bb-storage/pkg/proto/blobstore/local"

	"google.golang.org/grpc/codes"
	"google.golang.org/grpc/status"
	"google.golang.org/protobuf/proto"
)

func init() { props["C03"] = c03{} }

type c03 struct{}

var c03Base = time.Unix(100000, 0)

// ---------- configuration ----------

type c03Cfg struct {
	bs, old, cur, nw   int
	mutable            bool
	spare              int
	hier, validate     bool
	sector             int
	interval, retry    int64
	dirStore           bool
	table              int
	objs               [][]byte
	digests            []digest.Digest
	instance           string
}

func c03ParseCfg(c, objs Sx) (*c03Cfg, bool) {
	if c.IsAtom || c.Len() != 13 || objs.IsAtom {
		return nil, false
	}
	for _, x := range c.List {
		if !x.IsAtom || x.Big != "" || x.Z < 0 || x.Z > 1<<20 {
			return nil, false
		}
	}
	g := &c03Cfg{
		bs: c.Nth(0).Int(), old: c.Nth(1).Int(), cur: c.Nth(2).Int(), nw: c.Nth(3).Int(),
		mutable: c.Nth(4).Z != 0, spare: c.Nth(5).Int(), hier: c.Nth(6).Z != 0, validate: c.Nth(7).Z != 0,
		sector: c.Nth(8).Int(), interval: c.Nth(9).Z, retry: c.Nth(10).Z, dirStore: c.Nth(11).Z != 0,
		table: c.Nth(12).Int(),
	}
	if g.bs <= 0 || g.bs > 1024 || g.sector < 1 || g.bs%g.sector != 0 || g.old > 4 || g.cur > 4 || g.nw < 1 || g.nw > 4 ||
		g.spare < 1 || g.spare > 4 || g.table < 16 || g.table > 1024 || (g.mutable && g.nw != 1) || (g.mutable && g.hier) {
		return nil, false
	}
	if objs.Len() == 0 || objs.Len() > 24 {
		return nil, false
	}
	if g.hier {
		g.instance = "x"
	}
	for _, o := range objs.List {
		if o.IsAtom || o.Len() > g.bs {
			return nil, false
		}
		for _, b := range o.List {
			if !b.IsAtom || b.Z < 0 || b.Z > 255 {
				return nil, false
			}
		}
		data := o.Bytes()
		for _, p := range g.objs {
			if bytes.Equal(p, data) {
				return nil, false
			}
		}
		g.objs = append(g.objs, data)
		h := sha256.Sum256(data)
		g.digests = append(g.digests, digest.MustNewDigest(g.instance, remoteexecution.DigestFunction_SHA256, hex.EncodeToString(h[:]), int64(len(data))))
	}
	return g, true
}

// ---------- the media and whatever else survives a process exit ----------

type c03World struct {
	data    []byte
	index   []byte
	state   *pb.PersistentState // in-memory PersistentStateStore
	files   map[string][]byte   // simulated state directory
	seedMap map[uint64]uint64
	nSeed   uint64
	now     int64
}

func (w *c03World) canon(seed uint64) uint64 {
	if c, ok := w.seedMap[seed]; ok {
		return c
	}
	c := 1000 + w.nSeed
	w.nSeed++
	w.seedMap[seed] = c
	return c
}

// ---------- simulated state directory (only what the state store uses) ----------

type c03Dir struct {
	filesystem.Directory // nil: any other method panics
	e                    *c03Env
}

type c03File struct {
	d    *c03Dir
	name string
	rd   []byte
}

func (d *c03Dir) OpenRead(name path.Component) (filesystem.FileReader, error) {
	d.e.mu.Lock()
	defer d.e.mu.Unlock()
	data, ok := d.e.w.files[name.String()]
	if !ok {
		return nil, os.ErrNotExist
	}
	return &c03File{d: d, name: name.String(), rd: append([]byte(nil), data...)}, nil
}

func (d *c03Dir) OpenAppend(name path.Component, mode filesystem.CreationMode) (filesystem.FileAppender, error) {
	d.e.mu.Lock()
	defer d.e.mu.Unlock()
	if _, ok := d.e.w.files[name.String()]; ok {
		return nil, os.ErrExist
	}
	d.e.w.files[name.String()] = []byte{}
	return &c03File{d: d, name: name.String()}, nil
}

func (d *c03Dir) Remove(name path.Component) error {
	d.e.mu.Lock()
	defer d.e.mu.Unlock()
	if _, ok := d.e.w.files[name.String()]; !ok {
		return os.ErrNotExist
	}
	delete(d.e.w.files, name.String())
	return nil
}

func (d *c03Dir) Rename(oldName path.Component, nd filesystem.Directory, newName path.Component) error {
	d.e.mu.Lock()
	defer d.e.mu.Unlock()
	data, ok := d.e.w.files[oldName.String()]
	if !ok {
		return os.ErrNotExist
	}
	if d.e.dirFail == 2 {
		d.e.dirFail = 0
		return status.Error(codes.Internal, "injected rename failure")
	}
	delete(d.e.w.files, oldName.String())
	d.e.w.files[newName.String()] = data
	return nil
}

func (d *c03Dir) Sync() error { return nil }

func (f *c03File) Close() error { return nil }
func (f *c03File) Sync() error {
	f.d.e.mu.Lock()
	defer f.d.e.mu.Unlock()
	if f.d.e.dirFail == 3 {
		f.d.e.dirFail = 0
		return status.Error(codes.Internal, "injected fsync failure")
	}
	return nil
}
func (f *c03File) Write(p []byte) (int, error) {
	f.d.e.mu.Lock()
	defer f.d.e.mu.Unlock()
	f.d.e.w.files[f.name] = append(f.d.e.w.files[f.name], p...)
	return len(p), nil
}

func (f *c03File) ReadAt(p []byte, off int64) (int, error) {
	if off >= int64(len(f.rd)) {
		return 0, io.EOF
	}
	n := copy(p, f.rd[off:])
	if n < len(p) {
		return n, io.EOF
	}
	return n, nil
}

func (f *c03File) Len() (int64, error) { return int64(len(f.rd)), nil }

func (f *c03File) GetNextRegionOffset(off int64, rt filesystem.RegionType) (int64, error) {
	panic("c03: unexpected GetNextRegionOffset")
}

// ---------- one incarnation ----------

type c03Gate struct {
	kind int // 0 DataSyncer, 1 WritePersistentState
	who  int
	n    int
	ch   chan int // 0 nil, 1 error, 2 terminate
}

type c03Timer struct {
	who      int
	retry    bool
	deadline int64
	ch       chan time.Time
}

type c03Upload struct {
	key  int
	src  *stSource
	done chan error
	fed  int
	bad  bool
}

type c03Env struct {
	g  *c03Cfg
	w  *c03World
	mu sync.Mutex // history, gates, timers, clock, files
	// the store's global lock
	lock     sync.RWMutex
	hist     []Sx
	gates    []*c03Gate
	timers   []*c03Timer
	dead     bool
	nSync    int
	nWrite   int
	panicMsg string
	goid     [2]int64
	pExited  bool
	bl       *local.PersistentBlockList
	cancel   context.CancelFunc
	canceled bool
	ba       blobstore.BlobAccess
	dev      *stDevice
	idx      *stDevice
	negs     int64
	pss      local.PersistentStateStore // real directory-backed store, when configured
	uploads  map[int]*c03Upload
	// noted by the decorators (under the global write lock)
	lastLoc  int64
	found    []Sx
	nPut     int
	popCount int
	dirFail  int64 // injected failure of the next directory operation of that kind
}

func (e *c03Env) log(x Sx) {
	e.mu.Lock()
	if !e.dead {
		e.hist = append(e.hist, x)
	}
	e.mu.Unlock()
}

// ---- BlockAllocator decorator: notes locations ----

type c03Alloc struct {
	e     *c03Env
	inner local.BlockAllocator
}

func (a *c03Alloc) NewBlock() (local.Block, *pb.BlockLocation, error) {
	b, l, err := a.inner.NewBlock()
	if err == nil {
		a.e.lastLoc = l.OffsetBytes
	} else {
		a.e.lastLoc = -2
	}
	return b, l, err
}

func (a *c03Alloc) NewBlockAtLocation(l *pb.BlockLocation, woff int64) (local.Block, bool) {
	b, ok := a.inner.NewBlockAtLocation(l, woff)
	a.e.found = append(a.e.found, AB(ok))
	return b, ok
}

// ---- BlockList decorator ----

type c03BL struct {
	e     *c03Env
	inner *local.PersistentBlockList
}

func (b *c03BL) BlockReferenceToBlockIndex(r local.BlockReference) (int, uint64, bool) {
	return b.inner.BlockReferenceToBlockIndex(r)
}
func (b *c03BL) BlockIndexToBlockReference(i int) (local.BlockReference, uint64) {
	return b.inner.BlockIndexToBlockReference(i)
}
func (b *c03BL) PopFront() {
	b.e.log(L(A(2)))
	b.e.popCount++
	b.inner.PopFront()
}
func (b *c03BL) PushBack() error {
	b.e.lastLoc = -1
	err := b.inner.PushBack()
	switch {
	case err == nil:
		b.e.log(L(A(1), A(0), A(b.e.lastLoc)))
	case b.e.lastLoc == -1:
		// the allocator was not consulted: the list refused
		b.e.log(L(A(1), A(1), A(int64(status.Code(err)))))
	default:
		b.e.log(L(A(1), A(2), A(int64(status.Code(err)))))
	}
	return err
}
func (b *c03BL) Get(i int, d digest.Digest, off, size int64, cb buffer.DataIntegrityCallback) buffer.Buffer {
	return b.inner.Get(i, d, off, size, cb)
}
func (b *c03BL) HasSpace(i int, size int64) bool { return b.inner.HasSpace(i, size) }

func c03FinClass(err error) int64 {
	switch {
	case err == nil:
		return 0
	case status.Code(err) == codes.Unavailable && strings.Contains(err.Error(), "shutting down"):
		return 1
	case status.Code(err) == codes.Internal && strings.Contains(err.Error(), "already been released"):
		return 2
	}
	return 3
}

func (b *c03BL) Put(index int, size int64) local.BlockListPutWriter {
	e := b.e
	k := e.nPut
	e.nPut++
	abs := e.popCount + index
	e.log(L(A(3), AI(index), A(size)))
	w := b.inner.Put(index, size)
	return func(buf buffer.Buffer) local.BlockListPutFinalizer {
		f := w(buf)
		return func() (int64, error) {
			// The finalizer may wake the put loop, whose next harness call
			// (NewTimer) must be recorded after this entry: hold the
			// history lock across the call.
			e.mu.Lock()
			defer e.mu.Unlock()
			off, err := f()
			if e.dead {
				return off, err
			}
			cl := c03FinClass(err)
			if cl == 0 {
				ref, seed := b.inner.BlockIndexToBlockReference(abs - e.popCount)
				e.hist = append(e.hist, L(A(4), AI(k), A(0), A(off), AU(uint64(ref.EpochID)), AU(uint64(ref.BlocksFromLast)), AU(e.w.canon(seed))))
			} else {
				e.hist = append(e.hist, L(A(4), AI(k), A(cl), A(int64(status.Code(err)))))
			}
			return off, err
		}
	}
}

// ---- PersistentStateSource decorator ----

type c03Src struct {
	e     *c03Env
	inner *local.PersistentBlockList
}

func c03Readable(ch <-chan struct{}) bool {
	select {
	case <-ch:
		return true
	default:
		return false
	}
}

func (s *c03Src) GetBlockReleaseWakeup() <-chan struct{} {
	ch := s.inner.GetBlockReleaseWakeup()
	s.e.log(L(A(5), AI(s.e.who()), AB(c03Readable(ch))))
	return ch
}
func (s *c03Src) GetBlockPutWakeup() <-chan struct{} {
	ch := s.inner.GetBlockPutWakeup()
	s.e.log(L(A(5), AI(s.e.who()), AB(c03Readable(ch))))
	return ch
}
func (s *c03Src) NotifySyncStarting(final bool) {
	s.e.log(L(A(8), AB(final)))
	s.inner.NotifySyncStarting(final)
}
func (s *c03Src) NotifySyncCompleted() {
	s.e.log(L(A(9)))
	s.inner.NotifySyncCompleted()
}
func (s *c03Src) GetPersistentState() (uint32, []*pb.BlockState) {
	oldest, blocks := s.inner.GetPersistentState()
	s.e.log(L(A(6), AI(s.e.who()), AU(uint64(oldest)), s.e.encBlocks(blocks)))
	return oldest, blocks
}
func (s *c03Src) NotifyPersistentStateWritten() {
	s.e.log(L(A(7), AI(s.e.who())))
	s.inner.NotifyPersistentStateWritten()
}

func (e *c03Env) encBlocks(blocks []*pb.BlockState) Sx {
	e.mu.Lock()
	defer e.mu.Unlock()
	out := []Sx{}
	for _, b := range blocks {
		seeds := []Sx{}
		for _, s := range b.EpochHashSeeds {
			seeds = append(seeds, AU(e.w.canon(s)))
		}
		var lo int64 = -7
		if b.BlockLocation != nil {
			lo = b.BlockLocation.OffsetBytes
		}
		out = append(out, L(A(lo), A(b.WriteOffsetBytes), L(seeds...)))
	}
	return L(out...)
}

// ---- identification of the calling loop ----

func c03Goid() int64 {
	var buf [64]byte
	n := runtime.Stack(buf[:], false)
	f := strings.Fields(string(buf[:n]))
	if len(f) < 2 {
		return -1
	}
	id, _ := strconv.ParseInt(f[1], 10, 64)
	return id
}

func (e *c03Env) who() int {
	id := c03Goid()
	if id == e.goid[0] {
		return 0
	}
	if id == e.goid[1] {
		return 1
	}
	return 2
}

func c03InRetrySleep() bool {
	pcs := make([]uintptr, 16)
	n := runtime.Callers(2, pcs)
	fr := runtime.CallersFrames(pcs[:n])
	for {
		f, more := fr.Next()
		if strings.Contains(f.Function, "logErrorAndSleep") {
			return true
		}
		if !more {
			return false
		}
	}
}

// ---- gated collaborators ----

func (e *c03Env) enter(kind int, entry func(who, n int) Sx) int {
	e.mu.Lock()
	if e.dead {
		e.mu.Unlock()
		runtime.Goexit()
	}
	w := e.who()
	g := &c03Gate{kind: kind, who: w, ch: make(chan int, 1)}
	if kind == 0 {
		e.nSync++
		g.n = e.nSync
	} else {
		e.nWrite++
		g.n = e.nWrite
	}
	e.gates = append(e.gates, g)
	e.dropTimers(w)
	e.hist = append(e.hist, entry(w, g.n))
	e.mu.Unlock()
	r := <-g.ch
	if r == 2 {
		runtime.Goexit()
	}
	return r
}

func (e *c03Env) dropTimers(w int) {
	k := e.timers[:0]
	for _, t := range e.timers {
		if t.who != w {
			k = append(k, t)
		}
	}
	e.timers = k
}

func (e *c03Env) dataSyncer() error {
	if e.enter(0, func(w, n int) Sx { return L(A(10), AI(n)) }) == 0 {
		return nil
	}
	return status.Error(codes.Internal, "injected sync failure")
}

func (e *c03Env) ReadPersistentState() (*pb.PersistentState, error) {
	if e.pss != nil {
		return e.pss.ReadPersistentState()
	}
	if e.w.state == nil {
		return &pb.PersistentState{OldestEpochId: 1, KeyLocationMapHashInitialization: 0x1234567}, nil
	}
	return proto.Clone(e.w.state).(*pb.PersistentState), nil
}

func (e *c03Env) WritePersistentState(ps *pb.PersistentState) error {
	content := e.encBlocks(ps.Blocks)
	if e.enter(1, func(w, n int) Sx { return L(A(12), AI(w), AI(n), AU(uint64(ps.OldestEpochId)), content) }) != 0 {
		return status.Error(codes.Internal, "injected state write failure")
	}
	if e.pss != nil {
		return e.pss.WritePersistentState(ps)
	}
	e.mu.Lock()
	e.w.state = proto.Clone(ps).(*pb.PersistentState)
	e.mu.Unlock()
	return nil
}

// ---- virtual clock ----

type c03Stop struct{}

func (c03Stop) Stop() bool { return false }

func (e *c03Env) Now() time.Time {
	e.mu.Lock()
	defer e.mu.Unlock()
	return c03Base.Add(time.Duration(e.w.now))
}
func (e *c03Env) NewContextWithTimeout(parent context.Context, d time.Duration) (context.Context, context.CancelFunc) {
	panic("c03: unexpected NewContextWithTimeout")
}
func (e *c03Env) NewTicker(d time.Duration) (clock.Ticker, <-chan time.Time) {
	panic("c03: unexpected NewTicker")
}
func (e *c03Env) NewTimer(d time.Duration) (clock.Timer, <-chan time.Time) {
	retry := c03InRetrySleep()
	e.mu.Lock()
	defer e.mu.Unlock()
	ch := make(chan time.Time, 1)
	if e.dead {
		ch <- c03Base.Add(time.Duration(e.w.now))
		return c03Stop{}, ch
	}
	w := e.who()
	e.dropTimers(w)
	dl := e.w.now + int64(d)
	e.timers = append(e.timers, &c03Timer{who: w, retry: retry, deadline: dl, ch: ch})
	e.hist = append(e.hist, L(A(14), AI(w), A(dl), AB(retry)))
	return c03Stop{}, ch
}

func (e *c03Env) Log(err error) {}

// ---- quiescence (goroutine states of the two loops) ----

var c03StackBuf = make([]byte, 1<<20)

func c03Blocked(st string) bool {
	if i := strings.IndexByte(st, ','); i >= 0 {
		st = st[:i]
	}
	switch st {
	case "chan receive", "select", "chan send", "semacquire", "sync.Mutex.Lock", "sync.RWMutex.RLock",
		"sync.RWMutex.Lock", "sync.Cond.Wait", "sync.WaitGroup.Wait", "chan receive (nil chan)", "select (no cases)":
		return true
	}
	return false
}

func (e *c03Env) states() [2]string {
	n := runtime.Stack(c03StackBuf, true)
	var res [2]string
	buf := c03StackBuf[:n]
	for len(buf) > 0 {
		i := bytes.Index(buf, []byte("goroutine "))
		if i < 0 {
			break
		}
		buf = buf[i+10:]
		sp := bytes.IndexByte(buf, ' ')
		if sp < 0 {
			break
		}
		id, err := strconv.ParseInt(string(buf[:sp]), 10, 64)
		if err != nil || sp+1 >= len(buf) || buf[sp+1] != '[' {
			continue
		}
		end := bytes.IndexByte(buf, ']')
		if end < 0 {
			break
		}
		st := string(buf[sp+2 : end])
		for w := 0; w < 2; w++ {
			if id == e.goid[w] {
				res[w] = st
			}
		}
		buf = buf[end:]
	}
	return res
}

func (e *c03Env) quiet() ([2]string, bool) {
	stable := 0
	var last [2]string
	start := time.Now()
	for iter := 0; ; iter++ {
		st := e.states()
		ok := true
		for w := 0; w < 2; w++ {
			if st[w] != "" && !c03Blocked(st[w]) {
				ok = false
			}
		}
		if ok && st == last {
			stable++
			if stable >= 2 {
				return st, true
			}
		} else {
			stable = 0
		}
		last = st
		e.mu.Lock()
		pm := e.panicMsg
		e.mu.Unlock()
		if pm != "" {
			return st, true
		}
		if iter > 50 {
			if time.Since(start) > 3*time.Second {
				return st, false
			}
			time.Sleep(20 * time.Microsecond)
		} else {
			runtime.Gosched()
		}
	}
}

func (e *c03Env) loopObs(w int, st string) Sx {
	for _, g := range e.gates {
		if g.who == w {
			if g.kind == 1 {
				return L(A(1), AI(g.n))
			}
			return L(A(3), AI(g.n))
		}
	}
	for _, t := range e.timers {
		if t.who == w {
			return L(A(2), A(t.deadline), AB(t.retry))
		}
	}
	if st == "" {
		if w == 1 && e.pExited {
			return L(A(4))
		}
		return L(A(98))
	}
	if strings.HasPrefix(st, "sync.") || strings.HasPrefix(st, "semacquire") {
		return L(A(5))
	}
	return L(A(0))
}

type c03Abort struct{ code int64 }

// settle waits for quiescence and appends the marker entry.
func (e *c03Env) settle() {
	st, ok := e.quiet()
	e.mu.Lock()
	pm := e.panicMsg
	if pm == "" && ok {
		e.hist = append(e.hist, L(A(20), e.loopObs(0, st[0]), e.loopObs(1, st[1])))
	}
	e.mu.Unlock()
	if pm != "" {
		panic(c03Abort{-1})
	}
	if !ok {
		panic(c03Abort{-2})
	}
}

// ---- primitive scheduler actions (each followed by settle) ----

// releaseGate lets the pending call of the given kind return.  mode 1 = nil,
// 0 = error; for a state write through the directory-backed store, mode 2 =
// the rename of state.new over state fails, 3 = fsync of state.new fails (the
// real store then returns the error; state.new stays behind).
func (e *c03Env) releaseGate(kind int, mode int64) bool {
	ok := mode == 1
	inner := kind == 1 && e.pss != nil && (mode == 2 || mode == 3)
	e.mu.Lock()
	var g *c03Gate
	for i, x := range e.gates {
		if x.kind == kind {
			g = x
			e.gates = append(e.gates[:i], e.gates[i+1:]...)
			break
		}
	}
	if g != nil {
		if kind == 0 {
			e.hist = append(e.hist, L(A(11), AB(ok)))
		} else {
			e.hist = append(e.hist, L(A(13), AI(g.who), AB(ok)))
		}
	}
	e.mu.Unlock()
	if g == nil {
		return false
	}
	switch {
	case ok:
		g.ch <- 0
	case inner:
		e.mu.Lock()
		e.dirFail = mode
		e.mu.Unlock()
		g.ch <- 0
	default:
		g.ch <- 1
	}
	e.settle()
	e.mu.Lock()
	e.dirFail = 0
	e.mu.Unlock()
	return true
}

func (e *c03Env) tick(d int64) {
	if d < 0 || d > 1<<30 {
		d = 0
	}
	e.mu.Lock()
	e.w.now += d
	e.hist = append(e.hist, L(A(16), A(d)))
	e.mu.Unlock()
	e.settle()
}

func (e *c03Env) fire(who int) bool {
	e.mu.Lock()
	var t *c03Timer
	for i, x := range e.timers {
		if x.who == who && x.deadline <= e.w.now {
			t = x
			e.timers = append(e.timers[:i], e.timers[i+1:]...)
			break
		}
	}
	now := e.w.now
	if t != nil {
		e.hist = append(e.hist, L(A(15), AI(who), A(now)))
	}
	e.mu.Unlock()
	if t == nil {
		return false
	}
	t.ch <- c03Base.Add(time.Duration(now))
	e.settle()
	return true
}

func (e *c03Env) doCancel() {
	if !e.canceled {
		e.canceled = true
		e.log(L(A(17)))
		e.cancel()
	}
	e.settle()
}

// auto drives the syncer with successful completions until nothing is
// pending (untilExit: until ProcessBlockPut has returned false).
func (e *c03Env) auto(untilExit bool) {
	for i := 0; i < 60; i++ {
		e.mu.Lock()
		ng := len(e.gates)
		var kind int
		if ng > 0 {
			kind = e.gates[0].kind
		}
		var tm *c03Timer
		for _, t := range e.timers {
			if tm == nil || t.deadline < tm.deadline {
				tm = t
			}
		}
		now := e.w.now
		exited := e.pExited
		e.mu.Unlock()
		if untilExit && exited {
			return
		}
		switch {
		case ng > 0:
			e.releaseGate(kind, 1)
		case tm != nil:
			if tm.deadline > now {
				e.tick(tm.deadline - now)
			}
			e.fire(tm.who)
		default:
			return
		}
	}
}

// ---- store operations ----

func (e *c03Env) waitPut(u int, t *c03Upload) Sx {
	select {
	case <-t.src.waiting:
		return L(A(1))
	case err := <-t.done:
		delete(e.uploads, u)
		wf := !t.bad && t.fed == len(e.g.objs[t.key])
		return L(A(0), AI(stCode(err)), AB(wf), AI(t.key))
	}
}

func (e *c03Env) get(key int) (int, []byte) {
	b := e.ba.Get(context.Background(), e.g.digests[key])
	data, err := b.ToByteSlice(1 << 20)
	if err != nil {
		return stCode(err), nil
	}
	return 0, data
}

func (e *c03Env) findMissing(keys []int) (int, []int) {
	sb := digest.NewSetBuilder(0)
	for _, k := range keys {
		sb.Add(e.g.digests[k])
	}
	missing, err := e.ba.FindMissing(context.Background(), sb.Build())
	if err != nil {
		return stCode(err), nil
	}
	out := []int{}
	for _, k := range keys {
		for _, m := range missing.Items() {
			if m == e.g.digests[k] {
				out = append(out, k)
				break
			}
		}
	}
	return 0, out
}

func c03OpOK(op Sx, g *c03Cfg) bool {
	if op.IsAtom || op.Len() < 1 || !op.Nth(0).IsAtom {
		return false
	}
	want := map[int]int{1: 3, 2: 3, 3: 3, 4: 2, 5: 2, 6: 2, 7: 2, 8: 2, 9: 2, 10: 2, 11: 1, 12: 1, 13: 1}
	n, ok := want[op.Nth(0).Int()]
	if !ok || op.Len() != n {
		return false
	}
	for i, x := range op.List {
		if op.Nth(0).Int() == 6 && i == 1 {
			if x.IsAtom {
				return false
			}
			for _, k := range x.List {
				if !k.IsAtom || k.Big != "" || k.Z < 0 || k.Z >= int64(len(g.objs)) {
					return false
				}
			}
			continue
		}
		if !x.IsAtom || x.Big != "" || x.Z < 0 || x.Z > 1<<30 {
			return false
		}
	}
	switch op.Nth(0).Int() {
	case 1:
		return op.Nth(1).Z < 8 && op.Nth(2).Z < int64(len(g.objs))
	case 2, 3, 4:
		return op.Nth(1).Z < 8 && (op.Nth(0).Int() != 3 || op.Nth(2).Z <= 16)
	case 5:
		return op.Nth(1).Z < int64(len(g.objs))
	}
	return true
}

func (e *c03Env) do(i int, op Sx) {
	e.log(L(A(19), AI(i)))
	res := L(A(3)) // not applicable in this state
	switch op.Nth(0).Int() {
	case 1: // upload start u key
		u, key := op.Nth(1).Int(), op.Nth(2).Int()
		if _, busy := e.uploads[u]; !busy {
			t := &c03Upload{key: key, src: newStSource(), done: make(chan error, 1)}
			d := e.g.digests[key]
			go func() {
				t.done <- e.ba.Put(context.Background(), d, buffer.NewCASBufferFromChunkReader(d, t.src, buffer.UserProvided))
			}()
			e.uploads[u] = t
			res = e.waitPut(u, t)
		}
	case 2: // chunk u n
		u, n := op.Nth(1).Int(), op.Nth(2).Int()
		if t, ok := e.uploads[u]; ok {
			data := e.g.objs[t.key]
			if n > len(data)-t.fed {
				n = len(data) - t.fed
			}
			t.src.feed <- stFeed{data: append([]byte(nil), data[t.fed:t.fed+n]...)}
			t.fed += n
			res = e.waitPut(u, t)
		}
	case 3: // end u err
		u, c := op.Nth(1).Int(), op.Nth(2).Int()
		if t, ok := e.uploads[u]; ok {
			if c == 0 {
				t.src.feed <- stFeed{err: io.EOF}
			} else {
				t.bad = true
				t.src.feed <- stFeed{err: status.Error(codes.Code(c), "source failure")}
			}
			res = e.waitPut(u, t)
		}
	case 4: // rest of the content, then EOF
		u := op.Nth(1).Int()
		if t, ok := e.uploads[u]; ok {
			data := e.g.objs[t.key]
			res = L(A(1))
			if t.fed < len(data) {
				t.src.feed <- stFeed{data: append([]byte(nil), data[t.fed:]...)}
				t.fed = len(data)
				res = e.waitPut(u, t)
			}
			if res.Nth(0).Z == 1 {
				t.src.feed <- stFeed{err: io.EOF}
				res = e.waitPut(u, t)
			}
		}
	case 5:
		code, data := e.get(op.Nth(1).Int())
		res = L(A(2), AI(code), LBytes(data), AI(op.Nth(1).Int()))
	case 6:
		code, missing := e.findMissing(op.Nth(1).Ints())
		res = L(A(4), AI(code), LInts(missing))
	case 7, 8:
		e.mu.Lock()
		e.hist = append(e.hist, L(A(30), AI(i), L(A(5))))
		e.mu.Unlock()
		if !e.releaseGate(op.Nth(0).Int()-7, op.Nth(1).Z) {
			e.settle()
		}
		return
	case 9:
		e.log(L(A(30), AI(i), L(A(5))))
		e.tick(op.Nth(1).Z)
		return
	case 10:
		e.log(L(A(30), AI(i), L(A(5))))
		if !e.fire(int(op.Nth(1).Z & 1)) {
			e.settle()
		}
		return
	case 11:
		e.log(L(A(30), AI(i), L(A(5))))
		e.doCancel()
		return
	case 12:
		e.log(L(A(30), AI(i), L(A(5))))
		e.doCancel()
		e.auto(true)
		return
	case 13:
		e.log(L(A(30), AI(i), L(A(5))))
		e.settle()
		e.auto(false)
		return
	}
	e.log(L(A(30), AI(i), res))
	e.settle()
}

// readback reads every key of the case in the order chosen by rb.
func (e *c03Env) readback(rb int) {
	n := len(e.g.objs)
	e.log(L(A(19), A(-1)))
	for j := 0; j < n; j++ {
		k := j
		switch rb % 3 {
		case 1:
			k = n - 1 - j
		case 2:
			k = (j + rb/3) % n
		}
		var fmc, code int
		var missing []int
		var data []byte
		for attempt := 0; attempt < 4; attempt++ {
			fmc, missing = e.findMissing([]int{k})
			e.settle()
			code, data = e.get(k)
			e.settle()
			if fmc != int(codes.Unavailable) && code != int(codes.Unavailable) {
				break
			}
			// popped blocks await the next state write: let the syncer work
			e.auto(false)
		}
		e.log(L(A(32), AI(k), AI(fmc), AI(len(missing)), AI(code), LBytes(data)))
	}
	e.auto(false)
}

// ---- start and end of an incarnation ----

func c03Start(g *c03Cfg, w *c03World) *c03Env {
	e := &c03Env{g: g, w: w, uploads: map[int]*c03Upload{}}
	e.dev = &stDevice{data: w.data}
	e.idx = &stDevice{data: w.index}
	var store local.PersistentStateStore = e
	if g.dirStore {
		e.pss = local.NewDirectoryBackedPersistentStateStore(&c03Dir{e: e})
	}
	var f blobstore.ReadBufferFactory = stRawFactory{}
	if g.validate {
		f = stCountingCASFactory{negs: &e.negs}
	}
	blockCount := g.spare + g.old + g.cur + g.nw
	allocator := &c03Alloc{e: e, inner: local.NewBlockDeviceBackedBlockAllocator(e.dev, f, g.sector, int64(g.bs/g.sector), blockCount, "verifc03")}

	ps, err := store.ReadPersistentState()
	if err != nil {
		panic(c03Abort{-3})
	}
	hashInit := ps.KeyLocationMapHashInitialization
	bl, initialBlockCount := local.NewPersistentBlockList(allocator, ps.OldestEpochId, ps.Blocks)
	e.bl = bl
	src := &c03Src{e: e, inner: bl}
	syncer := local.NewPeriodicSyncer(src, &e.lock, store, e, e, time.Duration(g.retry), time.Duration(g.interval), hashInit, e.dataSyncer)

	var policy local.BlockListGrowthPolicy
	if g.mutable {
		policy = local.NewMutableBlockListGrowthPolicy(g.cur)
	} else {
		policy = local.NewImmutableBlockListGrowthPolicy(g.cur, g.nw)
	}
	lbm := local.NewOldCurrentNewLocationBlobMap(&c03BL{e: e, inner: bl}, policy, stErrorLogger{}, "verifc03", int64(g.bs), g.old, g.nw, initialBlockCount)
	lra := local.NewBlockDeviceBackedLocationRecordArray(e.idx, lbm)
	klm := local.NewHashingKeyLocationMap(lra, g.table, hashInit, 64, 128, "verifc03")
	prov := capabilities.NewStaticProvider(&remoteexecution.ServerCapabilities{})
	if g.hier {
		e.ba = local.NewHierarchicalCASBlobAccess(klm, lbm, &e.lock, prov)
	} else {
		e.ba = local.NewFlatBlobAccess(klm, lbm, digest.KeyWithoutInstance, &e.lock, "verifc03", prov)
	}

	// what was read, what was restored, the list's own view of it, and how
	// many of the restored blocks the old/current/new map treats as "old"
	// (Get reports needsRefresh exactly for those)
	po, pblocks := bl.GetPersistentState()
	nold := 0
	for i := 0; i < initialBlockCount; i++ {
		if _, needsRefresh := lbm.Get(local.Location{BlockIndex: i}); needsRefresh {
			nold++
		}
	}
	e.hist = append(e.hist, L(A(0), AI(initialBlockCount),
		L(AU(uint64(ps.OldestEpochId)), e.encBlocks(ps.Blocks)), L(e.found...),
		L(AU(uint64(po)), e.encBlocks(pblocks)), AI(nold)))

	ctx, cancel := context.WithCancel(context.Background())
	e.cancel = cancel
	e.goid = [2]int64{-2, -2}
	var started sync.WaitGroup
	started.Add(2)
	go1 := make(chan struct{})
	go func() {
		defer e.loopExit()
		e.goid[0] = c03Goid()
		started.Done()
		<-go1
		for {
			syncer.ProcessBlockRelease()
		}
	}()
	go func() {
		defer e.loopExit()
		e.goid[1] = c03Goid()
		started.Done()
		<-go1
		for syncer.ProcessBlockPut(ctx) {
		}
		e.mu.Lock()
		e.pExited = true
		if !e.dead {
			e.hist = append(e.hist, L(A(18)))
		}
		e.mu.Unlock()
	}()
	started.Wait()
	close(go1)
	e.settle()
	return e
}

func (e *c03Env) loopExit() {
	if r := recover(); r != nil {
		e.mu.Lock()
		if e.panicMsg == "" {
			e.panicMsg = "panic"
		}
		e.mu.Unlock()
	}
}

// exit ends the incarnation: the media are frozen as they are (copied for
// the next incarnation) and every goroutine of this one is made to terminate.
func (e *c03Env) exit(clean bool) *c03World {
	e.mu.Lock()
	e.dead = true
	nw := &c03World{seedMap: e.w.seedMap, nSeed: e.w.nSeed, now: e.w.now, files: map[string][]byte{}}
	if e.w.state != nil {
		nw.state = proto.Clone(e.w.state).(*pb.PersistentState)
	}
	for k, v := range e.w.files {
		nw.files[k] = append([]byte(nil), v...)
	}
	gs := e.gates
	e.gates = nil
	ts := e.timers
	e.timers = nil
	now := e.w.now
	e.mu.Unlock()
	e.dev.lock.Lock()
	nw.data = append([]byte(nil), e.dev.data...)
	e.dev.lock.Unlock()
	e.idx.lock.Lock()
	nw.index = append([]byte(nil), e.idx.data...)
	e.idx.lock.Unlock()

	e.cancel()
	for _, g := range gs {
		g.ch <- 2
	}
	for _, t := range ts {
		select {
		case t.ch <- c03Base.Add(time.Duration(now)):
		default:
		}
	}
	for u, t := range e.uploads {
		t.src.feed <- stFeed{err: status.Error(codes.Canceled, "case over")}
		<-t.done
		delete(e.uploads, u)
	}
	if !clean {
		return nw
	}
	e.lock.RLock()
	ch := e.bl.GetBlockReleaseWakeup()
	e.lock.RUnlock()
	if !c03Readable(ch) {
		close(*(*chan struct{})(unsafe.Pointer(&ch)))
	}
	start := time.Now()
	for i := 0; ; i++ {
		st := e.states()
		if st[0] == "" && st[1] == "" {
			break
		}
		if i > 50 {
			if time.Since(start) > time.Second {
				break
			}
			time.Sleep(20 * time.Microsecond)
		} else {
			runtime.Gosched()
		}
	}
	return nw
}

func (c03) Exec(in Sx) (obs Sx, ok bool) {
	if in.IsAtom || in.Len() != 3 || in.Nth(2).IsAtom {
		return Sx{}, false
	}
	g, ok := c03ParseCfg(in.Nth(0), in.Nth(1))
	if !ok {
		return Sx{}, false
	}
	incs := in.Nth(2).List
	if len(incs) == 0 || len(incs) > 4 {
		return Sx{}, false
	}
	for _, inc := range incs {
		if inc.IsAtom || inc.Len() != 2 || !inc.Nth(0).IsAtom || inc.Nth(0).Z < 0 || inc.Nth(0).Z > 1000 || inc.Nth(1).IsAtom || inc.Nth(1).Len() > 400 {
			return Sx{}, false
		}
		for _, op := range inc.Nth(1).List {
			if !c03OpOK(op, g) {
				return Sx{}, false
			}
		}
	}
	log.SetOutput(io.Discard) // the state store announces re-initialisation through the default logger
	blockCount := g.spare + g.old + g.cur + g.nw
	w := &c03World{
		data:    make([]byte, g.bs*blockCount),
		index:   make([]byte, g.table*local.BlockDeviceBackedLocationRecordSize),
		seedMap: map[uint64]uint64{},
		files:   map[string][]byte{},
	}
	hists := []Sx{}
	var e *c03Env
	bad := int64(0)
	func() {
		defer func() {
			if r := recover(); r != nil {
				if a, isAbort := r.(c03Abort); isAbort {
					bad = a.code
				} else {
					bad = -1
				}
			}
		}()
		for n, inc := range incs {
			e = c03Start(g, w)
			if n > 0 {
				e.readback(inc.Nth(0).Int())
			}
			for i, op := range inc.Nth(1).List {
				e.do(i, op)
			}
			e.mu.Lock()
			h := L(e.hist...)
			e.mu.Unlock()
			hists = append(hists, h)
			w = e.exit(true)
			e = nil
		}
	}()
	if bad != 0 {
		if e != nil {
			e.exit(bad == -2)
		}
		return L(A(bad)), true
	}
	return L(hists...), true
}

var _ = atomic.AddInt64

// ---------- generation ----------

type c03Gen struct {
	r       *Rand
	nkeys   int
	ops     []Sx
	busy    map[int]int // slot -> key
	started map[int]bool
}

func (g *c03Gen) add(x ...Sx) { g.ops = append(g.ops, x...) }

func (g *c03Gen) freeSlot() int {
	for u := 0; u < 4; u++ {
		if _, b := g.busy[u]; !b {
			return u
		}
	}
	return -1
}

func (g *c03Gen) anyBusy() int {
	for u := 0; u < 4; u++ {
		if _, b := g.busy[u]; b && g.r.Bool() {
			return u
		}
	}
	for u := 0; u < 4; u++ {
		if _, b := g.busy[u]; b {
			return u
		}
	}
	return -1
}

func (g *c03Gen) start() int {
	u := g.freeSlot()
	if u < 0 {
		return -1
	}
	k := g.r.Intn(g.nkeys)
	g.busy[u] = k
	g.add(L(A(1), AI(u), AI(k)))
	return u
}

func (g *c03Gen) finish(u int) {
	if u < 0 {
		return
	}
	if g.r.Chance(25) {
		g.add(L(A(2), AI(u), AI(1+g.r.Intn(20))))
	}
	if g.r.Chance(5) {
		g.add(L(A(3), AI(u), AI(g.r.Pick([]int{0, 10}))))
	} else {
		g.add(L(A(4), AI(u)))
	}
	delete(g.busy, u)
}

func (g *c03Gen) whole() { g.finish(g.start()) }

func (g *c03Gen) syncerOp(okp int) {
	switch g.r.Intn(6) {
	case 0, 1:
		g.add(L(A(7), AB(g.r.Chance(okp))))
	case 2, 3:
		if g.r.Chance(okp) {
			g.add(L(A(8), A(1)))
		} else {
			g.add(L(A(8), AI(g.r.Pick([]int{0, 0, 2, 3}))))
		}
	case 4:
		g.add(L(A(9), AI(g.r.Pick([]int{1, 3, 4, 7, 10}))))
	default:
		g.add(L(A(10), AI(g.r.Intn(2))))
	}
}

func (g *c03Gen) reads() {
	if g.r.Bool() {
		g.add(L(A(5), AI(g.r.Intn(g.nkeys))))
	} else {
		ks := []Sx{}
		for k := 0; k < g.nkeys; k++ {
			if g.r.Chance(30) {
				ks = append(ks, AI(k))
			}
		}
		g.add(L(A(6), L(ks...)))
	}
}

// traffic: uploads (some left in flight), occasional reads and syncer steps.
func (g *c03Gen) traffic(n int, okp int) {
	for i := 0; i < n; i++ {
		c := g.r.Intn(100)
		switch {
		case c < 45:
			g.whole()
		case c < 55:
			g.start()
		case c < 65:
			g.finish(g.anyBusy())
		case c < 72:
			g.reads()
		case c < 80:
			g.add(L(A(13)))
		default:
			g.syncerOp(okp)
		}
	}
}

// shutdown: cancel somewhere, then the steps of the final commit interleaved
// with uploads ending/starting at every position.
func (g *c03Gen) shutdown(okp int) {
	g.add(L(A(11)))
	steps := 3 + g.r.Intn(6)
	for i := 0; i < steps; i++ {
		c := g.r.Intn(100)
		switch {
		case c < 22:
			g.finish(g.anyBusy())
		case c < 34:
			g.whole()
		case c < 40:
			g.start()
		case c < 64:
			g.add(L(A(7), AB(g.r.Chance(okp))))
		case c < 82:
			if g.r.Chance(okp) {
				g.add(L(A(8), A(1)))
			} else {
				g.add(L(A(8), AI(g.r.Pick([]int{0, 2, 3}))))
			}
		case c < 90:
			g.add(L(A(9), AI(g.r.Pick([]int{3, 7, 10}))), L(A(10), AI(g.r.Intn(2))))
		default:
			g.reads()
		}
	}
	if g.r.Chance(85) {
		g.add(L(A(12)))
		// after the shutdown completed: everything must be refused
		for i := g.r.Intn(4); i > 0; i-- {
			if g.r.Bool() {
				g.finish(g.anyBusy())
			} else {
				g.whole()
			}
		}
	}
}

func c03GenCfg(r *Rand) (Sx, []Sx, int) {
	bs := r.Pick([]int{32, 48, 64, 64})
	sector := r.Pick([]int{1, 4, 16})
	old, cur, nw := 1+r.Intn(2), 1+r.Intn(2), 1+r.Intn(3)
	mutable := r.Chance(20)
	hier := !mutable && r.Chance(15)
	if mutable {
		nw = 1
	}
	spare := 1 + r.Intn(2)
	cfg := L(AI(bs), AI(old), AI(cur), AI(nw), AB(mutable), AI(spare), AB(hier), AB(r.Chance(30)), AI(sector),
		AI(r.Pick([]int{0, 4, 10})), AI(r.Pick([]int{3, 7})), AB(r.Chance(30)), AI(r.Pick([]int{61, 127, 251})))
	nkeys := 5 + r.Intn(8)
	objs := []Sx{}
	for k := 0; k < nkeys; k++ {
		var size int
		switch r.Intn(6) {
		case 0:
			size = 1 + r.Intn(4)
		case 1:
			size = bs - r.Intn(3)
		default:
			size = bs/4 + r.Intn(bs/3)
		}
		data := make([]byte, size)
		for j := range data {
			data[j] = byte(r.Intn(256))
		}
		data[0] = byte(k) // pairwise distinct
		if size > 1 {
			data[1] = byte(size)
		}
		objs = append(objs, LBytes(data))
	}
	return cfg, objs, nkeys
}

// c03Sweep: one base scenario per group of cases (geometry, objects, traffic
// with uploads left in flight, a commit cycle in progress); within the group
// the shutdown request is inserted at every position of the schedule in turn.
// After it the put loop is driven to termination, the uploads still in flight
// end (they must be refused or covered) and one more upload is attempted.
func c03Sweep(j int, salt uint64) Sx {
	const group = 24
	sub := NewRand((uint64(j/group)+salt*4096)*2654435761 + 99)
	cfg, objs, nkeys := c03GenCfg(sub)
	g := &c03Gen{r: sub, nkeys: nkeys, busy: map[int]int{}}
	g.whole()
	g.traffic(4+sub.Intn(4), 100)
	// a commit cycle whose steps are individually scheduled
	g.start()
	g.add(L(A(9), A(10)), L(A(10), A(1)))
	g.finish(g.anyBusy())
	g.add(L(A(7), A(1)))
	g.start()
	g.add(L(A(8), A(1)))
	g.whole()
	base := g.ops
	pos := (j % group) * (len(base) + 1) / group
	ops := append([]Sx{}, base[:pos]...)
	ops = append(ops, L(A(11)))
	ops = append(ops, base[pos:]...)
	g.ops = ops
	// the steps of the final commit, then whatever is still in flight
	pick := NewRand((uint64(j)+salt*4096)*7919 + 5)
	for k := pick.Intn(4); k > 0; k-- {
		g.add(L(AI(7+pick.Intn(2)), A(1)))
		if pick.Chance(40) {
			g.r = pick
			g.finish(g.anyBusy())
		}
	}
	g.add(L(A(12)))
	g.r = pick
	for len(g.busy) > 0 {
		g.finish(g.anyBusy())
	}
	g.whole()
	return L(cfg, L(objs...), L(L(A(0), L(g.ops...)), L(AI(pick.Intn(9)), L())))
}

// c03Salt distinguishes the sweep groups of different harness processes
// (workers); it is drawn from the first case's generator state.
var c03Salt uint64

func (c03) Gen(r *Rand, i int, tier string) Sx {
	if c03Salt == 0 {
		c03Salt = r.U64()%1000000 + 1
	}
	if i%4 == 3 {
		return c03Sweep(i/4, c03Salt)
	}
	cfg, objsL, nkeys := c03GenCfg(r)
	objs2 := L(objsL...)
	okp := 85
	if r.Chance(40) {
		okp = 100
	}
	hostile := i%10 == 9
	nInc := 2 + r.Intn(2)
	if tier == "thorough" && r.Chance(30) {
		nInc = 4
	}
	incs := []Sx{}
	for n := 0; n < nInc; n++ {
		g := &c03Gen{r: r, nkeys: nkeys, busy: map[int]int{}}
		last := n == nInc-1
		switch {
		case last && !r.Chance(25):
			// read-back only
		case hostile:
			for k := 8 + r.Intn(30); k > 0; k-- {
				switch r.Intn(8) {
				case 0:
					g.add(L(A(11)))
				case 1:
					g.add(L(A(12)))
				case 2, 3:
					g.syncerOp(okp)
				default:
					g.traffic(1, okp)
				}
			}
		default:
			g.traffic(3+r.Intn(14), okp)
			switch c := r.Intn(100); {
			case c < 55:
				g.shutdown(okp)
			case c < 80:
				// commit everything, then a process crash — sometimes after more traffic
				g.add(L(A(13)))
				if r.Chance(35) {
					g.traffic(1+r.Intn(3), okp)
				}
				if r.Chance(30) {
					g.add(L(A(13)))
				}
			default:
				// crash wherever the traffic stopped
			}
		}
		incs = append(incs, L(AI(r.Intn(9)), L(g.ops...)))
	}
	return L(cfg, objs2, L(incs...))
}

func (c03) Class(in, obs Sx) (string, bool) {
	if obs.Len() == 1 && obs.Nth(0).IsAtom {
		return "shutdown/abnormal", true
	}
	// how each incarnation ended (as the monitor sees it), what was at stake
	acks, pops, refused, graceful, ccrash, ucrash, found, lost, inflight, lateAck := 0, 0, 0, 0, 0, 0, 0, 0, 0, 0
	useful := false
	for n, h := range obs.List {
		closed, exited, a := false, false, 0
		lastput, syncStart, syncDone, commit := 0, 0, 0, 0
		syncOK, cancelled := false, false
		cover := map[int64]int{}
		open := 0
		for pos, x := range h.List {
			switch x.Nth(0).Int() {
			case 2:
				pops++
			case 3, 4:
				lastput = pos + 1
				if x.Nth(0).Int() == 3 {
					open++
				} else {
					open--
				}
			case 8:
				syncStart, syncOK = pos+1, false
				if x.Nth(1).Z != 0 {
					closed = true
				}
			case 11:
				if x.Nth(1).Z != 0 {
					syncOK = true
				}
			case 9:
				if syncOK {
					syncDone = syncStart
				}
			case 6:
				cover[x.Nth(1).Z] = syncDone
			case 13:
				if x.Nth(2).Z != 0 && cover[x.Nth(1).Z] > commit {
					commit = cover[x.Nth(1).Z]
				}
			case 17:
				cancelled = true
				if open > 0 {
					inflight++
				}
			case 18:
				exited = true
			case 30:
				r := x.Nth(2)
				if r.Nth(0).Z == 0 {
					if r.Nth(1).Z == 0 {
						a++
						if cancelled && !closed {
							lateAck++
						}
					} else if closed && r.Nth(1).Z == int64(codes.Unavailable) {
						refused++
					}
				}
			case 32:
				if x.Nth(4).Z == 0 {
					found++
				} else {
					lost++
				}
			}
		}
		acks += a
		if n+1 < obs.Len() {
			switch {
			case exited:
				graceful++
			case lastput < commit:
				ccrash++
			default:
				ucrash++
			}
			if a > 0 && (exited || lastput < commit) {
				useful = true
			}
		}
	}
	b := func(n int) string {
		switch {
		case n == 0:
			return "0"
		case n <= 2:
			return "1-2"
		}
		return "3+"
	}
	y := func(n int) string {
		if n > 0 {
			return "1"
		}
		return "0"
	}
	cls := "shutdown/g" + y(graceful) + "-cc" + y(ccrash) + "-uc" + y(ucrash) + "-ack" + b(acks) + "-pop" + b(pops) +
		"-refused" + y(refused) + "-inflight" + y(inflight) + "-late" + y(lateAck) + "-found" + b(found) + "-lost" + y(lost)
	return cls, useful && found > 0
}
