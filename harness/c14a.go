package main

// C14A — sub-check of C14: the Action Cache through grpcclients.NewACBlobAccess
// in front of the real grpcservers.NewActionCacheServer over bufconn, on top of
// a map-backed backend that records the keys it is asked for.  The action
// digests use ALL digest functions the repository supports, several instance
// names, and THE SAME hash and size under functions with equal hash lengths
// (SHA256 / BLAKE3 / SHA256TREE: 64 hex digits; SHA1 / GITSHA1: 40).
//
// Case shape (decoders in coq/Run/R14A.v):
//   (ops), op = (kind inst fn len hi size val)
//   kind: 0 Put through the client           1 Get through the client
//         2 UpdateActionResult on the server 3 GetActionResult on the server
//           (raw requests: the digest_function field may be UNKNOWN or
//            unsupported, the hash length may not fit, the size may be
//            negative, the instance name may be invalid)
//   inst: index into c14aInstances (4 = an invalid name, kinds 2/3 only)
//   fn:   index into c14aFunctions (0 = UNKNOWN, 9 = unsupported; kinds 2/3 only)
//   len:  number of hex digits of the hash; hi: which hash (the first len
//         digits of hex(SHA-512(byte hi))): equal (len, hi) = equal hash
//   val:  the exit code of the ActionResult written
// Observation: (results final)
//   result: (code val reqs): val = exit code returned by a successful Get, else 0;
//           reqs = the requests the backend received during the operation,
//           ((bop inst fn len hi size) ...), bop 0 = Put, 1 = Get
//   final: ((inst fn len hi size val) ...) the backend's contents, sorted

import (
	"context"
	"crypto/sha512"
	"encoding/hex"
	"fmt"
	"net"
	"sort"
	"sync"
	"time"

	remoteexecution "github.com/bazelbuild/remote-apis/build/bazel/remote/execution/v2"
	"github.com/buildbarn/bb-storage/pkg/blobstore"
	"github.com/buildbarn/bb-storage/pkg/blobstore/buffer"
	"github.com/buildbarn/bb-storage/pkg/blobstore/grpcclients"
	"github.com/buildbarn/bb-storage/pkg/blobstore/grpcservers"
	"github.com/buildbarn/bb-storage/pkg/blobstore/slicing"
	"github.com/buildbarn/bb-storage/pkg/digest"

	"google.golang.org/grpc"
	"google.golang.org/grpc/codes"
	"google.golang.org/grpc/credentials/insecure"
	"google.golang.org/grpc/status"
	"google.golang.org/grpc/test/bufconn"
)

func init() {
	props["C14A"] = c14a{}
	// every digest function the repository supports takes part
	for _, f := range digest.SupportedDigestFunctions {
		found := false
		for _, g := range c14aFunctions[1:9] {
			if f == g {
				found = true
			}
		}
		if !found {
			panic(fmt.Sprintf("C14A: digest function %s is not covered by harness/c14a.go", f))
		}
	}
}

type c14a struct{}

var c14aInstances = []string{"", "a", "a/b", "x-y", "a/blobs/b"}
var c14aFunctions = []remoteexecution.DigestFunction_Value{
	remoteexecution.DigestFunction_UNKNOWN,
	remoteexecution.DigestFunction_MD5, remoteexecution.DigestFunction_SHA1, remoteexecution.DigestFunction_SHA256,
	remoteexecution.DigestFunction_SHA384, remoteexecution.DigestFunction_SHA512,
	remoteexecution.DigestFunction_BLAKE3, remoteexecution.DigestFunction_SHA256TREE, remoteexecution.DigestFunction_GITSHA1,
	remoteexecution.DigestFunction_VSO,
}

// hex digits of the hashes of c14aFunctions (Coq: Rpc/ActionCache.v fn_len)
var c14aLen = []int{-1, 32, 40, 64, 96, 128, 64, 64, 40, -1}

const c14aHashes = 8

func c14aHash(hi, n int) string {
	h := sha512.Sum512([]byte{byte(hi)})
	return hex.EncodeToString(h[:])[:n]
}

type c14aOp struct {
	kind, inst, fn, n, hi int
	size, val             int64
}

func c14aParseOp(s Sx) (c14aOp, bool) {
	if s.IsAtom || s.Len() != 7 {
		return c14aOp{}, false
	}
	v := [7]int64{}
	for i := range v {
		x, ok := c14Small(s.Nth(i))
		if !ok {
			return c14aOp{}, false
		}
		v[i] = x
	}
	o := c14aOp{kind: int(v[0]), inst: int(v[1]), fn: int(v[2]), n: int(v[3]), hi: int(v[4]), size: v[5], val: v[6]}
	if v[0] < 0 || v[0] > 3 || v[1] < 0 || v[1] >= int64(len(c14aInstances)) || v[2] < 0 || v[2] >= int64(len(c14aFunctions)) ||
		v[3] < 0 || v[3] > 128 || v[4] < 0 || v[4] >= c14aHashes || v[5] < -(1<<40) || v[5] > 1<<40 || v[6] < 0 || v[6] >= 1<<31 {
		return c14aOp{}, false
	}
	if o.kind <= 1 {
		// the client takes a digest.Digest: a valid instance name, a supported
		// function, a hash of that function's length, a size >= 0
		if o.inst > 3 || o.fn < 1 || o.fn > 8 || o.n != c14aLen[o.fn] || o.size < 0 {
			return c14aOp{}, false
		}
	}
	return o, true
}

// ---------------------------------------------------------------- backend

type c14aBackend struct {
	mu      sync.Mutex
	objects map[string][]byte
	digests map[string]digest.Digest
	reqs    []Sx
}

func c14aIdent(d digest.Digest) []Sx {
	inst, fn, hi := -1, -1, -1
	for i, n := range c14aInstances {
		if n == d.GetInstanceName().String() {
			inst = i
		}
	}
	for i, f := range c14aFunctions {
		if f == d.GetDigestFunction().GetEnumValue() {
			fn = i
		}
	}
	h := d.GetHashString()
	for i := 0; i < c14aHashes; i++ {
		if len(h) <= 128 && c14aHash(i, len(h)) == h {
			hi = i
			break
		}
	}
	return []Sx{AI(inst), AI(fn), AI(len(h)), AI(hi), A(d.GetSizeBytes())}
}

func (b *c14aBackend) GetCapabilities(ctx context.Context, instanceName digest.InstanceName) (*remoteexecution.ServerCapabilities, error) {
	return nil, status.Error(codes.Unimplemented, "n/a")
}

func (b *c14aBackend) Get(ctx context.Context, d digest.Digest) buffer.Buffer {
	b.mu.Lock()
	defer b.mu.Unlock()
	b.reqs = append(b.reqs, L(append([]Sx{A(1)}, c14aIdent(d)...)...))
	data, ok := b.objects[c14fKey(d)]
	if !ok {
		return buffer.NewBufferFromError(status.Error(codes.NotFound, "backend: no such action result"))
	}
	return buffer.NewProtoBufferFromByteSlice(&remoteexecution.ActionResult{}, data, buffer.BackendProvided(func(bool) {}))
}

func (b *c14aBackend) GetFromComposite(ctx context.Context, p, c digest.Digest, s slicing.BlobSlicer) buffer.Buffer {
	return buffer.NewBufferFromError(status.Error(codes.Unimplemented, "n/a"))
}

func (b *c14aBackend) Put(ctx context.Context, d digest.Digest, buf buffer.Buffer) error {
	data, err := buf.ToByteSlice(c14BackendMax)
	b.mu.Lock()
	defer b.mu.Unlock()
	b.reqs = append(b.reqs, L(append([]Sx{A(0)}, c14aIdent(d)...)...))
	if err != nil {
		return err
	}
	b.objects[c14fKey(d)] = append([]byte(nil), data...)
	b.digests[c14fKey(d)] = d
	return nil
}

func (b *c14aBackend) FindMissing(ctx context.Context, ds digest.Set) (digest.Set, error) {
	return digest.EmptySet, status.Error(codes.Unimplemented, "n/a")
}

var _ blobstore.BlobAccess = (*c14aBackend)(nil)

// ---------------------------------------------------------------- Exec

func (c14a) Exec(in Sx) (Sx, bool) {
	if in.IsAtom || in.Len() != 1 || in.Nth(0).IsAtom || in.Nth(0).Len() > 32 {
		return Sx{}, false
	}
	ops := []c14aOp{}
	for _, s := range in.Nth(0).List {
		o, ok := c14aParseOp(s)
		if !ok {
			return Sx{}, false
		}
		ops = append(ops, o)
	}

	be := &c14aBackend{objects: map[string][]byte{}, digests: map[string]digest.Digest{}}
	lis := bufconn.Listen(1 << 20)
	s := grpc.NewServer()
	remoteexecution.RegisterActionCacheServer(s, grpcservers.NewActionCacheServer(be, 1<<20))
	go s.Serve(lis)
	defer s.Stop()
	conn, err := grpc.NewClient("passthrough:///bufnet",
		grpc.WithContextDialer(func(ctx context.Context, _ string) (net.Conn, error) { return lis.DialContext(ctx) }),
		grpc.WithTransportCredentials(insecure.NewCredentials()))
	if err != nil {
		panic(err)
	}
	defer conn.Close()
	client := grpcclients.NewACBlobAccess(conn, 1<<20)
	raw := remoteexecution.NewActionCacheClient(conn)

	res := []Sx{}
	for _, o := range ops {
		ctx, cancel := context.WithTimeout(context.Background(), 20*time.Second)
		be.mu.Lock()
		be.reqs = nil
		be.mu.Unlock()
		hash := c14aHash(o.hi, o.n)
		var err error
		val := int64(0)
		switch o.kind {
		case 0:
			d := digest.MustNewDigest(c14aInstances[o.inst], c14aFunctions[o.fn], hash, o.size)
			err = client.Put(ctx, d, buffer.NewProtoBufferFromProto(&remoteexecution.ActionResult{ExitCode: int32(o.val)}, buffer.UserProvided))
		case 1:
			d := digest.MustNewDigest(c14aInstances[o.inst], c14aFunctions[o.fn], hash, o.size)
			var m interface{}
			m, err = client.Get(ctx, d).ToProto(&remoteexecution.ActionResult{}, 1<<20)
			if err == nil {
				val = int64(m.(*remoteexecution.ActionResult).ExitCode)
			}
		case 2:
			_, err = raw.UpdateActionResult(ctx, &remoteexecution.UpdateActionResultRequest{
				InstanceName: c14aInstances[o.inst], DigestFunction: c14aFunctions[o.fn],
				ActionDigest: &remoteexecution.Digest{Hash: hash, SizeBytes: o.size},
				ActionResult: &remoteexecution.ActionResult{ExitCode: int32(o.val)},
			})
		case 3:
			var ar *remoteexecution.ActionResult
			ar, err = raw.GetActionResult(ctx, &remoteexecution.GetActionResultRequest{
				InstanceName: c14aInstances[o.inst], DigestFunction: c14aFunctions[o.fn],
				ActionDigest: &remoteexecution.Digest{Hash: hash, SizeBytes: o.size},
			})
			if err == nil {
				val = int64(ar.ExitCode)
			}
		}
		cancel()
		be.mu.Lock()
		res = append(res, L(AI(c14Code(err)), A(val), L(be.reqs...)))
		be.mu.Unlock()
	}
	be.mu.Lock()
	final := []Sx{}
	for k, o := range be.objects {
		ar, err := buffer.NewProtoBufferFromByteSlice(&remoteexecution.ActionResult{}, o, buffer.UserProvided).ToProto(&remoteexecution.ActionResult{}, 1<<20)
		v := int64(-1)
		if err == nil {
			v = int64(ar.(*remoteexecution.ActionResult).ExitCode)
		}
		final = append(final, L(append(c14aIdent(be.digests[k]), A(v))...))
	}
	be.mu.Unlock()
	sort.SliceStable(final, func(i, j int) bool {
		for k := 0; k < 5; k++ {
			if final[i].Nth(k).Z != final[j].Nth(k).Z {
				return final[i].Nth(k).Z < final[j].Nth(k).Z
			}
		}
		return false
	})
	return L(L(res...), L(final...)), true
}

// ---------------------------------------------------------------- generation

// the functions whose hashes have n hex digits
func c14aGroup(n int) []int {
	g := []int{}
	for f := 1; f <= 8; f++ {
		if c14aLen[f] == n {
			g = append(g, f)
		}
	}
	return g
}

func (c14a) Gen(r *Rand, i int, tier string) Sx {
	type slot struct {
		n, hi int
		size  int64
	}
	slots := []slot{}
	for k := 1 + r.Intn(2); k > 0; k-- {
		n := []int{64, 64, 64, 64, 64, 40, 40, 40, 32, 96, 128}[r.Intn(11)]
		slots = append(slots, slot{n, r.Intn(3), int64(r.Pick([]int{0, 1, 11, 123, 4096}))})
	}
	insts := c14fPerm(r, 4)[:1+r.Intn(3)]
	if r.Chance(50) {
		insts = insts[:1]
	}
	next := 1
	ops := []Sx{}
	for k := 2 + r.Intn(5); k > 0; k-- {
		s := slots[r.Intn(len(slots))]
		g := c14aGroup(s.n)
		inst := insts[r.Intn(len(insts))]
		fn := g[r.Intn(len(g))]
		size := s.size
		if r.Chance(4) {
			size++
		}
		kind := []int{0, 0, 0, 0, 0, 0, 0, 1, 1, 1, 1, 1, 1, 1, 1, 2, 2, 3, 3, 3}[r.Intn(20)]
		if len(ops) == 0 && r.Chance(70) {
			kind = 0
		}
		if kind == 0 && len(g) > 1 && r.Chance(50) {
			fn = g[1+r.Intn(len(g)-1)] // BLAKE3 / SHA256TREE / GITSHA1
		}
		n := s.n
		if kind >= 2 {
			switch x := r.Intn(100); {
			case x < 45:
				fn = 0
			case x < 52:
				fn = 1 + r.Intn(8) // any function: the hash length may not fit
			case x < 56:
				fn = 9
			}
			if r.Chance(6) {
				n = r.Pick([]int{0, 10, 31, 63, 65, 127})
			}
			if r.Chance(4) {
				size = -1
			}
			if r.Chance(4) {
				inst = 4
			}
		}
		val := 0
		if kind == 0 || kind == 2 {
			val = next
			next++
		}
		ops = append(ops, L(AI(kind), AI(inst), AI(fn), AI(n), AI(s.hi), A(size), AI(val)))
		// a write under a function that shares its hash length with a legacy one is
		// mostly followed by reads of that instance name / hash / size under the
		// functions of that length (client) or without a function (server)
		if g := c14aGroup(s.n); kind == 0 && len(g) > 1 && r.Chance(70) {
			for j := 1 + r.Intn(2); j > 0; j-- {
				if r.Chance(80) {
					ops = append(ops, L(A(1), AI(inst), AI(g[r.Intn(len(g))]), AI(s.n), AI(s.hi), A(size), A(0)))
				} else {
					ops = append(ops, L(A(3), AI(inst), A(0), AI(s.n), AI(s.hi), A(size), A(0)))
				}
			}
		}
	}
	return L(L(ops...))
}

// Class: does the case read a key after a client Put under a function whose
// hash length collides with a legacy function (BLAKE3, SHA256TREE, GITSHA1)?
//
//	twin:   a client Put under such a function, later a Get (client or server)
//	        of the same instance name / hash / size under the same or the
//	        colliding legacy function
//	newfn:  a client Put under such a function, no such Get
//	shared: one (instance, hash, size) under >= 2 functions, legacy functions only
//	plain:  otherwise
func (c14a) Class(in, obs Sx) (string, bool) {
	worst := int64(0)
	rank := 0
	names := []string{"plain", "shared", "newfn", "twin"}
	put := map[string]bool{}
	fns := map[string]map[int64]bool{}
	for i, op := range in.Nth(0).List {
		if c := obs.Nth(0).Nth(i).Nth(0).Z; c != 0 {
			worst = c
		}
		k := fmt.Sprint(op.Nth(1).Z, "/", op.Nth(3).Z, "/", op.Nth(4).Z, "/", op.Nth(5).Z)
		if fns[k] == nil {
			fns[k] = map[int64]bool{}
		}
		fns[k][op.Nth(2).Z] = true
		if len(fns[k]) >= 2 && rank < 1 {
			rank = 1
		}
		kind, fn := op.Nth(0).Z, op.Nth(2).Z
		if kind == 0 && fn >= 6 && fn <= 8 {
			put[k] = true
			if rank < 2 {
				rank = 2
			}
		}
		if (kind == 1 || kind == 3) && put[k] {
			rank = 3
		}
	}
	return "cs-ac/" + names[rank] + "/" + c14Outcome(worst), rank >= 3
}
