package main

// Shared harness for the local-store properties (C01, C04, C05, C08, C10):
// assembles the store from the exported constructors exactly like
// pkg/blobstore/configuration/new_blob_access.go does (volatile block list),
// over a byte-slice block device or the in-memory allocator, and executes a
// schedule of atomic steps: uploads are fed chunk by chunk through a gated
// chunk reader, readers can be held open, the composite-read slicer is gated.

import (
	"context"
	"crypto/sha256"
	"encoding/hex"
	"fmt"
	"io"
	"strings"
	"sync"
	"sync/atomic"
	"time"

	remoteexecution "github.com/bazelbuild/remote-apis/build/bazel/remote/execution/v2"
	"github.com/buildbarn/bb-storage/pkg/blobstore"
	"github.com/buildbarn/bb-storage/pkg/blobstore/buffer"
	"github.com/buildbarn/bb-storage/pkg/blobstore/local"
	"github.com/buildbarn/bb-storage/pkg/blobstore/slicing"
	"github.com/buildbarn/bb-storage/pkg/capabilities"
	"github.com/buildbarn/bb-storage/pkg/clock"
	"github.com/buildbarn/bb-storage/pkg/digest"
	"github.com/buildbarn/bb-storage/pkg/eviction"
	"github.com/buildbarn/bb-storage/pkg/util"
	"github.com/prometheus/client_golang/prometheus"
	dto "github.com/prometheus/client_model/go"

	"google.golang.org/grpc/codes"
	"google.golang.org/grpc/status"
)

// ---------- simulated block device ----------

type stDevice struct {
	lock   sync.Mutex
	data   []byte
	writes int64
}

func (d *stDevice) ReadAt(p []byte, off int64) (int, error) {
	d.lock.Lock()
	defer d.lock.Unlock()
	if off >= int64(len(d.data)) {
		return 0, io.EOF
	}
	n := copy(p, d.data[off:])
	if n < len(p) {
		return n, io.EOF
	}
	return n, nil
}

func (d *stDevice) WriteAt(p []byte, off int64) (int, error) {
	d.lock.Lock()
	defer d.lock.Unlock()
	d.writes++
	if off+int64(len(p)) > int64(len(d.data)) {
		return 0, fmt.Errorf("write beyond device")
	}
	copy(d.data[off:], p)
	return len(p), nil
}
func (d *stDevice) Sync() error  { return nil }
func (d *stDevice) Close() error { return nil }

// stTickClock: every reading is one second later than the previous one.
type stTickClock struct{ t int64 }

func (c *stTickClock) Now() time.Time {
	return time.Unix(1700000000+atomic.AddInt64(&c.t, 1), 0)
}
func (c *stTickClock) NewContextWithTimeout(parent context.Context, timeout time.Duration) (context.Context, context.CancelFunc) {
	panic("stTickClock: not used")
}
func (c *stTickClock) NewTimer(d time.Duration) (clock.Timer, <-chan time.Time) { panic("stTickClock: not used") }
func (c *stTickClock) NewTicker(d time.Duration) (clock.Ticker, <-chan time.Time) {
	panic("stTickClock: not used")
}

// ---------- read buffer factories ----------

// stCountingCASFactory is the real CAS read buffer factory with the data
// integrity callback observed.
type stCountingCASFactory struct{ negs *int64 }

func (f stCountingCASFactory) wrap(cb buffer.DataIntegrityCallback) buffer.DataIntegrityCallback {
	return func(ok bool) {
		if !ok {
			atomic.AddInt64(f.negs, 1)
		}
		cb(ok)
	}
}
func (f stCountingCASFactory) NewBufferFromByteSlice(d digest.Digest, data []byte, cb buffer.DataIntegrityCallback) buffer.Buffer {
	return blobstore.CASReadBufferFactory.NewBufferFromByteSlice(d, data, f.wrap(cb))
}
func (f stCountingCASFactory) NewBufferFromReader(d digest.Digest, r io.ReadCloser, cb buffer.DataIntegrityCallback) buffer.Buffer {
	return blobstore.CASReadBufferFactory.NewBufferFromReader(d, r, f.wrap(cb))
}
func (f stCountingCASFactory) NewBufferFromReaderAt(d digest.Digest, r buffer.ReadAtCloser, sizeBytes int64, cb buffer.DataIntegrityCallback) buffer.Buffer {
	return blobstore.CASReadBufferFactory.NewBufferFromReaderAt(d, r, sizeBytes, f.wrap(cb))
}

// stRawFactory serves whatever is on the medium (no validation), so that
// wrong bytes would be *served*, not rejected.
type stRawFactory struct{}

func (stRawFactory) NewBufferFromByteSlice(d digest.Digest, data []byte, cb buffer.DataIntegrityCallback) buffer.Buffer {
	return buffer.NewValidatedBufferFromByteSlice(data)
}
func (stRawFactory) NewBufferFromReader(d digest.Digest, r io.ReadCloser, cb buffer.DataIntegrityCallback) buffer.Buffer {
	data, err := io.ReadAll(r)
	r.Close()
	if err != nil {
		return buffer.NewBufferFromError(err)
	}
	return buffer.NewValidatedBufferFromByteSlice(data)
}
func (stRawFactory) NewBufferFromReaderAt(d digest.Digest, r buffer.ReadAtCloser, sizeBytes int64, cb buffer.DataIntegrityCallback) buffer.Buffer {
	return buffer.NewValidatedBufferFromReaderAt(r, sizeBytes)
}

// ---------- gated upload source ----------

type stFeed struct {
	data []byte
	err  error // io.EOF or a gRPC error; nil = data chunk
}

type stSource struct {
	waiting chan struct{}
	feed    chan stFeed
	closed  int32
	final   error
}

func newStSource() *stSource {
	return &stSource{waiting: make(chan struct{}, 1), feed: make(chan stFeed)}
}

func (s *stSource) Read() ([]byte, error) {
	if s.final != nil {
		return nil, s.final
	}
	s.waiting <- struct{}{}
	f := <-s.feed
	if f.err != nil {
		s.final = f.err
		return nil, f.err
	}
	return f.data, nil
}
func (s *stSource) Close() { atomic.AddInt32(&s.closed, 1) }

// ---------- gated slicer ----------

type stSlicer struct {
	waiting chan struct{}
	release chan []stSliceSpec
	st      *stStore
	inst    int
}
type stSliceSpec struct {
	obj       int
	off, size int64
}

func (sl *stSlicer) Slice(b buffer.Buffer, childDigest digest.Digest) (buffer.Buffer, []slicing.BlobSlice) {
	sl.waiting <- struct{}{}
	specs := <-sl.release
	data, err := b.ToByteSlice(1 << 20)
	if err != nil {
		return buffer.NewBufferFromError(err), nil
	}
	slices := []slicing.BlobSlice{}
	var child []byte
	for i, sp := range specs {
		if sp.off < 0 || sp.size < 0 || sp.off+sp.size > int64(len(data)) {
			continue
		}
		if i == 0 {
			child = data[sp.off : sp.off+sp.size]
		}
		slices = append(slices, slicing.BlobSlice{Digest: sl.st.digest(sp.obj, sl.inst), OffsetBytes: sp.off, SizeBytes: sp.size})
	}
	return buffer.NewValidatedBufferFromByteSlice(append([]byte(nil), child...)), slices
}

// ---------- lock-discipline probes ----------
//
// Every call into the key-location map and the location-blob map (including
// the invocation of a getter or a put finalizer) is supposed to happen while
// the store's global lock is held.  The probes wrap the two structures as
// they are handed to the blob access; when a call arrives while NOBODY holds
// the lock, a concurrent writer could run at that very point, so the harness
// lets one run there: a burst of complete uploads that rotates the blocks.
// On the unchanged tree no such window exists and the probes never fire (the
// model has no counterpart for them); on a tree that opens a window, the read
// that was under way then returns another object's bytes or a spurious
// integrity error, which the monitors report.

type stProbe struct {
	st   *stStore
	lock *sync.RWMutex
}

func (p *stProbe) window() {
	if p.st.injecting || p.st.ba == nil {
		return
	}
	if p.lock.TryLock() {
		p.lock.Unlock()
		p.st.inject()
	}
}

type stProbeKLM struct {
	inner local.KeyLocationMap
	*stProbe
}

func (k stProbeKLM) Get(key local.Key) (local.Location, error) {
	k.window()
	return k.inner.Get(key)
}
func (k stProbeKLM) Put(key local.Key, l local.Location) error {
	k.window()
	return k.inner.Put(key, l)
}

type stProbeLBM struct {
	inner local.LocationBlobMap
	*stProbe
}

func (l stProbeLBM) Get(loc local.Location) (local.LocationBlobGetter, bool) {
	l.window()
	g, nr := l.inner.Get(loc)
	return func(d digest.Digest) buffer.Buffer {
		l.window()
		return g(d)
	}, nr
}
func (l stProbeLBM) Put(sizeBytes int64) (local.LocationBlobPutWriter, error) {
	l.window()
	w, err := l.inner.Put(sizeBytes)
	if err != nil {
		return nil, err
	}
	return func(b buffer.Buffer) local.LocationBlobPutFinalizer {
		f := w(b) // the copy phase legitimately runs without the lock
		return func() (local.Location, error) {
			l.window()
			return f()
		}
	}, nil
}

// inject runs the adversarial writer: enough complete uploads of the largest
// object that fits a block to rotate every block of the store.
func (st *stStore) inject() {
	st.injecting = true
	defer func() { st.injecting = false }()
	big := -1
	for o, c := range st.objs {
		if len(c) <= st.bs && (big < 0 || len(c) > len(st.objs[big])) {
			big = o
		}
	}
	if big < 0 || len(st.objs[big]) == 0 {
		return
	}
	st.injected++
	for k := 0; k < st.rotations; k++ {
		d := st.digest(big, 0)
		st.ba.Put(context.Background(), d, buffer.NewCASBufferFromByteSlice(d, st.objs[big], buffer.UserProvided))
	}
}

// ---------- the store under test ----------

type stThread struct {
	fed    int // upload: bytes fed so far
	size   int // upload: size announced by the digest
	kind   int // 1 put, 2 get, 3 gfc
	src    *stSource
	done   chan error
	buf    buffer.Buffer
	slicer *stSlicer
	gfcOut chan buffer.Buffer
}

type stStore struct {
	ba        blobstore.BlobAccess
	dev       *stDevice
	blockDev  bool
	hier      bool
	sector    int
	injecting bool
	injected  int
	rotations int
	bs        int
	negs      int64
	objs      [][]byte
	names     []string
	threads   map[int]*stThread
	baseAlloc float64
	baseRel   float64
	baseGS    float64
	baseGC    float64
	label     string
}

type stErrorLogger struct{}

func (stErrorLogger) Log(err error) {}

func stInstanceNames(anc Sx) ([]string, bool) {
	n := anc.Len()
	names := make([]string, n)
	for i := 0; i < n; i++ {
		chain := anc.Nth(i).Ints()
		if len(chain) == 0 || chain[len(chain)-1] != i {
			return nil, false
		}
		if i == 0 {
			if len(chain) != 1 {
				return nil, false
			}
			names[0] = ""
			continue
		}
		if len(chain) < 2 || chain[0] != 0 {
			return nil, false
		}
		parent := chain[len(chain)-2]
		if parent >= i {
			return nil, false
		}
		pc := anc.Nth(parent).Ints()
		if len(pc) != len(chain)-1 {
			return nil, false
		}
		for j := range pc {
			if pc[j] != chain[j] {
				return nil, false
			}
		}
		// Components with dashes: keys have the form <function>-<hash>-<size>-<instance>,
		// so code that splits a key at a dash is only exercised by such names.
		comp := strings.Repeat("a", 1+i%3) + fmt.Sprintf("%d", i/3)
		if i%2 == 0 {
			comp = strings.Repeat("a", 1+i%3) + "-" + fmt.Sprintf("%d", i/3)
		}
		if i <= 3 {
			comp = []string{"", "a", "a-b", "abc"}[i]
		}
		if names[parent] == "" {
			names[i] = comp
		} else {
			names[i] = names[parent] + "/" + comp
		}
	}
	return names, true
}

func (st *stStore) digest(obj, inst int) digest.Digest {
	h := sha256.Sum256(st.objs[obj])
	return digest.MustNewDigest(st.names[inst], remoteexecution.DigestFunction_SHA256, hex.EncodeToString(h[:]), int64(len(st.objs[obj])))
}

var stGatherNames = []string{
	"buildbarn_blobstore_block_device_backed_block_allocator_allocations_total",
	"buildbarn_blobstore_block_device_backed_block_allocator_releases_total",
	"buildbarn_blobstore_block_device_backed_block_allocator_gets_started_total",
	"buildbarn_blobstore_block_device_backed_block_allocator_gets_completed_total",
}

func stCounters(label string) [4]float64 {
	var out [4]float64
	mfs, _ := prometheus.DefaultGatherer.Gather()
	for _, mf := range mfs {
		for k, name := range stGatherNames {
			if mf.GetName() == name {
				for _, m := range mf.Metric {
					if stHasLabel(m, label) {
						out[k] = m.GetCounter().GetValue()
					}
				}
			}
		}
	}
	return out
}

func stHasLabel(m *dto.Metric, v string) bool {
	for _, l := range m.Label {
		if l.GetName() == "storage_type" && l.GetValue() == v {
			return true
		}
	}
	return false
}

func newStStore(cfg, objs, anc Sx) (*stStore, bool) {
	if cfg.Len() < 10 {
		return nil, false
	}
	bs := cfg.Nth(0).Int()
	old, cur, nw := cfg.Nth(1).Int(), cfg.Nth(2).Int(), cfg.Nth(3).Int()
	mutable := cfg.Nth(4).Int() != 0
	nblocks := cfg.Nth(5).Int()
	hier := cfg.Nth(6).Int() != 0
	instKeys := cfg.Nth(7).Int() != 0
	validate := cfg.Nth(8).Int() != 0
	sector := cfg.Nth(9).Int()
	if bs <= 0 || bs > 4096 || old < 0 || cur < 0 || nw < 1 || old > 8 || cur > 8 || nw > 8 || nblocks < 0 || nblocks > 40 || sector < 1 {
		return nil, false
	}
	if nblocks == 0 && validate {
		return nil, false // in-memory blocks are never validated
	}
	if nblocks > 0 && (bs%sector != 0) {
		return nil, false
	}
	if mutable && nw != 1 {
		return nil, false
	}
	names, ok := stInstanceNames(anc)
	if !ok {
		return nil, false
	}
	st := &stStore{bs: bs, threads: map[int]*stThread{}, names: names, label: "verif", hier: hier, sector: sector}
	for _, o := range objs.List {
		if o.IsAtom || o.Len() > bs+8 {
			return nil, false
		}
		st.objs = append(st.objs, o.Bytes())
	}
	// the model identifies objects by number: contents must be pairwise distinct
	for a := range st.objs {
		for b := a + 1; b < len(st.objs); b++ {
			if string(st.objs[a]) == string(st.objs[b]) {
				return nil, false
			}
		}
	}
	var allocator local.BlockAllocator
	if nblocks == 0 {
		allocator = local.NewInMemoryBlockAllocator(bs)
	} else {
		st.blockDev = true
		st.dev = &stDevice{data: make([]byte, bs*nblocks)}
		var f blobstore.ReadBufferFactory = stRawFactory{}
		if validate {
			// wired as new_blob_access.go wires a store with data_integrity_validation_cache: the
			// CAS factory behind the validation-caching decorator.  The cache's duration is zero
			// on a clock that advances with every reading, so no verdict is ever reused (a cached
			// positive verdict would skip validation, which the model does not describe); what is
			// exercised is the decorator's forwarding of the integrity callback.
			f = blobstore.NewValidationCachingReadBufferFactory(stCountingCASFactory{negs: &st.negs},
				digest.NewExistenceCache(&stTickClock{}, digest.KeyWithInstance, 16, 0, eviction.NewLRUSet[string]()))
		}
		allocator = local.NewBlockDeviceBackedBlockAllocator(st.dev, f, sector, int64(bs/sector), nblocks, st.label)
		c := stCounters(st.label)
		st.baseAlloc, st.baseRel, st.baseGS, st.baseGC = c[0], c[1], c[2], c[3]
	}
	blockList := local.NewVolatileBlockList(allocator)
	var policy local.BlockListGrowthPolicy
	if mutable {
		policy = local.NewMutableBlockListGrowthPolicy(cur)
	} else {
		policy = local.NewImmutableBlockListGrowthPolicy(cur, nw)
	}
	lbm := local.NewOldCurrentNewLocationBlobMap(blockList, policy, stErrorLogger{}, st.label, int64(bs), old, nw, 0)
	const tableSize = 9973
	klm := local.NewHashingKeyLocationMap(local.NewInMemoryLocationRecordArray(tableSize, lbm), tableSize, 0x1234567, 16, 64, st.label)
	var lock sync.RWMutex
	st.rotations = old + cur + nw + 2
	probe := &stProbe{st: st, lock: &lock}
	var klmP local.KeyLocationMap = stProbeKLM{inner: klm, stProbe: probe}
	var lbmP local.LocationBlobMap = stProbeLBM{inner: lbm, stProbe: probe}
	if hier {
		st.ba = local.NewHierarchicalCASBlobAccess(klmP, lbmP, &lock, capabilities.NewStaticProvider(&remoteexecution.ServerCapabilities{}))
	} else {
		kf := digest.KeyWithoutInstance
		if instKeys {
			kf = digest.KeyWithInstance
		}
		st.ba = local.NewFlatBlobAccess(klmP, lbmP, kf, &lock, st.label, capabilities.NewStaticProvider(&remoteexecution.ServerCapabilities{}))
	}
	return st, true
}

func stCode(err error) int {
	if err == nil {
		return 0
	}
	return int(status.Code(err))
}

// obs builds (kind code payload negs live open srcclosed writes).
func (st *stStore) obs(kind, code int, payload Sx, negs0 int64, writes0 int64, srcClosed int) Sx {
	live, open, writes := -1, -1, -1
	if st.blockDev {
		c := stCounters(st.label)
		live = int((c[0] - st.baseAlloc) - (c[1] - st.baseRel))
		open = int((c[2] - st.baseGS) - (c[3] - st.baseGC))
		writes = int(atomic.LoadInt64(&st.dev.writes) - writes0)
	}
	return L(AI(kind), AI(code), payload, A(atomic.LoadInt64(&st.negs)-negs0), AI(live), AI(open), AI(srcClosed), AI(writes))
}

func (st *stStore) validObj(o int) bool  { return o >= 0 && o < len(st.objs) }
func (st *stStore) validInst(i int) bool { return i >= 0 && i < len(st.names) }

// step executes one event; ok=false = ill-formed event.
func (st *stStore) step(op Sx) (Sx, bool) {
	ctx := context.Background()
	negs0 := atomic.LoadInt64(&st.negs)
	var writes0 int64
	if st.blockDev {
		writes0 = atomic.LoadInt64(&st.dev.writes)
	}
	done := func(code int, bytes []byte, srcClosed int) (Sx, bool) {
		if code != 0 {
			bytes = nil
		}
		return st.obs(0, code, LBytes(bytes), negs0, writes0, srcClosed), true
	}
	bad := func() (Sx, bool) { return L(A(3)), true }
	parked := func() (Sx, bool) { return st.obs(1, 0, L(), negs0, writes0, -1), true }
	waitPut := func(tid int, t *stThread) (Sx, bool) {
		select {
		case <-t.src.waiting:
			return parked()
		case err := <-t.done:
			delete(st.threads, tid)
			return done(stCode(err), nil, int(atomic.LoadInt32(&t.src.closed)))
		}
	}
	if k := op.Nth(0).Int(); (k == 6 || k == 7) && !st.hier {
		// flat GetFromComposite holds refreshLock while parked in the slicer:
		// an operation that may need it would block; not explored (see Model.v)
		for _, t := range st.threads {
			if t.kind == 3 {
				return bad()
			}
		}
	}
	switch op.Nth(0).Int() {
	case 1: // PutStart tid obj inst
		tid, o, i := op.Nth(1).Int(), op.Nth(2).Int(), op.Nth(3).Int()
		if !st.validObj(o) || !st.validInst(i) {
			return Sx{}, false
		}
		if _, busy := st.threads[tid]; busy {
			return bad()
		}
		t := &stThread{kind: 1, src: newStSource(), done: make(chan error, 1), size: len(st.objs[o])}
		d := st.digest(o, i)
		go func() {
			t.done <- st.ba.Put(ctx, d, buffer.NewCASBufferFromChunkReader(d, t.src, buffer.UserProvided))
		}()
		st.threads[tid] = t
		return waitPut(tid, t)
	case 2: // PutChunk tid bytes
		tid := op.Nth(1).Int()
		t, ok := st.threads[tid]
		if op.Nth(2).IsAtom {
			return Sx{}, false
		}
		if !ok || t.kind != 1 {
			return bad()
		}
		t.fed += op.Nth(2).Len()
		t.src.feed <- stFeed{data: op.Nth(2).Bytes()}
		return waitPut(tid, t)
	case 3: // PutEnd tid err
		tid := op.Nth(1).Int()
		t, ok := st.threads[tid]
		e := op.Nth(2).Int()
		if e < 0 || e > 16 {
			return Sx{}, false
		}
		if !ok || t.kind != 1 {
			return bad()
		}
		if e == 0 {
			t.src.feed <- stFeed{err: io.EOF}
		} else {
			t.src.feed <- stFeed{err: status.Error(codes.Code(e), "source failure")}
		}
		err := <-t.done
		delete(st.threads, tid)
		return done(stCode(err), nil, int(atomic.LoadInt32(&t.src.closed)))
	case 4: // GetOpen tid obj inst
		tid, o, i := op.Nth(1).Int(), op.Nth(2).Int(), op.Nth(3).Int()
		if !st.validObj(o) || !st.validInst(i) {
			return Sx{}, false
		}
		if _, busy := st.threads[tid]; busy {
			return bad()
		}
		b := st.ba.Get(ctx, st.digest(o, i))
		if _, err := b.GetSizeBytes(); err != nil {
			b.Discard()
			return done(stCode(err), nil, -1)
		}
		st.threads[tid] = &stThread{kind: 2, buf: b}
		return parked()
	case 5: // GetConsume tid
		tid := op.Nth(1).Int()
		t, ok := st.threads[tid]
		if !ok || t.kind != 2 {
			return bad()
		}
		delete(st.threads, tid)
		data, err := t.buf.ToByteSlice(1 << 20)
		return done(stCode(err), data, -1)
	case 6: // FindMissing ((obj inst)...)
		sb := digest.NewSetBuilder(0)
		ds := []digest.Digest{}
		for _, e := range op.Nth(1).List {
			o, i := e.Nth(0).Int(), e.Nth(1).Int()
			if !st.validObj(o) || !st.validInst(i) {
				return Sx{}, false
			}
			d := st.digest(o, i)
			// positions must denote distinct digests in the order in which
			// digest.Set iterates (the refresh phase follows that order)
			if len(ds) > 0 && !(ds[len(ds)-1].String() < d.String()) {
				return Sx{}, false
			}
			ds = append(ds, d)
			sb.Add(d)
		}
		missing, err := st.ba.FindMissing(ctx, sb.Build())
		if err != nil {
			return st.obs(2, stCode(err), L(), negs0, writes0, -1), true
		}
		pos := []int{}
		for k, d := range ds {
			for _, m := range missing.Items() {
				if m == d {
					pos = append(pos, k)
				}
			}
		}
		return st.obs(2, 0, LInts(pos), negs0, writes0, -1), true
	case 7: // GfcStart tid parent inst child
		tid, p, i, ch := op.Nth(1).Int(), op.Nth(2).Int(), op.Nth(3).Int(), op.Nth(4).Int()
		if !st.validObj(p) || !st.validObj(ch) || !st.validInst(i) {
			return Sx{}, false
		}
		if _, busy := st.threads[tid]; busy {
			return bad()
		}
		t := &stThread{kind: 3, gfcOut: make(chan buffer.Buffer, 1),
			slicer: &stSlicer{waiting: make(chan struct{}, 1), release: make(chan []stSliceSpec), st: st, inst: i}}
		go func() {
			t.gfcOut <- st.ba.GetFromComposite(ctx, st.digest(p, i), st.digest(ch, i), t.slicer)
		}()
		select {
		case <-t.slicer.waiting:
			st.threads[tid] = t
			return parked()
		case b := <-t.gfcOut:
			data, err := b.ToByteSlice(1 << 20)
			return done(stCode(err), data, -1)
		}
	case 8: // GfcSlice tid ((child off size)...)
		tid := op.Nth(1).Int()
		t, ok := st.threads[tid]
		specs := []stSliceSpec{}
		for _, e := range op.Nth(2).List {
			if !st.validObj(e.Nth(0).Int()) || e.Nth(1).Int() < 0 || e.Nth(2).Int() < 0 {
				return Sx{}, false
			}
			specs = append(specs, stSliceSpec{obj: e.Nth(0).Int(), off: int64(e.Nth(1).Int()), size: int64(e.Nth(2).Int())})
		}
		if !ok || t.kind != 3 {
			return bad()
		}
		delete(st.threads, tid)
		t.slicer.release <- specs
		b := <-t.gfcOut
		data, err := b.ToByteSlice(1 << 20)
		return done(stCode(err), data, -1)
	case 9: // Corrupt region off len
		if !st.blockDev || st.sector != 1 {
			return Sx{}, false
		}
		for _, t := range st.threads {
			if t.kind == 2 || t.kind == 3 {
				return bad() // only while no reader is open (see Model.v)
			}
			if t.kind == 1 && t.size > 0 && t.fed == t.size {
				// The validating chunk reader withholds the chunk that completes the
				// object until the source reports EOF, so that chunk reaches the
				// device later than the model writes it.  Corruption in that window
				// is not explored.
				return Sx{}, false
			}
		}
		r, off, ln := op.Nth(1).Int(), op.Nth(2).Int(), op.Nth(3).Int()
		if r < 0 || off < 0 || ln < 0 || off+ln > st.bs || (r+1)*st.bs > len(st.dev.data) {
			return Sx{}, false
		}
		st.dev.lock.Lock()
		for k := 0; k < ln; k++ {
			st.dev.data[r*st.bs+off+k] ^= 0xff
		}
		st.dev.lock.Unlock()
		return done(0, nil, -1)
	}
	return Sx{}, false
}

// finish releases whatever the case left parked, so goroutines and block
// references do not accumulate across cases.
func (st *stStore) finish() {
	for tid, t := range st.threads {
		switch t.kind {
		case 1:
			t.src.feed <- stFeed{err: status.Error(codes.Canceled, "case over")}
			<-t.done
		case 2:
			t.buf.Discard()
		case 3:
			t.slicer.release <- nil
			(<-t.gfcOut).Discard()
		}
		delete(st.threads, tid)
	}
}

func stExec(in Sx) (Sx, bool) {
	if in.Len() != 4 {
		return Sx{}, false
	}
	st, ok := newStStore(in.Nth(0), in.Nth(1), in.Nth(2))
	if !ok {
		return Sx{}, false
	}
	defer st.finish()
	out := []Sx{}
	for _, op := range in.Nth(3).List {
		o, ok := st.step(op)
		if !ok {
			return Sx{}, false
		}
		out = append(out, o)
	}
	return L(out...), true
}

var _ = util.Must[int]
