package main

// C08Q — sub-check of C08: the quarantine arithmetic of
// OldCurrentNewLocationBlobMap with detections landing INSIDE Put().
//
// The real NewOldCurrentNewLocationBlobMap runs over the real volatile block
// list + block-device-backed allocator (sector size 1, CAS read buffer factory)
// on an in-memory device, behind a BlockList WRAPPER.  Whenever the real
// findBlockWithSpace() calls PopFront() or PushBack(), the wrapper first
// completes the scheduled parked reads (the real buffers handed out by the real
// Get(): a read of a probe whose byte was flipped on the medium fails its CAS
// validation and invokes the real data-integrity callback), then records the
// visibility of one probe object per live block through the real
// HashingKeyLocationMap / InMemoryLocationRecordArray (which ask the real
// BlockReferenceToBlockIndex), then forwards the call.  After every PushBack the
// wrapper stores two 1-byte probes in the fresh block (one intact, one damaged).
// The harness is single-threaded: an "interleaving" is the position at which a
// callback runs.
//
// Input  ((bs old cur new mut pb [init]) ops)      pb must be 2; init = initialBlocksCount
// (absent: 0): the map is constructed with that count and the block list is
// given that many blocks (each with its probes) before the first operation -
// what a restored persistent block list looks like to the blob map.
//   (0 sz hooks) Put   (1 k bad) obtain reader   (2 r) finish reader   (3 w) finalizer
// Observation: see coq/Run/R08Q.v.

import (
	"crypto/sha256"
	"encoding/hex"
	"fmt"
	"strconv"

	remoteexecution "github.com/bazelbuild/remote-apis/build/bazel/remote/execution/v2"
	"github.com/buildbarn/bb-storage/pkg/blobstore"
	"github.com/buildbarn/bb-storage/pkg/blobstore/buffer"
	"github.com/buildbarn/bb-storage/pkg/blobstore/local"
	"github.com/buildbarn/bb-storage/pkg/digest"
)

func init() { props["C08Q"] = c08q{} }

type c08q struct{}

const c08qLabel = "verifq"

// ---------- device that remembers where the last write went ----------

type c08qDevice struct {
	data    []byte
	lastOff int64
}

func (d *c08qDevice) ReadAt(p []byte, off int64) (int, error) {
	if off < 0 || off+int64(len(p)) > int64(len(d.data)) {
		return 0, fmt.Errorf("read beyond device")
	}
	return copy(p, d.data[off:]), nil
}

func (d *c08qDevice) WriteAt(p []byte, off int64) (int, error) {
	if off < 0 || off+int64(len(p)) > int64(len(d.data)) {
		return 0, fmt.Errorf("write beyond device")
	}
	d.lastOff = off
	copy(d.data[off:], p)
	return len(p), nil
}
func (d *c08qDevice) Sync() error  { return nil }
func (d *c08qDevice) Close() error { return nil }

// ---------- error logger: how many blocks each detection asked to release ----------

type c08qLogger struct{ released int64 }

func (l *c08qLogger) Log(err error) {
	msg := err.Error()
	// "... Releasing %d blocks due to a data integrity error"
	for i := 0; i+10 < len(msg); i++ {
		if msg[i:i+10] == "Releasing " {
			n := int64(0)
			for j := i + 10; j < len(msg) && msg[j] >= '0' && msg[j] <= '9'; j++ {
				n = n*10 + int64(msg[j]-'0')
			}
			l.released += n
			return
		}
	}
	l.released += 1 << 40 // unparsable: make it visible
}

// ---------- the world ----------

type c08qWorld struct {
	real   local.BlockList
	dev    *c08qDevice
	lbm    *local.OldCurrentNewLocationBlobMap
	klm    local.KeyLocationMap
	logger *c08qLogger

	live int // blocks in the list
	pops int // PopFront calls so far = absolute index of live block 0

	inPut    bool
	hooks    []Sx
	hookObs  []Sx
	putIndex int

	readers []buffer.Buffer // nil = dead or consumed
	fins    []local.LocationBlobPutFinalizer

	dGood, dBad digest.Digest
}

func c08qDigest(b byte) digest.Digest {
	sum := sha256.Sum256([]byte{b})
	return digest.MustNewDigest("", remoteexecution.DigestFunction_SHA256, hex.EncodeToString(sum[:]), 1)
}

func c08qKey(abs int, bad bool) local.Key {
	if bad {
		return local.NewKeyFromString("b" + strconv.Itoa(abs))
	}
	return local.NewKeyFromString("g" + strconv.Itoa(abs))
}

// snap: visibility of the intact probe of every live block.
func (w *c08qWorld) snap() Sx {
	out := make([]Sx, 0, w.live)
	for i := 0; i < w.live; i++ {
		loc, err := w.klm.Get(c08qKey(w.pops+i, false))
		switch {
		case err != nil:
			out = append(out, AI(0))
		case loc.BlockIndex != i:
			out = append(out, AI(7))
		default:
			out = append(out, AI(1))
		}
	}
	return L(out...)
}

// detect completes the parked read r: (code delta).
func (w *c08qWorld) detect(r int) Sx {
	if r < 0 || r >= len(w.readers) || w.readers[r] == nil {
		return L(AI(-1), AI(0))
	}
	b := w.readers[r]
	w.readers[r] = nil
	before := w.logger.released
	_, err := b.ToByteSlice(64)
	return L(AI(stCode(err)), A(w.logger.released-before))
}

func (w *c08qWorld) hook(kind int) {
	if !w.inPut {
		return
	}
	dets := []Sx{}
	if len(w.hooks) > 0 {
		for _, r := range w.hooks[0].List {
			dets = append(dets, w.detect(r.Int()))
		}
		w.hooks = w.hooks[1:]
	}
	w.hookObs = append(w.hookObs, L(AI(kind), L(dets...), w.snap()))
}

// ---------- the BlockList wrapper handed to the real blob map ----------

type c08qBlockList struct {
	local.BlockList
	w *c08qWorld
}

func (bl *c08qBlockList) PopFront() {
	bl.w.hook(0)
	bl.BlockList.PopFront()
	bl.w.live--
	bl.w.pops++
}

func (bl *c08qBlockList) PushBack() error {
	w := bl.w
	w.hook(1)
	if err := bl.BlockList.PushBack(); err != nil {
		return err
	}
	w.live++
	idx := w.live - 1
	abs := w.pops + idx
	// the intact probe
	off, err := bl.BlockList.Put(idx, 1)(buffer.NewValidatedBufferFromByteSlice([]byte{'G'}))()
	if err != nil {
		panic(err)
	}
	if err := w.klm.Put(c08qKey(abs, false), local.Location{BlockIndex: idx, OffsetBytes: off, SizeBytes: 1}); err != nil {
		panic(err)
	}
	// the probe that gets damaged on the medium right away
	off, err = bl.BlockList.Put(idx, 1)(buffer.NewValidatedBufferFromByteSlice([]byte{'B'}))()
	if err != nil {
		panic(err)
	}
	if w.dev.data[w.dev.lastOff] != 'B' {
		panic("c08q: probe not where expected")
	}
	w.dev.data[w.dev.lastOff] ^= 0xff
	if err := w.klm.Put(c08qKey(abs, true), local.Location{BlockIndex: idx, OffsetBytes: off, SizeBytes: 1}); err != nil {
		panic(err)
	}
	return nil
}

func (bl *c08qBlockList) Put(index int, sizeBytes int64) local.BlockListPutWriter {
	bl.w.putIndex = index
	return bl.BlockList.Put(index, sizeBytes)
}

// ---------- Exec ----------

const (
	c08qMaxOps    = 240
	c08qNumBlocks = 4096
)

func c08qAtoms(s Sx, n int) bool {
	if s.IsAtom || s.Len() != n {
		return false
	}
	for _, x := range s.List {
		if !x.IsAtom {
			return false
		}
	}
	return true
}

func (c08q) Exec(in Sx) (Sx, bool) {
	if in.IsAtom || in.Len() != 2 || !(c08qAtoms(in.Nth(0), 6) || c08qAtoms(in.Nth(0), 7)) || in.Nth(1).IsAtom || in.Nth(1).Len() > c08qMaxOps {
		return Sx{}, false
	}
	cfg := in.Nth(0)
	initial := 0
	if cfg.Len() == 7 {
		if cfg.Nth(6).Z < 0 || cfg.Nth(6).Z > 24 {
			return Sx{}, false
		}
		initial = cfg.Nth(6).Int()
	}
	bs, old, cur, nw, mut, pb := cfg.Nth(0).Int(), cfg.Nth(1).Int(), cfg.Nth(2).Int(), cfg.Nth(3).Int(), cfg.Nth(4).Z, cfg.Nth(5).Int()
	if bs < 4 || bs > 64 || old < 0 || old > 4 || cur < 0 || cur > 4 || nw < 1 || nw > 4 || mut < 0 || mut > 1 || pb != 2 {
		return Sx{}, false
	}
	if mut == 1 && nw != 1 {
		return Sx{}, false
	}
	// validate the ops before touching anything
	for _, o := range in.Nth(1).List {
		if o.IsAtom || o.Len() < 2 || !o.Nth(0).IsAtom || !o.Nth(1).IsAtom {
			return Sx{}, false
		}
		switch o.Nth(0).Z {
		case 0:
			sz := o.Nth(1).Z
			// a blob larger than a fresh block's free space (the probes take pb
			// bytes) but not larger than the block size would rotate forever
			if o.Len() != 3 || sz < 1 || sz > 1000 || (sz > int64(bs-pb) && sz <= int64(bs)) || o.Nth(2).IsAtom || o.Nth(2).Len() > 64 {
				return Sx{}, false
			}
			for _, h := range o.Nth(2).List {
				if h.IsAtom || h.Len() > 8 {
					return Sx{}, false
				}
				for _, r := range h.List {
					if !r.IsAtom || r.Z < 0 || r.Z > 1000 {
						return Sx{}, false
					}
				}
			}
		case 1:
			if !c08qAtoms(o, 3) || o.Nth(1).Z < -1 || o.Nth(1).Z > 1000 || o.Nth(2).Z < 0 || o.Nth(2).Z > 1 {
				return Sx{}, false
			}
		case 2, 3:
			if !c08qAtoms(o, 2) || o.Nth(1).Z < 0 || o.Nth(1).Z > 1000 {
				return Sx{}, false
			}
		default:
			return Sx{}, false
		}
	}

	w := &c08qWorld{logger: &c08qLogger{}, dGood: c08qDigest('G'), dBad: c08qDigest('B')}
	w.dev = &c08qDevice{data: make([]byte, bs*c08qNumBlocks)}
	allocator := local.NewBlockDeviceBackedBlockAllocator(w.dev, blobstore.CASReadBufferFactory, 1, int64(bs), c08qNumBlocks, c08qLabel)
	w.real = local.NewVolatileBlockList(allocator)
	var policy local.BlockListGrowthPolicy
	if mut == 1 {
		policy = local.NewMutableBlockListGrowthPolicy(cur)
	} else {
		policy = local.NewImmutableBlockListGrowthPolicy(cur, nw)
	}
	wbl := &c08qBlockList{BlockList: w.real, w: w}
	w.lbm = local.NewOldCurrentNewLocationBlobMap(wbl, policy, w.logger, c08qLabel, int64(bs), old, nw, initial)
	const tableSize = 9973
	w.klm = local.NewHashingKeyLocationMap(local.NewInMemoryLocationRecordArray(tableSize, w.lbm), tableSize, 0x1234567, 16, 64, c08qLabel)
	// the restored blocks (the constructor only counts them)
	for j := 0; j < initial; j++ {
		if err := wbl.PushBack(); err != nil {
			return Sx{}, false
		}
	}

	obs := []Sx{}
	dead := false
	for _, o := range in.Nth(1).List {
		if dead {
			obs = append(obs, L(AI(-1)))
			continue
		}
		func() {
			defer func() {
				if r := recover(); r != nil {
					// a Go panic inside the real code: the model's outcome -2
					dead = true
					w.inPut = false
					obs = append(obs, L(AI(0), AI(-2), AI(0), L(w.hookObs...), L()))
				}
			}()
			switch o.Nth(0).Z {
			case 0:
				sz := o.Nth(1).Z
				w.hooks = o.Nth(2).List
				w.hookObs = nil
				w.inPut = true
				writer, err := w.lbm.Put(sz)
				w.inPut = false
				code, idx := stCode(err), 0
				if err == nil {
					idx = w.putIndex
					w.fins = append(w.fins, writer(buffer.NewValidatedBufferFromByteSlice(make([]byte, sz))))
				}
				obs = append(obs, L(AI(0), AI(code), AI(idx), L(w.hookObs...), w.snap()))
			case 1:
				k, bad := o.Nth(1).Int(), o.Nth(2).Z == 1
				ok := false
				var b buffer.Buffer
				if k >= 0 && k < w.live {
					if loc, err := w.klm.Get(c08qKey(w.pops+k, bad)); err == nil {
						getter, _ := w.lbm.Get(loc)
						if bad {
							b = getter(w.dBad)
						} else {
							b = getter(w.dGood)
						}
						ok = true
					}
				}
				w.readers = append(w.readers, b)
				obs = append(obs, L(AI(1), AB(ok), w.snap()))
			case 2:
				d := w.detect(o.Nth(1).Int())
				obs = append(obs, L(AI(2), d.Nth(0), d.Nth(1), w.snap()))
			case 3:
				n := o.Nth(1).Int()
				if n >= len(w.fins) {
					obs = append(obs, L(AI(3), AI(-1), AI(0), w.snap()))
				} else {
					loc, err := w.fins[n]()
					idx := 0
					if err == nil {
						idx = loc.BlockIndex
					}
					obs = append(obs, L(AI(3), AI(stCode(err)), AI(idx), w.snap()))
				}
			}
		}()
	}
	for _, b := range w.readers {
		if b != nil {
			b.Discard()
		}
	}
	return L(obs...), true
}

// ---------- Gen ----------

func c08qPut(sz int, hooks ...[]int) Sx {
	hs := make([]Sx, len(hooks))
	for i, h := range hooks {
		hs[i] = LInts(h)
	}
	return L(AI(0), AI(sz), L(hs...))
}

func (c08q) Gen(r *Rand, i int, tier string) Sx {
	bs := r.Pick([]int{8, 16, 32})
	old, cur, nw, mut := r.Intn(4), r.Intn(4), 1+r.Intn(3), 0
	if r.Chance(50) {
		mut, nw = 1, 1
	}
	fill := bs - 2
	capacity := old + cur + nw
	// initialBlocksCount: mostly 0; else below, at and above the configured capacity
	initial := 0
	if r.Chance(25) {
		initial = r.Intn(capacity + 4)
	}
	cfgSx := func() Sx {
		if initial == 0 {
			return L(AI(bs), AI(old), AI(cur), AI(nw), AI(mut), AI(2))
		}
		return L(AI(bs), AI(old), AI(cur), AI(nw), AI(mut), AI(2), AI(initial))
	}
	ops := []Sx{}
	nreaders, nputs := 0, 0
	put := func(sz int, hooks ...[]int) {
		ops = append(ops, c08qPut(sz, hooks...))
		nputs++
	}
	open := func(k int, bad bool) int {
		ops = append(ops, L(AI(1), AI(k), AB(bad)))
		nreaders++
		return nreaders - 1
	}
	if r.Chance(8) {
		// hostile stream
		n := 5 + r.Intn(40)
		for j := 0; j < n; j++ {
			switch r.Intn(8) {
			case 0, 1, 2:
				sz := r.Pick([]int{1, 2, fill, fill - 1, fill / 2, bs + 1})
				nh := r.Intn(5)
				hooks := make([][]int, nh)
				for h := range hooks {
					for q := r.Intn(3); q > 0; q-- {
						hooks[h] = append(hooks[h], r.Intn(nreaders+2))
					}
				}
				put(sz, hooks...)
			case 3, 4:
				open(r.Intn(capacity+3)-1, r.Chance(70))
			case 5, 6:
				ops = append(ops, L(AI(2), AI(r.Intn(nreaders+2))))
			default:
				ops = append(ops, L(AI(3), AI(r.Intn(nputs+2))))
			}
		}
		return L(cfgSx(), L(ops...))
	}
	// structured: reach the steady state, then rounds of
	// readers obtained -> a Put with the detections spread over its block-list calls
	warm := capacity + r.Intn(3)
	if r.Chance(15) {
		warm = r.Intn(capacity + 1)
	}
	if initial > 0 && r.Chance(70) {
		// restored blocks: sometimes straight to the readers, sometimes a short warm-up
		warm = r.Intn(3)
	}
	for j := 0; j < warm; j++ {
		put(fill)
	}
	rounds := 1 + r.Intn(4)
	if tier == "thorough" {
		rounds = 1 + r.Intn(8)
	}
	for round := 0; round < rounds; round++ {
		nr := 1 + r.Intn(3)
		ids := []int{}
		for j := 0; j < nr; j++ {
			ids = append(ids, open(r.Intn(capacity+1), r.Chance(85)))
		}
		if r.Chance(25) {
			put(1 + r.Intn(2)) // a small upload in between (usually no rotation)
		}
		// where each reader finishes: before the Put, at one of its block-list
		// calls (a rotating Put in the steady state makes 2: PushBack, PopFront;
		// more after a quarantine), after the Put, or never
		nh := 2 + r.Intn(3)
		hooks := make([][]int, nh)
		after := []int{}
		for _, id := range ids {
			switch p := r.Intn(10); {
			case p < 1:
				ops = append(ops, L(AI(2), AI(id)))
			case p < 8:
				h := r.Intn(2)
				if r.Chance(20) {
					h = r.Intn(nh)
				}
				hooks[h] = append(hooks[h], id)
			case p < 9:
				after = append(after, id)
			}
		}
		sz := fill
		if r.Chance(10) {
			sz = r.Pick([]int{1, fill / 2, fill - 1, bs + 1})
		}
		put(sz, hooks...)
		for _, id := range after {
			ops = append(ops, L(AI(2), AI(id)))
		}
		if r.Chance(40) {
			ops = append(ops, L(AI(3), AI(r.Intn(nputs))))
		}
		// the next Put()s release the quarantined blocks and refill
		for j := r.Intn(3); j > 0; j-- {
			if r.Chance(30) && nreaders > 0 {
				put(fill, []int{r.Intn(nreaders)})
			} else {
				put(fill)
			}
		}
		if r.Chance(30) {
			ops = append(ops, L(AI(3), AI(r.Intn(nputs))))
		}
	}
	return L(cfgSx(), L(ops...))
}

// Class: where detections landed.
func (c08q) Class(in, obs Sx) (string, bool) {
	if obs.IsAtom || obs.Len() == 0 {
		return "empty", false
	}
	mid, midRot, outside, pops, panicked := 0, 0, 0, 0, false
	for _, o := range obs.List {
		if o.IsAtom || o.Len() < 1 {
			continue
		}
		switch o.Nth(0).Z {
		case 0:
			if o.Len() < 5 {
				continue
			}
			if o.Nth(1).Z == -2 {
				panicked = true
			}
			hs := o.Nth(3).List
			for hi, h := range hs {
				if h.Len() < 3 {
					continue
				}
				if h.Nth(0).Z == 0 {
					pops++
				}
				for _, d := range h.Nth(1).List {
					if d.Len() == 2 && d.Nth(0).Z == 13 {
						mid++
						// is there a PopFront that directly follows a PushBack at or after this hook?
						for j := hi; j < len(hs); j++ {
							if hs[j].Len() >= 1 && hs[j].Nth(0).Z == 0 && j > 0 && hs[j-1].Nth(0).Z == 1 {
								midRot++
								break
							}
						}
					}
				}
			}
		case 2:
			if o.Len() >= 2 && o.Nth(1).Z == 13 {
				outside++
			}
		}
	}
	c := "c08q/"
	switch {
	case panicked:
		c += "panic"
	case midRot > 0:
		c += "mid-rotation"
	case mid > 0:
		c += "mid-put"
	case outside > 0:
		c += "outside"
	default:
		c += "no-detection"
	}
	if pops == 0 {
		c += "/no-pop"
	}
	return c, mid > 0
}
