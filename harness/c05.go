package main

func init() { props["C05"] = stProp{flavor: "c05"} }
