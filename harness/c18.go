package main

import (
	"context"
	"io"
	"sort"
	"strconv"
	"strings"

	remoteexecution "github.com/bazelbuild/remote-apis/build/bazel/remote/execution/v2"
	"github.com/buildbarn/bb-storage/pkg/auth"
	auth_configuration "github.com/buildbarn/bb-storage/pkg/auth/configuration"
	"github.com/buildbarn/bb-storage/pkg/blobstore"
	"github.com/buildbarn/bb-storage/pkg/blobstore/buffer"
	"github.com/buildbarn/bb-storage/pkg/blobstore/slicing"
	"github.com/buildbarn/bb-storage/pkg/digest"
	auth_pb "github.com/buildbarn/bb-storage/pkg/proto/configuration/auth"

	"google.golang.org/grpc/codes"
	"google.golang.org/grpc/status"
)

func init() { props["C18"] = c18{} }

type c18 struct{}

// Input: (get put fm op names).  names is the name alphabet of the case
// (instance name strings as byte lists, pairwise distinct, all accepted by
// digest.NewInstanceName); operations and scripted leaves refer to names by
// index.  A tree is (0 id (verdicts)) = scripted leaf, (1 (members)) = 'any',
// (2 (prefixes)) = the static authorizer of the policy instance_name_prefix,
// built through pkg/auth/configuration's BaseAuthorizerFactory.

// The legacy alphabet: some names are component prefixes of others, "ab" is
// a string-but-not-component extension of "a".
var c18Names = []string{"", "a", "a/b", "ab", "c", "a/b/c"}

// c18Str decodes a byte-list string; ok=false unless every item is an atom
// 1..255.
func c18Str(s Sx) (string, bool) {
	if s.IsAtom {
		return "", false
	}
	b := make([]byte, len(s.List))
	for i, x := range s.List {
		if !x.IsAtom || x.Z < 1 || x.Z > 255 {
			return "", false
		}
		b[i] = byte(x.Z)
	}
	return string(b), true
}

func c18IsNat(s Sx) bool { return s.IsAtom && s.Z >= 0 && s.Z < 1<<30 }

// c18TreeOK accepts exactly the shapes the Coq decoder understands (and ()
// = the scripted leaf 0 with an empty table, as in the corpus).
func c18TreeOK(s Sx, depth int) bool {
	if s.IsAtom || depth > 12 {
		return false
	}
	if len(s.List) == 0 {
		return true
	}
	if !s.List[0].IsAtom {
		return false
	}
	switch s.List[0].Z {
	case 0:
		if len(s.List) != 3 || !c18IsNat(s.List[1]) || s.List[2].IsAtom {
			return false
		}
		for _, v := range s.List[2].List {
			if !c18IsNat(v) {
				return false
			}
		}
		return true
	case 1:
		if len(s.List) != 2 || s.List[1].IsAtom {
			return false
		}
		for _, c := range s.List[1].List {
			if !c18TreeOK(c, depth+1) {
				return false
			}
		}
		return true
	case 2:
		if len(s.List) != 2 || s.List[1].IsAtom {
			return false
		}
		for _, p := range s.List[1].List {
			ps, ok := c18Str(p)
			if !ok {
				return false
			}
			if _, err := digest.NewInstanceName(ps); err != nil {
				return false
			}
		}
		return true
	}
	return false
}

type c18Env struct {
	names []string
	index map[string]int
	log   []c18Call
}

type c18Call struct {
	id    int
	names []int
}

type c18Leaf struct {
	id  int
	tbl []int
	env *c18Env
}

func (l *c18Leaf) Authorize(ctx context.Context, instanceNames []digest.InstanceName) []error {
	errs := make([]error, 0, len(instanceNames))
	names := make([]int, 0, len(instanceNames))
	for _, in := range instanceNames {
		i, found := l.env.index[in.String()]
		if !found {
			i = -1
		}
		names = append(names, i)
		v := 7
		if i >= 0 && i < len(l.tbl) {
			v = l.tbl[i]
		}
		if v == 0 {
			errs = append(errs, nil)
		} else {
			errs = append(errs, status.Error(codes.Code(v), "verdict "+strconv.Itoa(v)))
		}
	}
	l.env.log = append(l.env.log, c18Call{id: l.id, names: names})
	return errs
}

// c18Build builds the real authorizer of a (validated) tree.  The prefix
// leaf goes through the configuration factory, exactly like a
// bb_storage configuration with instance_name_prefix would (no group and
// no gRPC client factory are needed for this policy).
func c18Build(s Sx, env *c18Env) (auth.Authorizer, bool) {
	switch s.Nth(0).Int() {
	case 0:
		return &c18Leaf{id: s.Nth(1).Int(), tbl: s.Nth(2).Ints(), env: env}, true
	case 2:
		ps := []string{}
		for _, p := range s.Nth(1).List {
			x, _ := c18Str(p)
			ps = append(ps, x)
		}
		a, err := auth_configuration.BaseAuthorizerFactory{}.NewAuthorizerFromConfiguration(
			&auth_pb.AuthorizerConfiguration{
				Policy: &auth_pb.AuthorizerConfiguration_InstanceNamePrefix{
					InstanceNamePrefix: &auth_pb.InstanceNameAuthorizer{AllowedInstanceNamePrefixes: ps},
				},
			}, nil, nil)
		if err != nil {
			return nil, false
		}
		return a, true
	}
	var ms []auth.Authorizer
	for _, c := range s.Nth(1).List {
		m, ok := c18Build(c, env)
		if !ok {
			return nil, false
		}
		ms = append(ms, m)
	}
	return auth.NewAnyAuthorizer(ms), true
}

type c18Backend struct {
	calls   int
	gotBuf  bool
}

func (b *c18Backend) GetCapabilities(ctx context.Context, instanceName digest.InstanceName) (*remoteexecution.ServerCapabilities, error) {
	return nil, status.Error(codes.Unimplemented, "n/a")
}
func (b *c18Backend) Get(ctx context.Context, d digest.Digest) buffer.Buffer {
	b.calls++
	return buffer.NewBufferFromError(status.Error(codes.NotFound, "backend"))
}
func (b *c18Backend) GetFromComposite(ctx context.Context, p, c digest.Digest, s slicing.BlobSlicer) buffer.Buffer {
	b.calls++
	return buffer.NewBufferFromError(status.Error(codes.NotFound, "backend"))
}
func (b *c18Backend) Put(ctx context.Context, d digest.Digest, buf buffer.Buffer) error {
	b.calls++
	b.gotBuf = true
	buf.Discard()
	return nil
}
func (b *c18Backend) FindMissing(ctx context.Context, ds digest.Set) (digest.Set, error) {
	b.calls++
	return digest.EmptySet, nil
}

type countingReadCloser struct {
	r      io.Reader
	closed *int
}

func (c countingReadCloser) Read(p []byte) (int, error) { return c.r.Read(p) }
func (c countingReadCloser) Close() error                { *c.closed++; return nil }

const c18Hash = "8b1a9953c4611296a827abf8c47804d7"

func c18Digest(name string, i int) digest.Digest {
	h := []byte(c18Hash)
	h[len(h)-1] = "0123456789abcdef"[i%16]
	h[len(h)-2] = "0123456789abcdef"[(i/16)%16]
	return digest.MustNewDigest(name, remoteexecution.DigestFunction_MD5, string(h), 5)
}

func (c18) Exec(in Sx) (Sx, bool) {
	if in.IsAtom || in.Len() != 5 || in.Nth(4).IsAtom || in.Nth(3).IsAtom {
		return Sx{}, false
	}
	env := &c18Env{index: map[string]int{}}
	for i, n := range in.Nth(4).List {
		name, ok := c18Str(n)
		if !ok {
			return Sx{}, false
		}
		if _, err := digest.NewInstanceName(name); err != nil {
			return Sx{}, false
		}
		if _, dup := env.index[name]; dup {
			return Sx{}, false
		}
		env.index[name] = i
		env.names = append(env.names, name)
	}
	// every name index of the operation must be an atom inside the alphabet
	opS := in.Nth(3)
	if opS.Len() < 2 || !opS.Nth(0).IsAtom {
		return Sx{}, false
	}
	var idx []Sx
	switch opS.Nth(0).Z {
	case 0, 2:
		if opS.Len() != 2 {
			return Sx{}, false
		}
		idx = opS.List[1:2]
	case 1:
		if opS.Len() != 3 {
			return Sx{}, false
		}
		idx = opS.List[1:3]
	case 3:
		if opS.Len() != 2 || opS.Nth(1).IsAtom || opS.Nth(1).Len() > 200 {
			return Sx{}, false
		}
		idx = opS.Nth(1).List
	default:
		return Sx{}, false
	}
	for _, x := range idx {
		if !x.IsAtom || x.Z < 0 || x.Z >= int64(len(env.names)) {
			return Sx{}, false
		}
	}
	for k := 0; k < 3; k++ {
		if !c18TreeOK(in.Nth(k), 0) {
			return Sx{}, false
		}
	}
	get, ok1 := c18Build(in.Nth(0), env)
	put, ok2 := c18Build(in.Nth(1), env)
	fm, ok3 := c18Build(in.Nth(2), env)
	if !ok1 || !ok2 || !ok3 {
		return Sx{}, false
	}
	name := func(s Sx) string { return env.names[s.Int()] }
	backend := &c18Backend{}
	ba := blobstore.NewAuthorizingBlobAccess(backend, get, put, fm)
	ctx := context.Background()
	op := in.Nth(3)
	var err error
	bufState := 0
	switch op.Nth(0).Int() {
	case 0:
		_, err = ba.Get(ctx, c18Digest(name(op.Nth(1)), 0)).ToByteSlice(100)
	case 1:
		_, err = ba.GetFromComposite(ctx, c18Digest(name(op.Nth(1)), 0), c18Digest(name(op.Nth(2)), 1), nil).ToByteSlice(100)
	case 2:
		closed := 0
		d := c18Digest(name(op.Nth(1)), 0)
		b := buffer.NewCASBufferFromReader(d, countingReadCloser{r: &emptyReader{}, closed: &closed}, buffer.UserProvided)
		err = ba.Put(ctx, d, b)
		switch {
		case backend.gotBuf && closed == 1:
			bufState = 1
		case !backend.gotBuf && closed == 1:
			bufState = 2
		default:
			bufState = 3
		}
	case 3:
		sb := digest.NewSetBuilder(0)
		for i, n := range op.Nth(1).List {
			sb.Add(c18Digest(name(n), i))
		}
		_, err = ba.FindMissing(ctx, sb.Build())
	default:
		return Sx{}, false
	}
	forwarded := backend.calls == 1
	if backend.calls > 1 {
		return L(A(-2)), true
	}
	code := 0
	if !forwarded {
		code = int(status.Code(err))
	}
	calls := []Sx{}
	for _, c := range env.log {
		ns := append([]int(nil), c.names...)
		if op.Nth(0).Int() == 3 {
			sort.Ints(ns)
		}
		calls = append(calls, L(AI(c.id), LInts(ns)))
	}
	return L(AB(forwarded), AI(code), AI(bufState), L(calls...)), true
}

type emptyReader struct{}

func (emptyReader) Read(p []byte) (int, error) { return 0, io.EOF }

var c18Verdicts = []int{0, 0, 7, 7, 7, 13, 14, 16}

func c18GenLeaf(r *Rand, nextID *int, nNames int) Sx {
	id := *nextID
	*nextID++
	tbl := make([]int, nNames)
	for i := range tbl {
		tbl[i] = r.Pick(c18Verdicts)
	}
	return L(A(0), AI(id), LInts(tbl))
}

// c18GenTree: leaf() yields a leaf (scripted or prefix).
func c18GenTree(r *Rand, depth int, leaf func() Sx) Sx {
	if depth == 0 || r.Chance(45) {
		return leaf()
	}
	n := r.Pick([]int{0, 1, 2, 2, 3, 3, 4})
	ch := []Sx{}
	for i := 0; i < n; i++ {
		ch = append(ch, c18GenTree(r, depth-1, leaf))
	}
	return L(A(1), L(ch...))
}

func c18StrList(xs []string) Sx {
	out := []Sx{}
	for _, x := range xs {
		out = append(out, LStr(x))
	}
	return L(out...)
}

// Components for generated prefixes and names: pairs that share a string
// prefix without being equal (prod/production/pro, team/teams, a/ab).
var c18Comps = []string{"team", "teams", "prod", "production", "pro", "dev", "a", "ab", "b", "c", "x"}

// near miss of a component: a string extension or truncation.
func c18NearComp(r *Rand, c string) string {
	switch c {
	case "prod":
		return []string{"production", "pro"}[r.Intn(2)]
	case "production":
		return "prod"
	case "team":
		return "teams"
	case "teams":
		return "team"
	case "a":
		return "ab"
	case "ab":
		return "a"
	}
	if r.Bool() || len(c) < 2 {
		return c + "x"
	}
	return c[:len(c)-1]
}

func c18RandPath(r *Rand, maxLen int) []string {
	n := r.Intn(maxLen + 1)
	p := make([]string, n)
	for i := range p {
		p[i] = c18Comps[r.Intn(len(c18Comps))]
	}
	return p
}

func c18Join(p []string) string { return strings.Join(p, "/") }

// c18GenPrefixSet: allowed prefixes of one instance_name_prefix leaf, drawn
// around a base path: the base, ancestors, children, siblings sharing a
// string prefix, the empty name (rarely: it allows everything), random paths.
func c18GenPrefixSet(r *Rand, base []string) [][]string {
	k := r.Pick([]int{0, 1, 1, 1, 2, 2, 2, 3, 3, 4})
	out := [][]string{}
	for i := 0; i < k; i++ {
		var p []string
		switch r.Pick([]int{0, 0, 0, 1, 2, 2, 3, 3, 4, 5, 6}) {
		case 0:
			p = append(p, base...)
		case 1:
			if len(base) > 0 {
				p = append(p, base[:r.Intn(len(base))]...)
				if len(p) == 0 && r.Chance(70) {
					p = append(p, base...)
				}
			}
		case 2:
			p = append(append(p, base...), c18Comps[r.Intn(len(c18Comps))])
		case 3:
			if len(base) > 0 {
				p = append(p, base...)
				p[len(p)-1] = c18NearComp(r, p[len(p)-1])
			}
		case 4:
			p = c18RandPath(r, 3)
		case 5:
			if r.Chance(40) {
				p = []string{} // the empty prefix: allow all
			} else {
				p = append(p, base...)
			}
		case 6:
			p = append(append(p, base...), c18RandPath(r, 2)...)
		}
		out = append(out, p)
	}
	return out
}

// c18NamesAround: request names around the allowed prefixes: the empty name,
// every prefix itself, strict ancestors, descendants, near misses (last or an
// inner component string-extended/truncated, sibling), unrelated names.
func c18NamesAround(r *Rand, prefixes [][]string, want int) []string {
	seen := map[string]bool{}
	out := []string{}
	add := func(p []string) {
		s := c18Join(p)
		if !seen[s] && len(out) < want {
			seen[s] = true
			out = append(out, s)
		}
	}
	if r.Chance(60) {
		add(nil)
	}
	for tries := 0; tries < 40 && len(out) < want; tries++ {
		var p []string
		if len(prefixes) > 0 {
			p = append(p, prefixes[r.Intn(len(prefixes))]...)
		}
		switch r.Pick([]int{0, 0, 1, 1, 1, 1, 2, 2, 3, 3, 3, 4, 5, 6}) {
		case 0: // the prefix itself
		case 1: // strict ancestor (non-empty when possible)
			for k := 0; k < 4 && len(p) < 2 && len(prefixes) > 0; k++ {
				p = append([]string(nil), prefixes[r.Intn(len(prefixes))]...)
			}
			if len(p) > 1 {
				p = p[:1+r.Intn(len(p)-1)]
			} else {
				p = nil
			}
		case 2: // descendant
			p = append(p, c18Comps[r.Intn(len(c18Comps))])
			if r.Chance(30) {
				p = append(p, c18Comps[r.Intn(len(c18Comps))])
			}
		case 3: // near miss in the last component
			if len(p) > 0 {
				p[len(p)-1] = c18NearComp(r, p[len(p)-1])
			}
		case 4: // near miss in some component, plus a descendant
			if len(p) > 0 {
				j := r.Intn(len(p))
				p[j] = c18NearComp(r, p[j])
				if r.Bool() {
					p = append(p, c18Comps[r.Intn(len(c18Comps))])
				}
			}
		case 5: // sibling
			if len(p) > 0 {
				p[len(p)-1] = c18Comps[r.Intn(len(c18Comps))]
			}
		case 6:
			p = c18RandPath(r, 3)
		}
		add(p)
	}
	if len(out) == 0 {
		add(nil)
	}
	return out
}

func c18GenOp(r *Rand, nn int) Sx {
	switch r.Intn(4) {
	case 0:
		return L(A(0), AI(r.Intn(nn)))
	case 1:
		return L(A(1), AI(r.Intn(nn)), AI(r.Intn(nn)))
	case 2:
		return L(A(2), AI(r.Intn(nn)))
	}
	k := r.Intn(6)
	ns := make([]int, k)
	for j := range ns {
		ns[j] = r.Intn(nn)
	}
	return L(A(3), LInts(ns))
}

func (c18) Gen(r *Rand, i int, tier string) Sx {
	id := 0
	depth := 3
	if tier == "thorough" {
		depth = 4
	}
	if r.Chance(40) {
		// scripted leaves only, over the legacy alphabet
		nn := len(c18Names)
		leaf := func() Sx { return c18GenLeaf(r, &id, nn) }
		g := c18GenTree(r, depth, leaf)
		p := c18GenTree(r, depth, leaf)
		f := c18GenTree(r, depth, leaf)
		return L(g, p, f, c18GenOp(r, nn), c18StrList(c18Names))
	}
	// Trees with instance_name_prefix leaves.  First fix the prefix sets (so
	// that the name alphabet can be chosen around them), then the trees.
	base := c18RandPath(r, 2)
	base = append(base, c18Comps[r.Intn(len(c18Comps))])
	if r.Chance(50) {
		base = []string{"team", "prod"}
		if r.Chance(40) {
			base = append(base, c18Comps[r.Intn(len(c18Comps))])
		}
	}
	nsets := 1 + r.Intn(4)
	sets := make([][][]string, nsets)
	all := [][]string{}
	for k := range sets {
		sets[k] = c18GenPrefixSet(r, base)
		all = append(all, sets[k]...)
	}
	if len(all) == 0 || r.Chance(15) {
		all = append(all, base)
	}
	names := c18NamesAround(r, all, 5+r.Intn(4))
	nn := len(names)
	nextSet := 0
	prefixLeaf := func() Sx {
		s := sets[nextSet%nsets]
		nextSet++
		ps := make([]string, len(s))
		for k, p := range s {
			ps[k] = c18Join(p)
		}
		return L(A(2), c18StrList(ps))
	}
	kind := r.Intn(10)
	var leaf func() Sx
	mk := func() Sx { return c18GenTree(r, depth, leaf) }
	switch {
	case kind < 3: // a bare prefix authorizer per operation kind, as configurations have it
		leaf = prefixLeaf
		mk = prefixLeaf
	case kind < 6: // 'any' over prefix authorizers only
		leaf = prefixLeaf
	default: // mixed with scripted leaves: an 'any' at the top in most cases
		leaf = func() Sx {
			if r.Chance(55) {
				return prefixLeaf()
			}
			return c18GenLeaf(r, &id, nn)
		}
		mk = func() Sx {
			if r.Chance(25) {
				return c18GenTree(r, depth, leaf)
			}
			n := 2 + r.Intn(3)
			ch := []Sx{}
			for k := 0; k < n; k++ {
				ch = append(ch, c18GenTree(r, depth-1, leaf))
			}
			return L(A(1), L(ch...))
		}
	}
	g := mk()
	p := mk()
	f := mk()
	return L(g, p, f, c18GenOp(r, nn), c18StrList(names))
}

func c18Depth(s Sx) int {
	if s.Nth(0).Int() != 1 {
		return 0
	}
	d := 0
	for _, c := range s.Nth(1).List {
		if x := c18Depth(c); x > d {
			d = x
		}
	}
	return d + 1
}

// c18Leaves counts scripted and prefix leaves and collects the allowed prefixes.
func c18Leaves(s Sx, scripted, prefix *int, ps *[]string) {
	switch s.Nth(0).Int() {
	case 1:
		for _, c := range s.Nth(1).List {
			c18Leaves(c, scripted, prefix, ps)
		}
	case 2:
		*prefix++
		for _, p := range s.Nth(1).List {
			x, _ := c18Str(p)
			*ps = append(*ps, x)
		}
	default:
		*scripted++
	}
}

func c18CompPrefix(p, n string) bool {
	return p == "" || n == p || strings.HasPrefix(n, p+"/")
}

// Class: <op>/depth<d>/<result>/<leaves>[/<rel>] where <leaves> is scripted,
// static (prefix leaves only) or mixed, and <rel> relates the involved names
// to the allowed prefixes of the tree: "anc" = some involved name is not
// covered and is a non-empty strict ancestor of an allowed prefix (it ends at
// an interior node of the trie), "near" = some involved name is not covered
// but extends an allowed prefix as a string, "uncov" = some name is not
// covered otherwise, "cov" = every involved name is covered.
func (c18) Class(in, obs Sx) (string, bool) {
	op := in.Nth(3).Nth(0).Int()
	if op < 0 || op > 3 {
		return "bad", false
	}
	t := in.Nth([]int{0, 0, 1, 2}[op])
	res := "rejected-denied"
	if obs.Nth(0).Int() == 1 {
		res = "forwarded"
	} else if obs.Nth(1).Int() != 7 {
		res = "rejected-failure"
	}
	d := c18Depth(t)
	var nScripted, nPrefix int
	var ps []string
	c18Leaves(t, &nScripted, &nPrefix, &ps)
	cls := []string{"get", "composite", "put", "findmissing"}[op] + "/depth" + strconv.Itoa(d) + "/" + res
	if nPrefix == 0 {
		return cls + "/scripted", d >= 1
	}
	if nScripted == 0 {
		cls += "/static"
	} else {
		cls += "/mixed"
	}
	var involved []Sx
	switch op {
	case 0, 1, 2:
		involved = []Sx{in.Nth(3).Nth(1)}
	default:
		involved = in.Nth(3).Nth(1).List
	}
	rank := 0
	for _, x := range involved {
		name, _ := c18Str(in.Nth(4).Nth(x.Int()))
		covered, anc, near := false, false, false
		for _, p := range ps {
			if c18CompPrefix(p, name) {
				covered = true
			}
			if name != "" && p != name && c18CompPrefix(name, p) {
				anc = true
			}
			if p != "" && strings.HasPrefix(name, p) {
				near = true
			}
		}
		k := 0
		switch {
		case covered:
		case anc:
			k = 3
		case near:
			k = 2
		default:
			k = 1
		}
		if k > rank {
			rank = k
		}
	}
	return cls + "/" + []string{"cov", "uncov", "near", "anc"}[rank], true
}
