package main

import (
	"context"
	"io"
	"sort"
	"strconv"

	remoteexecution "github.com/bazelbuild/remote-apis/build/bazel/remote/execution/v2"
	"github.com/buildbarn/bb-storage/pkg/auth"
	"github.com/buildbarn/bb-storage/pkg/blobstore"
	"github.com/buildbarn/bb-storage/pkg/blobstore/buffer"
	"github.com/buildbarn/bb-storage/pkg/blobstore/slicing"
	"github.com/buildbarn/bb-storage/pkg/digest"
	"github.com/buildbarn/bb-storage/pkg/util"

	"google.golang.org/grpc/codes"
	"google.golang.org/grpc/status"
)

func init() { props["C18"] = c18{} }

type c18 struct{}

// names 0..5 -> instance names; chosen so that some are component prefixes
// of others (irrelevant to authorizers, which see opaque names).
var c18Names = []string{"", "a", "a/b", "ab", "c", "a/b/c"}

func c18Name(i int) digest.InstanceName {
	return util.Must(digest.NewInstanceName(c18Names[i%len(c18Names)]))
}

func c18NameIndex(in digest.InstanceName) int {
	s := in.String()
	for i, n := range c18Names {
		if n == s {
			return i
		}
	}
	return -1
}

type c18Call struct {
	id    int
	names []int
}

type c18Leaf struct {
	id  int
	tbl []int
	log *[]c18Call
}

func (l *c18Leaf) Authorize(ctx context.Context, instanceNames []digest.InstanceName) []error {
	errs := make([]error, 0, len(instanceNames))
	names := make([]int, 0, len(instanceNames))
	for _, in := range instanceNames {
		i := c18NameIndex(in)
		names = append(names, i)
		v := 7
		if i >= 0 && i < len(l.tbl) {
			v = l.tbl[i]
		}
		if v == 0 {
			errs = append(errs, nil)
		} else {
			errs = append(errs, status.Error(codes.Code(v), "verdict "+strconv.Itoa(v)))
		}
	}
	*l.log = append(*l.log, c18Call{id: l.id, names: names})
	return errs
}

func c18Build(s Sx, log *[]c18Call) auth.Authorizer {
	if s.Nth(0).Int() == 0 {
		return &c18Leaf{id: s.Nth(1).Int(), tbl: s.Nth(2).Ints(), log: log}
	}
	var ms []auth.Authorizer
	for _, c := range s.Nth(1).List {
		ms = append(ms, c18Build(c, log))
	}
	return auth.NewAnyAuthorizer(ms)
}

type c18Backend struct {
	calls   int
	gotBuf  bool
}

func (b *c18Backend) GetCapabilities(ctx context.Context, instanceName digest.InstanceName) (*remoteexecution.ServerCapabilities, error) {
	return nil, status.Error(codes.Unimplemented, "n/a")
}
func (b *c18Backend) Get(ctx context.Context, d digest.Digest) buffer.Buffer {
	b.calls++
	return buffer.NewBufferFromError(status.Error(codes.NotFound, "backend"))
}
func (b *c18Backend) GetFromComposite(ctx context.Context, p, c digest.Digest, s slicing.BlobSlicer) buffer.Buffer {
	b.calls++
	return buffer.NewBufferFromError(status.Error(codes.NotFound, "backend"))
}
func (b *c18Backend) Put(ctx context.Context, d digest.Digest, buf buffer.Buffer) error {
	b.calls++
	b.gotBuf = true
	buf.Discard()
	return nil
}
func (b *c18Backend) FindMissing(ctx context.Context, ds digest.Set) (digest.Set, error) {
	b.calls++
	return digest.EmptySet, nil
}

type countingReadCloser struct {
	r      io.Reader
	closed *int
}

func (c countingReadCloser) Read(p []byte) (int, error) { return c.r.Read(p) }
func (c countingReadCloser) Close() error                { *c.closed++; return nil }

const c18Hash = "8b1a9953c4611296a827abf8c47804d7"

func c18Digest(name int, i int) digest.Digest {
	h := []byte(c18Hash)
	h[len(h)-1] = "0123456789abcdef"[i%16]
	return digest.MustNewDigest(c18Names[name%len(c18Names)], remoteexecution.DigestFunction_MD5, string(h), 5)
}

func (c18) Exec(in Sx) (Sx, bool) {
	if in.Len() != 4 {
		return Sx{}, false
	}
	var log []c18Call
	get := c18Build(in.Nth(0), &log)
	put := c18Build(in.Nth(1), &log)
	fm := c18Build(in.Nth(2), &log)
	backend := &c18Backend{}
	ba := blobstore.NewAuthorizingBlobAccess(backend, get, put, fm)
	ctx := context.Background()
	op := in.Nth(3)
	var err error
	bufState := 0
	switch op.Nth(0).Int() {
	case 0:
		_, err = ba.Get(ctx, c18Digest(op.Nth(1).Int(), 0)).ToByteSlice(100)
	case 1:
		_, err = ba.GetFromComposite(ctx, c18Digest(op.Nth(1).Int(), 0), c18Digest(op.Nth(2).Int(), 1), nil).ToByteSlice(100)
	case 2:
		closed := 0
		d := c18Digest(op.Nth(1).Int(), 0)
		b := buffer.NewCASBufferFromReader(d, countingReadCloser{r: &emptyReader{}, closed: &closed}, buffer.UserProvided)
		err = ba.Put(ctx, d, b)
		switch {
		case backend.gotBuf && closed == 1:
			bufState = 1
		case !backend.gotBuf && closed == 1:
			bufState = 2
		default:
			bufState = 3
		}
	case 3:
		sb := digest.NewSetBuilder(0)
		for i, n := range op.Nth(1).List {
			sb.Add(c18Digest(n.Int(), i))
		}
		_, err = ba.FindMissing(ctx, sb.Build())
	default:
		return Sx{}, false
	}
	forwarded := backend.calls == 1
	if backend.calls > 1 {
		return L(A(-2)), true
	}
	code := 0
	if !forwarded {
		code = int(status.Code(err))
	}
	calls := []Sx{}
	for _, c := range log {
		ns := append([]int(nil), c.names...)
		if op.Nth(0).Int() == 3 {
			sort.Ints(ns)
		}
		calls = append(calls, L(AI(c.id), LInts(ns)))
	}
	return L(AB(forwarded), AI(code), AI(bufState), L(calls...)), true
}

type emptyReader struct{}

func (emptyReader) Read(p []byte) (int, error) { return 0, io.EOF }

var c18Verdicts = []int{0, 0, 7, 7, 7, 13, 14, 16}

func c18GenTree(r *Rand, depth int, nextID *int) Sx {
	if depth == 0 || r.Chance(45) {
		id := *nextID
		*nextID++
		tbl := make([]int, len(c18Names))
		for i := range tbl {
			tbl[i] = r.Pick(c18Verdicts)
		}
		return L(A(0), AI(id), LInts(tbl))
	}
	n := r.Pick([]int{0, 1, 2, 2, 3, 3, 4})
	ch := []Sx{}
	for i := 0; i < n; i++ {
		ch = append(ch, c18GenTree(r, depth-1, nextID))
	}
	return L(A(1), L(ch...))
}

func (c18) Gen(r *Rand, i int, tier string) Sx {
	id := 0
	depth := 3
	if tier == "thorough" {
		depth = 4
	}
	g := c18GenTree(r, depth, &id)
	p := c18GenTree(r, depth, &id)
	f := c18GenTree(r, depth, &id)
	var op Sx
	nn := len(c18Names)
	switch r.Intn(4) {
	case 0:
		op = L(A(0), AI(r.Intn(nn)))
	case 1:
		op = L(A(1), AI(r.Intn(nn)), AI(r.Intn(nn)))
	case 2:
		op = L(A(2), AI(r.Intn(nn)))
	default:
		k := r.Intn(6)
		ns := make([]int, k)
		for j := range ns {
			ns[j] = r.Intn(nn)
		}
		op = L(A(3), LInts(ns))
	}
	return L(g, p, f, op)
}

func c18Depth(s Sx) int {
	if s.Nth(0).Int() == 0 {
		return 0
	}
	d := 0
	for _, c := range s.Nth(1).List {
		if x := c18Depth(c); x > d {
			d = x
		}
	}
	return d + 1
}

func (c18) Class(in, obs Sx) (string, bool) {
	op := in.Nth(3).Nth(0).Int()
	t := in.Nth([]int{0, 0, 1, 2}[op])
	res := "rejected-denied"
	if obs.Nth(0).Int() == 1 {
		res = "forwarded"
	} else if obs.Nth(1).Int() != 7 {
		res = "rejected-failure"
	}
	d := c18Depth(t)
	return []string{"get", "composite", "put", "findmissing"}[op] + "/depth" + strconv.Itoa(d) + "/" + res, d >= 1
}
