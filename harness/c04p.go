package main

// C04P — sub-check of C04: the persistent-block-list clause ("the region of a
// released block is not handed out for new data before a state file that no
// longer lists the block has been durably written; once the state file has
// been rewritten the block is allocatable again").
//
// The REAL local.NewPersistentBlockList and local.NewPeriodicSyncer run with
// the gated collaborators, virtual clock and quiescence detection of c07.go.
// What is new here: the BlockAllocator models the accounting of the block-DEVICE
// allocator (a fixed set of regions, FIFO free list, NewBlock fails with
// UNAVAILABLE when none is free, Block.Release() returns the region when the use
// count reaches 0), and ONE log records, in the order in which they happen,
// every region hand-out, every Release(), every PopFront and every persistent
// state passed to WritePersistentState with the moments the write starts and
// completes.  Format: coq/Run/R04P.v.

import (
	"context"
	"strconv"
	"sync"
	"time"

	"github.com/buildbarn/bb-storage/pkg/blobstore/local"
	pb "github.com/buildbarn/bb-storage/pkg/proto/blobstore/local"

	"google.golang.org/grpc/codes"
	"google.golang.org/grpc/status"
)

func init() { props["C04P"] = c04p{} }

type c04p struct{}

const c04pRegionSize = 100

type c04pBlock struct {
	*c07Block
	env    *c04pEnv
	id     int
	region int
	uses   int
}

type c04pEnv struct {
	*c07Env
	nregions int
	free     []int // free regions, FIFO
	ids      []int // ids of the listed blocks, front first (parallel to c07Env.mirror)
	regs     []int // their regions
	nextID   int
	lastID   int
	log      []Sx
	logTaken int
}

func (e *c04pEnv) logf(items ...Sx) { e.log = append(e.log, L(items...)) }

// Release: the block device allocator's use counting (1 for list membership;
// this harness opens no readers).
func (b *c04pBlock) Release() {
	b.c07Block.Release() // keeps C07's released-offsets list
	e := b.env
	e.mu.Lock()
	b.uses--
	e.logf(A(2), AI(b.id), AI(b.region*c04pRegionSize), AI(b.uses))
	if b.uses == 0 {
		e.free = append(e.free, b.region)
	}
	e.mu.Unlock()
}

func (e *c04pEnv) newBlockObject(region int) *c04pBlock {
	b := &c04pBlock{
		c07Block: &c07Block{e: e.c07Env, off: int64(region * c04pRegionSize)},
		env:      e, id: e.nextID, region: region, uses: 1,
	}
	e.nextID++
	return b
}

func (e *c04pEnv) NewBlock() (local.Block, *pb.BlockLocation, error) {
	e.mu.Lock()
	defer e.mu.Unlock()
	if !e.allocOK || len(e.free) == 0 {
		return nil, nil, status.Error(codes.Unavailable, "No unused blocks available")
	}
	region := e.free[0]
	e.free = e.free[1:]
	b := e.newBlockObject(region)
	e.lastNew = b.c07Block
	e.lastID = b.id
	e.logf(A(1), AI(b.id), AI(region*c04pRegionSize))
	return b, &pb.BlockLocation{OffsetBytes: b.off, SizeBytes: c04pRegionSize}, nil
}

func (e *c04pEnv) NewBlockAtLocation(l *pb.BlockLocation, woff int64) (local.Block, bool) {
	e.mu.Lock()
	defer e.mu.Unlock()
	for _, ib := range e.inits {
		if ib.off == l.OffsetBytes && ib.size == l.SizeBytes {
			if !ib.found {
				return nil, false
			}
			region := int(ib.off / c04pRegionSize)
			for i, r := range e.free {
				if r == region {
					e.free = append(e.free[:i:i], e.free[i+1:]...)
					b := e.newBlockObject(region)
					e.mirror = append(e.mirror, b.c07Block)
					e.ids = append(e.ids, b.id)
					e.regs = append(e.regs, region)
					e.logf(A(0), AI(b.id), AI(region*c04pRegionSize))
					return b, true
				}
			}
			return nil, false
		}
	}
	return nil, false
}

func (e *c04pEnv) WritePersistentState(ps *pb.PersistentState) error {
	e.mu.Lock()
	blocks := []Sx{}
	for _, b := range ps.Blocks {
		seeds := []Sx{}
		for _, s := range b.EpochHashSeeds {
			seeds = append(seeds, AU(e.canon(s)))
		}
		var lo int64 = -7
		if b.BlockLocation != nil {
			lo = b.BlockLocation.OffsetBytes
		}
		blocks = append(blocks, L(A(lo), A(b.WriteOffsetBytes), L(seeds...)))
	}
	content := L(AU(uint64(ps.OldestEpochId)), L(blocks...))
	n := e.nWrite + 1
	e.logf(A(4), AI(n), content.Nth(0), content.Nth(1))
	e.mu.Unlock()
	r := e.enter(1, content)
	e.mu.Lock()
	e.logf(A(5), AI(n), AB(r == 0))
	e.mu.Unlock()
	if r == 0 {
		return nil
	}
	return status.Error(codes.Internal, "injected state write failure")
}

func (e *c04pEnv) takeLog() (Sx, int) {
	e.mu.Lock()
	defer e.mu.Unlock()
	ev := append([]Sx{}, e.log[e.logTaken:]...)
	e.logTaken = len(e.log)
	return L(ev...), len(e.free)
}

// doOp wraps c07Env.do with the bookkeeping of block ids.
func (e *c04pEnv) doOp(op Sx) (Sx, bool) {
	switch op.Nth(0).Int() {
	case 3:
		if len(e.mirror) > 0 && len(e.ids) > 0 {
			// Logged before the call: the release loop may react as soon as
			// PopFront drops the lock.
			e.mu.Lock()
			e.logf(A(3), AI(e.ids[0]), AI(e.regs[0]*c04pRegionSize))
			e.mu.Unlock()
			e.ids, e.regs = e.ids[1:], e.regs[1:]
		}
	case 4:
		e.lastID = -1
	}
	res, fatal := e.c07Env.do(op)
	if !fatal && op.Nth(0).Int() == 4 && res.Len() == 2 && res.Nth(1).Z >= 0 && e.lastID >= 0 {
		e.ids = append(e.ids, e.lastID)
		e.regs = append(e.regs, int(res.Nth(1).Z/c04pRegionSize))
	}
	return res, fatal
}

func (c04p) Exec(in Sx) (Sx, bool) {
	if in.IsAtom || in.Len() != 3 || in.Nth(1).IsAtom || in.Nth(2).IsAtom || in.Nth(2).Len() != 1 {
		return Sx{}, false
	}
	g := in.Nth(2).Nth(0)
	if !g.IsAtom || g.Big != "" || g.Z < 1 || g.Z > 8 {
		return Sx{}, false
	}
	nregions := int(g.Z)
	interval, retry, t0, oldest, inits, ok := c07ParseCfg(in.Nth(0))
	if !ok {
		return Sx{}, false
	}
	for _, ib := range inits {
		if ib.size != c04pRegionSize || ib.off%c04pRegionSize != 0 || ib.off/c04pRegionSize >= int64(nregions) {
			return Sx{}, false
		}
	}
	for _, op := range in.Nth(1).List {
		if !c07OpOK(op) {
			return Sx{}, false
		}
	}
	e := &c04pEnv{c07Env: &c07Env{now: t0, inits: inits, seedMap: map[uint64]uint64{}}, nregions: nregions}
	for r := 0; r < nregions; r++ {
		e.free = append(e.free, r)
	}
	var initial []*pb.BlockState
	for _, ib := range inits {
		for _, s := range ib.seeds {
			e.seedMap[s] = s
		}
		initial = append(initial, &pb.BlockState{
			BlockLocation:    &pb.BlockLocation{OffsetBytes: ib.off, SizeBytes: ib.size},
			WriteOffsetBytes: ib.woff,
			EpochHashSeeds:   ib.seeds,
		})
	}
	bl, _ := local.NewPersistentBlockList(e, oldest, initial)
	e.bl = bl
	ps := local.NewPeriodicSyncer(bl, &e.lock, e, e.c07Env, e.c07Env, time.Duration(retry), time.Duration(interval), 0, e.dataSyncer)
	ctx, cancel := context.WithCancel(context.Background())
	e.cancel = cancel
	e.goid = [2]int64{-2, -2}
	var started sync.WaitGroup
	started.Add(2)
	go1 := make(chan struct{})
	go func() {
		defer e.loopExit(0)
		e.goid[0] = c07Goid()
		started.Done()
		<-go1
		for {
			ps.ProcessBlockRelease()
		}
	}()
	go func() {
		defer e.loopExit(1)
		e.goid[1] = c07Goid()
		started.Done()
		<-go1
		for ps.ProcessBlockPut(ctx) {
		}
		e.mu.Lock()
		e.pExited = true
		e.mu.Unlock()
	}()
	started.Wait()
	close(go1)

	steps := []Sx{}
	_, quietOK := e.quiet()
	bad := int64(0)
	if !quietOK {
		bad = -2
	}
	ev0, nfree0 := e.takeLog()
	for _, op := range in.Nth(1).List {
		if bad != 0 {
			break
		}
		res, fatal := e.doOp(op)
		if fatal {
			bad = -1
			break
		}
		st, qok := e.quiet()
		e.mu.Lock()
		pm := e.panicMsg
		e.mu.Unlock()
		if pm != "" {
			bad = -1
			break
		}
		if !qok {
			bad = -2
			break
		}
		o := e.observe(res, st)
		ev, nfree := e.takeLog()
		steps = append(steps, L(o, AI(nfree), ev))
	}
	e.teardown(bad == 0)
	if bad != 0 {
		return L(A(bad)), true
	}
	return L(L(ev0, AI(nfree0)), L(steps...)), true
}

// ---- generation ----

func (c04p) Gen(r *Rand, i int, tier string) Sx {
	interval := r.Pick([]int{0, 4, 10, 10})
	retry := r.Pick([]int{3, 7})
	t0 := r.Pick([]int{0, 50})
	oldest := int64(r.Pick([]int{0, 0, 7, 4294967294}))
	nregions := r.Pick([]int{2, 3, 3, 4, 4, 5})
	nInit := r.Pick([]int{0, 1, 2, 2, 3, 3, 4})
	if nInit > nregions {
		nInit = nregions
	}
	// restored blocks at distinct regions, in a random order
	perm := make([]int, nregions)
	for k := range perm {
		perm[k] = k
	}
	for k := nregions - 1; k > 0; k-- {
		j := r.Intn(k + 1)
		perm[k], perm[j] = perm[j], perm[k]
	}
	inits := []Sx{}
	seed := 1
	for b := 0; b < nInit; b++ {
		seeds := []Sx{}
		for k := r.Pick([]int{0, 1, 1, 1, 2}); k > 0; k-- {
			seeds = append(seeds, AI(seed))
			seed++
		}
		found := !r.Chance(4)
		inits = append(inits, L(L(AI(perm[b]*c04pRegionSize), A(c04pRegionSize)), AI(r.Intn(40)), L(seeds...), AB(found)))
	}
	cfg := L(AI(interval), AI(retry), AI(t0), A(oldest), L(inits...))
	n := 10 + r.Intn(30)
	if tier == "thorough" {
		n = 10 + r.Intn(70)
	}
	okp := 80
	if r.Chance(30) {
		okp = 100
	}
	mode := i % 10 // 0-5 directed window, 6-8 stream, 9 hostile
	ops := []Sx{}
	started := 0
	put := func() {
		ops = append(ops, L(A(1), A(0), AI(1+r.Intn(9)), AI(r.Intn(60)), A(0)))
		started++
		if r.Chance(80) {
			ops = append(ops, L(A(2), AI(started-1)))
		}
	}
	wr := func() { ops = append(ops, L(A(6), AB(r.Chance(okp)))) }
	push := func() { ops = append(ops, L(A(4), AB(!r.Chance(5)))) }
	pop := func() { ops = append(ops, L(A(3))) }
	retryWrite := func() {
		// a failed write: sleep out the retry interval, fire the timer, complete
		ops = append(ops, L(A(6), A(0)), L(A(7), AI(retry)), L(A(8), AI(r.Intn(2))), L(A(8), AI(r.Intn(2))))
	}
	stream := func(k int) {
		for ; k > 0; k-- {
			c := r.Intn(100)
			switch {
			case c < 18:
				push()
			case c < 34:
				pop()
			case c < 44:
				put()
			case c < 50:
				ops = append(ops, L(A(2), AI(r.Intn(started+1))))
			case c < 72:
				wr()
			case c < 80:
				ops = append(ops, L(A(5), AB(r.Chance(okp))))
			case c < 87:
				ops = append(ops, L(A(7), AI(r.Pick([]int{1, 3, interval, retry, 10}))))
			case c < 93:
				ops = append(ops, L(A(8), AI(r.Intn(2))))
				if r.Chance(50) {
					ops = append(ops, L(A(5), AB(r.Chance(okp))))
				}
			case c < 95:
				if r.Chance(40) {
					ops = append(ops, L(A(9)))
				}
			case c < 98:
				retryWrite()
			default:
				ops = append(ops, L(A(7), AI(interval)), L(A(8), A(1)), L(A(5), A(1)), L(A(6), A(1)))
			}
		}
	}
	if mode <= 5 {
		// fill the list so that there is something to pop, possibly with uploads
		for k := nInit; k < 2 || (k < nregions && r.Chance(50)); k++ {
			push()
			if r.Chance(35) {
				put()
			}
		}
		if r.Chance(30) {
			// let the put loop commit the uploads first
			ops = append(ops, L(A(7), AI(interval)), L(A(8), A(1)), L(A(5), A(1)), L(A(6), A(1)))
		}
		stream(r.Intn(4))
		for rounds := 1 + r.Intn(3); rounds > 0; rounds-- {
			// the window: PopFront -> (the release loop takes the state; its write
			// is in flight) -> [failure + retry] -> another PopFront while a
			// write is in flight -> the write completes -> PushBacks reaching the
			// freed regions, interleaved with further completions.
			pop()
			if r.Chance(25) {
				retryWrite()
			}
			if r.Chance(85) {
				pop()
			}
			if r.Chance(15) {
				pop()
			}
			if r.Chance(15) {
				ops = append(ops, L(A(9)))
			}
			if r.Chance(20) {
				retryWrite()
			}
			wr()
			for k := 1 + r.Intn(nregions+1); k > 0; k-- {
				push()
				if r.Chance(30) {
					wr()
				}
				if r.Chance(15) {
					put()
				}
			}
			if r.Chance(70) {
				wr()
			}
			stream(r.Intn(5))
		}
		for len(ops) < n && r.Chance(80) {
			stream(1)
		}
	} else if mode <= 8 {
		stream(n)
	} else {
		for k := 0; k < n; k++ {
			switch r.Intn(9) {
			case 0:
				ops = append(ops, L(A(1), AI(r.Intn(3)), AI(1+r.Intn(9)), AI(r.Intn(60)), AB(r.Chance(20))))
				started++
			case 1:
				ops = append(ops, L(A(2), AI(r.Intn(started+2))))
			case 2, 3:
				pop()
			case 4:
				ops = append(ops, L(A(4), AB(r.Chance(70))))
			case 5:
				ops = append(ops, L(A(5), AB(r.Bool())))
			case 6:
				ops = append(ops, L(A(6), AB(r.Bool())))
			case 7:
				ops = append(ops, L(A(7), AI(r.Intn(12))))
			default:
				if r.Chance(85) {
					ops = append(ops, L(A(8), AI(r.Intn(2))))
				} else {
					ops = append(ops, L(A(9)))
				}
			}
		}
	}
	return L(cfg, L(ops...), L(AI(nregions)))
}

func (c04p) Class(in, obs Sx) (string, bool) {
	if obs.Len() == 1 && obs.Nth(0).IsAtom {
		return "pbl/abnormal", true
	}
	writes, fails, pops, rels, reuse, straddle, unavailable, cancel := 0, 0, 0, 0, 0, 0, 0, 0
	inflight := 0
	released := map[int64]bool{}
	ops := in.Nth(1).List
	for k, s := range obs.Nth(1).List {
		if k < len(ops) && ops[k].Nth(0).Int() == 9 {
			cancel = 1
		}
		if k < len(ops) && ops[k].Nth(0).Int() == 4 && ops[k].Nth(1).Z != 0 && s.Nth(0).Nth(0).Len() == 1 && s.Nth(0).Nth(0).Nth(0).Z == 14 {
			unavailable++
		}
		for _, ev := range s.Nth(2).List {
			switch ev.Nth(0).Int() {
			case 1:
				if released[ev.Nth(2).Z] {
					reuse++
				}
			case 2:
				rels++
				released[ev.Nth(2).Z] = true
			case 3:
				pops++
				if inflight > 0 {
					straddle++
				}
			case 4:
				inflight++
			case 5:
				inflight--
				if ev.Nth(2).Z != 0 {
					writes++
				} else {
					fails++
				}
			}
		}
	}
	b := func(n int) string {
		switch {
		case n == 0:
			return "0"
		case n <= 2:
			return "1-2"
		}
		return "3+"
	}
	cls := "pbl/w" + b(writes) + "-fail" + b(fails) + "-pop" + b(pops) + "-rel" + b(rels) + "-reuse" + b(reuse) +
		"-straddle" + b(straddle) + "-full" + b(unavailable) + "-cancel" + strconv.Itoa(cancel)
	return cls, writes >= 1 && reuse >= 1
}
