package main

// C01W / C05W — sub-checks of C01 and C05: the `local` backend as wired by the
// real configuration constructor (pkg/blobstore/configuration/new_blob_access.go
// with the real CAS / AC BlobAccessCreator).  The store is NOT assembled by the
// harness: a LocalBlobAccessConfiguration message is handed to
// NewBlobAccessFromConfiguration; the only substitution is a creator wrapper
// that leaves the top-level decorators (empty-blob injection, timestamp
// injection) off and counts negative integrity verdicts on the way through the
// real creator's ReadBufferFactory.  The events are those of the store harness
// (store.go); the model is Store/Model.v at the configuration Store/Wiring.v
// derives from the message.
//
// Input: (wcfg objs anc ops)
//   wcfg = (ac hier old cur new device spare block_size sector_size sector_count
//           klm_on_device klm_entries get_attempts put_attempts file_size)
// Observation: as the store harness (allocator counters and device writes not observed: -1),
//   or (-3) when the constructor refuses the configuration.

import (
	"io"
	"os"
	"path/filepath"
	"sort"
	"sync"
	"sync/atomic"
	"time"

	remoteexecution "github.com/bazelbuild/remote-apis/build/bazel/remote/execution/v2"
	"github.com/buildbarn/bb-storage/pkg/blobstore"
	"github.com/buildbarn/bb-storage/pkg/blobstore/buffer"
	"github.com/buildbarn/bb-storage/pkg/blobstore/configuration"
	"github.com/buildbarn/bb-storage/pkg/blockdevice"
	"github.com/buildbarn/bb-storage/pkg/digest"
	pb "github.com/buildbarn/bb-storage/pkg/proto/configuration/blobstore"
	bdpb "github.com/buildbarn/bb-storage/pkg/proto/configuration/blockdevice"
	digestpb "github.com/buildbarn/bb-storage/pkg/proto/configuration/digest"
	evictionpb "github.com/buildbarn/bb-storage/pkg/proto/configuration/eviction"

	"google.golang.org/protobuf/proto"
	"google.golang.org/protobuf/types/known/durationpb"
)

func init() {
	props["C01W"] = c01w{flavor: "c01w"}
	props["C05W"] = c01w{flavor: "c05w"}
	props["C08W"] = c01w{flavor: "c08w"}
	props["C10W"] = c01w{flavor: "c10w"}
}

type c01w struct{ flavor string }

// ---- creator wrapper ----

type c01wFactory struct {
	base blobstore.ReadBufferFactory
	negs *int64
}

func (f c01wFactory) wrap(cb buffer.DataIntegrityCallback) buffer.DataIntegrityCallback {
	return func(ok bool) {
		if !ok {
			atomic.AddInt64(f.negs, 1)
		}
		cb(ok)
	}
}

func (f c01wFactory) NewBufferFromByteSlice(d digest.Digest, data []byte, cb buffer.DataIntegrityCallback) buffer.Buffer {
	return f.base.NewBufferFromByteSlice(d, data, f.wrap(cb))
}

func (f c01wFactory) NewBufferFromReader(d digest.Digest, r io.ReadCloser, cb buffer.DataIntegrityCallback) buffer.Buffer {
	return f.base.NewBufferFromReader(d, r, f.wrap(cb))
}

func (f c01wFactory) NewBufferFromReaderAt(d digest.Digest, r buffer.ReadAtCloser, sizeBytes int64, cb buffer.DataIntegrityCallback) buffer.Buffer {
	return f.base.NewBufferFromReaderAt(d, r, sizeBytes, f.wrap(cb))
}

type c01wCreator struct {
	configuration.BlobAccessCreator
	negs *int64
}

func (c c01wCreator) GetReadBufferFactory() blobstore.ReadBufferFactory {
	return c01wFactory{base: c.BlobAccessCreator.GetReadBufferFactory(), negs: c.negs}
}

func (c c01wCreator) WrapTopLevelBlobAccess(ba blobstore.BlobAccess) blobstore.BlobAccess { return ba }

// ---- the sector size the operating system reports for files in the work directory ----

var (
	c01wSectorOnce sync.Once
	c01wSector     int
)

func c01wSectorSize() int {
	c01wSectorOnce.Do(func() {
		dir, err := os.MkdirTemp("", "c01w-probe")
		if err != nil {
			return
		}
		defer os.RemoveAll(dir)
		bd, ss, _, err := blockdevice.NewBlockDeviceFromFile(filepath.Join(dir, "probe"), 1, true)
		if err == nil {
			c01wSector = ss
			bd.Close()
		}
	})
	return c01wSector
}

// ---- execution ----

func c01wCanonicalActionResult(b []byte) bool {
	var m remoteexecution.ActionResult
	if proto.Unmarshal(b, &m) != nil {
		return false
	}
	out, err := proto.MarshalOptions{}.Marshal(&m)
	return err == nil && string(out) == string(b)
}

func (c01w) Exec(in Sx) (Sx, bool) {
	if in.IsAtom || in.Len() != 4 {
		return Sx{}, false
	}
	w := in.Nth(0)
	if w.IsAtom || w.Len() < 15 {
		return Sx{}, false
	}
	ac, hier := w.Nth(0).Int() != 0, w.Nth(1).Int() != 0
	old, cur, nw := w.Nth(2).Int(), w.Nth(3).Int(), w.Nth(4).Int()
	device, spare := w.Nth(5).Int() != 0, w.Nth(6).Int()
	blockSize, sectorSize, sectorCount := w.Nth(7).Int(), w.Nth(8).Int(), w.Nth(9).Int()
	klmDev, klmEntries := w.Nth(10).Int() != 0, w.Nth(11).Int()
	getAttempts, putAttempts, fileSize := w.Nth(12).Int(), w.Nth(13).Int(), w.Nth(14).Int()
	if old < 0 || cur < 0 || nw < 1 || spare < 0 || old > 40 || cur > 40 || nw > 40 || spare > 40 ||
		klmEntries < 64 || klmEntries > 1<<20 || getAttempts < 1 || putAttempts < 1 {
		return Sx{}, false
	}
	names, ok := stInstanceNames(in.Nth(2))
	if !ok {
		return Sx{}, false
	}
	var bs int
	if device {
		ss := c01wSectorSize()
		if ss == 0 || sectorSize != ss || fileSize < 1 || fileSize > 8<<20 || (fileSize+ss-1)/ss != sectorCount {
			return Sx{}, false // the case was generated for another sector size
		}
		bs = ss * (sectorCount / (spare + old + cur + nw))
	} else {
		if blockSize < 1 || blockSize > 1<<16 {
			return Sx{}, false
		}
		bs = blockSize
	}
	st := &stStore{bs: bs, threads: map[int]*stThread{}, names: names, label: "c01w", hier: hier, sector: 1}
	for _, o := range in.Nth(1).List {
		if o.IsAtom || o.Len() > bs+8 {
			return Sx{}, false
		}
		b := o.Bytes()
		if ac && !c01wCanonicalActionResult(b) {
			return Sx{}, false
		}
		st.objs = append(st.objs, b)
	}
	for a := range st.objs {
		for b := a + 1; b < len(st.objs); b++ {
			if string(st.objs[a]) == string(st.objs[b]) {
				return Sx{}, false
			}
		}
	}
	dir, err := os.MkdirTemp("", "c01w")
	if err != nil {
		return Sx{}, false
	}
	defer os.RemoveAll(dir)
	local := &pb.LocalBlobAccessConfiguration{
		KeyLocationMapMaximumGetAttempts: uint32(getAttempts),
		KeyLocationMapMaximumPutAttempts: int64(putAttempts),
		OldBlocks:                        int32(old),
		CurrentBlocks:                    int32(cur),
		NewBlocks:                        int32(nw),
		HierarchicalInstanceNames:        hier,
	}
	if klmDev {
		local.KeyLocationMapBackend = &pb.LocalBlobAccessConfiguration_KeyLocationMapOnBlockDevice{
			KeyLocationMapOnBlockDevice: &bdpb.Configuration{Source: &bdpb.Configuration_File{
				File: &bdpb.FileConfiguration{Path: filepath.Join(dir, "klm"), SizeBytes: int64(klmEntries) * 66},
			}},
		}
	} else {
		local.KeyLocationMapBackend = &pb.LocalBlobAccessConfiguration_KeyLocationMapInMemory_{
			KeyLocationMapInMemory: &pb.LocalBlobAccessConfiguration_KeyLocationMapInMemory{Entries: int64(klmEntries)},
		}
	}
	if device {
		local.BlocksBackend = &pb.LocalBlobAccessConfiguration_BlocksOnBlockDevice_{
			BlocksOnBlockDevice: &pb.LocalBlobAccessConfiguration_BlocksOnBlockDevice{
				Source: &bdpb.Configuration{Source: &bdpb.Configuration_File{
					File: &bdpb.FileConfiguration{Path: filepath.Join(dir, "blocks"), SizeBytes: int64(fileSize)},
				}},
				SpareBlocks: int32(spare),
			},
		}
	} else {
		local.BlocksBackend = &pb.LocalBlobAccessConfiguration_BlocksInMemory_{
			BlocksInMemory: &pb.LocalBlobAccessConfiguration_BlocksInMemory{BlockSizeBytes: int64(blockSize)},
		}
	}
	var base configuration.BlobAccessCreator
	if ac {
		base = configuration.NewACBlobAccessCreator(nil, nil, 1<<20)
	} else {
		base = configuration.NewCASBlobAccessCreator(nil, 1<<20, nil)
	}
	bacfg := &pb.BlobAccessConfiguration{Backend: &pb.BlobAccessConfiguration_Local{Local: local}}
	if w.Len() >= 16 && w.Nth(15).Int() != 0 {
		// an existence cache around the store, keyed by the DigestKeyFormat the constructor
		// reports for it (one hour, 256 entries: never expires or evicts within a case); the
		// model has no counterpart - with the right key format and no eviction in the store the
		// cache is transparent (C17's existence_cache_sound) - so such cases keep the store
		// far from its capacity (the generator's business)
		if ac {
			return Sx{}, false
		}
		bacfg = &pb.BlobAccessConfiguration{Backend: &pb.BlobAccessConfiguration_ExistenceCaching{
			ExistenceCaching: &pb.ExistenceCachingBlobAccessConfiguration{
				Backend: bacfg,
				ExistenceCache: &digestpb.ExistenceCacheConfiguration{
					CacheSize:              256,
					CacheDuration:          durationpb.New(time.Hour),
					CacheReplacementPolicy: evictionpb.CacheReplacementPolicy_LEAST_RECENTLY_USED,
				},
			},
		}}
	}
	info, err := configuration.NewBlobAccessFromConfiguration(nil, bacfg,
		c01wCreator{BlobAccessCreator: base, negs: &st.negs})
	if err != nil {
		return L(A(-3)), true
	}
	st.ba = info.BlobAccess
	defer st.finish()
	out := []Sx{}
	for _, op := range in.Nth(3).List {
		if op.Nth(0).Int() == 9 {
			// corruption of the constructor's own medium: the blocks file (shared with the
			// store's memory mapping).  Only with the validating CAS factory, only while no
			// operation is parked, and - because every block is one sector whose in-memory
			// image is rewritten by the next upload into it - only in cases that upload
			// nothing afterwards (the generator's business; see Gen).
			r, off, ln := op.Nth(1).Int(), op.Nth(2).Int(), op.Nth(3).Int()
			if !device || ac || len(st.threads) > 0 || r < 0 || off < 0 || ln < 0 || off+ln > bs || r >= spare+old+cur+nw {
				return Sx{}, false
			}
			f, err := os.OpenFile(filepath.Join(dir, "blocks"), os.O_RDWR, 0)
			if err != nil {
				return Sx{}, false
			}
			buf := make([]byte, ln)
			if _, err := f.ReadAt(buf, int64(r*bs+off)); err != nil && err != io.EOF {
				f.Close()
				return Sx{}, false
			}
			for k := range buf {
				buf[k] ^= 0xff
			}
			_, err = f.WriteAt(buf, int64(r*bs+off))
			f.Close()
			if err != nil {
				return Sx{}, false
			}
			out = append(out, st.obs(0, 0, LBytes(nil), atomic.LoadInt64(&st.negs), 0, -1))
			continue
		}
		o, ok := st.step(op)
		if !ok {
			return Sx{}, false
		}
		out = append(out, o)
	}
	// what the constructor reports as the backend's DigestKeyFormat (outer decorators key their
	// caches by it): 1 = keys carry the instance name
	kf := 0
	if info.DigestKeyFormat == digest.KeyWithInstance {
		kf = 1
	}
	out = append(out, L(A(9), AI(kf)))
	return L(out...), true
}

// ---- generation ----

func (p c01w) Gen(r *Rand, idx int, tier string) Sx {
	if p.flavor == "c08w" {
		return c08wGen(r, tier)
	}
	if p.flavor == "c10w" {
		return c10wGen(r, tier)
	}
	ac := r.Chance(35)
	hier := !ac && r.Chance(30)
	old := r.Pick([]int{0, 1, 1, 2, 2, 3})
	cur := r.Pick([]int{0, 1, 1, 2, 3})
	nw := r.Pick([]int{1, 1, 2, 3})
	if ac {
		nw = 1
		cur = 1 + r.Intn(3)
	}
	device := r.Chance(40) && c01wSectorSize() > 0
	spare := 0
	blockSize, sectorSize, sectorCount, fileSize := 0, 0, 0, 0
	bs := 0
	if device {
		spare = 1 + r.Intn(3)
		sectorSize = c01wSectorSize()
		n := spare + old + cur + nw
		sectorCount = n + r.Intn(n) // one sector per block, with a remainder the division drops
		fileSize = sectorCount*sectorSize - r.Intn(sectorSize)
		bs = sectorSize * (sectorCount / n)
	} else {
		blockSize = r.Pick([]int{16, 24, 32, 64})
		bs = blockSize
	}
	// hostile stream: configurations the constructor must refuse
	if r.Chance(8) {
		switch r.Intn(4) {
		case 0:
			ac, hier = true, true
		case 1:
			ac, nw = true, 2+r.Intn(2)
		case 2:
			if device {
				spare = 101
			}
		default:
			if device {
				sectorCount = 1 + r.Intn(spare+old+cur+nw-1+1)
				if sectorCount >= spare+old+cur+nw {
					sectorCount = spare + old + cur + nw - 1
				}
				if sectorCount < 1 {
					sectorCount = 1
				}
				fileSize = sectorCount * sectorSize
			}
		}
	}
	klmDev := r.Chance(30)
	klmEntries := 4000 + r.Intn(6000)
	anc := stAncTemplates[r.Intn(len(stAncTemplates))]
	if ac && r.Chance(50) {
		anc = stAncTemplates[1+r.Intn(2)]
	}
	names, _ := stInstanceNames(stAncSx(anc))
	// objects: about half a block to a whole block, so that a few uploads rotate the store
	nobj := 5 + r.Intn(4)
	objs := [][]byte{}
	for len(objs) < nobj {
		var sz int
		switch x := r.Intn(100); {
		case x < 10:
			sz = 1 + r.Intn(8)
		case x < 20:
			sz = bs
		case x < 24:
			sz = bs + 1 + r.Intn(4) // does not fit any block
		default:
			sz = bs/2 + 1 + r.Intn(bs/2)
		}
		var b []byte
		if ac {
			// a canonical ActionResult of about that size: field 5 (stdout_raw), length-delimited
			pl := sz - 3
			if pl < 0 {
				pl = 0
			}
			payload := make([]byte, pl)
			for j := range payload {
				payload[j] = byte(1 + r.Intn(250))
			}
			if pl > 0 {
				payload[0] = byte(len(objs) + 1)
			}
			b, _ = proto.Marshal(&remoteexecution.ActionResult{StdoutRaw: payload})
		} else {
			b = make([]byte, sz)
			for j := range b {
				b[j] = byte(1 + r.Intn(250))
			}
			b[0] = byte(len(objs) + 1)
		}
		dup := false
		for _, prev := range objs {
			if string(prev) == string(b) {
				dup = true
			}
		}
		if !dup {
			objs = append(objs, b)
		}
	}
	inst := func() int { return r.Intn(len(anc)) }
	nextTid := 0
	ops := []Sx{}
	put := func(o, i int) {
		t := nextTid
		nextTid++
		ops = append(ops, L(A(1), AI(t), AI(o), AI(i)))
		if device {
			ops = append(ops, L(A(2), AI(t), LBytes(objs[o])))
		} else {
			for _, c := range stSplit(r, objs[o]) {
				ops = append(ops, L(A(2), AI(t), LBytes(c)))
			}
		}
		ops = append(ops, L(A(3), AI(t), A(0)))
	}
	get := func(o, i int) {
		t := nextTid
		nextTid++
		ops = append(ops, L(A(4), AI(t), AI(o), AI(i)), L(A(5), AI(t)))
	}
	fm := func(ds [][2]int) {
		seen := map[[2]int]bool{}
		l := []Sx{}
		for _, d := range ds {
			if !seen[d] {
				seen[d] = true
				l = append(l, L(AI(d[0]), AI(d[1])))
			}
		}
		sort.Slice(l, func(a, b int) bool {
			return stDigestString(objs, names, l[a].Nth(0).Int(), l[a].Nth(1).Int()) <
				stDigestString(objs, names, l[b].Nth(0).Int(), l[b].Nth(1).Int())
		})
		ops = append(ops, L(A(6), L(l...)))
	}
	nops := 30 + r.Intn(40)
	if device {
		nops = 14 + r.Intn(14) // objects are thousands of bytes
	}
	if tier == "thorough" {
		nops += nops / 2
	}
	for len(ops) < nops {
		switch x := r.Intn(100); {
		case x < 12:
			// retention boundary: upload a target, touch it after a burst, then count
			// exactly old (+0/+1/+2) further block allocations and read it again
			target, ti := r.Intn(nobj), inst()
			put(target, ti)
			big := []int{}
			for o := range objs {
				if len(objs[o])*2 > bs && len(objs[o]) <= bs {
					big = append(big, o)
				}
			}
			if len(big) == 0 {
				continue
			}
			for k := cur + nw + r.Intn(2); k > 0; k-- {
				put(big[r.Intn(len(big))], ti)
			}
			if r.Bool() {
				get(target, ti)
			} else {
				fm([][2]int{{target, ti}})
			}
			for k := old + r.Intn(3); k > 0; k-- {
				put(big[r.Intn(len(big))], ti)
			}
			get(target, ti)
		case x < 50:
			put(r.Intn(nobj), inst())
		case x < 58 && !device:
			// a failing upload: wrong content, short, or a source error
			o := r.Intn(nobj)
			if len(objs[o]) < 2 {
				continue
			}
			data := append([]byte(nil), objs[o]...)
			endErr := 0
			switch r.Intn(3) {
			case 0:
				data[r.Intn(len(data))] ^= 0x55
			case 1:
				data = data[:len(data)-1]
			default:
				endErr = []int{14, 13, 4, 1}[r.Intn(4)]
				data = data[:r.Intn(len(data))]
			}
			t := nextTid
			nextTid++
			ops = append(ops, L(A(1), AI(t), AI(o), AI(inst())))
			if len(data) > 0 {
				ops = append(ops, L(A(2), AI(t), LBytes(data)))
			}
			ops = append(ops, L(A(3), AI(t), AI(endErr)))
		case x < 82:
			get(r.Intn(nobj), inst())
		default:
			n := 1 + r.Intn(3)
			ds := [][2]int{}
			for k := 0; k < n; k++ {
				ds = append(ds, [2]int{r.Intn(nobj), inst()})
			}
			if !ac && !hier {
				// keys without instance names: one name per object in a call
				seen := map[int]bool{}
				f := ds[:0]
				for _, d := range ds {
					if !seen[d[0]] {
						seen[d[0]] = true
						f = append(f, d)
					}
				}
				ds = f
			}
			fm(ds)
		}
	}
	objSx := []Sx{}
	for _, o := range objs {
		objSx = append(objSx, LBytes(o))
	}
	wcfg := L(AB(ac), AB(hier), AI(old), AI(cur), AI(nw), AB(device), AI(spare), AI(blockSize), AI(sectorSize), AI(sectorCount),
		AB(klmDev), AI(klmEntries), AI(8+r.Intn(16)), AI(32+r.Intn(64)), AI(fileSize))
	return L(wcfg, L(objSx...), stAncSx(anc), L(ops...))
}

func (c01w) Class(in, obs Sx) (string, bool) {
	w := in.Nth(0)
	kind := "cas"
	if w.Nth(0).Int() != 0 {
		kind = "ac"
	} else if w.Nth(1).Int() != 0 {
		kind = "cas-hier"
	}
	if w.Nth(5).Int() != 0 {
		kind += "/device"
	} else {
		kind += "/memory"
	}
	if obs.Len() == 1 && obs.Nth(0).IsAtom {
		return "wiring/refused/" + kind, true
	}
	reads, lost, detected := 0, 0, 0
	for k, o := range obs.List {
		if k >= in.Nth(3).Len() {
			break
		}
		if o.Len() >= 2 && o.Nth(0).Int() == 0 && in.Nth(3).Nth(k).Nth(0).Int() == 5 {
			if o.Nth(1).Int() == 0 {
				reads++
			} else if o.Nth(1).Int() == 5 {
				lost++
			} else if o.Nth(1).Int() == 13 {
				detected++
			}
		}
	}
	cls := "wiring/" + kind
	if detected > 0 {
		cls += "/detected"
	}
	if lost > 0 {
		cls += "/evictions"
	}
	return cls, reads > 0 || detected > 0
}

// c08wGen: quarantine through the constructor's wiring.  A CAS on a file-backed block device
// (key-location map on a second file-backed device in 60% of the cases), old_blocks = 0 so that
// no read ever refreshes (nothing is written after the corruption: a write into a block would
// rewrite its sector from the in-memory image and heal it), several objects per block; then the
// whole medium is garbled, one object is read (detection: quarantine up to its block) and every
// object is looked up again by Get and FindMissing.
func c08wGen(r *Rand, tier string) Sx {
	sectorSize := c01wSectorSize()
	if sectorSize == 0 {
		sectorSize = 4096
	}
	hier := r.Chance(25)
	old, cur, nw, spare := 0, r.Intn(3), 1+r.Intn(3), 1+r.Intn(2)
	n := spare + old + cur + nw
	sectorCount := n + r.Intn(n)
	fileSize := sectorCount * sectorSize
	bs := sectorSize * (sectorCount / n)
	anc := stAncTemplates[r.Intn(3)]
	names, _ := stInstanceNames(stAncSx(anc))
	nobj := 5 + r.Intn(4)
	objs := [][]byte{}
	for len(objs) < nobj {
		sz := bs/8 + r.Intn(bs/2)
		b := make([]byte, sz)
		for j := range b {
			b[j] = byte(1 + r.Intn(250))
		}
		b[0] = byte(len(objs) + 1)
		objs = append(objs, b)
	}
	nextTid := 0
	ops := []Sx{}
	inst := func() int { return r.Intn(len(anc)) }
	where := make([]int, nobj)
	for o := range where {
		where[o] = inst()
	}
	nput := 4 + r.Intn(8)
	for k := 0; k < nput; k++ {
		o := r.Intn(nobj)
		t := nextTid
		nextTid++
		ops = append(ops, L(A(1), AI(t), AI(o), AI(where[o])), L(A(2), AI(t), LBytes(objs[o])), L(A(3), AI(t), A(0)))
	}
	for reg := 0; reg < n; reg++ {
		ops = append(ops, L(A(9), AI(reg), A(0), AI(bs)))
	}
	get := func(o int) {
		t := nextTid
		nextTid++
		ops = append(ops, L(A(4), AI(t), AI(o), AI(where[o])), L(A(5), AI(t)))
	}
	get(r.Intn(nobj))
	for k := 0; k < 3+r.Intn(5); k++ {
		if r.Chance(55) {
			get(r.Intn(nobj))
		} else {
			o := r.Intn(nobj)
			ops = append(ops, L(A(6), L(L(AI(o), AI(where[o])))))
		}
	}
	_ = names
	objSx := []Sx{}
	for _, o := range objs {
		objSx = append(objSx, LBytes(o))
	}
	wcfg := L(AB(false), AB(hier), AI(old), AI(cur), AI(nw), AB(true), AI(spare), AI(0), AI(sectorSize), AI(sectorCount),
		AB(r.Chance(60)), AI(4000+r.Intn(6000)), AI(8+r.Intn(16)), AI(32+r.Intn(64)), AI(fileSize))
	return L(wcfg, L(objSx...), stAncSx(anc), L(ops...))
}

// c10wGen: a hierarchical CAS built by the constructor behind an existence cache (C10-g: the cache
// is keyed by the DigestKeyFormat the constructor reports for the store).  In-memory blocks, far
// from capacity (at most 8 uploads of at most 16 bytes into 3 new blocks of 64 bytes: no rotation,
// no eviction, no refresh), uploads under some names, then existence checks and reads of the same
// objects under every name - first under the uploader's (the positive answer is cached), then
// under the others.
func c10wGen(r *Rand, tier string) Sx {
	anc := stAncTemplates[2+r.Intn(3)]
	nobj := 3 + r.Intn(3)
	objs := [][]byte{}
	for len(objs) < nobj {
		b := make([]byte, 4+r.Intn(12))
		for j := range b {
			b[j] = byte(1 + r.Intn(250))
		}
		b[0] = byte(len(objs) + 1)
		objs = append(objs, b)
	}
	nextTid := 0
	ops := []Sx{}
	where := make([]int, nobj)
	for o := 0; o < nobj; o++ {
		where[o] = r.Intn(len(anc))
		t := nextTid
		nextTid++
		ops = append(ops, L(A(1), AI(t), AI(o), AI(where[o])), L(A(2), AI(t), LBytes(objs[o])), L(A(3), AI(t), A(0)))
	}
	for k := 0; k < 6+r.Intn(8); k++ {
		o := r.Intn(nobj)
		i := r.Intn(len(anc))
		if k%2 == 0 {
			i = where[o] // the uploader's own name first: the answer is cached
		}
		if r.Chance(75) {
			ops = append(ops, L(A(6), L(L(AI(o), AI(i)))))
		} else {
			t := nextTid
			nextTid++
			ops = append(ops, L(A(4), AI(t), AI(o), AI(i)), L(A(5), AI(t)))
		}
	}
	objSx := []Sx{}
	for _, o := range objs {
		objSx = append(objSx, LBytes(o))
	}
	wcfg := L(AB(false), AB(true), AI(1+r.Intn(2)), AI(1+r.Intn(2)), A(3), AB(false), A(0), A(64), A(0), A(0),
		AB(false), AI(4000+r.Intn(6000)), AI(8+r.Intn(16)), AI(32+r.Intn(64)), A(0), A(1))
	return L(wcfg, L(objSx...), stAncSx(anc), L(ops...))
}
