package main

// C09: every exported CAS buffer constructor x every consumption method x
// scripted sources x digests of all eight digest functions, executed against
// the real pkg/blobstore/buffer.  See coq/Run/R09.v for the case format.

import (
	"crypto/md5"
	"crypto/sha1"
	"crypto/sha256"
	"crypto/sha512"
	"encoding/hex"
	"hash"
	"io"
	"strconv"

	remoteexecution "github.com/bazelbuild/remote-apis/build/bazel/remote/execution/v2"
	"github.com/buildbarn/bb-storage/pkg/blobstore/buffer"
	"github.com/buildbarn/bb-storage/pkg/digest"
	"github.com/buildbarn/go-sha256tree"
	"github.com/zeebo/blake3"

	"google.golang.org/grpc/codes"
	"google.golang.org/grpc/status"
)

func init() { props["C09"] = c09{} }

type c09 struct{}

var c09Functions = []remoteexecution.DigestFunction_Value{
	remoteexecution.DigestFunction_BLAKE3,
	remoteexecution.DigestFunction_GITSHA1,
	remoteexecution.DigestFunction_MD5,
	remoteexecution.DigestFunction_SHA1,
	remoteexecution.DigestFunction_SHA256,
	remoteexecution.DigestFunction_SHA256TREE,
	remoteexecution.DigestFunction_SHA384,
	remoteexecution.DigestFunction_SHA512,
}

// c09Hash computes the hash of data under a digest function for a digest
// whose size field is size, without going through pkg/digest.
func c09Hash(fn remoteexecution.DigestFunction_Value, size int64, data []byte) ([]byte, bool) {
	var h hash.Hash
	switch fn {
	case remoteexecution.DigestFunction_BLAKE3:
		h = blake3.New()
	case remoteexecution.DigestFunction_GITSHA1:
		h = sha1.New()
		h.Write([]byte("blob " + strconv.FormatInt(size, 10)))
		h.Write([]byte{0})
	case remoteexecution.DigestFunction_MD5:
		h = md5.New()
	case remoteexecution.DigestFunction_SHA1:
		h = sha1.New()
	case remoteexecution.DigestFunction_SHA256:
		h = sha256.New()
	case remoteexecution.DigestFunction_SHA256TREE:
		h = sha256tree.New(size)
	case remoteexecution.DigestFunction_SHA384:
		h = sha512.New384()
	case remoteexecution.DigestFunction_SHA512:
		h = sha512.New()
	default:
		return nil, false
	}
	h.Write(data)
	return h.Sum(nil), true
}

func c09Code(err error) int {
	switch err {
	case nil:
		return 0
	case io.EOF:
		return -1
	case io.ErrUnexpectedEOF:
		return -2
	}
	return int(status.Code(err))
}

// ---- scripted sources ----

type c09Ev struct {
	kind int // 0 chunk, 1 error, 2 EOF
	data []byte
	code int
}

func c09ParseEvents(s Sx) ([]c09Ev, bool) {
	if s.IsAtom {
		return nil, false
	}
	evs := []c09Ev{}
	for _, e := range s.List {
		if e.IsAtom || e.Len() < 1 || !e.Nth(0).IsAtom {
			return nil, false
		}
		switch e.Nth(0).Int() {
		case 0:
			if e.Len() != 2 || e.Nth(1).IsAtom || !c09IsBytes(e.Nth(1)) {
				return nil, false
			}
			evs = append(evs, c09Ev{kind: 0, data: e.Nth(1).Bytes()})
		case 1:
			if e.Len() != 2 || !e.Nth(1).IsAtom || e.Nth(1).Int() < 1 || e.Nth(1).Int() > 16 {
				return nil, false
			}
			evs = append(evs, c09Ev{kind: 1, code: e.Nth(1).Int()})
		case 2:
			if e.Len() != 1 {
				return nil, false
			}
			evs = append(evs, c09Ev{kind: 2})
		default:
			return nil, false
		}
	}
	return evs, true
}

func c09IsBytes(s Sx) bool {
	if s.IsAtom {
		return false
	}
	for _, x := range s.List {
		if !x.IsAtom || x.Big != "" || x.Z < 0 || x.Z > 255 {
			return false
		}
	}
	return true
}

func c09Content(evs []c09Ev) []byte {
	out := []byte{}
	for _, e := range evs {
		if e.kind != 0 {
			break
		}
		out = append(out, e.data...)
	}
	return out
}

func c09Err(code int) error { return status.Error(codes.Code(code), "scripted I/O error") }

type c09ChunkSrc struct {
	evs    []c09Ev
	attach bool
	closed int
	reads  int
}

func (s *c09ChunkSrc) junk() []byte {
	if s.attach {
		return []byte{0xee, 0xee}
	}
	return nil
}

func (s *c09ChunkSrc) Read() ([]byte, error) {
	s.reads++
	if len(s.evs) == 0 {
		return s.junk(), io.EOF
	}
	e := s.evs[0]
	s.evs = s.evs[1:]
	switch e.kind {
	case 0:
		return append([]byte{}, e.data...), nil
	case 1:
		return s.junk(), c09Err(e.code)
	}
	return s.junk(), io.EOF
}
func (s *c09ChunkSrc) Close() { s.closed++ }

type c09ReaderSrc struct {
	evs    []c09Ev
	attach bool
	closed int
}

func (s *c09ReaderSrc) Read(p []byte) (int, error) {
	if len(s.evs) == 0 {
		return 0, io.EOF
	}
	e := s.evs[0]
	switch e.kind {
	case 1:
		s.evs = s.evs[1:]
		return 0, c09Err(e.code)
	case 2:
		s.evs = s.evs[1:]
		return 0, io.EOF
	}
	n := copy(p, e.data)
	if n < len(e.data) {
		s.evs[0].data = e.data[n:]
		return n, nil
	}
	s.evs = s.evs[1:]
	if s.attach {
		if len(s.evs) == 0 {
			return n, io.EOF
		}
		switch s.evs[0].kind {
		case 1:
			c := s.evs[0].code
			s.evs = s.evs[1:]
			return n, c09Err(c)
		case 2:
			s.evs = s.evs[1:]
			return n, io.EOF
		}
	}
	return n, nil
}
func (s *c09ReaderSrc) Close() error { s.closed++; return nil }

type c09Writer struct{ data []byte }

func (w *c09Writer) Write(p []byte) (int, error) {
	w.data = append(w.data, p...)
	return len(p), nil
}

// ---- consuming a buffer with one method ----

type c09Obs struct {
	data  []byte
	code  int
	extra []int
	aux   []byte
}

const c09LoopLimit = 100000

// c09CheckMethod says whether a method description is well-formed.
func c09CheckMethod(m Sx) bool {
	if m.IsAtom || m.Len() < 1 || !m.Nth(0).IsAtom {
		return false
	}
	atoms := func(n int) bool {
		if m.Len() != n {
			return false
		}
		for _, x := range m.List {
			if !x.IsAtom || x.Big != "" {
				return false
			}
		}
		return true
	}
	small := func(x Sx, lo, hi int64) bool { return x.Z >= lo && x.Z <= hi }
	switch m.Nth(0).Int() {
	case 0, 5:
		return atoms(2) && small(m.Nth(1), 0, 1<<20)
	case 1, 6:
		return atoms(1)
	case 2:
		return atoms(3) && small(m.Nth(1), 0, 1<<16) && small(m.Nth(2), -1<<20, 1<<20)
	case 3:
		return atoms(4) && small(m.Nth(1), -1<<20, 1<<20) && small(m.Nth(2), 1, 1<<20) && small(m.Nth(3), 0, 4)
	case 4:
		if m.Len() != 3 || m.Nth(1).IsAtom || !m.Nth(2).IsAtom || !small(m.Nth(2), 0, 4) {
			return false
		}
		for _, c := range m.Nth(1).List {
			if !c.IsAtom || c.Big != "" || c.Z < 1 || c.Z > 1<<16 {
				return false
			}
		}
		return true
	}
	return false
}

func c09Consume(b buffer.Buffer, m Sx) c09Obs {
	o := c09Obs{data: []byte{}, extra: []int{}, aux: []byte{}}
	switch m.Nth(0).Int() {
	case 0:
		d, err := b.ToByteSlice(m.Nth(1).Int())
		o.data = append(o.data, d...)
		o.code = c09Code(err)
	case 1:
		w := &c09Writer{}
		err := b.IntoWriter(w)
		o.data = append(o.data, w.data...)
		o.code = c09Code(err)
	case 2:
		p := make([]byte, m.Nth(1).Int())
		n, err := b.ReadAt(p, m.Nth(2).Z)
		o.data = append(o.data, p[:n]...)
		o.code = c09Code(err)
	case 3:
		r := b.ToChunkReader(m.Nth(1).Z, m.Nth(2).Int())
		for i := 0; ; i++ {
			chunk, err := r.Read()
			if err != nil {
				o.code = c09Code(err)
				break
			}
			o.data = append(o.data, chunk...)
			if i > c09LoopLimit {
				o.code = -9
				break
			}
		}
		for i := 0; i < m.Nth(3).Int(); i++ {
			chunk, err := r.Read()
			if err == nil {
				o.aux = append(o.aux, chunk...)
			}
			o.extra = append(o.extra, c09Code(err))
		}
		r.Close()
	case 4:
		r := b.ToReader()
		caps := m.Nth(1).Ints()
		last := 1
		if len(caps) > 0 {
			last = caps[len(caps)-1]
		}
		for i := 0; ; i++ {
			c := last
			if i < len(caps) {
				c = caps[i]
			}
			p := make([]byte, c)
			n, err := r.Read(p)
			o.data = append(o.data, p[:n]...)
			if err != nil {
				o.code = c09Code(err)
				break
			}
			if i > c09LoopLimit {
				o.code = -9
				break
			}
		}
		for i := 0; i < m.Nth(2).Int(); i++ {
			p := make([]byte, last)
			n, err := r.Read(p)
			o.aux = append(o.aux, p[:n]...)
			o.extra = append(o.extra, c09Code(err))
		}
		r.Close()
	case 5:
		b1, b2 := b.CloneCopy(m.Nth(1).Int())
		d1, e1 := b1.ToByteSlice(m.Nth(1).Int())
		d2, e2 := b2.ToByteSlice(m.Nth(1).Int())
		o.data = append(o.data, d1...)
		o.code = c09Code(e1)
		o.aux = append(o.aux, d2...)
		o.extra = append(o.extra, c09Code(e2))
	case 6:
		b.Discard()
	}
	return o
}

func c09Digest(d Sx) (digest.Digest, bool) {
	if d.IsAtom || d.Len() != 3 || !d.Nth(0).IsAtom || !c09IsBytes(d.Nth(1)) || !d.Nth(2).IsAtom || d.Nth(2).Big != "" {
		return digest.BadDigest, false
	}
	size := d.Nth(2).Z
	if size < 0 || size > 1<<16 {
		return digest.BadDigest, false
	}
	fnv := remoteexecution.DigestFunction_Value(d.Nth(0).Int())
	if fnv == remoteexecution.DigestFunction_UNKNOWN {
		return digest.BadDigest, false
	}
	fn, err := digest.EmptyInstanceName.GetDigestFunction(fnv, 0)
	if err != nil {
		return digest.BadDigest, false
	}
	dg, err := fn.NewDigest(hex.EncodeToString(d.Nth(1).Bytes()), size)
	if err != nil {
		return digest.BadDigest, false
	}
	return dg, true
}

func (c09) Exec(in Sx) (Sx, bool) {
	if in.IsAtom || in.Len() != 6 {
		return Sx{}, false
	}
	kind, srcK := in.Nth(0), in.Nth(1)
	if !kind.IsAtom || kind.Z < 0 || kind.Z > 2 || !srcK.IsAtom || srcK.Z < 0 || srcK.Z > 1 {
		return Sx{}, false
	}
	dg, ok := c09Digest(in.Nth(2))
	if !ok {
		return Sx{}, false
	}
	sc := in.Nth(3)
	if sc.IsAtom || sc.Len() != 2 || !sc.Nth(0).IsAtom {
		return Sx{}, false
	}
	evs, ok := c09ParseEvents(sc.Nth(1))
	if !ok || !c09CheckMethod(in.Nth(4)) || !c09CheckTable(in.Nth(5)) {
		return Sx{}, false
	}
	attach := sc.Nth(0).Z != 0
	// The table must be truthful and must cover what the validators can hash
	// (the shrinker may not turn a case into one whose H differs from Go's).
	if !c09TableCovers(in.Nth(5), remoteexecution.DigestFunction_Value(in.Nth(2).Nth(0).Int()), in.Nth(2).Nth(2).Z,
		c09Content(evs), c09Prefix(c09Content(evs), in.Nth(2).Nth(2).Z)) {
		return Sx{}, false
	}
	cbs := []Sx{}
	source := buffer.UserProvided
	if srcK.Z == 1 {
		source = buffer.BackendProvided(func(valid bool) { cbs = append(cbs, AB(valid)) })
	}
	closed := func() int { return 0 }
	var b buffer.Buffer
	switch kind.Z {
	case 0:
		b = buffer.NewCASBufferFromByteSlice(dg, c09Content(evs), source)
	case 1:
		s := &c09ReaderSrc{evs: evs, attach: attach}
		closed = func() int { return s.closed }
		b = buffer.NewCASBufferFromReader(dg, s, source)
	default:
		s := &c09ChunkSrc{evs: evs, attach: attach}
		closed = func() int { return s.closed }
		b = buffer.NewCASBufferFromChunkReader(dg, s, source)
	}
	o := c09Consume(b, in.Nth(4))
	return L(LBytes(o.data), AI(o.code), LInts(o.extra), L(cbs...), AI(closed()), LBytes(o.aux)), true
}

func c09TableCovers(t Sx, fn remoteexecution.DigestFunction_Value, size int64, need ...[]byte) bool {
	have := map[string]bool{}
	for _, e := range t.List {
		c := e.Nth(0).Bytes()
		h, ok := c09Hash(fn, size, c)
		if !ok || string(h) != string(e.Nth(1).Bytes()) {
			return false
		}
		have[string(c)] = true
	}
	for _, n := range need {
		if !have[string(n)] {
			return false
		}
	}
	return true
}

func c09CheckTable(t Sx) bool {
	if t.IsAtom {
		return false
	}
	for _, e := range t.List {
		if e.IsAtom || e.Len() != 2 || !c09IsBytes(e.Nth(0)) || !c09IsBytes(e.Nth(1)) {
			return false
		}
	}
	return true
}

// ---- generation ----

func c09RandBytes(r *Rand, n int) []byte {
	b := make([]byte, n)
	for i := range b {
		b[i] = byte(97 + r.Intn(4))
	}
	return b
}

// c09Split cuts data into chunks, with empty chunks sprinkled in.
func c09Split(r *Rand, data []byte) [][]byte {
	chunks := [][]byte{}
	style := r.Intn(5)
	for len(data) > 0 {
		var n int
		switch style {
		case 0:
			n = len(data)
		case 1:
			n = 1
		case 2:
			n = 1 + r.Intn(3)
		default:
			n = 1 + r.Intn(len(data))
		}
		if n > len(data) {
			n = len(data)
		}
		if r.Chance(12) {
			chunks = append(chunks, []byte{})
		}
		chunks = append(chunks, data[:n])
		data = data[n:]
	}
	if r.Chance(20) {
		chunks = append(chunks, []byte{})
	}
	return chunks
}

var c09Codes = []int{14, 14, 13, 3, 5, 4, 2, 10}

type c09Stream struct {
	fn      remoteexecution.DigestFunction_Value
	hash    []byte
	size    int64
	good    []byte
	content []byte
	events  []Sx
	attach  bool
}

// c09GenStream draws a digest and a script that is valid, or broken in one
// of the ways the property names.
func c09GenStream(r *Rand, allowFaults bool) c09Stream {
	fn := c09Functions[r.Intn(len(c09Functions))]
	n := r.Pick([]int{0, 0, 1, 1, 2, 3, 4, 5, 6, 8, 9, 12, 16, 17, 24, 33})
	good := c09RandBytes(r, n)
	content := append([]byte{}, good...)
	size := int64(n)
	flipHash := false
	if allowFaults {
		switch r.Intn(20) {
		case 0: // truncated
			if n > 0 {
				content = content[:r.Intn(n)]
			}
		case 1: // trailing data
			content = append(content, c09RandBytes(r, 1+r.Intn(3))...)
		case 2: // one byte differs
			if n > 0 {
				content[r.Intn(n)] ^= 1
			}
		case 3: // digest states another size
			size = int64(r.Pick([]int{0, n + 1, n + 2, 2 * n, n - 1, n / 2}))
			if size < 0 {
				size = 0
			}
		case 4:
			flipHash = true
		case 5: // empty content
			content = []byte{}
		}
	}
	hash, _ := c09Hash(fn, size, good)
	if flipHash {
		hash[r.Intn(len(hash))] ^= 0x10
	}
	events := []Sx{}
	for _, c := range c09Split(r, content) {
		events = append(events, L(A(0), LBytes(c)))
	}
	if allowFaults && r.Chance(22) {
		// I/O error at any position, including after the last chunk.
		k := r.Intn(len(events) + 1)
		ev := L(A(1), AI(r.Pick(c09Codes)))
		events = append(events[:k], append([]Sx{ev}, events[k:]...)...)
	} else if r.Chance(30) {
		events = append(events, L(A(2)))
		if r.Chance(15) {
			events = append(events, L(A(0), LBytes(c09RandBytes(r, 1+r.Intn(2)))))
		}
	}
	if allowFaults && r.Chance(4) {
		// early EOF in the middle
		k := r.Intn(len(events) + 1)
		events = append(events[:k], append([]Sx{L(A(2))}, events[k:]...)...)
	}
	return c09Stream{fn: fn, hash: hash, size: size, good: good, content: content, events: events, attach: r.Chance(40)}
}

func c09GenMethod(r *Rand, size int) Sx {
	offs := []int{0, 0, 0, 1, size / 2, size - 1, size, size, size + 1, -1}
	off := r.Pick(offs)
	if off < -1 {
		off = 0
	}
	maxChunk := r.Pick([]int{1, 2, 3, 4, 7, 64, 65536})
	extra := r.Pick([]int{0, 0, 1, 2})
	switch r.Intn(14) {
	case 0, 1:
		return L(A(0), AI(r.Pick([]int{size, size, size + 5, 1000, size - 1, 0})))
	case 2, 3:
		return L(A(1))
	case 4, 5, 6:
		return L(A(2), AI(r.Pick([]int{0, 1, 2, size / 2, size, size + 1, size + 3})), AI(off))
	case 7, 8, 9:
		return L(A(3), AI(off), AI(maxChunk), AI(extra))
	case 10, 11:
		k := 1 + r.Intn(3)
		caps := make([]int, k)
		for i := range caps {
			caps[i] = r.Pick([]int{1, 1, 2, 3, 5, 8, 64, 4096})
		}
		return L(A(4), LInts(caps), AI(extra))
	case 12:
		return L(A(5), AI(r.Pick([]int{size, size + 5, 1000, size - 1})))
	}
	return L(A(6))
}

func c09Table(fn remoteexecution.DigestFunction_Value, size int64, contents ...[]byte) Sx {
	seen := map[string]bool{}
	rows := []Sx{}
	for _, c := range contents {
		if seen[string(c)] {
			continue
		}
		seen[string(c)] = true
		h, _ := c09Hash(fn, size, c)
		rows = append(rows, L(LBytes(c), LBytes(h)))
	}
	return L(rows...)
}

func c09Prefix(b []byte, n int64) []byte {
	if int64(len(b)) > n {
		return b[:n]
	}
	return b
}

func (c09) Gen(r *Rand, i int, tier string) Sx {
	if r.Chance(8) {
		return c09GenHostile(r)
	}
	s := c09GenStream(r, true)
	kind := r.Intn(3)
	if kind == 0 {
		s.events = []Sx{L(A(0), LBytes(s.content))}
	}
	m := c09GenMethod(r, int(s.size))
	for m.Nth(0).Int() == 0 && m.Nth(1).Z < 0 || m.Nth(0).Int() == 5 && m.Nth(1).Z < 0 {
		m = c09GenMethod(r, int(s.size))
	}
	evs, _ := c09ParseEvents(L(s.events...))
	actual := c09Content(evs)
	tbl := c09Table(s.fn, s.size, s.good, s.content, actual, c09Prefix(actual, s.size))
	return L(AI(kind), AI(r.Pick([]int{0, 1, 1})), L(AI(int(s.fn)), LBytes(s.hash), A(s.size)),
		L(AB(s.attach), L(s.events...)), m, tbl)
}

// c09GenHostile: scripts unrelated to the digest, events after EOF, several errors.
func c09GenHostile(r *Rand) Sx {
	fn := c09Functions[r.Intn(len(c09Functions))]
	good := c09RandBytes(r, r.Intn(6))
	size := int64(r.Intn(7))
	hash, _ := c09Hash(fn, size, good)
	events := []Sx{}
	content := []byte{}
	open := true
	for k := r.Intn(7); k > 0; k-- {
		switch r.Intn(6) {
		case 0:
			events = append(events, L(A(1), AI(r.Pick(c09Codes))))
			open = false
		case 1:
			events = append(events, L(A(2)))
			open = false
		default:
			c := c09RandBytes(r, r.Intn(4))
			events = append(events, L(A(0), LBytes(c)))
			if open {
				content = append(content, c...)
			}
		}
	}
	kind := r.Intn(3)
	if kind == 0 {
		events = []Sx{L(A(0), LBytes(content))}
	}
	m := c09GenMethod(r, int(size))
	for (m.Nth(0).Int() == 0 || m.Nth(0).Int() == 5) && m.Nth(1).Z < 0 {
		m = c09GenMethod(r, int(size))
	}
	tbl := c09Table(fn, size, good, content, c09Prefix(content, size))
	return L(AI(kind), AI(r.Intn(2)), L(AI(int(fn)), LBytes(hash), A(size)), L(AB(r.Bool()), L(events...)), m, tbl)
}

func (c09) Class(in, obs Sx) (string, bool) {
	kind := []string{"byteslice", "reader", "chunkreader"}[in.Nth(0).Int()%3]
	meth := []string{"ToByteSlice", "IntoWriter", "ReadAt", "ToChunkReader", "ToReader", "CloneCopy", "Discard"}[in.Nth(4).Nth(0).Int()%7]
	evs, _ := c09ParseEvents(in.Nth(3).Nth(1))
	size := in.Nth(2).Nth(2).Z
	content := c09Content(evs)
	term := "eof"
	pos := 0
	for _, e := range evs {
		if e.kind == 1 {
			term = "ioerr"
		}
		if e.kind != 0 {
			break
		}
		pos++
	}
	rel := "eq"
	if int64(len(content)) < size {
		rel = "short"
	} else if int64(len(content)) > size {
		rel = "long"
	}
	code := obs.Nth(1).Int()
	out := "code" + strconv.Itoa(code)
	switch code {
	case 0:
		out = "ok"
	case -1:
		out = "eof"
	}
	return kind + "/" + meth + "/" + out + "/" + term + "-" + rel, len(evs) >= 2 || rel != "eq" || term != "eof"
}
