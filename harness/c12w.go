package main

// C12W — sub-check of C12: the wiring of the sharding backend in
// pkg/blobstore/configuration/new_blob_access.go.  The composite is built by the
// real NewBlobAccessFromConfiguration from a configuration message whose shards
// map gives every shard an ERROR backend carrying that shard's key; a Get per
// digest then shows which shard the selector chose ("Shard <key>:" annotation)
// and which backend was actually reached (the backend's own message).
//
// Input: (2 cfg digests)   cfg, digests as in C12's blob-access cases
// Observation: ((selected reached1 reached2 reached3) ...) indices into cfg (three constructions
//              from the same message), -1 = not recognisable;
//              (-3) when the constructor rejects the configuration.

import (
	"context"
	"strings"

	"github.com/buildbarn/bb-storage/pkg/blobstore/configuration"
	pb "github.com/buildbarn/bb-storage/pkg/proto/configuration/blobstore"

	"google.golang.org/genproto/googleapis/rpc/status"
	"google.golang.org/grpc/codes"
	grpcstatus "google.golang.org/grpc/status"
)

func init() { props["C12W"] = c12w{} }

type c12w struct{}

func (c12w) Exec(in Sx) (Sx, bool) {
	if in.IsAtom || in.Len() != 3 || in.Nth(0).Int() != 2 {
		return Sx{}, false
	}
	cfg := in.Nth(1)
	all := make([]int, cfg.Len())
	seen := map[string]bool{}
	for i := range all {
		all[i] = i
	}
	shards, ok := c12Shards(cfg, all)
	if !ok {
		return Sx{}, false
	}
	m := map[string]*pb.ShardingBlobAccessConfiguration_Shard{}
	for _, s := range shards {
		if seen[s.Key] || s.Weight == 0 {
			return Sx{}, false // a configuration map cannot repeat a key; zero weights are C12's own cases
		}
		seen[s.Key] = true
		m[s.Key] = &pb.ShardingBlobAccessConfiguration_Shard{
			Weight: s.Weight,
			Backend: &pb.BlobAccessConfiguration{Backend: &pb.BlobAccessConfiguration_Error{
				Error: &status.Status{Code: int32(codes.Unavailable), Message: "backend<" + s.Key + ">"},
			}},
		}
	}
	if len(m) == 0 {
		return Sx{}, false
	}
	// The composite is constructed three times from the same message: Go randomises the
	// iteration order of the shards map on every construction, so routing that depends on
	// that order (a listing order) shows up as different backends for one digest.
	build := func() (configuration.BlobAccessInfo, error) {
		return configuration.NewBlobAccessFromConfiguration(nil,
			&pb.BlobAccessConfiguration{Backend: &pb.BlobAccessConfiguration_Sharding{Sharding: &pb.ShardingBlobAccessConfiguration{Shards: m}}},
			configuration.NewCASBlobAccessCreator(nil, 1<<20, nil))
	}
	infos := []configuration.BlobAccessInfo{}
	for k := 0; k < 3; k++ {
		info, err := build()
		if err != nil {
			return L(A(-3)), true
		}
		infos = append(infos, info)
	}
	digests := in.Nth(2)
	out := []Sx{}
	for i := 0; i < digests.Len(); i++ {
		if digests.Nth(i).IsAtom || digests.Nth(i).Len() != 2 {
			return Sx{}, false
		}
		row := []Sx{}
		for k, info := range infos {
			_, err := info.BlobAccess.Get(context.Background(), c12Digest(digests, i)).ToByteSlice(1 << 20)
			msg := grpcstatus.Convert(err).Message()
			sel, reached := -1, -1
			for j, s := range shards {
				if strings.Contains(msg, "Shard "+s.Key+":") {
					sel = j
				}
				if strings.Contains(msg, "backend<"+s.Key+">") {
					reached = j
				}
			}
			if k == 0 {
				row = append(row, AI(sel))
			}
			row = append(row, AI(reached))
		}
		out = append(out, L(row...))
	}
	return L(out...), true
}

func (c12w) Gen(r *Rand, i int, tier string) Sx {
	n := 1 + r.Intn(7)
	cfg := c12Pool(r, n)
	nd := 4 + r.Intn(12)
	ds := []Sx{}
	for k := 0; k < nd; k++ {
		ds = append(ds, L(AU(c12Hash(r)), AI(r.Intn(len(c12Inst)))))
	}
	return L(A(2), L(cfg...), L(ds...))
}

func (c12w) Class(in, obs Sx) (string, bool) {
	if obs.Len() == 1 && obs.Nth(0).IsAtom {
		return "wiring/rejected", false
	}
	if in.Nth(1).Len() >= 2 {
		return "wiring/multi", true
	}
	return "wiring/single", false
}
