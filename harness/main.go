// Command harness executes generated or replayed cases against the real
// bb-storage implementation and writes one line per case:
//   <input-sx> TAB <observation-sx>
// The same lines are then judged by the extracted Coq model (ocaml/driver).
package main

import (
	"bufio"
	"encoding/json"
	"flag"
	"fmt"
	"os"
	"sort"
	"strings"
)

// Prop is the per-property plug-in.
type Prop interface {
	// Gen produces the i-th input of a run.
	Gen(r *Rand, i int, tier string) Sx
	// Exec runs the implementation on one input; ok=false means the
	// input is not a well-formed case (used while shrinking).
	Exec(in Sx) (obs Sx, ok bool)
	// Class names the distribution bucket of a case (for evidence; its
	// first path component is the "site" used in finding signatures) and
	// says whether the case is non-trivial by the property's rule.
	Class(in, obs Sx) (string, bool)
}

var props = map[string]Prop{}

func main() {
	prop := flag.String("prop", "", "property id")
	seed := flag.Uint64("seed", 1, "seed")
	n := flag.Int("n", 100, "number of generated cases")
	tier := flag.String("tier", "quick", "quick|thorough")
	out := flag.String("out", "", "output file")
	replay := flag.String("replay", "", "file with inputs (first column) to execute instead of generating")
	stats := flag.String("stats", "", "write class histogram JSON here")
	flag.Parse()
	p, ok := props[*prop]
	if !ok {
		fmt.Fprintf(os.Stderr, "unknown property %q\n", *prop)
		os.Exit(2)
	}
	w := bufio.NewWriter(os.Stdout)
	if *out != "" {
		f, err := os.Create(*out)
		if err != nil {
			panic(err)
		}
		defer f.Close()
		w = bufio.NewWriterSize(f, 1<<20)
	}
	defer w.Flush()
	hist := map[string]int{}
	distinct := map[string]struct{}{}
	distinctNT := map[string]struct{}{}
	run := func(in Sx) {
		obs, ok := safeExec(p, in)
		if !ok {
			fmt.Fprintf(w, "# BADCASE %s\n", in.String())
			return
		}
		is := in.String()
		c, nt := p.Class(in, obs)
		fmt.Fprintf(w, "%s\t%s\t%s\n", is, obs.String(), c)
		hist[c]++
		distinct[is] = struct{}{}
		if nt {
			distinctNT[is] = struct{}{}
		}
	}
	if *replay != "" {
		f, err := os.Open(*replay)
		if err != nil {
			panic(err)
		}
		sc := bufio.NewScanner(f)
		sc.Buffer(make([]byte, 1<<20), 1<<28)
		for sc.Scan() {
			line := sc.Text()
			if line == "" || line[0] == '#' {
				continue
			}
			if t := strings.IndexByte(line, '\t'); t >= 0 {
				line = line[:t]
			}
			in, err := ParseSx(line)
			if err != nil {
				fmt.Fprintf(w, "# BADPARSE %v\n", err)
				continue
			}
			run(in)
		}
		f.Close()
	} else {
		r := NewRand(*seed)
		for i := 0; i < *n; i++ {
			run(p.Gen(r.Fork(), i, *tier))
		}
	}
	if *stats != "" {
		keys := make([]string, 0, len(hist))
		for k := range hist {
			keys = append(keys, k)
		}
		sort.Strings(keys)
		b, _ := json.Marshal(map[string]interface{}{"classes": hist, "distinct_inputs": len(distinct), "distinct_nontrivial": len(distinctNT)})
		os.WriteFile(*stats, b, 0o644)
	}
}

// safeExec converts a panic inside the implementation into the observation
// (PANIC) = (-1), which no model ever predicts.
func safeExec(p Prop, in Sx) (obs Sx, ok bool) {
	defer func() {
		if r := recover(); r != nil {
			obs = L(A(-1))
			ok = true
			fmt.Fprintf(os.Stderr, "panic in case %s: %v\n", in.String(), r)
		}
	}()
	return p.Exec(in)
}
