package main

import (
	"crypto/sha256"
	"encoding/hex"
	"fmt"
	"sort"
)

func stAncSx(anc [][]int) Sx {
	l := []Sx{}
	for _, a := range anc {
		l = append(l, LInts(a))
	}
	return L(l...)
}

// stDigestString is the packed digest string by which digest.Set orders.
func stDigestString(objs [][]byte, names []string, o, i int) string {
	h := sha256.Sum256(objs[o])
	return fmt.Sprintf("1-%s-%d-%s", hex.EncodeToString(h[:]), len(objs[o]), names[i])
}

func init() {
	props["C01"] = stProp{flavor: "c01"}
}

// stProp is the plug-in shared by the local-store properties; the flavour
// biases the generator towards the mechanism of the property.
type stProp struct{ flavor string }

func (p stProp) Exec(in Sx) (Sx, bool) { return stExec(in) }

type stGenThread struct {
	fed    int
	size   int
	kind   int // 1 put, 2 get, 3 gfc
	chunks [][]byte
	endErr int
	slices []Sx
}

var stAncTemplates = [][][]int{
	{{0}},
	{{0}, {0, 1}},
	{{0}, {0, 1}, {0, 2}},
	{{0}, {0, 1}, {0, 2}, {0, 1, 3}},
	{{0}, {0, 1}, {0, 1, 2}, {0, 1, 2, 3}},
}

func stSplit(r *Rand, data []byte) [][]byte {
	chunks := [][]byte{}
	for len(data) > 0 {
		n := 1 + r.Intn(len(data))
		if r.Chance(30) {
			n = len(data)
		}
		chunks = append(chunks, data[:n])
		data = data[n:]
		if r.Chance(10) {
			chunks = append(chunks, []byte{}) // empty chunk
		}
	}
	return chunks
}

func (p stProp) Gen(r *Rand, idx int, tier string) Sx {
	bs := r.Pick([]int{16, 16, 32, 64})
	sector := r.Pick([]int{1, 4, 16})
	old := r.Pick([]int{0, 1, 1, 2, 2, 3})
	cur := r.Pick([]int{0, 1, 1, 2})
	nw := r.Pick([]int{1, 1, 2, 3})
	mutable := r.Chance(25)
	if mutable {
		nw = 1
		cur = 1 + r.Intn(3)
	}
	hier := false
	instKeys := r.Chance(40)
	nblocks := 0
	validate := false
	if r.Chance(65) {
		nblocks = old + cur + nw + 1 + r.Intn(3)
		validate = r.Chance(55)
	}
	corrupt := false
	switch p.flavor {
	case "c10":
		hier = true
	case "c08":
		if nblocks == 0 {
			nblocks = old + cur + nw + 1 + r.Intn(3)
		}
		validate = true
		corrupt = true
		sector = 1 // with larger sectors the in-memory images of shared sectors rewrite (heal) corrupted bytes
		hier = r.Chance(30)
	case "c04":
		if nblocks == 0 {
			nblocks = old + cur + nw + 1 + r.Intn(2)
		}
		hier = r.Chance(35)
	default:
		hier = r.Chance(20)
	}
	if hier {
		instKeys = true
	}
	anc := stAncTemplates[r.Intn(len(stAncTemplates))]
	if !hier && !instKeys {
		anc = stAncTemplates[r.Intn(2)]
	}
	// objects
	sizes := []int{0, 1, 2, bs / 4, bs / 2, bs/2 + 1, bs - 1, bs, sector, sector + 1, 3, 5}
	nobj := 4 + r.Intn(4)
	objs := [][]byte{}
	for k := 0; k < nobj; k++ {
		sz := sizes[r.Intn(len(sizes))]
		if r.Chance(4) {
			sz = bs + 1 // does not fit any block
		}
		b := make([]byte, sz)
		for j := range b {
			b[j] = byte(1 + r.Intn(250))
		}
		if sz > 0 {
			b[0] = byte(k + 1) // distinct contents
		}
		dup := false
		for _, prev := range objs {
			if string(prev) == string(b) {
				dup = true
			}
		}
		if dup {
			k--
			continue
		}
		objs = append(objs, b)
	}
	// composite: children of the first two objects that are large enough
	type comp struct {
		parent int
		slices []Sx
	}
	comps := []comp{}
	for k := 0; k < nobj && len(comps) < 2; k++ {
		if len(objs[k]) >= 4 {
			n := len(objs[k])
			cut := 1 + r.Intn(n-2)
			c0 := len(objs)
			ch0 := append([]byte(nil), objs[k][:cut]...)
			ch1 := append([]byte(nil), objs[k][cut:]...)
			dup := string(ch0) == string(ch1)
			for _, prev := range objs {
				if string(prev) == string(ch0) || string(prev) == string(ch1) {
					dup = true
				}
			}
			if dup {
				continue
			}
			objs = append(objs, ch0, ch1)
			comps = append(comps, comp{parent: k, slices: []Sx{L(AI(c0), A(0), AI(cut)), L(AI(c0+1), AI(cut), AI(n-cut))}})
		}
	}
	nops := 15 + r.Intn(30)
	if tier == "thorough" {
		nops = 20 + r.Intn(80)
	}
	threads := map[int]*stGenThread{}
	nextTid := 0
	ops := []Sx{}
	inst := func() int { return r.Intn(len(anc)) }
	for len(ops) < nops {
		// directed visibility scenario (hierarchical): the same object uploaded under two
		// unrelated names, aged by a rotation burst, refreshed through one name, then an
		// existence check through (a descendant of) the other name, then reads under
		// every name: only descendants of the two uploaders may see it
		if (p.flavor == "c10" || p.flavor == "c04") && hier && len(threads) == 0 && r.Chance(10) && len(anc) >= 3 {
			unrelated := [][2]int{}
			for a := 1; a < len(anc); a++ {
				for b := 1; b < len(anc); b++ {
					if a == b {
						continue
					}
					rel := false
					for _, x := range anc[b] {
						if x == a {
							rel = true
						}
					}
					for _, x := range anc[a] {
						if x == b {
							rel = true
						}
					}
					if !rel {
						unrelated = append(unrelated, [2]int{a, b})
					}
				}
			}
			small, big := []int{}, []int{}
			for o := 0; o < nobj; o++ {
				if len(objs[o]) > 0 && len(objs[o])*4 <= bs {
					small = append(small, o)
				}
				if len(objs[o])*2 > bs && len(objs[o]) <= bs {
					big = append(big, o)
				}
			}
			if len(unrelated) > 0 && len(small) > 0 && len(big) > 0 {
				pr := unrelated[r.Intn(len(unrelated))]
				x := small[r.Intn(len(small))]
				put := func(o, i int) {
					t := nextTid
					nextTid++
					ops = append(ops, L(A(1), AI(t), AI(o), AI(i)), L(A(2), AI(t), LBytes(objs[o])), L(A(3), AI(t), A(0)))
				}
				get := func(o, i int) {
					t := nextTid
					nextTid++
					ops = append(ops, L(A(4), AI(t), AI(o), AI(i)), L(A(5), AI(t)))
				}
				if r.Chance(30) && len(objs[x]) >= 2 {
					// racing uploads of one object under the two unrelated names: the one under
					// pr[0] starts first, carries WRONG content and finishes last; the valid one
					// under pr[1] completes in between.  The invalid uploader must fail and gain
					// no visibility from the other's copy.
					t0 := nextTid
					nextTid++
					bad := append([]byte(nil), objs[x]...)
					bad[len(bad)-1] ^= 0x55
					cut := 1 + r.Intn(len(bad)-1)
					ops = append(ops, L(A(1), AI(t0), AI(x), AI(pr[0])), L(A(2), AI(t0), LBytes(bad[:cut])))
					put(x, pr[1])
					ops = append(ops, L(A(2), AI(t0), LBytes(bad[cut:])), L(A(3), AI(t0), A(0)))
					for j := range anc {
						get(x, j)
					}
					continue
				}
				put(x, pr[0])
				put(x, pr[1])
				for k := cur + nw + r.Intn(2); k > 0; k-- {
					put(big[r.Intn(len(big))], 0)
				}
				get(x, pr[1])
				desc := pr[0]
				for j := range anc {
					for _, a := range anc[j] {
						if a == pr[0] && r.Chance(50) {
							desc = j
						}
					}
				}
				if r.Chance(50) {
					ops = append(ops, L(A(6), L(L(AI(x), AI(desc)))))
				} else {
					// read through the name whose lookup entry is stale while the canonical
					// entry has been refreshed through the other name
					get(x, desc)
				}
				for j := range anc {
					get(x, j)
				}
				continue
			}
		}
		// directed "mixed refresh" scenario (hierarchical; seeded change C01-g): X is uploaded and aged
		// into the old blocks by a burst, fresh small objects are uploaded, then ONE existence check
		// asks for X together with fresh objects (some sorting before X, some after) - only X needs
		// a refresh - and everything is read back under the uploaders' names
		if hier && len(threads) == 0 && len(ops)+14 < nops && r.Chance(8) {
			small, big := []int{}, []int{}
			for o := 0; o < nobj; o++ {
				if len(objs[o]) > 0 && len(objs[o])*4 <= bs {
					small = append(small, o)
				}
				if len(objs[o])*2 > bs && len(objs[o]) <= bs {
					big = append(big, o)
				}
			}
			if len(small) >= 3 && len(big) > 0 {
				put := func(o, i int) {
					t := nextTid
					nextTid++
					ops = append(ops, L(A(1), AI(t), AI(o), AI(i)), L(A(2), AI(t), LBytes(objs[o])), L(A(3), AI(t), A(0)))
				}
				get := func(o, i int) {
					t := nextTid
					nextTid++
					ops = append(ops, L(A(4), AI(t), AI(o), AI(i)), L(A(5), AI(t)))
				}
				x := small[0]
				ix := inst()
				put(x, ix)
				for k := cur + nw + r.Intn(2); k > 0; k-- {
					put(big[r.Intn(len(big))], ix)
				}
				fresh := small[1:]
				for _, y := range fresh {
					put(y, ix)
				}
				ds := []Sx{L(AI(x), AI(ix))}
				for _, y := range fresh {
					ds = append(ds, L(AI(y), AI(ix)))
				}
				names, _ := stInstanceNames(stAncSx(anc))
				sort.Slice(ds, func(a, b int) bool {
					return stDigestString(objs, names, ds[a].Nth(0).Int(), ds[a].Nth(1).Int()) <
						stDigestString(objs, names, ds[b].Nth(0).Int(), ds[b].Nth(1).Int())
				})
				ops = append(ops, L(A(6), L(ds...)))
				get(x, ix)
				for _, y := range fresh {
					get(y, ix)
				}
				continue
			}
		}
		// directed "newer blocks unaffected" scenario: corrupt exactly one region, make the
		// affected object old, fill the newest block so that the refresh allocation of a
		// read of that object has to rotate, read it (detection), then read the others
		if corrupt && nblocks > 0 && len(threads) == 0 && len(ops) < 6 && r.Chance(45) {
			small, big := []int{}, []int{}
			for o := 0; o < nobj; o++ {
				if len(objs[o]) > 0 && len(objs[o])*4 <= bs {
					small = append(small, o)
				}
				if len(objs[o])*2 > bs && len(objs[o]) <= bs {
					big = append(big, o)
				}
			}
			if len(small) >= 2 && len(big) > 0 {
				put := func(o, i int) {
					t := nextTid
					nextTid++
					ops = append(ops, L(A(1), AI(t), AI(o), AI(i)), L(A(2), AI(t), LBytes(objs[o])), L(A(3), AI(t), A(0)))
				}
				get := func(o, i int) {
					t := nextTid
					nextTid++
					ops = append(ops, L(A(4), AI(t), AI(o), AI(i)), L(A(5), AI(t)))
				}
				a := small[0]
				put(a, 0)
				for k := cur + nw + r.Intn(2); k > 0; k-- {
					put(big[r.Intn(len(big))], 0)
					put(small[1+r.Intn(len(small)-1)], 0)
				}
				ops = append(ops, L(A(9), AI(r.Intn(2)), A(0), AI(bs)))
				get(a, 0)
				for _, o := range small[1:] {
					get(o, 0)
				}
				continue
			}
		}
		// directed quarantine scenario: an upload is in flight into a block, the whole
		// medium is garbled, a read of an earlier object of that block detects it, and
		// only then the in-flight upload finishes (it must fail, and stay invisible)
		if corrupt && nblocks > 0 && r.Chance(12) {
			readerParked := false
			for _, t := range threads {
				if t.kind != 1 || (t.size > 0 && t.fed == t.size) {
					readerParked = true
				}
			}
			small := []int{}
			for o := 0; o < nobj; o++ {
				if len(objs[o]) > 0 && len(objs[o])*3 <= bs {
					small = append(small, o)
				}
			}
			if !readerParked && len(small) >= 2 {
				a := small[r.Intn(len(small))]
				b := small[r.Intn(len(small))]
				ia, ib := inst(), inst()
				ta, tb, tg, tg2 := nextTid, nextTid+1, nextTid+2, nextTid+3
				nextTid += 4
				ops = append(ops, L(A(1), AI(ta), AI(a), AI(ia)), L(A(2), AI(ta), LBytes(objs[a])), L(A(3), AI(ta), A(0)))
				ops = append(ops, L(A(1), AI(tb), AI(b), AI(ib)))
				cut := r.Intn(len(objs[b])) // strictly inside: the completing chunk comes after the corruption
				ops = append(ops, L(A(2), AI(tb), LBytes(objs[b][:cut])))
				for reg := 0; reg < nblocks; reg++ {
					ops = append(ops, L(A(9), AI(reg), A(0), AI(bs)))
				}
				ops = append(ops, L(A(4), AI(tg), AI(a), AI(ia)), L(A(5), AI(tg)))
				ops = append(ops, L(A(2), AI(tb), LBytes(objs[b][cut:])), L(A(3), AI(tb), A(0)))
				ops = append(ops, L(A(4), AI(tg2), AI(b), AI(ib)), L(A(5), AI(tg2)))
				continue
			}
		}
		// directed "two detections, newer first" scenario: two objects in different blocks,
		// both blocks corrupted (no reader open yet), a healthy object uploaded afterwards;
		// readers on both objects are obtained BEFORE anything is detected; the newer
		// object's reader is consumed first (detection: quarantine up to its block), then
		// the older one's (a second detection with a lower boundary): the quarantine must
		// not move backwards - the newer object stays unreadable, the healthy one readable.
		if corrupt && nblocks > 0 && len(threads) == 0 && len(ops)+16 < nops && r.Chance(10) {
			big := []int{}
			for o := 0; o < nobj; o++ {
				if len(objs[o])*2 > bs && len(objs[o]) <= bs {
					big = append(big, o)
				}
			}
			if len(big) >= 2 {
				ai := r.Intn(len(big))
				a := big[ai]
				b := big[(ai+1+r.Intn(len(big)-1))%len(big)]
				w := r.Intn(nobj)
				ia, ib := inst(), inst()
				up := func(o, i int) {
					tid := nextTid
					nextTid++
					ops = append(ops, L(A(1), AI(tid), AI(o), AI(i)))
					for _, c := range stSplit(r, objs[o]) {
						ops = append(ops, L(A(2), AI(tid), LBytes(c)))
					}
					ops = append(ops, L(A(3), AI(tid), A(0)))
				}
				up(a, ia)
				up(b, ib)
				for reg := 0; reg < nblocks; reg++ {
					ops = append(ops, L(A(9), AI(reg), A(0), AI(bs)))
				}
				if w != a && w != b {
					up(w, inst())
				}
				ta, tb := nextTid, nextTid+1
				nextTid += 2
				ops = append(ops, L(A(4), AI(ta), AI(a), AI(ia)), L(A(4), AI(tb), AI(b), AI(ib)))
				ops = append(ops, L(A(5), AI(tb)), L(A(5), AI(ta)))
				for _, x := range [][2]int{{b, ib}, {a, ia}} {
					tid := nextTid
					nextTid++
					ops = append(ops, L(A(4), AI(tid), AI(x[0]), AI(x[1])), L(A(5), AI(tid)))
				}
				continue
			}
		}
		// directed "held across a full turn" scenario: a reader is obtained (or an upload is
		// started and stalled), the block list then makes a full turn and one more allocation -
		// the block is released and its space handed out again - and only then is the reader
		// consumed (the upload resumed).  What comes back must be the object's bytes or an
		// error, never another object's bytes; the later objects must stay intact.
		if len(threads) == 0 && len(ops)+20 < nops && r.Chance(6) {
			big := []int{}
			for o := 0; o < nobj; o++ {
				if len(objs[o])*2 >= bs && len(objs[o]) <= bs {
					big = append(big, o)
				}
			}
			if len(big) > 0 {
				target := r.Intn(nobj)
				ti := inst()
				up := func(o, i int) {
					tid := nextTid
					nextTid++
					ops = append(ops, L(A(1), AI(tid), AI(o), AI(i)))
					for _, ch := range stSplit(r, objs[o]) {
						ops = append(ops, L(A(2), AI(tid), LBytes(ch)))
					}
					ops = append(ops, L(A(3), AI(tid), A(0)))
				}
				turn := func() []int {
					seen := []int{}
					for k := old + cur + nw + 1 + r.Intn(2); k > 0; k-- {
						o := big[r.Intn(len(big))]
						up(o, ti)
						seen = append(seen, o)
					}
					return seen
				}
				var later []int
				if r.Chance(60) {
					up(target, ti)
					tg := nextTid
					nextTid++
					ops = append(ops, L(A(4), AI(tg), AI(target), AI(ti)))
					later = turn()
					if r.Chance(50) && len(later) > 0 {
						// an existence check of an object that has aged meanwhile: its refresh has to
						// allocate while the held reader still pins a released block (with few spare
						// blocks the allocation fails - the source buffer must still be released)
						di := ti
						if !instKeys {
							di = 0
						}
						ops = append(ops, L(A(6), L(L(AI(later[0]), AI(di)))))
					}
					ops = append(ops, L(A(5), AI(tg)))
				} else if len(objs[target]) >= 2 {
					tu := nextTid
					nextTid++
					cut := 1 + r.Intn(len(objs[target])-1)
					ops = append(ops, L(A(1), AI(tu), AI(target), AI(ti)), L(A(2), AI(tu), LBytes(objs[target][:cut])))
					later = turn()
					ops = append(ops, L(A(2), AI(tu), LBytes(objs[target][cut:])), L(A(3), AI(tu), A(0)))
				}
				for _, o := range later {
					tg := nextTid
					nextTid++
					ops = append(ops, L(A(4), AI(tg), AI(o), AI(ti)), L(A(5), AI(tg)))
				}
				continue
			}
		}
		// directed "composite touch" scenario: a composite parent is uploaded and aged into the
		// old blocks; one of its children gets a fresher copy of its own (uploaded directly);
		// a composite read of that child must still refresh the PARENT: after old_blocks
		// further allocations the parent must be readable.
		if len(comps) > 0 && len(threads) == 0 && len(ops)+16 < nops && r.Chance(map[string]int{"c05": 12}[p.flavor]+5) {
			big := []int{}
			for o := 0; o < nobj; o++ {
				if len(objs[o])*2 >= bs && len(objs[o]) <= bs {
					big = append(big, o)
				}
			}
			c := comps[r.Intn(len(comps))]
			if len(big) > 0 {
				ti := inst()
				up := func(o, i int) {
					tid := nextTid
					nextTid++
					ops = append(ops, L(A(1), AI(tid), AI(o), AI(i)))
					for _, ch := range stSplit(r, objs[o]) {
						ops = append(ops, L(A(2), AI(tid), LBytes(ch)))
					}
					ops = append(ops, L(A(3), AI(tid), A(0)))
				}
				filler := func() int {
					o := big[r.Intn(len(big))]
					if o == c.parent && len(big) > 1 {
						o = big[(indexOf(big, c.parent)+1+r.Intn(len(big)-1))%len(big)]
					}
					return o
				}
				up(c.parent, ti)
				for k := cur + nw + r.Intn(old+1); k > 0; k-- {
					up(filler(), inst())
				}
				sl := append([]Sx(nil), c.slices...)
				if r.Chance(50) {
					sl[0], sl[1] = sl[1], sl[0]
				}
				child := sl[0].Nth(0).Int() // the child asked for is the first slice the slicer hands back
				up(child, ti)
				tid := nextTid
				nextTid++
				ops = append(ops, L(A(7), AI(tid), AI(c.parent), AI(ti), AI(child)), L(A(8), AI(tid), L(sl...)))
				for k := old + r.Intn(2); k > 0; k-- {
					up(filler(), inst())
				}
				tg := nextTid
				nextTid++
				ops = append(ops, L(A(4), AI(tg), AI(c.parent), AI(ti)), L(A(5), AI(tg)))
				continue
			}
		}
		// directed "age, then touch" scenario: an object is uploaded, aged into the old
		// blocks by complete uploads of large objects, and then read or checked for
		// existence: the refresh this triggers allocates space itself, and when the
		// copy does not fit the block in use the allocation rotates the block list
		// between the lookup of the old location and the copy.
		if len(threads) == 0 && len(ops)+12 < nops && r.Chance(map[string]int{"c05": 20}[p.flavor]+7) {
			big := []int{}
			for o := 0; o < nobj; o++ {
				if len(objs[o])*2 >= bs && len(objs[o]) <= bs {
					big = append(big, o)
				}
			}
			if len(big) > 0 {
				target := big[r.Intn(len(big))]
				if r.Chance(40) {
					target = r.Intn(nobj)
				}
				ti := inst()
				up := func(o, i int) {
					tid := nextTid
					nextTid++
					ops = append(ops, L(A(1), AI(tid), AI(o), AI(i)))
					for _, c := range stSplit(r, objs[o]) {
						ops = append(ops, L(A(2), AI(tid), LBytes(c)))
					}
					ops = append(ops, L(A(3), AI(tid), A(0)))
				}
				// sometimes a second, OLDER target: a multi-digest existence check over both
				// refreshes one of them first, and that refresh's allocation can rotate the
				// other one out before its turn comes
				target2, ti2 := -1, 0
				if len(big) > 1 && r.Chance(45) {
					target2 = big[(indexOf(big, target)+1+r.Intn(len(big)-1))%len(big)]
					if target2 == target {
						target2 = -1
					} else {
						ti2 = inst()
						up(target2, ti2)
					}
				}
				up(target, ti)
				for k := cur + nw + r.Intn(old+2); k > 0; k-- {
					o := big[r.Intn(len(big))]
					if o == target && len(big) > 1 {
						o = big[(r.Intn(len(big)-1)+1+indexOf(big, target))%len(big)]
					}
					up(o, inst())
				}
				if target2 >= 0 {
					d1, d2 := [2]int{target, ti}, [2]int{target2, ti2}
					if !instKeys {
						d1[1], d2[1] = 0, 0
					}
					names, _ := stInstanceNames(stAncSx(anc))
					ds := []Sx{L(AI(d1[0]), AI(d1[1])), L(AI(d2[0]), AI(d2[1]))}
					sort.Slice(ds, func(a, b int) bool {
						return stDigestString(objs, names, ds[a].Nth(0).Int(), ds[a].Nth(1).Int()) <
							stDigestString(objs, names, ds[b].Nth(0).Int(), ds[b].Nth(1).Int())
					})
					ops = append(ops, L(A(6), L(ds...)))
					for _, d := range [][2]int{{target2, ti2}, {target, ti}} {
						tid := nextTid
						nextTid++
						ops = append(ops, L(A(4), AI(tid), AI(d[0]), AI(d[1])), L(A(5), AI(tid)))
					}
					continue
				}
				for k := 1 + r.Intn(2); k > 0; k-- {
					if r.Chance(65) {
						tid := nextTid
						nextTid++
						ops = append(ops, L(A(4), AI(tid), AI(target), AI(ti)), L(A(5), AI(tid)))
					} else {
						di := ti
						if !instKeys {
							di = 0
						}
						ops = append(ops, L(A(6), L(L(AI(target), AI(di)))))
					}
				}
				continue
			}
		}
		// rotation burst while something is parked: complete uploads of large
		// objects force PushBack/PopFront under a held reader, an in-flight
		// writer or a slicer that dropped the lock
		if len(threads) > 0 && r.Chance(18) {
			big := []int{}
			for o := 0; o < nobj; o++ {
				if len(objs[o])*2 >= bs && len(objs[o]) <= bs {
					big = append(big, o)
				}
			}
			if len(big) > 0 {
				burst := 1 + r.Intn(4)
				if r.Chance(30) {
					// a full turn of the block list and one more allocation: the parked reader's or
					// writer's block is released and its space handed out again under it
					burst = old + cur + nw + 1 + r.Intn(2)
				}
				for k := burst; k > 0; k-- {
					o := big[r.Intn(len(big))]
					tid := nextTid
					nextTid++
					ops = append(ops, L(A(1), AI(tid), AI(o), AI(inst())))
					for _, c := range stSplit(r, objs[o]) {
						ops = append(ops, L(A(2), AI(tid), LBytes(c)))
					}
					ops = append(ops, L(A(3), AI(tid), A(0)))
				}
				continue
			}
		}
		// continue something in flight?
		if len(threads) > 0 && r.Chance(55) {
			var tid int
			k := r.Intn(len(threads))
			for t := range threads {
				if k == 0 {
					tid = t
				}
				k--
			}
			t := threads[tid]
			switch t.kind {
			case 1:
				if len(t.chunks) > 0 {
					ops = append(ops, L(A(2), AI(tid), LBytes(t.chunks[0])))
					t.fed += len(t.chunks[0])
					t.chunks = t.chunks[1:]
				} else {
					ops = append(ops, L(A(3), AI(tid), AI(t.endErr)))
					delete(threads, tid)
				}
			case 2:
				ops = append(ops, L(A(5), AI(tid)))
				delete(threads, tid)
			case 3:
				ops = append(ops, L(A(8), AI(tid), L(t.slices...)))
				delete(threads, tid)
			}
			continue
		}
		switch x := r.Intn(100); {
		case x < 38: // upload
			o := r.Intn(nobj)
			if r.Chance(15) && len(objs) > nobj {
				o = nobj + r.Intn(len(objs)-nobj) // upload a child object directly
			}
			data := append([]byte(nil), objs[o]...)
			endErr := 0
			switch y := r.Intn(100); {
			case y < 5 && len(data) > 0:
				data[r.Intn(len(data))] ^= 0x55 // wrong content
			case y < 8 && len(data) > 0:
				data = data[:len(data)-1] // too short
			case y < 11:
				data = append(data, 7) // too long
			case y < 16:
				endErr = []int{14, 13, 4, 1}[r.Intn(4)] // source failure
				if len(data) > 0 {
					data = data[:r.Intn(len(data))]
				}
			}
			tid := nextTid
			nextTid++
			threads[tid] = &stGenThread{kind: 1, chunks: stSplit(r, data), endErr: endErr, size: len(objs[o])}
			ops = append(ops, L(A(1), AI(tid), AI(o), AI(inst())))
			if r.Chance(55) { // run it to completion right away
				t := threads[tid]
				for _, c := range t.chunks {
					ops = append(ops, L(A(2), AI(tid), LBytes(c)))
				}
				ops = append(ops, L(A(3), AI(tid), AI(t.endErr)))
				delete(threads, tid)
			}
		case x < 68: // read
			o := r.Intn(len(objs))
			tid := nextTid
			nextTid++
			ops = append(ops, L(A(4), AI(tid), AI(o), AI(inst())))
			if r.Chance(75) {
				ops = append(ops, L(A(5), AI(tid)))
				if p.flavor == "c05" && r.Chance(40) { // immediate repeat
					tid2 := nextTid
					nextTid++
					last := ops[len(ops)-2]
					ops = append(ops, L(A(4), AI(tid2), last.Nth(2), last.Nth(3)), L(A(5), AI(tid2)))
				}
			} else {
				threads[tid] = &stGenThread{kind: 2}
			}
		case x < 83: // existence check
			n := 1 + r.Intn(4)
			seen := map[[2]int]bool{}
			ds := []Sx{}
			for k := 0; k < n; k++ {
				d := [2]int{r.Intn(len(objs)), inst()}
				if !instKeys {
					d[1] = 0
				}
				if seen[d] {
					continue
				}
				seen[d] = true
				ds = append(ds, L(AI(d[0]), AI(d[1])))
			}
			names, _ := stInstanceNames(stAncSx(anc))
			sort.Slice(ds, func(a, b int) bool {
				return stDigestString(objs, names, ds[a].Nth(0).Int(), ds[a].Nth(1).Int()) <
					stDigestString(objs, names, ds[b].Nth(0).Int(), ds[b].Nth(1).Int())
			})
			ops = append(ops, L(A(6), L(ds...)))
			if p.flavor == "c05" && r.Chance(40) {
				ops = append(ops, L(A(6), L(ds...)))
			}
		case x < 95 && len(comps) > 0: // composite read
			c := comps[r.Intn(len(comps))]
			sl := append([]Sx(nil), c.slices...)
			if r.Chance(50) {
				sl[0], sl[1] = sl[1], sl[0]
			}
			tid := nextTid
			nextTid++
			ops = append(ops, L(A(7), AI(tid), AI(c.parent), AI(inst()), sl[0].Nth(0)))
			threads[tid] = &stGenThread{kind: 3, slices: sl}
			if r.Chance(50) {
				ops = append(ops, L(A(8), AI(tid), L(sl...)))
				delete(threads, tid)
			}
		default:
			pendingFull := false
			for _, t := range threads {
				if t.kind != 1 || (t.size > 0 && t.fed == t.size) {
					pendingFull = true // a reader is open, or an upload's completing chunk is withheld
				}
			}
			if corrupt && nblocks > 0 && !pendingFull {
				off := r.Intn(bs)
				ln := 1 + r.Intn(bs-off)
				ops = append(ops, L(A(9), AI(r.Intn(nblocks)), AI(off), AI(ln)))
			}
		}
	}
	objSx := []Sx{}
	for _, o := range objs {
		objSx = append(objSx, LBytes(o))
	}
	ancSx := []Sx{}
	for _, a := range anc {
		ancSx = append(ancSx, LInts(a))
	}
	cfg := L(AI(bs), AI(old), AI(cur), AI(nw), AB(mutable), AI(nblocks), AB(hier), AB(instKeys), AB(validate), AI(sector))
	return L(cfg, L(objSx...), L(ancSx...), L(ops...))
}

func (p stProp) Class(in, obs Sx) (string, bool) {
	cfg := in.Nth(0)
	access := "flat"
	if cfg.Nth(6).Int() != 0 {
		access = "hier"
	}
	alloc := "mem"
	if cfg.Nth(5).Int() > 0 {
		alloc = "dev"
		if cfg.Nth(8).Int() != 0 {
			alloc = "devcas"
		}
	}
	// features reached, judged from the observations
	okReads, refusals, composite, notFoundAfterOK, concurrent := 0, 0, 0, 0, 0
	inflight := 0
	for k, op := range in.Nth(3).List {
		o := obs.Nth(k)
		switch op.Nth(0).Int() {
		case 1, 4, 7:
			if o.Nth(0).Int() == 1 {
				inflight++
				if inflight >= 2 {
					concurrent++
				}
			}
		case 3, 5, 8:
			if o.Nth(0).Int() == 0 && inflight > 0 {
				inflight--
			}
		}
		if (op.Nth(0).Int() == 5 || op.Nth(0).Int() == 8) && o.Nth(0).Int() == 0 {
			if o.Nth(1).Int() == 0 {
				okReads++
			} else if o.Nth(1).Int() == 5 && okReads > 0 {
				notFoundAfterOK++
			}
		}
		if op.Nth(0).Int() == 8 && o.Nth(0).Int() == 0 && o.Nth(1).Int() == 0 {
			composite++
		}
		if op.Nth(0).Int() == 3 && o.Nth(1).Int() != 0 {
			refusals++
		}
	}
	feat := ""
	if concurrent > 0 {
		feat += "+conc"
	}
	if composite > 0 {
		feat += "+comp"
	}
	if refusals > 0 {
		feat += "+failedput"
	}
	if notFoundAfterOK > 0 {
		feat += "+evict"
	}
	return fmt.Sprintf("%s/%s/%s%s", p.flavor, access, alloc, feat), okReads > 0 && (concurrent > 0 || composite > 0 || notFoundAfterOK > 0)
}

func indexOf(l []int, x int) int {
	for i, v := range l {
		if v == x {
			return i
		}
	}
	return 0
}
