package main

func init() { props["C10"] = stProp{flavor: "c10"} }
