package main

// C07 — persistence never stalls.  The REAL local.NewPersistentBlockList and
// local.NewPeriodicSyncer run with harness collaborators: a fake
// BlockAllocator, a gated DataSyncer, a gated PersistentStateStore and a
// virtual clock.  The two syncer loops run as real goroutines exactly as
// new_blob_access.go starts them; the case is a schedule (see coq/Run/R07.v
// for the format).  After every step the scheduler waits until both loops are
// blocked again (goroutine states from runtime.Stack) and records what each
// loop is doing.

import (
	"bytes"
	"context"
	"runtime"
	"strconv"
	"strings"
	"sync"
	"time"
	"unsafe"

	"github.com/buildbarn/bb-storage/pkg/blobstore/buffer"
	"github.com/buildbarn/bb-storage/pkg/blobstore/local"
	"github.com/buildbarn/bb-storage/pkg/clock"
	"github.com/buildbarn/bb-storage/pkg/digest"
	pb "github.com/buildbarn/bb-storage/pkg/proto/blobstore/local"

	"google.golang.org/grpc/codes"
	"google.golang.org/grpc/status"
)

func init() { props["C07"] = c07{} }

type c07 struct{}

var c07Base = time.Unix(100000, 0)

type c07Gate struct {
	kind    int // 0 DataSyncer, 1 WritePersistentState
	who     int // 0 release loop, 1 put loop
	n       int
	content Sx
	ch      chan int // 0 nil, 1 error, 2 terminate
}

type c07Timer struct {
	who      int
	retry    bool
	deadline int64
	ch       chan time.Time
}

type c07Block struct {
	e       *c07Env
	off     int64
	nextOff int64
	nextErr bool
}

type c07InitBlock struct {
	off, size, woff int64
	seeds           []uint64
	found           bool
}

type c07Upload struct {
	fin  local.BlockListPutFinalizer
	abs  int
	done bool
}

type c07Env struct {
	mu       sync.Mutex
	lock     sync.RWMutex // the store's global lock (sourceLock)
	now      int64
	gates    []*c07Gate
	timers   []*c07Timer
	dead     bool
	nSync    int
	nWrite   int
	released []int64
	panicMsg string
	goid     [2]int64
	pExited  bool
	inits    []c07InitBlock
	allocOK  bool
	nAlloc   int
	lastNew  *c07Block
	lastPut  *c07Block
	mirror   []*c07Block
	popCount int
	seedMap  map[uint64]uint64
	nSeed    uint64
	uploads  []*c07Upload
	bl       *local.PersistentBlockList
	cancel   context.CancelFunc
}

// ---- fake blocks and allocator ----

func (b *c07Block) Get(d digest.Digest, off, size int64, cb buffer.DataIntegrityCallback) buffer.Buffer {
	return buffer.NewBufferFromError(status.Error(codes.NotFound, "fake block"))
}
func (b *c07Block) HasSpace(size int64) bool { return true }
func (b *c07Block) Put(size int64) local.BlockPutWriter {
	b.e.lastPut = b
	off, fail := b.nextOff, b.nextErr
	return func(buf buffer.Buffer) local.BlockPutFinalizer {
		buf.Discard()
		return func() (int64, error) {
			if fail {
				return 0, status.Error(codes.Aborted, "fake block write failed")
			}
			return off, nil
		}
	}
}
func (b *c07Block) Release() {
	b.e.mu.Lock()
	b.e.released = append(b.e.released, b.off)
	b.e.mu.Unlock()
}

func (e *c07Env) NewBlock() (local.Block, *pb.BlockLocation, error) {
	if !e.allocOK {
		return nil, nil, status.Error(codes.ResourceExhausted, "No unused blocks available")
	}
	b := &c07Block{e: e, off: 10000 + 100*int64(e.nAlloc)}
	e.nAlloc++
	e.lastNew = b
	return b, &pb.BlockLocation{OffsetBytes: b.off, SizeBytes: 100}, nil
}

func (e *c07Env) NewBlockAtLocation(l *pb.BlockLocation, woff int64) (local.Block, bool) {
	for _, ib := range e.inits {
		if ib.off == l.OffsetBytes && ib.size == l.SizeBytes {
			if !ib.found {
				return nil, false
			}
			b := &c07Block{e: e, off: ib.off}
			e.mirror = append(e.mirror, b)
			return b, true
		}
	}
	return nil, false
}

// ---- identification of the calling loop ----

func c07Goid() int64 {
	var buf [64]byte
	n := runtime.Stack(buf[:], false)
	f := strings.Fields(string(buf[:n]))
	if len(f) < 2 {
		return -1
	}
	id, _ := strconv.ParseInt(f[1], 10, 64)
	return id
}

func (e *c07Env) who() int {
	id := c07Goid()
	if id == e.goid[0] {
		return 0
	}
	if id == e.goid[1] {
		return 1
	}
	return -1
}

func c07InRetrySleep() bool {
	pcs := make([]uintptr, 16)
	n := runtime.Callers(2, pcs)
	fr := runtime.CallersFrames(pcs[:n])
	for {
		f, more := fr.Next()
		if strings.Contains(f.Function, "logErrorAndSleep") {
			return true
		}
		if !more {
			return false
		}
	}
}

// ---- gated collaborators ----

func (e *c07Env) enter(kind int, content Sx) int {
	e.mu.Lock()
	if e.dead {
		e.mu.Unlock()
		runtime.Goexit()
	}
	w := e.who()
	g := &c07Gate{kind: kind, who: w, content: content, ch: make(chan int, 1)}
	if kind == 0 {
		e.nSync++
		g.n = e.nSync
	} else {
		e.nWrite++
		g.n = e.nWrite
	}
	e.gates = append(e.gates, g)
	e.dropTimers(w)
	e.mu.Unlock()
	r := <-g.ch
	if r == 2 {
		runtime.Goexit()
	}
	return r
}

func (e *c07Env) dropTimers(w int) {
	k := e.timers[:0]
	for _, t := range e.timers {
		if t.who != w {
			k = append(k, t)
		}
	}
	e.timers = k
}

func (e *c07Env) dataSyncer() error {
	if e.enter(0, L()) == 0 {
		return nil
	}
	return status.Error(codes.Internal, "injected sync failure")
}

func (e *c07Env) canon(seed uint64) uint64 {
	if c, ok := e.seedMap[seed]; ok {
		return c
	}
	c := 1000 + e.nSeed
	e.nSeed++
	e.seedMap[seed] = c
	return c
}

func (e *c07Env) ReadPersistentState() (*pb.PersistentState, error) {
	return nil, status.Error(codes.Unimplemented, "unused")
}

func (e *c07Env) WritePersistentState(ps *pb.PersistentState) error {
	e.mu.Lock()
	blocks := []Sx{}
	for _, b := range ps.Blocks {
		seeds := []Sx{}
		for _, s := range b.EpochHashSeeds {
			seeds = append(seeds, AU(e.canon(s)))
		}
		var lo int64 = -7
		if b.BlockLocation != nil {
			lo = b.BlockLocation.OffsetBytes
		}
		blocks = append(blocks, L(A(lo), A(b.WriteOffsetBytes), L(seeds...)))
	}
	content := L(AU(uint64(ps.OldestEpochId)), L(blocks...))
	e.mu.Unlock()
	if e.enter(1, content) == 0 {
		return nil
	}
	return status.Error(codes.Internal, "injected state write failure")
}

// ---- virtual clock ----

type c07Stop struct{}

func (c07Stop) Stop() bool { return false }

func (e *c07Env) Now() time.Time {
	e.mu.Lock()
	defer e.mu.Unlock()
	return c07Base.Add(time.Duration(e.now))
}
func (e *c07Env) NewContextWithTimeout(parent context.Context, d time.Duration) (context.Context, context.CancelFunc) {
	panic("c07: unexpected NewContextWithTimeout")
}
func (e *c07Env) NewTicker(d time.Duration) (clock.Ticker, <-chan time.Time) {
	panic("c07: unexpected NewTicker")
}
func (e *c07Env) NewTimer(d time.Duration) (clock.Timer, <-chan time.Time) {
	retry := c07InRetrySleep()
	e.mu.Lock()
	defer e.mu.Unlock()
	ch := make(chan time.Time, 1)
	if e.dead {
		ch <- c07Base.Add(time.Duration(e.now))
		return c07Stop{}, ch
	}
	w := e.who()
	e.dropTimers(w)
	e.timers = append(e.timers, &c07Timer{who: w, retry: retry, deadline: e.now + int64(d), ch: ch})
	return c07Stop{}, ch
}

func (e *c07Env) Log(err error) {}

// ---- quiescence ----

var c07StackBuf = make([]byte, 1<<20)

func c07Blocked(st string) bool {
	if i := strings.IndexByte(st, ','); i >= 0 {
		st = st[:i]
	}
	switch st {
	case "chan receive", "select", "chan send", "semacquire", "sync.Mutex.Lock", "sync.RWMutex.RLock",
		"sync.RWMutex.Lock", "sync.Cond.Wait", "sync.WaitGroup.Wait", "chan receive (nil chan)", "select (no cases)":
		return true
	}
	return false
}

// states returns the wait state of each loop goroutine ("" = not running any more).
func (e *c07Env) states() [2]string {
	n := runtime.Stack(c07StackBuf, true)
	var res [2]string
	buf := c07StackBuf[:n]
	for len(buf) > 0 {
		i := bytes.Index(buf, []byte("goroutine "))
		if i < 0 {
			break
		}
		buf = buf[i+10:]
		sp := bytes.IndexByte(buf, ' ')
		if sp < 0 {
			break
		}
		id, err := strconv.ParseInt(string(buf[:sp]), 10, 64)
		if err != nil || sp+1 >= len(buf) || buf[sp+1] != '[' {
			continue
		}
		end := bytes.IndexByte(buf, ']')
		if end < 0 {
			break
		}
		st := string(buf[sp+2 : end])
		for w := 0; w < 2; w++ {
			if id == e.goid[w] {
				res[w] = st
			}
		}
		buf = buf[end:]
	}
	return res
}

// quiet waits until both loops are blocked (or gone) in two consecutive scans.
func (e *c07Env) quiet() ([2]string, bool) {
	stable := 0
	var last [2]string
	start := time.Now()
	for iter := 0; ; iter++ {
		st := e.states()
		ok := true
		for w := 0; w < 2; w++ {
			if st[w] != "" && !c07Blocked(st[w]) {
				ok = false
			}
		}
		if ok && st == last {
			stable++
			if stable >= 2 {
				return st, true
			}
		} else {
			stable = 0
		}
		last = st
		e.mu.Lock()
		pm := e.panicMsg
		e.mu.Unlock()
		if pm != "" {
			return st, true
		}
		if iter > 50 {
			if time.Since(start) > 3*time.Second {
				return st, false
			}
			time.Sleep(20 * time.Microsecond)
		} else {
			runtime.Gosched()
		}
	}
}

// ---- observation ----

func (e *c07Env) loopObs(w int, st string) Sx {
	e.mu.Lock()
	defer e.mu.Unlock()
	for _, g := range e.gates {
		if g.who == w {
			if g.kind == 1 {
				return L(A(1), AI(g.n), g.content.Nth(0), g.content.Nth(1))
			}
			return L(A(3), AI(g.n))
		}
	}
	for _, t := range e.timers {
		if t.who == w {
			if w == 0 {
				return L(A(2), A(t.deadline))
			}
			return L(A(2), A(t.deadline), AB(t.retry))
		}
	}
	if st == "" {
		if w == 1 && e.pExited {
			return L(A(4))
		}
		return L(A(98))
	}
	if strings.HasPrefix(st, "sync.") || strings.HasPrefix(st, "semacquire") {
		return L(A(5))
	}
	return L(A(0))
}

func c07Readable(ch <-chan struct{}) bool {
	select {
	case <-ch:
		return true
	default:
		return false
	}
}

func (e *c07Env) observe(res Sx, st [2]string) Sx {
	e.lock.RLock()
	pc := c07Readable(e.bl.GetBlockPutWakeup())
	rc := c07Readable(e.bl.GetBlockReleaseWakeup())
	e.lock.RUnlock()
	r := e.loopObs(0, st[0])
	p := e.loopObs(1, st[1])
	e.mu.Lock()
	rel := make([]Sx, len(e.released))
	for i, o := range e.released {
		rel[i] = A(o)
	}
	e.mu.Unlock()
	return L(res, r, p, AB(pc), AB(rc), L(rel...))
}

// ---- scheduler operations ----

func (e *c07Env) guarded(f func()) (panicked bool) {
	defer func() {
		if r := recover(); r != nil {
			panicked = true
		}
	}()
	f()
	return false
}

func (e *c07Env) takeGate(kind int) *c07Gate {
	e.mu.Lock()
	defer e.mu.Unlock()
	for i, g := range e.gates {
		if g.kind == kind {
			e.gates = append(e.gates[:i], e.gates[i+1:]...)
			return g
		}
	}
	return nil
}

func c07Code(err error) int64 { return int64(status.Code(err)) }

// do executes one op; fatal = a panic escaped from the code under test.
func (e *c07Env) do(op Sx) (res Sx, fatal bool) {
	switch op.Nth(0).Int() {
	case 1:
		back := op.Nth(1).Int()
		n := len(e.mirror)
		if back < 0 || back >= n {
			return L(A(0)), false
		}
		idx := n - 1 - back
		b := e.mirror[idx]
		b.nextOff, b.nextErr = op.Nth(3).Z, op.Nth(4).Z != 0
		e.lastPut = nil
		var w local.BlockListPutWriter
		e.lock.Lock()
		fatal = e.guarded(func() { w = e.bl.Put(idx, op.Nth(2).Z) })
		if fatal {
			return L(), true
		}
		e.lock.Unlock()
		fin := w(buffer.NewValidatedBufferFromByteSlice(nil))
		e.uploads = append(e.uploads, &c07Upload{fin: fin, abs: e.popCount + idx})
		lo := int64(-1)
		if e.lastPut != nil {
			lo = e.lastPut.off
		}
		return L(A(1), A(lo)), false
	case 2:
		k := op.Nth(1).Int()
		if k < 0 || k >= len(e.uploads) || e.uploads[k].done {
			return L(A(-1)), false
		}
		up := e.uploads[k]
		up.done = true
		e.lock.Lock()
		fatal = e.guarded(func() {
			off, err := up.fin()
			if err != nil {
				res = L(A(c07Code(err)))
				return
			}
			ref, seed := e.bl.BlockIndexToBlockReference(up.abs - e.popCount)
			e.mu.Lock()
			cs := e.canon(seed)
			e.mu.Unlock()
			res = L(A(0), A(off), AU(uint64(ref.EpochID)), AU(uint64(ref.BlocksFromLast)), AU(cs))
		})
		if fatal {
			return L(), true
		}
		e.lock.Unlock()
		return res, false
	case 3:
		if len(e.mirror) == 0 {
			return L(A(0)), false
		}
		e.lock.Lock()
		fatal = e.guarded(func() { e.bl.PopFront() })
		if fatal {
			return L(), true
		}
		e.lock.Unlock()
		e.mirror = e.mirror[1:]
		e.popCount++
		return L(A(1)), false
	case 4:
		e.allocOK = op.Nth(1).Z != 0
		e.lastNew = nil
		var err error
		e.lock.Lock()
		fatal = e.guarded(func() { err = e.bl.PushBack() })
		if fatal {
			return L(), true
		}
		e.lock.Unlock()
		if err != nil {
			return L(A(c07Code(err))), false
		}
		if e.lastNew == nil {
			return L(A(0), A(-1)), false
		}
		e.mirror = append(e.mirror, e.lastNew)
		return L(A(0), A(e.lastNew.off)), false
	case 5, 6:
		g := e.takeGate(op.Nth(0).Int() - 5)
		if g == nil {
			return L(A(0)), false
		}
		if op.Nth(1).Z != 0 {
			g.ch <- 0
		} else {
			g.ch <- 1
		}
		return L(A(1)), false
	case 7:
		d := op.Nth(1).Z
		if d < 0 || d > 1<<30 {
			d = 0
		}
		e.mu.Lock()
		e.now += d
		e.mu.Unlock()
		return L(), false
	case 8:
		who := 1
		if op.Nth(1).Z == 0 {
			who = 0
		}
		e.mu.Lock()
		var t *c07Timer
		for i, x := range e.timers {
			if x.who == who && x.deadline <= e.now {
				t = x
				e.timers = append(e.timers[:i], e.timers[i+1:]...)
				break
			}
		}
		now := e.now
		e.mu.Unlock()
		if t == nil {
			return L(A(0)), false
		}
		t.ch <- c07Base.Add(time.Duration(now))
		return L(A(1)), false
	case 9:
		e.cancel()
		return L(), false
	case 10:
		e.lock.RLock()
		fatal = e.guarded(func() {
			i, seed, ok := e.bl.BlockReferenceToBlockIndex(local.BlockReference{
				EpochID:        uint32(op.Nth(1).Z),
				BlocksFromLast: uint16(op.Nth(2).Z),
			})
			if !ok {
				res = L(A(-1))
				return
			}
			e.mu.Lock()
			cs := e.canon(seed)
			e.mu.Unlock()
			res = L(AI(i), AU(cs))
		})
		if fatal {
			return L(), true
		}
		e.lock.RUnlock()
		return res, false
	case 11:
		e.lock.RLock()
		p := e.guarded(func() {
			ref, seed := e.bl.BlockIndexToBlockReference(op.Nth(1).Int())
			e.mu.Lock()
			cs := e.canon(seed)
			e.mu.Unlock()
			res = L(AU(uint64(ref.EpochID)), AU(uint64(ref.BlocksFromLast)), AU(cs))
		})
		e.lock.RUnlock()
		if p {
			return L(A(-2)), false
		}
		return res, false
	}
	return L(A(-9)), false
}

// ---- teardown: make both loop goroutines terminate ----

func (e *c07Env) teardown(clean bool) {
	e.mu.Lock()
	e.dead = true
	gs := e.gates
	e.gates = nil
	ts := e.timers
	e.timers = nil
	now := e.now
	e.mu.Unlock()
	e.cancel()
	for _, g := range gs {
		g.ch <- 2
	}
	for _, t := range ts {
		select {
		case t.ch <- c07Base.Add(time.Duration(now)):
		default:
		}
	}
	if !clean {
		return
	}
	// A release loop parked on an open wake-up channel: close it behind
	// the block list's back (nothing uses the list afterwards).
	e.lock.RLock()
	ch := e.bl.GetBlockReleaseWakeup()
	e.lock.RUnlock()
	if !c07Readable(ch) {
		close(*(*chan struct{})(unsafe.Pointer(&ch)))
	}
	start := time.Now()
	for i := 0; ; i++ {
		st := e.states()
		if st[0] == "" && st[1] == "" {
			return
		}
		if i > 50 {
			if time.Since(start) > time.Second {
				return
			}
			time.Sleep(20 * time.Microsecond)
		} else {
			runtime.Gosched()
		}
	}
}

func (e *c07Env) loopExit(w int) {
	if r := recover(); r != nil {
		e.mu.Lock()
		if e.panicMsg == "" {
			e.panicMsg = "panic"
		}
		e.mu.Unlock()
	}
}

func c07ParseCfg(c Sx) (interval, retry, t0 int64, oldest uint32, inits []c07InitBlock, ok bool) {
	if c.IsAtom || c.Len() != 5 {
		return
	}
	for i := 0; i < 4; i++ {
		if !c.Nth(i).IsAtom || c.Nth(i).Big != "" || c.Nth(i).Z < 0 {
			return
		}
	}
	interval, retry, t0 = c.Nth(0).Z, c.Nth(1).Z, c.Nth(2).Z
	if interval > 1<<30 || retry > 1<<30 || t0 > 1<<30 || c.Nth(3).Z >= 1<<32 {
		return
	}
	oldest = uint32(c.Nth(3).Z)
	if c.Nth(4).IsAtom {
		return
	}
	for _, b := range c.Nth(4).List {
		if b.IsAtom || b.Len() != 4 || b.Nth(0).Len() != 2 || b.Nth(2).IsAtom {
			return
		}
		ib := c07InitBlock{off: b.Nth(0).Nth(0).Z, size: b.Nth(0).Nth(1).Z, woff: b.Nth(1).Z, found: b.Nth(3).Z != 0}
		for _, s := range b.Nth(2).List {
			if !s.IsAtom || s.Big != "" || s.Z < 0 || s.Z >= 1000 {
				return
			}
			ib.seeds = append(ib.seeds, uint64(s.Z))
		}
		if ib.off < 0 || ib.off >= 10000 || ib.woff < 0 {
			return
		}
		for _, o := range inits {
			if o.off == ib.off {
				return
			}
		}
		inits = append(inits, ib)
	}
	ok = true
	return
}

func c07OpOK(op Sx) bool {
	if op.IsAtom || op.Len() < 1 {
		return false
	}
	for _, x := range op.List {
		if !x.IsAtom || x.Big != "" || x.Z < 0 || x.Z > 1<<40 {
			return false
		}
	}
	want := map[int]int{1: 5, 2: 2, 3: 1, 4: 2, 5: 2, 6: 2, 7: 2, 8: 2, 9: 1, 10: 3, 11: 2}
	n, ok := want[op.Nth(0).Int()]
	return ok && op.Len() == n
}

func (c07) Exec(in Sx) (Sx, bool) {
	if in.IsAtom || in.Len() != 2 || in.Nth(1).IsAtom {
		return Sx{}, false
	}
	interval, retry, t0, oldest, inits, ok := c07ParseCfg(in.Nth(0))
	if !ok {
		return Sx{}, false
	}
	for _, op := range in.Nth(1).List {
		if !c07OpOK(op) {
			return Sx{}, false
		}
	}
	e := &c07Env{now: t0, inits: inits, seedMap: map[uint64]uint64{}}
	var initial []*pb.BlockState
	for _, ib := range inits {
		for _, s := range ib.seeds {
			e.seedMap[s] = s
		}
		initial = append(initial, &pb.BlockState{
			BlockLocation:    &pb.BlockLocation{OffsetBytes: ib.off, SizeBytes: ib.size},
			WriteOffsetBytes: ib.woff,
			EpochHashSeeds:   ib.seeds,
		})
	}
	bl, _ := local.NewPersistentBlockList(e, oldest, initial)
	e.bl = bl
	ps := local.NewPeriodicSyncer(bl, &e.lock, e, e, e, time.Duration(retry), time.Duration(interval), 0, e.dataSyncer)
	ctx, cancel := context.WithCancel(context.Background())
	e.cancel = cancel
	e.goid = [2]int64{-2, -2}
	var started sync.WaitGroup
	started.Add(2)
	go1 := make(chan struct{})
	go func() {
		defer e.loopExit(0)
		e.goid[0] = c07Goid()
		started.Done()
		<-go1
		for {
			ps.ProcessBlockRelease()
		}
	}()
	go func() {
		defer e.loopExit(1)
		e.goid[1] = c07Goid()
		started.Done()
		<-go1
		for ps.ProcessBlockPut(ctx) {
		}
		e.mu.Lock()
		e.pExited = true
		e.mu.Unlock()
	}()
	started.Wait()
	close(go1)

	obs := []Sx{}
	st, quietOK := e.quiet()
	bad := int64(0)
	if !quietOK {
		bad = -2
	}
	for _, op := range in.Nth(1).List {
		if bad != 0 {
			break
		}
		res, fatal := e.do(op)
		if fatal {
			bad = -1
			break
		}
		st, quietOK = e.quiet()
		e.mu.Lock()
		pm := e.panicMsg
		e.mu.Unlock()
		if pm != "" {
			bad = -1
			break
		}
		if !quietOK {
			bad = -2
			break
		}
		obs = append(obs, e.observe(res, st))
	}
	e.teardown(bad == 0)
	if bad != 0 {
		return L(A(bad)), true
	}
	return L(obs...), true
}

// ---- generation ----

func (c07) Gen(r *Rand, i int, tier string) Sx {
	intervals := []int{0, 4, 10, 10, 10}
	interval := r.Pick(intervals)
	retry := r.Pick([]int{3, 7})
	t0 := r.Pick([]int{0, 50})
	oldest := int64(r.Pick([]int{0, 0, 7, 4294967294}))
	nInit := r.Pick([]int{0, 0, 1, 2, 3})
	inits := []Sx{}
	seed := 1
	for b := 0; b < nInit; b++ {
		seeds := []Sx{}
		for k := r.Pick([]int{0, 1, 1, 2}); k > 0; k-- {
			seeds = append(seeds, AI(seed))
			seed++
		}
		found := !r.Chance(8)
		inits = append(inits, L(L(AI(1000*b), A(100)), AI(r.Intn(40)), L(seeds...), AB(found)))
	}
	cfg := L(AI(interval), AI(retry), AI(t0), A(oldest), L(inits...))
	n := 8 + r.Intn(34)
	if tier == "thorough" {
		n = 8 + r.Intn(70)
	}
	hostile := i%10 == 9
	ops := []Sx{}
	started, finalized, blocks := 0, 0, nInit
	okp := 78
	if r.Chance(25) {
		okp = 100
	}
	// A little look-ahead: after a fire or completion the follow-up is likely.
	for len(ops) < n {
		c := r.Intn(100)
		switch {
		case blocks == 0 && c < 40 || c < 7:
			ok := !r.Chance(12)
			ops = append(ops, L(A(4), AB(ok)))
			if ok {
				blocks++
			}
		case c < 20:
			back := 0
			if r.Chance(15) {
				back = r.Intn(3)
			}
			ops = append(ops, L(A(1), AI(back), AI(1+r.Intn(9)), AI(r.Intn(60)), AB(r.Chance(6))))
			started++
			if r.Chance(60) {
				ops = append(ops, L(A(2), AI(started-1)))
				finalized++
			}
		case c < 30:
			k := finalized
			if started > 0 && (r.Chance(30) || hostile) {
				k = r.Intn(started + 1)
			}
			ops = append(ops, L(A(2), AI(k)))
			if k == finalized {
				finalized++
			}
		case c < 37:
			ops = append(ops, L(A(3)))
			if blocks > 0 {
				blocks--
			}
		case c < 50:
			ops = append(ops, L(A(5), AB(r.Chance(okp))))
		case c < 64:
			ops = append(ops, L(A(6), AB(r.Chance(okp))))
		case c < 74:
			d := r.Pick([]int{1, 3, 5, interval, interval, retry, 10})
			ops = append(ops, L(A(7), AI(d)))
		case c < 84:
			ops = append(ops, L(A(8), A(1)))
			if r.Chance(50) {
				ops = append(ops, L(A(5), AB(r.Chance(okp))))
			}
		case c < 88:
			ops = append(ops, L(A(8), A(0)))
		case c < 89:
			if r.Chance(25) {
				ops = append(ops, L(A(9)))
			}
		case c < 96 && !hostile:
			// a whole commit cycle of the put loop, possibly perturbed
			seq := []Sx{L(A(7), AI(interval)), L(A(8), A(1)), L(A(5), AB(r.Chance(okp))), L(A(6), AB(r.Chance(okp)))}
			for _, o := range seq {
				if r.Chance(12) {
					switch r.Intn(4) {
					case 0:
						ops = append(ops, L(A(3)))
						if blocks > 0 {
							blocks--
						}
					case 1:
						ops = append(ops, L(A(1), A(0), AI(1+r.Intn(9)), AI(r.Intn(60)), A(0)), L(A(2), AI(started)))
						started++
					case 2:
						ops = append(ops, L(A(9)))
					default:
						ops = append(ops, L(A(7), AI(retry)), L(A(8), AI(r.Intn(2))))
					}
				}
				ops = append(ops, o)
			}
		case c < 98:
			ops = append(ops, L(A(10), A((oldest+int64(r.Intn(4)))%4294967296), AI(r.Intn(3))))
		default:
			ops = append(ops, L(A(11), AI(r.Intn(3))))
		}
	}
	return L(cfg, L(ops...))
}

func (c07) Class(in, obs Sx) (string, bool) {
	if obs.Len() == 1 && obs.Nth(0).IsAtom {
		return "syncer/abnormal", true
	}
	ops := in.Nth(1).List
	writes, acks, pops, fails, cancel, rel, pw := 0, 0, 0, 0, 0, 0, 0
	for i, o := range obs.List {
		if i >= len(ops) {
			break
		}
		op := ops[i]
		hit := o.Nth(0).Nth(0).Z == 1
		switch op.Nth(0).Int() {
		case 2:
			if o.Nth(0).Len() == 5 {
				acks++
			}
		case 3:
			if hit {
				pops++
			}
		case 5, 6:
			if hit && op.Nth(1).Z == 0 {
				fails++
			}
			if hit && op.Nth(1).Z != 0 && op.Nth(0).Int() == 6 {
				writes++
				if i > 0 && obs.List[i-1].Nth(2).Nth(0).Z == 1 {
					pw++
				}
			}
		case 9:
			cancel = 1
		}
		rel = o.Nth(5).Len()
	}
	b := func(n int) string {
		switch {
		case n == 0:
			return "0"
		case n <= 2:
			return "1-2"
		}
		return "3+"
	}
	cls := "syncer/w" + b(writes) + "-ack" + b(acks) + "-pop" + b(pops) + "-rel" + b(rel) + "-pw" + b(pw) + "-fail" + b(fails) + "-cancel" + strconv.Itoa(cancel)
	return cls, writes >= 1 && (acks >= 1 || pops >= 1)
}
