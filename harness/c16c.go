package main

// C16C — sub-check of C16: STREAM CLONES of a buffer with an error handler.
// C16's own cases consume WithErrorHandler(...) directly; LocalBlobReplicator
// and MirroredBlobAccess.Put CloneStream() such buffers and hand the halves to
// two goroutines.  Here a stream-backed CAS buffer over a fault-injecting
// source gets a stack of 1-3 scripted handlers (C16's sources, handlers and
// replacement buffers), is CloneStream()ed 1-3 times (clones of clones) and
// every handle is consumed by its own goroutine or discarded.  The goroutines
// are started in a scripted order, each parked inside the multiplexer's
// registration (goroutine quiescence) before the next one starts.
//
// Input: (splits (method ...) order inner)       see coq/Run/R16C.v
// Observation: (((code bytes) per handle) (callback verdicts) ((OnError codes) per level)
//               (Done count per level) (Close() count per source))  |  (-2) hang

import (
	"strconv"
	"sync"

	remoteexecution "github.com/bazelbuild/remote-apis/build/bazel/remote/execution/v2"
	"github.com/buildbarn/bb-storage/pkg/blobstore/buffer"
)

func init() { props["C16C"] = c16c{} }

type c16c struct{}

// c16cHandler serialises the calls to a scripted handler: the pristine code
// calls a handler from one goroutine at a time, a changed one may not.
type c16cHandler struct {
	mu *sync.Mutex
	h  *c16Handler
}

func (w *c16cHandler) OnError(err error) (buffer.Buffer, error) {
	w.mu.Lock()
	defer w.mu.Unlock()
	return w.h.OnError(err)
}

func (w *c16cHandler) Done() {
	w.mu.Lock()
	defer w.mu.Unlock()
	w.h.Done()
}

// c16cMethodOK: the methods a handle is consumed by; parameters the method
// accepts (a clone skips an offset by reading, the buffer itself rejects a bad
// one up front: that difference is about a bad parameter, not about recovery).
func c16cMethodOK(m Sx, size int64) bool {
	if !c09CheckMethod(m) {
		return false
	}
	switch m.Nth(0).Int() {
	case 0:
		return m.Nth(1).Z >= size
	case 1, 6:
		return true
	case 3:
		return m.Nth(1).Z >= 0 && m.Nth(1).Z <= size && m.Nth(3).Z == 0
	case 4:
		return m.Nth(2).Z == 0
	}
	return false
}

func (c16c) Exec(in0 Sx) (Sx, bool) {
	if in0.IsAtom || in0.Len() != 4 {
		return Sx{}, false
	}
	sp, ms, ord, in := in0.Nth(0), in0.Nth(1), in0.Nth(2), in0.Nth(3)
	if sp.IsAtom || sp.Len() < 1 || sp.Len() > 3 || ms.IsAtom || ms.Len() != sp.Len()+1 || ord.IsAtom || ord.Len() != ms.Len() {
		return Sx{}, false
	}
	n := ms.Len()
	for _, s := range sp.List {
		if !s.IsAtom || s.Big != "" || s.Z < 0 || s.Z > 64 {
			return Sx{}, false
		}
	}
	seen := make([]bool, n)
	for _, o := range ord.List {
		if !o.IsAtom || o.Big != "" || o.Z < 0 || o.Z >= int64(n) || seen[o.Z] {
			return Sx{}, false
		}
		seen[o.Z] = true
	}
	if in.IsAtom || in.Len() != 6 {
		return Sx{}, false
	}
	srcK := in.Nth(0)
	if !srcK.IsAtom || srcK.Z < 0 || srcK.Z > 1 {
		return Sx{}, false
	}
	dg, ok := c09Digest(in.Nth(1))
	if !ok {
		return Sx{}, false
	}
	b0, ok := c16ParseBuf(in.Nth(2), false)
	if !ok || b0.kind > 1 { // stream-backed: WithErrorHandler wraps it
		return Sx{}, false
	}
	levels, ok := c16ParseLevels(in.Nth(3))
	if !ok || !c09CheckTable(in.Nth(5)) {
		return Sx{}, false
	}
	fn := remoteexecution.DigestFunction_Value(in.Nth(1).Nth(0).Int())
	size := in.Nth(1).Nth(2).Z
	for _, m := range ms.List {
		if !c16cMethodOK(m, size) {
			return Sx{}, false
		}
	}
	if !c09TableCovers(in.Nth(5), fn, size, c16Need(b0, levels, size)...) {
		return Sx{}, false
	}

	var mu sync.Mutex
	cbs := []Sx{}
	source := buffer.UserProvided
	if srcK.Z == 1 {
		source = buffer.BackendProvided(func(valid bool) {
			mu.Lock()
			defer mu.Unlock()
			cbs = append(cbs, AB(valid))
		})
	}
	closes := []func() int{}
	// called before any goroutine starts, or from OnError (under mu)
	mk := func(b c16Buf) buffer.Buffer { return c16Make(b, dg, source, &closes) }
	b := mk(b0)
	hs := []*c16Handler{}
	for _, answers := range levels {
		h := &c16Handler{answers: answers, mk: mk, onErr: []int{}}
		hs = append(hs, h)
		b = buffer.WithErrorHandler(b, &c16cHandler{mu: &mu, h: h})
	}
	handles := []buffer.Buffer{b}
	for _, s := range sp.List {
		i := int(s.Z) % len(handles)
		x, y := handles[i].CloneStream()
		handles[i] = x
		handles = append(handles, y)
	}

	waitParked := func(done chan struct{}) {
		for i := 0; i < 2000; i++ {
			select {
			case <-done:
				return
			default:
			}
			if c15Quiescent() {
				return
			}
		}
	}
	type res struct {
		code int
		data []byte
	}
	results := make([]res, n)
	all := make(chan struct{})
	var wg sync.WaitGroup
	wg.Add(n)
	go func() {
		wg.Wait()
		close(all)
	}()
	for k, o := range ord.List {
		idx := int(o.Z)
		done := make(chan struct{})
		go func() {
			defer wg.Done()
			defer close(done)
			defer func() {
				if r := recover(); r != nil {
					results[idx] = res{code: -99, data: []byte{}}
				}
			}()
			ob := c09Consume(handles[idx], ms.Nth(idx))
			results[idx] = res{code: ob.code, data: ob.data}
		}()
		if k+1 < n {
			// parked in the multiplexer's registration (or finished, when the
			// code no longer shares one multiplexer)
			waitParked(done)
		}
	}
	if !c15Wait(all) {
		return L(A(-2)), true
	}
	mu.Lock()
	defer mu.Unlock()
	rs, onErrs, dones, closed := []Sx{}, []Sx{}, []Sx{}, []Sx{}
	for _, r := range results {
		rs = append(rs, L(AI(r.code), LBytes(r.data)))
	}
	for _, h := range hs {
		onErrs = append(onErrs, LInts(h.onErr))
		dones = append(dones, AI(h.done))
	}
	for _, f := range closes {
		closed = append(closed, AI(f()))
	}
	return L(L(rs...), L(cbs...), L(onErrs...), L(dones...), L(closed...)), true
}

// ---- generation ----

func c16cGenMethod(r *Rand, size int) Sx {
	switch r.Intn(20) {
	case 0, 1, 2, 3:
		return L(A(6))
	case 4, 5, 6:
		return L(A(0), AI(size+r.Pick([]int{0, 0, 5, 1000})))
	case 7, 8, 9, 10:
		return L(A(1))
	case 11, 12, 13, 14, 15:
		off := r.Pick([]int{0, 0, 0, 1, size / 2, size - 1, size, size})
		if off < 0 || off > size {
			off = 0
		}
		return L(A(3), AI(off), AI(r.Pick([]int{1, 2, 3, 4, 7, 64, 65536})), A(0))
	}
	k := 1 + r.Intn(3)
	caps := make([]int, k)
	for i := range caps {
		caps[i] = r.Pick([]int{1, 1, 2, 3, 5, 8, 64, 4096})
	}
	return L(A(4), LInts(caps), A(0))
}

// c16cDirected: the shape of LocalBlobReplicator / MirroredBlobAccess.Put: one
// handler, the stream fails once (or not at all), the handler supplies one
// replacement (or an error), two handles.
func c16cDirected(r *Rand) Sx {
	fn := c09Functions[r.Intn(len(c09Functions))]
	n := r.Pick([]int{1, 2, 3, 5, 8, 12, 16, 24})
	good := c09RandBytes(r, n)
	size := int64(n)
	hash, _ := c09Hash(fn, size, good)
	fails := !r.Chance(25)
	b0 := c16GenBuf(r, good, fails, false)
	for k := b0.Nth(0).Int(); k > 1; k = b0.Nth(0).Int() {
		b0 = c16GenBuf(r, good, fails, false)
	}
	answers := []Sx{}
	if fails {
		if r.Chance(75) {
			answers = append(answers, L(A(0), c16GenBuf(r, good, false, true)))
		} else if r.Chance(80) {
			answers = append(answers, L(A(1), AI(r.Pick(c09Codes))))
		}
	}
	lv := L(L(answers...))
	pb, _ := c16ParseBuf(b0, false)
	ls, _ := c16ParseLevels(lv)
	contents := append([][]byte{good}, c16Need(pb, ls, size)...)
	inner := L(AI(r.Pick([]int{0, 1, 1})), L(AI(int(fn)), LBytes(hash), A(size)), b0, lv, L(A(6)), c09Table(fn, size, contents...))
	m0, m1 := c16cGenMethod(r, n), c16cGenMethod(r, n)
	for m0.Nth(0).Int() == 6 {
		m0 = c16cGenMethod(r, n)
	}
	if r.Bool() {
		m0, m1 = m1, m0
	}
	o := r.Intn(2)
	return L(L(A(0)), L(m0, m1), L(AI(o), AI(1-o)), inner)
}

func (c16c) Gen(r *Rand, i int, tier string) Sx {
	if r.Chance(40) {
		return c16cDirected(r)
	}
	var inner Sx
	for {
		inner = c16{}.Gen(r, i, tier)
		if k := inner.Nth(2).Nth(0).Int(); k <= 1 {
			break
		}
	}
	size := inner.Nth(1).Nth(2).Int()
	n := r.Pick([]int{2, 2, 2, 2, 3, 3, 3, 4, 4})
	splits := []Sx{}
	for k := 1; k < n; k++ {
		splits = append(splits, AI(r.Intn(k)))
	}
	allDiscard := r.Chance(5)
	ms := []Sx{}
	for k := 0; k < n; k++ {
		if allDiscard {
			ms = append(ms, L(A(6)))
		} else {
			ms = append(ms, c16cGenMethod(r, size))
		}
	}
	perm := make([]int, n)
	for k := range perm {
		perm[k] = k
	}
	for k := n - 1; k > 0; k-- {
		j := r.Intn(k + 1)
		perm[k], perm[j] = perm[j], perm[k]
	}
	inner = L(inner.Nth(0), inner.Nth(1), inner.Nth(2), inner.Nth(3), L(A(6)), inner.Nth(5))
	return L(L(splits...), L(ms...), LInts(perm), inner)
}

func (c16c) Class(in, obs Sx) (string, bool) {
	if obs.Len() < 5 {
		return "clone/hang", true
	}
	consuming, failed := 0, 0
	for k, m := range in.Nth(1).List {
		if m.Nth(0).Int() != 6 {
			consuming++
			if c := obs.Nth(0).Nth(k).Nth(0).Int(); c != 0 && c != -1 {
				failed++
			}
		}
	}
	out := "ok"
	if consuming == 0 {
		out = "alldiscarded"
	} else if failed > 0 {
		out = "failed"
	}
	j := 0
	for _, l := range obs.Nth(2).List {
		j += l.Len()
	}
	return "clone/handles" + strconv.Itoa(in.Nth(1).Len()) + "consuming" + strconv.Itoa(consuming) + "/" + out + "/onerror" + strconv.Itoa(j) +
		"/depth" + strconv.Itoa(in.Nth(3).Nth(3).Len()), j >= 1
}
