package main

import (
	"context"
	"crypto/sha256"
	"encoding/binary"
	"encoding/hex"
	"fmt"
	"sort"
	"strings"
	"sync"

	remoteexecution "github.com/bazelbuild/remote-apis/build/bazel/remote/execution/v2"
	"github.com/buildbarn/bb-storage/pkg/blobstore/buffer"
	"github.com/buildbarn/bb-storage/pkg/blobstore/sharding"
	"github.com/buildbarn/bb-storage/pkg/blobstore/slicing"
	"github.com/buildbarn/bb-storage/pkg/digest"

	"google.golang.org/grpc/codes"
	"google.golang.org/grpc/status"
)

func init() { props["C12"] = c12{} }

type c12 struct{}

func c12Key(n int) string { return fmt.Sprintf("s%d", n) }
func c12KeyHash(key string) uint64 {
	h := sha256.Sum256([]byte(key))
	return binary.BigEndian.Uint64(h[:8])
}

// --- recording backend ---
type c12Backend struct {
	lock   *sync.Mutex
	index  int
	events *[]c12Event
	fault  bool
}
type c12Event struct {
	backend int
	op      string
	ids     []int
}

func c12DigestID(d digest.Digest) int { return int(d.GetSizeBytes()) - 1 }

func (b *c12Backend) record(op string, ids []int) {
	b.lock.Lock()
	*b.events = append(*b.events, c12Event{backend: b.index, op: op, ids: ids})
	b.lock.Unlock()
}
func (b *c12Backend) GetCapabilities(ctx context.Context, in digest.InstanceName) (*remoteexecution.ServerCapabilities, error) {
	return nil, status.Error(codes.Unimplemented, "n/a")
}
func (b *c12Backend) Get(ctx context.Context, d digest.Digest) buffer.Buffer {
	b.record("get", []int{c12DigestID(d)})
	if b.fault {
		return buffer.NewBufferFromError(status.Error(codes.Unavailable, "backend down"))
	}
	return buffer.NewValidatedBufferFromByteSlice([]byte("x"))
}
func (b *c12Backend) GetFromComposite(ctx context.Context, p, c digest.Digest, s slicing.BlobSlicer) buffer.Buffer {
	b.record("gfc", []int{c12DigestID(p)})
	if b.fault {
		return buffer.NewBufferFromError(status.Error(codes.Unavailable, "backend down"))
	}
	return buffer.NewValidatedBufferFromByteSlice([]byte("x"))
}
func (b *c12Backend) Put(ctx context.Context, d digest.Digest, buf buffer.Buffer) error {
	buf.Discard()
	b.record("put", []int{c12DigestID(d)})
	if b.fault {
		return status.Error(codes.Unavailable, "backend down")
	}
	return nil
}
func (b *c12Backend) FindMissing(ctx context.Context, ds digest.Set) (digest.Set, error) {
	ids := []int{}
	sb := digest.NewSetBuilder(0)
	for _, d := range ds.Items() {
		id := c12DigestID(d)
		ids = append(ids, id)
		if id%3 == 0 {
			sb.Add(d)
		}
	}
	sort.Ints(ids)
	b.record("fm", ids)
	if b.fault {
		return digest.EmptySet, status.Error(codes.Unavailable, "backend down")
	}
	return sb.Build(), nil
}

var c12Inst = []string{"", "a", "a/b", "x/y/z"}

func c12Digest(digests Sx, id int) digest.Digest {
	e := digests.Nth(id)
	var hb [16]byte
	h8 := e.Nth(0)
	var v uint64
	if h8.Big != "" {
		fmt.Sscan(h8.Big, &v)
	} else {
		v = uint64(h8.Z)
	}
	binary.BigEndian.PutUint64(hb[:8], v)
	binary.BigEndian.PutUint64(hb[8:], uint64(id)*0x9e3779b97f4a7c15+1)
	return digest.MustNewDigest(c12Inst[e.Nth(1).Int()%len(c12Inst)], remoteexecution.DigestFunction_MD5, hex.EncodeToString(hb[:]), int64(id+1))
}

func sxU64(s Sx) uint64 {
	if s.Big != "" {
		var v uint64
		fmt.Sscan(s.Big, &v)
		return v
	}
	return uint64(s.Z)
}

func c12Shards(pool Sx, variant []int) ([]sharding.Shard, bool) {
	shards := []sharding.Shard{}
	for _, i := range variant {
		e := pool.Nth(i)
		if e.Len() != 3 {
			return nil, false
		}
		key := c12Key(e.Nth(0).Int())
		if c12KeyHash(key) != sxU64(e.Nth(1)) {
			return nil, false
		}
		w := sxU64(e.Nth(2))
		if w > 0xffffffff {
			return nil, false
		}
		shards = append(shards, sharding.Shard{Key: key, Weight: uint32(w)})
	}
	return shards, true
}

func (c12) Exec(in Sx) (Sx, bool) {
	switch in.Nth(0).Int() {
	case 0:
		pool := in.Nth(1)
		out := []Sx{}
		for _, v := range in.Nth(2).List {
			variant := v.Ints()
			shards, ok := c12Shards(pool, variant)
			if !ok {
				return Sx{}, false
			}
			sel, err := sharding.NewRendezvousShardSelector(shards)
			if err != nil {
				out = append(out, L(A(-3)))
				continue
			}
			ch := []Sx{}
			for _, h := range in.Nth(3).List {
				idx := sel.GetShard(sxU64(h))
				if idx < 0 || idx >= len(variant) {
					ch = append(ch, A(-9))
				} else {
					ch = append(ch, AI(variant[idx]))
				}
			}
			out = append(out, L(ch...))
		}
		return L(out...), true
	case 1:
		cfg := in.Nth(1)
		all := make([]int, cfg.Len())
		for i := range all {
			all[i] = i
		}
		shards, ok := c12Shards(cfg, all)
		if !ok {
			return Sx{}, false
		}
		sel, err := sharding.NewRendezvousShardSelector(shards)
		if err != nil {
			return L(A(-3)), true
		}
		var events []c12Event
		var lock sync.Mutex
		backends := []sharding.ShardBackend{}
		bes := []*c12Backend{}
		for i, s := range shards {
			be := &c12Backend{index: i, events: &events, lock: &lock}
			bes = append(bes, be)
			backends = append(backends, sharding.ShardBackend{Backend: be, Key: s.Key})
		}
		ba := sharding.NewShardingBlobAccess(backends, sel)
		ctx := context.Background()
		digests := in.Nth(2)
		named := func(err error) []Sx {
			// which shard keys does the message name ("Shard <key>: ...")
			res := []Sx{}
			msg := status.Convert(err).Message()
			for i, s := range shards {
				if strings.Contains(msg, "Shard "+s.Key+":") {
					res = append(res, AI(i))
				}
			}
			return res
		}
		out := []Sx{}
		for _, op := range in.Nth(3).List {
			events = nil
			kind := op.Nth(0).Int()
			for _, be := range bes {
				be.fault = false
			}
			if kind == 3 {
				for i, f := range op.Nth(2).List {
					if i < len(bes) {
						bes[i].fault = f.Int() != 0
					}
				}
				sb := digest.NewSetBuilder(0)
				for _, d := range op.Nth(1).List {
					if d.Int() < 0 || d.Int() >= digests.Len() {
						return Sx{}, false
					}
					sb.Add(c12Digest(digests, d.Int()))
				}
				res, err := ba.FindMissing(ctx, sb.Build())
				sort.Slice(events, func(i, j int) bool { return events[i].backend < events[j].backend })
				asked := []Sx{}
				for _, e := range events {
					asked = append(asked, L(AI(e.backend), LInts(e.ids)))
				}
				var r Sx
				if err != nil {
					r = L(AI(int(status.Code(err))), L(named(err)...))
				} else {
					ids := []int{}
					for _, d := range res.Items() {
						ids = append(ids, c12DigestID(d))
					}
					sort.Ints(ids)
					r = L(A(0), LInts(ids))
				}
				out = append(out, L(L(asked...), r))
				continue
			}
			d := op.Nth(1).Int()
			if d < 0 || d >= digests.Len() {
				return Sx{}, false
			}
			faultPos := 2
			if kind == 2 {
				faultPos = 3
			}
			for _, be := range bes {
				be.fault = op.Nth(faultPos).Int() != 0
			}
			dg := c12Digest(digests, d)
			var err error
			switch kind {
			case 0:
				_, err = ba.Get(ctx, dg).ToByteSlice(10)
			case 1:
				err = ba.Put(ctx, dg, buffer.NewValidatedBufferFromByteSlice([]byte("x")))
			case 2:
				c := op.Nth(2).Int()
				if c < 0 || c >= digests.Len() {
					return Sx{}, false
				}
				_, err = ba.GetFromComposite(ctx, dg, c12Digest(digests, c), nil).ToByteSlice(10)
			default:
				return Sx{}, false
			}
			if len(events) != 1 {
				out = append(out, L(A(-2), AI(len(events))))
				continue
			}
			code := 0
			nm := []Sx{}
			if err != nil {
				code = int(status.Code(err))
				nm = named(err)
			}
			out = append(out, L(AI(events[0].backend), AI(events[0].ids[0]), AI(code), L(nm...)))
		}
		return L(out...), true
	}
	return Sx{}, false
}

// edge hashes: 0, 1, 2^k, 2^k-1, and values whose mixed form is irrelevant
// (splitmix scrambles them) -- LUT boundaries are exercised through volume.
func c12Hash(r *Rand) uint64 {
	switch r.Intn(8) {
	case 0:
		return []uint64{0, 1, 2, 3, 1<<63 - 1, 1 << 63, 1<<64 - 1, 1<<64 - 2}[r.Intn(8)]
	case 1:
		return uint64(1) << uint(r.Intn(64))
	case 2:
		return uint64(1)<<uint(r.Intn(64)) - 1
	default:
		return r.U64()
	}
}

var c12Weights = []uint64{1, 1, 1, 2, 3, 5, 1 << 31, 1<<32 - 1, 1<<32 - 2, 1000}

func c12Pool(r *Rand, n int) []Sx {
	pool := []Sx{}
	used := map[int]bool{}
	for len(pool) < n {
		k := r.Intn(100000)
		if used[k] {
			continue
		}
		used[k] = true
		w := c12Weights[r.Intn(len(c12Weights))]
		if r.Chance(20) {
			w = r.U64()%0xffffffff + 1
		}
		pool = append(pool, L(AI(k), AU(c12KeyHash(c12Key(k))), AU(w)))
	}
	return pool
}

func (c12) Gen(r *Rand, i int, tier string) Sx {
	if r.Chance(60) {
		n := 1 + r.Intn(8)
		pool := c12Pool(r, n+2)
		small := r.Chance(35)
		if small { // coarse scores: ties between the best two shards become findable
			for j := range pool {
				pool[j] = L(pool[j].Nth(0), pool[j].Nth(1), AI(1+r.Intn(2)))
			}
		}
		base := make([]int, n)
		for j := range base {
			base[j] = j
		}
		variants := []Sx{LInts(base)}
		// permutations
		for k := 0; k < 3; k++ {
			p := append([]int(nil), base...)
			for j := len(p) - 1; j > 0; j-- {
				x := r.Intn(j + 1)
				p[j], p[x] = p[x], p[j]
			}
			variants = append(variants, LInts(p))
		}
		// every single removal
		if n > 1 {
			for k := 0; k < n; k++ {
				p := []int{}
				for j := 0; j < n; j++ {
					if j != k {
						p = append(p, j)
					}
				}
				variants = append(variants, LInts(p))
			}
		}
		// additions (front, back)
		variants = append(variants, LInts(append([]int{n}, base...)))
		variants = append(variants, LInts(append(append([]int(nil), base...), n+1)))
		if r.Chance(5) {
			variants = append(variants, LInts([]int{})) // constructor must reject
		}
		nh := 8
		if tier == "thorough" {
			nh = 40
		}
		hs := []Sx{}
		for k := 0; k < nh; k++ {
			h := c12Hash(r)
			hs = append(hs, AU(h))
			if r.Chance(30) { // and a neighbour differing in one hex digit of the leading 8 bytes
				hs = append(hs, AU(h^uint64(1+r.Intn(15))<<uint(4*r.Intn(16))))
				k++
			}
		}
		if n >= 2 && small {
			for k := 0; k < 2; k++ {
				if h, ok := c12TieHash(r, pool, base); ok {
					hs = append(hs, AU(h))
				}
			}
		}
		return L(A(0), L(pool...), L(variants...), L(hs...))
	}
	n := 1 + r.Intn(6)
	cfg := c12Pool(r, n)
	nd := 2 + r.Intn(10)
	ds := []Sx{}
	hashes := []uint64{}
	for k := 0; k < nd; k++ {
		var h uint64
		if len(hashes) > 0 && r.Chance(35) {
			h = hashes[r.Intn(len(hashes))] // same leading hash bytes, other identity/instance
		} else if len(hashes) > 0 && r.Chance(40) {
			// a neighbour: one hex digit (or one bit) of the leading 8 bytes differs - routing that
			// keeps state between lookups (a cache keyed by part of the hash) confuses such pairs
			h = hashes[r.Intn(len(hashes))]
			if r.Bool() {
				h ^= uint64(1+r.Intn(15)) << uint(4*r.Intn(16))
			} else {
				h ^= uint64(1) << uint(r.Intn(64))
			}
		} else {
			h = c12Hash(r)
		}
		hashes = append(hashes, h)
		ds = append(ds, L(AU(h), AI(r.Intn(len(c12Inst)))))
	}
	ops := []Sx{}
	nops := 3 + r.Intn(8)
	for k := 0; k < nops; k++ {
		fault := r.Chance(15)
		switch r.Intn(5) {
		case 0:
			ops = append(ops, L(A(0), AI(r.Intn(nd)), AB(fault)))
		case 1:
			ops = append(ops, L(A(1), AI(r.Intn(nd)), AB(fault)))
		case 2:
			ops = append(ops, L(A(2), AI(r.Intn(nd)), AI(r.Intn(nd)), AB(fault)))
		default:
			m := r.Intn(nd + 1)
			ids := []int{}
			for j := 0; j < m; j++ {
				ids = append(ids, r.Intn(nd))
			}
			faults := make([]int, n)
			if r.Chance(25) {
				for j := range faults {
					if r.Chance(40) {
						faults[j] = 1
					}
				}
			}
			ops = append(ops, L(A(3), LInts(ids), LInts(faults)))
		}
	}
	return L(A(1), L(cfg...), L(ds...), L(ops...))
}

func (c12) Class(in, obs Sx) (string, bool) {
	if in.Nth(0).Int() == 0 {
		n := in.Nth(2).Nth(0).Len()
		c := fmt.Sprintf("selector/shards%d", n)
		if c12HasTie(in) {
			c += "/tie"
		}
		return c, n >= 2
	}
	n := in.Nth(1).Len()
	hasFM, hasFault := false, false
	for _, op := range in.Nth(3).List {
		if op.Nth(0).Int() == 3 {
			hasFM = true
			for _, f := range op.Nth(2).List {
				if f.Int() != 0 {
					hasFault = true
				}
			}
		}
	}
	c := fmt.Sprintf("blobaccess/shards%d", n)
	if hasFM {
		c += "/findmissing"
	}
	if hasFault {
		c += "/fault"
	}
	return c, n >= 2
}

// ---- generation aid only: a copy of the scoring arithmetic, used to FIND
// hashes on which the two best shards tie (ties are what makes the sort by
// key hash and the strict comparison observable).  Nothing is judged with it.
var c12Lut = [65]uint16{
	0x0000, 0x05ba, 0x0b5d, 0x10eb, 0x1664, 0x1bc8, 0x2119, 0x2656, 0x2b80, 0x3098, 0x359f, 0x3a94, 0x3f78, 0x444c, 0x4910, 0x4dc5,
	0x526a, 0x5700, 0x5b89, 0x6003, 0x646f, 0x68ce, 0x6d20, 0x7165, 0x759d, 0x79ca, 0x7dea, 0x81ff, 0x8608, 0x8a06, 0x8dfa, 0x91e2,
	0x95c0, 0x9994, 0x9d5e, 0xa11e, 0xa4d4, 0xa881, 0xac24, 0xafbe, 0xb350, 0xb6d9, 0xba59, 0xbdd1, 0xc140, 0xc4a8, 0xc807, 0xcb5f,
	0xceaf, 0xd1f7, 0xd538, 0xd872, 0xdba5, 0xded0, 0xe1f5, 0xe513, 0xe82a, 0xeb3b, 0xee45, 0xf149, 0xf446, 0xf73e, 0xfa2f, 0xfd1a, 0,
}

func c12Len64(x uint64) int {
	n := 0
	for x != 0 {
		n++
		x >>= 1
	}
	return n
}
func c12Score(x uint64, weight uint64) uint64 {
	msb := c12Len64(x >> 1)
	bitfield := x << (64 - uint(msb))
	index := bitfield >> 58
	interp := bitfield << 6 >> 16
	base, next := c12Lut[index], c12Lut[index+1]
	frac := uint64(base)<<48 + uint64(next-base)*interp
	lf := uint64(64)<<16 - ((uint64(msb) << 16) | frac>>48)
	return (weight << 32) / lf
}
func c12Mix(x uint64) uint64 {
	x ^= x >> 30
	x *= 0xbf58476d1ce4e5b9
	x ^= x >> 27
	x *= 0x94d049bb133111eb
	x ^= x >> 31
	return x
}

// c12TieHash looks for a hash on which the two best of the given shards have
// equal scores; ok=false when none was found within the budget.
func c12TieHash(r *Rand, pool []Sx, members []int) (uint64, bool) {
	for try := 0; try < 30000; try++ {
		h := r.U64()
		var best, second uint64
		for _, m := range members {
			s := c12Score(c12Mix(sxU64(pool[m].Nth(1))^h), sxU64(pool[m].Nth(2)))
			if s > best {
				second, best = best, s
			} else if s > second {
				second = s
			}
		}
		if best == second {
			return h, true
		}
	}
	return 0, false
}

func c12HasTie(in Sx) bool {
	pool := in.Nth(1).List
	base := in.Nth(2).Nth(0).Ints()
	for _, hx := range in.Nth(3).List {
		h := sxU64(hx)
		var best, second uint64
		for _, m := range base {
			if m >= len(pool) {
				return false
			}
			s := c12Score(c12Mix(sxU64(pool[m].Nth(1))^h), sxU64(pool[m].Nth(2)))
			if s > best {
				second, best = best, s
			} else if s > second {
				second = s
			}
		}
		if best == second && len(base) >= 2 {
			return true
		}
	}
	return false
}
