package main

// A seeded change can make the code under test allocate without bound (a retry
// loop that never makes progress, a log that grows forever).  The harness
// process then has to die on its own rather than take the machine with it: a
// watchdog ends the process when its resident set exceeds a limit
// (VERIF_HARNESS_MEM_MB, default 4096).  The check reports the abnormal exit
// as an execution error of the correspondence.

import (
	"fmt"
	"os"
	"strconv"
	"strings"
	"time"
)

func init() {
	limitMB := 4096
	if v, err := strconv.Atoi(os.Getenv("VERIF_HARNESS_MEM_MB")); err == nil && v > 0 {
		limitMB = v
	}
	page := os.Getpagesize()
	// the watchdog waits on a ticker channel, not in time.Sleep: the goroutine-state scans by
	// which several plug-ins detect quiescence count "chan receive" as blocked, "sleep" as running
	tick := time.NewTicker(250 * time.Millisecond)
	go func() {
		for range tick.C {
			b, err := os.ReadFile("/proc/self/statm")
			if err != nil {
				return
			}
			f := strings.Fields(string(b))
			if len(f) < 2 {
				return
			}
			rss, err := strconv.Atoi(f[1])
			if err != nil {
				return
			}
			if rss*page/(1<<20) > limitMB {
				fmt.Fprintf(os.Stderr, "harness: resident set above %d MiB - the code under test allocates without bound; giving up\n", limitMB)
				os.Exit(3)
			}
		}
	}()
}
