CONFIG = dict(
    coqfiles=["Props/C17L.v"],
    n_quick=2500, n_thorough=400000, workers_quick=4,
    rule="sub-check of C17: C17's gated concurrent schedules (kind 2) on the real concurrency-limiting (70%, limit 1-3) or deduplicating (30%) replicator "
         "over the real local replicator, 2-6 goroutines, each using ReplicateMultiple, ReplicateSingle or ReplicateComposite (entry point per caller drawn "
         "uniformly / mostly composite / no ReplicateMultiple at all); in half of the limiter cases `limit` further callers arrive only after every other caller "
         "has returned; the wrapper between decorator and local replicator counts the calls in flight of EVERY entry point of the base replicator; the gated sink "
         "serves GetFromComposite; schedule drawn by running the implementation as in C17.  non-trivial = some caller was blocked inside the decorator; "
         "class = C17's class + entry points driven + entry points that reached the read-back from the sink.  distinct = distinct input",
    modelled=[
        "as C17 kind 2; in addition: the buffers returned by the single-object entry points are consumed at once by the caller (ToByteSlice); the child of a composite object is a fixed slice of the parent, the slicer is not used",
        "the queued replicator's ReplicateSingle/ReplicateComposite (source read with the replication as buffer task, C15) are not driven",
        "clause 27 (success of a single-object entry point needs a successful sink read or put by that caller) reads the harness's event log, which the agreement test does not constrain",
    ],
)
