CONFIG = dict(
    coqfiles=["Props/C16C.v"],
    n_quick=1500, n_thorough=30000, workers_quick=8,
    rule="sub-check of C16: STREAM CLONES of a buffer with an error handler. A stream-backed CAS buffer (chunk-reader / reader backed, C16's fault-injecting scripted sources) gets a stack of 1-3 "
         "scripted handlers (C16's generator: 0-3 I/O errors at all positions, replacements of every kind, handler errors, hostile digests / contents), is CloneStream()ed 1-3 times "
         "(clones of clones: 2-4 handles), every handle consumed by its own goroutine through ToByteSlice / IntoWriter / ToChunkReader(off, chunk) / ToReader(read sizes) or discarded (5% all discarded); "
         "the goroutines are started in a scripted order, each parked in the multiplexer's registration (goroutine quiescence via runtime.Stack) before the next starts; "
         "40% directed: the shape of LocalBlobReplicator / MirroredBlobAccess.Put - one handler, one I/O error (75%), one replacement / a handler error / no answer, two handles; "
         "observed per handle: result code and bytes; per level: OnError argument codes, Done count; per scripted source: Close() count; integrity callback verdicts; "
         "non-trivial = OnError was called at least once; distinct = distinct input",
    modelled=["the expected observation is C16's model (run16 / run_stack) of the ONE consumer of the error-handled buffer - ToChunkReader(0, smallest chunk size any handle registered) read to its end, "
              "or Discard when every handle is discarded - composed with the clone semantics: every consuming handle sees all of that stream's bytes, then its terminator, through its own method",
              "the multiplexer's own protocol (registration, lock step, early Close) is C15's model; here every consuming handle reads to the end",
              "ToByteSlice with a maximum below the digest's size and ToChunkReader offsets beyond the size are excluded (parameter errors, not recovery)",
              "goroutine scheduling below channel / lock granularity; the scripted handlers are serialised by a mutex of the harness"],
)
