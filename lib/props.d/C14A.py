CONFIG = dict(
    coqfiles=["Props/C14A.v"],
    n_quick=800, n_thorough=30000, workers_quick=8,
    rule="sub-check of C14: Action Cache histories over bufconn: grpcclients.NewACBlobAccess in front of the real grpcservers.NewActionCacheServer on a map-backed backend that records every key "
         "(instance name, digest function, hash, size) it is asked for. 2-6 drawn operations (first one: 70% a client Put) over 1-2 (hash, size) slots whose hash length is 64 (45%), 40 (27%), 32, 96 or 128 hex digits and 1-3 of the "
         "instance names \"\", a, a/b, x-y: 35% Put (half of them forced to BLAKE3 / SHA256TREE / GITSHA1) / 40% Get through the client under a function of that hash length; 70% of the Puts under a shared hash length are followed by 1-2 reads of that instance name / hash / size under the functions of that length (80% client) or without a function (20% raw) (64: SHA256 / BLAKE3 / SHA256TREE, 40: SHA1 / GITSHA1; all 8 supported "
         "functions occur) - so the SAME instance name, hash and size is written and read under several functions; 25% raw UpdateActionResult / GetActionResult requests to the server "
         "(45% digest_function UNKNOWN, 7% any function incl. one whose hash length does not fit, 4% an unsupported function, 6% a hash length no function has, 4% negative size, 4% invalid instance name). "
         "The observation carries, per operation, status, value and the backend requests, and the final contents. Classes: twin (a client Put under BLAKE3 / SHA256TREE / GITSHA1 and a later Get of "
         "that instance name / hash / size) / newfn / shared / plain x outcome; non-trivial = twin; distinct = distinct input",
    modelled=["the backend: harness-owned map keyed by the full digest; Put and Get always answer (no fault injection: C14's Action Cache cases cover backend failures)",
              "hashes: (number of hex digits, index) - equal iff both are equal; the harness uses prefixes of hex(SHA-512(index)); the Action Cache is not content addressed, the value is an exit code",
              "instance name validation is C20's: the case names valid names (index 0-3) and one invalid name (index 4, raw requests only)",
              "gRPC transport (bufconn) and protobuf marshalling of ActionResult: library behaviour"],
)
