CONFIG = dict(
    coqfiles=["Props/C16.v"],
    n_quick=16000, n_thorough=600000, workers_quick=8,
    rule="object of 0-24 bytes under one of the 8 digest functions (12% with a digest whose size or hash is wrong); original buffer and 0-3 replacement buffers, each "
         "carrying the object (12%: truncated / extended / one byte changed / unrelated) cut into <= 8 chunks incl. empty chunks, an I/O error at a random event position "
         "in every buffer but the last; buffer kinds: CAS chunk-reader buffer, CAS reader buffer (EOF attached to data or on its own call), validated byte slice, error buffer; "
         "handler script: replacements, 8% an error answer, too few / superfluous answers; every method (ToByteSlice, IntoWriter, ReadAt, ToChunkReader, ToReader, CloneCopy, Discard) "
         "with the offsets / chunk sizes / read sizes of C09; non-trivial = OnError was called at least once; distinct = distinct input",
    modelled=["as C09 (hash function = table of Go-computed hashes, Go io helpers modelled by hand, fuel)",
              "the ErrorHandler is a scripted oracle (list of answers); a handler asked more often than scripted answers with ABORTED",
              "validated byte slices handed to WithErrorHandler/returned by OnError are trusted by the code; the monitor's validity clauses apply when they hold content that is valid for the digest",
              "io.CopyN and io.ReadFull drop an error that a reader returns together with the bytes completing their request; scripted readers that attach an error to data and do not repeat it are excluded from the cases (attached EOF is included)",
              "NewValidatedBufferFromReaderAt and nested casErrorHandlingBuffers as replacement buffers are not modelled; ToProto/CloneStream/WithTask not modelled",
              "source Close() counts are not compared in C16"],
)
