CONFIG = dict(
    coqfiles=["Props/C16.v", "Props/C16N.v", "Props/C16C.v"],
    n_quick=12000, n_thorough=600000, workers_quick=8,
    sub=["C16N", "C16C"],
    rule="object of 0-24 bytes under one of the 8 digest functions (12% with a digest whose size or hash is wrong); a STACK of 1-3 WithErrorHandler decorators (35% depth >= 2) "
         "over an original buffer and 0-3 replacement buffers, each carrying the object (12%: truncated / extended / one byte changed / unrelated) cut into <= 8 chunks incl. empty chunks, "
         "an I/O error at a random event position in every buffer but the last; buffer kinds: CAS chunk-reader buffer, CAS reader buffer (EOF attached to data or on its own call), "
         "validated byte slice, error buffer; handler scripts per level: the k-th failure is repaired by a level at or above the level that repaired the previous one, the active levels below it "
         "answer with errors (the inner handler's error is the outer handler's input); unrecoverable failures (EVERY handler of the stack answers with an error or has no answer left) "
         "in 40% of the stacked and 10% of the single-handler cases with a failure, at a random failure; too few / superfluous answers at a random level; "
         "every method (ToByteSlice, IntoWriter, ReadAt, ToChunkReader, ToReader, CloneCopy, Discard) with the offsets / chunk sizes / read sizes of C09, the streaming ones "
         "(IntoWriter, ToChunkReader, ToReader) in ~70% of the stacked cases; observed per level: OnError argument codes and Done count; per scripted source (original and every "
         "replacement created, creation order): Close() count; non-trivial = OnError was called at least once at some level; distinct = distinct input",
    modelled=["as C09 (hash function = table of Go-computed hashes, Go io helpers modelled by hand, fuel)",
              "every ErrorHandler is a scripted oracle (list of answers); a handler asked more often than scripted answers with ABORTED",
              "stacks are modelled flattened (run_stack): one plain reader below the active levels, which all hold the same delivered offset; finished levels have received Done; "
              "a stack of one handler is additionally compared with the older model of the single handler (run_case), the subject of the stitching theorems",
              "in run_stack replacement buffers are plain buffers; replacements that are themselves casErrorHandlingBuffers (WithErrorHandler around a stream, to any depth) are the sub-check C16N (Buffer/EHNest.v, harness/c16n.go), whose cases are folded into this check",
              "validated byte slices handed to WithErrorHandler/returned by OnError are trusted by the code; the monitor's validity clauses apply when they hold content that is valid for the digest",
              "io.CopyN and io.ReadFull drop an error that a reader returns together with the bytes completing their request; scripted readers that attach an error to data and do not repeat it are excluded from the cases (attached EOF is included)",
              "NewValidatedBufferFromReaderAt is not modelled; ToProto/WithTask not modelled; CloneStream() of a buffer with an error handler is the sub-check C16C (Run/R16C.v, harness/c16c.go), whose cases are folded into this check",
              "the order of Done/Close calls relative to each other is not observed, only their number per handler / per source"],
)
