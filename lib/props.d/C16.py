CONFIG = dict(
    coqfiles=["Props/C16.v"],
    n_quick=16000, n_thorough=600000, workers_quick=8,
    rule="tbd",
    modelled=[],
)
