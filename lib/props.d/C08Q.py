CONFIG = dict(
    coqfiles=["Props/C08Q.v"],
    n_quick=3000, n_thorough=60000, workers_quick=8,
    rule="sub-check of C08 (quarantine arithmetic under interleaving): the real NewOldCurrentNewLocationBlobMap over the real volatile block list + block-device-backed allocator "
         "(sector size 1, CAS read buffer factory, in-memory device) behind a BlockList wrapper; at every PopFront/PushBack the real findBlockWithSpace makes, the wrapper first completes the scheduled "
         "parked reads (real buffers from the real Get(); the probe's byte was flipped on the medium, so CAS validation fails and the real integrity callback runs), records the visibility of one "
         "probe per live block through the real HashingKeyLocationMap/InMemoryLocationRecordArray -> BlockReferenceToBlockIndex, then forwards the call; geometries block size 8/16/32, old 0-3, current 0-3, "
         "new 1-3, mutable or immutable growth; 25% of the cases construct the map with initialBlocksCount 1..capacity+3 (the harness pushes that many blocks, each with its probes, into the block list before the first operation; above capacity the constructor quarantines the excess). 92% structured: fill to the steady state (every upload fills a block), then 1-4 rounds (thorough 1-8) of 1-3 readers obtained on random live blocks (85% on the damaged probe) -> "
         "each finishes before the Put, at its PushBack / rotation PopFront / a later block-list call, after it, or never -> finalizers of earlier Puts -> further Puts (release of the quarantined blocks) "
         "with stale callbacks; 8% hostile op streams. Observation per op: code, chosen block, per block-list call (kind, callback results incl. the error logger's release count, visibility vector), "
         "visibility vector after the op; compared verbatim with the extracted model. non-trivial = a detection landed inside a Put; distinct = distinct input; "
         "class = where detections landed (mid-rotation / mid-put / outside / none)",
    modelled=["increaseTotalBlocksToBeReleased's compare-and-swap loop is one atomic maximum step in Store/Quarantine.v (the model the harness is compared with); Store/QFine.v composes the Load/CompareAndSwap-granularity loop of Store/CasMax.v with that model and proves that every fine-grained trace is a coarse trace with stutter steps (fine_grained_refines_atomic_maximum; safety only, lock-freedom not stated); Go atomics trusted; callbacks run on the harness goroutine at the chosen positions (positions between two block-list calls of one Put are indistinguishable for the real code: at most one access to the atomic lies between them)",
              "uint64 counters do not reach 2^64; the wrapping subtraction in BlockReferenceToBlockIndex is modelled (boundary below the release counter hides every block)",
              "every fresh block holds the harness's two 1-byte probes (q_pb = 2); uploads larger than blockSize-2 but not larger than blockSize are not generated (they would rotate for ever)",
              "PushBack never fails (4096 device blocks); restored blocks are fresh blocks holding only the probes (what the blob map sees of a restored block list: a count; restoring itself is C02/C03's subject)",
              "fuel: proved sufficient (Store/QFuel.v) for upload sizes <= blockSize-2 or > blockSize, the sizes the harness generates and accepts"],
)
