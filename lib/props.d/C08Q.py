CONFIG = dict(
    coqfiles=[],
    n_quick=1500, n_thorough=60000, workers_quick=8,
    rule="sub-check of C08 (quarantine arithmetic under interleaving): TODO",
    modelled=[],
)
