CONFIG = dict(
    coqfiles=["Props/C01S.v"],
    n_quick=600, n_thorough=40000, workers_quick=8,
    rule="sub-check of C01: the real NewBlockDeviceBackedBlockAllocator over a byte-slice BlockDevice that logs every WriteAt (3 blocks, the middle one under test, "
         "NewBlock or NewBlockAtLocation with a restored write offset); sector 1/2/4/8/16, 2-8 sectors per block; 2-6 allocations (HasSpace, then Put) of sizes biased to 0, 1, sector-1, "
         "sector, sector+1, multiples of the sector, 'exactly fills the block', one byte too many; every writer is driven through the real BlockPutWriter (IntoWriter + flush) by a goroutine "
         "fed chunk by chunk from a gated source behind the real CAS validating chunk reader: random chunkings (incl. empty chunks), interleavings of 2-4 writers at chunk granularity, "
         "allocations while earlier writers are in flight, abandoned writers (source error, premature EOF, surplus data), writers finishing out of allocation order; 12% hostile (random event soup). "
         "Compared per step: HasSpace answers, finalizer results and offsets, the device write log (offset, bytes) in order; at the end the device contents and every writer's offset. "
         "non-trivial = at least two writers share a sector, both were in flight at the same time, and at least one of them completed; distinct = distinct input; "
         "class = sector size / shared, abandoned, restored, full flags",
    modelled=["Go int/int64 arithmetic does not overflow (sizes far below 2^63); sector size >= 1",
              "the device never fails (WriteAt inside the device succeeds and writes everything)",
              "the CAS validating chunk reader between the upload source and Write (it withholds the chunk that completes the declared size until EOF, rejects surplus data and premature EOF) "
              "is modelled in Run/R01S.v, not verified here (its own properties are C09)",
              "atomic steps: one Put under the store's lock; one Write or flush call (its shared-sector section is atomic by sharedSector.lock; its remaining device writes touch sectors of no "
              "other writer and commute with every other writer's steps: private_write_commutes); the harness interleaves at Write/flush granularity; sync.Mutex and the Go memory model trusted",
              "use counts / Release / Get of the block are not part of this component model (C04)"],
)
