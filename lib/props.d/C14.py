CONFIG = dict(
    coqfiles=[],
    n_quick=3000, n_thorough=100000, workers_quick=8,
    rule="tbd",
    modelled=[],
)
