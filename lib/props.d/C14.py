CONFIG = dict(
    coqfiles=["Props/C14.v", "Props/C14F.v", "Props/C14A.v", "Props/C14P.v"],
    sub=["C14F", "C14A", "C14P"],
    n_quick=3000, n_thorough=120000, workers_quick=8,
    rule="40% ByteStream.Write through the real service with a fake request stream (identity / zstd via the real pkg/zstd pool; payload cut into 1-6 messages "
         "incl. empty ones; half of them damaged by 1-2 of: gap, overlap, non-zero first offset, finish_write missing / early / repeated, data after finish, "
         "early close, stream error, backend error, empty chunk, repeated or swapped message, foreign resource name; wrong content / size / hash; zstd: garbage, "
         "truncated frame, two frames, trailing bytes); 22% ByteStream.Read (offsets 0, inside, size, beyond, negative, huge; chunk 1-64; absent / corrupt / failing "
         "backend; failing Send at message 0-3; read_limit); 16% BatchUpdateBlobs / BatchReadBlobs (0-5 entries, mismatching data or size, duplicates, per-entry backend "
         "faults, size budget at the boundary); 5% FindMissingBlobs; 14% client<->server over bufconn with grpcclients.NewCASBlobAccess (compression off / negotiated "
         "with the bounded pool / the library-default concurrent decoder / a decoder reporting EOF with the last bytes; object sizes 0,1,chunk-1,chunk,chunk+1,2chunk,...; "
         "Put, Get, FindMissing sequences); 3% ActionCache Get/UpdateActionResult. non-trivial = >=2 messages / an offset inside the object / >=2 entries / >=2 operations; "
         "distinct = distinct input",
    modelled=["hash function: an argument of the model; the judge instantiates it with 'index of the byte string among the case's blobs' (the harness uses MD5 of the same blobs; no MD5 collision among a case's strings is assumed)",
              "zstd: arguments compress/decompress with the premise decompress (compress x) = DOk x; for uploads the judge's decompress is a table computed by the real library for every message prefix of the case (carried in the observation); "
              "read streams are compared after decoding with the real library",
              "when the decoder and the validating reader can both object (damaged frame, stream error after oversized data) the model lists the admissible failure codes; all of them store nothing",
              "resource-name and digest parsing is C20's: the case names the parse result (identity, zstd, other compressor, malformed; negative size)",
              "gRPC transport (bufconn): in-order delivery; cancellation after a client-side buffer error reaches the server as a stream error",
              "backend: harness-owned map; Put consumes the buffer to completion (ToByteSlice, 1 MiB limit) or discards it and fails; Get hands out digest-validated byte-slice buffers",
              "a compressed upload is over at its first finish_write: later messages are not read by the service and are not part of the statement (the identity path rejects them)",
              "digests of kinds 0-6 live under ONE instance name and digest function (MD5); several instance names / digest functions in one history and in one FindMissing call are the sub-check C14F (harness/c14f.go, Run/R14F.v, Rpc/FindMissingMulti.v); its cases are folded into this check",
              "the Action Cache cases (kind 6) drive the server alone with one digest function; grpcclients.NewACBlobAccess in front of the server, all supported digest functions and the digest_function field (explicit / UNKNOWN) are the sub-check C14A (harness/c14a.go, Run/R14A.v, Rpc/ActionCache.v); its cases are folded into this check",
              "in the client<->server cases (kind 5) the backend's Put never fails and data not matching the digest is rejected inside the client (error buffer) before anything is sent: uploads that fail only with the FINAL status of the Write RPC (backend failure after consuming the upload; server-side rejection of data sent through a buffer without a client-side check) are the sub-check C14P (harness/c14p.go, Run/R14P.v); its cases are folded into this check"],
)
