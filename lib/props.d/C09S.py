CONFIG = dict(
    coqfiles=["Props/C09S.v"],
    n_quick=3000, n_thorough=150000, workers_quick=8,
    rule="sub-check of C09: C09's structured/hostile cases restricted to the methods ToByteSlice, IntoWriter, ToChunkReader and ToReader, the real buffer CloneStream()ed, one clone consumed, "
         "its sibling discarded before (order 0) or after (order 1: the consuming clone runs in its own goroutine and is blocked on its sibling when the Discard arrives; goroutine quiescence via runtime.Stack) "
         "the consuming clone registered with the multiplexer; the observation (bytes, code, further reads, integrity callbacks, source close count) must equal C09's model of consuming the buffer directly; "
         "non-trivial and classes as C09, prefixed with the order",
    modelled=["the specification of a stream clone is the specification of the buffer itself (C09's model and monitor applied to the inner case); the multiplexer's own protocol is C15's model",
              "goroutine scheduling below channel/lock granularity"],
)
