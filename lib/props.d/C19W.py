CONFIG = dict(
    coqfiles=["Props/C19W.v"],
    n_quick=700, n_thorough=40000, workers_quick=4,
    rule="sub-check of C19: a `demultiplexing` configuration message with 1-4 distinct instance-name prefixes (the empty prefix, nested ones, siblings, lookalikes; shuffled, put into the message's MAP), "
         "each with an add_instance_name_prefix drawn from a small set (empty x3, x x2, x/y, a; 12% own prefix + component; 8% of the cases other entries' match prefixes) so that several prefixes share one (30% of the cases: one add-prefix for all entries), "
         "each with a `grpc` backend; the composite is built by the real configuration.NewBlobAccessFromConfiguration with a grpc.ClientFactory whose connections are in-process fakes of the remote CAS "
         "(ByteStream Read/Write, FindMissingBlobs) holding about half of the rewritten digests they own plus decoys, 10% faulty, recording every request; 2-7 Get/Put/FindMissing(1-8 digests over 3-8 names, "
         "70% below a configured prefix, the others related/unknown). non-trivial = a FindMissing whose digests belong to >=2 prefixes sharing one add-prefix; distinct = distinct input",
    modelled=["only the demultiplexing case of new_blob_access.go is exercised, with remote-CAS clients (grpcclients.NewCASBlobAccess, real) as leaves over fake connections; metrics decorators and the empty-blob injector are real",
              "the remote-CAS client issues one FindMissingBlobs RPC per instance name: the RPCs one backend receives during one FindMissing are recorded as one call (a backend asked twice goes unnoticed)",
              "digests are genuine MD5 digests of 'c19w blob <id>' (the client validates data); digest.Set order and Go map order as in C19",
              "GetFromComposite is not exercised (the remote-CAS client needs a slicer); duplicate prefixes cannot occur in a map"],
)
