CONFIG = dict(
    coqfiles=["Props/C07D.v"],
    n_quick=600, n_thorough=30000, workers_quick=8,
    rule="histories of 4-18 (thorough: up to 48) events against the real directory-backed persistent state store over a simulated directory with volatile and durable name spaces: "
         "WritePersistentState with an injected failure at each of its seven directory operations (60% followed by the retry of the same state), the process killed at each operation, "
         "power cuts, reads; non-trivial = at least one fault, kill or power cut; distinct = distinct input",
    modelled=["the directory: name-space operations durable at the next directory fsync, file content durable at the file's fsync, un-synced content garbage after a power cut, "
              "a killed process's later operations without effect (the fault model of C02 for the state directory)",
              "protobuf marshalling of PersistentState (the state id travels in oldest_epoch_id)"],
)
