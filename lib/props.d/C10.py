CONFIG = dict(
    sub=["C10W"],
    coqfiles=["Props/C10.v", "Props/StoreCombined.v", "Props/C10W.v", "Props/C01W.v"],
    n_quick=1500, n_thorough=60000, workers_quick=8,
    rule="random store geometries (block size 16-64, sector 1/4/16, old 0-3, current 0-3, new 1-3, immutable and mutable growth, in-memory or block-device allocator with 1-3 spare blocks, "
         "flat keys with/without instance or hierarchical, validating CAS or raw read factory) x schedules of 15-45 (thorough: 20-100) atomic steps: uploads fed chunk by chunk through a gated source "
         "(wrong/short/long content, source failures), readers held open, existence checks, composite reads with a gated slicer; non-trivial = a successful read plus at least one of: "
         "two operations in flight, a composite read, an eviction observed; distinct = distinct input",
    modelled=["the key-location index is abstracted to 'newest valid stored location per key' (C06 proves the refinement absent reported discards; the harness uses a 9973-entry table)",
              "sector-level device writes of the block-device allocator are not modelled here (block contents are byte arrays written per upload chunk)",
              "SHA-256 as identity of content (an upload is valid iff its bytes equal the object's canonical content)",
              "schedules at the granularity of lock-protected sections / upload chunks / slicer hand-off; Go sync primitives trusted"],
)
