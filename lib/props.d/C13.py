CONFIG = dict(
    coqfiles=["Props/C13.v"],
    n_quick=6000, n_thorough=300000, workers_quick=8,
    rule="structurally built ActionResults (0-6 output files, 0-4 output directories over 0-3 Trees of 0-4 directories with nested references, "
         "with/without root digest, absent digests, inlined contents, duplicate digests; MD5/SHA1/SHA256; batch size 1-5; CAS reader chunk 1..4096) "
         "then one of: nothing / one referenced object absent / one Tree truncated, byte-flipped, read error after k bytes, Get error, not stored / "
         "FindMissing failure at call k / a malformed or missing digest anywhere / tree-size and message-size budgets at their boundary +-1 / "
         "presence flipping between FindMissing calls / AC error / two faults; 15% hostile stream with raw Tree encodings "
         "(bad wire types, oversize and overlong varints, field number 0, garbage Directory payloads, premature end); "
         "non-trivial = the ActionResult has at least one output and the CAS received at least one FindMissing; distinct = distinct input",
    modelled=["protobuf (un)marshalling of ActionResult/Tree/Directory is done by the harness (proto.Marshal/Unmarshal); the model sees the decoded structure and, for Trees, the raw bytes",
              "digest derivation (NewDigestFromProto) and hashing are computed by the harness: digests are identities (ids) plus sizes for the model",
              "what CAS.Get(tree).ToReader() delivers (bytes, then EOF or an error code) is read from the real CAS buffer by the harness and given to the model; the CAS reader's own validation is property C09",
              "digest.Set ordering is canonicalised by the harness (sorted ids); error messages are not compared, only gRPC codes"],
)
