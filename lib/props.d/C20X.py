CONFIG = dict(
    coqfiles=["Props/C20X.v"],
    n_quick=1500, n_thorough=30000, workers_quick=4,
    rule="sub-check of C20: universe of md5 (15%: any function) digests over 2-4 instance names x 2-5 hashes (50%: the lowest hashes belong to one instance name only, so that its digests form a prefix "
         "of every set), sizes incl. 0, 1-3 initial sets built by SetBuilder, program of 3-10 instructions over the environment of REAL digest.Set values: 45% partition a set then "
         "difference/intersection/union of its partitions with the origin (both argument orders), 10% a set with itself, 15% difference results fed back in, 10% sets returned unchanged by "
         "RemoveEmptyBlob / single-set GetUnion combined with their origin, 10% unions of overlapping derived sets, 10% arbitrary indices (incl. one beyond the environment = empty set). "
         "non-trivial = some instruction takes a derived set; distinct = distinct input",
    modelled=["Go slices sharing storage are not modelled: the model's sets are values (lists of packed digests); the harness keeps the real derived Set values, so that aliasing only exists on the implementation side",
              "map/heap order abstracted as in C20; an index beyond the environment denotes the empty set on both sides"],
)
