CONFIG = dict(
    coqfiles=["Props/C12.v", "Props/C12W.v"],
    sub=["C12W"],
    n_quick=1600, n_thorough=30000, workers_quick=8,
    rule="(a) selector cases: pool of 3-10 shards (SHA-256 key hashes computed by Go, weights incl. 1, 2^31, 2^32-1; 35% with weights 1-2 so that score ties are findable), "
         "base map + 3 random permutations + every single removal + 2 additions, 8 (quick) / 40 (thorough) hashes incl. 0,1,2^k,2^k-1,2^64-1 plus up to 2 hashes on which the best two shards tie; "
         "(b) blob-access cases: 1-6 shards, 2-11 digests (35% share leading hash bytes under other instance names), 3-10 Get/Put/GetFromComposite/FindMissing with backend faults; "
         "non-trivial = at least 2 shards; distinct = distinct input",
    modelled=["SHA-256 of the shard key is computed by the harness (same formula as hashServer) and handed to the model",
              "errgroup: which failing shard's error is returned first is unspecified (agreement on the named shard is membership)",
              "digest.Set ordering is canonicalised by the harness (sorted digest identities); the set algebra itself is C20"],
)
