CONFIG = dict(
    coqfiles=["Props/C03.v"],
    n_quick=320, n_thorough=100000, workers_quick=8,
    rule="persistent local store wired as new_blob_access.go (block size 32-64, sector 1/4/16, old 1-2, current 1-2, new 1-3, spare 1-2, immutable or mutable growth policy, flat or hierarchical, "
         "raw (70%) or CAS-validating read factory, in-memory or directory-backed state store (the latter also with failing rename / fsync of state.new), intervals 0/4/10, 60% with injected sync/state-write failures) x 2-3 (thorough -4) incarnations of "
         "3-30 scheduled steps over {upload start/chunk/end through a gated source in 4 slots, Get, FindMissing, DataSyncer / state-write completion ok/fail, clock, timer expiry, cancel, "
         "drive-to-exit, drive-to-idle}; every incarnation ends with a process exit (graceful iff ProcessBlockPut returned) keeping the three media, the next one reads back every key; "
         "75% random structured (traffic, then shutdown with the final commit's steps interleaved with uploads / commit then crash / crash anywhere), 25% sweeps: one base scenario per 24 cases "
         "with the shutdown request inserted at every position; 10% hostile soups; non-trivial = an acknowledged upload in an incarnation that ended gracefully or after a commit with no later "
         "Put, and something found at read-back; distinct = distinct input",
    modelled=["atomic steps are lock-protected sections and I/O calls; the harness observes the syncer loops when both are blocked again (runtime.Stack) and records the sequential history of "
              "PersistentBlockList calls through transparent BlockList / PersistentStateSource / BlockAllocator decorators; the judge validates that history against PBL.v + Syncer.v "
              "(trace validation: every call result, every state written, what each loop waits for, the restored list) rather than predicting it from the input",
              "the old/current/new map, the key-location map and the record array are not modelled in C03 (C01/C05/C06 do that); the monitor's only knowledge of them is the eviction rule "
              "(a PopFront excuses a loss only if the list held old+current+new+1 blocks) and that the index never overflows (61-251 slots for <= 12 keys, 64/128 attempts)",
              "process crash = all in-memory objects dropped at a quiescent point, the data device, the index device and the state file kept as they are (no write is lost; lost writes are C02)",
              "hash seeds are canonicalised by order of first appearance; seeds are assumed fresh (a record whose epoch is not in the restored state does not validate)",
              "the ghost history of Shutdown.v (acks, cohorts of syncs and state writes) is defined from the states before and after a step; that it never influences a step is a theorem (grun_is_run)",
              "NewOldCurrentNewLocationBlobMap's restoration loops are modelled by ocn_new; tied to the code at every restart by comparing the number of restored blocks that the real map "
              "reports as old (needsRefresh) with l_old (ocn_new ...), and through the monitor's eviction rule; totalBlocksToBeReleased itself is not observable"],
)
