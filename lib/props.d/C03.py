CONFIG = dict(
    coqfiles=["Props/C03.v"],
    n_quick=480, n_thorough=40000, workers_quick=8,
    rule="tbd",
    modelled=[],
)
