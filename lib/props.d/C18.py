CONFIG = dict(
    coqfiles=["Props/C18.v"],
    n_quick=6000, n_thorough=200000,
    rule="random authorizer trees (depth<=3 quick, <=4 thorough, 0-4 members per 'any') x one operation. 40%: scripted leaves only (verdicts "
         "allow/deny/13/14/16 per name) over the fixed alphabet; 60%: trees with instance_name_prefix leaves built through the configuration "
         "factory (30% a bare prefix authorizer per operation kind, 30% 'any' over prefix authorizers, 40% mixed with scripted leaves), allowed-prefix "
         "sets (0-4 prefixes: empty name, single/multi-component, nested, siblings sharing a string prefix such as team/prod vs team/production) and a "
         "name alphabet chosen around them (strict ancestors, the prefix, descendants, near misses, unrelated). "
         "non-trivial = tree of the operation has depth>=1 (a real 'any' combinator) or contains a prefix leaf; distinct = distinct input. "
         "class = op/depth/result/leaf kinds[/relation of the involved names to the allowed prefixes: anc = an uncovered non-empty strict ancestor "
         "of an allowed prefix (interior trie node), near = uncovered string extension, uncov, cov]",
    modelled=["scripted leaf authorizers answer each instance name independently of the batch (oracle table)",
              "prefix leaves: the C19 trie model (Set of every allowed prefix, then the ContainsPrefix loop) on component lists; "
              "names are split like the code does (valid instance names only: no empty components)",
              "Go map iteration order in FindMissing: any order of distinct names (agreement on the returned code is membership)",
              "error messages are not compared, only gRPC codes"],
)
