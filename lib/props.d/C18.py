CONFIG = dict(
    coqfiles=["Props/C18.v"],
    n_quick=4000, n_thorough=200000,
    rule="random authorizer trees (depth<=3 quick, <=4 thorough, 0-4 members per 'any', verdicts allow/deny/13/14/16 per name) x one operation; "
         "non-trivial = tree of the operation has depth>=1 (a real 'any' combinator) ; distinct = distinct input",
    modelled=["leaf authorizers answer each instance name independently of the batch (oracle table)",
              "Go map iteration order in FindMissing: any order of distinct names (agreement on the returned code is membership)",
              "error messages are not compared, only gRPC codes"],
)
