CONFIG = dict(
    coqfiles=["Props/C01W.v"],
    n_quick=120, n_thorough=1500, workers_quick=8,
    rule="a CAS built by the real NewBlobAccessFromConfiguration on a file-backed block device (key-location map on a second file-backed device in 60% of the cases, flat or hierarchical, "
         "old_blocks = 0 so that no read refreshes, 1-3 new and 0-2 current blocks, several objects per block): 4-11 uploads, the whole blocks file garbled, one object read (detection), "
         "then 3-7 Gets / FindMissing of the objects; non-trivial = at least one successful read or an INTERNAL error; distinct = distinct input",
    modelled=["the configuration message is translated to a store configuration by Store/Wiring.v; corruption is written into the blocks file behind the store's memory mapping; "
              "nothing is uploaded after the corruption (a write into a one-sector block rewrites the sector from its in-memory image and heals it, which the byte-granular model does not describe)"],
)
