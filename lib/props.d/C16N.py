CONFIG = dict(
    coqfiles=["Props/C16N.v"],
    n_quick=4000, n_thorough=300000, workers_quick=8,
    rule="sub-check of C16: NESTED error handling. Buffers are trees: a plain buffer of C16 (CAS chunk-reader / reader buffer, byte slice, error buffer) or WithErrorHandler(tree, scripted handler) whose "
         "answers are again such trees or errors (depth <= 4 generated, <= 10 accepted). 45% directed: the original stream fails after f1 bytes (80% f1 > 0), the replacement is a WRAPPED stream failing "
         "after f2 >= f1 bytes, its handler supplies the second-level replacement (35% wrapped and failing once more; 10% it gives up and the outer handler is asked), optional answer-less wrappers; "
         "43% random trees (0-3 failures per handler, each replacement wrapped with 70%, handlers that give up / run out of answers / have superfluous answers); 12% hostile (digest with wrong size or hash, or "
         "buffers with truncated / extended / altered / unrelated content); chunkings of C09 (<= 8 chunks incl. empty ones, 1-byte, whole); methods of C09 without CloneCopy, 75% streaming; "
         "non-trivial = some handler was asked; class = method/outcome/reach (3 = the handler of a REPLACEMENT supplied a replacement: an error-handling reader opened at a delivered offset resumed)",
    modelled=["as C16; every handler is a scripted oracle; a wrapper is applied to stream-backed buffers only (chunk-reader / reader buffers and wrapped buffers): a handler applied to a byte slice or error buffer "
              "is consulted at once and no wrapper exists - that is C16's with_error_handler; such trees are rejected by the harness",
              "CloneCopy is not exercised on trees",
              "the order of calls to different handlers is not observed, only each handler's own record"],
)
