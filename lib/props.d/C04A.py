CONFIG = dict(
    coqfiles=["Props/C04A.v"],
    n_quick=2400, n_thorough=120000, workers_quick=8,
    rule="sub-check of C04: the real local.NewBlockDeviceBackedBlockAllocator over a byte-slice block device (sector 1/4/16/512, 1-4 sectors per block, 0-6 regions; 8% of the cases "
         "local.NewInMemoryBlockAllocator) driven through its exported interface by 3-60 calls: NewBlock, NewBlockAtLocation(location, writeOffset) (60% a free region, 20% a region in use, "
         "20% off a block boundary / out of range / wrong size / negative / sector offset), Release() by the owner, Get (reader held open), HasSpace+Put (writer held), closing readers / running "
         "writers later - also after the owner's Release(). For every block handed out the harness reads its first byte through Get and records at which device offset the read arrives (the region "
         "actually used, independent of the location message); at the end NewBlock is called until it fails (at most regions+1 times); the allocator's Prometheus allocation/release counters "
         "are recorded per case. 45% restart scenarios (0..regions blocks restored at locations in any order with bad and repeated locations in between, then growth/rotation/pins), "
         "30% fill up - release while readers/writers are open - NewBlock must wait - finish them - NewBlock succeeds, 15% uniform mixes, 10% hostile (handles/pins at random, repeated Release(), "
         "Get/Put on released blocks: the code's use-count panics are predicted by the model). Compared with the extracted Alloc/BDA.v: every call's result including the exact region "
         "handed out, HasSpace, the offset returned by each writer, panics, the drain and both counters. non-trivial = a region handed out again after it was given back, or NewBlock succeeding "
         "after a block was restored at a location; distinct = distinct input; class = allocator / at-ok, at-fail, unavail, reuse, rel-pinned, put, misuse, panic",
    modelled=["calls are made one at a time (the BlockAllocator interface is documented as not thread-safe; Release()/reader Close() only touch an atomic counter and the locked free list)",
              "the region of a block = the device offset at which a one-byte read through Block.Get arrives; block CONTENTS on the device are not compared here (C01S/C02 do that)",
              "int64 arithmetic in Z (sizes and offsets below 2^40); a negative writeOffset is rejected as ill-formed by the harness",
              "a handle is live from its hand-out until the owner's Release() and the finish of every reader/writer obtained from it; the monitor judges the calls up to the first breach of the "
              "caller's protocol (second Release() by the owner, Get/Put after it); behind it only model agreement is checked",
              "the in-memory allocator has no regions, free list or use counts: modelled as 'NewBlock always succeeds, NewBlockAtLocation always fails, Release is a no-op', plus a read-back of every completed Put"],
)
