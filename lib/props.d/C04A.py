CONFIG = dict(
    coqfiles=[],
    n_quick=2400, n_thorough=120000, workers_quick=8,
    rule="TODO",
    modelled=[],
)
