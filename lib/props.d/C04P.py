CONFIG = dict(
    coqfiles=["Props/C04P.v"],
    n_quick=1600, n_thorough=80000, workers_quick=8,
    rule="sub-check of C04: the real NewPersistentBlockList + NewPeriodicSyncer (gated DataSyncer / PersistentStateStore, virtual clock, goroutine quiescence as in C07) over a "
         "harness BlockAllocator that models the block-device allocator's accounting (2-5 regions, FIFO free list, UNAVAILABLE when none is free, Release() returns the region at use count 0); "
         "0-4 restored blocks at distinct regions; ONE log of region hand-outs, Release() calls, PopFronts and every persistent state with the start and the completion (ok/error) of its write. "
         "60% directed schedules: fill the list, then 1-3 rounds of PopFront -> (the release loop takes the state; write in flight) -> [failed write, retry timer] -> further PopFront(s) while a write is in flight "
         "-> the write completes -> 1..regions+1 PushBacks reaching the freed regions, interleaved with further completions, uploads, shutdown; 30% C07-style random streams biased to PushBack/PopFront/state-write "
         "completions; 10% hostile. Compared with the extracted PBL.v/Syncer.v + allocator accounting: every step's C07 observation (loop positions, written states, released blocks), free count and event log. "
         "non-trivial = at least one state write completed and at least one region handed out again after a Release(); distinct = distinct input; "
         "class = completed/failed writes, pops, releases, reuses, pops while a write is in flight, allocator full, shutdown",
    modelled=["goroutine scheduling below lock/I-O granularity: the harness observes the loops only when both are blocked again (quiescence via runtime.Stack)",
              "which loop wins a free storeLock when both want it is unspecified (sync.Mutex); the judge takes the winner from the observation",
              "the BlockAllocator is a harness model of the block-device allocator's accounting (regions, FIFO free list, use count 1 per listed block, no readers); the real allocator's accounting is C04's allocator_invariant",
              "a state write that fails leaves the previous state file in place (the real store replaces the file atomically); 'durably written' = WritePersistentState returned nil",
              "hash seeds are canonicalised by order of creation"],
)
