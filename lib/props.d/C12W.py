CONFIG = dict(
    coqfiles=["Props/C12W.v"],
    n_quick=600, n_thorough=20000, workers_quick=4,
    rule="sub-check of C12: 1-7 shards (keys, weights as in C12) put into a configuration message's shards MAP, each with an error backend whose message carries its key; the composite is built by the real "
         "configuration.NewBlobAccessFromConfiguration (Go randomises the map's iteration order on every construction); 4-15 digests, one Get each: the shard named by the 'Shard <key>:' annotation and the "
         "backend whose message came back. non-trivial = at least two shards; distinct = distinct input",
    modelled=["only the sharding case of new_blob_access.go is exercised (error backends as leaves); metrics decorators are real",
              "Go's map iteration order is sampled, one order per construction"],
)
