CONFIG = dict(
    coqfiles=["Props/C02.v"],
    n_quick=320, n_thorough=12000, workers_quick=8,
    rule="TBD",
    modelled=[],
)
