CONFIG = dict(
    sub=["C02D"],
    coqfiles=["Props/C02.v", "Props/C07D.v"],
    n_quick=560, n_thorough=24000, workers_quick=8,
    rule="10 of 12 cases: a persistent store wired as in new_blob_access.go (sector 16/32, 2-4 sectors per block, old 1-2, current 0-2, new 1-2, spare 1-2 blocks, index of 5-31 records with "
         "maximum get attempts 2-8, raw or validating CAS read factory, 4-9 keys with 1-3 content versions of sizes 0, 1, sector-1, sector, sector+1, half block, block...) x a schedule of 18-48 "
         "(thorough -90) steps {whole upload, gated upload fed in chunks (2-3 in flight), read (refresh), FindMissing, clock advance, timer expiry per loop, DataSyncer completion ok/fail, "
         "1-6 directory operations of a state write with an optional failure} x 10-24 (thorough 20-60) crash experiments = (log position: k I/O operations into step j, incl. inside a step and "
         "inside the recovery reads) x (data sector writes since the begin of the last completed sync: all / none / random half / random quarter lost or kept / last k lost / last k kept / exactly one lost) "
         "x (index record writes: the same menu over ALL record writes of the life) x (0,1,2,3,all pending name-space operations took effect) x (content of an un-fsynced file: written / empty / an older "
         "state file); each experiment restarts a NEW store on the rebuilt media, probes every key (FindMissing+Get), runs a further schedule of 0-12 steps, re-reads every key, and nests (30%/20%) up to 3 "
         "restarts deep; 2 of 12 cases: resolution differential (a state file of 0-7 blocks with epoch ids incl. 2^32-1 wrap, seeds incl. 0, one unattachable block in 7%; 2-10 records written through the "
         "real record array under the right / a stale / an off-by-one-bit seed, 18% with one flipped byte); non-trivial = some key served after a restart from a restored state file while some write "
         "was lost; distinct = distinct input",
    modelled=["data device: a write is durable once a Sync CALLED after it RETURNED nil, otherwise lost in any combination at sector granularity (sector writes atomic)",
              "index device never synced: any subset of the record writes of a life survives; record writes are atomic (torn index records - DESIGN.md observation O1 - are outside the fault model)",
              "state directory: name-space operations since the last directory fsync take effect as a prefix (ordered metadata journalling); an un-fsynced file holds what was written, nothing, or an older state file",
              "a record verifies under exactly the seed it was written with (RecordCodec theorems; in crash cases the judge uses the seed the block list reports at write time, in differential cases the real checksum)",
              "a fresh seed differs from all earlier seeds (real seeds come from random.CryptoThreadSafeGenerator); same geometry across restarts",
              "bytes read are canonicalised by the harness to (key, version) when they equal that version's content exactly (bytes.Equal), else reported raw",
              "crash safety is proved for arbitrarily many crash+restart rounds (repeated_crash: a history of lives, each on the media the previous crash left; incl. the directory/fsync protocol, region reuse and Robin-Hood re-writes of records of earlier lives); nested harness experiments exercise the same up to 3 restarts deep on the real code",
              "goroutine scheduling below lock/I-O granularity (quiescence via runtime.Stack after every step)",
              "the instrumented LTS (CrashLts.v) itself is tied to the code only through its parts: Persist/PBL.v is replayed on the PBL-level event history of every life (transparent recording wrapper), crash_medium/restart/resolve are evaluated on the implementation's I/O log, and two proved lemmas are checked on that log; the allocator/upload/directory steps of the LTS are hand-modelled"],
)
