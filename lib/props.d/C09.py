CONFIG = dict(
    coqfiles=["Props/C09.v"],
    n_quick=24000, n_thorough=1000000, workers_quick=8,
    rule="tbd",
    modelled=[],
)
