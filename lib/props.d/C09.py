CONFIG = dict(
    coqfiles=["Props/C09.v", "Props/C09S.v"],
    sub=["C09S"],
    n_quick=16000, n_thorough=1000000, workers_quick=8,
    rule="92% structured: digest of one of the 8 digest functions over content of 0-33 bytes; the script is that content (valid) or one of: truncated, "
         "trailing data, one byte changed, digest states another size, digest hash changed, empty; cut into chunks (whole / single bytes / 1-3 / random, "
         "empty chunks sprinkled in), optional I/O error at any position incl. after the last chunk, explicit/early EOF, events after EOF, "
         "EOF/error attached to the last data of a Read or on its own call; x constructor (byte slice, reader, chunk reader) x Source (user, backend) "
         "x method (ToByteSlice, IntoWriter, ReadAt, ToChunkReader, ToReader, CloneCopy, Discard) with offsets -1,0,1,size/2,size-1,size,size+1, "
         "chunk sizes 1..65536, read buffer sizes 1..4096, 0-2 further reads after the end; 8% hostile: scripts unrelated to the digest. "
         "non-trivial = script of >= 2 events or content length != digest size or an I/O error; distinct = distinct input",
    modelled=["the digest's hash function is a parameter H of the model; per case it is the table of hashes that Go computed (crypto/*, blake3, sha256tree called directly by the harness) for the contents occurring in the case; any other content is taken to hash to something else (no collisions)",
              "io.ReadFull, io.Copy (32 KiB buffer), io.CopyN(io.Discard) (8 KiB reads through io.LimitedReader) and bytes.Buffer.Read are modelled by hand in Buffer/Source.v, Convert.v",
              "loops that end only when the source says so take fuel; out-of-fuel is an explicit error that is never a completion",
              "ToProto beyond ToByteSlice (protobuf unmarshalling) and WithTask (C15) are not modelled; CloneStream is covered by the sub-check C09S (harness/c09s.go, Run/R09S.v): a clone is held to the model of the buffer itself, with the sibling discarded before or after the consuming clone registered; its cases are folded into this check",
              "error messages are not compared, only gRPC codes; io.EOF and io.ErrUnexpectedEOF are distinguished"],
)
