CONFIG = dict(
    coqfiles=["Props/C06.v"],
    n_quick=1200, n_thorough=60000, workers_quick=8,
    rule="(a) 92%: histories of 40 (5-40; thorough up to 120) operations Put/Get/PopFront/PushBack on the real HashingKeyLocationMap over the in-memory or the block-device backed record array "
         "(byte-slice device), tables of 1-7 records (12%: 101 records with keys searched so that their probe sequences meet), maxGet 1-4, maxPut 1-6, 2-6 keys, "
         "hash initialisation random or one of 0,1,FNV offset basis,2^63,2^64-1; puts in allocation order, at arbitrary live locations, at earlier locations again "
         "(equal locations under different keys, same location with another size), edge offsets/sizes; 15% hostile: 0 records (panic), maxGet 0, maxPut 0, one record with 6 keys, "
         "the same key twice in the key list, larger limits; (b) 8%: record codec cases (edge field values, other seed, one flipped byte at every position); "
         "non-trivial = some Put needed more than one iteration (a collision) or the case is a codec case; distinct = distinct input; class = table size bucket / backend / which of "
         "TooManyAttempts, TooManyIterations, Updated, IgnoredOlder, get-too-many-attempts occurred",
    modelled=["the BlockReferenceResolver is the harness's (one epoch per block, absolute numbering): validity of a record = released <= block < pushed",
              "both record arrays are modelled by one abstract array; the 66-byte layout is modelled separately (Index/RecordCodec.v) and compared byte for byte",
              "device I/O errors are not injected (the device never fails)",
              "offsets and sizes are taken from [0, 2^63) (Go int64, non-negative)",
              "Prometheus: sample count and sum of put_iterations per outcome, put_too_many_iterations_total, get_too_many_attempts_total; the get_attempts histogram is not compared"],
)
