CONFIG = dict(
    coqfiles=["Props/C19.v"],
    n_quick=6000, n_thorough=300000, workers_quick=8,
    rule="TBD",
    modelled=[],
)
