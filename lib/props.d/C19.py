CONFIG = dict(
    coqfiles=["Props/C19.v", "Props/C19W.v"],
    sub=["C19W"],
    n_quick=4000, n_thorough=300000, workers_quick=8,
    rule="four kinds of cases over names built from components a/ab/abc/b/ba/c (string prefixes that are not component prefixes, the empty name, "
         "extensions, parents and lookalikes of the registered names): "
         "(30%) trie histories of 6-35 Set/Remove/GetExact/GetLongestPrefix/ContainsPrefix/ContainsExact on the real InstanceNameTrie "
         "(Remove only of names whose node exists; 4% of histories also Set negative values); "
         "(10%) NewInstanceNamePatcher(old,new) on old+rest (8% on names outside the contract); "
         "(32%) NewDemultiplexingBlobAccess wired as new_blob_access.go does, 1-5 prefixes (40% contain the empty prefix, 5% a duplicate), recording backends holding about half "
         "of the rewritten digests plus decoys under the caller's names, 10% faulty backends, 2-7 Get/GetFromComposite/Put/FindMissing(1-8 digests over several names); "
         "(28%) NewHierarchicalInstanceNamesBlobAccess over a recording backend with objects placed under random ancestors, injected Get errors on one name and FindMissing faults at call k, 2-6 operations. "
         "non-trivial = trie: >=2 names set, >=1 Remove, >=1 longest-prefix lookup; patcher: old != new; demux: a FindMissing reaching >=2 backends or an operation whose name was rewritten; "
         "hier: an operation needing >=2 backend calls; distinct = distinct input",
    modelled=["backends are oracles fixed for the duration of one operation (contents tables, injected status codes); a backend answering FindMissing inconsistently between the levels of one hierarchical FindMissing is outside the theorem",
              "digests are (instance name string, blob identity); packing/unpacking of digest strings and digest.Set ordering are C20's; sets are compared up to order by the judge",
              "Go map iteration order in the demultiplexer's FindMissing: with a failing backend any subset of the fault-free calls containing exactly one failing backend is accepted",
              "Remove of a name whose node does not exist (nil dereference in Go) is Panic in the model and excluded by hypothesis; the harness never issues it",
              "Remove's cut-edge bookkeeping is rendered as a recursion that decides on the way back which edge is cut (same edge as the Go loop's mapDelete/componentDelete); tied by the correspondence runs",
              "GetDigestsWithParentInstanceNames is modelled on component lists (join of every prefix); its string loop is C20's parents_spec",
              "error messages are not compared, only gRPC codes"],
)
