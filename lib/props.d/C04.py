CONFIG = dict(
    coqfiles=["Props/C04.v", "Props/C04B.v", "Props/C04P.v", "Props/C04A.v", "Props/C07D.v", "Props/C04W.v"],
    n_quick=1500, n_thorough=60000, workers_quick=8,
    sub=["C04P", "C04A", "C04B", "C04D"],
    rule="random store geometries (block size 16-64, sector 1/4/16, old 0-3, current 0-3, new 1-3, immutable and mutable growth, in-memory or block-device allocator with 1-3 spare blocks, "
         "flat keys with/without instance or hierarchical, validating CAS or raw read factory) x schedules of 15-45 (thorough: 20-100) atomic steps: uploads fed chunk by chunk through a gated source "
         "(wrong/short/long content, source failures), readers held open, existence checks, composite reads with a gated slicer; non-trivial = a successful read plus at least one of: "
         "two operations in flight, a composite read, an eviction observed; distinct = distinct input",
    modelled=["the key-location index is abstracted to 'newest valid stored location per key' (C06 proves the refinement absent reported discards; the harness uses a 9973-entry table)",
              "sector-level device writes of the block-device allocator are not modelled here (block contents are byte arrays written per upload chunk)",
              "the persistent block list (deferred Release() until a state file omitting the block has been written) is not part of Store/Model.v; it is modelled (Persist/PBL.v, Syncer.v), proved (Props/C04P.v) "
              "and tied to the real PersistentBlockList + PeriodicSyncer by the sub-check C04P (harness/c04p.go, Run/R04P.v) whose cases are folded into this check",
              "NewBlockAtLocation (blocks restored from persistent state) is never called by the store harness; the accounting of the real block-device allocator under NewBlock / NewBlockAtLocation / "
              "Release / readers / writers is modelled (Alloc/BDA.v), proved (Props/C04A.v) and tied to the real allocator by the sub-check C04A (harness/c04a.go, Run/R04A.v)",
              "SHA-256 as identity of content (an upload is valid iff its bytes equal the object's canonical content)",
              "schedules at the granularity of lock-protected sections / upload chunks / slicer hand-off; Go sync primitives trusted"],
)
