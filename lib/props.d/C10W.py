CONFIG = dict(
    coqfiles=["Props/C01W.v"],
    n_quick=400, n_thorough=10000, workers_quick=8,
    rule="a hierarchical CAS built by the real NewBlobAccessFromConfiguration behind an existence_caching decorator (the cache is keyed by the DigestKeyFormat the constructor reports for the store), "
         "in-memory blocks far from capacity; 3-5 uploads under random instance names, then 6-13 existence checks / reads of the objects under every name, the uploader's first; "
         "non-trivial = at least one successful read; distinct = distinct input",
    modelled=["the existence cache has no counterpart in the store model: with the right key format and no eviction in the store it is transparent (C17: existence_cache_sound); the cases keep the store far from capacity",
              "see C01W"],
)
