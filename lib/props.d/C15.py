CONFIG = dict(
    coqfiles=[],
    n_quick=8000, n_thorough=200000,
    rule="tbd",
    modelled=[],
)
