CONFIG = dict(
    coqfiles=["Props/C15.v", "Props/C15P.v"],
    sub=["C15P"],
    n_quick=12000, n_thorough=400000,
    rule="4 of 5 cases: a decorator program (0-3 ops quick, 0-4 thorough, from CloneStream/CloneCopy (kept half L or R, sibling consumed by a "
         "random method in its own goroutine) / WithTask (nil or failing) / WithErrorHandler) over one of 6 buffer kinds (CAS byte slice, proto, "
         "error, ReaderAt, CAS reader, CAS chunk reader; stream sources valid, checksum-corrupt or failing) followed by one of the 8 consumption "
         "methods with boundary arguments; 1 of 5 cases: 2-4 (thorough up to 6) consumers of one stream-cloned buffer, each Read^k;Close or "
         "Discard, driven through a generated schedule (uniform / one held back / priority change points / round robin) and then drained. "
         "non-trivial = at least one decorator (programs) or any schedule case; distinct = distinct input",
    modelled=["contents are one byte string per case; ToProto uses a BytesValue message (wire form 0x0a len payload) and protobuf decoding is not modelled",
              "observations are results of complete consumptions: bytes, gRPC code or PANIC (no partial data on errors, no chunk boundaries)",
              "error handlers only translate errors (no replacement buffers; that is C16)",
              "M1 atomic steps are the mutex-protected sections and channel hand-offs; Go mutex/channel semantics are trusted; the harness "
              "schedules at call granularity and detects a parked consumer by spinning, so the realised interleaving may deviate from the requested one",
              "a ReaderAt-backed buffer whose synchronous WithTask fails is not released by the code (modelled as observed, outside this property)"],
)
