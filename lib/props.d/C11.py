CONFIG = dict(
    coqfiles=["Props/C11.v"],
    n_quick=6000, n_thorough=400000, workers_quick=4,
    rule="real NewMirroredBlobAccess + NewLocalBlobReplicator (both directions) over two fault-injecting replicas: (a) in-memory maps written in the harness, (b) in ~25% of the cases (those using only hash-correct contents, 35% of them) REAL local flat CAS stores (in-memory block allocator, volatile block list, hashing key-location map) behind the fault-injecting/logging wrapper, contents read back from the stores; "
         "systematic family first (Get: 4 placements x both parities x {no fault, NOT_FOUND/UNAVAILABLE injected at each of the calls}; Put: 4 placements x {none, A, B, both fail}; "
         "FindMissing over 2 objects: 16 placements x a fault at each FindMissing/Get/Put call; GetCapabilities x parity), each with a random replica-buffer flavour "
         "(validated byte slice / reader-backed CAS / CAS byte slice) and consumption method (ToByteSlice/ToChunkReader/IntoWriter; ToReader is supported for replay only, see manifest note); "
         "then random histories of 1-6 (thorough 1-12) operations over 1-4 (1-6) objects, 55% of operations with 1-2 faults on calls the operation makes, 30% with differing content versions per replica; "
         "25% hostile (faults on arbitrary keys incl. NOT_FOUND on uploads, code 0/negative, duplicate digests, shadowed fault entries); "
         "non-trivial = some operation failed or changed a replica; distinct = distinct input",
    modelled=["replicas are abstract maps digest id -> content id answering under a per-call fault oracle keyed by (replica, call kind, digest); a failing replica fails before consuming the upload buffer",
              "errgroup: which of two failing branches (Put, FindMissing, synchronisation) is reported is unspecified (agreement = membership); the call log of those operations is compared as a multiset",
              "error messages are reduced to: gRPC code, which replica-naming prefix the mirrored layer put in front, and which replica's answer is carried",
              "only the local replicator strategy is modelled; GetFromComposite is not exercised",
              "real local stores are configured with blocks far larger than a case writes, so no read needs a refresh: buffers with background refresh tasks (finding F1, property C15) do not flow through the mirrored layer here",
              "digest.Set ordering/merge is modelled on sorted lists of ids (ids are assigned in Digest.String() order); the set algebra itself is C20"],
)
