CONFIG = dict(
    coqfiles=["Props/C17.v"],
    n_quick=6000, n_thorough=200000,
    rule="TBD",
    modelled=[],
)
