CONFIG = dict(
    coqfiles=["Props/C14F.v"],
    n_quick=1000, n_thorough=30000, workers_quick=8,
    rule="sub-check of C14: client<->server histories over bufconn (grpcclients.NewCASBlobAccess in front of the real ByteStream / CAS servers, identity compression, chunk 1/16/64) "
         "whose digests carry an instance name (\"\", a, a/b, x-y) and a digest function (MD5, SHA1, SHA256); the backend is instance name aware. 0-3 Puts under random "
         "instance names, then 1-3 of Put / Get / FindMissing (75% FindMissing). A FindMissing set is built from 1-3 groups; 80% of the groups name THE SAME BLOB under "
         "most of the 1-4 instance names in play (15% of those entries under another digest function, 8% with size+1), 20% a single digest; every entry carries an "
         "absent flag (35%) that makes the backend report it missing although stored; 12% of the calls inject a backend FindMissing failure for 1-2 partitions "
         "(70% a requested one). The observation includes the sets the backend was asked (one per partition). Classes: shared-differ (a hash requested in >= 2 digests of one call, "
         "answer differs among them) / shared-same / disjoint / single / nofm x outcome; non-trivial = shared; distinct = distinct input",
    modelled=["the backend: harness-owned map keyed by the full digest (instance name, digest function, hash, size); FindMissing reports a digest missing iff not stored under exactly that key or flagged absent for the call; a failing partition fails every backend call that contains one of its digests",
              "Go map iteration order of the client's partitions: the model is a function of the order; the judge accepts the status of any failing partition and the backend calls as a set",
              "hash functions: 'index of the byte string among the case's blobs' for all three digest functions (no collisions among a case's strings assumed)",
              "Put/Get: C14's client_put/client_get models (identity path) over the instance name aware store; resource-name formatting/parsing with instance names is C20's"],
)
