CONFIG = dict(
    coqfiles=["Props/C07.v", "Props/C07D.v"],
    sub=["C07D"],
    n_quick=2400, n_thorough=120000, workers_quick=8,
    rule="schedules of 8-42 (thorough -78) operations over {Put, finalizer, PopFront, PushBack(ok/fail), DataSyncer completion ok/fail, state-write completion ok/fail, "
         "clock advance, timer expiry per loop, context cancellation, block-reference queries} on a restored list of 0-3 blocks (epoch ids incl. 2^32-2, one block unattachable in 8%), "
         "intervals 0/4/10, 25% fault-free; non-trivial = at least one state write completed and at least one acknowledged upload or block release; distinct = distinct input",
    modelled=["goroutine scheduling below lock/I-O granularity: the harness observes the loops only when both are blocked again (quiescence via runtime.Stack)",
              "which loop wins a free storeLock when both want it is unspecified (sync.Mutex); the judge takes the winner from the observation",
              "hash seeds are canonicalised by order of creation (the real ones come from random.CryptoThreadSafeGenerator)",
              "the minimum interval is measured between scheduled times (timer expiry stored in lastSynchronizationTime); real time and lock latency are not modelled",
              "Block/BlockAllocator are fakes: allocation success and a block's own finalizer result are case inputs"],
)
