CONFIG = dict(
    coqfiles=["Props/C14P.v"],
    n_quick=600, n_thorough=15000, workers_quick=8,
    rule="sub-check of C14: uploads through grpcclients.NewCASBlobAccess in front of the real ByteStream / CAS / Capabilities servers over bufconn that fail only with the FINAL status of the Write RPC. "
         "Modes: identity (25%), zstd with the bounded pool (37%), zstd with the library-default pool (25%), client with a pool against a server not advertising ZSTD (13%); chunk 1/3/16/64/1024; 1-3 distinct blobs "
         "(sizes 0, 1, chunk-1, chunk, chunk+1, 2chunk, ..., 300; 10% of the cases also 2500 / 6000; a lone blob mostly gets a twin of equal length differing in one bit). The client is handed "
         "buffer.NewValidatedBufferFromByteSlice (no client-side digest check), so every byte reaches the server. 3-10 operations built from episodes: 45% a Put with the backend ARMED to fail its next Put "
         "(4/6 after consuming the whole upload, 1/6 before reading, 1/6 after a first chunk; codes 8, 14, 13, 7, 5, 3, 2, 10, 9), mostly followed by a Get / FindMissing of that digest, an unfaulted Put of the same blob and another look; "
         "25% a Put whose data does not match the digest (another blob's bytes, size +1 / -1; 20% of them also armed), followed by a look and sometimes the matching Put; 15% plain Puts; 15% Get / FindMissing. "
         "Observation per operation: the client's code, payload, the code the backend's Put returned; and the final backend contents. Classes: site cs-put-identity / cs-put-zstd x kinds of failing upload in the case (end / early / bad) x ok|fail; "
         "non-trivial = a failed Put is followed by a Get or FindMissing; distinct = distinct input",
    modelled=["the backend: harness-owned map; an armed Put fails after ToByteSlice (fm 1), after Discard (fm 2) or after one ChunkReader.Read + Close (fm 3); an unarmed Put stores iff ToByteSlice succeeds (the buffer's own validation error is returned otherwise)",
              "hash function: 'index of the byte string among the case's blobs' (the harness uses MD5; the case's blobs are distinct); zstd: the stand-in codec of Run/R14.v with decompress (compress x) = x (theorems: any codec with that law)",
              "where the RPC can end before the client has sent finish_write (backend failure before / while reading; an upload longer than the digest's size) the client may report its Send's io.EOF (UNKNOWN) instead of the RPC's status: the judge and clause 4 let UNKNOWN through there; clause 1 (no OK) stays strict",
              "gRPC transport (bufconn): in-order delivery, the final status is delivered by CloseAndRecv"],
)
