CONFIG = dict(
    coqfiles=["Props/C04B.v"],
    n_quick=4000, n_thorough=200000, workers_quick=8,
    rule="sub-check of C04: C09's cases (every CAS constructor x method x script, see C09) biased to reader- and chunk-reader-backed buffers (85%) and to early-return paths (35%: ToByteSlice/CloneCopy "
         "with a limit below the object's size, ToChunkReader/ReadAt with rejected offsets), executed by C09's harness on the real buffers; compared with C09's model; the monitor looks only at the "
         "number of Close() calls the source saw (exactly one, whatever the method and the outcome). non-trivial and classes as C09",
    modelled=["see C09; what is held to the model here is the close count of the scripted source (for local-store reads the source is the block reader whose Close() drops the block's use count: "
              "that composition is the store check's 'srcclosed'/'open readers' observation)"],
)
