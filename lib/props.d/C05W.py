CONFIG = dict(
    coqfiles=["Props/C01W.v"],
    n_quick=300, n_thorough=6000, workers_quick=8,
    rule="LocalBlobAccessConfiguration messages handed to the real NewBlobAccessFromConfiguration (CAS and AC creator, flat and hierarchical, in-memory blocks of 16-64 bytes "
         "or a file-backed block device with 1-3 spare blocks and one sector per block, key-location map in memory or on a file-backed block device; 8% messages the constructor must refuse) "
         "x 30-70 (device: 14-28) events: complete uploads, failing uploads, reads, existence checks, retention-boundary scenarios (touch, then exactly old+0/1/2 further block allocations); "
         "non-trivial = at least one successful read or a refused configuration; distinct = distinct input",
    modelled=["the configuration message is translated to a store configuration by Store/Wiring.v (hand-written model of the Local case of new_blob_access.go and of the CAS/AC creators); persistence, the data integrity validation cache and corruption events are not exercised by this sub-check",
              "the sector size of a file-backed device is what the operating system reports (probed by the harness); allocator counters are not observed"],
)
