CONFIG = dict(
    coqfiles=["Props/C20.v", "Props/C20X.v"],
    sub=["C20X"],
    n_quick=24000, n_thorough=1200000, workers_quick=8,
    rule="26% structured digests over the eight functions (valid, damaged hash, negative size, unknown/UNKNOWN function, all compressors, random uuid): construct, every getter, "
         "read/write path, proto and compact-binary round trips, ancestors; 20% read and 16% write resource names from a token grammar (45% valid, 40% one or two token mutations: "
         "drop/duplicate/swap/replace/truncate/size strings/damaged hash/inserted keyword/damaged byte, 15% arbitrary bytes; 12% with redundant slashes); 8% instance names "
         "(45% from the invalid classes); 10% compact binary (truncated, overflowing and non-canonical varints, negative sizes, unknown function byte); 20% families of 0-5 digest sets "
         "over a universe of 0-10 digests with shared hashes, duplicates, empty blobs, 1-5 instance names, enum values 1,2,3,9,10 (string order differs from numeric order). "
         "non-trivial = resource name with at least the minimum number of fields / non-empty input / at least two sets over at least two digests; distinct = distinct input",
    modelled=["the resource name formatters are modelled as joining the non-empty components with '/' (the repaired behaviour of finding F8); path.Join of the pinned code additionally cleans '.' and '..' components of instance names",
              "Go map iteration in SetBuilder.Build and container/heap in GetUnion are abstracted to their observable result (sorted duplicate-free list; least head first)",
              "strings.FieldsFunc and the rune loop of NewDigest are modelled byte-wise ('/' and hex digits are ASCII; any byte >= 0x80 is neither)",
              "strconv.ParseInt errors (syntax/range) are not distinguished: both become InvalidArgument at the only call site",
              "error messages are not compared, only gRPC codes (io.EOF=100, io.ErrUnexpectedEOF=101, varint overflow=102)",
              "panic-freedom of hex/strconv/uuid internals is covered by the generated cases only"],
)
