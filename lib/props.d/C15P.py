CONFIG = dict(
    coqfiles=["Props/C15P.v"],
    n_quick=160, n_thorough=6000, workers_quick=4,
    rule="sub-check of C15: 2-64 handles of one CloneStream()ed chunk-reader CAS buffer (valid content of 1-9600 bytes, source chunks of 1-64 bytes) consumed AT ONCE by real goroutines "
         "released by a barrier, no scheduler in between: ToByteSlice, IntoWriter, ToChunkReader to the end, ToChunkReader with k Reads then Close, Discard; per consumer the code, the number "
         "of bytes and the first position differing from the content; Close() calls seen by the source; recovered panics; a run whose consumers do not all return (goroutine quiescence "
         "via runtime.Stack, 30 s) is the observation (-2). The expected observation does not depend on the interleaving and is computed by Run/R15P.v. "
         "non-trivial = every case; distinct = distinct input; class = few (<16) / many consumers",
    modelled=["the Go scheduler picks the interleavings: this sub-check samples them (it supports C15's model-based cases, which enumerate schedules at the granularity of multiplexer operations); "
              "what is compared is interleaving-independent",
              "contents are a fixed byte pattern per length; the digest is SHA-256 computed by the harness"],
)
