"""Per-property configuration of the checks (sizes, rules, trusted base notes)."""

COMMON_TB = [
    "Coq 8.16.1 kernel (coqc, full .vo build; vm_compute used in Examples/finite sweeps; no native_compute)",
    "extraction: ExtrOcamlBasic only (bool/option/list/prod/unit/sumbool to OCaml types), no Extract Constant/Inductive of our own; OCaml 4.13.1",
    "ocaml/driver.ml (sx parser/printer, dispatch), harness/*.go (generators, simulated collaborators, canonicalisation), bin/check",
    "correspondence is differential testing of the extracted model against the implementation on the generated cases of this run",
]

PROPS = {
    "C18": dict(
        coqfiles=["Props/C18.v"],
        n_quick=4000, n_thorough=200000,
        rule="random authorizer trees (depth<=3 quick, <=4 thorough, 0-4 members per 'any', verdicts allow/deny/13/14/16 per name) x one operation; "
             "non-trivial = tree of the operation has depth>=1 (a real 'any' combinator) ; distinct = distinct input",
        trivial_prefixes=[],

        modelled=["leaf authorizers answer each instance name independently of the batch (oracle table)",
                  "Go map iteration order in FindMissing: any order of distinct names (agreement on the returned code is membership)",
                  "error messages are not compared, only gRPC codes"],
    ),
}
