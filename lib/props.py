"""Per-property configuration of the checks: one file per property in lib/props.d/Cxx.py,
each defining CONFIG = dict(...).  Keys: coqfiles, n_quick, n_thorough, workers_quick,
workers_thorough, rule, modelled."""
import glob, os, runpy

COMMON_TB = [
    "Coq 8.16.1 kernel (coqc, full .vo build; vm_compute used in Examples/finite sweeps; no native_compute)",
    "extraction: ExtrOcamlBasic only (bool/option/list/prod/unit/sumbool to OCaml types), no Extract Constant/Inductive of our own; OCaml 4.13.1",
    "ocaml/driver.ml (sx parser/printer, dispatch), harness/*.go (generators, simulated collaborators, canonicalisation), bin/check, tools/genconsts (constant translator)",
    "correspondence is differential testing of the extracted model against the implementation on the generated cases of this run",
]

PROPS = {}
for _f in sorted(glob.glob(os.path.join(os.path.dirname(os.path.abspath(__file__)), "props.d", "C*.py"))):
    PROPS[os.path.basename(_f)[:-3]] = runpy.run_path(_f)["CONFIG"]
