"""Per-property configuration of the checks (sizes, rules, trusted base notes)."""

COMMON_TB = [
    "Coq 8.16.1 kernel (coqc, full .vo build; vm_compute used in Examples/finite sweeps; no native_compute)",
    "extraction: ExtrOcamlBasic only (bool/option/list/prod/unit/sumbool to OCaml types), no Extract Constant/Inductive of our own; OCaml 4.13.1",
    "ocaml/driver.ml (sx parser/printer, dispatch), harness/*.go (generators, simulated collaborators, canonicalisation), bin/check",
    "correspondence is differential testing of the extracted model against the implementation on the generated cases of this run",
]

PROPS = {
    "C12": dict(
        coqfiles=["Props/C12.v"],
        n_quick=1600, n_thorough=100000, workers_quick=8,
        rule="(a) selector cases: pool of 3-10 shards (SHA-256 key hashes computed by Go, weights incl. 1, 2^31, 2^32-1), base map + 3 random permutations + every single removal + 2 additions, "
             "8 (quick) / 40 (thorough) hashes incl. 0,1,2^k,2^k-1,2^64-1; (b) blob-access cases: 1-6 shards, 2-11 digests (35% share leading hash bytes under other instance names), "
             "3-10 Get/Put/GetFromComposite/FindMissing with backend faults; non-trivial = at least 2 shards; distinct = distinct input",
        modelled=["SHA-256 of the shard key is computed by the harness (same formula as hashServer) and handed to the model",
                  "errgroup: which failing shard's error is returned first is unspecified (agreement on the named shard is membership)",
                  "digest.Set ordering is canonicalised by the harness (sorted digest identities); the set algebra itself is C20"],
    ),
    "C18": dict(
        coqfiles=["Props/C18.v"],
        n_quick=4000, n_thorough=200000,
        rule="random authorizer trees (depth<=3 quick, <=4 thorough, 0-4 members per 'any', verdicts allow/deny/13/14/16 per name) x one operation; "
             "non-trivial = tree of the operation has depth>=1 (a real 'any' combinator) ; distinct = distinct input",
        trivial_prefixes=[],

        modelled=["leaf authorizers answer each instance name independently of the batch (oracle table)",
                  "Go map iteration order in FindMissing: any order of distinct names (agreement on the returned code is membership)",
                  "error messages are not compared, only gRPC codes"],
    ),
}
