"""Shared machinery of bin/check (see DESIGN.md section 4)."""
import fcntl, glob, hashlib, json, os, re, shutil, subprocess, sys, time
from concurrent.futures import ThreadPoolExecutor

VERIF = os.path.normpath(os.path.join(os.path.dirname(os.path.abspath(__file__)), ".."))
REPO = os.environ.get("VERIF_REPO", "/repo")
OUT = os.path.join(VERIF, "out")
COQ = os.path.join(VERIF, "coq")
GO = "/usr/local/bin/go1.26.8"
if not os.path.exists(GO):
    GO = shutil.which("go1.26.8") or "go"

sys.path.insert(0, os.path.join(VERIF, "lib"))
from props import PROPS, COMMON_TB  # noqa: E402


def goenv():
    e = dict(os.environ)
    e.update(GOFLAGS="-mod=mod", GOPROXY="off", GOSUMDB="off", GOTOOLCHAIN="local", CGO_ENABLED="0")
    e.setdefault("HOME", "/root")
    return e


def sh(cmd, cwd=None, timeout=None, env=None):
    """Run a command, return (rc, combined output)."""
    try:
        p = subprocess.run(cmd, cwd=cwd, env=env, timeout=timeout, stdout=subprocess.PIPE,
                           stderr=subprocess.STDOUT, text=True, errors="replace")
        return p.returncode, p.stdout
    except subprocess.TimeoutExpired as ex:
        o = ex.stdout or ""
        if isinstance(o, bytes):
            o = o.decode(errors="replace")
        return 124, o + "\nTIMEOUT"


class Lock:
    def __enter__(self):
        os.makedirs(OUT, exist_ok=True)
        self.f = open(os.path.join(OUT, ".lock"), "w")
        fcntl.flock(self.f, fcntl.LOCK_EX)
        return self

    def __exit__(self, *a):
        fcntl.flock(self.f, fcntl.LOCK_UN)
        self.f.close()


# --------------------------------------------------------------------------
# Build: constants, Coq, extraction, driver, harness
# --------------------------------------------------------------------------

def coq_files():
    fs = []
    for line in open(os.path.join(COQ, "_CoqProject")):
        line = line.strip()
        if line.endswith(".v"):
            fs.append(line)
    return fs


def dep_cone(vfile):
    """Transitive BBS dependencies of a .v file (paths relative to coq/)."""
    seen, todo = set(), [vfile]
    while todo:
        f = todo.pop()
        if f in seen:
            continue
        seen.add(f)
        try:
            src = open(os.path.join(COQ, f)).read()
        except OSError:
            continue
        # a Require sentence ends at the first '.' that is followed by white space
        for m in re.finditer(r"From\s+BBS\s+Require\s+(?:Import\s+|Export\s+)?(.*?)\.(?=\s|$)", strip_comments(src), re.S):
            for mod in m.group(1).split():
                todo.append(mod.replace(".", "/") + ".v")
    return sorted(seen)


HYGIENE_RE = re.compile(
    r"\b(Admitted|admit|Axiom|Axioms|Parameter|Parameters|Conjecture|Conjectures|Abort All|"
    r"Unset\s+Guard\s+Checking|Unset\s+Positivity\s+Checking|Unset\s+Universe\s+Checking|bypass_check|"
    r"Admit\s+Obligations|give_up|type-in-type|impredicative-set)\b")


def strip_comments(src):
    out, depth, i = [], 0, 0
    while i < len(src):
        if src.startswith("(*", i):
            depth += 1
            i += 2
        elif src.startswith("*)", i) and depth > 0:
            depth -= 1
            i += 2
        else:
            if depth == 0:
                out.append(src[i])
            i += 1
    return "".join(out)


def hygiene():
    bad = []
    for f in coq_files() + ["Extract.v"]:
        p = os.path.join(COQ, f)
        if not os.path.exists(p):
            continue
        src = strip_comments(open(p).read())
        for n, line in enumerate(src.split("\n"), 1):
            if HYGIENE_RE.search(line):
                bad.append("%s:%d:%s" % (f, n, line.strip()))
            if re.search(r"^\s*(Variable|Variables|Hypothesis|Hypotheses|Context)\b", line):
                # allowed only inside a Section; checked coarsely: a Section must be open
                before = "\n".join(src.split("\n")[:n])
                if len(re.findall(r"^\s*Section\s", before, re.M)) <= len(re.findall(r"^\s*End\s", before, re.M)):
                    bad.append("%s:%d:outside-section:%s" % (f, n, line.strip()))
    return bad


def write_if_changed(path, text):
    try:
        if open(path).read() == text:
            return
    except OSError:
        pass
    os.makedirs(os.path.dirname(path), exist_ok=True)
    open(path, "w").write(text)


def gen_from_parts():
    """coq/parts/*.part -> coq/_CoqProject, coq/Extract.v, ocaml/judges.ml (all generated)."""
    vfiles, judges = [], []
    for f in sorted(glob.glob(os.path.join(COQ, "parts", "*.part"))):
        for line in open(f):
            w = line.split()
            if not w or w[0].startswith("#"):
                continue
            if w[0] == "v":
                vfiles.append(w[1])
            elif w[0] == "judge":
                judges.append((w[1], w[2], w[3]))
    cp = "-Q . BBS\n-arg -w -arg -notation-overridden,-deprecated-hint-without-locality,-ambiguous-paths\n" + "\n".join(vfiles) + "\n"
    write_if_changed(os.path.join(COQ, "_CoqProject"), cp)
    mods = sorted(set(j[1] for j in judges))
    ex = ("(** GENERATED from coq/parts/*.part.  Extraction of the executable models and monitors.\n"
          "    ExtrOcamlBasic only: bool, option, list, prod, unit, sumbool map to OCaml's; N, Z, positive and\n"
          "    nat stay Coq inductives.  No Extract Constant / Extract Inductive of our own. *)\n"
          "From Coq Require Import extraction.Extraction extraction.ExtrOcamlBasic ZArith.\n"
          "From BBS Require Import Common.Sx %s.\n"
          "Extraction \"bbs.ml\" Z.add Z.mul Z.opp sx_eqb %s.\n") % (" ".join(mods), " ".join(j[2] for j in judges))
    write_if_changed(os.path.join(COQ, "Extract.v"), ex)
    jm = "(* GENERATED from coq/parts/*.part *)\nopen Bbs\nlet judge_of (prop : string) : sx -> sx -> sx =\n  match prop with\n"
    for pr, _, fn in judges:
        jm += "  | \"%s\" -> %s\n" % (pr, fn)
    jm += "  | _ -> failwith (\"unknown property \" ^ prop)\n"
    write_if_changed(os.path.join(VERIF, "ocaml", "judges.ml"), jm)


def build_coq(log):
    """Regenerate constants, run make -k.  Returns (ok, failed_files, output)."""
    gen_from_parts()
    gen = os.path.join(VERIF, "tools", "genconsts", "genconsts.py")
    if os.path.exists(gen):
        rc, o = sh([sys.executable, gen, REPO, os.path.join(COQ, "Generated", "Consts.v")], timeout=120)
        log.append(o)
        if rc != 0:
            return False, ["Generated/Consts.v (translator failed: %s)" % o.strip()[-300:]], o
    mk = os.path.join(COQ, "Makefile")
    cp = os.path.join(COQ, "_CoqProject")
    if not os.path.exists(mk) or os.path.getmtime(mk) < os.path.getmtime(cp):
        sh(["coq_makefile", "-f", "_CoqProject", "-o", "Makefile"], cwd=COQ, timeout=60)
    rc, o = sh(["make", "-k", "-j16"], cwd=COQ, timeout=2400)
    log.append(o[-4000:])
    failed = re.findall(r"\*\*\* \[[^\]]*?:\s*([A-Za-z0-9_/]+)\.vo\]", o)
    failed = sorted(set(f + ".v" for f in failed))
    return rc == 0, failed, o


def theorem_assumptions(vfile):
    """Re-run coqc on a Props file and pair each Theorem with its Print Assumptions output."""
    os.makedirs(os.path.join(OUT, "tmp"), exist_ok=True)
    base = os.path.basename(vfile)[:-2]
    rc, o = sh(["coqc", "-Q", ".", "BBS", "-w", "-notation-overridden,-deprecated-hint-without-locality",
                "-o", os.path.join(OUT, "tmp", base + ".vo"), vfile], cwd=COQ, timeout=900)
    src = strip_comments(open(os.path.join(COQ, vfile)).read())
    names = re.findall(r"Print\s+Assumptions\s+([A-Za-z0-9_']+)\s*\.", src)
    blocks, cur = [], None
    for line in o.split("\n"):
        if line.startswith("Closed under the global context"):
            if cur is not None:
                blocks.append(cur)
                cur = None
            blocks.append([])
        elif line.startswith("Axioms:") or line.startswith("Section Variables:"):
            if cur is not None:
                blocks.append(cur)
            cur = []
        elif cur is not None and line.strip():
            cur.append(line.rstrip())
    if cur is not None:
        blocks.append(cur)
    res = {}
    for i, n in enumerate(names):
        res[n] = blocks[i] if i < len(blocks) else ["<no output>"]
    return rc == 0, res, o


def run_coqchk(cfg, cone):
    """Thorough tier: independent re-check of the compiled theorems (and everything they depend on)
    with coqchk; cached per source-tree hash.  Returns (ok, summary_text)."""
    mods = ["BBS." + f[:-2].replace("/", ".") for f in cfg["coqfiles"] if f.startswith("Props/")]
    if not mods:
        return True, "no Props module"
    hv = tree_hash([os.path.join(COQ, f) for f in cone])
    cache = os.path.join(OUT, "coqchk-%s.txt" % hv[:16])
    if os.path.exists(cache):
        txt = open(cache).read()
    else:
        rc, o = sh(["coqchk", "-silent", "-o", "-Q", ".", "BBS"] + mods, cwd=COQ, timeout=3000)
        txt = "exit %d\n" % rc + o[-3000:]
        open(cache, "w").write(txt)
    ok = txt.startswith("exit 0")
    m = re.search(r"\* Axioms:(.*?)\n\s*\n\* Constants", txt, re.S)
    axioms = " ".join(m.group(1).split()) if m else "?"
    return ok, "coqchk %s; axioms of all loaded libraries: %s" % ("ok" if ok else "FAILED", axioms)


def count_qed(files):
    n = 0
    for f in files:
        try:
            src = strip_comments(open(os.path.join(COQ, f)).read())
        except OSError:
            continue
        n += len(re.findall(r"\b(Qed|Defined)\s*\.", src))
    return n


def tree_hash(paths):
    h = hashlib.sha256()
    for p in sorted(paths):
        h.update(p.encode())
        try:
            h.update(open(p, "rb").read())
        except OSError:
            h.update(b"<missing>")
    return h.hexdigest()


def build_driver(log):
    cone = [os.path.join(COQ, f) for f in dep_cone("Extract.v")]
    cone.append(os.path.join(VERIF, "ocaml", "driver.ml"))
    cone.append(os.path.join(VERIF, "ocaml", "judges.ml"))
    stamp = os.path.join(OUT, "driver.stamp")
    hv = tree_hash(cone)
    drv = os.path.join(VERIF, "ocaml", "driver")
    if os.path.exists(drv) and os.path.exists(stamp) and open(stamp).read() == hv:
        return True, ""
    gen = os.path.join(VERIF, "ocaml", "gen")
    os.makedirs(gen, exist_ok=True)
    rc, o = sh(["coqc", "-Q", "../../coq", "BBS", "-w", "-extraction-opaque-accessed,-extraction-reserved-identifier,-notation-overridden",
                "../../coq/Extract.v"], cwd=gen, timeout=900)
    log.append(o[-2000:])
    if rc != 0:
        return False, "extraction failed:\n" + o[-2000:]
    rc, o = sh(["ocamlfind", "ocamlopt", "-O3", "-w", "-a", "-I", "gen", "gen/bbs.mli", "gen/bbs.ml", "judges.ml", "driver.ml", "-o", "driver"],
               cwd=os.path.join(VERIF, "ocaml"), timeout=900)
    log.append(o[-2000:])
    if rc != 0:
        return False, "driver build failed:\n" + o[-2000:]
    open(stamp, "w").write(hv)
    return True, ""


def build_harness(log):
    hdir = os.path.join(VERIF, "harness")
    gm = open(os.path.join(REPO, "go.mod")).read()
    gm = re.sub(r"^module .*$", "module verif/harness", gm, count=1, flags=re.M)
    gm += "\nrequire github.com/buildbarn/bb-storage v0.0.0\n\nreplace github.com/buildbarn/bb-storage => %s\n" % REPO
    cur = None
    try:
        cur = open(os.path.join(hdir, "go.mod")).read()
    except OSError:
        pass
    if cur != gm:
        open(os.path.join(hdir, "go.mod"), "w").write(gm)
    shutil.copyfile(os.path.join(REPO, "go.sum"), os.path.join(hdir, "go.sum"))
    rc, o = sh([GO, "build", "-tags", "verif", "-o", os.path.join(OUT, "harness"), "."], cwd=hdir, env=goenv(), timeout=1800)
    log.append(o[-3000:])
    return rc == 0, o


# --------------------------------------------------------------------------
# Running cases
# --------------------------------------------------------------------------

def run_harness(prop, outfile, seed=None, n=None, tier="quick", replay=None, stats=None, timeout=3600):
    cmd = [os.path.join(OUT, "harness"), "-prop", prop, "-out", outfile, "-tier", tier]
    if replay:
        cmd += ["-replay", replay]
    else:
        cmd += ["-seed", str(seed), "-n", str(n)]
    if stats:
        cmd += ["-stats", stats]
    return sh(cmd, cwd=VERIF, timeout=timeout, env=goenv())


def run_driver(prop, casefile, timeout=3600):
    rc, o = sh([os.path.join(VERIF, "ocaml", "driver"), prop, casefile], cwd=VERIF, timeout=timeout)
    return rc, o


def judge_file(prop, casefile):
    """Returns list of dict(idx, input, obs, cls, agree, violates, model, detail) for the non-comment lines."""
    rc, o = run_driver(prop, casefile)
    lines = [l.rstrip("\n") for l in open(casefile, errors="replace") if l.strip() and not l.startswith("#")]
    res = []
    verdicts = {}
    summary = None
    for l in o.split("\n"):
        if l.startswith("SUMMARY"):
            summary = l
            continue
        m = re.match(r"(\d+) (AGREE|DIFF|BADLINE|BADVERDICT|BADPARSE)( VIOLATES)?(?: model=(.*) detail=(.*))?", l)
        if m:
            verdicts[int(m.group(1))] = m
    for i, l in enumerate(lines, 1):
        parts = l.split("\t")
        m = verdicts.get(i)
        d = dict(idx=i, input=parts[0], obs=parts[1] if len(parts) > 1 else "", cls=parts[2] if len(parts) > 2 else "")
        if m is None:
            d.update(agree=False, violates=False, model="<driver produced no verdict>", detail="", bad=True)
        else:
            d.update(agree=m.group(2) == "AGREE", violates=bool(m.group(3)), model=m.group(4) or "", detail=m.group(5) or "",
                     bad=m.group(2).startswith("BAD"))
        res.append(d)
    return rc, summary, res


# --------------------------------------------------------------------------
# sx parsing (for the generic shrinker)
# --------------------------------------------------------------------------

def parse_sx(s):
    pos = 0

    def go():
        nonlocal pos
        while pos < len(s) and s[pos] == " ":
            pos += 1
        if s[pos] == "(":
            pos += 1
            items = []
            while True:
                while pos < len(s) and s[pos] == " ":
                    pos += 1
                if s[pos] == ")":
                    pos += 1
                    return items
                items.append(go())
        st = pos
        pos += 1
        while pos < len(s) and s[pos] not in " ()":
            pos += 1
        return s[st:pos]
    return go()


def show_sx(t):
    if isinstance(t, list):
        return "(" + " ".join(show_sx(x) for x in t) + ")"
    return t


def shrink_candidates(t):
    """All trees obtained by deleting one element of one list, or zeroing/halving one atom."""
    out = []

    def rec(node, rebuild):
        if isinstance(node, list):
            for i in range(len(node)):
                out.append(rebuild(node[:i] + node[i + 1:]))
            # drop trailing half
            if len(node) >= 4:
                out.append(rebuild(node[:len(node) // 2]))
                out.append(rebuild(node[len(node) // 2:]))
            for i, c in enumerate(node):
                rec(c, lambda new, i=i, node=node: rebuild(node[:i] + [new] + node[i + 1:]))
        else:
            if node not in ("0",) and not node.startswith("x"):
                try:
                    v = int(node)
                    if abs(v) > 1:
                        out.append(rebuild(str(v // 2)))
                    out.append(rebuild("0"))
                except ValueError:
                    pass
    rec(t, lambda new: new)
    return out


def shrink(prop, case, budget_s=45, tier="quick"):
    """Delta-debug the input: keep a candidate if the implementation still violates with the same clauses."""
    start = time.time()
    cur = parse_sx(case["input"])
    want = case["detail"]
    best = dict(case)
    rounds = 0
    wdir = os.path.join(OUT, prop, "shrink")
    os.makedirs(wdir, exist_ok=True)
    while time.time() - start < budget_s and rounds < 200:
        rounds += 1
        cands = shrink_candidates(cur)
        cands = sorted(set(show_sx(c) for c in cands), key=len)[:400]
        if not cands:
            break
        inp = os.path.join(wdir, "cands.txt")
        open(inp, "w").write("\n".join(cands) + "\n")
        outp = os.path.join(wdir, "cands.out")
        rc, o = run_harness(prop, outp, replay=inp, tier=tier, timeout=max(10, budget_s))
        if rc != 0:
            break
        _, _, res = judge_file(prop, outp)
        hit = None
        for r in res:
            if r["violates"] and r["detail"] == want and len(r["input"]) < len(show_sx(cur)):
                hit = r
                break
        if hit is None:
            break
        cur = parse_sx(hit["input"])
        best = hit
    return best


# --------------------------------------------------------------------------
# Known findings
# --------------------------------------------------------------------------

def load_known():
    known, fixed = [], []
    p = os.path.join(VERIF, "KNOWN_FINDINGS")
    if os.path.exists(p):
        for line in open(p):
            line = line.strip()
            if line.startswith("known:"):
                m = re.match(r"known:\s+property=(\S+)\s+id=(\S+)\s+signature=(\S+)\s+(.*)", line)
                if m:
                    known.append(dict(prop=m.group(1), id=m.group(2), sig=m.group(3), what=m.group(4)))
            elif line.startswith("fixed:"):
                fixed.append(line)
    return known, fixed


def signature(prop, case):
    cls = case.get("cls", "")
    site = cls.split("/")[0] if cls else "-"
    det = re.sub(r"\s+", ",", case.get("detail", "").strip("()"))
    return "%s:clauses=%s:site=%s" % (prop, det, site)


# --------------------------------------------------------------------------
# Main
# --------------------------------------------------------------------------

def write_replay(prop, case, note):
    os.makedirs(os.path.join(VERIF, "replays"), exist_ok=True)
    h = hashlib.sha256(case["input"].encode()).hexdigest()[:12]
    path = os.path.join(VERIF, "replays", "%s-%s.case" % (prop, h))
    with open(path, "w") as f:
        f.write("# property=%s %s\n" % (prop, note))
        f.write("# signature=%s\n" % signature(prop, case))
        f.write("# implementation observed: %s\n" % case["obs"][:2000])
        f.write("# model predicts:          %s\n" % case["model"][:2000])
        f.write("# monitor clauses violated: %s\n" % case["detail"])
        f.write("# re-run: bin/check %s --replay %s\n" % (case.get("sub", prop), os.path.relpath(path, VERIF)))
        f.write(case["input"] + "\n")
    return os.path.relpath(path, VERIF)


def write_nofail(prop, what, body):
    os.makedirs(os.path.join(VERIF, "replays"), exist_ok=True)
    h = hashlib.sha256((what + body).encode()).hexdigest()[:12]
    path = os.path.join(VERIF, "replays", "%s-nofail-%s.txt" % (prop, h))
    with open(path, "w") as f:
        f.write("# property=%s: no longer shown to hold; no failing input found\n" % prop)
        f.write("# what no longer checks: %s\n" % what)
        f.write(body + "\n")
    return os.path.relpath(path, VERIF)


def exec_cases(prop, tier, seed, n, workers, tag, log):
    """Generate+execute n cases over `workers` harness processes, judge them.  Returns (results, stats, errors)."""
    wdir = os.path.join(OUT, prop)
    os.makedirs(wdir, exist_ok=True)
    per = max(1, n // workers)
    jobs = []
    for k in range(workers):
        jobs.append((k, seed * 1000003 + k, per))

    def one(job):
        k, s, cnt = job
        cf = os.path.join(wdir, "%s-%d.txt" % (tag, k))
        sf = os.path.join(wdir, "%s-%d.stats.json" % (tag, k))
        rc, o = run_harness(prop, cf, seed=s, n=cnt, tier=tier, stats=sf)
        if rc != 0:
            return dict(err="harness exit %d: %s" % (rc, o[-1500:]), res=[], stats={})
        drc, summary, res = judge_file(prop, cf)
        st = {}
        try:
            st = json.load(open(sf))
        except Exception:
            pass
        for r in res:
            r["file"] = cf
        return dict(err=None if drc == 0 else "driver exit %d" % drc, res=res, stats=st, summary=summary)
    with ThreadPoolExecutor(max_workers=workers) as ex:
        outs = list(ex.map(one, jobs))
    results, classes, errors, dn = [], {}, [], 0
    for o in outs:
        if o["err"]:
            errors.append(o["err"])
        results += o["res"]
        for c, v in o.get("stats", {}).get("classes", {}).items():
            classes[c] = classes.get(c, 0) + v
        dn += o.get("stats", {}).get("distinct_nontrivial", 0)
    return results, dict(classes=classes, distinct_nontrivial=dn), errors


def run_corpus(prop, tier):
    files = sorted(glob.glob(os.path.join(VERIF, "corpus", prop, "*.case")))
    if not files:
        return []
    wdir = os.path.join(OUT, prop)
    os.makedirs(wdir, exist_ok=True)
    allin = os.path.join(wdir, "corpus.in")
    with open(allin, "w") as f:
        for p in files:
            for line in open(p):
                if line.strip() and not line.startswith("#"):
                    f.write(line.split("\t")[0].rstrip("\n") + "\n")
    cf = os.path.join(wdir, "corpus.txt")
    rc, o = run_harness(prop, cf, replay=allin, tier=tier)
    if rc != 0:
        return [dict(idx=0, input="<corpus>", obs="harness exit %d %s" % (rc, o[-500:]), cls="", agree=False, violates=False, model="", detail="", bad=True)]
    _, _, res = judge_file(prop, cf)
    return res


def main(argv):
    if len(argv) < 2:
        print(__doc__ if __doc__ else "usage: check Cxx quick|thorough|--replay file")
        sys.exit(2)
    prop = argv[0]
    if prop not in PROPS:
        print("unknown property", prop)
        sys.exit(2)
    cfg = PROPS[prop]
    if argv[1] == "--replay":
        sys.exit(replay_main(prop, cfg, argv[2]))
    tier = argv[1]
    if os.environ.get("VERIF_TIER") in ("quick", "thorough") and tier not in ("quick", "thorough"):
        tier = os.environ["VERIF_TIER"]
    seed = int(os.environ.get("VERIF_SEED", "1") or "1")
    t0 = time.time()
    log = []
    os.makedirs(os.path.join(OUT, prop), exist_ok=True)

    proof_broken = []      # list of strings naming what no longer checks
    corr_broken = []
    assumptions = {}
    with Lock():
        bad = hygiene()
        if bad:
            proof_broken.append("hygiene: forbidden declarations present: " + "; ".join(bad[:5]))
        ok, failed, mkout = build_coq(log)
        cone = set()
        for vf in cfg["coqfiles"]:
            cone.update(dep_cone(vf))
        for f in failed:
            if f in cone or f.replace(".v", "") in [c.replace(".v", "") for c in cone]:
                m = re.search(r'File "\./%s", line (\d+)[^\n]*\n(?:[^\n]*\n){0,8}?Error:?([^\n]*(?:\n[^\n]*){0,6})' % re.escape(f), mkout)
                proof_broken.append("coqc fails on %s%s" % (f, (" line %s: %s" % (m.group(1), m.group(2).strip()[:600])) if m else ""))
        for vf in cfg["coqfiles"]:
            if not os.path.exists(os.path.join(COQ, vf[:-2] + ".vo")) and not any(vf in p for p in proof_broken):
                proof_broken.append("no compiled %s (a dependency failed: %s)" % (vf, ",".join(failed)))
        thm_ok = True
        for vf in cfg["coqfiles"]:
            if os.path.exists(os.path.join(COQ, vf[:-2] + ".vo")):
                okk, ass, _ = theorem_assumptions(vf)
                assumptions.update(ass)
                thm_ok = thm_ok and okk
        dok, dmsg = build_driver(log)
        if not dok:
            corr_broken.append("model does not extract/build: " + dmsg[-800:])
        hok, hout = build_harness(log)
        if not hok:
            corr_broken.append("harness does not build against the current tree: " + hout[-1200:])
        # copies so that parallel checks of other properties do not race on rebuilds
    coqchk_note = None
    if tier == "thorough" and not proof_broken:
        with Lock():
            cok, coqchk_note = run_coqchk(cfg, sorted(cone))
        if not cok:
            proof_broken.append("coqchk rejects the compiled development: " + coqchk_note[:400])
    obligations = count_qed(sorted(cone))
    discharged = obligations if not proof_broken else 0
    axioms_used = sorted(set(a for v in assumptions.values() for a in v))

    results, stats, errors = [], dict(classes={}, distinct_nontrivial=0), []
    corpus_res = []
    n = cfg["n_quick"] if tier == "quick" else cfg["n_thorough"]
    workers = cfg.get("workers_quick", 4) if tier == "quick" else cfg.get("workers_thorough", 16)
    if not corr_broken:
        corpus_res = run_corpus(prop, tier)
        results, stats, errors = exec_cases(prop, tier, seed, n, workers, "cases", log)
        for e in errors:
            corr_broken.append("execution error: " + e)
        # sub-checks: further harness plug-ins / judges that serve the same property
        # (e.g. a lower-level model of one component); their cases are folded in
        for sub in cfg.get("sub", []):
            scfg = PROPS.get(sub, {})
            sn = scfg.get("n_quick", 500) if tier == "quick" else scfg.get("n_thorough", 20000)
            corpus_res += [dict(r, cls=sub + ":" + r.get("cls", ""), sub=sub) for r in run_corpus(sub, tier)]
            r2, st2, e2 = exec_cases(sub, tier, seed, sn, workers, "cases", log)
            results += [dict(r, cls=sub + ":" + r.get("cls", ""), sub=sub) for r in r2]
            for c, v in st2.get("classes", {}).items():
                stats["classes"][sub + ":" + c] = v
            stats["distinct_nontrivial"] = stats.get("distinct_nontrivial", 0) + st2.get("distinct_nontrivial", 0)
            for e in e2:
                corr_broken.append("execution error (%s): %s" % (sub, e))
    allres = corpus_res + results
    known, _fixed = load_known()
    viols = [r for r in allres if r["violates"]]
    # A known finding is behaviour the model reproduces: a case whose observation DIFFERS from the
    # model stays a DIFF whether or not its monitor hit matches (or shrinks to) a known signature.
    # Cases with a monitor hit are reported as violations first; the DIFF branch below only runs when
    # no violation outside the known findings was reported.
    diffs = [r for r in allres if not r["agree"]]

    exit_code = 0
    out_lines = []
    new_viol = 0
    reported = set()

    def report_violations(vs):
        """Group monitor hits by signature, shrink one representative each, match against the known
        findings; returns the number of violations that are NOT known findings."""
        nonlocal exit_code, new_viol
        fresh = 0
        bysig = {}
        for r in vs:
            bysig.setdefault(signature(prop, r), []).append(r)
        for sig, rs in list(bysig.items())[:4]:
            rep = min(rs[:50], key=lambda r: len(r["input"]))
            small = shrink(rep.get("sub", prop), rep, budget_s=30 if tier == "quick" else 120, tier=tier)
            small["sub"] = rep.get("sub", prop)
            if small["sub"] != prop and not small.get("cls", "").startswith(small["sub"] + ":"):
                small["cls"] = small["sub"] + ":" + small.get("cls", "")
            sig2 = signature(prop, small)
            kn = [k for k in known if k["prop"] == prop and k["sig"] in (sig, sig2)]
            if kn:
                line = "KNOWN-FINDING: property=%s %s" % (prop, kn[0]["what"])
                if line not in reported:
                    out_lines.append(line)
                    reported.add(line)
                continue
            path = write_replay(prop, small, "violation found on the implementation (%d cases with this signature in this run)" % len(rs))
            out_lines.append("VIOLATION property=%s replay=%s" % (prop, path))
            new_viol += 1
            fresh += 1
            exit_code = 1
        return fresh

    fresh = report_violations(viols) if viols else 0

    # ---- the model/implementation tie or a proof broke without a (new) monitor hit: search, then report
    searched = 0
    if fresh == 0 and (diffs or proof_broken or corr_broken):
        if (diffs or proof_broken) and not [c for c in corr_broken if "build" in c]:
            budget = 60 if tier == "quick" else 900
            s_start = time.time()
            k = 0
            known_sigs = set(kn["sig"] for kn in known if kn["prop"] == prop)
            while time.time() - s_start < budget and fresh == 0:
                k += 1
                r2, _, e2 = exec_cases(prop, "thorough", seed * 7919 + k, n * 3, 16, "search", log)
                searched += len(r2)
                v2 = [r for r in r2 if r["violates"] and signature(prop, r) not in known_sigs]
                if v2:
                    viols = viols + v2
                    fresh = report_violations(v2)
                if e2:
                    break
        if fresh == 0:
            what = "; ".join(proof_broken + corr_broken) if (proof_broken or corr_broken) else \
                "correspondence model/implementation (judge%s): %d of %d cases differ" % (prop[1:], len(diffs), len(allres))
            if diffs:
                d = min(diffs[:50], key=lambda r: len(r["input"]))
                body = "first differing case (shortest of the first 50):\ninput: %s\nimplementation: %s\nmodel: %s\nsearched %d further cases for a monitor hit: none\nre-run: put the input line into a file and run bin/check %s --replay <file>\n%s" % (
                    d["input"], d["obs"], d["model"], searched, d.get("sub", prop), d["input"])
            else:
                body = "searched %d cases on the implementation for a monitor hit: none" % (searched + len(allres))
            path = write_nofail(prop, what, body)
            out_lines.append("VIOLATION property=%s replay=%s no-failing-input-found" % (prop, path))
            new_viol += 1
            exit_code = 1

    wall = time.time() - t0
    nontriv = stats.get("distinct_nontrivial", 0)
    samples = []
    for r in (results[:2] + results[len(results) // 2:len(results) // 2 + 1] + corpus_res[:1]):
        samples.append(dict(input=r["input"][:600], implementation=r["obs"][:400], verdict="AGREE" if r["agree"] else "DIFF",
                            monitor="VIOLATES " + r["detail"] if r["violates"] else "silent", cls=r.get("cls", "")))
    thm_names = sorted(assumptions.keys())
    ev = dict(
        property_id=prop, tier=tier, seed=seed, level="proof",
        coverage=dict(
            obligations=obligations, discharged=discharged,
            checker_cmd="make -C coq -k -j16 (coq_makefile, full .vo; coqc 8.16.1) + coqc %s for Print Assumptions" % " ".join(cfg["coqfiles"]),
            trusted_base=COMMON_TB + ["modelled, not verified: " + m for m in cfg.get("modelled", [])] +
            ["Print Assumptions: " + (("%d property theorems, all closed under the global context" % len(thm_names)) if not axioms_used
                                      else "axioms used: " + "; ".join(axioms_used))],
            theorems=thm_names,
            coqchk=coqchk_note or "not run in the quick tier",
            theorem_assumptions={k: (v if v else ["Closed under the global context"]) for k, v in assumptions.items()},
            proof_status="all proofs re-checked" if not proof_broken else "BROKEN: " + "; ".join(proof_broken),
            evaluations=len(allres) + searched,
            distinct_nontrivial=nontriv,
            rule=cfg["rule"],
            traces_validated_against_impl=len([r for r in allres if r["agree"]]),
            disagreements=len(diffs), monitor_hits=len(viols), corpus_cases=len(corpus_res),
            class_histogram=stats.get("classes", {}),
            samples=samples or [dict(note="no case executed")],
            exhaustive=False,
        ),
        assumptions=cfg.get("modelled", []),
        wall_s=round(wall, 2),
        violations=new_viol,
    )
    # evidence/ holds one file per PROPERTY; a sub-check run on its own (development aid) writes to out/
    evdir = os.path.join(VERIF, "evidence") if re.fullmatch(r"C\d\d", prop) else os.path.join(VERIF, "out", "evidence-sub")
    os.makedirs(evdir, exist_ok=True)
    with open(os.path.join(evdir, prop + ".json"), "w") as f:
        json.dump(ev, f, indent=1, sort_keys=True)
    print("check %s %s: proofs=%s obligations=%d cases=%d agree=%d diff=%d monitor_hits=%d nontrivial=%d wall=%.1fs" % (
        prop, tier, "ok" if not proof_broken else "BROKEN", obligations, len(allres),
        len([r for r in allres if r["agree"]]), len(diffs), len(viols), nontriv, wall))
    for l in out_lines:
        print(l)
    for c in corr_broken:
        print("NOTE: " + c.replace("\n", " | ")[:600])
    with open(os.path.join(OUT, prop, "last.log"), "w") as f:
        f.write("\n".join(log))
    sys.exit(exit_code)


def replay_main(prop, cfg, path):
    log = []
    with Lock():
        build_coq(log)
        build_driver(log)
        hok, hout = build_harness(log)
        if not hok:
            print("harness does not build:\n" + hout[-2000:])
            return 2
    wdir = os.path.join(OUT, prop)
    os.makedirs(wdir, exist_ok=True)
    cf = os.path.join(wdir, "replay.txt")
    rc, o = run_harness(prop, cf, replay=path)
    if rc != 0:
        print("harness failed:", o[-2000:])
        return 2
    _, _, res = judge_file(prop, cf)
    bad = 0
    for r in res:
        print("input:          ", r["input"])
        print("implementation: ", r["obs"])
        print("model:          ", r["model"] if not r["agree"] else "(agrees)")
        print("monitor:        ", ("VIOLATES clauses " + r["detail"]) if r["violates"] else "silent")
        if r["violates"]:
            bad = 1
            print("VIOLATION property=%s replay=%s" % (prop, path))
    return bad
