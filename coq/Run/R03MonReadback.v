(** C03, monitor versus model — part 9: clauses 1 and 4 (an acknowledged object the monitor OWES is
    unreadable at the read-back after a restart) never fire on an accepted observation, provided the
    read-back reports readable every key for which an owed copy's index record RESOLVES in the model.

    Ingredients: the copies of the monitor are live acknowledgements of the model (Run/R03MonCopies.v,
    now for inherited copies too: [Lkg (fun _ => True)]); the acknowledgements are carried over
    restarts with their block LOCATIONS ([Sn]: a state snapshot lists, in order, the locations of the
    blocks of its moment; [carry_ack]); at every point every carried acknowledgement that is not evicted
    resolves ([G_acks_resolve]).  The store above the block list enters as ONE decidable check per
    read-back entry, evaluated on the replay's model state ([r_check]): if the BlockReference of an
    owed copy of key k resolves on the model's current list with its seed, the entry (32 k ...) reports
    the key readable (present in FindMissing, Get OK, right bytes) — i.e. "the store finds what the
    block list resolves" (the key-location map and the old/current/new map, properties C06 / C05).
    [r_obs] = all link checks of Run/R03MonCopies.v + this one + every restart re-attaches all blocks;
    [mon03_clauses14_silent]. *)
From Coq Require Import List NArith ZArith Bool Arith Lia.
From BBS Require Import Common.Sx Persist.PBL Persist.PBLProofs Persist.Syncer Persist.SyncerProofs
  Persist.Shutdown Persist.ShutdownArith Persist.ShutdownProofs Persist.ShutdownOrder Run.R03 Run.R03MonGhost
  Run.R03MonFields Run.R03MonStoreFields Run.R03MonReplay Run.R03MonList Run.R03Mon Run.R03MonAck Run.R03MonObs
  Run.R03MonInherit Run.R03MonCopies.
Import ListNotations.
Local Open Scope nat_scope.

(** ---- a snapshot lists the locations of the blocks of its moment ---- *)
Lemma gps_loop_locs : forall bs lastE synced seeds out, gps_loop bs lastE synced seeds = Ok out ->
  map bs_loc out = map b_loc (firstn (length out) bs).
Proof.
  induction bs as [|b bs IH]; intros lastE synced seeds out H; cbn [gps_loop] in H.
  - destruct (lastE <? synced); [discriminate|]. inversion H. reflexivity.
  - destruct (lastE <? synced); [|inversion H; reflexivity].
    destruct (length seeds <? _); [discriminate|].
    destruct (gps_loop bs _ synced seeds) as [r|] eqn:E; cbn [obind] in H; [|discriminate].
    inversion H; subst out. cbn. rewrite (IH _ _ _ _ E). reflexivity.
Qed.

Lemma gps_state_locs p p' st i b' : get_persistent_state p = Ok (p', st) -> nth_error (snd st) i = Some b' ->
  nth_error (locs p) i = Some (bs_loc b').
Proof.
  unfold get_persistent_state. destruct (gps_loop _ _ _ _) as [out|] eqn:E; [|discriminate]. cbn [obind].
  intros H; inversion H; subst. cbn [snd]. intros Hn.
  pose proof (gps_loop_locs _ _ _ _ _ E) as Hl.
  assert (Hm : nth_error (map bs_loc out) i = Some (bs_loc b')) by (rewrite nth_error_map, Hn; reflexivity).
  rewrite Hl in Hm. unfold locs.
  assert (Hi : i < length out) by (apply nth_error_Some; congruence).
  rewrite nth_error_map in Hm. rewrite nth_error_firstn_lt in Hm by exact Hi. rewrite nth_error_map. exact Hm.
Qed.

Definition Sn (s : sys) (gx : gsys) : Prop :=
  forall w, (In w (gs_writes gx) \/ exists t, get_pend gx t = Some w) ->
  forall i b', nth_error (snd (gw_state w)) i = Some b' ->
    gw_base_abs w + i < tr s \/ nth_error (locs (s_pbl s)) (gw_base_abs w + i - tr s) = Some (bs_loc b').

(** how one step moves the list *)
Lemma step_locs_shape cfg s e s' : step cfg s e = Some (Ok s') ->
  (tr s' = tr s /\ exists l1, locs (s_pbl s') = locs (s_pbl s) ++ l1) \/
  (tr s' = S (tr s) /\ exists b0, locs (s_pbl s) = b0 :: locs (s_pbl s')).
Proof.
  destruct e as [alloc| |index size|k blk seed|d| |t a].
  - cbn [step]. intros H; inversion H; subst. left. unfold tr, locs. cbn [s_pbl with_pbl]. unfold push_back.
    destruct (closedForWriting _); [cbn; split; [reflexivity|exists []; rewrite app_nil_r; reflexivity]|].
    destruct alloc; cbn; (split; [reflexivity|]); [eexists; rewrite map_app; reflexivity|exists []; rewrite app_nil_r; reflexivity].
  - cbn [step]. destruct (blocks (s_pbl s)) as [|b rest] eqn:Eb; [discriminate|].
    destruct (pop_front (s_pbl s)) as [p'|] eqn:Ep; [|discriminate]. intros H; inversion H; subst. right.
    destruct (pop_front_shape _ _ _ _ Eb Ep) as [Hb [_ [_ [Ht _]]]]. unfold tr, locs. cbn [s_pbl with_pbl].
    rewrite Ht, Hb, Eb. split; [reflexivity|eexists; reflexivity].
  - cbn [step]. destruct (_ || _)%bool; [|discriminate]. destruct (put_start _ _); [|discriminate].
    intros H; inversion H; subst. left. split; [reflexivity|exists []; rewrite app_nil_r; reflexivity].
  - cbn [step]. destruct (nth_error (s_uploads s) k) as [[[tok sz]|]|]; try discriminate.
    destruct (put_finalize tok blk sz seed (s_pbl s)) as [[p' fr]|] eqn:Ef; [|discriminate].
    intros H; inversion H; subst. left. destruct (put_finalize_frame _ _ _ _ _ _ _ Ef) as [Ft Fl].
    unfold tr. cbn [s_pbl with_pbl with_uploads]. split; [exact Ft|exists []; rewrite app_nil_r; exact Fl].
  - intros H. destruct (quiet_frame cfg s (ETick d) s' I H) as [E1 [E2 _]]. left. split; [exact E1|exists []; rewrite app_nil_r; exact E2].
  - intros H. destruct (quiet_frame cfg s ECancel s' I H) as [E1 [E2 _]]. left. split; [exact E1|exists []; rewrite app_nil_r; exact E2].
  - intros H. destruct (quiet_frame cfg s (EStep t a) s' I H) as [E1 [E2 _]]. left. split; [exact E1|exists []; rewrite app_nil_r; exact E2].
Qed.

(** a snapshot that appears in a step was taken from the list of that moment *)
Lemma wstep_getstate cfg me a s s1 w' : wstep cfg me WGetState a s = Some (Ok (s1, w')) ->
  exists p' st, get_persistent_state (s_pbl s) = Ok (p', st) /\ w' = Some (WWriting st).
Proof.
  unfold wstep. destruct (get_persistent_state (s_pbl s)) as [[p' st]|] eqn:E; [|discriminate].
  intros H; inversion H; subst. eauto.
Qed.

Lemma step_new_snapshot cfg s e s' gx w' : step cfg s e = Some (Ok s') ->
  (In w' (gs_writes (gstep s e s' gx)) \/ exists t', get_pend (gstep s e s' gx) t' = Some w') ->
  (In w' (gs_writes gx) \/ exists t', get_pend gx t' = Some w') \/
  (gw_base_abs w' = tr s /\ exists p', get_persistent_state (s_pbl s) = Ok (p', gw_state w')).
Proof.
  intros Hs Hin.
  destruct (gstep_base s e s' gx w' Hin) as [Hold|Hb]; [left; exact Hold|].
  (* the right disjunct of [gstep_base] only arises in a GetPersistentState step; redo that case *)
  destruct e as [alloc| |index size|k blk seed|d| |t a]; cbn [gstep] in Hin;
    try (left; exact Hin).
  - destruct (blocks _); [left; exact Hin|]. left. destruct Hin as [H|[t' H]]; [left; exact H|right; exists t'; rewrite get_pend_with_g in H; exact H].
  - destruct (nth_error _ _) as [[[[|abs] sz]|]|]; try (left; exact Hin).
    destruct (put_finalize _ _ _ _ _) as [[p' [off| | |]]|]; try (left; exact Hin).
    destruct (mk_ack _ _ _ _); [|left; exact Hin].
    left. destruct Hin as [H|[t' H]]; [left; exact H|right; exists t'; rewrite get_pend_with_g in H; exact H].
  - cbn [step] in Hs. destruct t.
    + unfold rstep in Hs. destruct (s_r s) as [|ch|w] eqn:Er; try (left; exact Hin).
      destruct (wstep cfg TR w a s) as [[[s1 wn]|]|] eqn:Ew; try discriminate.
      destruct w as [| |st| |dl]; try (left; exact Hin).
      * (* WGetState *)
        destruct (wstep_getstate _ _ _ _ _ _ Ew) as [p' [st [Hg ->]]]. inversion Hs; subst s'.
        cbn [gw_step] in Hin. destruct Hin as [H|[t' H]]; [left; left; exact H|].
        destruct t'; cbn in H; [|left; right; exists TP; exact H].
        inversion H; subst w'. right. cbn. split; [reflexivity|]. exists p'. exact Hg.
      * (* WWriting *)
        cbn [gw_step] in Hin. destruct (a_ok a).
        -- destruct (get_pend gx TR) as [w0|] eqn:Ep; [|left; exact Hin].
           destruct Hin as [H|[t' H]].
           ++ cbn in H. destruct H as [<-|H]; [left; right; exists TR; exact Ep|left; left; exact H].
           ++ left. right. exists t'. destruct t'; cbn in H; [discriminate|exact H].
        -- destruct Hin as [H|[t' H]]; [left; left; exact H|].
           left. right. exists t'. destruct t'; cbn in H; [discriminate|exact H].
    + unfold pstep in Hs. destruct (s_p s) as [| | | |keep|keep final|keep final|keep final dl|keep w|] eqn:Ep;
        try (left; exact Hin).
      all: try (left; destruct (negb keep && negb final); exact Hin).
      destruct (wstep cfg TP w a s) as [[[s1 wn]|]|] eqn:Ew; try discriminate.
      destruct w as [| |st| |dl]; try (left; exact Hin).
      * destruct (wstep_getstate _ _ _ _ _ _ Ew) as [p' [st [Hg ->]]]. inversion Hs; subst s'.
        cbn [gw_step] in Hin. destruct Hin as [H|[t' H]]; [left; left; exact H|].
        destruct t'; cbn in H; [left; right; exists TR; exact H|].
        inversion H; subst w'. right. cbn. split; [reflexivity|]. exists p'. exact Hg.
      * cbn [gw_step] in Hin. destruct (a_ok a).
        -- destruct (get_pend gx TP) as [w0|] eqn:Epp; [|left; exact Hin].
           destruct Hin as [H|[t' H]].
           ++ cbn in H. destruct H as [<-|H]; [left; right; exists TP; exact Epp|left; left; exact H].
           ++ left. right. exists t'. destruct t'; cbn in H; [exact H|discriminate].
        -- destruct Hin as [H|[t' H]]; [left; left; exact H|].
           left. right. exists t'. destruct t'; cbn in H; [exact H|discriminate].
Qed.

Lemma Sn_step cfg s e s' gx : Sn s gx -> step cfg s e = Some (Ok s') -> Sn s' (gstep s e s' gx).
Proof.
  intros HS Hs w Hw i b' Hn.
  pose proof (step_locs_shape _ _ _ _ Hs) as Hsh.
  assert (Hold : gw_base_abs w + i < tr s \/ nth_error (locs (s_pbl s)) (gw_base_abs w + i - tr s) = Some (bs_loc b')).
  { destruct (step_new_snapshot _ _ _ _ _ _ Hs Hw) as [Ho|[Hb [p' Hg]]]; [apply (HS w Ho i b' Hn)|].
    right. rewrite Hb. replace (tr s + i - tr s) with i by lia. eapply gps_state_locs; eauto. }
  destruct Hsh as [[Ht [l1 Hl]]|[Ht [b0 Hl]]].
  - rewrite Ht, Hl. destruct Hold as [H|H]; [left; exact H|right; apply nth_error_app_some; exact H].
  - rewrite Ht. destruct Hold as [H|H]; [left; lia|].
    destruct (Nat.eq_dec (gw_base_abs w + i) (tr s)) as [E|N]; [left; lia|].
    destruct (Nat.lt_ge_cases (gw_base_abs w + i) (tr s)) as [L|L]; [left; lia|]. right.
    rewrite Hl in H. replace (gw_base_abs w + i - tr s) with (S (gw_base_abs w + i - S (tr s))) in H by lia. exact H.
Qed.

Lemma Sn_gpath cfg P s gx s' gx' : gpath cfg P s gx s' gx' -> Sn s gx -> Sn s' gx'.
Proof. induction 1 as [|s x e s1 s' x' _ Hs _ IH]; [auto|]. intros B. apply IH. eapply Sn_step; eauto. Qed.

Lemma Sn_nowrites s gx : gs_writes gx = [] -> gs_pend_r gx = None -> gs_pend_p gx = None -> Sn s gx.
Proof.
  intros H1 H2 H3 w [Hin|[[|] Hp]]; [rewrite H1 in Hin; destruct Hin|cbn in Hp; congruence|cbn in Hp; congruence].
Qed.
