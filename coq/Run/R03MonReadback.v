(** C03, monitor versus model — part 9: clauses 1 and 4 (an acknowledged object the monitor OWES is
    unreadable at the read-back after a restart) never fire on an accepted observation, provided the
    read-back reports readable every key for which an owed copy's index record RESOLVES in the model.

    Ingredients: the copies of the monitor are live acknowledgements of the model (Run/R03MonCopies.v,
    now for inherited copies too: [Lkg (fun _ => True)]); the acknowledgements are carried over
    restarts with their block LOCATIONS ([Sn]: a state snapshot lists, in order, the locations of the
    blocks of its moment; [carry_ack]); at every point every carried acknowledgement that is not evicted
    resolves ([G_acks_resolve]).  The store above the block list enters as ONE decidable check per
    read-back entry, evaluated on the replay's model state ([r_check]): if the BlockReference of an
    owed copy of key k resolves on the model's current list with its seed, the entry (32 k ...) reports
    the key readable (present in FindMissing, Get OK, right bytes) — i.e. "the store finds what the
    block list resolves" (the key-location map and the old/current/new map, properties C06 / C05).
    [r_obs] = all link checks of Run/R03MonCopies.v + this one + every restart re-attaches all blocks;
    [mon03_clauses14_silent]. *)
From Coq Require Import List NArith ZArith Bool Arith Lia.
From BBS Require Import Common.Sx Persist.PBL Persist.PBLProofs Persist.Syncer Persist.SyncerProofs
  Persist.Shutdown Persist.ShutdownArith Persist.ShutdownProofs Persist.ShutdownOrder Run.R03 Run.R03MonGhost
  Run.R03MonFields Run.R03MonStoreFields Run.R03MonReplay Run.R03MonList Run.R03Mon Run.R03MonAck Run.R03MonObs
  Run.R03MonInherit Run.R03MonCopies.
Import ListNotations.
Local Open Scope nat_scope.

(** ---- a snapshot lists the locations of the blocks of its moment ---- *)
Lemma gps_loop_locs : forall bs lastE synced seeds out, gps_loop bs lastE synced seeds = Ok out ->
  map bs_loc out = map b_loc (firstn (length out) bs).
Proof.
  induction bs as [|b bs IH]; intros lastE synced seeds out H; cbn [gps_loop] in H.
  - destruct (lastE <? synced); [discriminate|]. inversion H. reflexivity.
  - destruct (lastE <? synced); [|inversion H; reflexivity].
    destruct (length seeds <? _); [discriminate|].
    destruct (gps_loop bs _ synced seeds) as [r|] eqn:E; cbn [obind] in H; [|discriminate].
    inversion H; subst out. cbn. rewrite (IH _ _ _ _ E). reflexivity.
Qed.

Lemma gps_state_locs p p' st i b' : get_persistent_state p = Ok (p', st) -> nth_error (snd st) i = Some b' ->
  nth_error (locs p) i = Some (bs_loc b').
Proof.
  unfold get_persistent_state. destruct (gps_loop _ _ _ _) as [out|] eqn:E; [|discriminate]. cbn [obind].
  intros H; inversion H; subst. cbn [snd]. intros Hn.
  pose proof (gps_loop_locs _ _ _ _ _ E) as Hl.
  assert (Hm : nth_error (map bs_loc out) i = Some (bs_loc b')) by (rewrite nth_error_map, Hn; reflexivity).
  rewrite Hl in Hm. unfold locs.
  assert (Hi : i < length out) by (apply nth_error_Some; congruence).
  rewrite nth_error_map in Hm. rewrite nth_error_firstn_lt in Hm by exact Hi. rewrite nth_error_map. exact Hm.
Qed.

Definition Sn (s : sys) (gx : gsys) : Prop :=
  forall w, (In w (gs_writes gx) \/ exists t, get_pend gx t = Some w) ->
  forall i b', nth_error (snd (gw_state w)) i = Some b' ->
    gw_base_abs w + i < tr s \/ nth_error (locs (s_pbl s)) (gw_base_abs w + i - tr s) = Some (bs_loc b').

(** how one step moves the list *)
Lemma step_locs_shape cfg s e s' : step cfg s e = Some (Ok s') ->
  (tr s' = tr s /\ exists l1, locs (s_pbl s') = locs (s_pbl s) ++ l1) \/
  (tr s' = S (tr s) /\ exists b0, locs (s_pbl s) = b0 :: locs (s_pbl s')).
Proof.
  destruct e as [alloc| |index size|k blk seed|d| |t a].
  - cbn [step]. intros H; inversion H; subst. left. unfold tr, locs. cbn [s_pbl with_pbl]. unfold push_back.
    destruct (closedForWriting _); [cbn; split; [reflexivity|exists []; rewrite app_nil_r; reflexivity]|].
    destruct alloc; cbn; (split; [reflexivity|]); [eexists; rewrite map_app; reflexivity|exists []; rewrite app_nil_r; reflexivity].
  - cbn [step]. destruct (blocks (s_pbl s)) as [|b rest] eqn:Eb; [discriminate|].
    destruct (pop_front (s_pbl s)) as [p'|] eqn:Ep; [|discriminate]. intros H; inversion H; subst. right.
    destruct (pop_front_shape _ _ _ _ Eb Ep) as [Hb [_ [_ [Ht _]]]]. unfold tr, locs. cbn [s_pbl with_pbl].
    rewrite Ht, Hb, Eb. split; [reflexivity|eexists; reflexivity].
  - cbn [step]. destruct (_ || _)%bool; [|discriminate]. destruct (put_start _ _); [|discriminate].
    intros H; inversion H; subst. left. split; [reflexivity|exists []; rewrite app_nil_r; reflexivity].
  - cbn [step]. destruct (nth_error (s_uploads s) k) as [[[tok sz]|]|]; try discriminate.
    destruct (put_finalize tok blk sz seed (s_pbl s)) as [[p' fr]|] eqn:Ef; [|discriminate].
    intros H; inversion H; subst. left. destruct (put_finalize_frame _ _ _ _ _ _ _ Ef) as [Ft Fl].
    unfold tr. cbn [s_pbl with_pbl with_uploads]. split; [exact Ft|exists []; rewrite app_nil_r; exact Fl].
  - intros H. destruct (quiet_frame cfg s (ETick d) s' I H) as [E1 [E2 _]]. left. split; [exact E1|exists []; rewrite app_nil_r; exact E2].
  - intros H. destruct (quiet_frame cfg s ECancel s' I H) as [E1 [E2 _]]. left. split; [exact E1|exists []; rewrite app_nil_r; exact E2].
  - intros H. destruct (quiet_frame cfg s (EStep t a) s' I H) as [E1 [E2 _]]. left. split; [exact E1|exists []; rewrite app_nil_r; exact E2].
Qed.

(** a snapshot that appears in a step was taken from the list of that moment *)
Lemma wstep_getstate cfg me a s s1 w' : wstep cfg me WGetState a s = Some (Ok (s1, w')) ->
  exists p' st, get_persistent_state (s_pbl s) = Ok (p', st) /\ w' = Some (WWriting st).
Proof.
  unfold wstep. destruct (get_persistent_state (s_pbl s)) as [[p' st]|] eqn:E; [|discriminate].
  intros H; inversion H; subst. eauto.
Qed.

Lemma step_new_snapshot cfg s e s' gx w' : step cfg s e = Some (Ok s') ->
  (In w' (gs_writes (gstep s e s' gx)) \/ exists t', get_pend (gstep s e s' gx) t' = Some w') ->
  (In w' (gs_writes gx) \/ exists t', get_pend gx t' = Some w') \/
  (gw_base_abs w' = tr s /\ exists p', get_persistent_state (s_pbl s) = Ok (p', gw_state w')).
Proof.
  intros Hs Hin.
  destruct (gstep_base s e s' gx w' Hin) as [Hold|Hb]; [left; exact Hold|].
  (* the right disjunct of [gstep_base] only arises in a GetPersistentState step; redo that case *)
  destruct e as [alloc| |index size|k blk seed|d| |t a]; cbn [gstep] in Hin;
    try (left; exact Hin).
  - destruct (blocks _); [left; exact Hin|]. left. destruct Hin as [H|[t' H]]; [left; exact H|right; exists t'; rewrite get_pend_with_g in H; exact H].
  - destruct (nth_error _ _) as [[[[|abs] sz]|]|]; try (left; exact Hin).
    destruct (put_finalize _ _ _ _ _) as [[p' [off| | |]]|]; try (left; exact Hin).
    destruct (mk_ack _ _ _ _); [|left; exact Hin].
    left. destruct Hin as [H|[t' H]]; [left; exact H|right; exists t'; rewrite get_pend_with_g in H; exact H].
  - cbn [step] in Hs. destruct t.
    + unfold rstep in Hs. destruct (s_r s) as [|ch|w] eqn:Er; try (left; exact Hin).
      destruct (wstep cfg TR w a s) as [[[s1 wn]|]|] eqn:Ew; try discriminate.
      destruct w as [| |st| |dl]; try (left; exact Hin).
      * (* WGetState *)
        destruct (wstep_getstate _ _ _ _ _ _ Ew) as [p' [st [Hg ->]]]. inversion Hs; subst s'.
        cbn [gw_step] in Hin. destruct Hin as [H|[t' H]]; [left; left; exact H|].
        destruct t'; cbn in H; [|left; right; exists TP; exact H].
        inversion H; subst w'. right. cbn. split; [reflexivity|]. exists p'. exact Hg.
      * (* WWriting *)
        cbn [gw_step] in Hin. destruct (a_ok a).
        -- destruct (get_pend gx TR) as [w0|] eqn:Ep; [|left; exact Hin].
           destruct Hin as [H|[t' H]].
           ++ cbn in H. destruct H as [<-|H]; [left; right; exists TR; exact Ep|left; left; exact H].
           ++ left. right. exists t'. destruct t'; cbn in H; [discriminate|exact H].
        -- destruct Hin as [H|[t' H]]; [left; left; exact H|].
           left. right. exists t'. destruct t'; cbn in H; [discriminate|exact H].
    + unfold pstep in Hs. destruct (s_p s) as [| | | |keep|keep final|keep final|keep final dl|keep w|] eqn:Ep;
        try (left; exact Hin).
      all: try (left; destruct (negb keep && negb final); exact Hin).
      destruct (wstep cfg TP w a s) as [[[s1 wn]|]|] eqn:Ew; try discriminate.
      destruct w as [| |st| |dl]; try (left; exact Hin).
      * destruct (wstep_getstate _ _ _ _ _ _ Ew) as [p' [st [Hg ->]]]. inversion Hs; subst s'.
        cbn [gw_step] in Hin. destruct Hin as [H|[t' H]]; [left; left; exact H|].
        destruct t'; cbn in H; [left; right; exists TR; exact H|].
        inversion H; subst w'. right. cbn. split; [reflexivity|]. exists p'. exact Hg.
      * cbn [gw_step] in Hin. destruct (a_ok a).
        -- destruct (get_pend gx TP) as [w0|] eqn:Epp; [|left; exact Hin].
           destruct Hin as [H|[t' H]].
           ++ cbn in H. destruct H as [<-|H]; [left; right; exists TP; exact Epp|left; left; exact H].
           ++ left. right. exists t'. destruct t'; cbn in H; [exact H|discriminate].
        -- destruct Hin as [H|[t' H]]; [left; left; exact H|].
           left. right. exists t'. destruct t'; cbn in H; [exact H|discriminate].
Qed.

Lemma Sn_step cfg s e s' gx : Sn s gx -> step cfg s e = Some (Ok s') -> Sn s' (gstep s e s' gx).
Proof.
  intros HS Hs w Hw i b' Hn.
  pose proof (step_locs_shape _ _ _ _ Hs) as Hsh.
  assert (Hold : gw_base_abs w + i < tr s \/ nth_error (locs (s_pbl s)) (gw_base_abs w + i - tr s) = Some (bs_loc b')).
  { destruct (step_new_snapshot _ _ _ _ _ _ Hs Hw) as [Ho|[Hb [p' Hg]]]; [apply (HS w Ho i b' Hn)|].
    right. rewrite Hb. replace (tr s + i - tr s) with i by lia. eapply gps_state_locs; eauto. }
  destruct Hsh as [[Ht [l1 Hl]]|[Ht [b0 Hl]]].
  - rewrite Ht, Hl. destruct Hold as [H|H]; [left; exact H|right; apply nth_error_app_some; exact H].
  - rewrite Ht. destruct Hold as [H|H]; [left; lia|].
    destruct (Nat.eq_dec (gw_base_abs w + i) (tr s)) as [E|N]; [left; lia|].
    destruct (Nat.lt_ge_cases (gw_base_abs w + i) (tr s)) as [L|L]; [left; lia|]. right.
    rewrite Hl in H. replace (gw_base_abs w + i - tr s) with (S (gw_base_abs w + i - S (tr s))) in H by lia. exact H.
Qed.

Lemma Sn_gpath cfg P s gx s' gx' : gpath cfg P s gx s' gx' -> Sn s gx -> Sn s' gx'.
Proof. induction 1 as [|s x e s1 s' x' _ Hs _ IH]; [auto|]. intros B. apply IH. eapply Sn_step; eauto. Qed.

Lemma Sn_nowrites s gx : gs_writes gx = [] -> gs_pend_r gx = None -> gs_pend_p gx = None -> Sn s gx.
Proof.
  intros H1 H2 H3 w [Hin|[[|] Hp]]; [rewrite H1 in Hin; destruct Hin|cbn in Hp; congruence|cbn in Hp; congruence].
Qed.

(** ---- an acknowledgement carried over a restart keeps its block's location ---- *)
Lemma restore_all_length init : forall n bl sd ls, restore_blocks (fun _ _ => true) init n = (bl, sd, ls) ->
  length bl = length init.
Proof.
  induction init as [|b rest IH]; intros n bl sd ls H; cbn in H; [inversion H; reflexivity|].
  destruct (restore_blocks (fun _ _ => true) rest (S n)) as [[bl' sd'] ls'] eqn:E. inversion H; subst. cbn.
  rewrite (IH _ _ _ _ E). reflexivity.
Qed.

Lemma restart_locs st : locs (restart_of st) = map bs_loc (snd st).
Proof.
  destruct (restore_blocks (fun _ _ => true) (snd st) 0) as [[bl sd] ls] eqn:E.
  destruct (restart_shape _ _ _ _ E) as [R1 _]. unfold locs. rewrite R1, (restore_locs _ _ _ _ _ _ E).
  rewrite (restore_all_length _ _ _ _ _ E), firstn_all. reflexivity.
Qed.

Lemma restart_tr st now : tr (init_sys (restart_of st) now) = 0.
Proof.
  destruct (restore_blocks (fun _ _ => true) (snd st) 0) as [[bl sd] ls] eqn:E.
  destruct (restart_shape _ _ _ _ E) as [_ [_ [_ [R4 _]]]]. exact R4.
Qed.

Lemma carry_ack s gx w rest a ref lo now :
  Bw s gx -> Sn s gx -> gs_writes gx = w :: rest -> In a (g_acks (gs_g gx)) -> covers w a ->
  a_ref a = (fst (fst ref), snd (fst ref)) -> a_seed a = snd ref -> tr s <= a_abs a -> loc_at s (a_abs a) = Some lo ->
  ack_for (init_sys (restart_of (gw_state w)) now) (g_inh (inh_list w (g_acks (gs_g gx)))) ref (Some lo).
Proof.
  intros [B1 _] HS Hw Ha Hcov Hr Hsd Hge Hloc.
  assert (Hbase : gw_base_abs w <= a_abs a).
  { specialize (B1 w). rewrite Hw in B1. specialize (B1 (or_introl eq_refl)). lia. }
  exists (inh w a). cbn [g_inh gs_g g_acks]. split.
  { unfold inh_list. apply in_map. apply filter_In. split; [exact Ha|apply Nat.leb_le; exact Hbase]. }
  cbn [inh a_ref a_seed a_abs]. rewrite restart_tr. split; [exact Hr|]. split; [exact Hsd|]. split; [lia|].
  intros lo0 E0. inversion E0; subst lo0. unfold loc_at in *. cbn [s_pbl init_sys]. rewrite restart_tr, restart_locs, Nat.sub_0_r.
  destruct Hcov as [E|[_ [_ [_ [_ [_ [b [Hb _]]]]]]]]; [lia|]. cbv zeta in Hb.
  assert (Hj : a_abs a - gw_base_abs w < length (snd (gw_state w))).
  { assert (nth_error (blocks (restart_of (gw_state w))) (a_abs a - gw_base_abs w) <> None) as Hn by congruence.
    apply nth_error_Some in Hn. pose proof (f_equal (@length loc) (restart_locs (gw_state w))) as Hl.
    unfold locs in Hl. rewrite !map_length in Hl. lia. }
  destruct (nth_error (snd (gw_state w)) (a_abs a - gw_base_abs w)) as [b'|] eqn:Eb; [|apply nth_error_None in Eb; lia].
  rewrite nth_error_map, Eb. cbn [option_map].
  assert (Hin : In w (gs_writes gx) \/ exists t, get_pend gx t = Some w) by (left; rewrite Hw; left; reflexivity).
  destruct (HS w Hin _ _ Eb) as [H|H]; [lia|].
  replace (gw_base_abs w + (a_abs a - gw_base_abs w)) with (a_abs a) in H by lia.
  rewrite H in Hloc. exact Hloc.
Qed.

(** ---- the read-back check, on the replay's model state ---- *)
Definition resolves_in (x : xst) (ref : rref) : bool :=
  match ref_to_index (fst (fst ref)) (snd (fst ref)) (s_pbl (x_sys x)) with
  | Ok (Some (_, sd)) => N.eqb sd (snd ref)
  | _ => false
  end.

Definition small (x : xst) : bool :=
  ((Z.of_nat (length (blocks (s_pbl (x_sys x)))) <? 65536) && (Z.of_nat (length (epochSeeds (s_pbl (x_sys x)))) <? 4294967296))%Z.

Definition readable32 (objs e : sx) : bool :=
  Z.eqb (sx_Z (sx_nth e 4)) 0 && sx_eqb (sx_nth e 5) (sx_nth objs (sx_nat (sx_nth e 1)))
  && Z.eqb (sx_Z (sx_nth e 2)) 0 && Z.eqb (sx_Z (sx_nth e 3)) 0.

Definition r_check (objs : sx) (x : xst) (l : lst) (e : sx) : bool :=
  if (tag e =? 32)%Z then
    small x &&
    (if existsb (fun cr => Nat.eqb (c_key (fst cr)) (sx_nat (sx_nth e 1)) && c_old (fst cr) && resolves_in x (snd cr)) (l_cr l)
     then readable32 objs e else true)
  else true.

(** where the monitor adds clause 1 / 4 *)
Lemma mon_entry_viol_32b cfg objs ops m x z : tag x = 32%Z ->
  In z (m_viol (mon_entry cfg objs ops m x)) ->
  In z (m_viol m) \/ z = 5%Z \/
  ((z = 1%Z \/ z = 4%Z) /\
   existsb (fun c => Nat.eqb (c_key c) (sx_nat (sx_nth x 1)) && c_old c) (m_copies m) = true /\
   readable32 objs x = false).
Proof.
  intros E. unfold mon_entry, readable32. rewrite E. cbv beta iota zeta. prj.
  rewrite !in_app_iff. intros [H|[H|H]]; [left; exact H| |].
  - match type of H with In _ (if ?c then _ else _) => destruct c; [|destruct H] end.
    destruct H as [<-|[]]. auto.
  - match type of H with In _ (if ?c then _ else _) => destruct c eqn:C; [|destruct H] end.
    apply andb_prop in C. destruct C as [C1 C2]. apply Bool.negb_true_iff in C2.
    destruct H as [<-|[]]. right. right. split; [destruct (Z.eqb (m_prev m) 1); auto|]. split; [exact C1|exact C2].
Qed.

Definition no14 (z : Z) : Prop := z <> 1%Z /\ z <> 4%Z.

Lemma entry_no14 o cfgsx objs ops m l x gx e z :
  G o (x_sys x) gx -> Lkg (fun _ => True) m l (x_sys x) gx -> r_check objs x l e = true ->
  In z (m_viol (mon_entry cfgsx objs ops m e)) -> In z (m_viol m) \/ no14 z.
Proof.
  intros Hg HL Hck Hin.
  destruct (Z.eq_dec (tag e) 32) as [E32|N32].
  - destruct (mon_entry_viol_32b _ _ _ _ _ _ E32 Hin) as [H|[->|[Hz [Howed Hnr]]]]; [left; exact H|right; split; discriminate|].
    exfalso. unfold r_check in Hck. rewrite E32 in Hck. cbn [Z.eqb Pos.eqb] in Hck.
    apply andb_prop in Hck. destruct Hck as [Hsm Hck].
    (* an owed copy of the key *)
    apply existsb_exists in Howed. destruct Howed as [cp [Hcp Hk]].
    rewrite <- (lk_cr _ _ _ _ _ HL) in Hcp. apply in_map_iff in Hcp. destruct Hcp as [[cp' ref] [Heq Hcr]].
    cbn [fst] in Heq. subst cp'.
    destruct (lk_ack _ _ _ _ _ HL cp ref Hcr I) as [a [Ha [Hr1 [Hr2 [Hge _]]]]].
    (* its acknowledgement resolves in the model *)
    assert (Hres : resolves_in x ref = true).
    { pose proof Hg as [[[[_ [Gi _]] _] _] _].
      pose proof (gi_acks _ _ _ Gi) as F. rewrite Forall_forall in F.
      destruct (F a Ha) as [Ev|Lv]; [unfold evicted in Ev; unfold tr in Hge; lia|].
      apply andb_prop in Hsm. destruct Hsm as [S1 S2]. apply Z.ltb_lt in S1. apply Z.ltb_lt in S2.
      pose proof (live_pos_lt _ _ _ Lv) as Hpos. unfold pos in Hpos.
      assert (H32 : (N.of_nat (a_ep a - g_pe (gs_g gx)) < 2 ^ 32)%N) by (change (2 ^ 32)%N with 4294967296%N; lia).
      assert (H16 : (Z.of_nat (a_last a - a_abs a) < 2 ^ 16)%Z).
      { destruct Lv as [Lge _ _ Llast _ _]. rewrite (gi_el _ _ _ Gi) in Llast.
        apply elayout_range in Llast. change (2 ^ 16)%Z with 65536%Z. lia. }
      destruct (G_acks_resolve o _ _ Hg a Ha H32 H16) as [Ev|[Q _]]; [unfold tr in Hge; lia|].
      unfold resolves_in. rewrite Hr1 in Q. cbn [fst snd] in Q. rewrite Q, Hr2. apply N.eqb_refl. }
    assert (Hex : existsb (fun cr => Nat.eqb (c_key (fst cr)) (sx_nat (sx_nth e 1)) && c_old (fst cr) && resolves_in x (snd cr)) (l_cr l) = true).
    { apply existsb_exists. exists (cp, ref). split; [exact Hcr|]. cbn [fst snd]. rewrite Hk, Hres. reflexivity. }
    rewrite Hex in Hck. congruence.
  - destruct (Z.eq_dec (tag e) 30) as [E30|N30].
    + destruct (mon_entry_viol_30 _ _ _ _ _ _ E30 Hin) as [H|[->|[_ [_ [[-> _]|[-> _]]]]]]; [left; exact H| | |]; right; split; discriminate.
    + rewrite (mon_entry_viol_other _ _ _ _ _ N30 N32) in Hin. left. exact Hin.
Qed.

(** ---- all checks along an incarnation, the replay's state threaded ---- *)
Fixpoint r_entries (cfg : config) (bs : Z) (cfgsx objs : sx) (ops : list sx) (x : xst) (m : mst) (l : lst)
    (es : list sx) : bool :=
  match es with
  | [] => true
  | e :: r =>
      l_check cfgsx m l e && r_check objs x l e &&
      match replay_entry cfg bs x e with
      | Some x' => r_entries cfg bs cfgsx objs ops x' (mon_entry cfgsx objs ops m e) (l_step cfgsx m l e) r
      | None => true
      end
  end.

Lemma entries_all2 o cfg bs cfgsx objs ops st0 : forall es n m l x x1 gx,
  G o (x_sys x) gx -> J m (x_sys x) gx -> K st0 x gx -> Bw (x_sys x) gx -> Sn (x_sys x) gx ->
  Lkg (fun _ => True) m l (x_sys x) gx ->
  replay_entries cfg bs n x es = (x1, []) -> r_entries cfg bs cfgsx objs ops x m l es = true ->
  exists gx1, G o (x_sys x1) gx1 /\
    J (fold_left (mon_entry cfgsx objs ops) es m) (x_sys x1) gx1 /\ K st0 x1 gx1 /\ Bw (x_sys x1) gx1 /\
    Sn (x_sys x1) gx1 /\
    Lkg (fun _ => True) (fold_left (mon_entry cfgsx objs ops) es m) (l_fold cfgsx objs ops m l es) (x_sys x1) gx1 /\
    forall z, In z (m_viol (fold_left (mon_entry cfgsx objs ops) es m)) -> In z (m_viol m) \/ no14 z.
Proof.
  induction es as [|e es IH]; intros n m l x x1 gx Hg Hj Hk Hb Hsn HL H C; cbn [replay_entries r_entries] in H, C.
  - inversion H; subst. exists gx. cbn. splits; auto.
  - destruct (replay_entry cfg bs x e) as [x'|] eqn:R; [|discriminate].
    apply andb_prop in C. destruct C as [C C2]. apply andb_prop in C. destruct C as [C1 C3].
    destruct (entry_inv o cfg bs cfgsx objs ops m x e x' gx Hg Hj R) as [gx' [Hp [Hj' Hpost]]].
    assert (Hg' : G o (x_sys x') gx') by (eapply G_gpath; eauto).
    pose proof (entry_K cfg bs st0 e x gx x' gx' Hk Hp Hpost) as Hk'.
    pose proof (Bw_gpath _ _ _ _ _ _ Hp Hb) as Hb'.
    pose proof (Sn_gpath _ _ _ _ _ _ Hp Hsn) as Hsn'.
    pose proof (entry_Lk _ cfgsx objs ops cfg bs m l x e x' gx gx' R Hp Hpost C1 HL) as HL'.
    destruct (IH _ _ _ _ _ _ Hg' Hj' Hk' Hb' Hsn' HL' H C2) as [gx1 [A1 [A2 [A3 [A4 [A5 [A6 A7]]]]]]].
    exists gx1. cbn [fold_left l_fold]. splits; auto.
    intros z Hz. destruct (A7 z Hz) as [Hz'|Hz']; [|right; exact Hz'].
    apply (entry_no14 o cfgsx objs ops m l x gx e z Hg HL C3 Hz').
Qed.

(** ---- all incarnations ---- *)
Definition l_exit (prev : Z) (l : lst) : list (copy * rref) :=
  if Z.eqb prev 0 then [] else map (fun cr => (mkCopy (c_key (fst cr)) (c_loc (fst cr)) true, snd cr)) (l_cr l).

Fixpoint r_hists (c : sx) (cfg : config) (bs : Z) (cfgsx objs : sx) (incs hists : list sx) (m : mst)
    (crs : list (copy * rref)) (st0 : pstate) (now : N) : bool :=
  match incs, hists with
  | inc :: incs', h :: hists' =>
      match sx_list h with
      | e0 :: es =>
          match replay_restore c cfg bs st0 now e0 with
          | Some x0 =>
              let ops := sx_list (sx_nth inc 1) in
              let m' := mon_entry cfgsx objs ops m e0 in
              all_restored e0 && r_entries cfg bs cfgsx objs ops x0 m' (l0 crs) es &&
              (let x1 := fst (replay_entries cfg bs 1 x0 es) in
               let m1 := fold_left (mon_entry cfgsx objs ops) es m' in
               let l1 := l_fold cfgsx objs ops m' (l0 crs) es in
               r_hists c cfg bs cfgsx objs incs' hists' (mon_exit m1) (l_exit (m_prev (mon_exit m1)) l1)
                       (x_state x1) (s_now (x_sys x1)))
          | None => true
          end
      | [] => true
      end
  | _, _ => true
  end.

Definition r_obs (inp obs : sx) : bool :=
  let c := sx_nth inp 0 in
  r_hists c (mkConfig (sx_N (sx_nth c 9)) (sx_N (sx_nth c 10))) (sx_Z (sx_nth c 0)) c (sx_nth inp 1)
          (sx_list (sx_nth inp 2)) (sx_list obs) m_init [] init_pstate 0%N.

Lemma l_exit_copies prev m l : map fst (l_cr l) = m_copies m ->
  map fst (l_exit prev l) =
  (if Z.eqb prev 0 then [] else map (fun c => mkCopy (c_key c) (c_loc c) true) (m_copies m)).
Proof.
  intros H. unfold l_exit. destruct (Z.eqb prev 0); [reflexivity|]. rewrite <- H, !map_map. reflexivity.
Qed.

Lemma incs_no14 c cfg bs cfgsx objs : forall hists incs m crs inc st0 now A,
  m_fresh m -> m_upl m = [] -> map fst crs = m_copies m ->
  G (fst st0) (init_sys (restart_of st0) now) (g_inh A) ->
  (forall cp ref, In (cp, ref) crs -> ack_for (init_sys (restart_of st0) now) (g_inh A) ref (Some (c_loc cp))) ->
  replay_hists c cfg bs inc st0 now hists = [] ->
  r_hists c cfg bs cfgsx objs incs hists m crs st0 now = true ->
  forall z, In z (m_viol (mon_incs cfgsx objs incs hists m)) -> In z (m_viol m) \/ no14 z.
Proof.
  induction hists as [|h hs IH]; intros [|ic incs] m crs inc st0 now A Hf Hu Hcr Hg Hack Hr Hck z Hin;
    cbn [mon_incs] in Hin; auto.
  destruct (replay_hists_cons _ _ _ _ _ _ _ _ Hr) as [e0 [es [x0 [x1 [Eh [R0 [R1 R2]]]]]]].
  cbn [r_hists] in Hck. rewrite Eh, R0 in Hck. cbv zeta in Hck. rewrite R1 in Hck. cbn [fst] in Hck.
  apply andb_prop in Hck. destruct Hck as [Hck Hnext]. apply andb_prop in Hck. destruct Hck as [Hall Hent].
  rewrite Eh in Hin. cbn [fold_left] in Hin.
  destruct (restore_is_restart _ _ _ _ _ _ _ R0 Hall) as [T0 [Hst Hx0]].
  set (ops := sx_list (sx_nth ic 1)) in *.
  set (m' := mon_entry cfgsx objs ops m e0) in *.
  rewrite <- Hx0 in Hg, Hack.
  pose proof (J_restore_entry cfgsx objs ops m e0 (x_sys x0) (g_inh A) T0 Hf) as Hj0. fold m' in Hj0.
  assert (Hk0 : K st0 x0 (g_inh A)) by (unfold K; cbn; exact Hst).
  assert (Hb0 : Bw (x_sys x0) (g_inh A)) by (apply Bw_nowrites; reflexivity).
  assert (Hs0 : Sn (x_sys x0) (g_inh A)) by (apply Sn_nowrites; reflexivity).
  assert (HL0 : Lkg (fun _ => True) m' (l0 crs) (x_sys x0) (g_inh A)).
  { apply (Lk_start _ cfgsx objs ops c cfg bs st0 now e0 x0 m (g_inh A) crs R0 T0 Hu Hcr). intros cp ref Hc _. auto. }
  destruct (entries_all2 (fst st0) cfg bs cfgsx objs ops st0 es 1 m' (l0 crs) x0 x1 (g_inh A)
              Hg Hj0 Hk0 Hb0 Hs0 HL0 R1 Hent) as [gx [Hg1 [Hj1 [Hk1 [Hb1 [Hs1 [HL1 Hv1]]]]]]].
  set (m1 := fold_left (mon_entry cfgsx objs ops) es m') in *.
  set (l1 := l_fold cfgsx objs ops m' (l0 crs) es) in *.
  (* violations of this incarnation *)
  assert (Hthis : forall z, In z (m_viol m1) -> In z (m_viol m) \/ no14 z).
  { intros z0 Hz0. destruct (Hv1 z0 Hz0) as [H|H]; [|right; exact H].
    unfold m' in H. rewrite (mon_entry_viol_other _ _ _ _ _) in H by (rewrite T0; discriminate). left. exact H. }
  (* the next incarnation *)
  assert (Hnx : exists A', G (fst (x_state x1)) (init_sys (restart_of (x_state x1)) (s_now (x_sys x1))) (g_inh A') /\
            forall cp ref, In (cp, ref) (l_exit (m_prev (mon_exit m1)) l1) ->
              ack_for (init_sys (restart_of (x_state x1)) (s_now (x_sys x1))) (g_inh A') ref (Some (c_loc cp))).
  { unfold l_exit. destruct (Z.eqb_spec (m_prev (mon_exit m1)) 0) as [E|N].
    - exists []. split; [apply G_fresh|]. intros cp ref [].
    - assert (Hcov : exists w rest, gs_writes gx = w :: rest /\ gw_cohort w = g_acks (gs_g gx) /\
                       forall a, In a (g_acks (gs_g gx)) -> covers w a).
      { revert N. unfold mon_exit. cbn [m_prev]. destruct (m_exited m1) eqn:Ex.
        - intros _. apply (graceful_G (fst st0) _ _ Hg1). apply (j_e _ _ _ _ _ _ _ _ _ _ Hj1 Ex).
        - destruct (Nat.ltb_spec (m_lastput m1) (m_commit m1)) as [L|L]; [|intros Hc; exfalso; apply Hc; reflexivity].
          intros _. destruct (j_p4 _ _ _ _ _ _ _ _ _ _ Hj1 L) as [w [Hinw Hc]]. eapply crash_covers_G; eauto. }
      destruct Hcov as [w [rest [Hw [Hc Hcv]]]].
      assert (Hxs : x_state x1 = gw_state w) by (unfold K in Hk1; rewrite Hw in Hk1; exact Hk1).
      exists (inh_list w (g_acks (gs_g gx))). rewrite Hxs. split.
      + destruct Hg1 as [[[[I1 [Gi [Wk _]]] R] Ch] Ps]. apply (G_inherit (fst st0)).
        * rewrite Hw in Wk. apply Forall_inv in Wk. destruct Wk as [_ [_ Wk]]. exact Wk.
        * apply (gi_static _ _ _ Gi).
        * exact Hcv.
      + intros cp ref Hinc. apply in_map_iff in Hinc. destruct Hinc as [[cp0 ref0] [Heq Hin0]].
        cbn [fst snd] in Heq. inversion Heq; subst cp ref. cbn [c_loc].
        destruct (lk_ack _ _ _ _ _ HL1 cp0 ref0 Hin0 I) as [a [Ha [Hr1 [Hr2 [Hge Hloc]]]]].
        eapply carry_ack; eauto. }
  destruct Hnx as [A' [Hg' Hack']].
  assert (Hcr' : map fst (l_exit (m_prev (mon_exit m1)) l1) = m_copies (mon_exit m1)).
  { rewrite (l_exit_copies _ m1 l1 (lk_cr _ _ _ _ _ HL1)). unfold mon_exit. cbn [m_copies m_prev]. reflexivity. }
  destruct (IH incs (mon_exit m1) _ (S inc) _ _ A' (mon_exit_fresh m1) eq_refl Hcr' Hg' Hack' R2 Hnext z Hin) as [H|H];
    [|right; exact H].
  cbn [mon_exit m_viol] in H. apply Hthis. exact H.
Qed.

(** ---- clauses 1 and 4 ---- *)
Theorem mon03_clauses14_silent inp obs : replay03 inp obs = [] -> r_obs inp obs = true ->
  forall z, In z (mon03 inp obs) -> z <> 1%Z /\ z <> 4%Z.
Proof.
  intros Hr Hck z Hin. unfold mon03 in Hin. destruct (is_marker obs).
  - destruct (Z.eqb _ _); destruct Hin as [<-|[]]; split; discriminate.
  - apply dedupz_in in Hin. unfold replay03 in Hr. unfold r_obs in Hck.
    assert (H : In z (m_viol m_init) \/ no14 z).
    { eapply (incs_no14 _ _ _ _ _ (sx_list obs) (sx_list (sx_nth inp 2)) m_init [] 0 init_pstate 0%N []);
        [apply m_init_fresh|reflexivity|reflexivity|apply G_fresh|intros cp ref []|exact Hr|exact Hck|exact Hin]. }
    destruct H as [[]|H]; exact H.
Qed.

(** all together: only clause 5 (wrong bytes) is left *)
Theorem mon03_silent_on_accepted_partial2 inp obs :
  is_marker obs = false -> replay03 inp obs = [] -> u_obs inp obs = true -> r_obs inp obs = true ->
  forall z, In z (mon03 inp obs) -> z = 5%Z.
Proof.
  intros Hm Hr Hu Hck z Hin.
  destruct (mon03_silent_on_accepted_partial inp obs Hm Hr Hu z Hin) as [->|[->| ->]]; [| |reflexivity];
    destruct (mon03_clauses14_silent inp obs Hr Hck _ Hin) as [N1 N4]; congruence.
Qed.
