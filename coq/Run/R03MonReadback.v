(** C03, monitor versus model — part 9: clauses 1 and 4 (an acknowledged object the monitor OWES is
    unreadable at the read-back after a restart) never fire on an accepted observation, provided the
    read-back reports readable every key for which an owed copy's index record RESOLVES in the model.

    Ingredients: the copies of the monitor are live acknowledgements of the model (Run/R03MonCopies.v,
    now for inherited copies too: [Lkg (fun _ => True)]); the acknowledgements are carried over
    restarts with their block LOCATIONS ([Sn]: a state snapshot lists, in order, the locations of the
    blocks of its moment; [carry_ack]); at every point every carried acknowledgement that is not evicted
    resolves ([G_acks_resolve]).  The store above the block list enters as ONE decidable check per
    read-back entry, evaluated on the replay's model state ([r_check]): if the BlockReference of an
    owed copy of key k resolves on the model's current list with its seed, the entry (32 k ...) reports
    the key readable (present in FindMissing, Get OK, right bytes) — i.e. "the store finds what the
    block list resolves" (the key-location map and the old/current/new map, properties C06 / C05).
    [r_obs] = all link checks of Run/R03MonCopies.v + this one + every restart re-attaches all blocks;
    [mon03_clauses14_silent]. *)
From Coq Require Import List NArith ZArith Bool Arith Lia.
From BBS Require Import Common.Sx Persist.PBL Persist.PBLProofs Persist.Syncer Persist.SyncerProofs
  Persist.Shutdown Persist.ShutdownArith Persist.ShutdownProofs Persist.ShutdownOrder Run.R03 Run.R03MonGhost
  Run.R03MonFields Run.R03MonStoreFields Run.R03MonReplay Run.R03MonList Run.R03Mon Run.R03MonAck Run.R03MonObs
  Run.R03MonInherit Run.R03MonCopies.
Import ListNotations.
Local Open Scope nat_scope.

(** ---- a snapshot lists the locations of the blocks of its moment ---- *)
Lemma gps_loop_locs : forall bs lastE synced seeds out, gps_loop bs lastE synced seeds = Ok out ->
  map bs_loc out = map b_loc (firstn (length out) bs).
Proof.
  induction bs as [|b bs IH]; intros lastE synced seeds out H; cbn [gps_loop] in H.
  - destruct (lastE <? synced); [discriminate|]. inversion H. reflexivity.
  - destruct (lastE <? synced); [|inversion H; reflexivity].
    destruct (length seeds <? _); [discriminate|].
    destruct (gps_loop bs _ synced seeds) as [r|] eqn:E; cbn [obind] in H; [|discriminate].
    inversion H; subst out. cbn. rewrite (IH _ _ _ _ E). reflexivity.
Qed.

Lemma gps_state_locs p p' st i b' : get_persistent_state p = Ok (p', st) -> nth_error (snd st) i = Some b' ->
  nth_error (locs p) i = Some (bs_loc b').
Proof.
  unfold get_persistent_state. destruct (gps_loop _ _ _ _) as [out|] eqn:E; [|discriminate]. cbn [obind].
  intros H; inversion H; subst. cbn [snd]. intros Hn.
  pose proof (gps_loop_locs _ _ _ _ _ E) as Hl.
  assert (Hm : nth_error (map bs_loc out) i = Some (bs_loc b')) by (rewrite nth_error_map, Hn; reflexivity).
  rewrite Hl in Hm. unfold locs.
  assert (Hi : i < length out) by (apply nth_error_Some; congruence).
  rewrite nth_error_map in Hm. rewrite nth_error_firstn_lt in Hm by exact Hi. rewrite nth_error_map. exact Hm.
Qed.

Definition Sn (s : sys) (gx : gsys) : Prop :=
  forall w, (In w (gs_writes gx) \/ exists t, get_pend gx t = Some w) ->
  forall i b', nth_error (snd (gw_state w)) i = Some b' ->
    gw_base_abs w + i < tr s \/ nth_error (locs (s_pbl s)) (gw_base_abs w + i - tr s) = Some (bs_loc b').

(** how one step moves the list *)
Lemma step_locs_shape cfg s e s' : step cfg s e = Some (Ok s') ->
  (tr s' = tr s /\ exists l1, locs (s_pbl s') = locs (s_pbl s) ++ l1) \/
  (tr s' = S (tr s) /\ exists b0, locs (s_pbl s) = b0 :: locs (s_pbl s')).
Proof.
  destruct e as [alloc| |index size|k blk seed|d| |t a].
  - cbn [step]. intros H; inversion H; subst. left. unfold tr, locs. cbn [s_pbl with_pbl]. unfold push_back.
    destruct (closedForWriting _); [cbn; split; [reflexivity|exists []; rewrite app_nil_r; reflexivity]|].
    destruct alloc; cbn; (split; [reflexivity|]); [eexists; rewrite map_app; reflexivity|exists []; rewrite app_nil_r; reflexivity].
  - cbn [step]. destruct (blocks (s_pbl s)) as [|b rest] eqn:Eb; [discriminate|].
    destruct (pop_front (s_pbl s)) as [p'|] eqn:Ep; [|discriminate]. intros H; inversion H; subst. right.
    destruct (pop_front_shape _ _ _ _ Eb Ep) as [Hb [_ [_ [Ht _]]]]. unfold tr, locs. cbn [s_pbl with_pbl].
    rewrite Ht, Hb, Eb. split; [reflexivity|eexists; reflexivity].
  - cbn [step]. destruct (_ || _)%bool; [|discriminate]. destruct (put_start _ _); [|discriminate].
    intros H; inversion H; subst. left. split; [reflexivity|exists []; rewrite app_nil_r; reflexivity].
  - cbn [step]. destruct (nth_error (s_uploads s) k) as [[[tok sz]|]|]; try discriminate.
    destruct (put_finalize tok blk sz seed (s_pbl s)) as [[p' fr]|] eqn:Ef; [|discriminate].
    intros H; inversion H; subst. left. destruct (put_finalize_frame _ _ _ _ _ _ _ Ef) as [Ft Fl].
    unfold tr. cbn [s_pbl with_pbl with_uploads]. split; [exact Ft|exists []; rewrite app_nil_r; exact Fl].
  - intros H. destruct (quiet_frame cfg s (ETick d) s' I H) as [E1 [E2 _]]. left. split; [exact E1|exists []; rewrite app_nil_r; exact E2].
  - intros H. destruct (quiet_frame cfg s ECancel s' I H) as [E1 [E2 _]]. left. split; [exact E1|exists []; rewrite app_nil_r; exact E2].
  - intros H. destruct (quiet_frame cfg s (EStep t a) s' I H) as [E1 [E2 _]]. left. split; [exact E1|exists []; rewrite app_nil_r; exact E2].
Qed.

(** a snapshot that appears in a step was taken from the list of that moment *)
Lemma wstep_getstate cfg me a s s1 w' : wstep cfg me WGetState a s = Some (Ok (s1, w')) ->
  exists p' st, get_persistent_state (s_pbl s) = Ok (p', st) /\ w' = Some (WWriting st).
Proof.
  unfold wstep. destruct (get_persistent_state (s_pbl s)) as [[p' st]|] eqn:E; [|discriminate].
  intros H; inversion H; subst. eauto.
Qed.

Lemma step_new_snapshot cfg s e s' gx w' : step cfg s e = Some (Ok s') ->
  (In w' (gs_writes (gstep s e s' gx)) \/ exists t', get_pend (gstep s e s' gx) t' = Some w') ->
  (In w' (gs_writes gx) \/ exists t', get_pend gx t' = Some w') \/
  (gw_base_abs w' = tr s /\ exists p', get_persistent_state (s_pbl s) = Ok (p', gw_state w')).
Proof.
  intros Hs Hin.
  destruct (gstep_base s e s' gx w' Hin) as [Hold|Hb]; [left; exact Hold|].
  (* the right disjunct of [gstep_base] only arises in a GetPersistentState step; redo that case *)
  destruct e as [alloc| |index size|k blk seed|d| |t a]; cbn [gstep] in Hin;
    try (left; exact Hin).
  - destruct (blocks _); [left; exact Hin|]. left. destruct Hin as [H|[t' H]]; [left; exact H|right; exists t'; rewrite get_pend_with_g in H; exact H].
  - destruct (nth_error _ _) as [[[[|abs] sz]|]|]; try (left; exact Hin).
    destruct (put_finalize _ _ _ _ _) as [[p' [off| | |]]|]; try (left; exact Hin).
    destruct (mk_ack _ _ _ _); [|left; exact Hin].
    left. destruct Hin as [H|[t' H]]; [left; exact H|right; exists t'; rewrite get_pend_with_g in H; exact H].
  - cbn [step] in Hs. destruct t.
    + unfold rstep in Hs. destruct (s_r s) as [|ch|w] eqn:Er; try (left; exact Hin).
      destruct (wstep cfg TR w a s) as [[[s1 wn]|]|] eqn:Ew; try discriminate.
      destruct w as [| |st| |dl]; try (left; exact Hin).
      * (* WGetState *)
        destruct (wstep_getstate _ _ _ _ _ _ Ew) as [p' [st [Hg ->]]]. inversion Hs; subst s'.
        cbn [gw_step] in Hin. destruct Hin as [H|[t' H]]; [left; left; exact H|].
        destruct t'; cbn in H; [|left; right; exists TP; exact H].
        inversion H; subst w'. right. cbn. split; [reflexivity|]. exists p'. exact Hg.
      * (* WWriting *)
        cbn [gw_step] in Hin. destruct (a_ok a).
        -- destruct (get_pend gx TR) as [w0|] eqn:Ep; [|left; exact Hin].
           destruct Hin as [H|[t' H]].
           ++ cbn in H. destruct H as [<-|H]; [left; right; exists TR; exact Ep|left; left; exact H].
           ++ left. right. exists t'. destruct t'; cbn in H; [discriminate|exact H].
        -- destruct Hin as [H|[t' H]]; [left; left; exact H|].
           left. right. exists t'. destruct t'; cbn in H; [discriminate|exact H].
    + unfold pstep in Hs. destruct (s_p s) as [| | | |keep|keep final|keep final|keep final dl|keep w|] eqn:Ep;
        try (left; exact Hin).
      all: try (left; destruct (negb keep && negb final); exact Hin).
      destruct (wstep cfg TP w a s) as [[[s1 wn]|]|] eqn:Ew; try discriminate.
      destruct w as [| |st| |dl]; try (left; exact Hin).
      * destruct (wstep_getstate _ _ _ _ _ _ Ew) as [p' [st [Hg ->]]]. inversion Hs; subst s'.
        cbn [gw_step] in Hin. destruct Hin as [H|[t' H]]; [left; left; exact H|].
        destruct t'; cbn in H; [left; right; exists TR; exact H|].
        inversion H; subst w'. right. cbn. split; [reflexivity|]. exists p'. exact Hg.
      * cbn [gw_step] in Hin. destruct (a_ok a).
        -- destruct (get_pend gx TP) as [w0|] eqn:Epp; [|left; exact Hin].
           destruct Hin as [H|[t' H]].
           ++ cbn in H. destruct H as [<-|H]; [left; right; exists TP; exact Epp|left; left; exact H].
           ++ left. right. exists t'. destruct t'; cbn in H; [exact H|discriminate].
        -- destruct Hin as [H|[t' H]]; [left; left; exact H|].
           left. right. exists t'. destruct t'; cbn in H; [exact H|discriminate].
Qed.

Lemma Sn_step cfg s e s' gx : Sn s gx -> step cfg s e = Some (Ok s') -> Sn s' (gstep s e s' gx).
Proof.
  intros HS Hs w Hw i b' Hn.
  pose proof (step_locs_shape _ _ _ _ Hs) as Hsh.
  assert (Hold : gw_base_abs w + i < tr s \/ nth_error (locs (s_pbl s)) (gw_base_abs w + i - tr s) = Some (bs_loc b')).
  { destruct (step_new_snapshot _ _ _ _ _ _ Hs Hw) as [Ho|[Hb [p' Hg]]]; [apply (HS w Ho i b' Hn)|].
    right. rewrite Hb. replace (tr s + i - tr s) with i by lia. eapply gps_state_locs; eauto. }
  destruct Hsh as [[Ht [l1 Hl]]|[Ht [b0 Hl]]].
  - rewrite Ht, Hl. destruct Hold as [H|H]; [left; exact H|right; apply nth_error_app_some; exact H].
  - rewrite Ht. destruct Hold as [H|H]; [left; lia|].
    destruct (Nat.eq_dec (gw_base_abs w + i) (tr s)) as [E|N]; [left; lia|].
    destruct (Nat.lt_ge_cases (gw_base_abs w + i) (tr s)) as [L|L]; [left; lia|]. right.
    rewrite Hl in H. replace (gw_base_abs w + i - tr s) with (S (gw_base_abs w + i - S (tr s))) in H by lia. exact H.
Qed.

Lemma Sn_gpath cfg P s gx s' gx' : gpath cfg P s gx s' gx' -> Sn s gx -> Sn s' gx'.
Proof. induction 1 as [|s x e s1 s' x' _ Hs _ IH]; [auto|]. intros B. apply IH. eapply Sn_step; eauto. Qed.

Lemma Sn_nowrites s gx : gs_writes gx = [] -> gs_pend_r gx = None -> gs_pend_p gx = None -> Sn s gx.
Proof.
  intros H1 H2 H3 w [Hin|[[|] Hp]]; [rewrite H1 in Hin; destruct Hin|cbn in Hp; congruence|cbn in Hp; congruence].
Qed.

(** ---- an acknowledgement carried over a restart keeps its block's location ---- *)
Lemma restore_all_length init : forall n bl sd ls, restore_blocks (fun _ _ => true) init n = (bl, sd, ls) ->
  length bl = length init.
Proof.
  induction init as [|b rest IH]; intros n bl sd ls H; cbn in H; [inversion H; reflexivity|].
  destruct (restore_blocks (fun _ _ => true) rest (S n)) as [[bl' sd'] ls'] eqn:E. inversion H; subst. cbn.
  rewrite (IH _ _ _ _ E). reflexivity.
Qed.

Lemma restart_locs st : locs (restart_of st) = map bs_loc (snd st).
Proof.
  destruct (restore_blocks (fun _ _ => true) (snd st) 0) as [[bl sd] ls] eqn:E.
  destruct (restart_shape _ _ _ _ E) as [R1 _]. unfold locs. rewrite R1, (restore_locs _ _ _ _ _ _ E).
  rewrite (restore_all_length _ _ _ _ _ E), firstn_all. reflexivity.
Qed.

Lemma restart_tr st now : tr (init_sys (restart_of st) now) = 0.
Proof.
  destruct (restore_blocks (fun _ _ => true) (snd st) 0) as [[bl sd] ls] eqn:E.
  destruct (restart_shape _ _ _ _ E) as [_ [_ [_ [R4 _]]]]. exact R4.
Qed.

Lemma carry_ack s gx w rest a ref lo now :
  Bw s gx -> Sn s gx -> gs_writes gx = w :: rest -> In a (g_acks (gs_g gx)) -> covers w a ->
  a_ref a = (fst (fst ref), snd (fst ref)) -> a_seed a = snd ref -> tr s <= a_abs a -> loc_at s (a_abs a) = Some lo ->
  ack_for (init_sys (restart_of (gw_state w)) now) (g_inh (inh_list w (g_acks (gs_g gx)))) ref (Some lo).
Proof.
  intros [B1 _] HS Hw Ha Hcov Hr Hsd Hge Hloc.
  assert (Hbase : gw_base_abs w <= a_abs a).
  { specialize (B1 w). rewrite Hw in B1. specialize (B1 (or_introl eq_refl)). lia. }
  exists (inh w a). cbn [g_inh gs_g g_acks]. split.
  { unfold inh_list. apply in_map. apply filter_In. split; [exact Ha|apply Nat.leb_le; exact Hbase]. }
  cbn [inh a_ref a_seed a_abs]. rewrite restart_tr. split; [exact Hr|]. split; [exact Hsd|]. split; [lia|].
  intros lo0 E0. inversion E0; subst lo0. unfold loc_at in *. cbn [s_pbl init_sys]. rewrite restart_tr, restart_locs, Nat.sub_0_r.
  destruct Hcov as [E|[_ [_ [_ [_ [_ [b [Hb _]]]]]]]]; [lia|]. cbv zeta in Hb.
  assert (Hj : a_abs a - gw_base_abs w < length (snd (gw_state w))).
  { assert (nth_error (blocks (restart_of (gw_state w))) (a_abs a - gw_base_abs w) <> None) as Hn by congruence.
    apply nth_error_Some in Hn. pose proof (f_equal (@length loc) (restart_locs (gw_state w))) as Hl.
    unfold locs in Hl. rewrite !map_length in Hl. lia. }
  destruct (nth_error (snd (gw_state w)) (a_abs a - gw_base_abs w)) as [b'|] eqn:Eb; [|apply nth_error_None in Eb; lia].
  rewrite nth_error_map, Eb. cbn [option_map].
  assert (Hin : In w (gs_writes gx) \/ exists t, get_pend gx t = Some w) by (left; rewrite Hw; left; reflexivity).
  destruct (HS w Hin _ _ Eb) as [H|H]; [lia|].
  replace (gw_base_abs w + (a_abs a - gw_base_abs w)) with (a_abs a) in H by lia.
  rewrite H in Hloc. exact Hloc.
Qed.

(** ---- the read-back check, on the replay's model state ---- *)
Definition resolves_in (x : xst) (ref : rref) : bool :=
  match ref_to_index (fst (fst ref)) (snd (fst ref)) (s_pbl (x_sys x)) with
  | Ok (Some (_, sd)) => N.eqb sd (snd ref)
  | _ => false
  end.

Definition small (x : xst) : bool :=
  ((Z.of_nat (length (blocks (s_pbl (x_sys x)))) <? 65536) && (Z.of_nat (length (epochSeeds (s_pbl (x_sys x)))) <? 4294967296))%Z.

Definition readable32 (objs e : sx) : bool :=
  Z.eqb (sx_Z (sx_nth e 4)) 0 && sx_eqb (sx_nth e 5) (sx_nth objs (sx_nat (sx_nth e 1)))
  && Z.eqb (sx_Z (sx_nth e 2)) 0 && Z.eqb (sx_Z (sx_nth e 3)) 0.

Definition r_check (objs : sx) (x : xst) (l : lst) (e : sx) : bool :=
  if (tag e =? 32)%Z then
    small x &&
    (if existsb (fun cr => Nat.eqb (c_key (fst cr)) (sx_nat (sx_nth e 1)) && c_old (fst cr) && resolves_in x (snd cr)) (l_cr l)
     then readable32 objs e else true)
  else true.

(** where the monitor adds clause 1 / 4 *)
Lemma mon_entry_viol_32b cfg objs ops m x z : tag x = 32%Z ->
  In z (m_viol (mon_entry cfg objs ops m x)) ->
  In z (m_viol m) \/ z = 5%Z \/
  ((z = 1%Z \/ z = 4%Z) /\
   existsb (fun c => Nat.eqb (c_key c) (sx_nat (sx_nth x 1)) && c_old c) (m_copies m) = true /\
   readable32 objs x = false).
Proof.
  intros E. unfold mon_entry, readable32. rewrite E. cbv beta iota zeta. prj.
  rewrite !in_app_iff. intros [H|[H|H]]; [left; exact H| |].
  - match type of H with In _ (if ?c then _ else _) => destruct c; [|destruct H] end.
    destruct H as [<-|[]]. auto.
  - match type of H with In _ (if ?c then _ else _) => destruct c eqn:C; [|destruct H] end.
    apply andb_prop in C. destruct C as [C1 C2]. apply Bool.negb_true_iff in C2.
    destruct H as [<-|[]]. right. right. split; [destruct (Z.eqb (m_prev m) 1); auto|]. split; [exact C1|exact C2].
Qed.

Definition no14 (z : Z) : Prop := z <> 1%Z /\ z <> 4%Z.

Lemma entry_no14 o cfgsx objs ops m l x gx e z :
  G o (x_sys x) gx -> Lkg (fun _ => True) m l (x_sys x) gx -> r_check objs x l e = true ->
  In z (m_viol (mon_entry cfgsx objs ops m e)) -> In z (m_viol m) \/ no14 z.
Proof.
  intros Hg HL Hck Hin.
  destruct (Z.eq_dec (tag e) 32) as [E32|N32].
  - destruct (mon_entry_viol_32b _ _ _ _ _ _ E32 Hin) as [H|[->|[Hz [Howed Hnr]]]]; [left; exact H|right; split; discriminate|].
    exfalso. unfold r_check in Hck. rewrite E32 in Hck. cbn [Z.eqb Pos.eqb] in Hck.
    apply andb_prop in Hck. destruct Hck as [Hsm Hck].
    (* an owed copy of the key *)
    apply existsb_exists in Howed. destruct Howed as [cp [Hcp Hk]].
    rewrite <- (lk_cr _ _ _ _ _ HL) in Hcp. apply in_map_iff in Hcp. destruct Hcp as [[cp' ref] [Heq Hcr]].
    cbn [fst] in Heq. subst cp'.
    destruct (lk_ack _ _ _ _ _ HL cp ref Hcr I) as [a [Ha [Hr1 [Hr2 [Hge _]]]]].
    (* its acknowledgement resolves in the model *)
    assert (Hres : resolves_in x ref = true).
    { pose proof Hg as [[[[_ [Gi _]] _] _] _].
      pose proof (gi_acks _ _ _ Gi) as F. rewrite Forall_forall in F.
      destruct (F a Ha) as [Ev|Lv]; [unfold evicted in Ev; unfold tr in Hge; lia|].
      apply andb_prop in Hsm. destruct Hsm as [S1 S2]. apply Z.ltb_lt in S1. apply Z.ltb_lt in S2.
      pose proof (live_pos_lt _ _ _ Lv) as Hpos. unfold pos in Hpos.
      assert (H32 : (N.of_nat (a_ep a - g_pe (gs_g gx)) < 2 ^ 32)%N) by (change (2 ^ 32)%N with 4294967296%N; lia).
      assert (H16 : (Z.of_nat (a_last a - a_abs a) < 2 ^ 16)%Z).
      { destruct Lv as [Lge _ _ Llast _ _]. rewrite (gi_el _ _ _ Gi) in Llast.
        apply elayout_range in Llast. change (2 ^ 16)%Z with 65536%Z. lia. }
      destruct (G_acks_resolve o _ _ Hg a Ha H32 H16) as [Ev|[Q _]]; [unfold tr in Hge; lia|].
      unfold resolves_in. rewrite Hr1 in Q. cbn [fst snd] in Q. rewrite Q, Hr2. apply N.eqb_refl. }
    assert (Hex : existsb (fun cr => Nat.eqb (c_key (fst cr)) (sx_nat (sx_nth e 1)) && c_old (fst cr) && resolves_in x (snd cr)) (l_cr l) = true).
    { apply existsb_exists. exists (cp, ref). split; [exact Hcr|]. cbn [fst snd]. rewrite Hk, Hres. reflexivity. }
    rewrite Hex in Hck. congruence.
  - destruct (Z.eq_dec (tag e) 30) as [E30|N30].
    + destruct (mon_entry_viol_30 _ _ _ _ _ _ E30 Hin) as [H|[->|[_ [_ [[-> _]|[-> _]]]]]]; [left; exact H| | |]; right; split; discriminate.
    + rewrite (mon_entry_viol_other _ _ _ _ _ N30 N32) in Hin. left. exact Hin.
Qed.
