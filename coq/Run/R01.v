(** C01 monitor: reads return exactly what was uploaded, or nothing. *)
From BBS Require Import Common.Sx Store.Model Run.RStore.
Open Scope Z_scope.

Record m01 := {
  m_puts : list (nat * (nat * nat));      (* tid -> (obj, inst) of uploads in flight *)
  m_gets : list (nat * (nat * nat));
  m_gfcs : list (nat * (nat * nat * nat)); (* tid -> (parent, inst, child) *)
  m_uploaded : list (nat * nat);          (* completed successful uploads (obj, inst) *)
  m_corrupted : bool;
  m_viol : list Z;
}.

Fixpoint assoc {T} (l : list (nat * T)) (k : nat) : option T :=
  match l with
  | [] => None
  | (k', v) :: t => if Nat.eqb k k' then Some v else assoc t k
  end.
Definition unassoc {T} (l : list (nat * T)) (k : nat) : list (nat * T) :=
  filter (fun e => negb (Nat.eqb (fst e) k)) l.

Definition visible (w : world) (up : list (nat * nat)) (o i : nat) : bool :=
  let c := w_cfg w in
  existsb (fun '(o', i') =>
             Nat.eqb o o' &&
             (if c_hier c then existsb (Nat.eqb i') (ancestors w i)
              else if c_inst_keys c then Nat.eqb i i' else true)) up.

Definition add_viol (m : m01) (v : list Z) : m01 :=
  {| m_puts := m_puts m; m_gets := m_gets m; m_gfcs := m_gfcs m; m_uploaded := m_uploaded m;
     m_corrupted := m_corrupted m; m_viol := m_viol m ++ v |}.

Definition check_read (w : world) (m : m01) (o i : nat) (bytes : list N) : list Z :=
  (if negb (bytes_eqb bytes (content w o)) && (c_validate (w_cfg w) || negb (m_corrupted m)) then [1] else []) ++
  (if visible w (m_uploaded m) o i then [] else [2]).

Definition mon01_step (w : world) (m : m01) (e : op) (o : sx) : m01 :=
  let m := if (0 <? ob_negs o) && negb (m_corrupted m) then add_viol m [3] else m in
  match e with
  | OPutStart tid ob i =>
      if Z.eqb (ob_kind o) 1 then
        {| m_puts := (tid, (ob, i)) :: m_puts m; m_gets := m_gets m; m_gfcs := m_gfcs m;
           m_uploaded := m_uploaded m; m_corrupted := m_corrupted m; m_viol := m_viol m |}
      else m
  | OPutChunk tid _ | OPutEnd tid _ =>
      if Z.eqb (ob_kind o) 0 then
        match assoc (m_puts m) tid with
        | Some oi =>
            {| m_puts := unassoc (m_puts m) tid; m_gets := m_gets m; m_gfcs := m_gfcs m;
               m_uploaded := if ob_ok o then oi :: m_uploaded m else m_uploaded m;
               m_corrupted := m_corrupted m; m_viol := m_viol m |}
        | None => m
        end
      else m
  | OGetOpen tid ob i =>
      if Z.eqb (ob_kind o) 1 then
        {| m_puts := m_puts m; m_gets := (tid, (ob, i)) :: m_gets m; m_gfcs := m_gfcs m;
           m_uploaded := m_uploaded m; m_corrupted := m_corrupted m; m_viol := m_viol m |}
      else m
  | OGetConsume tid =>
      match assoc (m_gets m) tid with
      | Some (ob, i) =>
          let m' := {| m_puts := m_puts m; m_gets := unassoc (m_gets m) tid; m_gfcs := m_gfcs m;
                       m_uploaded := m_uploaded m; m_corrupted := m_corrupted m; m_viol := m_viol m |} in
          if ob_ok o then add_viol m' (check_read w m ob i (ob_bytes o)) else m'
      | None => m
      end
  | OFindMissing ds =>
      if Z.eqb (ob_kind o) 2 && Z.eqb (ob_code o) 0 then
        let missing := sx_nats (sx_nth o 2) in
        let present := filter (fun '(pos, _) => negb (existsb (Nat.eqb pos) missing)) (enumerate 0 ds) in
        if forallb (fun '(_, (ob, i)) => visible w (m_uploaded m) ob i) present then m else add_viol m [2]
      else m
  | OGfcStart tid p i ch =>
      if Z.eqb (ob_kind o) 1 then
        {| m_puts := m_puts m; m_gets := m_gets m; m_gfcs := (tid, (p, i, ch)) :: m_gfcs m;
           m_uploaded := m_uploaded m; m_corrupted := m_corrupted m; m_viol := m_viol m |}
      else if ob_ok o then add_viol m (check_read w m ch i (ob_bytes o)) else m
  | OGfcSlice tid slices =>
      match assoc (m_gfcs m) tid with
      | Some (p, i, ch) =>
          let m' := {| m_puts := m_puts m; m_gets := m_gets m; m_gfcs := unassoc (m_gfcs m) tid;
                       m_uploaded := m_uploaded m; m_corrupted := m_corrupted m; m_viol := m_viol m |} in
          if ob_ok o then
            let v := (if negb (bytes_eqb (ob_bytes o) (content w ch))
                         && (c_validate (w_cfg w) || negb (m_corrupted m)) then [1] else []) ++
                     (if visible w (m_uploaded m) p i then [] else [2]) in
            let m'' := add_viol m' v in
            {| m_puts := m_puts m''; m_gets := m_gets m''; m_gfcs := m_gfcs m'';
               m_uploaded := (if c_hier (w_cfg w) then [] else map (fun s => (fst s, i)) slices) ++ m_uploaded m'';
               m_corrupted := m_corrupted m''; m_viol := m_viol m'' |}
          else m'
      | None => m
      end
  | OCorrupt _ _ _ =>
      {| m_puts := m_puts m; m_gets := m_gets m; m_gfcs := m_gfcs m; m_uploaded := m_uploaded m;
         m_corrupted := true; m_viol := m_viol m |}
  end.

Fixpoint mon01_run (w : world) (m : m01) (es : list op) (os : list sx) : m01 :=
  match es, os with
  | e :: es', o :: os' => mon01_run w (mon01_step w m e o) es' os'
  | _, _ => m
  end.

Fixpoint dedupZ (l : list Z) : list Z :=
  match l with
  | [] => []
  | x :: t => if existsb (Z.eqb x) t then dedupZ t else x :: dedupZ t
  end.

Definition mon01 (inp obs : sx) : list Z :=
  let w := dec_world inp in
  dedupZ (m_viol (mon01_run w {| m_puts := []; m_gets := []; m_gfcs := []; m_uploaded := [];
                                 m_corrupted := false; m_viol := [] |} (dec_ops inp) (sx_list obs))).

Definition judge01 (inp obs : sx) : sx := judge_store mon01 inp obs.
