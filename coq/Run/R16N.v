(** C16N (sub-check of C16): sx interface of the model of NESTED error
    handling (Buffer/EHNest.v): decoders, run, monitor, judge.

    input  = (srcK (fn hash size) tree method table object)
      tree   (0 (event...)) | (1 attach (event...)) | (2 bytes) | (3 code)     plain buffers as in C16
             | (4 tree (answer...))      WithErrorHandler(tree, handler with that script)
      answer (0 tree) OnError returns that buffer | (1 code) OnError returns an error
      object the content the case is about (the monitor's clauses on content apply
             when every plain buffer of the tree carries it)
      event, method, table, srcK as in C09 (Run/R09.v)
    obs    = (delivered code (extra codes) (callback verdicts) aux otree)
      otree  (0 closes)                         a plain buffer that was created: Close() count of its source
             | (1 (OnError argument codes) dones (otree...))
                                                a handler: what it was offered, its Done() count, the buffers
                                                it has held: the one it was applied to, then every replacement
                                                it returned, in that order *)
From BBS Require Import Common.Sx Buffer.Source Buffer.Validate Buffer.Convert Buffer.ErrHandler Buffer.EHNest
  Run.R09 Run.R16.
Open Scope Z_scope.

Fixpoint dec_tree (fuel : nat) (s : sx) : nbuf :=
  match fuel with
  | O => NB (BError 2)
  | S f =>
      match s with
      | L [A 4; inner; L anss] =>
          NW (dec_tree f inner)
             (fold_right (fun a r => match a with
                                     | L [A 0; b] => ARep (dec_tree f b) r
                                     | L [A 1; A c] => AFail c r
                                     | _ => AFail 2 r
                                     end) ANil anss)
      | _ => NB (dec_buf s)
      end
  end.

Fixpoint tree_fuel (t : nbuf) : nat :=
  match t with
  | NB b => buf_fuel b
  | NW inner ans => (4 + tree_fuel inner + ans_fuelN ans)%nat
  end
with ans_fuelN (a : nanss) : nat :=
  match a with
  | ANil => 0%nat
  | ARep b r => (4 + tree_fuel b + ans_fuelN r)%nat
  | AFail _ r => (4 + ans_fuelN r)%nat
  end.

Fixpoint enc_otree (o : otree) : sx :=
  match o with
  | OLeaf n => L [A 0; of_nat n]
  | ONode offs d kids => L [A 1; L (map enc_err offs); of_nat d; L (map enc_otree kids)]
  end.
Definition enc_outN (report : bool) (o : outN) : sx :=
  L [of_Ns (z_data o); enc_err (z_err o); L (map enc_err (z_extra o));
     L (if report then map of_bool (z_cbs o) else []); of_Ns (z_aux o); enc_otree (z_tree o)].

Definition tree_depth_bound : nat := 64.
Record case16N := mkCase16N {
  n_report : bool; n_cfg : vcfg; n_tree : nbuf; n_meth : meth; n_tbl : list (bytes * bytes); n_obj : bytes
}.
Definition dec_case16N (inp : sx) : case16N :=
  let d := sx_nth inp 1 in
  let report := sx_bool (sx_nth inp 0) in
  mkCase16N report (mkVcfg (dec_bytes (sx_nth d 1)) (sx_N (sx_nth d 2)) (if report then 13 else 3))
            (dec_tree tree_depth_bound (sx_nth inp 2)) (dec_meth (sx_nth inp 3)) (dec_table (sx_nth inp 4))
            (dec_bytes (sx_nth inp 5)).

Definition out16N (inp : sx) : outN :=
  let c := dec_case16N inp in
  run_tree (lookup (n_tbl c)) (n_cfg c) (16 + tree_fuel (n_tree c)) (n_tree c) (n_meth c).
Definition run16N (inp : sx) : sx := enc_outN (n_report (dec_case16N inp)) (out16N inp).

(** * Monitor: the property on the implementation's observation.

    The observed tree, with error codes. *)
Inductive ctree :=
| TLeaf (closes : Z)
| TNode (offers : list Z) (dones : Z) (kids : list ctree).
Fixpoint dec_ctree (fuel : nat) (s : sx) : ctree :=
  match fuel with
  | O => TLeaf 0
  | S f =>
      match s with
      | L [A 1; offs; A d; L kids] => TNode (sx_Zs offs) d (map (dec_ctree f) kids)
      | L [A 0; A n] => TLeaf n
      | _ => TLeaf 0
      end
  end.

(** every handler that exists has been told exactly once that its buffer is finished *)
Fixpoint t_done1 (o : ctree) : bool :=
  match o with
  | TLeaf _ => true
  | TNode _ d kids => (d =? 1) && forallb t_done1 kids
  end.

Fixpoint ans_list (a : nanss) : list nanswer :=
  match a with
  | ANil => []
  | ARep b r => NReplace b :: ans_list r
  | AFail c r => NFailWith c :: ans_list r
  end.
(** the error a handler has returned, given its script and the number of offers:
    its answer to the last offer (a handler without further answers says ABORTED) *)
Definition returnedN (ans : nanss) (j : nat) : option Z :=
  match j with
  | O => None
  | S j' => match nth_error (ans_list ans) j' with
            | Some (NFailWith c) => Some c
            | None => Some 10
            | Some (NReplace _) => None
            end
  end.

(** [e] is the I/O error with which a plain buffer read as a stream fails: the
    error its script ends with (a byte slice: INVALID_ARGUMENT when it is opened
    beyond its end) *)
Definition leaf_fin (b : bufscript) (e : Z) : bool :=
  match b with
  | BChunk evs | BReader evs _ => match snd (content evs) with ECode c => e =? c | _ => false end
  | BBytes _ => e =? 3
  | BError c => e =? c
  end.

(** [fin ex stream t o e]: [e] is the error with which the buffer [t], observed as
    [o], has failed towards the handler that holds it: for a wrapped buffer
    the error ITS handler returned; for a plain buffer read as a stream the
    I/O error of its script (for whole-operation retries a plain buffer's
    error may also be a validation error: not constrained).  [ex]: errors
    that are accepted from anybody (the monitor: none; the theorems on the
    model: the model's out-of-fuel marker). *)
Definition fin (ex : Z -> bool) (stream : bool) (t : nbuf) (o : ctree) (e : Z) : bool :=
  ex e ||
  match t, o with
  | NB b, TLeaf _ => if stream then leaf_fin b e else true
  | NW _ ans, TNode offs _ _ => match returnedN ans (length offs) with Some c => e =? c | None => false end
  | _, _ => false
  end.

(** The offering rule on the whole tree: the observation has the shape of the
    script (a handler has held the buffer it was applied to and then one
    replacement per replacement answer consumed); every error a handler is
    offered is the error with which the buffer it holds at that moment has
    failed: the I/O error of a plain buffer goes to the innermost enclosing
    handler, the error a handler returns is what the enclosing handler is
    offered, nothing else is. *)
Fixpoint chk (ex : Z -> bool) (s : bool) (t : nbuf) (o : ctree) : bool :=
  match t, o with
  | NB _, TLeaf _ => true
  | NW inner ans, TNode offers _ (o0 :: kids) =>
      chk ex s inner o0 && walk ex s ans (fin ex s inner o0) offers kids
  | _, _ => false
  end
with walk (ex : Z -> bool) (s : bool) (ans : nanss) (fe : Z -> bool) (offers : list Z) (kids : list ctree) : bool :=
  match offers with
  | [] => match kids with [] => true | _ => false end
  | e :: offers' =>
      fe e &&
      match ans with
      | ARep t' r =>
          match kids with
          | o' :: kids' => chk ex s t' o' && walk ex s r (fin ex s t' o') offers' kids'
          | [] => false
          end
      | AFail _ r => walk ex s r fe offers' kids
      | ANil => forallb fe offers' && match kids with [] => true | _ => false end
      end
  end.
Definition no_ex (e : Z) : bool := false.

(** every plain buffer of the tree carries the object [C] (decidable form of
    [carries_full]); readers that attach EOF to data have clean scripts *)
Fixpoint cleanb (evs : list ev) : bool :=
  match evs with
  | [] => true
  | Chunk _ :: r => cleanb r
  | Eof :: r => match r with [] => true | _ => false end
  | Err _ :: _ => false
  end.
Definition ccarb (C : bytes) (evs : list ev) : bool :=
  let '(c, t) := content evs in
  bytes_prefix c C && (negb (err_eqb t EEof) || (lenN c =? lenN C)%N).
Definition leaf_ok (C : bytes) (b : bufscript) : bool :=
  match b with
  | BChunk evs => ccarb C evs
  | BReader evs a => ccarb C evs && (negb a || cleanb evs)
  | BBytes d => bytes_eqb d C
  | BError _ => true
  end.
Fixpoint tree_ok (C : bytes) (t : nbuf) : bool :=
  match t with
  | NB b => leaf_ok C b
  | NW inner ans => tree_ok C inner && ans_ok C ans
  end
with ans_ok (C : bytes) (a : nanss) : bool :=
  match a with
  | ANil => true
  | ARep b r => tree_ok C b && ans_ok C r
  | AFail _ r => ans_ok C r
  end.

Definition streamingb (m : meth) : bool :=
  match m with MIntoWriter | MToChunkReader _ _ _ | MToReader _ _ => true | _ => false end.

(** the monitor on decoded data *)
Definition monN_data (t : nbuf) (m : meth) (C delivered : bytes) (code : Z) (ot : ctree) : list Z :=
  let pre := tree_ok C t && wrapped_ok t in
  let stream := streamingb m in
  (* 1: Done is reported exactly once to every handler that exists *)
  (if t_done1 ot then [] else [1]) ++
  (if is_discard m then [] else
   (* 2: the outermost handler's last answer was an error: that error is what the consumer gets *)
   (match t, ot with
    | NW _ ans, TNode offs _ _ =>
        match returnedN ans (length offs) with
        | Some c' => if pre && negb (code =? c') then [2] else []
        | None => []
        end
    | _, _ => []
    end) ++
   (* 3: completion: the consumer received exactly the expected slice of the object:
         every byte once, in order *)
   (if pre && completes m code && negb (bytes_eqb delivered (expected m C)) then [3] else []) ++
   (* 4: the offering rule at every handler of the tree *)
   (if pre && negb (chk no_ex stream t ot) then [4] else []) ++
   (* 7: whatever the outcome of a streaming method, the bytes handed out are a prefix of the
         expected slice: nothing duplicated, skipped or foreign *)
   (if pre && stream && negb (bytes_prefix delivered (expected m C)) then [7] else [])).

Definition mon16N (inp obs : sx) : list Z :=
  let c := dec_case16N inp in
  monN_data (n_tree c) (n_meth c) (n_obj c) (dec_bytes (sx_nth obs 0)) (sx_Z (sx_nth obs 1))
            (dec_ctree tree_depth_bound (sx_nth obs 5)).

(** The monitor the judge applies.  Clause 2 has one exception, the one [mon16] has
    too: when the digest states a size smaller than the object the tree carries, data
    handed over TOGETHER with the handler's error already exceeds that size, and a
    streaming consumer gets the Source's size-mismatch code instead of the handler's
    error ([casValidatingReader] looks at the size before it looks at the error) —
    proved to be what the model does ([monitor_clause_2_fires_on_the_model],
    Props/C16N.v) and replayed on the real code.  [mon16Nx] reports a subset of
    [mon16N], so every silence theorem about [mon16N] carries over
    ([mon16Nx_incl], Props/C16N.v). *)
Definition toolong16N (inp obs : sx) : bool :=
  let c := dec_case16N inp in
  streamingb (n_meth c) && (sx_Z (sx_nth obs 1) =? g_code (n_cfg c)) && (g_size (n_cfg c) <? lenN (n_obj c))%N.
Definition mon16Nx (inp obs : sx) : list Z :=
  let v := mon16N inp obs in
  if toolong16N inp obs then filter (fun z => negb (z =? 2)) v else v.

Definition judge16N (inp obs : sx) : sx :=
  let m := run16N inp in
  let v := mon16Nx inp obs in
  verdict (sx_eqb m obs) (negb (match v with [] => true | _ => false end)) m (of_Zs v).
