(** C19: sx interface of the models (decoders, run, monitor, judge).

    Input kinds
      (0 ops)                 trie history; op = (0 name v) Set | (1 name) Remove | (2 name) GetExact
                              | (3 name) GetLongestPrefix | (4 name) ContainsPrefix | (5 name) ContainsExact
      (1 old new i blob)      patcher: NewInstanceNamePatcher(old,new) applied to name i / digest (i,blob)
      (2 cfg backends ops)    demultiplexer; cfg entry = (prefix newprefix); backend = (present fault);
                              op = (0 d) Get | (1 p c) GetFromComposite | (2 d) Put | (3 (d...)) FindMissing
      (3 backend ops)         hierarchical decorator; backend = (present errnames fmfaults);
                              op = (0 d) Get | (1 inst pblob cblob) GetFromComposite | (3 (d...)) FindMissing
    names/strings are byte lists, digests are (inst blob).
    Observation of kinds 2,3: one (code data calls) per op. *)
From BBS Require Import Common.Sx Routing.Names Routing.Trie Routing.Patcher Routing.Demux Routing.HierNames.
Open Scope Z_scope.

Definition dec_str (s : sx) : str := sx_Ns s.
Definition dec_dg (s : sx) : digest := (dec_str (sx_nth s 0), sx_N (sx_nth s 1)).
Definition dec_dgs (s : sx) : list digest := map dec_dg (sx_list s).
Definition enc_str (s : str) : sx := of_Ns s.
Definition enc_dg (d : digest) : sx := L [enc_str (fst d); of_N (snd d)].
Definition enc_dgs (l : list digest) : sx := L (map enc_dg l).
Definition canon_sx (s : sx) : sx := enc_dgs (canon (dec_dgs s)).
Definition panic_obs : sx := L [A (-1)].
Definition is_nil {T} (l : list T) : bool := match l with [] => true | _ => false end.

(** ------------------------------------------------------------------ trie *)

Fixpoint run_trie (ops : list sx) (t : trie) : option (list sx) :=
  match ops with
  | [] => Some []
  | o :: r =>
      let n := split (dec_str (sx_nth o 1)) in
      match sx_Z (sx_nth o 0) with
      | 0 => option_map (cons (A 0)) (run_trie r (set t n (sx_Z (sx_nth o 2))))
      | 1 => match remove t n with
             | Ok (t', b) => option_map (cons (of_bool b)) (run_trie r t')
             | _ => None
             end
      | 2 => option_map (cons (A (get_exact t n))) (run_trie r t)
      | 3 => option_map (cons (A (get_longest_prefix t n))) (run_trie r t)
      | 4 => option_map (cons (of_bool (contains_prefix t n))) (run_trie r t)
      | _ => option_map (cons (of_bool (contains_exact t n))) (run_trie r t)
      end
  end.

(** Monitor: the property on an association list; no trie involved.
    Clauses: 1 longest-prefix lookup wrong, 2 exact lookup / membership wrong,
    3 Remove's "became empty" wrong.  Monitoring stops at a Set of a negative
    value (outside the contract: values are backend indices). *)
Fixpoint mon_trie (ops obs : list sx) (m : list (name * Z)) : list Z :=
  match ops, obs with
  | o :: r, x :: xs =>
      let n := split (dec_str (sx_nth o 1)) in
      match sx_Z (sx_nth o 0) with
      | 0 => let v := sx_Z (sx_nth o 2) in
             if v <? 0 then [] else mon_trie r xs (assoc_set m n v)
      | 1 => let m' := assoc_remove m n in
             (if Bool.eqb (sx_bool x) (is_nil m') then [] else [3]) ++ mon_trie r xs m'
      | 2 => (if sx_Z x =? assoc_get m n then [] else [2]) ++ mon_trie r xs m
      | 3 => (if sx_Z x =? longest_prefix_value m n then [] else [1]) ++ mon_trie r xs m
      | 4 => (if Bool.eqb (sx_bool x) (has_prefix m n) then [] else [2]) ++ mon_trie r xs m
      | _ => (if Bool.eqb (sx_bool x) (0 <=? assoc_get m n) then [] else [2]) ++ mon_trie r xs m
      end
  | _, _ => []
  end.

(** --------------------------------------------------------------- patcher *)

Definition run_patcher (inp : sx) : sx :=
  let p := new_patcher (dec_str (sx_nth inp 1)) (dec_str (sx_nth inp 2)) in
  let i := dec_str (sx_nth inp 3) in
  let d := (i, sx_N (sx_nth inp 4)) in
  let pd := patch_digest p d in
  let ud := unpatch_digest p pd in
  L [enc_str (patch_name p i); enc_dg pd; enc_dg ud].

(** 4: patched name is not new ++ rest;  5: unpatching does not restore the digest *)
Definition mon_patcher (inp obs : sx) : list Z :=
  let old := split (dec_str (sx_nth inp 1)) in
  let new := split (dec_str (sx_nth inp 2)) in
  let i := dec_str (sx_nth inp 3) in
  let blob := sx_N (sx_nth inp 4) in
  if name_ok old && name_ok new && name_ok (split i) && is_prefix old (split i) then
    let want := join (new ++ skipn (length old) (split i)) in
    (if str_eqb (dec_str (sx_nth obs 0)) want && dg_eqb (dec_dg (sx_nth obs 1)) (want, blob) then [] else [4]) ++
    (if dg_eqb (dec_dg (sx_nth obs 2)) (i, blob) then [] else [5])
  else [].

(** ----------------------------------------------------------------- demux *)

Definition ddata := (nat * digest)%type.
Definition dec_cfg (s : sx) : list centry :=
  map (fun e => (dec_str (sx_nth e 0), dec_str (sx_nth e 1))) (sx_list s).

(** oracle of backend number [i] described by (present fault) *)
Definition mk_backend (i : nat) (s : sx) : backend ddata :=
  let present := dec_dgs (sx_nth s 0) in
  let fault := sx_Z (sx_nth s 1) in
  {| b_get := fun d => if negb (fault =? 0) then Err fault
                       else if dg_mem d present then Ok (i, d) else Err NOT_FOUND;
     b_gfc := fun p c => if negb (fault =? 0) then Err fault
                         else if dg_mem p present then Ok (i, c) else Err NOT_FOUND;
     b_put := fun _ => fault;
     b_fm := fun ds => if negb (fault =? 0) then Err fault
                       else Ok (filter (fun d => negb (dg_mem d present)) ds) |}.
Fixpoint mk_backends (i : nat) (l : list sx) : list (backend ddata) :=
  match l with [] => [] | s :: r => mk_backend i s :: mk_backends (S i) r end.

Definition enc_call (c : call) : sx :=
  match c with
  | CGet i d => L [of_nat i; A 0; enc_dgs [d]]
  | CGfc i p c => L [of_nat i; A 1; enc_dgs [p; c]]
  | CPut i d => L [of_nat i; A 2; enc_dgs [d]]
  | CFm i ds => L [of_nat i; A 3; enc_dgs ds]
  end.
Definition enc_data (r : outcome ddata) : sx * sx :=
  match r with
  | Ok (i, d) => (A 0, L [of_nat i; enc_str (fst d); of_N (snd d)])
  | Err e => (A e, L [])
  | Panic => (A (-1), L [])
  end.
Definition enc_op3 (code data : sx) (calls : list call) : sx := L [code; data; L (map enc_call calls)].

Definition run_demux_op (cfg : list centry) (bs : list (backend ddata)) (op : sx) : sx :=
  match sx_Z (sx_nth op 0) with
  | 0 => let '(r, calls) := demux_get cfg bs (dec_dg (sx_nth op 1)) in
         let '(c, d) := enc_data r in enc_op3 c d calls
  | 1 => let '(r, calls) := demux_gfc cfg bs (dec_dg (sx_nth op 1)) (dec_dg (sx_nth op 2)) in
         let '(c, d) := enc_data r in enc_op3 c d calls
  | 2 => let '(r, calls) := demux_put cfg bs (dec_dg (sx_nth op 1)) in
         match r with
         | Ok (code, discarded) => enc_op3 (A code) (L [A (if discarded then 2 else 1)]) calls
         | _ => enc_op3 (A (-1)) (L []) calls
         end
  | _ => let '(r, calls) := demux_fm cfg bs (dec_dgs (sx_nth op 1)) in
         match r with
         | Ok ms => enc_op3 (A 0) (enc_dgs ms) calls
         | Err e => enc_op3 (A e) (L []) calls
         | Panic => enc_op3 (A (-1)) (L []) calls
         end
  end.

(** spec-level rewriting: new ++ (name minus the matched prefix) *)
Definition rewrite (cfg : list centry) (o : nat) (inst : str) : str :=
  match nth_error cfg o with
  | Some e => join (split (snd e) ++ skipn (length (split (fst e))) (split inst))
  | None => inst
  end.
Definition restore (cfg : list centry) (o : nat) (inst : str) : str :=
  match nth_error cfg o with
  | Some e => join (split (fst e) ++ skipn (length (split (snd e))) (split inst))
  | None => inst
  end.
Definition rw_dg (cfg : list centry) (o : nat) (d : digest) : digest := (rewrite cfg o (fst d), snd d).
Definition bfault (bsx : list sx) (o : nat) : Z := sx_Z (sx_nth (nth o bsx (L [])) 1).
Definition bpresent (bsx : list sx) (o : nat) : list digest := dec_dgs (sx_nth (nth o bsx (L [])) 0).

Definition call_idx (c : sx) : nat := sx_nat (sx_nth c 0).
Definition call_kind (c : sx) : Z := sx_Z (sx_nth c 1).
Definition call_dgs (c : sx) : list digest := dec_dgs (sx_nth c 2).
Definition dgs_eqb (a b : list digest) : bool := sx_eqb (enc_dgs a) (enc_dgs b).
Definition subset (a b : list digest) : bool := forallb (fun d => dg_mem d b) a.
Fixpoint nodup_nat (l : list nat) : bool :=
  match l with [] => true | x :: r => negb (existsb (Nat.eqb x) r) && nodup_nat r end.

(** Monitor of one demultiplexer operation.  Clauses:
    6 unknown instance name not rejected with InvalidArgument before any backend call
    7 operation not sent to (exactly) the owning backend with the prefix rewritten
    8 result is not the owning backend's answer
    9 FindMissing result is not the union of the owners' answers in the caller's names
    10 a backend was asked about digests that are not its own (or asked twice) *)
Definition mon_demux_op (cfg : list centry) (bsx : list sx) (op ob : sx) : list Z :=
  let code := sx_Z (sx_nth ob 0) in
  let data := sx_nth ob 1 in
  let calls := sx_list (sx_nth ob 2) in
  let single (kind : Z) (d : digest) (others : list digest) :=
    let o := owner cfg (fst d) in
    if o <? 0 then (if (code =? INVALID_ARGUMENT) && is_nil calls then [] else [6])
    else
      let i := Z.to_nat o in
      let want := map (rw_dg cfg i) (d :: others) in
      let sent_ok := match calls with
                     | [c] => Nat.eqb (call_idx c) i && (call_kind c =? kind) && dgs_eqb (call_dgs c) want
                     | _ => false
                     end in
      (if sent_ok then [] else [7]) ++
      (let f := bfault bsx i in
       let has := dg_mem (rw_dg cfg i d) (bpresent bsx i) in
       match kind with
       | 2 => if code =? f then [] else [8]
       | _ =>
           if negb (f =? 0) then (if code =? f then [] else [8])
           else if has then
             (if (code =? 0) && sx_eqb data (let r := last want d in L [of_nat i; enc_str (fst r); of_N (snd r)])
              then [] else [8])
           else (if code =? NOT_FOUND then [] else [8])
       end)
  in
  match sx_Z (sx_nth op 0) with
  | 0 => single 0 (dec_dg (sx_nth op 1)) []
  | 1 => let p := dec_dg (sx_nth op 1) in
         let c := dec_dg (sx_nth op 2) in
         (* the child is rewritten with the parent's patcher; specified only when it carries the same name *)
         if str_eqb (fst p) (fst c) then single 1 p [c] else []
  | 2 => single 2 (dec_dg (sx_nth op 1)) []
  | _ =>
      let ds := canon (dec_dgs (sx_nth op 1)) in
      if existsb (fun d => owner cfg (fst d) <? 0) ds
      then (if (code =? INVALID_ARGUMENT) && is_nil calls then [] else [6])
      else
        let own (d : digest) := Z.to_nat (owner cfg (fst d)) in
        let owners := map own ds in
        let faulty := existsb (fun i => negb (bfault bsx i =? 0)) owners in
        (* 10: every call goes to an owner, about rewritten digests it owns only, at most once each *)
        (if forallb (fun c => (call_kind c =? 3)
                              && subset (call_dgs c)
                                        (map (rw_dg cfg (call_idx c))
                                             (filter (fun d => Nat.eqb (own d) (call_idx c)) ds))) calls
            && nodup_nat (map call_idx calls)
         then [] else [10]) ++
        (if faulty then
           (if existsb (fun i => (code =? bfault bsx i) && negb (code =? 0)) owners then [] else [8])
         else
           let want := canon (filter (fun d => negb (dg_mem (rw_dg cfg (own d) d) (bpresent bsx (own d)))) ds) in
           if (code =? 0) && dgs_eqb (canon (dec_dgs data)) want
              && forallb (fun i => existsb (fun c => Nat.eqb (call_idx c) i) calls) owners
           then [] else [9])
  end.

(** normal form of an observation of one op: digest lists of FindMissing
    canonical, FindMissing calls ordered by backend index *)
Fixpoint ins_call (c : sx) (l : list sx) : list sx :=
  match l with
  | [] => [c]
  | h :: t => if Nat.leb (call_idx c) (call_idx h) then c :: l else h :: ins_call c t
  end.
Definition norm_fm_obs (ob : sx) : sx :=
  L [sx_nth ob 0; canon_sx (sx_nth ob 1);
     L (fold_right ins_call [] (map (fun c => L [sx_nth c 0; sx_nth c 1; canon_sx (sx_nth c 2)])
                                    (sx_list (sx_nth ob 2))))].

(** FindMissing ranges over a Go map: with a failing backend, which backends
    were asked before the failure is unspecified.  Accept: calls are among the
    calls of the fault-free run, exactly one of them went to a faulty backend,
    whose code is returned. *)
Definition no_fault (s : sx) : sx := L [sx_nth s 0; A 0].
Definition agree_demux_op (cfg : list centry) (bsx : list sx) (op ob : sx) : bool :=
  let bs := mk_backends 0 bsx in
  let m := run_demux_op cfg bs op in
  match sx_Z (sx_nth op 0) with
  | 0 | 1 | 2 => sx_eqb m ob
  | _ =>
      let mn := norm_fm_obs m in
      let on := norm_fm_obs ob in
      if sx_eqb (sx_nth m 0) (A 0) || is_nil (sx_list (sx_nth m 2)) then sx_eqb mn on
      else
        let full := norm_fm_obs (run_demux_op cfg (mk_backends 0 (map no_fault bsx)) op) in
        let ocalls := sx_list (sx_nth on 2) in
        let bad := filter (fun c => negb (bfault bsx (call_idx c) =? 0)) ocalls in
        forallb (fun c => existsb (sx_eqb c) (sx_list (sx_nth full 2))) ocalls
        && nodup_nat (map call_idx ocalls)
        && match bad with
           | [c] => sx_Z (sx_nth on 0) =? bfault bsx (call_idx c)
           | _ => false
           end
        && is_nil (sx_list (sx_nth on 1))
  end.

(** ------------------------------------------------------------------ hier *)

Fixpoint err_of (errnames : list sx) (inst : str) : Z :=
  match errnames with
  | [] => 0
  | e :: r => if str_eqb (dec_str (sx_nth e 0)) inst then sx_Z (sx_nth e 1) else err_of r inst
  end.
Definition hb_get (b : sx) (d : digest) : outcome digest :=
  let e := err_of (sx_list (sx_nth b 1)) (fst d) in
  if negb (e =? 0) then Err e
  else if dg_mem d (dec_dgs (sx_nth b 0)) then Ok d else Err NOT_FOUND.
Definition hb_gfc (b : sx) (p c : digest) : outcome digest :=
  match hb_get b p with Ok _ => Ok c | Err e => Err e | Panic => Panic end.
Definition hb_fm (b : sx) (k : nat) (ds : list digest) : outcome (list digest) :=
  let f := sx_Z (nth k (sx_list (sx_nth b 2)) (A 0)) in
  if negb (f =? 0) then Err f
  else Ok (filter (fun d => negb (dg_mem d (dec_dgs (sx_nth b 0)))) ds).

Definition enc_hdata (r : outcome digest) : sx * sx :=
  match r with
  | Ok d => (A 0, enc_dg d)
  | Err e => (A e, L [])
  | Panic => (A (-1), L [])
  end.

Definition run_hier_op (b : sx) (op : sx) : sx :=
  match sx_Z (sx_nth op 0) with
  | 0 => let '(r, asked) := hier_get (hb_get b) (dec_dg (sx_nth op 1)) in
         let '(c, d) := enc_hdata r in L [c; d; enc_dgs asked]
  | 1 => let inst := dec_str (sx_nth op 1) in
         let '(r, asked) := hier_gfc (hb_gfc b) (inst, sx_N (sx_nth op 2)) (inst, sx_N (sx_nth op 3)) in
         let '(c, d) := enc_hdata r in
         L [c; d; L (map (fun pc => enc_dgs [fst pc; snd pc]) asked)]
  | _ => let '(r, asked) := hier_fm (hb_fm b) (dec_dgs (sx_nth op 1)) in
         match r with
         | Ok ms => L [A 0; enc_dgs ms; L (map enc_dgs asked)]
         | Err e => L [A e; L []; L (map enc_dgs asked)]
         | Panic => L [A (-1); L []; L (map enc_dgs asked)]
         end
  end.

(** spec: ancestors-or-self of a digest, most specific first *)
Definition ancestors (d : digest) : list digest :=
  map (fun p => (join p, snd d)) (rev (prefixes (split (fst d)))).
(** Clauses: 11 Get did not return the object of the most specific ancestor that has it
    (or NOT_FOUND although an ancestor has it, or swallowed another error);
    12 GetFromComposite likewise; 13 FindMissing result is not "missing under the name
    and all its ancestors"; 14 FindMissing failed with a code no backend call produced. *)
Definition mon_hier_op (b : sx) (op ob : sx) : list Z :=
  let code := sx_Z (sx_nth ob 0) in
  let data := sx_nth ob 1 in
  match sx_Z (sx_nth op 0) with
  | 0 => match first_answer (hb_get b) (ancestors (dec_dg (sx_nth op 1))) with
         | Ok a => if (code =? 0) && sx_eqb data (enc_dg a) then [] else [11]
         | Err e => if code =? e then [] else [11]
         | Panic => []
         end
  | 1 => let inst := dec_str (sx_nth op 1) in
         match first_answer (hb_get b) (ancestors (inst, sx_N (sx_nth op 2))) with
         | Ok a => if (code =? 0) && sx_eqb data (enc_dg (fst a, sx_N (sx_nth op 3))) then [] else [12]
         | Err e => if code =? e then [] else [12]
         | Panic => []
         end
  | _ =>
      let faults := map sx_Z (sx_list (sx_nth b 2)) in
      let ncalls := length (sx_list (sx_nth ob 2)) in
      if code =? 0 then
        if existsb (fun f => negb (f =? 0)) (firstn ncalls faults) then [14]
        else
          let present := dec_dgs (sx_nth b 0) in
          let want := canon (filter (fun d => forallb (fun a => negb (dg_mem a present)) (ancestors d))
                                    (dec_dgs (sx_nth op 1))) in
          if dgs_eqb (canon (dec_dgs data)) want then [] else [13]
      else (if existsb (fun f => f =? code) faults then [] else [14])
  end.

Definition norm_hier_obs (op ob : sx) : sx :=
  match sx_Z (sx_nth op 0) with
  | 0 | 1 => ob
  | _ => L [sx_nth ob 0; canon_sx (sx_nth ob 1); L (map canon_sx (sx_list (sx_nth ob 2)))]
  end.

(** ----------------------------------------------------------------- glue *)

Definition run19 (inp : sx) : sx :=
  match sx_Z (sx_nth inp 0) with
  | 0 => match run_trie (sx_list (sx_nth inp 1)) empty_trie with
         | Some l => L l
         | None => panic_obs
         end
  | 1 => run_patcher inp
  | 2 => let cfg := dec_cfg (sx_nth inp 1) in
         let bs := mk_backends 0 (sx_list (sx_nth inp 2)) in
         L (map (run_demux_op cfg bs) (sx_list (sx_nth inp 3)))
  | _ => L (map (run_hier_op (sx_nth inp 1)) (sx_list (sx_nth inp 2)))
  end.

Fixpoint zip_with {X Y Z} (f : X -> Y -> Z) (a : list X) (b : list Y) : list Z :=
  match a, b with
  | x :: a', y :: b' => f x y :: zip_with f a' b'
  | _, _ => []
  end.

Definition mon19 (inp obs : sx) : list Z :=
  match sx_Z (sx_nth inp 0) with
  | 0 => mon_trie (sx_list (sx_nth inp 1)) (sx_list obs) []
  | 1 => mon_patcher inp obs
  | 2 => let cfg := dec_cfg (sx_nth inp 1) in
         let bsx := sx_list (sx_nth inp 2) in
         concat (zip_with (mon_demux_op cfg bsx) (sx_list (sx_nth inp 3)) (sx_list obs))
  | _ => concat (zip_with (mon_hier_op (sx_nth inp 1)) (sx_list (sx_nth inp 2)) (sx_list obs))
  end.

Definition agree19 (inp obs : sx) : bool :=
  match sx_Z (sx_nth inp 0) with
  | 2 => let cfg := dec_cfg (sx_nth inp 1) in
         let bsx := sx_list (sx_nth inp 2) in
         let ops := sx_list (sx_nth inp 3) in
         Nat.eqb (length ops) (length (sx_list obs))
         && forallb (fun b => b) (zip_with (agree_demux_op cfg bsx) ops (sx_list obs))
  | 3 => let ops := sx_list (sx_nth inp 2) in
         Nat.eqb (length ops) (length (sx_list obs))
         && forallb (fun b => b)
              (zip_with (fun op ob => sx_eqb (norm_hier_obs op (run_hier_op (sx_nth inp 1) op)) (norm_hier_obs op ob))
                        ops (sx_list obs))
  | _ => sx_eqb (run19 inp) obs
  end.

Definition judge19 (inp obs : sx) : sx :=
  let v := mon19 inp obs in
  verdict (agree19 inp obs) (negb (is_nil v)) (run19 inp) (of_Zs v).
