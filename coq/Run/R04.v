(** C04 monitor: buffers released exactly once, no reader or block space
    stays pinned after the operations that used it returned. *)
From BBS Require Import Common.Sx Store.Model Run.RStore Run.R01.
Open Scope Z_scope.

(** [open_tids] = operations currently parked, judged from the observations *)
Definition m04_step (acc : list nat * list Z) (x : op * (state * state * out) * sx) : list nat * list Z :=
  let '(e, (s0, s1, mo), o) := x in
  let '(opened, viol) := acc in
  let parks tid := if Z.eqb (ob_kind o) 1 then tid :: opened else opened in
  let finishes tid := if Z.eqb (ob_kind o) 0 then filter (fun t => negb (Nat.eqb t tid)) opened else opened in
  let opened' :=
    match e with
    | OPutStart tid _ _ | OGetOpen tid _ _ | OGfcStart tid _ _ _ => parks tid
    | OPutChunk tid _ | OPutEnd tid _ | OGetConsume tid | OGfcSlice tid _ => finishes tid
    | _ => opened
    end in
  let put_done := match e with
                  | OPutStart _ _ _ | OPutChunk _ _ | OPutEnd _ _ => Z.eqb (ob_kind o) 0
                  | _ => false
                  end in
  (* 1: an upload's buffer must be released exactly once when Put returns *)
  let v1 := if put_done && negb (Z.eqb (ob_srcclosed o) 1) then [1] else [] in
  let quiescent := match opened' with [] => negb (Z.eqb (ob_kind o) 3) | _ => false end in
  (* 2: no reader stays open once every operation has returned *)
  let v2 := if quiescent && (0 <? ob_open o) then [2] else [] in
  (* 3: once every operation has returned, no block beyond those listed stays allocated *)
  let v3 := if quiescent && (0 <=? ob_live o) && (Z.of_nat (length (s_blocks s1)) <? ob_live o) then [3] else [] in
  (opened', viol ++ v1 ++ v2 ++ v3).

Definition mon04 (inp obs : sx) : list Z :=
  let w := dec_world inp in
  let es := dec_ops inp in
  let sts := run_states w (init_state (w_cfg w)) es in
  dedupZ (snd (fold_left m04_step (combine (combine es sts) (sx_list obs)) ([], []))).

Definition judge04 (inp obs : sx) : sx := judge_store mon04 inp obs.
