(** C14A (sub-check of C14): sx interface for Action Cache histories through
    the client and the server (harness/c14a.go).

    Input: (ops), op = (kind inst fn len hi size val)
      kind 0 Put through the client      1 Get through the client
           2 UpdateActionResult (raw)    3 GetActionResult (raw)
    Observation: (results final), result = (code val reqs),
      reqs = ((bop inst fn len hi size) ...) the backend's requests,
      final = ((inst fn len hi size val) ...). *)
From BBS Require Import Common.Sx Rpc.ActionCache Run.R14.

(** instance names of the harness: indices 0-3 are valid names, 4 is not *)
Definition inst_ok14 (i : Z) : bool := (0 <=? i) && (i <=? 3).

Definition dec_key (op : sx) : ackey :=
  mkK (sx_Z (sx_nth op 1)) (sx_Z (sx_nth op 2)) (sx_Z (sx_nth op 3)) (sx_Z (sx_nth op 4)) (sx_Z (sx_nth op 5)).
Definition enc_key (k : ackey) : list sx := [A (k_inst k); A (k_fn k); A (k_len k); A (k_hi k); A (k_size k)].
Definition enc_req (r : acreq) : sx := L (A (if fst r then 1 else 0) :: enc_key (snd r)).
Definition enc_res (r : acres) : sx := L [A (r_code r); A (r_val r); L (map enc_req (r_reqs r))].
Definition enc_store (s : acstore) : list sx := map (fun e => L (enc_key (fst e) ++ [A (snd e)])) s.

(** ** run *)
Definition ac_op (st : acstore) (op : sx) : acstore * acres :=
  let kind := sx_Z (sx_nth op 0) in
  let q := dec_key op in
  let v := sx_Z (sx_nth op 6) in
  if kind =? 0 then client_put inst_ok14 st q v
  else if kind =? 1 then (st, client_get inst_ok14 st q)
  else if kind =? 2 then server_update inst_ok14 st q v
  else (st, server_get inst_ok14 st q).

Fixpoint ac_ops (st : acstore) (ops : list sx) : acstore * list sx :=
  match ops with
  | [] => (st, [])
  | op :: ops' => let '(st', r) := ac_op st op in
                  let '(st'', rs) := ac_ops st' ops' in (st'', enc_res r :: rs)
  end.

Definition run14A (inp : sx) : sx :=
  let '(st, rs) := ac_ops [] (sx_list (sx_nth inp 0)) in
  L [L rs; L (enc_store st)].

(** ** agreement: results exactly, the final contents as a set *)
Definition agree14A (m res : sx) : bool :=
  sx_eqb (sx_nth res 0) (sx_nth m 0)
  && (length (sx_list (sx_nth res 1)) =? length (sx_list (sx_nth m 1)))%nat
  && sx_seteq (sx_list (sx_nth res 1)) (sx_list (sx_nth m 1)).

(** ** The monitor: client and server back to back behave like the backend
    they front — a map keyed by (instance name, digest function, hash, size).
    It keeps its own account of the Action Cache (from the Puts the
    implementation acknowledged, filed under the key THE CALLER NAMED) and
    uses neither [server_digest] nor [get_bare_function].

    The key an operation names: for the client (kinds 0, 1) the digest
    itself; for a raw request (kinds 2, 3) whose digest_function is UNKNOWN
    the legacy function (MD5, SHA1, SHA256, SHA384, SHA512) with that hash
    length.  A request names no key if the instance name is invalid, the
    function is unsupported (or none can be inferred), the hash length is not
    the function's, or the size is negative.

    1: a Get did not return exactly what was last Put under that key
       (NOT_FOUND if nothing was)
    2: the backend was not asked for exactly the key named (one request)
    3: a Put of a key failed
    4: a request naming no key was not rejected with INVALID_ARGUMENT, or reached the backend
    5: the final contents of the backend differ from the account / malformed observation *)
Definition legacy_fn (len : Z) : option Z :=
  find (fun f => match fn_len f with Some l => l =? len | None => false end) [1; 2; 3; 4; 5].

Definition mon_key (server : bool) (q : ackey) : option ackey :=
  let f := if server && (k_fn q =? 0) then legacy_fn (k_len q) else Some (k_fn q) in
  match f with
  | None => None
  | Some f =>
      if inst_ok14 (k_inst q)
         && match fn_len f with Some l => l =? k_len q | None => false end
         && (0 <=? k_size q)
      then Some (mkK (k_inst q) f (k_len q) (k_hi q) (k_size q)) else None
  end.

Definition is_nil {T} (l : list T) : bool := match l with [] => true | _ => false end.

Definition mon_ac_op (acct : acstore) (op r : sx) : list Z * acstore :=
  let kind := sx_Z (sx_nth op 0) in
  let code := sx_Z (sx_nth r 0) in
  let val := sx_Z (sx_nth r 1) in
  let server := negb ((kind =? 0) || (kind =? 1)) in
  let isput := (kind =? 0) || (kind =? 2) in
  match mon_key server (dec_key op) with
  | None => (cl (negb ((code =? cInvalidArgument) && is_nil (sx_list (sx_nth r 2)))) 4, acct)
  | Some k =>
      if isput then
        (cl (negb (code =? 0)) 3 ++ cl (negb (sx_eqb (sx_nth r 2) (L [enc_req (false, k)]))) 2,
         if code =? 0 then ac_put acct k (sx_Z (sx_nth op 6)) else acct)
      else
        let good := match ac_get acct k with
                    | Some v => (code =? 0) && (val =? v)
                    | None => (code =? cNotFoundAC) && (val =? 0)
                    end in
        (cl (negb good) 1 ++ cl (negb (sx_eqb (sx_nth r 2) (L [enc_req (true, k)]))) 2, acct)
  end.

Fixpoint mon_ac_ops (acct : acstore) (ops rs : list sx) : list Z * acstore :=
  match ops, rs with
  | [], [] => ([], acct)
  | op :: ops', r :: rs' =>
      let '(v, acct') := mon_ac_op acct op r in
      let '(vs, a) := mon_ac_ops acct' ops' rs' in (v ++ vs, a)
  | _, _ => ([5], acct)
  end.

Definition mon14A (inp res : sx) : list Z :=
  let '(vs, acct) := mon_ac_ops [] (sx_list (sx_nth inp 0)) (sx_list (sx_nth res 0)) in
  vs ++ cl (negb ((length (sx_list (sx_nth res 1)) =? length acct)%nat
                  && sx_seteq (sx_list (sx_nth res 1)) (enc_store acct))) 5.

Definition judge14A (inp obs : sx) : sx :=
  let m := run14A inp in
  let v := mon14A inp obs in
  verdict (agree14A m obs) (negb (is_nil v)) m (of_Zs v).
