(** C03, monitor versus model — part 1 (model side).

    Facts about the ghost history of Persist/Shutdown.v ([gstep], [grun]) in the
    form the bookkeeping of the monitor of Run/R03.v is measured against:
      - [gstep_gsh]: how ONE step of any kind can change the three cohorts
        (all acks / acks at the latest NotifySyncStarting / acks of the latest
        completed sync), the pending snapshots and the completed writes;
      - [gstep_acks_same]: only a finalizer changes the set of acks;
      - [psome]: a loop that is inside WritePersistentState has a pending
        snapshot, and it is the snapshot of the state being written
        (the converse of [ShutdownOrder.pend_ok]);
      - [G]: the invariants of every reachable state that the proofs use,
        closed under [grun]. *)
From Coq Require Import List NArith ZArith Bool Arith Lia.
From BBS Require Import Persist.PBL Persist.PBLProofs Persist.Syncer Persist.SyncerProofs
  Persist.Shutdown Persist.ShutdownProofs Persist.ShutdownOrder.
Import ListNotations.

(** ---- the shape of one ghost step ---- *)
Definition gsh (x x' : gsys) : Prop :=
  (g_syncing (gs_g x') = g_syncing (gs_g x) \/ g_syncing (gs_g x') = g_acks (gs_g x')) /\
  (g_synced (gs_g x') = g_synced (gs_g x) \/ g_synced (gs_g x') = g_syncing (gs_g x)) /\
  (forall t w, get_pend x' t = Some w -> get_pend x t = Some w \/ gw_cohort w = g_synced (gs_g x)) /\
  (forall w, In w (gs_writes x') -> In w (gs_writes x) \/ exists t, get_pend x t = Some w) /\
  (forall w, In w (gs_writes x) -> In w (gs_writes x')).

Lemma gsh_refl x : gsh x x.
Proof. unfold gsh. splits; auto. Qed.

Lemma get_pend_with_g x g t : get_pend (gs_with_g x g) t = get_pend x t.
Proof. destruct t; reflexivity. Qed.

Lemma gsh_with_g x g' :
  (g_syncing g' = g_syncing (gs_g x) \/ g_syncing g' = g_acks g') ->
  (g_synced g' = g_synced (gs_g x) \/ g_synced g' = g_syncing (gs_g x)) ->
  gsh x (gs_with_g x g').
Proof.
  intros H1 H2. unfold gsh. cbn [gs_with_g gs_g gs_writes]. splits; auto;
  intros t w; rewrite get_pend_with_g; auto.
Qed.

Lemma gsh_intro x x' : gs_g x' = gs_g x ->
  (forall t w, get_pend x' t = Some w -> get_pend x t = Some w \/ gw_cohort w = g_synced (gs_g x)) ->
  (forall w, In w (gs_writes x') -> In w (gs_writes x) \/ exists t, get_pend x t = Some w) ->
  (forall w, In w (gs_writes x) -> In w (gs_writes x')) -> gsh x x'.
Proof.
  intros Hg H1 H2 H3. unfold gsh. rewrite Hg. split; [left; reflexivity|]. split; [left; reflexivity|].
  split; [exact H1|]. split; [exact H2|exact H3].
Qed.

Lemma gsh_gw_step t w a s s' x : gsh x (gw_step t w a s s' x).
Proof.
  unfold gw_step. destruct w; try apply gsh_refl.
  - (* WGetState *)
    apply gsh_intro.
    + destruct t; reflexivity.
    + intros t0 w0 H. destruct t, t0; cbn in H; try (left; exact H); inversion H; subst; right; reflexivity.
    + intros w0 H. left. destruct t; exact H.
    + intros w0 H. destruct t; exact H.
  - (* WWriting *)
    destruct (a_ok a).
    + destruct (get_pend x t) as [w0|] eqn:Ep; [|apply gsh_refl].
      apply gsh_intro.
      * destruct t; reflexivity.
      * intros t0 w1 H. left. destruct t, t0; cbn in H; try discriminate; exact H.
      * intros w1 H. destruct t; cbn in H; (destruct H as [<-|H]; [right; eexists; exact Ep|left; exact H]).
      * intros w1 H. destruct t; cbn; right; exact H.
    + apply gsh_intro.
      * destruct t; reflexivity.
      * intros t0 w1 H. left. destruct t, t0; cbn in H; try discriminate; exact H.
      * intros w1 H. left. destruct t; exact H.
      * intros w1 H. destruct t; exact H.
Qed.

Lemma gstep_gsh s e s' x : gsh x (gstep s e s' x).
Proof.
  destruct e as [alloc| |index size|k blk seed|d| |t a]; cbn [gstep]; try apply gsh_refl.
  - destruct (blocks _); [apply gsh_refl|]. apply gsh_with_g; cbn; auto.
  - destruct (nth_error _ _) as [[[[|abs] sz]|]|]; try apply gsh_refl.
    destruct (put_finalize _ _ _ _ _) as [[p' [off| | |]]|]; try apply gsh_refl.
    destruct (mk_ack _ _ _ _); [|apply gsh_refl]. apply gsh_with_g; cbn; auto.
  - destruct t.
    + destruct (s_r s); try apply gsh_refl. apply gsh_gw_step.
    + destruct (s_p s) as [| | | |keep|keep final|keep final|keep final dl|keep w|]; try apply gsh_refl.
      * apply gsh_with_g; cbn; auto.
      * destruct (negb keep && negb final); apply gsh_with_g; cbn; auto.
      * apply gsh_gw_step.
Qed.

Definition notfin (e : event) : Prop := forall k blk seed, e <> EFinalize k blk seed.

Lemma gstep_acks_same s e s' x : notfin e -> g_acks (gs_g (gstep s e s' x)) = g_acks (gs_g x).
Proof.
  intros Hn. destruct e as [alloc| |index size|k blk seed|d| |t a]; cbn [gstep]; try reflexivity.
  - destruct (blocks _); reflexivity.
  - exfalso. eapply Hn. reflexivity.
  - destruct t.
    + destruct (s_r s); try reflexivity. rewrite gw_step_g. reflexivity.
    + destruct (s_p s) as [| | | |keep|keep final|keep final|keep final dl|keep w|]; try reflexivity.
      * destruct (negb keep && negb final); reflexivity.
      * rewrite gw_step_g. reflexivity.
Qed.

(** ---- a loop inside WritePersistentState has its snapshot pending ---- *)
Definition psome (s : sys) (x : gsys) : Prop :=
  forall t st, wpc_of t s = Some (WWriting st) -> exists w, get_pend x t = Some w /\ gw_state w = st.

Lemma get_pend_gw_other t t' w a s s' x : t' <> t -> get_pend (gw_step t w a s s' x) t' = get_pend x t'.
Proof.
  intros Hne. unfold gw_step. destruct w; try reflexivity.
  - destruct t, t'; try congruence; reflexivity.
  - destruct (a_ok a); [destruct (get_pend x t)|]; destruct t, t'; try congruence; reflexivity.
Qed.

Lemma same_writes_pend x x' t : same_writes x x' -> get_pend x' t = get_pend x t.
Proof. intros [H1 [H2 _]]. destruct t; cbn; assumption. Qed.

Lemma step_psome cfg s e s' x : inv1 s -> psome s x -> step cfg s e = Some (Ok s') -> psome s' (gstep s e s' x).
Proof.
  intros I1 P Hs.
  assert (Henv : (forall t a, e <> EStep t a) -> psome s' (gstep s e s' x)).
  { intros Hne. destruct (env_frame _ _ _ _ Hne Hs) as [Hr Hp].
    intros t st Hw. rewrite (same_writes_pend x).
    - apply P. destruct t; unfold wpc_of in *; [rewrite <- Hr|rewrite <- Hp]; exact Hw.
    - apply gstep_frame. intros t0 a0 E. exfalso. eapply Hne. exact E. }
  destruct e as [alloc| |index size|k blk seed|d| |t a]; try (apply Henv; intros; discriminate).
  clear Henv. cbn [step] in Hs. destruct t.
  - (* release loop *)
    pose proof (rstep_frame _ _ _ _ I1 Hs) as Hp.
    unfold rstep in Hs. cbn [gstep]. destruct (s_r s) as [|ch0|w] eqn:Er.
    + inversion Hs; subst. intros [|] st Hw; cbn in Hw; [discriminate|].
      apply P. unfold wpc_of. exact Hw.
    + destruct (is_closed _ _); [|discriminate]. inversion Hs; subst. intros [|] st Hw; cbn in Hw; [discriminate|].
      apply P. unfold wpc_of. exact Hw.
    + destruct (wstep cfg TR w a s) as [[[s1 w']|]|] eqn:Ew; try discriminate.
      intros t st Hw. destruct t.
      * (* the stepping loop itself *)
        destruct (wstep_store _ _ _ _ _ _ _ Ew) as [_ [_ Hcase]].
        assert (Hw' : w' = Some (WWriting st)).
        { destruct w'; inversion Hs; subst; cbn in Hw; [inversion Hw; reflexivity|discriminate]. }
        destruct w as [| |st0| |dl]; cbn [gw_step].
        -- destruct Hcase as [_ [_ E]]. congruence.
        -- cbn [set_pend get_pend gs_pend_r]. eexists. split; [reflexivity|]. cbn [gw_state].
           subst w'. inversion Hs; subst. cbn. reflexivity.
        -- destruct Hcase as [[_ E]|[_ [dl E]]]; congruence.
        -- destruct Hcase as [_ E]. congruence.
        -- destruct Hcase as [_ E]. congruence.
      * rewrite get_pend_gw_other by discriminate. apply P. unfold wpc_of in *. rewrite <- Hp. exact Hw.
  - (* put loop *)
    pose proof (pstep_frame _ _ _ _ I1 Hs) as Hr.
    assert (Hother : forall x', gs_pend_r x' = gs_pend_r x -> forall st, wpc_of TR s' = Some (WWriting st) ->
                       exists w, get_pend x' TR = Some w /\ gw_state w = st).
    { intros x' E st Hw. cbn [get_pend]. rewrite E. apply (P TR). unfold wpc_of in *. rewrite <- Hr. exact Hw. }
    unfold pstep in Hs. cbn [gstep].
    destruct (s_p s) as [|ch0|ch0|dl|keep|keep final|keep final|keep final dl|keep w|] eqn:Ep.
    + inversion Hs; subst. intros [|] st Hw; [apply Hother; auto|cbn in Hw; discriminate].
    + destruct (is_closed _ _); inversion Hs; subst; (intros [|] st Hw; [apply Hother; auto|cbn in Hw; discriminate]).
    + destruct (s_cancel s && _); [|destruct (is_closed _ _); [|discriminate]]; inversion Hs; subst;
        (intros [|] st Hw; [apply Hother; auto|cbn in Hw; discriminate]).
    + destruct (s_cancel s && _); [|destruct (_ && _)%bool; [|discriminate]]; inversion Hs; subst;
        (intros [|] st Hw; [apply Hother; auto|cbn in Hw; discriminate]).
    + inversion Hs; subst. intros [|] st Hw; [apply Hother; auto|cbn in Hw; discriminate].
    + destruct (a_ok a); inversion Hs; subst; (intros [|] st Hw; [apply Hother; auto|cbn in Hw; discriminate]).
    + destruct (negb keep && negb final); inversion Hs; subst;
        (intros [|] st Hw; [apply Hother; auto|cbn in Hw; discriminate]).
    + destruct (_ <=? _)%N; [|discriminate]. inversion Hs; subst.
      intros [|] st Hw; [apply Hother; auto|cbn in Hw; discriminate].
    + destruct (wstep cfg TP w a s) as [[[s1 w']|]|] eqn:Ew; try discriminate.
      intros t st Hw. destruct t.
      * rewrite get_pend_gw_other by discriminate. apply (P TR). unfold wpc_of in *. rewrite <- Hr. exact Hw.
      * destruct (wstep_store _ _ _ _ _ _ _ Ew) as [_ [_ Hcase]].
        assert (Hw' : w' = Some (WWriting st)).
        { destruct w'; inversion Hs; subst; cbn in Hw; [inversion Hw; reflexivity|destruct keep; discriminate]. }
        destruct w as [| |st0| |dl]; cbn [gw_step].
        -- destruct Hcase as [_ [_ E]]. congruence.
        -- cbn [set_pend get_pend gs_pend_p]. eexists. split; [reflexivity|]. cbn [gw_state].
           subst w'. inversion Hs; subst. cbn. reflexivity.
        -- destruct Hcase as [[_ E]|[_ [dl E]]]; congruence.
        -- destruct Hcase as [_ E]. congruence.
        -- destruct Hcase as [_ E]. congruence.
    + discriminate.
Qed.

(** ---- the invariants of a reachable state used below ---- *)
Definition G (o : N) (s : sys) (x : gsys) : Prop := sinv3 o s x /\ psome s x.

Lemma G_step o cfg s e s' x : G o s x -> step cfg s e = Some (Ok s') -> G o s' (gstep s e s' x).
Proof.
  intros [S P] Hs. split.
  - eapply (grun_sinv3 o cfg [e]); [exact S|]. cbn. rewrite Hs. reflexivity.
  - destruct S as [[[I1 _] _] _]. eapply step_psome; eauto.
Qed.

Lemma G_init alloc oldest init t0 : G oldest (init_sys (fst (pbl_new alloc oldest init)) t0) g0.
Proof. split; [apply init_sinv3|]. intros [|] st H; cbn in H; discriminate. Qed.

(** a multi-step relation with the ghost, every (state, event) satisfying [P] *)
Inductive gpath (cfg : config) (P : sys -> event -> Prop) : sys -> gsys -> sys -> gsys -> Prop :=
| gp_nil s x : gpath cfg P s x s x
| gp_cons s x e s1 s' x' : P s e -> step cfg s e = Some (Ok s1) -> gpath cfg P s1 (gstep s e s1 x) s' x' ->
    gpath cfg P s x s' x'.

Lemma gpath_trans cfg P s x s1 x1 s2 x2 : gpath cfg P s x s1 x1 -> gpath cfg P s1 x1 s2 x2 -> gpath cfg P s x s2 x2.
Proof. induction 1; intros H2; [exact H2|]. econstructor; eauto. Qed.

Lemma gpath_one cfg (P : sys -> event -> Prop) s x e s1 : P s e -> step cfg s e = Some (Ok s1) ->
  gpath cfg P s x s1 (gstep s e s1 x).
Proof. intros. econstructor; eauto. constructor. Qed.

Lemma gpath_weaken cfg (P Q : sys -> event -> Prop) s x s' x' : (forall s e, P s e -> Q s e) ->
  gpath cfg P s x s' x' -> gpath cfg Q s x s' x'.
Proof. intros HPQ. induction 1; [constructor|]. econstructor; eauto. Qed.

Lemma gpath_grun cfg P s x s' x' : gpath cfg P s x s' x' -> exists tr, grun cfg s x tr = Some (Ok (s', x')).
Proof.
  induction 1 as [s x|s x e s1 s' x' _ Hs _ [tr IH]]; [exists []; reflexivity|].
  exists (e :: tr). cbn. rewrite Hs. exact IH.
Qed.

Lemma grun_app cfg tr1 : forall tr2 s x s1 x1, grun cfg s x tr1 = Some (Ok (s1, x1)) ->
  grun cfg s x (tr1 ++ tr2) = grun cfg s1 x1 tr2.
Proof.
  induction tr1 as [|e tr1 IH]; intros tr2 s x s1 x1 H; cbn in *.
  - inversion H; subst. reflexivity.
  - destruct (step cfg s e) as [[s0|]|]; try discriminate. apply IH. exact H.
Qed.

Lemma greachable_gpath cfg alloc oldest init t0 P s x s' x' :
  greachable cfg alloc oldest init t0 s x -> gpath cfg P s x s' x' -> greachable cfg alloc oldest init t0 s' x'.
Proof.
  intros [tr1 H1] Hp. destruct (gpath_grun _ _ _ _ _ _ Hp) as [tr2 H2].
  exists (tr1 ++ tr2). rewrite (grun_app _ _ _ _ _ _ _ H1). exact H2.
Qed.

Lemma G_gpath o cfg P s x s' x' : G o s x -> gpath cfg P s x s' x' -> G o s' x'.
Proof. intros Hg Hp. induction Hp; [exact Hg|]. apply IHHp. eapply G_step; eauto. Qed.

(** steps that complete no state write: the list of completed writes is unchanged *)
Definition nowr (s : sys) (e : event) : Prop :=
  forall t a st, e = EStep t a -> wpc_of t s = Some (WWriting st) -> a_ok a = false.

Lemma gstep_writes_same s e s' x : nowr s e -> gs_writes (gstep s e s' x) = gs_writes x.
Proof.
  intros Hn. destruct e as [alloc| |index size|k blk seed|d| |t a]; cbn [gstep]; try reflexivity.
  - destruct (blocks _); reflexivity.
  - destruct (nth_error _ _) as [[[[|abs] sz]|]|]; try reflexivity.
    destruct (put_finalize _ _ _ _ _) as [[p' [off| | |]]|]; try reflexivity.
    destruct (mk_ack _ _ _ _); reflexivity.
  - assert (Hw : forall w, wpc_of t s = Some w -> gs_writes (gw_step t w a s s' x) = gs_writes x).
    { intros w Hw. unfold gw_step. destruct w as [| |st| |]; try reflexivity.
      - destruct t; reflexivity.
      - rewrite (Hn t a st eq_refl Hw). destruct t; reflexivity. }
    destruct t; cbn [wpc_of] in Hw.
    + destruct (s_r s); try reflexivity. apply Hw. reflexivity.
    + destruct (s_p s) as [| | | |keep|keep final|keep final|keep final dl|keep w|]; try reflexivity.
      * destruct (negb keep && negb final); reflexivity.
      * apply Hw. reflexivity.
Qed.

Lemma gpath_writes_same cfg s x s' x' : gpath cfg nowr s x s' x' -> gs_writes x' = gs_writes x.
Proof. induction 1 as [|s x e s1 s' x' Hn Hs Hp IH]; [reflexivity|]. rewrite IH. apply gstep_writes_same. exact Hn. Qed.

(** closedForWriting is never reset; the put loop never leaves PExit *)
Lemma step_closed_mono cfg s e s' : step cfg s e = Some (Ok s') ->
  closedForWriting (s_pbl s) = true -> closedForWriting (s_pbl s') = true.
Proof. intros Hs C. destruct (step_closed _ _ _ _ Hs) as [E|[E _]]; congruence. Qed.

Lemma step_pexit cfg s e s' : inv1 s -> step cfg s e = Some (Ok s') -> s_p s = PExit -> s_p s' = PExit.
Proof.
  intros I1 Hs Hp. destruct e as [alloc| |index size|k blk seed|d| |t a].
  1-6: (match type of Hs with step _ _ ?e = _ =>
          assert (Hne : forall t a, e <> EStep t a) by (intros t1 a0 H0; discriminate H0) end;
        destruct (env_frame _ _ _ _ Hne Hs) as [_ E]; congruence).
  destruct t; cbn [step] in Hs.
  - rewrite (rstep_frame _ _ _ _ I1 Hs). exact Hp.
  - unfold pstep in Hs. rewrite Hp in Hs. discriminate.
Qed.
