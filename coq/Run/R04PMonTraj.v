(** C04P, "the monitor is silent on the model" — part 2: what one [quiesce]
    does to the release bookkeeping of the block list: at most one
    NotifyPersistentStateWritten (only if a loop was about to run it: its state
    write had just returned nil), which releases exactly the recorded prefix of
    blocksToRelease, followed by at most one GetPersistentState, whose state
    lists only blocks of the list and records everything awaiting release. *)
From Coq Require Import List NArith ZArith Bool Arith Lia.
From BBS Require Import Common.Sx Persist.PBL Persist.PBLProofs Persist.Syncer Persist.SyncerProofs
  Persist.LiveActs Persist.LiveCover Persist.LiveRelease Run.R07 Run.R04P Run.R07MonBase Run.R07MonOps
  Run.R07MonC123 Run.R07MonCov1 Run.R07MonCov2.
Import ListNotations.
Local Open Scope nat_scope.

Definition wwritten (s : sys) : bool :=
  match s_r s, s_p s with
  | RW WWritten, _ => true
  | _, PW _ WWritten => true
  | _, _ => false
  end.

Definition st_regs (st : pstate) : list Z := map (fun b => fst (bs_loc b)) (snd st).

Lemma writing_written s st : writing_state s = Some st -> exists t, written_state s t = Some st.
Proof.
  unfold writing_state. destruct (s_r s) as [| |[]] eqn:Er;
    try (destruct (s_p s) as [| | | | | | | |k []|] eqn:Ep; try discriminate; intros H; inversion H; subst;
         exists TP; cbn [written_state]; rewrite Ep; reflexivity).
  intros H; inversion H; subst. exists TR. cbn [written_state]. rewrite Er. reflexivity.
Qed.

Lemma written_writing s t st : inv3 s -> written_state s t = Some st -> writing_state s = Some st.
Proof.
  intros [_ I3] H. unfold writing_state. destruct t; cbn [written_state] in H.
  - destruct (s_r s) as [| |[]]; try discriminate. exact H.
  - destruct (s_p s) as [| | | | | | | |k []|] eqn:Ep; try discriminate.
    unfold r_holds, p_holds in I3. rewrite Ep in I3. cbn in I3.
    destruct (s_r s) as [| |[]]; try exact H; cbn in I3; discriminate.
Qed.

Lemma wwritten_holds s : wwritten s = true -> r_holds s = true \/ p_holds s = true.
Proof.
  unfold wwritten, r_holds, p_holds. destruct (s_r s) as [| |[]]; auto;
    destruct (s_p s) as [| | | | | | | |k []|]; auto; discriminate.
Qed.

Lemma getstate_not_wwritten s t : inv3 s -> at_getstate t s = true -> wwritten s = false.
Proof.
  intros [_ I3] H. unfold at_getstate, wwritten, r_holds, p_holds in *.
  destruct t; destruct (s_r s) as [| |[]]; destruct (s_p s) as [| | | | | | | |k []|];
    try discriminate; try reflexivity; cbn in I3; discriminate.
Qed.

(** the release bookkeeping under the calls an internal step can make *)
Definition rfields (p : pbl) := (releasedLog p, toRelease p, releasing p).

Lemma act_rfields a p p' : apply_act a p = Ok p' ->
  match a with
  | ANone | ASyncStart | ASyncDone _ => rfields p' = rfields p
  | AGetState _ => releasedLog p' = releasedLog p /\ toRelease p' = toRelease p /\ releasing p' = length (toRelease p)
  | AWritten _ => releasedLog p' = releasedLog p ++ firstn (releasing p) (toRelease p)
                  /\ toRelease p' = skipn (releasing p) (toRelease p)
  | _ => True
  end.
Proof.
  intros H. pose proof (act_rel _ _ _ H) as F. unfold rfields.
  destruct a; auto; try (destruct F as [F1 [F2 [F3 _]]]; congruence).
  - destruct F as [F1 [F2 [F3 _]]]. auto.
  - destruct F as [F1 [_ [F3 _]]]. auto.
Qed.

Section Traj.
Variable cfg : config.
Variable alloc : loc -> Z -> bool.
Variable oldest : N.
Variable init : list bstate.
Variable t0 : N.
Notation good := (good cfg alloc oldest init t0).

Definition rel_upto (x1 xc : xst) (k : nat) : Prop :=
  releasedLog (s_pbl (x_sys xc)) = releasedLog (s_pbl (x_sys x1)) ++ firstn k (toRelease (s_pbl (x_sys x1)))
  /\ toRelease (s_pbl (x_sys xc)) = skipn k (toRelease (s_pbl (x_sys x1))).

Definition k_of (x1 : xst) : nat := if wwritten (x_sys x1) then releasing (s_pbl (x_sys x1)) else 0.

Record rtj (x1 xc : xst) : Prop := mkRtj {
  rj_offs : offs (s_pbl (x_sys xc)) = offs (s_pbl (x_sys x1));
  rj_cases :
    (wwritten (x_sys xc) = true /\ rfields (s_pbl (x_sys xc)) = rfields (s_pbl (x_sys x1))
     /\ x_nwr xc = x_nwr x1 /\ writing_state (x_sys xc) = None /\ wwritten (x_sys x1) = true
     /\ writing_state (x_sys x1) = None)
    \/ (wwritten (x_sys xc) = false /\ rel_upto x1 xc (k_of x1) /\ x_nwr xc = x_nwr x1
        /\ writing_state (x_sys xc) = writing_state (x_sys x1)
        /\ (writing_state (x_sys x1) <> None -> releasing (s_pbl (x_sys xc)) = releasing (s_pbl (x_sys x1))))
    \/ (wwritten (x_sys xc) = false /\ rel_upto x1 xc (k_of x1) /\ x_nwr xc = S (x_nwr x1)
        /\ writing_state (x_sys x1) = None
        /\ exists st, writing_state (x_sys xc) = Some st
             /\ (forall r, In r (st_regs st) -> In r (offs (s_pbl (x_sys xc))))
             /\ releasing (s_pbl (x_sys xc)) = length (toRelease (s_pbl (x_sys xc))))
}.

Lemma rel_upto_0 x : rel_upto x x 0.
Proof. unfold rel_upto. cbn. rewrite app_nil_r. auto. Qed.

Lemma rtj_refl x1 : inv3 (x_sys x1) -> rtj x1 x1.
Proof.
  intros I3. constructor; [reflexivity|].
  destruct (wwritten (x_sys x1)) eqn:Ew.
  - assert (writing_state (x_sys x1) = None) as Hn.
    { destruct (writing_state (x_sys x1)) as [st|] eqn:E; [exfalso|reflexivity].
      destruct (writing_written _ _ E) as [t Ht]. pose proof (writing_holds _ _ _ Ht) as H1.
      destruct I3 as [_ I3]. unfold wwritten in Ew. unfold written_state in Ht. unfold r_holds, p_holds in *.
      destruct t; destruct (s_r (x_sys x1)) as [| |[]]; destruct (s_p (x_sys x1)) as [| | | | | | | |k []|];
        try discriminate; cbn in *; try discriminate. }
    left. splits; auto.
  - right. left. unfold k_of. rewrite Ew. splits; auto. apply rel_upto_0.
Qed.

(** frames for [wwritten] and [writing_state] *)
Ltac fin_frame :=
  repeat split; intros; cbn in *; try reflexivity; try discriminate; try congruence;
  repeat match goal with |- context [match ?x with _ => _ end] => destruct x end;
  try reflexivity; try discriminate; try congruence.

Lemma step_class_frame s t a s' : inv1 s -> t_internal cfg s t = true -> step cfg s (EStep t a) = Some (Ok s') ->
  a = internal_ans ->
  (wwritten s' = true -> wwritten s = true) /\
  (act_of s (EStep t a) <> AWritten t -> wwritten s' = wwritten s) /\
  (act_of s (EStep t a) <> AGetState t -> writing_state s' = writing_state s).
Proof.
  intros II Hi Hs ->. destruct t; cbn [step t_internal act_of] in *.
  - pose proof (rstep_frame _ _ _ _ II Hs) as Ep. pose proof (rstep_shape _ _ _ _ Hs) as Sh.
    unfold wwritten, writing_state. rewrite Ep. revert Sh Hi. unfold r_internal, r_in_io, r_in_timer.
    destruct (s_r s) as [|c|w]; intros Sh Hi.
    + destruct Sh as [c ->]. fin_frame.
    + rewrite Sh. fin_frame.
    + destruct Sh as [[w' [-> Sw]]|[-> ->]]; [|fin_frame].
      destruct w; cbn in Hi; try discriminate Hi.
      * subst w'. fin_frame.
      * destruct Sw as [st ->]. fin_frame.
      * destruct Sw.
  - pose proof (pstep_frame _ _ _ _ II Hs) as Er. destruct (pstep_shape _ _ _ _ II Hs) as [_ [_ [Sh _]]].
    unfold wwritten, writing_state. rewrite Er. revert Sh Hi. unfold p_internal, p_in_io, p_in_timer.
    destruct (s_p s) as [|ch|ch|dl|keep|keep final|keep final|keep final dl|keep w|]; intros Sh Hi; cbn in Hi; try discriminate Hi.
    + destruct Sh as [c ->]. fin_frame.
    + destruct Sh as [->| ->]; fin_frame.
    + destruct Sh as [[_ ->]| ->]; fin_frame.
    + destruct Sh as [[_ [-> _]]|[-> _]]; fin_frame.
    + rewrite Sh. fin_frame.
    + destruct Sh as [[_ [_ ->]]|[_ ->]]; fin_frame.
    + destruct Sh as [[w' [-> Sw]]|[-> ->]]; [|destruct keep; fin_frame].
      destruct w; try discriminate Hi.
      * subst w'. fin_frame.
      * destruct Sw as [st ->]. fin_frame.
      * destruct Sw.
    + destruct Sh.
Qed.

Lemma rtj_step x1 xc t x' : rtj x1 xc -> good (x_sys xc) -> t_internal cfg (x_sys xc) t = true ->
  tstep cfg t internal_ans xc = Some (Ok x') -> rtj x1 x'.
Proof.
  intros [J1 J2] G Hi Ht. destruct (tstep_ok _ _ _ _ _ Ht) as [Hs [_ [Hwr _]]].
  pose proof (good_inv1 _ _ _ _ _ _ G) as II.
  destruct (reachable_inv_all _ _ _ _ _ _ (proj1 G)) as [_ [_ [I3 _]]].
  pose proof (step_act _ _ _ _ Hs) as Ha.
  set (a := act_of (x_sys xc) (EStep t internal_ans)) in *.
  destruct (step_class_frame _ _ _ _ II Hi Hs eq_refl) as [F1 [F2 F3]]. fold a in F2, F3.
  pose proof (act_rfields _ _ _ Ha) as Fr. pose proof (int_fields _ _ _ Ha) as Fo.
  assert (Hcls : a = ANone \/ a = ASyncStart \/ (exists b, a = ASyncDone b) \/ a = AWritten t \/ a = AGetState t).
  { unfold a, act_of. destruct t.
    - destruct (s_r (x_sys xc)) as [| |[]]; cbn; auto.
    - destruct (s_p (x_sys xc)) as [| | | |k|k f|k f|k f d|k w|]; cbn; eauto. destruct w; cbn; auto. }
  assert (Hgs : at_getstate t (x_sys xc) = true <-> a = AGetState t) by (symmetry; apply act_getstate).
  assert (Hoffs : offs (s_pbl (x_sys x')) = offs (s_pbl (x_sys xc))).
  { destruct Hcls as [E|[E|[[b E]|[E|E]]]]; rewrite E in Fo; exact (proj1 Fo). }
  constructor; [congruence|].
  destruct Hcls as [E|[E|[[b E]|[E|E]]]].
  1-3: (assert (Hnw : a <> AWritten t) by (rewrite E; discriminate);
        assert (Hng : a <> AGetState t) by (rewrite E; discriminate);
        assert (Hrf : rfields (s_pbl (x_sys x')) = rfields (s_pbl (x_sys xc))) by (rewrite E in Fr; exact Fr);
        assert (Hnwr : x_nwr x' = x_nwr xc)
          by (rewrite Hwr; destruct (at_getstate t (x_sys xc)) eqn:Eg; [exfalso; apply Hng; apply Hgs; first [exact Eg|reflexivity]|reflexivity]);
        rewrite (F2 Hnw), (F3 Hng), Hnwr;
        unfold rfields, rel_upto in *; injection Hrf as R1 R2 R3;
        destruct J2 as [[A1 [A2 [A3 [A4 [A5 A6]]]]]|[[B1 [[B2a B2b] [B3 [B4 B5]]]]|[C1 [[C2a C2b] [C3 [C4 [st [C5 [C6 C7]]]]]]]]];
        [left; split; [exact A1|split; [congruence|split; [exact A3|split; [exact A4|split; [exact A5|exact A6]]]]]
        |right; left; split; [exact B1|split; [split; congruence|split; [exact B3|split; [exact B4|intros H; rewrite R3; auto]]]]
        |right; right; split; [exact C1|split; [split; congruence|split; [congruence|split; [exact C4|]]]];
         exists st; split; [exact C5|split; [intros r Hr; rewrite Hoffs; auto|congruence]]]).
  - (* NotifyPersistentStateWritten *)
    rewrite E in Fr. destruct Fr as [R1 R2].
    assert (Hng : a <> AGetState t) by (rewrite E; discriminate).
    assert (Hnwr : x_nwr x' = x_nwr xc).
    { rewrite Hwr. destruct (at_getstate t (x_sys xc)) eqn:Eg; [exfalso; apply Hng; apply Hgs; first [exact Eg|reflexivity]|reflexivity]. }
    assert (Hww : wwritten (x_sys xc) = true).
    { unfold a, act_of in E. unfold wwritten. destruct t.
      - destruct (s_r (x_sys xc)) as [| |[]]; try discriminate E. reflexivity.
      - destruct (s_p (x_sys xc)) as [| | | | | | | |k []|]; try discriminate E. destruct (s_r (x_sys xc)) as [| |[]]; reflexivity. }
    assert (Hww' : wwritten (x_sys x') = false).
    { destruct (wwritten (x_sys x')) eqn:E'; [exfalso|reflexivity].
      (* after the step only the other loop could be at WWritten; both held the lock *)
      destruct t; cbn [step] in Hs; unfold a, act_of in E.
      - pose proof (rstep_frame _ _ _ _ II Hs) as Ep. pose proof (rstep_shape _ _ _ _ Hs) as Sh. revert Sh E.
        destruct (s_r (x_sys xc)) as [| |[]] eqn:Er; intros Sh E; try discriminate E.
        destruct Sh as [[w' [_ []]]|[_ Sh]]. unfold wwritten in E'. rewrite Sh, Ep in E'.
        destruct I3 as [_ I3]. unfold r_holds, p_holds in I3. rewrite Er in I3.
        destruct (s_p (x_sys xc)) as [| | | | | | | |k []|]; try discriminate E'. cbn in I3. discriminate.
      - pose proof (pstep_frame _ _ _ _ II Hs) as Er. destruct (pstep_shape _ _ _ _ II Hs) as [_ [_ [Sh _]]]. revert Sh E.
        destruct (s_p (x_sys xc)) as [| | | | | | | |k []|] eqn:Ep; intros Sh E; try discriminate E.
        destruct Sh as [[w' [_ []]]|[_ Sh]]. unfold wwritten in E'. rewrite Sh, Er in E'.
        destruct I3 as [_ I3]. unfold r_holds, p_holds in I3. rewrite Ep in I3.
        destruct (s_r (x_sys xc)) as [| |[]]; try (destruct k; discriminate E'). cbn in I3. discriminate. }
    rewrite (F3 Hng), Hnwr, Hww'.
    destruct J2 as [[A1 [A2 [A3 [A4 [A5 A6]]]]]|[[B1 _]|[C1 _]]]; [|congruence|congruence].
    right. left. unfold rfields in A2. injection A2 as R1' R2' R3'. unfold k_of. rewrite A5.
    splits; auto.
    + split; [rewrite R1, R1', R2', R3'; reflexivity|rewrite R2, R2', R3'; reflexivity].
    + congruence.
    + intros H. exfalso. apply H. exact A6.
  - (* GetPersistentState *)
    rewrite E in Fr. destruct Fr as [R1 [R2 R3]].
    assert (Hnw : a <> AWritten t) by (rewrite E; discriminate).
    assert (Hnwr : x_nwr x' = S (x_nwr xc)).
    { rewrite Hwr. rewrite (proj2 Hgs E). reflexivity. }
    destruct (getstate_step _ _ _ _ _ Hs E) as [p' [st [Hgps [Hw [Hp' _]]]]].
    pose proof (step_inv3 _ _ _ _ I3 Hs) as I3'.
    pose proof (written_writing _ _ _ I3' Hw) as Hws.
    pose proof (getstate_holds _ _ (proj2 Hgs E)) as Hh.
    rewrite (F2 Hnw), Hnwr.
    destruct J2 as [[A1 _]|[[B1 [[B2a B2b] [B3 [B4 B5]]]]|[C1 [_ [_ [_ [st0 [C5 _]]]]]]]].
    + (* a loop at WWritten holds the lock: no GetPersistentState *)
      exfalso. rewrite (getstate_not_wwritten _ _ I3 (proj2 Hgs E)) in A1. discriminate.
    + right. right. 
      assert (Hnone : writing_state (x_sys x1) = None).
      { rewrite <- B4. destruct (writing_state (x_sys xc)) as [st1|] eqn:E1; [exfalso|reflexivity].
        destruct (writing_written _ _ E1) as [t1 Ht1].
        pose proof (holds_excl _ _ _ I3 (writing_holds _ _ _ Ht1) Hh) as Et. subst t1.
        destruct t; cbn [written_state at_getstate] in Ht1, Hgs; pose proof (proj2 Hgs E) as Hg.
        - destruct (s_r (x_sys xc)) as [| |[]]; discriminate.
        - destruct (s_p (x_sys xc)) as [| | | | | | | |? []|]; discriminate. }
      split; [exact B1|]. split; [unfold rel_upto; split; congruence|]. split; [congruence|]. split; [exact Hnone|].
      exists st. split; [exact Hws|]. split; [|congruence].
        intros r Hr. unfold st_regs in Hr. apply in_map_iff in Hr. destruct Hr as [bs [<- Hbs]].
        apply In_nth_error in Hbs. destruct Hbs as [j Hj].
        destruct (gps_fields _ _ _ Hgps) as [Hc [_ [_ [_ [_ [_ [_ Hloop]]]]]]].
        destruct (gps_prefix _ _ _ _ _ _ _ Hloop Hj) as [bb [Hbb [Hl _]]].
        rewrite Hoffs. unfold offs. rewrite Hl. apply in_map_iff. exists bb. split; [reflexivity|].
        eapply nth_error_In; eauto.
    + exfalso. destruct (writing_written _ _ C5) as [t1 Ht1].
      pose proof (holds_excl _ _ _ I3 (writing_holds _ _ _ Ht1) Hh) as Et. subst t1.
      destruct t; cbn [written_state at_getstate] in Ht1, Hgs; pose proof (proj2 Hgs E) as Hg.
      * destruct (s_r (x_sys xc)) as [| |[]]; discriminate.
      * destruct (s_p (x_sys xc)) as [| | | | | | | |? []|]; discriminate.
Qed.

Lemma quiesce_rtj f rw x1 x2 : good (x_sys x1) -> quiesce cfg f rw x1 = Ok x2 -> rtj x1 x2.
Proof.
  intros G H. destruct (reachable_inv_all _ _ _ _ _ _ (proj1 G)) as [_ [_ [I3 _]]].
  destruct (quiesce_ind cfg alloc oldest init t0 (rtj x1)
              (fun x t x' Q Gx Hi Ht => rtj_step x1 x t x' Q Gx Hi Ht) f rw x1 x2 G (rtj_refl x1 I3) H) as [Q _].
  exact Q.
Qed.

End Traj.
