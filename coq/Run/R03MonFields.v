(** C03, monitor versus model — part 2 (monitor side): what one history entry does to the
    bookkeeping fields of the monitor state of Run/R03.v, as equations by entry tag. *)
From BBS Require Import Common.Sx Persist.PBL Persist.Syncer Persist.Shutdown Run.R03.
Open Scope Z_scope.

(** case analysis of a Z down to the literals 0..63 (deeper positives stay symbolic) *)
Ltac dpos p n :=
  match n with
  | O => idtac
  | S ?n' => let q := fresh "q" in destruct p as [q|q|]; [dpos q n'|dpos q n'|idtac]
  end.
Ltac ztag z := let p := fresh "p" in destruct z as [|p|p]; [|dpos p 6%nat|].

Ltac prj :=
  cbn [m_live m_upl m_op m_copies m_final m_exited m_pos m_lastput m_sync_start m_sync_ok m_sync_done
       m_wcover m_commit m_prev m_viol Z.eqb Pos.eqb orb andb].

Ltac brk :=
  repeat (prj; match goal with
               | |- context [match m_live ?m with _ => _ end] => destruct (m_live m)
               | |- context [if ?c then _ else _] => destruct c
               end).

Lemma mon_entry_fields cfg objs ops m x :
  m_pos (mon_entry cfg objs ops m x) = S (m_pos m) /\
  m_lastput (mon_entry cfg objs ops m x) = (if (tag x =? 3) || (tag x =? 4) then S (m_pos m) else m_lastput m) /\
  m_sync_start (mon_entry cfg objs ops m x) = (if tag x =? 8 then S (m_pos m) else m_sync_start m) /\
  m_sync_done (mon_entry cfg objs ops m x) =
    (if (tag x =? 9) && m_sync_ok m then m_sync_start m else m_sync_done m) /\
  m_wcover (mon_entry cfg objs ops m x) =
    (if tag x =? 6 then (sx_Z (sx_nth x 1), m_sync_done m) :: m_wcover m else m_wcover m) /\
  m_commit (mon_entry cfg objs ops m x) =
    (if (tag x =? 13) && sx_bool (sx_nth x 2)
     then Nat.max (m_commit m) (assoc_Z (sx_Z (sx_nth x 1)) (m_wcover m)) else m_commit m) /\
  m_final (mon_entry cfg objs ops m x) = (m_final m || ((tag x =? 8) && sx_bool (sx_nth x 1)) || (tag x =? 18)) /\
  m_exited (mon_entry cfg objs ops m x) = (m_exited m || (tag x =? 18)) /\
  m_prev (mon_entry cfg objs ops m x) = m_prev m.
Proof.
  unfold mon_entry. generalize (tag x) as z. intro z.
  ztag z.
  all: cbv beta iota zeta.
  all: try (brk; prj; rewrite ?Bool.orb_false_r, ?Bool.orb_true_r; repeat split; reflexivity).
  (* tag 30: the result of an op *)
  all: generalize (tag (sx_nth x 2)) as z2; intro z2; destruct z2 as [|[q|[q|q|]|]|];
    brk; prj; rewrite ?Bool.orb_false_r; repeat split; reflexivity.
Qed.
