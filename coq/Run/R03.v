(** C03: sx interface — the property monitor on implementation observations,
    the replay of the observed PersistentBlockList / PeriodicSyncer call
    history on the model of Persist/PBL.v + Persist/Syncer.v (trace
    validation), the judge.

    Input  : (cfg objs incs)
      cfg  = (bs old cur new mutable spare hier validate sector interval retry dirstore table)
      objs = (bytes ...)            content of key i (pairwise distinct)
      incs = ((rb ops) ...)         incarnations; every incarnation but the first starts by reading
                                    back all keys (order rb); it ends with a process exit: graceful if
                                    ProcessBlockPut has returned false, abrupt otherwise
      op   = (1 u key)   upload of key starts in slot u          | (2 u n) next n bytes
           | (3 u code)  the source ends (0 = EOF, else error)   | (4 u)   rest of the bytes, EOF
           | (5 key)     Get                                     | (6 (key ...)) FindMissing
           | (7 ok)      the pending DataSyncer call returns     | (8 m) the pending state write returns (1 nil, 0 error;
                                                                   directory store: 2 rename fails, 3 fsync fails)
           | (9 d)       clock += d                              | (10 who) fire the due timer of a loop
           | (11)        cancel the context (shutdown request)
           | (12)        cancel and let the syncer run until ProcessBlockPut returned false
           | (13)        let the syncer run (successful I/O) until nothing is pending
    Observation: one history per incarnation (or ((-1)) panic, ((-2)) no quiescence); entries in
    real order:
      (0 count (oldest blocks) (found ...) (oldest blocks) nold)  restored; state read; allocator answers; list's view;
                         number of restored blocks the old/current/new map reports as old
      (1 r x)            PushBack: r = 0 ok (x = location), 1 refused by the list, 2 allocator failed
      (2)                PopFront
      (3 index size)     BlockList.Put (k-th of this incarnation)
      (4 k 0 off epoch blocksFromLast seed) | (4 k r code)   finalizer of put k: r = 1 closed, 2 released, 3 block error
      (5 t closed)       Get{Release,Put}Wakeup by loop t (0 release, 1 put), channel readable?
      (6 t oldest blocks) GetPersistentState   (7 t) NotifyPersistentStateWritten
      (8 final)          NotifySyncStarting    (9) NotifySyncCompleted
      (10 n) DataSyncer call n parked          (11 ok) it returns
      (12 t n oldest blocks) WritePersistentState call n parked   (13 t ok) it returns
      (14 t deadline retry) NewTimer   (15 t time) it fires   (16 d) clock   (17) cancel
      (18)               ProcessBlockPut returned false
      (19 i)             op i begins (-1: read-back)   (30 i res) its result
      (20 r p)           both loops blocked again: what each waits for
      (32 key fmcode nmissing code bytes)   read-back of one key
    block = (location writeOffset (seed ...)); seeds are canonical ids. *)
From BBS Require Import Common.Sx Persist.PBL Persist.Syncer Persist.Shutdown.
Open Scope Z_scope.

Definition tag (s : sx) : Z := sx_Z (sx_nth s 0).
Definition zmem (z : Z) (l : list Z) : bool := existsb (Z.eqb z) l.
Definition is_marker (obs : sx) : bool :=
  match obs with L [L [A z]] => Z.ltb z 0 | L [A z] => Z.ltb z 0 | _ => false end.

(** ================= the monitor ================= *)
(** Clauses: 1 acknowledged upload unreadable after a graceful shutdown (not evicted by rotation);
    2 upload (one that wrote into the block list) acknowledged after the final synchronisation began;
    3 well-formed upload that wrote into the block list and ended after that point failed with
    something other than UNAVAILABLE (a hierarchical upload of already stored content writes nothing;
    it may legitimately end with OK, or INTERNAL when the stored copy was rotated out meanwhile); 4 acknowledged upload unreadable after a
    process crash that followed a completed commit without upload/refresh since its start;
    5 wrong bytes returned; 7 panic; 8 no quiescence / state unreadable. *)

Record copy := mkCopy { c_key : nat; c_loc : Z; c_old : bool }.

Record mst := mkM {
  m_live : list Z;                 (* block locations, front first *)
  m_upl : list (nat * (nat * option Z));   (* slot -> key, block of its BlockList.Put *)
  m_op : sx;                       (* the op being executed *)
  m_copies : list copy;            (* blocks holding acknowledged copies; c_old = obligation inherited *)
  m_final : bool;                  (* the final synchronisation began (or the shutdown completed) *)
  m_exited : bool;
  m_pos : nat;
  m_lastput : nat;                 (* position of the last BlockList.Put / finalizer *)
  m_sync_start : nat;
  m_sync_ok : bool;
  m_sync_done : nat;               (* start position of the latest sync that completed *)
  m_wcover : list (Z * nat);       (* loop -> m_sync_done at its latest GetPersistentState *)
  m_commit : nat;                  (* largest start position of a completed commit (0 = none) *)
  m_prev : Z;                      (* previous exit: 1 graceful, 2 crash after commit, 0 otherwise *)
  m_viol : list Z
}.

Definition full_count (cfg : sx) : nat :=
  (sx_nat (sx_nth cfg 1) + sx_nat (sx_nth cfg 2) + sx_nat (sx_nth cfg 3) + 1)%nat.

Fixpoint assoc_nat {A} (k : nat) (l : list (nat * A)) : option A :=
  match l with
  | [] => None
  | (k', v) :: r => if Nat.eqb k k' then Some v else assoc_nat k r
  end.
Definition remove_nat {A} (k : nat) (l : list (nat * A)) : list (nat * A) :=
  filter (fun e => negb (Nat.eqb k (fst e))) l.
Fixpoint assoc_Z (k : Z) (l : list (Z * nat)) : nat :=
  match l with
  | [] => O
  | (k', v) :: r => if Z.eqb k k' then v else assoc_Z k r
  end.

Definition state_locs (st : sx) : list Z := map (fun b => sx_Z (sx_nth b 0)) (sx_list (sx_nth st 1)).

Definition is_upload_op (op : sx) : bool := (1 <=? tag op) && (tag op <=? 4).

Definition mon_entry (cfg objs : sx) (ops : list sx) (m : mst) (x : sx) : mst :=
  let pos := S (m_pos m) in
  let m := mkM (m_live m) (m_upl m) (m_op m) (m_copies m) (m_final m) (m_exited m) pos (m_lastput m)
               (m_sync_start m) (m_sync_ok m) (m_sync_done m) (m_wcover m) (m_commit m) (m_prev m) (m_viol m) in
  let upd_live l c := mkM l (m_upl m) (m_op m) c (m_final m) (m_exited m) pos (m_lastput m)
               (m_sync_start m) (m_sync_ok m) (m_sync_done m) (m_wcover m) (m_commit m) (m_prev m) (m_viol m) in
  let upd_sync st ok dn wc cm fin ex := mkM (m_live m) (m_upl m) (m_op m) (m_copies m) fin ex pos (m_lastput m)
               st ok dn wc cm (m_prev m) (m_viol m) in
  let content k := sx_nth objs k in
  match tag x with
  | 0 => upd_live (firstn (sx_nat (sx_nth x 1)) (state_locs (sx_nth x 2))) (m_copies m)
  | 1 => if Z.eqb (sx_Z (sx_nth x 1)) 0 then upd_live (m_live m ++ [sx_Z (sx_nth x 2)]) (m_copies m) else m
  | 2 =>
      match m_live m with
      | [] => m
      | l :: rest =>
          (* only a rotation of a full list (old+current+new+1 blocks) is an eviction the property excuses *)
          if Nat.eqb (length (m_live m)) (full_count cfg)
          then upd_live rest (filter (fun c => negb (Z.eqb (c_loc c) l)) (m_copies m))
          else upd_live rest (m_copies m)
      end
  | 3 =>
      let loc := nth_error (m_live m) (sx_nat (sx_nth x 1)) in
      let upl := if Z.eqb (tag (m_op m)) 1
                 then (sx_nat (sx_nth (m_op m) 1), (sx_nat (sx_nth (m_op m) 2), loc)) :: remove_nat (sx_nat (sx_nth (m_op m) 1)) (m_upl m)
                 else m_upl m in
      mkM (m_live m) upl (m_op m) (m_copies m) (m_final m) (m_exited m) pos pos
          (m_sync_start m) (m_sync_ok m) (m_sync_done m) (m_wcover m) (m_commit m) (m_prev m) (m_viol m)
  | 4 => mkM (m_live m) (m_upl m) (m_op m) (m_copies m) (m_final m) (m_exited m) pos pos
          (m_sync_start m) (m_sync_ok m) (m_sync_done m) (m_wcover m) (m_commit m) (m_prev m) (m_viol m)
  | 8 => upd_sync pos false (m_sync_done m) (m_wcover m) (m_commit m)
                  (m_final m || sx_bool (sx_nth x 1)) (m_exited m)
  | 11 => if sx_bool (sx_nth x 1)
          then upd_sync (m_sync_start m) true (m_sync_done m) (m_wcover m) (m_commit m) (m_final m) (m_exited m)
          else m
  | 9 => if m_sync_ok m
         then upd_sync (m_sync_start m) (m_sync_ok m) (m_sync_start m) (m_wcover m) (m_commit m) (m_final m) (m_exited m)
         else m
  | 6 => upd_sync (m_sync_start m) (m_sync_ok m) (m_sync_done m)
                  ((sx_Z (sx_nth x 1), m_sync_done m) :: m_wcover m) (m_commit m) (m_final m) (m_exited m)
  | 13 => if sx_bool (sx_nth x 2)
          then upd_sync (m_sync_start m) (m_sync_ok m) (m_sync_done m) (m_wcover m)
                        (Nat.max (m_commit m) (assoc_Z (sx_Z (sx_nth x 1)) (m_wcover m))) (m_final m) (m_exited m)
          else m
  | 18 => upd_sync (m_sync_start m) (m_sync_ok m) (m_sync_done m) (m_wcover m) (m_commit m) true true
  | 19 => mkM (m_live m) (m_upl m)
              (if sx_Z (sx_nth x 1) <? 0 then L [] else nth (sx_nat (sx_nth x 1)) ops (L [])) (m_copies m) (m_final m) (m_exited m) pos
              (m_lastput m) (m_sync_start m) (m_sync_ok m) (m_sync_done m) (m_wcover m) (m_commit m) (m_prev m) (m_viol m)
  | 30 =>
      let res := sx_nth x 2 in
      match tag res with
      | 0 =>
          if is_upload_op (m_op m) then
            let u := sx_nat (sx_nth (m_op m) 1) in
            let code := sx_Z (sx_nth res 1) in
            let wf := sx_bool (sx_nth res 2) in
            let wrote := match assoc_nat u (m_upl m) with Some (_, Some _) => true | _ => false end in
            (* (a hierarchical upload of content that is already stored writes nothing and loses nothing) *)
            let v2 := if Z.eqb code 0 && m_final m && wrote then [2] else [] in
            let v3 := if m_final m && wf && wrote && negb (Z.eqb code 0) && negb (Z.eqb code 14) then [3] else [] in
            let copies :=
              if Z.eqb code 0 && negb (m_final m) then
                match assoc_nat u (m_upl m) with
                | Some (k, Some loc) => mkCopy k loc false :: m_copies m
                | _ => m_copies m
                end
              else m_copies m in
            mkM (m_live m) (remove_nat u (m_upl m)) (m_op m) copies (m_final m) (m_exited m) pos (m_lastput m)
                (m_sync_start m) (m_sync_ok m) (m_sync_done m) (m_wcover m) (m_commit m) (m_prev m)
                (m_viol m ++ v2 ++ v3)
          else m
      | 2 =>
          let v5 := if Z.eqb (sx_Z (sx_nth res 1)) 0 && negb (sx_eqb (sx_nth res 2) (content (sx_nat (sx_nth res 3))))
                    then [5] else [] in
          mkM (m_live m) (m_upl m) (m_op m) (m_copies m) (m_final m) (m_exited m) pos (m_lastput m)
              (m_sync_start m) (m_sync_ok m) (m_sync_done m) (m_wcover m) (m_commit m) (m_prev m) (m_viol m ++ v5)
      | _ => m
      end
  | 32 =>
      let k := sx_nat (sx_nth x 1) in
      let ok := Z.eqb (sx_Z (sx_nth x 4)) 0 in
      let right := sx_eqb (sx_nth x 5) (content k) in
      let v5 := if ok && negb right then [5] else [] in
      let owed := existsb (fun c => Nat.eqb (c_key c) k && c_old c) (m_copies m) in
      let readable := ok && right && Z.eqb (sx_Z (sx_nth x 2)) 0 && Z.eqb (sx_Z (sx_nth x 3)) 0 in
      let v14 := if owed && negb readable then [if Z.eqb (m_prev m) 1 then 1 else 4] else [] in
      mkM (m_live m) (m_upl m) (m_op m) (m_copies m) (m_final m) (m_exited m) pos (m_lastput m)
          (m_sync_start m) (m_sync_ok m) (m_sync_done m) (m_wcover m) (m_commit m) (m_prev m) (m_viol m ++ v5 ++ v14)
  | _ => m
  end.

(** The process exits: which acknowledged objects does the property promise at the next start? *)
Definition mon_exit (m : mst) : mst :=
  let prev := if m_exited m then 1
              else if (m_lastput m <? m_commit m)%nat then 2 else 0 in
  let copies := if Z.eqb prev 0 then [] else map (fun c => mkCopy (c_key c) (c_loc c) true) (m_copies m) in
  mkM [] [] (L []) copies false false 0 0 0 false 0 [] 0 prev (m_viol m).

Fixpoint mon_incs (cfg objs : sx) (incs hists : list sx) (m : mst) : mst :=
  match incs, hists with
  | inc :: incs', h :: hists' =>
      let m1 := fold_left (mon_entry cfg objs (sx_list (sx_nth inc 1))) (sx_list h) m in
      mon_incs cfg objs incs' hists' (mon_exit m1)
  | _, _ => m
  end.

Fixpoint dedupz (l : list Z) : list Z :=
  match l with
  | [] => []
  | x :: r => if zmem x r then dedupz r else x :: dedupz r
  end.

Definition m_init : mst := mkM [] [] (L []) [] false false 0 0 0 false 0 [] 0 0 [].

Definition mon03 (inp obs : sx) : list Z :=
  if is_marker obs then
    (if Z.eqb (sx_Z (sx_nth obs 0)) (-1) then [7] else [8])
  else
    let m := mon_incs (sx_nth inp 0) (sx_nth inp 1) (sx_list (sx_nth inp 2)) (sx_list obs) m_init in
    dedupz (m_viol m).

(** ================= replay of the call history on the model ================= *)

Record xst := mkX {
  x_sys : sys;
  x_state : pstate;          (* the persistent state on the medium *)
  x_final_due : bool;        (* NotifySyncStarting(true) already performed by the model's PSyncRet step *)
  x_nsy : nat;               (* DataSyncer calls seen *)
  x_nwr : nat;               (* WritePersistentState calls seen *)
  x_rw : nat;                (* number of the release loop's current state write *)
  x_pw : nat                 (* number of the put loop's current state write *)
}.

Definition x_with (x : xst) (s : sys) : xst :=
  mkX s (x_state x) (x_final_due x) (x_nsy x) (x_nwr x) (x_rw x) (x_pw x).

Definition dec_block (bs : Z) (b : sx) : bstate :=
  mkBstate (sx_Z (sx_nth b 0), bs) (sx_Z (sx_nth b 1)) (sx_Ns (sx_nth b 2)).
Definition dec_state (bs : Z) (oldest blocks : sx) : pstate := (sx_N oldest, map (dec_block bs) (sx_list blocks)).

Definition bstate_eqb (a b : bstate) : bool :=
  loc_eqb (bs_loc a) (bs_loc b) && Z.eqb (bs_off a) (bs_off b) &&
  sx_eqb (of_Ns (bs_seeds a)) (of_Ns (bs_seeds b)).
Fixpoint list_eqb {A} (f : A -> A -> bool) (a b : list A) : bool :=
  match a, b with
  | [], [] => true
  | x :: a', y :: b' => f x y && list_eqb f a' b'
  | _, _ => false
  end.
Definition pstate_eqb (a b : pstate) : bool := N.eqb (fst a) (fst b) && list_eqb bstate_eqb (snd a) (snd b).

(** allocator answers of NewBlockAtLocation, in the order of the state's blocks *)
Fixpoint alloc_at_of (blocks : list bstate) (found : list bool) (l : loc) (w : Z) : bool :=
  match blocks, found with
  | b :: bs, f :: fs => if loc_eqb (bs_loc b) l then f else alloc_at_of bs fs l w
  | _, _ => false
  end.

Definition tid_of (z : Z) : tid := if Z.eqb z 0 then TR else TP.

Definition tstep (cfg : config) (t : tid) (a : ans) (x : xst) : option xst :=
  match step cfg (x_sys x) (EStep t a) with
  | Some (Ok s') => Some (x_with x s')
  | _ => None
  end.

(** advance loop [t] by steps that make no PersistentBlockList call until [want] holds *)
Fixpoint advance (cfg : config) (fuel : nat) (t : tid) (a : ans) (want : sys -> bool) (x : xst) : option xst :=
  if want (x_sys x) then Some x
  else match fuel with
       | O => None
       | S f => match tstep cfg t a x with
                | Some x' => advance cfg f t a want x'
                | None => None
                end
       end.

Definition r_at (f : rpc -> bool) (s : sys) : bool := f (s_r s).
Definition p_at (f : ppc -> bool) (s : sys) : bool := f (s_p s).
Definition thread_w (t : tid) (s : sys) : option wpc :=
  match t with
  | TR => match s_r s with RW w => Some w | _ => None end
  | TP => match s_p s with PW _ w => Some w | _ => None end
  end.
Definition at_w (t : tid) (f : wpc -> bool) (s : sys) : bool :=
  match thread_w t s with Some w => f w | None => false end.

Definition is_getstate (w : wpc) : bool := match w with WGetState => true | _ => false end.
Definition is_written (w : wpc) : bool := match w with WWritten => true | _ => false end.
Definition writing_state (w : wpc) : option pstate := match w with WWriting st => Some st | _ => None end.

Definition no_ans : ans := mkAns false 0.
Definition cancel_ans : ans := mkAns true 0.

Definition env (cfg : config) (x : xst) (e : event) : option xst :=
  match step cfg (x_sys x) e with
  | Some (Ok s') => Some (x_with x s')
  | _ => None
  end.

(** what a loop is waiting for, in the harness's encoding *)
Definition w_status (n : nat) (held_by_other : bool) (w : wpc) : sx :=
  match w with
  | WWriting _ => L [A 1; of_nat n]
  | WSleep dl => L [A 2; of_N dl; A 1]
  | WAcquire => if held_by_other then L [A 5] else L [A 99]
  | _ => L [A 99]
  end.
Definition r_status (x : xst) : sx :=
  let s := x_sys x in
  match s_r s with
  | RWait ch =>
      if is_closed (heap (s_pbl s)) ch
      then (match s_store s with Some TP => L [A 5] | _ => L [A 99] end)
      else L [A 0]
  | RW w => w_status (x_rw x) (match s_store s with Some TP => true | _ => false end) w
  | RStart => L [A 99]
  end.
Definition p_status (x : xst) : sx :=
  let s := x_sys x in
  match s_p s with
  | PIdle ch => if s_cancel s || is_closed (heap (s_pbl s)) ch then L [A 99] else L [A 0]
  | PTimer dl => if s_cancel s then L [A 99] else L [A 2; of_N dl; A 0]
  | PSyncing _ _ => L [A 3; of_nat (x_nsy x)]
  | PSyncSleep _ _ dl => L [A 2; of_N dl; A 1]
  | PW _ w => w_status (x_pw x) (match s_store s with Some TR => true | _ => false end) w
  | PExit => L [A 4]
  | _ => L [A 99]
  end.

Definition fin_class (r : fin_result) : Z :=
  match r with FinOk _ => 0 | FinClosed => 1 | FinReleased => 2 | FinBlockError => 3 end.

(** One history entry.  [None] = the model does not accept it (a result differs or a step is not enabled). *)
Definition replay_entry (cfg : config) (bs : Z) (x : xst) (e : sx) : option xst :=
  let s := x_sys x in
  let p := s_pbl s in
  let t := tid_of (sx_Z (sx_nth e 1)) in
  match tag e with
  | 1 =>
      let r := sx_Z (sx_nth e 1) in
      let alloc := if Z.eqb r 0 then Some (sx_Z (sx_nth e 2), bs) else None in
      let want := match snd (push_back alloc p) with PushOk => 0 | PushClosed => 1 | PushAllocFailed => 2 end in
      if Z.eqb r want then env cfg x (EPushBack alloc) else None
  | 2 => env cfg x EPopFront
  | 3 => env cfg x (EPutStart (sx_nat (sx_nth e 1)) (sx_Z (sx_nth e 2)))
  | 4 =>
      let k := sx_nat (sx_nth e 1) in
      let r := sx_Z (sx_nth e 2) in
      let blk := if Z.eqb r 3 then None else Some (if Z.eqb r 0 then sx_Z (sx_nth e 3) else 0) in
      let seed := if Z.eqb r 0 then sx_N (sx_nth e 6) else 0%N in
      match nth_error (s_uploads s) k with
      | Some (Some (tok, size)) =>
          match put_finalize tok blk size seed p with
          | Ok (p', fr) =>
              if Z.eqb (fin_class fr) r then
                let ref_ok :=
                  match fr, tok with
                  | FinOk _, PutAt abs =>
                      match index_to_ref (abs - totalReleased p')%nat p' with
                      | Ok ((ep, bfl), sd) =>
                          N.eqb ep (sx_N (sx_nth e 4)) && N.eqb bfl (sx_N (sx_nth e 5)) && N.eqb sd (sx_N (sx_nth e 6))
                      | Panic => false
                      end
                  | FinOk _, PutClosed => false
                  | _, _ => true
                  end in
                if ref_ok then env cfg x (EFinalize k blk seed) else None
              else None
          | Panic => None
          end
      | _ => None
      end
  | 5 =>
      let closed := sx_bool (sx_nth e 2) in
      match t with
      | TR => match s_r s with
              | RStart => if Bool.eqb closed (release_chan_closed p) then tstep cfg TR no_ans x else None
              | _ => None
              end
      | TP => match s_p s with
              | PStart => if Bool.eqb closed (put_chan_closed p) then tstep cfg TP no_ans x else None
              | _ => None
              end
      end
  | 6 =>
      match advance cfg 4 t no_ans (at_w t is_getstate) x with
      | Some x1 =>
          match tstep cfg t no_ans x1 with
          | Some x2 =>
              match thread_w t (x_sys x2) with
              | Some (WWriting st) =>
                  if pstate_eqb st (dec_state bs (sx_nth e 2) (sx_nth e 3)) then Some x2 else None
              | _ => None
              end
          | None => None
          end
      | None => None
      end
  | 7 => if at_w t is_written s then tstep cfg t no_ans x else None
  | 8 =>
      if sx_bool (sx_nth e 1) then
        if x_final_due x && closedForWriting p
        then Some (mkX s (x_state x) false (x_nsy x) (x_nwr x) (x_rw x) (x_pw x)) else None
      else
        match advance cfg 2 TP cancel_ans (p_at (fun pc => match pc with PNotify _ => true | _ => false end)) x with
        | Some x1 => tstep cfg TP no_ans x1
        | None => None
        end
  | 9 =>
      match s_p s with
      | PSyncRet _ _ =>
          match tstep cfg TP no_ans x with
          | Some x1 =>
              let due := match s_p (x_sys x1) with PSyncing false true => true | _ => false end in
              Some (mkX (x_sys x1) (x_state x1) due (x_nsy x1) (x_nwr x1) (x_rw x1) (x_pw x1))
          | None => None
          end
      | _ => None
      end
  | 10 =>
      match s_p s with
      | PSyncing _ _ =>
          if Nat.eqb (sx_nat (sx_nth e 1)) (S (x_nsy x)) && negb (x_final_due x)
          then Some (mkX s (x_state x) false (S (x_nsy x)) (x_nwr x) (x_rw x) (x_pw x)) else None
      | _ => None
      end
  | 11 =>
      match s_p s with
      | PSyncing _ _ => tstep cfg TP (mkAns (sx_bool (sx_nth e 1)) 0) x
      | _ => None
      end
  | 12 =>
      match thread_w t s with
      | Some (WWriting st) =>
          let n := sx_nat (sx_nth e 2) in
          if pstate_eqb st (dec_state bs (sx_nth e 3) (sx_nth e 4)) && Nat.eqb n (S (x_nwr x))
          then Some (mkX s (x_state x) (x_final_due x) (x_nsy x) n
                         (match t with TR => n | TP => x_rw x end) (match t with TP => n | TR => x_pw x end))
          else None
      | _ => None
      end
  | 13 =>
      match thread_w t s with
      | Some (WWriting st) =>
          let ok := sx_bool (sx_nth e 2) in
          match tstep cfg t (mkAns ok 0) x with
          | Some x1 => Some (mkX (x_sys x1) (if ok then st else x_state x1) (x_final_due x1) (x_nsy x1) (x_nwr x1)
                                 (x_rw x1) (x_pw x1))
          | None => None
          end
      | _ => None
      end
  | 14 =>
      let dl := sx_N (sx_nth e 2) in
      match t with
      | TR => match s_r s with
              | RW (WSleep d) => if N.eqb d dl then Some x else None
              | _ => None
              end
      | TP =>
          match advance cfg 3 TP no_ans
                  (p_at (fun pc => match pc with PTimer _ | PSyncSleep _ _ _ | PW _ (WSleep _) => true | _ => false end)) x with
          | Some x1 =>
              match s_p (x_sys x1) with
              | PTimer d => if N.eqb d dl && negb (sx_bool (sx_nth e 3)) then Some x1 else None
              | PSyncSleep _ _ d | PW _ (WSleep d) => if N.eqb d dl && sx_bool (sx_nth e 3) then Some x1 else None
              | _ => None
              end
          | None => None
          end
      end
  | 15 =>
      let a := mkAns false (sx_N (sx_nth e 2)) in
      match t with
      | TR => match s_r s with RW (WSleep _) => tstep cfg TR a x | _ => None end
      | TP => match s_p s with
              | PTimer _ | PSyncSleep _ _ _ | PW _ (WSleep _) => if s_cancel s && match s_p s with PTimer _ => true | _ => false end
                                                                 then None else tstep cfg TP a x
              | _ => None
              end
      end
  | 16 => env cfg x (ETick (sx_N (sx_nth e 1)))
  | 17 => env cfg x ECancel
  | 18 => match s_p s with PExit => Some x | _ => None end
  | 20 =>
      (* steps that call nothing and wait for nothing have been taken by the implementation *)
      let x1 := match s_p (x_sys x) with
                | PSelect ch => match tstep cfg TP no_ans x with Some x' => x' | None => x end
                | _ => x
                end in
      let x2 := match s_r (x_sys x1) with
                | RWait ch => if is_closed (heap (s_pbl (x_sys x1))) ch
                              then match tstep cfg TR no_ans x1 with Some x' => x' | None => x1 end else x1
                | _ => x1
                end in
      if sx_eqb (sx_nth e 1) (r_status x2) && sx_eqb (sx_nth e 2) (p_status x2) then Some x2 else None
  | _ => Some x
  end.

(** A new incarnation: NewPersistentBlockList from the state on the medium. *)
Definition policy_of (c : sx) : policy :=
  if sx_bool (sx_nth c 4) then ac_policy (sx_nat (sx_nth c 2))
  else cas_policy (sx_nat (sx_nth c 2)) (sx_nat (sx_nth c 3)).

Definition replay_restore (c : sx) (cfg : config) (bs : Z) (st0 : pstate) (now : N) (e : sx) : option xst :=
  let rd := dec_state bs (sx_nth (sx_nth e 2) 0) (sx_nth (sx_nth e 2) 1) in
  if negb (Z.eqb (tag e) 0) || negb (pstate_eqb rd st0) then None
  else
    let found := map sx_bool (sx_list (sx_nth e 3)) in
    let '(p, n) := pbl_new (alloc_at_of (snd rd) found) (fst rd) (snd rd) in
    match get_persistent_state p with
    | Ok (p', view) =>
        if Nat.eqb n (sx_nat (sx_nth e 1)) &&
           pstate_eqb view (dec_state bs (sx_nth (sx_nth e 4) 0) (sx_nth (sx_nth e 4) 1)) &&
           (* the layout NewOldCurrentNewLocationBlobMap gives the restored blocks *)
           Nat.eqb (l_old (ocn_new (policy_of c) (sx_nat (sx_nth c 1)) n)) (sx_nat (sx_nth e 5))
        then Some (mkX (init_sys p' now) st0 false 0 0 0 0) else None
    | Panic => None
    end.

(** Result: [] when the whole history is accepted, else (position entry-tag). *)
Fixpoint replay_entries (cfg : config) (bs : Z) (pos : nat) (x : xst) (es : list sx) : xst * list Z :=
  match es with
  | [] => (x, [])
  | e :: es' =>
      match replay_entry cfg bs x e with
      | Some x' => replay_entries cfg bs (S pos) x' es'
      | None => (x, [Z.of_nat pos; tag e])
      end
  end.

Fixpoint replay_hists (c : sx) (cfg : config) (bs : Z) (inc : nat) (st0 : pstate) (now : N) (hs : list sx) : list Z :=
  match hs with
  | [] => []
  | h :: hs' =>
      match sx_list h with
      | [] => [Z.of_nat inc; -1; -1]
      | e0 :: es =>
          match replay_restore c cfg bs st0 now e0 with
          | None => [Z.of_nat inc; 0; 0]
          | Some x0 =>
              match replay_entries cfg bs 1 x0 es with
              | (x1, []) => replay_hists c cfg bs (S inc) (x_state x1) (s_now (x_sys x1)) hs'
              | (_, bad) => Z.of_nat inc :: bad
              end
          end
      end
  end.

Definition init_pstate : pstate := (1%N, []).

Definition replay03 (inp obs : sx) : list Z :=
  let c := sx_nth inp 0 in
  replay_hists c (mkConfig (sx_N (sx_nth c 9)) (sx_N (sx_nth c 10))) (sx_Z (sx_nth c 0)) 0 init_pstate 0%N (sx_list obs).

Definition judge03 (inp obs : sx) : sx :=
  let v := mon03 inp obs in
  let bad := if is_marker obs then [-1] else replay03 inp obs in
  verdict (match bad with [] => true | _ => false end)
          (negb (match v with [] => true | _ => false end))
          (of_Zs bad) (of_Zs v).
