(** C16: the monitor clauses 8 (Done exactly once at every level) and 9 (every
    underlying reader closed exactly once) never fire on the model's own
    observation: an alarm of these clauses on the unchanged tree can only come
    from an implementation observation that differs from the model's. *)
From Coq Require Import List ZArith NArith Bool Lia.
From BBS Require Import Common.Sx Buffer.Source Buffer.Validate Buffer.Convert Buffer.ErrHandler
  Buffer.ErrHandlerProofs Buffer.ClosedOnceProofs Buffer.ErrHandlerStackProofs Run.R09 Run.R16.
Import ListNotations.
Open Scope Z_scope.

Lemma enc_dones_count log : enc_dones log = A (Z.of_nat (count_done log)).
Proof.
  unfold enc_dones, of_nat, count_done. do 3 f_equal. apply filter_ext. intros [e|]; reflexivity.
Qed.

Theorem clauses_8_9_silent_on_model : forall inp,
  clause8 (q_anss (dec_case16 inp)) (obs_dones (run16 inp)) = true /\
  clause9 (obs_closes (run16 inp)) = true.
Proof.
  intros inp. unfold run16. set (c := dec_case16 inp).
  destruct (run_stack_good (lookup (q_tbl c)) (q_cfg c) (stack_fuel (q_b0 c) (q_anss c)) (q_b0 c) (q_anss c) (q_meth c))
    as (Hlen & Hdone & Hcl).
  set (o := run_stack _ _ _ _ _ _) in *.
  unfold obs_dones, obs_closes, enc_out16s, sx_nth, sx_list, sx_Zs. cbn [nth].
  split.
  - unfold clause8. cbn [sx_list]. rewrite !map_map, map_length, Hlen, Nat.eqb_refl, andb_true_r.
    apply forallb_forall. intros d Hin. apply in_map_iff in Hin. destruct Hin as (log & <- & Hin).
    rewrite enc_dones_count. cbn [sx_Z]. rewrite Forall_forall in Hdone. rewrite (Hdone _ Hin). reflexivity.
  - unfold clause9, of_nats. cbn [sx_list]. rewrite map_map.
    apply forallb_forall. intros d Hin. apply in_map_iff in Hin. destruct Hin as (n & <- & Hin).
    unfold all_one in Hcl. rewrite Forall_forall in Hcl. rewrite (Hcl _ Hin). reflexivity.
Qed.
